module verifharness

go 1.18
