// Package bftkit holds what the VBFT monitors (C28–C31) share: deterministic peer keys,
// stake-set generators and a wrapper that feeds them to the real
// vconfig.GenesisChainConfig, so that every chain configuration a monitor uses is one the
// code under test produced itself.
package bftkit

import (
	"crypto/ecdsa"
	"crypto/elliptic"
	"crypto/sha256"
	"fmt"
	"math/big"
	"sort"
	"sync"

	"github.com/ontio/ontology-crypto/ec"
	"github.com/ontio/ontology-crypto/keypair"
	s "github.com/ontio/ontology-crypto/signature"
	"github.com/ontio/ontology/account"
	"github.com/ontio/ontology/common"
	"github.com/ontio/ontology/common/config"
	"github.com/ontio/ontology/common/log"
	vconfig "github.com/ontio/ontology/consensus/vbft/config"
	"github.com/ontio/ontology/core/types"
	"verifharness/lib/vf"
)

func init() {
	log.InitLog(log.FatalLog) // discard; GenesisChainConfig logs through the global logger
}

// DetAccount returns a deterministic P-256 account derived from tag (same construction as
// lib/chain.DetAccount; duplicated so that the VBFT monitors need not link the ledger).
func DetAccount(tag string) *account.Account {
	h := sha256.Sum256([]byte("verif-account:" + tag))
	c := elliptic.P256()
	d := new(big.Int).SetBytes(h[:])
	n1 := new(big.Int).Sub(c.Params().N, big.NewInt(1))
	d.Mod(d, n1)
	d.Add(d, big.NewInt(1))
	x, y := c.ScalarBaseMult(d.Bytes())
	pri := &ec.PrivateKey{Algorithm: ec.ECDSA, PrivateKey: &ecdsa.PrivateKey{D: d, PublicKey: ecdsa.PublicKey{Curve: c, X: x, Y: y}}}
	pub := pri.Public().(keypair.PublicKey)
	return &account.Account{PrivateKey: pri, PublicKey: pub, Address: types.AddressFromPubKey(pub), SigScheme: s.SHA256withECDSA}
}

var (
	keyMu    sync.Mutex
	keyCache = map[int]*account.Account{}
)

// Key returns the i-th cached deterministic peer account.
func Key(i int) *account.Account {
	keyMu.Lock()
	defer keyMu.Unlock()
	if a, ok := keyCache[i]; ok {
		return a
	}
	a := DetAccount(fmt.Sprintf("bft-peer-%d", i))
	keyCache[i] = a
	return a
}

// KeyID is the node id (hex public key) of Key(i), as stored in ChainConfig.Peers[].ID.
func KeyID(i int) string { return vconfig.PubkeyID(Key(i).PublicKey) }

// Stake shapes.
const (
	ShapeEqual = iota
	ShapeZero
	ShapeDominant
	ShapeRandom
	ShapeFewLarge
	ShapeTies
	ShapeRoundEdge
	ShapeMax
	NShapes
)

var ShapeNames = [NShapes]string{"equal", "zero", "dominant", "random", "fewlarge", "ties", "roundedge", "max"}

// OntTotal is the largest stake the token contract can ever back.
const OntTotal = 1000000000

// Stakes generates n stakes of the given shape; scaleK = (L/K-1)*K is used by the
// round-edge shape to place stake*scaleK/sum on or next to an integer.
func Stakes(rng *vf.RNG, n int, shape int, scaleK uint64) []uint64 {
	st := make([]uint64, n)
	switch shape {
	case ShapeEqual:
		v := uint64(1 + rng.Intn(1000000))
		for i := range st {
			st[i] = v
		}
	case ShapeZero:
	case ShapeDominant:
		for i := range st {
			st[i] = uint64(rng.Intn(50))
		}
		st[rng.Intn(n)] = uint64(OntTotal/2 + rng.Intn(OntTotal/2))
	case ShapeRandom:
		for i := range st {
			st[i] = uint64(rng.Intn(10000000))
		}
	case ShapeFewLarge:
		for i := range st {
			if rng.Chance(25) {
				st[i] = uint64(100000 + rng.Intn(9000000))
			}
		}
	case ShapeTies:
		vals := []uint64{0, 1, uint64(2 + rng.Intn(5)), uint64(1000 + rng.Intn(10))}
		for i := range st {
			st[i] = vals[rng.Intn(len(vals))]
		}
	case ShapeRoundEdge:
		// sum = scaleK*q  =>  stake*scaleK/sum = stake/q: stakes at q*j-1, q*j, q*j+1
		q := uint64(1 + rng.Intn(1000))
		var sum uint64
		for i := 0; i < n-1; i++ {
			j := uint64(rng.Intn(4))
			v := q * j
			switch rng.Intn(3) {
			case 0:
				if v > 0 {
					v--
				}
			case 1:
				v++
			}
			st[i] = v
			sum += v
		}
		target := scaleK * q
		for target < sum {
			target += scaleK * q
		}
		st[n-1] = target - sum
		if st[n-1] > OntTotal {
			st[n-1] = OntTotal
		}
	case ShapeMax:
		// total close to the ONT supply, split unevenly
		rem := uint64(OntTotal)
		for i := range st {
			if i == n-1 || rem == 0 {
				st[i] = rem
				rem = 0
				continue
			}
			v := uint64(rng.U64() % (rem/2 + 1))
			st[i] = v
			rem -= v
		}
	}
	return st
}

// PeerSet builds stake infos for the given key numbers / indices / stakes.
func PeerSet(keyNos []int, indices []uint32, stakes []uint64) []*config.VBFTPeerStakeInfo {
	out := make([]*config.VBFTPeerStakeInfo, len(keyNos))
	for i := range keyNos {
		out[i] = &config.VBFTPeerStakeInfo{Index: indices[i], PeerPubkey: KeyID(keyNos[i]), InitPos: stakes[i]}
	}
	return out
}

// Indices returns n distinct peer indices: contiguous 1..n, or scattered.
func Indices(rng *vf.RNG, n int, scattered bool) []uint32 {
	out := make([]uint32, n)
	if !scattered {
		for i := range out {
			out[i] = uint32(i + 1)
		}
		return out
	}
	cur := uint32(rng.Intn(3))
	for i := range out {
		cur += uint32(1 + rng.Intn(4))
		out[i] = cur
	}
	p := rng.Perm(n)
	res := make([]uint32, n)
	for i := range p {
		res[i] = out[p[i]]
	}
	return res
}

// CopyPeers is a deep copy (GenesisChainConfig sorts its argument in place).
func CopyPeers(in []*config.VBFTPeerStakeInfo) []*config.VBFTPeerStakeInfo {
	out := make([]*config.VBFTPeerStakeInfo, len(in))
	for i, p := range in {
		c := *p
		out[i] = &c
	}
	return out
}

// Genesis calls the real vconfig.GenesisChainConfig on a private copy of peers.
func Genesis(k, l, c uint32, peers []*config.VBFTPeerStakeInfo, txhash common.Uint256, height uint32) (*vconfig.ChainConfig, error) {
	conf := &config.VBFTConfig{N: k, C: c, K: k, L: l, BlockMsgDelay: 10000, HashMsgDelay: 10000, PeerHandshakeTimeout: 10, MaxBlockChangeView: 1000}
	return vconfig.GenesisChainConfig(conf, CopyPeers(peers), txhash, height)
}

// CfgDigest is a canonical rendering of what C30 compares: N, C, Peers in order, PosTable.
func CfgDigest(cfg *vconfig.ChainConfig) string {
	h := sha256.New()
	fmt.Fprintf(h, "N=%d C=%d|", cfg.N, cfg.C)
	for _, p := range cfg.Peers {
		fmt.Fprintf(h, "%d:%s,", p.Index, p.ID)
	}
	fmt.Fprintf(h, "|%v", cfg.PosTable)
	return fmt.Sprintf("%x", h.Sum(nil)[:16])
}

// DistinctSorted returns the sorted distinct values of a table.
func DistinctSorted(t []uint32) []uint32 {
	m := map[uint32]bool{}
	for _, v := range t {
		m[v] = true
	}
	out := make([]uint32, 0, len(m))
	for v := range m {
		out = append(out, v)
	}
	sort.Slice(out, func(i, j int) bool { return out[i] < out[j] })
	return out
}
