// Package chain builds real solo-consensus ledgers (the production ledger store,
// genesis block and execution path) for the ledger-level monitors, with deterministic
// accounts, timestamps and nonces so a chain is a pure function of the seed.
package chain

import (
	"crypto/ecdsa"
	"crypto/elliptic"
	"crypto/sha256"
	"encoding/binary"
	"encoding/hex"
	"fmt"
	"io"
	"math/big"
	"os"
	"path/filepath"
	"sort"

	"github.com/ontio/ontology-crypto/ec"
	"github.com/ontio/ontology-crypto/keypair"
	s "github.com/ontio/ontology-crypto/signature"
	"github.com/ontio/ontology/account"
	"github.com/ontio/ontology/common"
	"github.com/ontio/ontology/common/config"
	"github.com/ontio/ontology/common/constants"
	"github.com/ontio/ontology/common/log"
	"github.com/ontio/ontology/core/genesis"
	"github.com/ontio/ontology/core/ledger"
	"github.com/ontio/ontology/core/payload"
	"github.com/ontio/ontology/core/signature"
	"github.com/ontio/ontology/core/store"
	"github.com/ontio/ontology/core/store/ledgerstore"
	"github.com/ontio/ontology/core/types"
	cutils "github.com/ontio/ontology/core/utils"
	"github.com/syndtr/goleveldb/leveldb"
	"github.com/syndtr/goleveldb/leveldb/opt"
)

func init() {
	log.InitLog(log.FatalLog) // discard
}

// DetAccount returns a deterministic P-256 account derived from tag.
func DetAccount(tag string) *account.Account {
	h := sha256.Sum256([]byte("verif-account:" + tag))
	c := elliptic.P256()
	d := new(big.Int).SetBytes(h[:])
	n1 := new(big.Int).Sub(c.Params().N, big.NewInt(1))
	d.Mod(d, n1)
	d.Add(d, big.NewInt(1))
	x, y := c.ScalarBaseMult(d.Bytes())
	pri := &ec.PrivateKey{Algorithm: ec.ECDSA, PrivateKey: &ecdsa.PrivateKey{D: d, PublicKey: ecdsa.PublicKey{Curve: c, X: x, Y: y}}}
	pub := pri.Public().(keypair.PublicKey)
	return &account.Account{PrivateKey: pri, PublicKey: pub, Address: types.AddressFromPubKey(pub), SigScheme: s.SHA256withECDSA}
}

// Chain is one solo ledger directory + the bookkeeper that seals its blocks.
type Chain struct {
	Dir     string
	Ledger  *ledger.Ledger
	BK      *account.Account   // first bookkeeper (the only one on a solo chain)
	BKs     []*account.Account // all bookkeepers (multi-bookkeeper "dbft"-type chains)
	Genesis *types.Block
}

// SetupSoloConfig points the global config at a solo network sealed by bk.
// (Same effect as `ontology --testmode`: polaris genesis VBFT config, consensus solo.)
func SetupSoloConfig(bk *account.Account) {
	config.DefConfig.Genesis.ConsensusType = config.CONSENSUS_TYPE_SOLO
	config.DefConfig.Genesis.SOLO.Bookkeepers = []string{hex.EncodeToString(keypair.SerializePublicKey(bk.PublicKey))}
	config.DefConfig.P2PNode.NetworkId = config.NETWORK_ID_SOLO_NET
	config.DefConfig.P2PNode.EVMChainId = config.GetEip155ChainID(config.NETWORK_ID_SOLO_NET)
	config.DefConfig.Common.EnableEventLog = true
}

// SetupMultiConfig points the global config at a non-VBFT chain with several bookkeepers
// (consensus type "dbft": headers need n-(n-1)/3 signatures of the full bookkeeper list).
func SetupMultiConfig(bks []*account.Account) {
	config.DefConfig.Genesis.ConsensusType = config.CONSENSUS_TYPE_DBFT
	var keys []string
	for _, b := range bks {
		keys = append(keys, hex.EncodeToString(keypair.SerializePublicKey(b.PublicKey)))
	}
	config.DefConfig.Genesis.DBFT.Bookkeepers = keys
	config.DefConfig.P2PNode.NetworkId = 1000 + uint32(len(bks))
	config.DefConfig.P2PNode.EVMChainId = config.GetEip155ChainID(config.DefConfig.P2PNode.NetworkId)
	config.DefConfig.Common.EnableEventLog = true
}

// NewMulti creates (or reopens) a multi-bookkeeper ledger in dir.
func NewMulti(dir string, bks []*account.Account) (*Chain, error) {
	SetupMultiConfig(bks)
	c := &Chain{Dir: dir, BK: bks[0], BKs: bks}
	if err := c.Open(); err != nil {
		return nil, err
	}
	return c, nil
}

// NewSolo creates (or reopens) a solo ledger in dir.
func NewSolo(dir string, bk *account.Account) (*Chain, error) {
	SetupSoloConfig(bk)
	c := &Chain{Dir: dir, BK: bk, BKs: []*account.Account{bk}}
	if err := c.Open(); err != nil {
		return nil, err
	}
	return c, nil
}

func (c *Chain) Open() error {
	bks, err := config.DefConfig.GetBookkeepers()
	if err != nil {
		return err
	}
	gb, err := genesis.BuildGenesisBlock(bks, config.DefConfig.Genesis)
	if err != nil {
		return err
	}
	c.Genesis = gb
	l, err := ledger.InitLedger(c.Dir, 0, bks, gb)
	if err != nil {
		return err
	}
	c.Ledger = l
	return nil
}

func (c *Chain) Close() error {
	if c.Ledger == nil {
		return nil
	}
	err := c.Ledger.Close()
	c.Ledger = nil
	return err
}

func (c *Chain) Reopen() error {
	if err := c.Close(); err != nil {
		return err
	}
	return c.Open()
}

func (c *Chain) Store() *ledgerstore.LedgerStoreImp {
	return c.Ledger.LedgerStore.(*ledgerstore.LedgerStoreImp)
}

// TimeAt is the synthetic, strictly increasing timestamp of block h.
func TimeAt(h uint32) uint32 { return constants.GENESIS_BLOCK_TIMESTAMP + 100 + 10*h }

// MakeBlock assembles and seals the next block exactly like consensus/solo.makeBlock.
// ts==0 picks TimeAt(height).
func (c *Chain) MakeBlock(txs []*types.Transaction, ts uint32) (*types.Block, error) {
	return c.MakeBlockAt(c.Ledger.GetCurrentBlockHeight(), c.Ledger.GetCurrentBlockHash(), txs, ts)
}

func (c *Chain) MakeBlockAt(height uint32, prevHash common.Uint256, txs []*types.Transaction, ts uint32) (*types.Block, error) {
	nextBookkeeper, err := types.AddressFromBookkeepers(c.bkKeys())
	if err != nil {
		return nil, err
	}
	if ts == 0 {
		ts = TimeAt(height + 1)
	}
	txHash := []common.Uint256{}
	for _, t := range txs {
		txHash = append(txHash, t.Hash())
	}
	txRoot := common.ComputeMerkleRoot(txHash)
	blockRoot := c.Ledger.GetBlockRootWithNewTxRoots(height+1, []common.Uint256{txRoot})
	header := &types.Header{
		Version:          0,
		PrevBlockHash:    prevHash,
		TransactionsRoot: txRoot,
		BlockRoot:        blockRoot,
		Timestamp:        ts,
		Height:           height + 1,
		ConsensusData:    uint64(height+1)*0x9e3779b97f4a7c15 + 12345,
		NextBookkeeper:   nextBookkeeper,
	}
	block := &types.Block{Header: header, Transactions: txs}
	if err := c.Seal(block); err != nil {
		return nil, err
	}
	return block, nil
}

func (c *Chain) bkKeys() []keypair.PublicKey {
	var ks []keypair.PublicKey
	for _, b := range c.BKs {
		ks = append(ks, b.PublicKey)
	}
	return ks
}

// Seal (re-)signs block.Header: the full bookkeeper list, signed by the first
// n-(n-1)/3 bookkeepers (all of them on a solo chain).
func (c *Chain) Seal(block *types.Block) error {
	n := len(c.BKs)
	return c.SealWith(block, c.BKs[:n-(n-1)/3])
}

// SealWith lists every bookkeeper and attaches signatures of the given signers only.
func (c *Chain) SealWith(block *types.Block, signers []*account.Account) error {
	block.Header.Bookkeepers = nil
	block.Header.SigData = nil
	h := ResetHash(block)
	var sigs [][]byte
	for _, a := range signers {
		sig, err := signature.Sign(a, h[:])
		if err != nil {
			return err
		}
		sigs = append(sigs, sig)
	}
	block.Header.Bookkeepers = c.bkKeys()
	block.Header.SigData = sigs
	return nil
}

// ResetHash recomputes the (cached) header hash by re-encoding the header.
func ResetHash(block *types.Block) common.Uint256 {
	// Header.Hash() caches; round-trip through bytes to get a fresh header object.
	sink := common.NewZeroCopySink(nil)
	block.Header.Serialization(sink)
	h := new(types.Header)
	if err := h.Deserialization(common.NewZeroCopySource(sink.Bytes())); err == nil {
		*block.Header = *h
	}
	return block.Header.Hash()
}

// CommitExec commits through the consensus path ExecuteBlock + SubmitBlock.
func (c *Chain) CommitExec(b *types.Block) (store.ExecuteResult, error) {
	res, err := c.Ledger.ExecuteBlock(b)
	if err != nil {
		return res, fmt.Errorf("ExecuteBlock: %w", err)
	}
	return res, c.SubmitExecuted(b, res)
}

// SubmitExecuted is the second half of CommitExec: SubmitBlock of an already executed block.
func (c *Chain) SubmitExecuted(b *types.Block, res store.ExecuteResult) error {
	var msg *types.CrossChainMsg
	if res.CrossStatesRoot != common.UINT256_EMPTY {
		msg = &types.CrossChainMsg{Version: types.CURR_CROSS_STATES_VERSION, Height: b.Header.Height, StatesRoot: res.CrossStatesRoot}
		h := msg.Hash()
		sig, err := signature.Sign(c.BK, h[:])
		if err != nil {
			return err
		}
		msg.SigData = [][]byte{sig}
	}
	if err := c.Ledger.SubmitBlock(b, msg, res); err != nil {
		return fmt.Errorf("SubmitBlock: %w", err)
	}
	return nil
}

// CommitSync commits through the sync path AddBlock.
func (c *Chain) CommitSync(b *types.Block, stateRoot common.Uint256) error {
	return c.Ledger.AddBlock(b, nil, stateRoot)
}

// ---------------------------------------------------------------- transactions

// Nonce source: deterministic per builder.
type TxBuilder struct{ nonce uint32 }

func NewTxBuilder(start uint32) *TxBuilder { return &TxBuilder{nonce: start} }

func (tb *TxBuilder) Invoke(gasPrice, gasLimit uint64, code []byte) *types.MutableTransaction {
	tb.nonce++
	return &types.MutableTransaction{GasPrice: gasPrice, GasLimit: gasLimit, TxType: types.InvokeNeo, Nonce: tb.nonce,
		Payload: &payload.InvokeCode{Code: code}, Sigs: []types.Sig{}}
}

func (tb *TxBuilder) Native(gasPrice, gasLimit uint64, contract common.Address, method string, params []interface{}) (*types.MutableTransaction, error) {
	code, err := cutils.BuildNativeInvokeCode(contract, 0, method, params)
	if err != nil {
		return nil, err
	}
	return tb.Invoke(gasPrice, gasLimit, code), nil
}

func (tb *TxBuilder) Deploy(gasPrice, gasLimit uint64, code []byte, name string) (*types.MutableTransaction, error) {
	tx, err := cutils.NewDeployTransaction(code, name, "1.0", "verif", "v@v", "verif contract", payload.NEOVM_TYPE)
	if err != nil {
		return nil, err
	}
	tb.nonce++
	tx.Nonce = tb.nonce
	tx.GasPrice = gasPrice
	tx.GasLimit = gasLimit
	return tx, nil
}

// Sign appends single-key signature sets by the given accounts; payer = first signer
// unless already set.
func Sign(tx *types.MutableTransaction, signers ...*account.Account) error {
	if tx.Payer == common.ADDRESS_EMPTY && len(signers) > 0 {
		tx.Payer = signers[0].Address
	}
	h := tx.Hash()
	for _, a := range signers {
		sig, err := signature.Sign(a, h[:])
		if err != nil {
			return err
		}
		tx.Sigs = append(tx.Sigs, types.Sig{PubKeys: []keypair.PublicKey{a.PublicKey}, M: 1, SigData: [][]byte{sig}})
	}
	return nil
}

func Immutable(tx *types.MutableTransaction) *types.Transaction {
	t, err := tx.IntoImmutable()
	if err != nil {
		panic(err)
	}
	return t
}

// ---------------------------------------------------------------- fingerprints

// DumpState returns every key/value of the committed state DB (raw keys incl. the one-byte
// data-entry prefix; all 256 prefixes are enumerated through a fresh overlay): hash, count, map.
func (c *Chain) DumpState() (hash string, n int, dump map[string]string) {
	cache := c.Store().VerifStateOverlay() // raw keys: contract storage, contracts, destroyed marks, ETH code/accounts, merkle trees, current block …
	dump = map[string]string{}
	hs := sha256.New()
	for p := 0; p < 256; p++ {
		it := cache.NewIterator([]byte{byte(p)})
		for ok := it.First(); ok; ok = it.Next() {
			k := append([]byte{}, it.Key()...)
			v := append([]byte{}, it.Value()...)
			dump[string(k)] = string(v)
			var l [8]byte
			binary.LittleEndian.PutUint32(l[:4], uint32(len(k)))
			binary.LittleEndian.PutUint32(l[4:], uint32(len(v)))
			hs.Write(l[:])
			hs.Write(k)
			hs.Write(v)
			n++
		}
		it.Release()
	}
	return hex.EncodeToString(hs.Sum(nil)), n, dump
}

// DiffDumps describes the difference of two state dumps (at most max entries).
func DiffDumps(a, b map[string]string, max int) []string {
	var out []string
	keys := map[string]bool{}
	for k := range a {
		keys[k] = true
	}
	for k := range b {
		keys[k] = true
	}
	ks := make([]string, 0, len(keys))
	for k := range keys {
		ks = append(ks, k)
	}
	sort.Strings(ks)
	for _, k := range ks {
		va, oka := a[k]
		vb, okb := b[k]
		if oka != okb || va != vb {
			out = append(out, fmt.Sprintf("%x: %x(%v) -> %x(%v)", k, va, oka, vb, okb))
			if len(out) >= max {
				break
			}
		}
	}
	return out
}

// DumpLevelDB hashes every key/value of a closed LevelDB directory.
func DumpLevelDB(dir string) (hash string, n int, err error) {
	db, err := leveldb.OpenFile(dir, &opt.Options{ErrorIfMissing: true})
	if err != nil {
		return "", 0, err
	}
	defer db.Close()
	it := db.NewIterator(nil, nil)
	defer it.Release()
	hs := sha256.New()
	for it.Next() {
		var l [8]byte
		binary.LittleEndian.PutUint32(l[:4], uint32(len(it.Key())))
		binary.LittleEndian.PutUint32(l[4:], uint32(len(it.Value())))
		hs.Write(l[:])
		hs.Write(it.Key())
		hs.Write(it.Value())
		n++
	}
	return hex.EncodeToString(hs.Sum(nil)), n, it.Error()
}

// CopyDir copies a directory tree (what a SIGKILL leaves on disk: everything written so far).
func CopyDir(src, dst string) error {
	os.RemoveAll(dst)
	return filepath.Walk(src, func(p string, info os.FileInfo, err error) error {
		if err != nil {
			if os.IsNotExist(err) {
				return nil // file removed by the store while we walk (e.g. rotated log)
			}
			return err
		}
		rel, _ := filepath.Rel(src, p)
		t := filepath.Join(dst, rel)
		if info.IsDir() {
			return os.MkdirAll(t, 0o755)
		}
		in, err := os.Open(p)
		if err != nil {
			if os.IsNotExist(err) {
				return nil
			}
			return err
		}
		defer in.Close()
		out, err := os.OpenFile(t, os.O_CREATE|os.O_WRONLY|os.O_TRUNC, 0o644)
		if err != nil {
			return err
		}
		if _, err := io.Copy(out, in); err != nil {
			out.Close()
			return err
		}
		return out.Close()
	})
}

// Fingerprint is the API-level observable state of a ledger at its current height.
type Fingerprint struct {
	Height     uint32
	BlockHash  string
	StateHash  string // full state DB dump hash
	StateKeys  int
	StateRoots []string // GetStateMerkleRoot(h) for all h <= Height
	BlockRoot  string   // GetBlockRootWithNewTxRoots(Height+1, [probe])
	HdrHeight  uint32
}

func (c *Chain) Fingerprint() Fingerprint {
	var f Fingerprint
	f.Height = c.Ledger.GetCurrentBlockHeight()
	bh := c.Ledger.GetCurrentBlockHash()
	f.BlockHash = bh.ToHexString()
	f.StateHash, f.StateKeys, _ = c.DumpState()
	for h := uint32(0); h <= f.Height; h++ {
		r, err := c.Ledger.GetStateMerkleRoot(h)
		if err != nil {
			f.StateRoots = append(f.StateRoots, "err:"+err.Error())
		} else {
			f.StateRoots = append(f.StateRoots, r.ToHexString())
		}
	}
	probe := common.Uint256(sha256.Sum256([]byte("probe")))
	br := c.Ledger.GetBlockRootWithNewTxRoots(f.Height+1, []common.Uint256{probe})
	f.BlockRoot = br.ToHexString()
	f.HdrHeight = c.Ledger.GetCurrentHeaderHeight()
	return f
}

func (f Fingerprint) Equal(g Fingerprint) bool { return f.Diff(g) == "" }

func (f Fingerprint) Diff(g Fingerprint) string {
	switch {
	case f.Height != g.Height:
		return fmt.Sprintf("height %d vs %d", f.Height, g.Height)
	case f.BlockHash != g.BlockHash:
		return "current block hash"
	case f.StateHash != g.StateHash:
		return fmt.Sprintf("state dump (%d vs %d keys)", f.StateKeys, g.StateKeys)
	case f.BlockRoot != g.BlockRoot:
		return "block merkle root"
	case f.HdrHeight != g.HdrHeight:
		return fmt.Sprintf("header height %d vs %d", f.HdrHeight, g.HdrHeight)
	}
	if len(f.StateRoots) != len(g.StateRoots) {
		return "state root count"
	}
	for i := range f.StateRoots {
		if f.StateRoots[i] != g.StateRoots[i] {
			return fmt.Sprintf("state merkle root at height %d: %s vs %s", i, f.StateRoots[i], g.StateRoots[i])
		}
	}
	return ""
}
