package chain

import (
	"crypto/ecdsa"
	"crypto/sha256"
	"math/big"

	ethcom "github.com/ethereum/go-ethereum/common"
	ethtypes "github.com/ethereum/go-ethereum/core/types"
	"github.com/ethereum/go-ethereum/crypto"
	"github.com/ontio/ontology/common"
	"github.com/ontio/ontology/common/config"
	"github.com/ontio/ontology/core/types"
)

// EthAccount is a deterministic secp256k1 key with its 20-byte address.
type EthAccount struct {
	Key  *ecdsa.PrivateKey
	Addr ethcom.Address
}

func (e *EthAccount) OntAddr() common.Address { return common.Address(e.Addr) }

func DetEthAccount(tag string) *EthAccount {
	h := sha256.Sum256([]byte("verif-eth:" + tag))
	k, err := crypto.ToECDSA(h[:])
	if err != nil {
		panic(err)
	}
	return &EthAccount{Key: k, Addr: crypto.PubkeyToAddress(k.PublicKey)}
}

const GWei = 1000000000

// EvmTx builds a signed EIP-155 transaction wrapped as an Ontology transaction.
// to==nil creates a contract.  gasPriceGwei is in GWei units (Ontology's gas price unit).
func EvmTx(from *EthAccount, nonce uint64, to *ethcom.Address, value *big.Int, gasLimit uint64, gasPriceGwei uint64, data []byte) (*types.Transaction, error) {
	gp := new(big.Int).Mul(big.NewInt(int64(gasPriceGwei)), big.NewInt(GWei))
	var tx *ethtypes.Transaction
	if to == nil {
		tx = ethtypes.NewContractCreation(nonce, value, gasLimit, gp, data)
	} else {
		tx = ethtypes.NewTransaction(nonce, *to, value, gasLimit, gp, data)
	}
	signer := ethtypes.NewEIP155Signer(big.NewInt(int64(config.DefConfig.P2PNode.EVMChainId)))
	signed, err := ethtypes.SignTx(tx, signer, from.Key)
	if err != nil {
		return nil, err
	}
	return types.TransactionFromEIP155(signed)
}
