package chain

import (
	"bytes"
	"math/big"

	"github.com/ontio/ontology/common"
	"github.com/ontio/ontology/vm/neovm"
)

// Asm is a tiny NeoVM assembler.
type Asm struct{ pb *neovm.ParamsBuilder }

func NewAsm() *Asm { return &Asm{pb: neovm.NewParamsBuilder(new(bytes.Buffer))} }

func (a *Asm) Op(op neovm.OpCode) *Asm { a.pb.Emit(op); return a }
func (a *Asm) Push(b []byte) *Asm      { a.pb.EmitPushByteArray(b); return a }
func (a *Asm) PushInt(n int64) *Asm    { a.pb.EmitPushInteger(big.NewInt(n)); return a }
func (a *Asm) PushBool(v bool) *Asm    { a.pb.EmitPushBool(v); return a }
func (a *Asm) Raw(b []byte) *Asm {
	for _, x := range b {
		a.pb.Emit(neovm.OpCode(x))
	}
	return a
}
func (a *Asm) Syscall(name string) *Asm {
	a.pb.Emit(neovm.SYSCALL)
	a.Raw(append([]byte{byte(len(name))}, name...))
	return a
}
func (a *Asm) AppCall(addr common.Address) *Asm { a.pb.EmitPushCall(addr[:]); return a }
func (a *Asm) Bytes() []byte                    { return a.pb.ToArray() }
func (a *Asm) Len() int                         { return len(a.pb.ToArray()) }

// KVContractCode is a deployable NeoVM contract: called with [value, key, op] on the
// evaluation stack (op on top); op=true => Storage.Put(key,value), op=false => Storage.Delete(key).
// salt makes distinct contracts (distinct addresses).
func KVContractCode(salt byte) []byte {
	put := NewAsm().Syscall("System.Storage.GetContext").Syscall("System.Storage.Put").Op(neovm.RET).Bytes()
	del := NewAsm().Syscall("System.Storage.GetContext").Syscall("System.Storage.Delete").Op(neovm.DROP).Op(neovm.RET).Bytes()
	// prefix: PUSH salt, DROP (makes the code unique), then JMPIFNOT over the put branch
	pre := NewAsm().Push([]byte{salt, 0x5a}).Op(neovm.DROP).Bytes()
	off := 3 + len(put)
	code := append([]byte{}, pre...)
	code = append(code, byte(neovm.JMPIFNOT), byte(off), byte(off>>8))
	code = append(code, put...)
	code = append(code, del...)
	return code
}

// KVInvoke builds the invoke script calling a deployed KV contract.
func KVInvoke(contract common.Address, key, value []byte, put bool) []byte {
	return NewAsm().Push(value).Push(key).PushBool(put).AppCall(contract).Bytes()
}
