package chain

import (
	"fmt"
	"math/big"

	"github.com/ontio/ontology/account"
	"github.com/ontio/ontology/common"
	"github.com/ontio/ontology/core/types"
	"github.com/ontio/ontology/smartcontract/service/native/ont"
	nutils "github.com/ontio/ontology/smartcontract/service/native/utils"
)

// TransferTx builds and signs a native ONT ("ont") / ONG ("ong") transfer.
func (tb *TxBuilder) TransferTx(asset string, from *account.Account, to common.Address, amount uint64, gasPrice, gasLimit uint64, extraSigners ...*account.Account) (*types.Transaction, error) {
	contract := nutils.OntContractAddress
	if asset == "ong" {
		contract = nutils.OngContractAddress
	}
	sts := []*ont.TransferState{{From: from.Address, To: to, Value: amount}}
	mt, err := tb.Native(gasPrice, gasLimit, contract, "transfer", []interface{}{sts})
	if err != nil {
		return nil, err
	}
	signers := append([]*account.Account{from}, extraSigners...)
	if err := Sign(mt, signers...); err != nil {
		return nil, err
	}
	return Immutable(mt), nil
}

// BalanceOf reads a native token balance (scaled by 10^9) from committed state.
func (c *Chain) BalanceOf(asset string, addr common.Address) (*big.Int, error) {
	contract := nutils.OntContractAddress
	if asset == "ong" {
		contract = nutils.OngContractAddress
	}
	// stored as NativeTokenBalance storage item
	bal, err := nutils.GetNativeTokenBalance(c.Store().GetCacheDB(), append(contract[:], addr[:]...))
	if err != nil {
		return nil, fmt.Errorf("balance decode: %v", err)
	}
	return bal.Balance.BigInt(), nil
}

func ontAddr() common.Address { return nutils.OntContractAddress }

func transferParam(from, to common.Address, v uint64) []interface{} {
	return []interface{}{[]*ont.TransferState{{From: from, To: to, Value: v}}}
}
