package chain

// VBFT ledgers: a real ledger store whose genesis header carries a VBFT chain
// configuration (consensus type "vbft"), as a node of a VBFT network opens it.  Used by
// the header-verification monitors (C32); no consensus server is started.

import (
	"encoding/hex"
	"encoding/json"
	"fmt"

	"github.com/ontio/ontology-crypto/keypair"
	"github.com/ontio/ontology/account"
	"github.com/ontio/ontology/common"
	"github.com/ontio/ontology/common/config"
	vconfig "github.com/ontio/ontology/consensus/vbft/config"
	"github.com/ontio/ontology/core/ledger"
	"github.com/ontio/ontology/core/signature"
	"github.com/ontio/ontology/core/types"
)

// SetupVBFTConfig points the global config at a VBFT network whose genesis chain
// configuration has exactly the given peers (all of them consensus nodes: K = N) and
// fault bound C.  Peer i gets index i+1 and a stake that decreases with i.
func SetupVBFTConfig(peers []*account.Account, C int) {
	n := len(peers)
	var ps []*config.VBFTPeerStakeInfo
	for i, a := range peers {
		ps = append(ps, &config.VBFTPeerStakeInfo{Index: uint32(i + 1), PeerPubkey: hex.EncodeToString(keypair.SerializePublicKey(a.PublicKey)),
			Address: a.Address.ToBase58(), InitPos: uint64(10000 + 1000*(n-i))})
	}
	config.DefConfig.Genesis.ConsensusType = config.CONSENSUS_TYPE_VBFT
	config.DefConfig.Genesis.VBFT = &config.VBFTConfig{
		N: uint32(n), C: uint32(C), K: uint32(n), L: uint32(16 * n),
		BlockMsgDelay: 10000, HashMsgDelay: 10000, PeerHandshakeTimeout: 10, MaxBlockChangeView: 1000000,
		AdminOntID: "did:ont:AdjfcJgwru2FD8kotCPvLDXYzRjqFjc9Tb", MinInitStake: 10000,
		VrfValue: "1c9810aa9822e511d5804a9c4db9dd08497c31087b0daafa34d768a3253441fa20515e2f30f81741102af0ca3cefc4818fef16adb825fbaa8cad78647f3afb590e",
		VrfProof: "c57741f934042cb8d8b087b44b161db56fc3ffd4ffb675d36cd09f83935be853d8729f3f5298d12d6fd28d45dde515a4b9d7f67682d182ba5118abf451ff1988",
		Peers:    ps,
	}
	config.DefConfig.P2PNode.NetworkId = 7400 + uint32(n)
	config.DefConfig.P2PNode.EVMChainId = config.GetEip155ChainID(config.DefConfig.P2PNode.NetworkId)
	config.DefConfig.Common.EnableEventLog = true
}

// NewVBFT creates (or reopens) a VBFT ledger in dir: production genesis block for the
// given peer set (its header's consensus payload carries the chain config with N, C and
// the peer keys), production ledger.InitLedger.  c.BKs are the peers in the given order.
func NewVBFT(dir string, peers []*account.Account, C int) (*Chain, error) {
	SetupVBFTConfig(peers, C)
	c := &Chain{Dir: dir, BK: peers[0], BKs: peers}
	if err := c.Open(); err != nil {
		return nil, err
	}
	return c, nil
}

// OpenSame opens the ledger in c.Dir with the genesis block already built for this chain
// (no rebuild from the global config, so several chains of the same network may be
// (re)opened from different goroutines).
func (c *Chain) OpenSame() error {
	if c.Genesis == nil {
		return fmt.Errorf("OpenSame: no genesis block yet")
	}
	bks := keypair.SortPublicKeys(append([]keypair.PublicKey{}, c.bkKeys()...))
	l, err := ledger.InitLedger(c.Dir, 0, bks, c.Genesis)
	if err != nil {
		return err
	}
	c.Ledger = l
	return nil
}

// CloneAt opens a second handle description for a copy of this chain's directory (the
// copy must have been made while the ledger was closed).
func (c *Chain) CloneAt(dir string) *Chain {
	return &Chain{Dir: dir, BK: c.BK, BKs: c.BKs, Genesis: c.Genesis}
}

// VBFTGenesisConfig decodes the chain configuration from the genesis header.
func (c *Chain) VBFTGenesisConfig() (*vconfig.ChainConfig, error) {
	info, err := vconfig.VbftBlock(c.Genesis.Header)
	if err != nil {
		return nil, err
	}
	if info.NewChainConfig == nil {
		return nil, fmt.Errorf("genesis header carries no chain config")
	}
	return info.NewChainConfig, nil
}

// VBFTPayload is the consensus payload consensus/vbft puts on a block header.
func VBFTPayload(proposer uint32, vrfValue, vrfProof []byte, lastConfigBlockNum uint32, newCfg *vconfig.ChainConfig) []byte {
	b, err := json.Marshal(&vconfig.VbftBlockInfo{Proposer: proposer, VrfValue: vrfValue, VrfProof: vrfProof,
		LastConfigBlockNum: lastConfigBlockNum, NewChainConfig: newCfg})
	if err != nil {
		panic(err)
	}
	return b
}

// NextVBFTHeader builds the unsigned header of an empty next block on top of (height,
// prevHash, prevTs) the way consensus/vbft.constructBlock does: tx root of the empty
// list, block root from the ledger, consensus payload = JSON VbftBlockInfo.
// ts==0 picks prevTs+1.
func (c *Chain) NextVBFTHeader(prev *types.Header, ts uint32, consensusData uint64, payload []byte) *types.Header {
	if ts == 0 {
		ts = prev.Timestamp + 1
	}
	txRoot := common.ComputeMerkleRoot([]common.Uint256{})
	h := &types.Header{
		Version:          0,
		PrevBlockHash:    prev.Hash(),
		TransactionsRoot: txRoot,
		Timestamp:        ts,
		Height:           prev.Height + 1,
		ConsensusData:    consensusData,
		ConsensusPayload: payload,
	}
	if c.Ledger.GetCurrentBlockHeight() == prev.Height {
		h.BlockRoot = c.Ledger.GetBlockRootWithNewTxRoots(prev.Height+1, []common.Uint256{txRoot})
	}
	return h
}

// SignHash returns a's signature over hash (serialized as headers carry it).
func SignHash(a *account.Account, hash common.Uint256) []byte {
	sig, err := signature.Sign(a, hash[:])
	if err != nil {
		panic(err)
	}
	return sig
}

// HeaderBytes / HeaderFromBytes: headers travel as bytes; decoding also drops any cached hash.
func HeaderBytes(h *types.Header) []byte {
	sink := common.NewZeroCopySink(nil)
	h.Serialization(sink)
	return sink.Bytes()
}

func HeaderFromBytes(b []byte) (*types.Header, error) {
	h := new(types.Header)
	if err := h.Deserialization(common.NewZeroCopySource(b)); err != nil {
		return nil, err
	}
	return h, nil
}
