package chain

import (
	"fmt"
	"math/big"

	"github.com/ontio/ontology/account"
	"github.com/ontio/ontology/common"
	"github.com/ontio/ontology/core/types"
	"verifharness/lib/vf"
)

// World is the set of actors of a generated chain history.
type World struct {
	BK    *account.Account
	Accts []*account.Account
	Eth   []*EthAccount
	KV    common.Address
	TB    *TxBuilder

	ethNonce []uint64
	kvKeys   [][]byte
}

func NewWorld(tag string, nAccts int) *World {
	w := &World{BK: DetAccount(tag + "/bookkeeper"), TB: NewTxBuilder(1000)}
	for i := 0; i < nAccts; i++ {
		w.Accts = append(w.Accts, DetAccount(fmt.Sprintf("%s/acct%d", tag, i)))
	}
	for i := 0; i < 2; i++ {
		w.Eth = append(w.Eth, DetEthAccount(fmt.Sprintf("%s/eth%d", tag, i)))
	}
	w.ethNonce = make([]uint64, len(w.Eth))
	code := KVContractCode(7)
	w.KV = common.AddressFromVmCode(code)
	for i := 0; i < 6; i++ {
		w.kvKeys = append(w.kvKeys, []byte(fmt.Sprintf("k%d", i%4)+string(make([]byte, i/4))))
	}
	return w
}

// FundingTxs is the content of block 1: the bookkeeper (who owns everything on a solo
// net) funds the actors, and the KV contract is deployed.
func (w *World) FundingTxs() []*types.Transaction {
	var txs []*types.Transaction
	for _, a := range w.Accts {
		t1, err := w.TB.TransferTx("ont", w.BK, a.Address, 1000000, 0, 20000)
		must(err)
		t2, err := w.TB.TransferTx("ong", w.BK, a.Address, 1000000000000000, 0, 20000)
		must(err)
		txs = append(txs, t1, t2)
	}
	for _, e := range w.Eth {
		t, err := w.TB.TransferTx("ong", w.BK, e.OntAddr(), 5000000000000000, 0, 20000)
		must(err)
		txs = append(txs, t)
	}
	d, err := w.TB.Deploy(0, 30000000, KVContractCode(7), "kv")
	must(err)
	must(Sign(d, w.BK))
	txs = append(txs, Immutable(d))
	return txs
}

func must(err error) {
	if err != nil {
		panic(err)
	}
}

// RandomTxs generates 0..maxN transactions of mixed kinds; every generated block is
// valid (failing transactions fail *inside* the block, they do not invalidate it).
func (w *World) RandomTxs(rng *vf.RNG, maxN int) (txs []*types.Transaction, kinds []string) {
	n := rng.Intn(maxN + 1)
	for i := 0; i < n; i++ {
		from := w.Accts[rng.Intn(len(w.Accts))]
		to := w.Accts[rng.Intn(len(w.Accts))]
		gp := uint64(0)
		if rng.Chance(50) {
			gp = 2500
		}
		switch k := rng.Intn(10); {
		case k < 3: // ONT transfer, sometimes zero / self / over-balance
			amt := uint64(rng.Intn(50))
			if rng.Chance(15) {
				amt = 0
			}
			if rng.Chance(10) {
				amt = 2000000000 // over balance -> fails inside
			}
			if rng.Chance(10) {
				to = from
			}
			t, err := w.TB.TransferTx("ont", from, to.Address, amt, gp, 20000)
			must(err)
			txs = append(txs, t)
			kinds = append(kinds, "ont")
		case k < 6: // ONG transfer
			amt := uint64(rng.Intn(1000000))
			if rng.Chance(10) {
				amt = ^uint64(0) >> 1
			}
			t, err := w.TB.TransferTx("ong", from, to.Address, amt, gp, 20000)
			must(err)
			txs = append(txs, t)
			kinds = append(kinds, "ong")
		case k < 8: // contract storage put / delete
			key := w.kvKeys[rng.Intn(len(w.kvKeys))]
			put := rng.Chance(70)
			val := rng.Bytes(rng.Intn(12))
			mt := w.TB.Invoke(gp, 30000, KVInvoke(w.KV, key, val, put))
			must(Sign(mt, from))
			txs = append(txs, Immutable(mt))
			if put {
				kinds = append(kinds, "kvput")
			} else {
				kinds = append(kinds, "kvdel")
			}
		case k < 9: // EVM value transfer (always valid: right nonce, ample balance)
			ei := rng.Intn(len(w.Eth))
			dst := w.Eth[(ei+1)%len(w.Eth)].Addr
			t, err := EvmTx(w.Eth[ei], w.ethNonce[ei], &dst, big.NewInt(int64(rng.Intn(1000)+1)*GWei), 30000, 2500, nil)
			must(err)
			w.ethNonce[ei]++
			txs = append(txs, t)
			kinds = append(kinds, "evm")
		default: // unauthorised transfer: signed by someone else -> fails inside
			other := w.Accts[(rng.Intn(len(w.Accts)-1)+1+indexOf(w.Accts, from))%len(w.Accts)]
			mt, err := w.TB.Native(gp, 20000, ontAddr(), "transfer", transferParam(from.Address, to.Address, 1))
			must(err)
			must(Sign(mt, other))
			txs = append(txs, Immutable(mt))
			kinds = append(kinds, "unauth")
		}
	}
	return
}

func indexOf(l []*account.Account, a *account.Account) int {
	for i, x := range l {
		if x == a {
			return i
		}
	}
	return 0
}
