// Package evmasm is a tiny EVM bytecode assembler for straight-line test programs:
// minimal PUSHes, value-carrying CALL, CREATE from an embedded init code, SELFDESTRUCT,
// REVERT / INVALID / infinite loop, SSTORE, and the standard "deployer" init code that
// returns a runtime program.  No labels besides backward loops are needed.
package evmasm

import (
	"fmt"
	"math/big"
)

// opcodes used by the monitors
const (
	STOP         = 0x00
	ADD          = 0x01
	ADDRESS      = 0x30
	BALANCE      = 0x31
	ORIGIN       = 0x32
	CALLER       = 0x33
	CALLVALUE    = 0x34
	CODECOPY     = 0x39
	SELFBALANCE  = 0x47
	POP          = 0x50
	MSTORE       = 0x52
	SLOAD        = 0x54
	SSTORE       = 0x55
	JUMP         = 0x56
	GAS          = 0x5a
	JUMPDEST     = 0x5b
	PUSH1        = 0x60
	DUP1         = 0x80
	LOG0         = 0xa0
	CREATE       = 0xf0
	CALL         = 0xf1
	CALLCODE     = 0xf2
	RETURN       = 0xf3
	DELEGATECALL = 0xf4
	STATICCALL   = 0xfa
	REVERT       = 0xfd
	INVALID      = 0xfe
	SELFDESTRUCT = 0xff
)

type Asm struct{ b []byte }

func New() *Asm { return &Asm{} }

func (a *Asm) Bytes() []byte { return append([]byte{}, a.b...) }
func (a *Asm) Len() int      { return len(a.b) }

// Op appends raw opcodes.
func (a *Asm) Op(ops ...byte) *Asm { a.b = append(a.b, ops...); return a }

// PushBytes emits PUSHn for 1..32 literal bytes.
func (a *Asm) PushBytes(v []byte) *Asm {
	if len(v) == 0 || len(v) > 32 {
		panic(fmt.Sprintf("evmasm: push of %d bytes", len(v)))
	}
	a.b = append(a.b, byte(PUSH1+len(v)-1))
	a.b = append(a.b, v...)
	return a
}

// Push emits the shortest PUSH of a non-negative integer < 2^256.
func (a *Asm) Push(v *big.Int) *Asm {
	if v.Sign() < 0 || v.BitLen() > 256 {
		panic("evmasm: push out of range")
	}
	b := v.Bytes()
	if len(b) == 0 {
		b = []byte{0}
	}
	return a.PushBytes(b)
}

func (a *Asm) PushU(v uint64) *Asm { return a.Push(new(big.Int).SetUint64(v)) }

func (a *Asm) PushAddr(addr [20]byte) *Asm { return a.PushBytes(addr[:]) }

// SStore: storage[slot] = val.
func (a *Asm) SStore(slot, val uint64) *Asm { return a.PushU(val).PushU(slot).Op(SSTORE) }

// CallTail emits `PUSH gas; CALL; POP` assuming the caller already pushed
// retSize, retOff, argSize, argOff, value, address (in that order).
func (a *Asm) callTail(gas uint64) *Asm {
	if gas == 0 {
		a.Op(GAS)
	} else {
		a.PushU(gas)
	}
	return a.Op(CALL, POP)
}

// Call: CALL(gas, addr, value) without arguments; the success flag is dropped.
// gas 0 means "all remaining gas" (GAS opcode).
func (a *Asm) Call(gas uint64, addr [20]byte, value *big.Int) *Asm {
	a.PushU(0).PushU(0).PushU(0).PushU(0).Push(value).PushAddr(addr)
	return a.callTail(gas)
}

// CallDyn: like Call, but value and target are produced by opcode snippets that each push
// exactly one word (e.g. []byte{SELFBALANCE}, []byte{ORIGIN}).
func (a *Asm) CallDyn(gas uint64, addrCode, valueCode []byte) *Asm {
	a.PushU(0).PushU(0).PushU(0).PushU(0).Op(valueCode...).Op(addrCode...)
	return a.callTail(gas)
}

// storeCode writes code into memory at offset 0 (32-byte words, zero padded).
func (a *Asm) storeCode(code []byte) *Asm {
	for off := 0; off < len(code); off += 32 {
		var w [32]byte
		copy(w[:], code[off:])
		a.PushBytes(w[:]).PushU(uint64(off)).Op(MSTORE)
	}
	return a
}

// Create: CREATE(value, init); the new address is dropped.  valueCode pushes one word.
func (a *Asm) Create(valueCode []byte, init []byte) *Asm {
	a.storeCode(init)
	a.PushU(uint64(len(init))).PushU(0).Op(valueCode...).Op(CREATE, POP)
	return a
}

func (a *Asm) SelfDestruct(addr [20]byte) *Asm { return a.PushAddr(addr).Op(SELFDESTRUCT) }
func (a *Asm) SelfDestructDyn(addrCode []byte) *Asm {
	return a.Op(addrCode...).Op(SELFDESTRUCT)
}
func (a *Asm) Stop() *Asm    { return a.Op(STOP) }
func (a *Asm) Invalid() *Asm { return a.Op(INVALID) }
func (a *Asm) Revert() *Asm  { return a.PushU(0).PushU(0).Op(REVERT) }
func (a *Asm) Return0() *Asm { return a.PushU(0).PushU(0).Op(RETURN) }

// Loop emits an infinite loop (runs until out of gas).
func (a *Asm) Loop() *Asm {
	pc := uint64(len(a.b))
	return a.Op(JUMPDEST).PushU(pc).Op(JUMP)
}

// PushCode returns the snippet pushing a literal.
func PushCode(v *big.Int) []byte { return New().Push(v).Bytes() }
func PushAddrCode(addr [20]byte) []byte { return New().PushAddr(addr).Bytes() }

// Deployer returns init code that installs runtime as the contract's code.
func Deployer(runtime []byte) []byte {
	// PUSH2 len, DUP1, PUSH2 off, PUSH1 0, CODECOPY, PUSH1 0, RETURN ; off = 13
	n := len(runtime)
	if n > 0xffff {
		panic("evmasm: runtime too large")
	}
	pre := []byte{PUSH1 + 1, byte(n >> 8), byte(n), DUP1, PUSH1 + 1, 0, 13, PUSH1, 0, CODECOPY, PUSH1, 0, RETURN}
	return append(pre, runtime...)
}
