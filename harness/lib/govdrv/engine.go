package govdrv

import (
	"fmt"

	"github.com/ontio/ontology/common"
	"github.com/ontio/ontology/core/store"
	"github.com/ontio/ontology/core/store/ledgerstore"
	"github.com/ontio/ontology/core/store/overlaydb"
	"github.com/ontio/ontology/core/types"
	"github.com/ontio/ontology/smartcontract/event"
	"github.com/ontio/ontology/smartcontract/service/neovm"
	"github.com/ontio/ontology/smartcontract/storage"
	"verifharness/lib/chain"
	"verifharness/lib/vf"
)

// TxResult is what one executed transaction produced.
type TxResult struct {
	OK     bool
	Err    string      // handler error (virtual engine only; the ledger only logs it)
	Panic  interface{} // Go panic raised inside the contract (the real node would crash)
	Notify []*event.NotifyEventInfo
}

// Engine executes one signed transaction at a time and exposes the resulting state.
type Engine interface {
	// Exec runs tx in a block with the given height/timestamp (consecutive calls with the
	// same height belong to the same block).
	Exec(tx *types.Transaction, height, ts uint32) TxResult
	// View is a read-only CacheDB over the state after the last executed transaction.
	View() *storage.CacheDB
	// Fork returns a scratch continuation: same state, later executions are not visible here.
	Fork() Engine
	Close()
}

// ---------------------------------------------------------------- virtual-height engine

// VEngine runs the production transaction handler (ledgerstore.StateStore.HandleInvokeTransaction:
// commit-on-success of the per-tx cache, gas handling, notifications) on an in-memory state
// store initialised with a byte-for-byte copy of a real solo ledger's state DB.  The block
// header (height, timestamp) is chosen by the caller, which is the only way to reach the
// governance contract's height-gated code (NEW_VERSION_BLOCK = 414100) within a test budget:
// the ledger itself only accepts consecutive heights.
type VEngine struct {
	ss       *ledgerstore.StateStore
	ledger   store.LedgerStore
	gasTable map[string]uint64
	prev     common.Uint256
	// scratch != nil: a scratch continuation.  Transactions commit into this overlay only,
	// nothing reaches ss; valid until the parent executes its next transaction.
	scratch *overlaydb.OverlayDB
}

func newGasTable() map[string]uint64 {
	g := map[string]uint64{}
	neovm.GAS_TABLE.Range(func(k, v interface{}) bool {
		g[k.(string)] = v.(uint64)
		return true
	})
	return g
}

// In-memory state stores are recycled: a MemStateStore cannot be closed (its Close
// dereferences the absent merkle hash store) and every goleveldb instance keeps a 4 MiB
// write buffer and background goroutines.
var ssPool = make(chan *ledgerstore.StateStore, 64)

func acquireStore() *ledgerstore.StateStore {
	select {
	case ss := <-ssPool:
		// wipe
		ov := ss.NewOverlayDB()
		ss.NewBatch()
		for p := 0; p < 256; p++ {
			it := ov.NewIterator([]byte{byte(p)})
			for ok := it.First(); ok; ok = it.Next() {
				ss.BatchDeleteRawKey(append([]byte{}, it.Key()...))
			}
			it.Release()
		}
		if err := ss.CommitTo(); err != nil {
			panic(err)
		}
		return ss
	default:
		return ledgerstore.NewMemStateStore(0)
	}
}

func NewVEngine(w *World) *VEngine {
	e := &VEngine{ss: acquireStore(), ledger: w.Chain.Store(), gasTable: newGasTable()}
	e.ss.NewBatch()
	for _, kv := range w.Snapshot {
		e.ss.BatchPutRawKeyVal(kv.K, kv.V)
	}
	if err := e.ss.CommitTo(); err != nil {
		panic(err)
	}
	return e
}

func (e *VEngine) Exec(tx *types.Transaction, height, ts uint32) (res TxResult) {
	hdr := &types.Header{Version: 0, PrevBlockHash: e.prev, Height: height, Timestamp: ts, ConsensusData: uint64(height)}
	block := &types.Block{Header: hdr, Transactions: []*types.Transaction{tx}}
	overlay := e.scratch
	if overlay == nil {
		overlay = e.ss.NewOverlayDB()
	}
	cache := storage.NewCacheDB(overlay)
	notify := &event.ExecuteNotify{TxHash: tx.Hash(), State: event.CONTRACT_STATE_FAIL}
	var err error
	if p := vf.Catch(func() {
		_, err = e.ss.HandleInvokeTransaction(e.ledger, overlay, e.gasTable, cache, tx, block, notify)
	}); p != nil {
		res.Panic = p
		res.Err = fmt.Sprint("panic: ", p)
		return res // the per-tx cache was not committed
	}
	if oe := overlay.Error(); oe != nil {
		res.Err = "overlay: " + oe.Error()
		return res
	}
	if err != nil {
		res.Err = err.Error()
	}
	res.OK = err == nil && notify.State == event.CONTRACT_STATE_SUCCESS
	res.Notify = notify.Notify
	if e.scratch != nil {
		return res
	}
	// persist the write set exactly like saveBlockToStateStore does
	e.ss.NewBatch()
	overlay.GetWriteSet().ForEach(func(key, val []byte) {
		if len(val) == 0 {
			e.ss.BatchDeleteRawKey(key)
		} else {
			e.ss.BatchPutRawKeyVal(key, val)
		}
	})
	if err := e.ss.CommitTo(); err != nil {
		panic(err)
	}
	return res
}

func (e *VEngine) View() *storage.CacheDB {
	if e.scratch != nil {
		return storage.NewCacheDB(e.scratch)
	}
	return storage.NewCacheDB(e.ss.NewOverlayDB())
}

// Fork is a scratch continuation of the current state (usable until e executes again).
func (e *VEngine) Fork() Engine {
	if e.scratch != nil {
		panic("fork of a fork")
	}
	return &VEngine{ss: e.ss, ledger: e.ledger, gasTable: e.gasTable, prev: e.prev, scratch: e.ss.NewOverlayDB()}
}

func (e *VEngine) Close() {
	if e.scratch == nil && e.ss != nil {
		select {
		case ssPool <- e.ss:
		default:
		}
		e.ss = nil
	}
}

// ---------------------------------------------------------------- ledger engine

// LEngine commits every transaction in its own block through the ledger's consensus path.
type LEngine struct {
	C *chain.Chain
}

func (e *LEngine) Exec(tx *types.Transaction, height, ts uint32) (res TxResult) {
	if height != e.C.Ledger.GetCurrentBlockHeight()+1 {
		panic(fmt.Sprintf("ledger engine: height %d is not next height %d", height, e.C.Ledger.GetCurrentBlockHeight()+1))
	}
	b, err := e.C.MakeBlock([]*types.Transaction{tx}, ts)
	if err != nil {
		panic(err)
	}
	var er store.ExecuteResult
	if p := vf.Catch(func() { er, err = e.C.CommitExec(b) }); p != nil {
		res.Panic = p
		res.Err = fmt.Sprint("panic: ", p)
		return res
	}
	if err != nil {
		res.Err = "block: " + err.Error()
		return res
	}
	if len(er.Notify) == 1 {
		res.OK = er.Notify[0].State == event.CONTRACT_STATE_SUCCESS
		res.Notify = er.Notify[0].Notify
	}
	return res
}

func (e *LEngine) View() *storage.CacheDB { return e.C.Store().GetCacheDB() }
func (e *LEngine) Fork() Engine           { return nil }
func (e *LEngine) Close()                 { e.C.Close() }

// ---------------------------------------------------------------- state dump

// Dump is the full contract-storage content (ST_STORAGE prefix: key = contract address ||
// contract key) of a state view.
func Dump(v *storage.CacheDB) map[string]string {
	d := map[string]string{}
	it := v.NewIterator(nil) // CacheDB prepends ST_STORAGE: the whole contract-storage range
	for ok := it.First(); ok; ok = it.Next() {
		d[string(it.Key())] = string(it.Value())
	}
	it.Release()
	return d
}
