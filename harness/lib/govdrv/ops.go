package govdrv

import (
	"fmt"
	"sort"
	"strings"

	"github.com/ontio/ontology/common"
	"github.com/ontio/ontology/core/types"
	cutils "github.com/ontio/ontology/core/utils"
	gov "github.com/ontio/ontology/smartcontract/service/native/governance"
	"github.com/ontio/ontology/smartcontract/service/native/ont"
	"verifharness/lib/chain"
	"verifharness/lib/vf"
)

// Op is one generated operation: a signed invoke transaction plus what the oracles need
// to know about it.
type Op struct {
	Kind    string // governance method, or "ongIncome" / "ontApprove" / "ongApprove"
	Variant string // "valid" or the way it was made invalid on purpose
	Desc    string // concrete parameters with actor / node names (the witness line)
	Signers string
	Height  uint32
	Ts      uint32
	Tx      *types.Transaction `json:"-"`

	// semantic fields for the oracles
	Addr    common.Address `json:"-"`
	Peers   []string       `json:"-"`
	Amounts []uint32       `json:"-"`
}

func (o *Op) String() string {
	return fmt.Sprintf("h=%d t=%d %s[%s] %s signed=%s", o.Height, o.Ts, o.Kind, o.Variant, o.Desc, o.Signers)
}

// Gen is the state-aware operation generator of one history.
type Gen struct {
	W       *World
	TB      *chain.TxBuilder
	Rng     *vf.RNG
	Height  uint32
	Ts      uint32
	Profile string // "c10" emphasises fee/epoch operations, "c11" stake operations
	LowEra  bool   // history runs on real (low) heights: no height jumps

	queue     []func(st *GovState) *Op
	Scenarios map[string]int
	lastBlock bool // previous op's block can be shared
}

const gasLimit = 100_000_000

func (g *Gen) actorOf(a common.Address) *Actor {
	for _, x := range g.W.AllActors() {
		if x.Addr() == a {
			return x
		}
	}
	return nil
}

func (g *Gen) stakeHolders() []*Actor {
	l := append([]*Actor{}, g.W.Owners...)
	return append(l, g.W.Stakers...)
}

func (g *Gen) pick(l []*Actor) *Actor { return l[g.Rng.Intn(len(l))] }

func sortedPeers(pool map[string]*gov.PeerPoolItem) []string {
	ks := make([]string, 0, len(pool))
	for k := range pool {
		ks = append(ks, k)
	}
	sort.Strings(ks)
	return ks
}

func (g *Gen) peersWith(st *GovState, f func(p *gov.PeerPoolItem) bool) []string {
	var l []string
	pool := st.Pool()
	for _, k := range sortedPeers(pool) {
		if f(pool[k]) {
			l = append(l, k)
		}
	}
	return l
}

func active(p *gov.PeerPoolItem) bool {
	return p.Status == gov.CandidateStatus || p.Status == gov.ConsensusStatus
}

// unknownPK is a well-formed VRF-capable key that is in no pool.
func (g *Gen) unknownPK(st *GovState) string {
	for i := len(g.W.Nodes) - 1; i >= 0; i-- {
		if _, ok := st.Pool()[g.W.Nodes[i].PK]; !ok {
			return g.W.Nodes[i].PK
		}
	}
	return g.W.Nodes[len(g.W.Nodes)-1].PK
}

func (g *Gen) nextBlock(jump uint32) {
	if g.LowEra {
		g.Height++
	} else {
		g.Height += 1 + jump
	}
	g.Ts += uint32(1 + g.Rng.Intn(40))
	if g.Rng.Chance(20) {
		g.Ts += uint32(g.Rng.Intn(3000))
	}
}

// native builds and signs a governance (or token) invoke.
func (g *Gen) native(contract common.Address, method string, param interface{}, signers ...*Actor) *types.Transaction {
	mt, err := g.TB.Native(0, gasLimit, contract, method, []interface{}{param})
	if err != nil {
		panic(fmt.Sprintf("build %s: %v", method, err))
	}
	for _, s := range signers {
		if err := chain.Sign(mt, s.Acc); err != nil {
			panic(err)
		}
	}
	return chain.Immutable(mt)
}

func names(l []*Actor) string {
	var s []string
	for _, a := range l {
		s = append(s, a.Name)
	}
	if len(s) == 0 {
		return "-"
	}
	return strings.Join(s, "+")
}

func (g *Gen) mk(kind, variant, desc string, tx *types.Transaction, signers []*Actor) *Op {
	return &Op{Kind: kind, Variant: variant, Desc: desc, Tx: tx, Signers: names(signers), Height: g.Height, Ts: g.Ts}
}

// govOp builds op `method(param)` signed by `signer`; when wrong is set, somebody else signs.
func (g *Gen) govOp(method, variant, desc string, param interface{}, signer *Actor) *Op {
	s := []*Actor{signer}
	if variant == "wrongSigner" {
		other := g.W.Stranger
		if g.Rng.Bool() {
			other = g.pick(g.stakeHolders())
			if other == signer {
				other = g.W.Stranger
			}
		}
		s = []*Actor{other}
	}
	return g.mk(method, variant, desc, g.native(GovAddr, method, param, s...), s)
}

// maybeWrong turns a valid op into a wrong-signer op with probability pct.
func (g *Gen) maybeWrong(variant string, pct int) string {
	if variant == "valid" && g.Rng.Chance(pct) {
		return "wrongSigner"
	}
	return variant
}

func (g *Gen) nodeNames(pks []string) string {
	var s []string
	for _, p := range pks {
		s = append(s, g.W.NodeName(p))
	}
	return "[" + strings.Join(s, ",") + "]"
}

// ---------------------------------------------------------------- the generator

type weighted struct {
	w int
	f func(st *GovState) *Op
}

// Next produces the next operation for the current (decoded) state.
func (g *Gen) Next(st *GovState) *Op {
	if len(g.queue) > 0 {
		f := g.queue[0]
		g.queue = g.queue[1:]
		g.nextBlock(0)
		if op := f(st); op != nil {
			op.Height, op.Ts = g.Height, g.Ts
			return op
		}
	}
	// now and then a scripted multi-step scenario is queued (each step is generated against the state it
	// meets; steps that do not apply are skipped); random operations continue afterwards
	if !g.LowEra && st.View > gov.NEW_VERSION_VIEW && g.Rng.Chance(2) {
		g.enqueueScenario(st)
	}
	// block structure: mostly a new block; sometimes the same block as the previous tx
	if !(g.lastBlock && !g.LowEra && g.Rng.Chance(12)) {
		g.nextBlock(0)
	}
	g.lastBlock = true
	c10 := g.Profile == "c10"
	pickW := func(a, b int) int {
		if c10 {
			return a
		}
		return b
	}
	commitW := pickW(16, 9)
	if st.View <= gov.NEW_VERSION_VIEW {
		commitW = 45 // get through the legacy epochs quickly (executeCommitDpos1 has no split records)
	}
	table := []weighted{
		{commitW, g.opCommit},
		{pickW(9, 4), g.opIncome},
		{6, g.opRegister},
		{7, g.opChangeMax},
		{pickW(14, 14), g.opAuthorize},
		{pickW(7, 10), g.opUnAuthorize},
		{pickW(5, 10), g.opWithdraw},
		{pickW(3, 5), g.opQuit},
		{pickW(2, 4), g.opBlack},
		{pickW(1, 2), g.opWhite},
		{pickW(4, 1), g.opSetPeerCost},
		{pickW(5, 1), g.opSetFeePct},
		{pickW(3, 4), g.opAddInitPos},
		{pickW(3, 4), g.opReduceInitPos},
		{pickW(3, 2), g.opGlobalParam},
		{pickW(4, 2), g.opGlobalParam2},
		{pickW(6, 2), g.opWithdrawFee},
		{pickW(1, 2), g.opWithdrawOng},
		{pickW(3, 1), g.opGasAddress},
		{pickW(2, 3), g.opTransferPenalty},
		{1, g.opLegacyAdmin},
		{1, g.opUpdateConfig},
		{pickW(1, 2), g.opTransferFromVariant},
	}
	total := 0
	for _, t := range table {
		total += t.w
	}
	for tries := 0; tries < 50; tries++ {
		x := g.Rng.Intn(total)
		for _, t := range table {
			if x < t.w {
				if op := t.f(st); op != nil {
					op.Height, op.Ts = g.Height, g.Ts
					return op
				}
				break
			}
			x -= t.w
		}
	}
	op := g.opIncome(st)
	op.Height, op.Ts = g.Height, g.Ts
	return op
}

// ---- scripted scenarios

func (g *Gen) adminCommit(st *GovState) *Op {
	mt := cutils.BuildNativeTransaction(GovAddr, gov.COMMIT_DPOS, []byte{})
	mt.GasLimit = gasLimit
	mt.Nonce = g.Height*131 + uint32(g.Rng.Intn(1<<20))
	if err := chain.Sign(mt, g.W.BK.Acc); err != nil {
		panic(err)
	}
	op := g.mk(gov.COMMIT_DPOS, "valid", "admin-style (scenario)", chain.Immutable(mt), []*Actor{g.W.BK})
	op.Kind = "commitDpos/signed"
	return op
}

func (g *Gen) enqueueScenario(st *GovState) {
	pool := st.Pool()
	kinds := 2
	if g.Profile == "c10" {
		kinds = 3
	}
	switch g.Rng.Intn(kinds) {
	case 2:
		g.enqueueFeePctScenario(st)
	case 0:
		// the same node key is confiscated twice while the first penalty is still uncollected:
		// register, black-list, epoch change, white-list, register again, black-list, epoch change
		var free []string
		for _, n := range g.W.Nodes {
			if _, ok := pool[n.PK]; !ok && !st.Black[n.PK] {
				free = append(free, n.PK)
			}
		}
		if len(free) == 0 {
			return
		}
		pk := free[g.Rng.Intn(len(free))]
		reg := func(st *GovState) *Op {
			if _, ok := st.Pool()[pk]; ok || st.Black[pk] {
				return nil
			}
			owner := g.pick(g.stakeHolders())
			minStake := uint32(10000)
			if st.Param != nil {
				minStake = st.Param.MinInitStake
			}
			initPos := minStake + uint32(g.Rng.Intn(int(minStake)+1))
			p := &gov.RegisterCandidateParam{PeerPubkey: pk, Address: owner.Addr(), InitPos: initPos, Caller: []byte("did:ont:" + b58(owner.Addr())), KeyNo: 1}
			op := g.govOp(gov.REGISTER_CANDIDATE, "valid", fmt.Sprintf("%s owner=%s initPos=%d (scenario double-penalty)", g.W.NodeName(pk), owner.Name, initPos), p, owner)
			op.Addr, op.Peers, op.Amounts = owner.Addr(), []string{pk}, []uint32{initPos}
			return op
		}
		black := func(st *GovState) *Op {
			if _, ok := st.Pool()[pk]; !ok {
				return nil
			}
			return g.govOp(gov.BLACK_NODE, "valid", g.nodeNames([]string{pk})+" (scenario double-penalty)", &gov.BlackNodeParam{PeerPubkeyList: []string{pk}}, g.W.BK)
		}
		white := func(st *GovState) *Op {
			if !st.Black[pk] {
				return nil
			}
			return g.govOp(gov.WHITE_NODE, "valid", g.W.NodeName(pk)+" (scenario double-penalty)", &gov.WhiteNodeParam{PeerPubkey: pk}, g.W.BK)
		}
		g.queue = append(g.queue, reg, black, g.adminCommit, white, reg, black, g.adminCommit)
		g.Scenarios["double-penalty"]++
	case 1:
		// authorize on a candidate node, epoch change, authorize again, then one unauthorize that takes
		// more than the new position but not more than new + candidate position
		var cands []string
		for _, pk := range sortedPeers(pool) {
			if p := pool[pk]; p.Status == gov.CandidateStatus {
				cands = append(cands, pk)
			}
		}
		if len(cands) == 0 {
			return
		}
		pk := cands[g.Rng.Intn(len(cands))]
		who := g.pick(g.W.Stakers)
		min := uint64(st.MinAuthorizePos())
		if min == 0 {
			min = 1
		}
		auth := func(k uint64) func(st *GovState) *Op {
			return func(st *GovState) *Op {
				if p, ok := st.Pool()[pk]; !ok || !active(p) {
					return nil
				}
				amt := uint32(min * k)
				prm := &gov.AuthorizeForPeerParam{Address: who.Addr(), PeerPubkeyList: []string{pk}, PosList: []uint32{amt}}
				op := g.govOp(gov.AUTHORIZE_FOR_PEER, "valid", fmt.Sprintf("%s -> %s [%d] (scenario unauthorize-over-new)", who.Name, g.W.NodeName(pk), amt), prm, who)
				op.Addr, op.Peers, op.Amounts = who.Addr(), []string{pk}, []uint32{amt}
				return op
			}
		}
		unauth := func(st *GovState) *Op {
			ai := st.AuthOf(pk, who.Addr())
			p, ok := st.Pool()[pk]
			if !ok || ai.NewPos == 0 {
				return nil
			}
			rest := ai.CandidatePos
			if p.Status == gov.ConsensusStatus {
				rest = ai.ConsensusPos
			}
			if rest < min {
				return nil
			}
			amt := ai.NewPos + min*(1+uint64(g.Rng.Intn(int(rest/min))))
			if amt > 4_294_967_295 {
				return nil
			}
			prm := &gov.AuthorizeForPeerParam{Address: who.Addr(), PeerPubkeyList: []string{pk}, PosList: []uint32{uint32(amt)}}
			op := g.govOp(gov.UNAUTHORIZE_FOR_PEER, "valid", fmt.Sprintf("%s <- %s [%d] (scenario unauthorize-over-new)", who.Name, g.W.NodeName(pk), amt), prm, who)
			op.Addr, op.Peers, op.Amounts = who.Addr(), []string{pk}, []uint32{uint32(amt)}
			return op
		}
		g.queue = append(g.queue, auth(2+uint64(g.Rng.Intn(3))), g.adminCommit, auth(1+uint64(g.Rng.Intn(3))), unauth)
		g.Scenarios["unauthorize-over-new"]++
	}
}

// enqueueFeePctScenario: fee percentages outside 0..100 on a node that has an authorizer, followed through
// the two-epoch delay of the setting (T2 -> T1 -> T) and one epoch more:
// (changeMaxAuthorization,) authorizeForPeer by a staker, setFeePercentage with stakeCost / peerCost / both
// out of range, 4 x (ONG income, admin commitDpos), withdrawFee by the owner and by the staker.  Whatever the
// three calls answered, the C10 oracles judge every settlement that follows.
func (g *Gen) enqueueFeePctScenario(st *GovState) {
	const name = "out-of-range-fee-percentage"
	pool := st.Pool()
	min := uint64(st.MinAuthorizePos())
	if min == 0 {
		min = 1
	}
	limitOf := func(st *GovState, p *gov.PeerPoolItem) uint64 {
		lim := uint64(20) * p.InitPos
		if st.Param != nil {
			lim = uint64(st.Param.PosLimit) * p.InitPos
		}
		if lim > 4_000_000_000 {
			lim = 4_000_000_000
		}
		return lim
	}
	// an active node whose owner has a key and that either has authorizers already or has room for one;
	// consensus nodes first (they always take part in the split)
	usable := func(p *gov.PeerPoolItem) bool {
		return active(p) && g.actorOf(p.Address) != nil && (p.TotalPos > 0 || limitOf(st, p) >= min)
	}
	l := g.peersWith(st, func(p *gov.PeerPoolItem) bool { return usable(p) && p.Status == gov.ConsensusStatus })
	if len(l) == 0 || g.Rng.Chance(25) {
		l = g.peersWith(st, usable)
	}
	if len(l) == 0 {
		return
	}
	pk := l[g.Rng.Intn(len(l))]
	owner := g.actorOf(pool[pk].Address)
	var who *Actor
	for tries := 0; tries < 8 && (who == nil || who == owner); tries++ {
		who = g.pick(g.W.Stakers)
	}
	if who == nil || who == owner {
		return
	}
	tag := " (scenario " + name + ")"
	alive := func(st *GovState) *gov.PeerPoolItem {
		if p, ok := st.Pool()[pk]; ok && active(p) && p.Address == owner.Addr() {
			return p
		}
		return nil
	}
	changeMax := func(st *GovState) *Op {
		p := alive(st)
		if p == nil || st.MaxAuthorize(pk) >= p.TotalPos+min {
			return nil
		}
		max := limitOf(st, p)
		prm := &gov.ChangeMaxAuthorizationParam{PeerPubkey: pk, Address: owner.Addr(), MaxAuthorize: uint32(max)}
		return g.govOp(gov.CHANGE_MAX_AUTHORIZATION, "valid", fmt.Sprintf("%s owner=%s max=%d%s", g.W.NodeName(pk), owner.Name, max, tag), prm, owner)
	}
	auth := func(st *GovState) *Op {
		p := alive(st)
		if p == nil {
			return nil
		}
		lim := limitOf(st, p)
		if m := st.MaxAuthorize(pk); m < lim {
			lim = m
		}
		if p.TotalPos+min > lim {
			return nil // no room: the scenario goes on with the authorizers the node has (if any)
		}
		units := (lim - p.TotalPos) / min
		if units > 20 {
			units = 20
		}
		amt := min * uint64(1+g.Rng.Intn(int(units)))
		if amt > 4_000_000_000 {
			amt = min
		}
		prm := &gov.AuthorizeForPeerParam{Address: who.Addr(), PeerPubkeyList: []string{pk}, PosList: []uint32{uint32(amt)}}
		op := g.govOp(gov.AUTHORIZE_FOR_PEER, "valid", fmt.Sprintf("%s -> %s [%d]%s", who.Name, g.W.NodeName(pk), amt, tag), prm, who)
		op.Addr, op.Peers, op.Amounts = who.Addr(), []string{pk}, []uint32{uint32(amt)}
		g.Scenarios[name+"/authorize_issued"]++
		return op
	}
	over := func() uint32 {
		switch g.Rng.Intn(8) {
		case 0:
			return 101 // the in-storage sentinel of stakeCost 0
		case 1:
			return 256 + uint32(g.Rng.U64()%4_294_967_040) // up to 2^32-1
		default:
			return 102 + uint32(g.Rng.Intn(154)) // 102..255
		}
	}
	setPct := func(field string) func(st *GovState) *Op {
		return func(st *GovState) *Op {
			if alive(st) == nil {
				return nil
			}
			pc, sc := uint32(g.Rng.Intn(101)), uint32(g.Rng.Intn(101))
			switch field {
			case "stakeCost":
				sc = over()
			case "peerCost":
				pc = over()
			default:
				pc, sc = over(), over()
			}
			if p := alive(st); p.TotalPos > 0 {
				g.Scenarios[name+"/call_on_node_with_authorizers/"+field]++
			}
			g.Scenarios[name+"/call_issued/"+field]++
			return g.govOp(gov.SET_FEE_PERCENTAGE, "over100", fmt.Sprintf("%s by %s peerCost=%d stakeCost=%d%s", g.W.NodeName(pk), owner.Name, pc, sc, tag),
				&gov.SetFeePercentageParam{PeerPubkey: pk, Address: owner.Addr(), PeerCost: pc, StakeCost: sc}, owner)
		}
	}
	income := func(st *GovState) *Op {
		op := g.opIncome(st)
		op.Desc += tag
		return op
	}
	nCommit := 0
	commit := func(st *GovState) *Op {
		nCommit++
		if p := alive(st); p != nil && p.TotalPos > 0 && nCommit >= 3 {
			// the settlement that would use a setting made before the first commit of the scenario
			g.Scenarios[name+"/settlement_3+_with_authorizers_on_node"]++
		}
		if a := st.Attr[pk]; a != nil && (a.TStakeCost > 101 || a.TPeerCost > 100) {
			g.Scenarios[name+"/settlement_with_out_of_range_cost_in_force"]++ // only ever on a tree that accepted the call
		}
		return g.adminCommit(st)
	}
	wfee := func(a *Actor) func(st *GovState) *Op {
		return func(st *GovState) *Op {
			variant := "valid"
			if st.FeeAddr[a.Addr()] == 0 {
				variant = "nothingCredited"
			}
			if g.Height < gov.NEW_VERSION_BLOCK {
				variant = "heightGate"
			}
			op := g.govOp(gov.WITHDRAW_FEE, variant, a.Name+tag, &gov.WithdrawFeeParam{Address: a.Addr()}, a)
			op.Addr = a.Addr()
			g.Scenarios[name+"/withdrawFee_issued"]++
			return op
		}
	}
	g.queue = append(g.queue, changeMax, auth, setPct("stakeCost"), setPct("peerCost"), setPct("both"),
		income, commit, income, commit, income, commit, income, commit, wfee(owner), wfee(who))
	g.Scenarios[name]++
}

// ---- epoch change

func (g *Gen) opCommit(st *GovState) *Op {
	mt := cutils.BuildNativeTransaction(GovAddr, gov.COMMIT_DPOS, []byte{}) // code == ninit.COMMIT_DPOS_BYTES
	mt.GasLimit = gasLimit
	mode := g.Rng.Intn(10)
	switch {
	case mode < 5: // signed by the governance admin: allowed at any height
		mt.Nonce = g.Height*131 + uint32(g.Rng.Intn(1<<20))
		v := g.maybeWrong("valid", 8)
		s := g.W.BK
		if v == "wrongSigner" {
			s = g.pick(g.stakeHolders())
			// a non-admin signature behaves like the consensus tx: only valid after MaxBlockChangeView blocks
			if st.Config != nil && g.Height-st.ViewHeight >= st.Config.MaxBlockChangeView {
				v = "nonAdminAfterCycle"
			}
		}
		if err := chain.Sign(mt, s.Acc); err != nil {
			panic(err)
		}
		op := g.mk(gov.COMMIT_DPOS, v, "admin-style", chain.Immutable(mt), []*Actor{s})
		op.Kind = "commitDpos/signed"
		return op
	case mode < 8: // the consensus node's unsigned system transaction, after the cycle elapsed
		if !g.LowEra && st.Config != nil && g.Height-st.ViewHeight < st.Config.MaxBlockChangeView {
			g.Height = st.ViewHeight + st.Config.MaxBlockChangeView + uint32(g.Rng.Intn(3))
			g.Ts += 5
		}
		v := "valid"
		if st.Config != nil && g.Height-st.ViewHeight < st.Config.MaxBlockChangeView {
			v = "beforeCycle"
		}
		mt.Nonce = g.Height // as consensus/vbft does
		op := g.mk("commitDpos/system", v, "unsigned consensus tx", chain.Immutable(mt), nil)
		return op
	default: // unsigned, too early
		mt.Nonce = g.Height
		v := "beforeCycle"
		if st.Config != nil && g.Height-st.ViewHeight >= st.Config.MaxBlockChangeView {
			v = "valid"
		}
		return g.mk("commitDpos/system", v, "unsigned consensus tx", chain.Immutable(mt), nil)
	}
}

// ---- ONG fee income: plain transfers to the governance address

func (g *Gen) opIncome(st *GovState) *Op {
	var amt uint64
	switch g.Rng.Intn(8) {
	case 0:
		amt = uint64(1 + g.Rng.Intn(1000)) // dust: rounding paths
	case 1:
		amt = uint64(g.Rng.Intn(1_000_000_000))
	case 2, 3:
		amt = uint64(1+g.Rng.Intn(5000)) * 1_000_000_000 // 1..5000 ONG
	case 4:
		amt = uint64(1+g.Rng.Intn(900)) * 100_000_000_000_000 // up to 9e16: intermediate products near 2^64
	case 5:
		amt = 100 * uint64(1+g.Rng.Intn(100)) // exact multiples of 100
	case 6:
		amt = uint64(1+g.Rng.Intn(200)) * 1_000_000_000_000_000 // 1e15..2e17
	default:
		amt = g.Rng.U64() % 50_000_000_000_000
	}
	from := g.W.BK
	if amt < ActorOng/100 && g.Rng.Bool() {
		from = g.pick(g.stakeHolders())
	}
	t, err := g.TB.TransferTx("ong", from.Acc, GovAddr, amt, 0, gasLimit)
	if err != nil {
		panic(err)
	}
	return g.mk("ongIncome", "valid", fmt.Sprintf("%s -> GOV %d", from.Name, amt), t, []*Actor{from})
}

// ---- candidates

func (g *Gen) opRegister(st *GovState) *Op { return g.register(st, gov.REGISTER_CANDIDATE) }

func (g *Gen) register(st *GovState, method string) *Op {
	pool := st.Pool()
	var free []string
	for _, n := range g.W.Nodes {
		if _, ok := pool[n.PK]; !ok {
			free = append(free, n.PK)
		}
	}
	owner := g.pick(g.stakeHolders())
	variant := "valid"
	var pk string
	minStake := uint32(10000)
	if st.Param != nil {
		minStake = st.Param.MinInitStake
	}
	initPos := minStake + uint32(g.Rng.Intn(int(minStake)*4+1))
	if g.Rng.Chance(25) {
		initPos = minStake
	}
	switch x := g.Rng.Intn(20); {
	case x == 0 && len(pool) > 0:
		variant, pk = "alreadyInPool", sortedPeers(pool)[g.Rng.Intn(len(pool))]
	case x == 1:
		variant, pk = "badPubkey", "02"+fmt.Sprintf("%064x", g.Rng.U64()) // x not on the curve / garbage
		if len(free) > 0 && g.Rng.Bool() {
			pk = free[0][:len(free[0])-1] // odd-length hex
		}
	case x == 2:
		variant, initPos = "zero", 0
	case x == 3 && minStake > 1:
		variant, initPos = "belowMinInitStake", uint32(1+g.Rng.Intn(int(minStake-1)))
	case x == 4:
		variant, initPos = "overBalance", 4_000_000_000
	}
	if pk == "" {
		if len(free) == 0 {
			return nil
		}
		pk = free[g.Rng.Intn(len(free))]
		if st.Black[pk] && variant == "valid" {
			variant = "blackListed"
		}
	}
	variant = g.maybeWrong(variant, 6)
	p := &gov.RegisterCandidateParam{PeerPubkey: pk, Address: owner.Addr(), InitPos: initPos, Caller: []byte("did:ont:" + b58(owner.Addr())), KeyNo: 1}
	op := g.govOp(method, variant, fmt.Sprintf("%s owner=%s initPos=%d", g.W.NodeName(pk), owner.Name, initPos), p, owner)
	op.Addr, op.Peers, op.Amounts = owner.Addr(), []string{pk}, []uint32{initPos}
	return op
}

func (g *Gen) opChangeMax(st *GovState) *Op {
	l := g.peersWith(st, func(p *gov.PeerPoolItem) bool { return true })
	if len(l) == 0 {
		return nil
	}
	// prefer peers that cannot yet receive authorisations
	var zero []string
	for _, pk := range l {
		if st.MaxAuthorize(pk) == 0 && active(st.Pool()[pk]) {
			zero = append(zero, pk)
		}
	}
	pk := l[g.Rng.Intn(len(l))]
	if len(zero) > 0 && g.Rng.Chance(75) {
		pk = zero[g.Rng.Intn(len(zero))]
	}
	p := st.Pool()[pk]
	limit := uint64(20) * p.InitPos
	if st.Param != nil {
		limit = uint64(st.Param.PosLimit) * p.InitPos
	}
	if limit > 4_000_000_000 {
		limit = 4_000_000_000
	}
	variant := "valid"
	max := limit
	switch g.Rng.Intn(10) {
	case 0:
		variant, max = "overLimit", limit+1+uint64(g.Rng.Intn(1000))
		if max > 4_294_967_295 {
			return nil
		}
	case 1:
		max = uint64(g.Rng.Intn(int(limit + 1)))
	case 2:
		max = 0
	}
	owner := g.actorOf(p.Address)
	if owner == nil {
		return nil
	}
	variant = g.maybeWrong(variant, 8)
	prm := &gov.ChangeMaxAuthorizationParam{PeerPubkey: pk, Address: owner.Addr(), MaxAuthorize: uint32(max)}
	return g.govOp(gov.CHANGE_MAX_AUTHORIZATION, variant, fmt.Sprintf("%s owner=%s max=%d", g.W.NodeName(pk), owner.Name, max), prm, owner)
}

// ---- authorisation

func (g *Gen) opAuthorize(st *GovState) *Op { return g.authorize(st, gov.AUTHORIZE_FOR_PEER) }

func (g *Gen) authorize(st *GovState, method string) *Op {
	pool := st.Pool()
	min := uint64(st.MinAuthorizePos())
	if min == 0 {
		min = 1
	}
	posLimit := uint64(20)
	if st.Param != nil {
		posLimit = uint64(st.Param.PosLimit)
	}
	room := func(pk string) uint64 {
		p := pool[pk]
		lim := posLimit * p.InitPos
		if m := st.MaxAuthorize(pk); m < lim {
			lim = m
		}
		if p.TotalPos >= lim {
			return 0
		}
		return lim - p.TotalPos
	}
	cands := g.peersWith(st, func(p *gov.PeerPoolItem) bool { return active(p) && room(p.PeerPubkey) >= min })
	staker := g.pick(g.stakeHolders())
	if g.Rng.Chance(70) {
		staker = g.pick(g.W.Stakers)
	}
	variant := "valid"
	var pks []string
	var pos []uint32
	x := g.Rng.Intn(24)
	switch {
	case x == 0:
		variant = "unknownPeer"
		pks, pos = []string{g.unknownPK(st)}, []uint32{uint32(min)}
	case x == 1 && len(pool) > 0:
		// the owner authorising his own peer
		l := g.peersWith(st, active)
		if len(l) == 0 {
			return nil
		}
		pk := l[g.Rng.Intn(len(l))]
		if o := g.actorOf(pool[pk].Address); o != nil {
			staker, variant = o, "ownPeer"
			pks, pos = []string{pk}, []uint32{uint32(min)}
		}
	case x == 2:
		l := g.peersWith(st, func(p *gov.PeerPoolItem) bool { return !active(p) })
		if len(l) > 0 {
			variant = "inactivePeer"
			pks, pos = []string{l[g.Rng.Intn(len(l))]}, []uint32{uint32(min)}
		}
	}
	if pks == nil {
		if len(cands) == 0 {
			// nothing can be authorised right now: try anyway on some active peer (fails: full / max authorize)
			l := g.peersWith(st, active)
			if len(l) == 0 {
				return nil
			}
			variant = "peerFull"
			pks, pos = []string{l[g.Rng.Intn(len(l))]}, []uint32{uint32(min)}
		} else {
			n := 1 + g.Rng.Intn(3)
			used := map[string]uint64{}
			for i := 0; i < n; i++ {
				pk := cands[g.Rng.Intn(len(cands))]
				if pool[pk].Address == staker.Addr() {
					continue
				}
				r := room(pk) - used[pk]
				if r < min {
					continue
				}
				units := r / min
				if units > 400 {
					units = 400
				}
				amt := min * uint64(1+g.Rng.Intn(int(units)))
				if g.Rng.Chance(15) {
					amt = min
				}
				if amt > 4_000_000_000 {
					amt = min
				}
				used[pk] += amt
				pks, pos = append(pks, pk), append(pos, uint32(amt))
			}
			if len(pks) == 0 {
				return nil
			}
			switch x {
			case 3:
				variant, pos[0] = "zero", 0
			case 4:
				if min > 1 {
					variant, pos[len(pos)-1] = "notMultiple", pos[len(pos)-1]+1
				}
			case 5:
				variant, pos[0] = "overRoom", uint32(room(pks[0])+min)
			case 6:
				variant, pos[0] = "overBalance", uint32(4_000_000_000/min*min)
			}
		}
	}
	variant = g.maybeWrong(variant, 5)
	prm := &gov.AuthorizeForPeerParam{Address: staker.Addr(), PeerPubkeyList: pks, PosList: pos}
	op := g.govOp(method, variant, fmt.Sprintf("%s -> %s %v", staker.Name, g.nodeNames(pks), pos), prm, staker)
	op.Addr, op.Peers, op.Amounts = staker.Addr(), pks, pos
	return op
}

func sortedAuth(st *GovState) []*gov.AuthorizeInfo {
	ks := make([]string, 0, len(st.Auth))
	for k := range st.Auth {
		ks = append(ks, k)
	}
	sort.Strings(ks)
	l := make([]*gov.AuthorizeInfo, 0, len(ks))
	for _, k := range ks {
		l = append(l, st.Auth[k])
	}
	return l
}

func (g *Gen) opUnAuthorize(st *GovState) *Op {
	pool := st.Pool()
	min := uint64(st.MinAuthorizePos())
	if min == 0 {
		min = 1
	}
	var l []*gov.AuthorizeInfo
	for _, ai := range sortedAuth(st) {
		p, ok := pool[ai.PeerPubkey]
		if ok && active(p) && ai.ConsensusPos+ai.CandidatePos+ai.NewPos > 0 && g.actorOf(ai.Address) != nil {
			l = append(l, ai)
		}
	}
	if len(l) == 0 {
		if g.Rng.Chance(30) {
			s := g.pick(g.W.Stakers)
			pk := g.unknownPK(st)
			prm := &gov.AuthorizeForPeerParam{Address: s.Addr(), PeerPubkeyList: []string{pk}, PosList: []uint32{uint32(min)}}
			return g.govOp(gov.UNAUTHORIZE_FOR_PEER, "unknownPeer", fmt.Sprintf("%s <- [%s] [%d]", s.Name, g.W.NodeName(pk), min), prm, s)
		}
		return nil
	}
	ai := l[g.Rng.Intn(len(l))]
	who := g.actorOf(ai.Address)
	avail := ai.NewPos
	if pool[ai.PeerPubkey].Status == gov.ConsensusStatus {
		avail += ai.ConsensusPos
	} else {
		avail += ai.CandidatePos
	}
	variant := "valid"
	var amt uint64
	switch x := g.Rng.Intn(12); {
	case x < 3:
		amt = avail / min * min // everything that is a multiple
	case x < 5 && ai.NewPos >= min:
		amt = min * (1 + uint64(g.Rng.Intn(int(ai.NewPos/min)))) // only from NewPos
	case x == 5:
		variant, amt = "overPosition", (avail/min+1)*min
	case x == 6 && min > 1:
		variant, amt = "notMultiple", min+1
	case x == 7:
		variant, amt = "zero", 0
	default:
		if avail >= min {
			amt = min * (1 + uint64(g.Rng.Intn(int(avail/min))))
		}
	}
	if variant == "valid" && amt == 0 {
		amt = min // below MinAuthorizePos in total: the contract takes everything
		if avail >= min {
			amt = min
		}
	}
	if ai.ConsensusPos+ai.CandidatePos+ai.NewPos < min && (variant == "notMultiple" || variant == "overPosition") {
		variant = "valid" // the contract replaces the amount by the whole position
	}
	if amt > 4_294_967_295 {
		amt = min
	}
	pks, pos := []string{ai.PeerPubkey}, []uint32{uint32(amt)}
	// sometimes a second, independent position of the same address in the same call
	if variant == "valid" && g.Rng.Chance(20) {
		for _, o := range l {
			if o.Address == ai.Address && o.PeerPubkey != ai.PeerPubkey && o.NewPos >= min {
				pks, pos = append(pks, o.PeerPubkey), append(pos, uint32(min))
				break
			}
		}
	}
	variant = g.maybeWrong(variant, 6)
	prm := &gov.AuthorizeForPeerParam{Address: who.Addr(), PeerPubkeyList: pks, PosList: pos}
	op := g.govOp(gov.UNAUTHORIZE_FOR_PEER, variant, fmt.Sprintf("%s <- %s %v", who.Name, g.nodeNames(pks), pos), prm, who)
	op.Addr, op.Peers, op.Amounts = who.Addr(), pks, pos
	return op
}

func (g *Gen) opWithdraw(st *GovState) *Op {
	var l []*gov.AuthorizeInfo
	for _, ai := range sortedAuth(st) {
		if ai.WithdrawUnfreezePos > 0 && g.actorOf(ai.Address) != nil {
			l = append(l, ai)
		}
	}
	if len(l) == 0 {
		// nothing unfrozen anywhere: an over-withdraw attempt of somebody with a frozen or no position
		all := sortedAuth(st)
		who, pk := g.pick(g.W.Stakers), g.unknownPK(st)
		variant := "unknownPeer"
		if len(all) > 0 && g.Rng.Bool() {
			ai := all[g.Rng.Intn(len(all))]
			if a := g.actorOf(ai.Address); a != nil {
				who, pk, variant = a, ai.PeerPubkey, "overWithdraw"
			}
		}
		prm := &gov.WithdrawParam{Address: who.Addr(), PeerPubkeyList: []string{pk}, WithdrawList: []uint32{1 + uint32(g.Rng.Intn(1000))}}
		op := g.govOp(gov.WITHDRAW, variant, fmt.Sprintf("%s %s %v", who.Name, g.nodeNames(prm.PeerPubkeyList), prm.WithdrawList), prm, who)
		op.Addr, op.Peers, op.Amounts = who.Addr(), prm.PeerPubkeyList, prm.WithdrawList
		return op
	}
	ai := l[g.Rng.Intn(len(l))]
	who := g.actorOf(ai.Address)
	u := ai.WithdrawUnfreezePos
	if u > 4_294_967_295 {
		u = 4_294_967_295
	}
	variant := "valid"
	pks := []string{ai.PeerPubkey}
	var amts []uint32
	switch x := g.Rng.Intn(14); {
	case x < 5:
		amts = []uint32{uint32(u)} // everything: the record is deleted when all buckets are empty
	case x == 5:
		variant, amts = "overWithdraw", []uint32{uint32(u) + 1}
		if u == 4_294_967_295 {
			return nil
		}
	case x == 6:
		variant, amts = "overWithdraw", []uint32{uint32(u) + uint32(1+g.Rng.Intn(100000))}
		if u > 4_000_000_000 {
			return nil
		}
	case x == 7 && u >= 2:
		// the same peer twice: together more than unfrozen
		variant, pks, amts = "overWithdrawSplit", []string{ai.PeerPubkey, ai.PeerPubkey}, []uint32{uint32(u), 1}
	case x == 8 && u >= 2:
		// the same peer twice, together exactly everything
		a := uint32(1 + g.Rng.Intn(int(u-1)))
		pks, amts = []string{ai.PeerPubkey, ai.PeerPubkey}, []uint32{a, uint32(u) - a}
	case x == 9:
		amts = []uint32{0}
		if g.Height > gov.NEW_WITHDRAW_BLOCK {
			variant = "zero"
		}
	case x == 10:
		// a frozen position of the same address on another peer
		for _, o := range sortedAuth(st) {
			if o.Address == ai.Address && o.WithdrawUnfreezePos == 0 && o.ConsensusPos+o.CandidatePos+o.NewPos+o.WithdrawCandidatePos+o.WithdrawConsensusPos > 0 {
				variant, pks, amts = "frozenPosition", []string{o.PeerPubkey}, []uint32{1}
				break
			}
		}
		if amts == nil {
			amts = []uint32{uint32(1 + g.Rng.Intn(int(u)))}
		}
	default:
		amts = []uint32{uint32(1 + g.Rng.Intn(int(u)))}
	}
	// several peers of the same address in one call
	if variant == "valid" && len(pks) == 1 && g.Rng.Chance(30) {
		for _, o := range l {
			if o.Address == ai.Address && o.PeerPubkey != ai.PeerPubkey && o.WithdrawUnfreezePos < 4_000_000_000 {
				pks, amts = append(pks, o.PeerPubkey), append(amts, uint32(o.WithdrawUnfreezePos))
			}
		}
	}
	variant = g.maybeWrong(variant, 8)
	prm := &gov.WithdrawParam{Address: who.Addr(), PeerPubkeyList: pks, WithdrawList: amts}
	op := g.govOp(gov.WITHDRAW, variant, fmt.Sprintf("%s %s %v", who.Name, g.nodeNames(pks), amts), prm, who)
	op.Addr, op.Peers, op.Amounts = who.Addr(), pks, amts
	return op
}

// ---- leaving / punishing

func (g *Gen) opQuit(st *GovState) *Op {
	pool := st.Pool()
	l := g.peersWith(st, active)
	variant := "valid"
	var pk string
	switch x := g.Rng.Intn(10); {
	case x == 0:
		variant, pk = "unknownPeer", g.unknownPK(st)
	case x == 1:
		q := g.peersWith(st, func(p *gov.PeerPoolItem) bool { return !active(p) })
		if len(q) > 0 {
			variant, pk = "notActive", q[g.Rng.Intn(len(q))]
		}
	}
	if pk == "" {
		if len(l) == 0 {
			return nil
		}
		pk = l[g.Rng.Intn(len(l))]
		if st.Config != nil && len(l) <= int(st.Config.K) {
			variant = "tooFewPeers"
		}
	}
	owner := g.pick(g.W.Owners)
	if p, ok := pool[pk]; ok {
		if o := g.actorOf(p.Address); o != nil {
			owner = o
		}
	}
	if variant == "valid" && g.Rng.Chance(8) {
		variant = "notOwner"
		o2 := g.pick(g.stakeHolders())
		if o2 == owner {
			return nil
		}
		owner = o2
	}
	variant = g.maybeWrong(variant, 6)
	prm := &gov.QuitNodeParam{PeerPubkey: pk, Address: owner.Addr()}
	return g.govOp(gov.QUIT_NODE, variant, fmt.Sprintf("%s by %s", g.W.NodeName(pk), owner.Name), prm, owner)
}

func (g *Gen) opBlack(st *GovState) *Op {
	l := sortedPeers(st.Pool())
	if len(l) == 0 {
		return nil
	}
	variant := "valid"
	n := 1
	if g.Rng.Chance(15) {
		n = 2
	}
	var pks []string
	for i := 0; i < n; i++ {
		pks = append(pks, l[g.Rng.Intn(len(l))])
	}
	// prefer peers that have authorisations so that penalties are non-trivial
	if g.Rng.Chance(60) {
		for _, ai := range sortedAuth(st) {
			if _, ok := st.Pool()[ai.PeerPubkey]; ok && ai.ConsensusPos+ai.CandidatePos+ai.NewPos > 0 && g.Rng.Chance(40) {
				pks[0] = ai.PeerPubkey
				break
			}
		}
	}
	if g.Rng.Chance(8) {
		variant, pks = "unknownPeer", append(pks, g.unknownPK(st))
	}
	variant = g.maybeWrong(variant, 10)
	prm := &gov.BlackNodeParam{PeerPubkeyList: pks}
	return g.govOp(gov.BLACK_NODE, variant, g.nodeNames(pks), prm, g.W.BK)
}

func (g *Gen) opWhite(st *GovState) *Op {
	var l []string
	for k := range st.Black {
		l = append(l, k)
	}
	sort.Strings(l)
	variant := "valid"
	var pk string
	if len(l) == 0 || g.Rng.Chance(10) {
		variant, pk = "notBlack", g.unknownPK(st)
	} else {
		pk = l[g.Rng.Intn(len(l))]
	}
	variant = g.maybeWrong(variant, 10)
	return g.govOp(gov.WHITE_NODE, variant, g.W.NodeName(pk), &gov.WhiteNodeParam{PeerPubkey: pk}, g.W.BK)
}

func (g *Gen) opTransferPenalty(st *GovState) *Op {
	var l []string
	for k := range st.Penalty {
		l = append(l, k)
	}
	sort.Strings(l)
	variant := "valid"
	var pk string
	if len(l) == 0 {
		if !g.Rng.Chance(20) {
			return nil
		}
		variant, pk = "noPenalty", g.unknownPK(st) // pays out 0 of a non-existent record
	} else {
		pk = l[g.Rng.Intn(len(l))]
	}
	to := g.pick(g.stakeHolders())
	if g.Rng.Chance(30) {
		to = g.W.Dapp
	}
	variant = g.maybeWrong(variant, 25)
	op := g.govOp(gov.TRANSFER_PENALTY, variant, fmt.Sprintf("%s -> %s", g.W.NodeName(pk), to.Name), &gov.TransferPenaltyParam{PeerPubkey: pk, Address: to.Addr()}, g.W.BK)
	op.Addr, op.Peers = to.Addr(), []string{pk}
	return op
}

// ---- owner-side settings

func (g *Gen) ownedPeer(st *GovState, f func(p *gov.PeerPoolItem) bool) (string, *Actor) {
	l := g.peersWith(st, func(p *gov.PeerPoolItem) bool { return f(p) && g.actorOf(p.Address) != nil })
	if len(l) == 0 {
		return "", nil
	}
	pk := l[g.Rng.Intn(len(l))]
	return pk, g.actorOf(st.Pool()[pk].Address)
}

func (g *Gen) opSetPeerCost(st *GovState) *Op {
	pk, owner := g.ownedPeer(st, active)
	if owner == nil {
		return nil
	}
	variant := "valid"
	cost := uint32(g.Rng.Intn(101))
	switch g.Rng.Intn(10) {
	case 0:
		cost = 0
	case 1:
		cost = 100
	case 2:
		variant, cost = "over100", 101+uint32(g.Rng.Intn(200))
	case 3:
		variant, pk = "unknownPeer", g.unknownPK(st)
	case 4:
		variant = "notOwner"
		o2 := g.pick(g.stakeHolders())
		if o2 == owner {
			return nil
		}
		owner = o2
	}
	variant = g.maybeWrong(variant, 6)
	return g.govOp(gov.SET_PEER_COST, variant, fmt.Sprintf("%s by %s cost=%d", g.W.NodeName(pk), owner.Name, cost), &gov.SetPeerCostParam{PeerPubkey: pk, Address: owner.Addr(), PeerCost: cost}, owner)
}

func (g *Gen) opSetFeePct(st *GovState) *Op {
	pk, owner := g.ownedPeer(st, active)
	if owner == nil {
		return nil
	}
	variant := "valid"
	pc, sc := uint32(g.Rng.Intn(101)), uint32(g.Rng.Intn(101))
	switch g.Rng.Intn(12) {
	case 0:
		pc, sc = 0, 0
	case 1:
		pc, sc = 100, 0
	case 2:
		pc, sc = 0, 100
	case 3:
		// stakeCost alone out of range (101 is the in-storage sentinel of 0; 102.. would wrap 100-stakeCost);
		// derived from the two draws above so that the random stream is the same as before
		variant, sc = "over100", 101+(sc*101+pc)%155
		if pc%8 == 0 {
			sc = 4_294_967_295 - sc
		}
	case 4:
		variant, pc = "over100", 1000
	case 5:
		variant, pk = "unknownPeer", g.unknownPK(st)
	}
	variant = g.maybeWrong(variant, 6)
	return g.govOp(gov.SET_FEE_PERCENTAGE, variant, fmt.Sprintf("%s by %s peerCost=%d stakeCost=%d", g.W.NodeName(pk), owner.Name, pc, sc),
		&gov.SetFeePercentageParam{PeerPubkey: pk, Address: owner.Addr(), PeerCost: pc, StakeCost: sc}, owner)
}

func (g *Gen) opAddInitPos(st *GovState) *Op {
	// mostly peers with a promisePos record (registered after genesis): only their init pos can be reduced again
	pk, owner := g.ownedPeer(st, func(p *gov.PeerPoolItem) bool { _, has := st.Promise[p.PeerPubkey]; return has && active(p) })
	if owner == nil || g.Rng.Chance(40) {
		pk, owner = g.ownedPeer(st, func(p *gov.PeerPoolItem) bool { return true })
	}
	if owner == nil {
		return nil
	}
	variant := "valid"
	if !active(st.Pool()[pk]) {
		variant = "notActive"
	}
	pos := uint32(1 + g.Rng.Intn(50000))
	switch g.Rng.Intn(10) {
	case 0:
		variant, pos = "zero", 0
	case 1:
		variant, pos = "overBalance", 4_000_000_000
	case 2:
		variant, pk = "unknownPeer", g.unknownPK(st)
	}
	variant = g.maybeWrong(variant, 6)
	return g.govOp(gov.ADD_INIT_POS, variant, fmt.Sprintf("%s by %s +%d", g.W.NodeName(pk), owner.Name, pos), &gov.ChangeInitPosParam{PeerPubkey: pk, Address: owner.Addr(), Pos: pos}, owner)
}

func (g *Gen) opReduceInitPos(st *GovState) *Op {
	posLimit := uint64(20)
	if st.Param != nil {
		posLimit = uint64(st.Param.PosLimit)
	}
	floorOf := func(p *gov.PeerPoolItem) uint64 {
		f := (p.TotalPos + posLimit - 1) / posLimit
		if pr := st.Promise[p.PeerPubkey]; pr > f {
			f = pr
		}
		return f
	}
	// mostly a peer whose init pos can actually be reduced (has a promise record and init pos above the floor)
	pk, owner := g.ownedPeer(st, func(p *gov.PeerPoolItem) bool {
		_, has := st.Promise[p.PeerPubkey]
		return has && active(p) && p.InitPos > floorOf(p)
	})
	if owner == nil || g.Rng.Chance(25) {
		pk, owner = g.ownedPeer(st, func(p *gov.PeerPoolItem) bool { return true })
	}
	if owner == nil {
		return nil
	}
	p := st.Pool()[pk]
	floor := floorOf(p)
	_, hasPromise := st.Promise[pk]
	variant := "valid"
	var pos uint64
	switch {
	case !active(p):
		variant, pos = "notActive", 1
	case !hasPromise:
		variant, pos = "noPromiseRecord", 1 // genesis peers have no promisePos record
	case p.InitPos > floor:
		pos = 1 + uint64(g.Rng.Intn(int(p.InitPos-floor)))
		if g.Rng.Chance(30) {
			pos = p.InitPos - floor
		}
	default:
		variant, pos = "belowFloor", 1
	}
	switch g.Rng.Intn(12) {
	case 0:
		variant, pos = "zero", 0
	case 1:
		variant, pos = "moreThanInitPos", p.InitPos+1
	case 2:
		if variant == "valid" {
			variant, pos = "belowFloor", p.InitPos-floor+1
		}
	}
	if pos > 4_294_967_295 {
		return nil
	}
	variant = g.maybeWrong(variant, 6)
	return g.govOp(gov.REDUCE_INIT_POS, variant, fmt.Sprintf("%s by %s -%d", g.W.NodeName(pk), owner.Name, pos), &gov.ChangeInitPosParam{PeerPubkey: pk, Address: owner.Addr(), Pos: uint32(pos)}, owner)
}

// ---- admin parameters

func (g *Gen) opGlobalParam(st *GovState) *Op {
	if st.Param == nil || st.Config == nil {
		return nil
	}
	p := *st.Param
	variant := "valid"
	a := uint32(g.Rng.Intn(101))
	p.A, p.B = a, 100-a
	if g.Rng.Chance(20) {
		p.A, p.B = []uint32{0, 100, 50, 1, 99}[g.Rng.Intn(5)], 0
		p.B = 100 - p.A
	}
	p.Yita = uint32(1 + g.Rng.Intn(10))
	p.Penalty = uint32(g.Rng.Intn(101))
	p.PosLimit = uint32(1 + g.Rng.Intn(30))
	p.CandidateNum = 4*st.Config.K + uint32(g.Rng.Intn(30))
	p.MinInitStake = []uint32{1, 100, 10000, 20000}[g.Rng.Intn(4)]
	p.CandidateFee = []uint64{0, 1_000_000_000, 500_000_000_000, 7_777_777_777}[g.Rng.Intn(4)]
	switch g.Rng.Intn(14) {
	case 0:
		variant = "A+B!=100"
		p.B = 100 - p.A + 1 + uint32(g.Rng.Intn(50))
	case 1:
		variant = "A+B!=100"
		p.A, p.B = 100, 100
	case 2:
		variant, p.Yita = "yita0", 0
	case 3:
		variant, p.Penalty = "penalty>100", 101+uint32(g.Rng.Intn(100))
	case 4:
		variant, p.PosLimit = "posLimit0", 0
	case 5:
		variant, p.CandidateNum = "candidateNum<4K", 4*st.Config.K-1
	case 6:
		variant, p.CandidateFee = "candidateFeeTooSmall", 999_999_999
	case 7:
		variant, p.MinInitStake = "minInitStake0", 0
	}
	variant = g.maybeWrong(variant, 6)
	return g.govOp(gov.UPDATE_GLOBAL_PARAM, variant, fmt.Sprintf("%+v", p), &p, g.W.BK)
}

func (g *Gen) opGlobalParam2(st *GovState) *Op {
	if st.Config == nil || st.Param == nil {
		return nil
	}
	p := &gov.GlobalParam2{MinAuthorizePos: []uint32{1, 10, 100, 500, 500, 1000}[g.Rng.Intn(6)],
		CandidateFeeSplitNum: st.Config.K + uint32(g.Rng.Intn(12)), DappFee: uint32(g.Rng.Intn(101))}
	variant := "valid"
	switch g.Rng.Intn(12) {
	case 0:
		p.DappFee = 0
	case 1:
		p.DappFee = 100
	case 2:
		p.CandidateFeeSplitNum = st.Config.K // candidates get nothing
	case 3:
		variant, p.CandidateFeeSplitNum = "splitNum<K", st.Config.K-1
	case 4:
		p.CandidateFeeSplitNum = st.Param.CandidateNum
	}
	variant = g.maybeWrong(variant, 6)
	return g.govOp(gov.UPDATE_GLOBAL_PARAM2, variant, fmt.Sprintf("minAuthorizePos=%d candidateFeeSplitNum=%d dappFee=%d", p.MinAuthorizePos, p.CandidateFeeSplitNum, p.DappFee), p, g.W.BK)
}

func (g *Gen) opGasAddress(st *GovState) *Op {
	to := g.W.Dapp.Addr()
	name := "DAPP"
	switch g.Rng.Intn(8) {
	case 0:
		to, name = common.ADDRESS_EMPTY, "none"
	case 1:
		a := g.pick(g.stakeHolders())
		to, name = a.Addr(), a.Name
	}
	variant := g.maybeWrong("valid", 10)
	return g.govOp(gov.SET_GAS_ADDRESS, variant, name, &gov.GasAddress{Address: to}, g.W.BK)
}

func (g *Gen) opUpdateConfig(st *GovState) *Op {
	if st.Config == nil || st.Param == nil {
		return nil
	}
	c := *st.Config
	n := uint32(len(g.peersWith(st, active)))
	variant := "valid"
	k := uint32(7)
	if n > 7 {
		k = 7 + uint32(g.Rng.Intn(int(n-6)))
	}
	if 4*k > st.Param.CandidateNum {
		variant = "4K>candidateNum"
	}
	if k > n {
		variant = "K>candidates"
	}
	c.K, c.N, c.L, c.C = k, k+uint32(g.Rng.Intn(3)), 16*k, (k-1)/3
	c.MaxBlockChangeView = 10000 + uint32(g.Rng.Intn(2000))
	switch g.Rng.Intn(8) {
	case 0:
		variant, c.MaxBlockChangeView = "mbcv<10000", 100
	case 1:
		variant, c.K = "K<7", 6
	}
	variant = g.maybeWrong(variant, 10)
	return g.govOp(gov.UPDATE_CONFIG, variant, fmt.Sprintf("%+v", c), &c, g.W.BK)
}

// approveCandidate / rejectCandidate / unRegisterCandidate act on peers in
// RegisterCandidateStatus, a status that only exists below GetSelfGovRegisterHeight():
// 0 on the solo network, so these always fail here.
func (g *Gen) opLegacyAdmin(st *GovState) *Op {
	l := sortedPeers(st.Pool())
	if len(l) == 0 {
		return nil
	}
	pk := l[g.Rng.Intn(len(l))]
	switch g.Rng.Intn(3) {
	case 0:
		return g.govOp(gov.APPROVE_CANDIDATE, "noRegisterCandidateStatus", g.W.NodeName(pk), &gov.ApproveCandidateParam{PeerPubkey: pk}, g.W.BK)
	case 1:
		return g.govOp(gov.REJECT_CANDIDATE, "noRegisterCandidateStatus", g.W.NodeName(pk), &gov.RejectCandidateParam{PeerPubkey: pk}, g.W.BK)
	default:
		o := g.actorOf(st.Pool()[pk].Address)
		if o == nil {
			return nil
		}
		return g.govOp(gov.UNREGISTER_CANDIDATE, "noRegisterCandidateStatus", g.W.NodeName(pk), &gov.UnRegisterCandidateParam{PeerPubkey: pk, Address: o.Addr()}, o)
	}
}

// ---- ONG side

func (g *Gen) opWithdrawFee(st *GovState) *Op {
	var l []common.Address
	for a, v := range st.FeeAddr {
		if v > 0 && g.actorOf(a) != nil {
			l = append(l, a)
		}
	}
	sort.Slice(l, func(i, j int) bool { return string(l[i][:]) < string(l[j][:]) })
	who := g.pick(g.stakeHolders())
	variant := "valid"
	if len(l) > 0 && g.Rng.Chance(85) {
		who = g.actorOf(l[g.Rng.Intn(len(l))])
	} else if st.FeeAddr[who.Addr()] == 0 {
		variant = "nothingCredited" // succeeds and pays 0
	}
	if g.Height < gov.NEW_VERSION_BLOCK {
		variant = "heightGate"
	}
	variant = g.maybeWrong(variant, 8)
	op := g.govOp(gov.WITHDRAW_FEE, variant, who.Name, &gov.WithdrawFeeParam{Address: who.Addr()}, who)
	op.Addr = who.Addr()
	return op
}

func (g *Gen) opWithdrawOng(st *GovState) *Op {
	who := g.pick(g.stakeHolders())
	variant := g.maybeWrong("valid", 15)
	op := g.govOp(gov.WITHDRAW_ONG, variant, who.Name, &gov.WithdrawOngParam{Address: who.Addr()}, who)
	op.Addr = who.Addr()
	return op
}

// ---- registerCandidateTransferFrom / authorizeForPeerTransferFrom: approve first, then invoke

func (g *Gen) opTransferFromVariant(st *GovState) *Op {
	var call *Op
	isReg := g.Rng.Chance(35)
	if isReg {
		call = g.register(st, gov.REGISTER_CANDIDATE_TRANSFER_FROM)
	} else {
		call = g.authorize(st, gov.AUTHORIZE_FOR_PEER_TRANSFER_FROM)
	}
	if call == nil || call.Variant == "wrongSigner" {
		return nil
	}
	who := g.actorOf(call.Addr)
	if who == nil {
		return nil
	}
	var ontAmt uint64
	for _, a := range call.Amounts {
		ontAmt += uint64(a)
	}
	if ontAmt > 1_000_000_000 {
		ontAmt = 1_000_000_000 // ONT approve rejects more than the total supply
	}
	if call.Variant == "valid" && ontAmt > 1 && g.Rng.Chance(12) {
		ontAmt-- // allowance one short of what the call needs
		call.Variant = "allowanceShort"
	}
	approve := func(token common.Address, kind string, amt uint64) *Op {
		tx := g.native(token, "approve", &ont.TransferState{From: who.Addr(), To: GovAddr, Value: amt}, who)
		return g.mk(kind, "valid", fmt.Sprintf("%s approves GOV %d", who.Name, amt), tx, []*Actor{who})
	}
	if isReg {
		fee := uint64(500_000_000_000)
		if st.Param != nil {
			fee = st.Param.CandidateFee
		}
		ongOp := approve(OngAddr, "ongApprove", fee)
		g.queue = append(g.queue, func(*GovState) *Op { return ongOp })
	}
	g.queue = append(g.queue, func(*GovState) *Op { return call })
	return approve(OntAddr, "ontApprove", ontAmt)
}
