package govdrv

import (
	"fmt"
	"sort"

	"github.com/ontio/ontology/common"
	"github.com/ontio/ontology/smartcontract/event"
	gov "github.com/ontio/ontology/smartcontract/service/native/governance"
	"verifharness/lib/vf"
)

// Transfer is a native token transfer notification.
type Transfer struct {
	Token    common.Address
	From, To common.Address
	Amount   uint64
}

// transfers extracts the ONT/ONG "transfer" notifications of an executed transaction.
func transfers(n []*event.NotifyEventInfo) (out []Transfer, bad string) {
	for _, e := range n {
		if e.ContractAddress != OntAddr && e.ContractAddress != OngAddr {
			continue
		}
		st, ok := e.States.([]interface{})
		if !ok || len(st) < 4 {
			continue
		}
		name, _ := st[0].(string)
		if name != "transfer" {
			continue
		}
		fs, _ := st[1].(string)
		ts, _ := st[2].(string)
		amt, ok := st[3].(uint64)
		if !ok {
			return nil, fmt.Sprintf("transfer event amount has type %T", st[3])
		}
		f, err1 := common.AddressFromBase58(fs)
		t, err2 := common.AddressFromBase58(ts)
		if err1 != nil || err2 != nil {
			return nil, "transfer event with undecodable address"
		}
		out = append(out, Transfer{Token: e.ContractAddress, From: f, To: t, Amount: amt})
	}
	return out, ""
}

// Hist is one running history with the oracles' private state.
type Hist struct {
	R      *vf.Run
	W      *World
	Tag    string
	Prop   string // "C10" or "C11": which oracle reports violations
	Lines  []string
	LastTx string // hex of the transaction executed last (raw bytes: replays without the generator)

	lastGap   int64                     // ONT balance - recorded stakes after the previous operation
	deposited map[common.Address]uint64 // cumulative ONT moved addr -> governance
	withdrawn map[common.Address]uint64 // cumulative ONT moved governance -> addr (penalty payouts excluded)
}

func NewHist(r *vf.Run, w *World, tag, prop string) *Hist {
	h := &Hist{R: r, W: w, Tag: tag, Prop: prop, deposited: map[common.Address]uint64{}, withdrawn: map[common.Address]uint64{}}
	// the genesis peers' recorded stakes were deposited on their behalf by the bootstrap transfer
	for i, o := range w.Owners {
		h.deposited[o.Addr()] += w.InitPos[i]
	}
	return h
}

func (h *Hist) witness(extra map[string]interface{}) map[string]interface{} {
	m := map[string]interface{}{"history": h.Tag, "world": h.W.Tag, "K": h.W.K, "genesis_init_pos": h.W.InitPos, "genesis_max_block_change_view": h.W.MBCV,
		"accounts": "chain.DetAccount(world + \"/\" + name); node keys chain.DetAccount(world + \"/node<i>\")", "ops": append([]string{}, h.Lines...), "last_tx": h.LastTx}
	for k, v := range extra {
		m[k] = v
	}
	return m
}

func (h *Hist) violate(prop, key, what string, extra map[string]interface{}) {
	if prop != h.Prop {
		h.R.Count("other_property_would_fire/" + prop)
		return
	}
	h.R.Violation(key, what, h.witness(extra))
}

// ---------------------------------------------------------------- C11

// CheckC11 is evaluated after every operation, successful or not.
func (h *Hist) CheckC11(before, after *GovState, op *Op, res TxResult) {
	r := h.R
	outcome := "fail"
	if res.OK {
		outcome = "ok"
	}
	for _, e := range after.DecodeErrs {
		h.violate("C11", "decode:"+op.Kind, "governance record does not decode: "+e, nil)
	}
	// (1) conservation: ONT held by the contract == recorded total stakes + penalty stakes
	total, penalty := after.SumStake()
	gap := int64(after.OntGov) - int64(total+penalty)
	if gap != 0 && gap == h.lastGap {
		r.Count("c11/conservation_still_broken_by_earlier_op") // already reported at the operation that opened the gap
	}
	if gap != 0 && gap != h.lastGap {
		dir := "governance-holds-less-than-recorded"
		if after.OntGov > total+penalty {
			dir = "governance-holds-more-than-recorded"
		}
		h.violate("C11", fmt.Sprintf("conservation:%s:%s:%s", op.Kind, outcome, dir),
			fmt.Sprintf("ONT.balanceOf(governance)=%d but sum(TotalStake)=%d + sum(PenaltyStake)=%d = %d after %s", after.OntGov, total, penalty, total+penalty, op.String()),
			map[string]interface{}{"ont_balance": after.OntGov, "sum_total_stake": total, "sum_penalty": penalty, "before_balance": before.OntGov})
	}
	h.lastGap = gap
	r.Count("c11/conservation_checked")
	if penalty > 0 {
		r.Count("c11/conservation_checked_with_penalty_stake")
	}

	// (2) a failed operation leaves the whole contract storage unchanged
	if !res.OK {
		if before.Hash != after.Hash {
			h.violate("C11", fmt.Sprintf("failed-op-changed-state:%s:%s", op.Kind, op.Variant), "state dump differs after a failed operation: "+op.String(),
				map[string]interface{}{"diff": diffDumps(before.Raw, after.Raw, 8), "error": res.Err})
		}
		r.Count("c11/failed_op_state_unchanged_checked")
		return
	}

	// (3) ONT leaving the contract
	tr, bad := transfers(res.Notify)
	if bad != "" {
		r.Inconclusive("event parsing: " + bad)
		return
	}
	var in, out uint64
	toAddr := map[common.Address]uint64{}
	for _, t := range tr {
		if t.Token != OntAddr || t.From == t.To {
			continue
		}
		if t.To == GovAddr {
			in += t.Amount
			h.deposited[t.From] += t.Amount
		}
		if t.From == GovAddr {
			out += t.Amount
			toAddr[t.To] += t.Amount
		}
	}
	if after.OntGov+out != before.OntGov+in {
		r.Inconclusive(fmt.Sprintf("harness: ONT transfer events (in %d, out %d) do not explain the balance change %d -> %d at %s", in, out, before.OntGov, after.OntGov, op.String()))
	}
	if in > 0 {
		r.Count("c11/ont_deposit_seen")
	}
	for a, amt := range toAddr {
		if op.Kind == gov.TRANSFER_PENALTY {
			r.Count("c11/penalty_payout_seen")
			continue // confiscated stake paid to the address the admin names; not a withdrawal of that address
		}
		r.Count("c11/ont_withdrawal_seen")
		unf := before.Unfrozen(a)
		if amt > unf {
			h.violate("C11", "withdraw-exceeds-unfrozen:"+op.Kind, fmt.Sprintf("%s received %d ONT from governance but had only %d unfrozen before %s", h.W.Name(a), amt, unf, op.String()),
				map[string]interface{}{"address": h.W.Name(a), "received": amt, "unfrozen_before": unf})
		}
		h.withdrawn[a] += amt
		if h.withdrawn[a] > h.deposited[a] {
			h.violate("C11", "cumulative-withdrawn-exceeds-deposited:"+op.Kind, fmt.Sprintf("%s has withdrawn %d ONT in total but deposited %d", h.W.Name(a), h.withdrawn[a], h.deposited[a]),
				map[string]interface{}{"address": h.W.Name(a), "withdrawn": h.withdrawn[a], "deposited": h.deposited[a]})
		}
		r.Count("c11/cumulative_checked")
	}
	if op.Kind == gov.WITHDRAW {
		// per (peer, address) position: the listed amounts against the unfrozen bucket read just before
		per := map[string]uint64{}
		var sum uint64
		for i, pk := range op.Peers {
			per[pk] += uint64(op.Amounts[i])
			sum += uint64(op.Amounts[i])
		}
		for pk, amt := range per {
			if u := before.AuthOf(pk, op.Addr).WithdrawUnfreezePos; amt > u {
				h.violate("C11", "withdraw-exceeds-unfrozen-position", fmt.Sprintf("withdraw of %d from %s succeeded with unfrozen position %d: %s", amt, h.W.NodeName(pk), u, op.String()),
					map[string]interface{}{"peer": h.W.NodeName(pk), "amount": amt, "unfrozen_before": u})
			}
		}
		if toAddr[op.Addr] != sum {
			h.violate("C11", "withdraw-pays-different-amount", fmt.Sprintf("withdraw of %d paid %d: %s", sum, toAddr[op.Addr], op.String()), nil)
		}
		if sum > 0 && before.Unfrozen(op.Addr) == sum {
			r.Count("c11/withdrew_everything_unfrozen")
		}
		r.Count("c11/withdraw_position_checked")
	}
	if len(after.Penalty) > len(before.Penalty) {
		r.Count("c11/penalty_stake_created")
	}
	if after.View != before.View {
		r.Count("c11/epoch_change")
	}
	// every address's recorded TotalStake covers what the position tables attribute to it (all six
	// authorize buckets + init pos of owned peers): claims beyond the recorded stake are ONT the address
	// can unfreeze and withdraw without having deposited it.  (The opposite direction - stake without a
	// position - is only counted: it strands funds, it does not let anybody withdraw too much.)
	addrs := map[common.Address]bool{}
	for a := range after.TotalStake {
		addrs[a] = true
	}
	for _, ai := range after.Auth {
		addrs[ai.Address] = true
	}
	for _, p := range after.Pool() {
		addrs[p.Address] = true
	}
	for a := range addrs {
		ts, bs := after.TotalStake[a], after.BucketSum(a)
		if bs > ts && !(before.BucketSum(a) > before.TotalStake[a]) {
			h.violate("C11", "positions-exceed-recorded-stake:"+op.Kind, fmt.Sprintf("%s: positions (authorize buckets + init pos) sum to %d but its recorded total stake is %d after %s", h.W.Name(a), bs, ts, op.String()),
				map[string]interface{}{"address": h.W.Name(a), "total_stake": ts, "positions": bs})
		}
		if ts > bs {
			r.Count("diag/total_stake_exceeds_position_tables")
		}
	}
	r.Count("c11/positions_vs_stake_checked")
}

func diffDumps(a, b map[string]string, max int) []string {
	keys := map[string]bool{}
	for k := range a {
		keys[k] = true
	}
	for k := range b {
		keys[k] = true
	}
	ks := make([]string, 0, len(keys))
	for k := range keys {
		ks = append(ks, k)
	}
	sort.Strings(ks)
	var out []string
	for _, k := range ks {
		va, oka := a[k]
		vb, okb := b[k]
		if oka != okb || va != vb {
			out = append(out, fmt.Sprintf("%x: %x(%v) -> %x(%v)", k, va, oka, vb, okb))
			if len(out) >= max {
				break
			}
		}
	}
	return out
}

// ---------------------------------------------------------------- C10

// CheckC10 is evaluated around every epoch settlement (a transaction that advanced the
// governance view: commitDpos in either form, or blackNode of a consensus node).
// fork is a scratch continuation of the state after the settlement (nil: skip the
// withdrawability clause); mkWithdraw builds a signed withdrawFee transaction.
func (h *Hist) CheckC10(before, after *GovState, op *Op, res TxResult, fork Engine, mkWithdraw func(a *Actor) *Op) {
	r := h.R
	trigger := op.Kind
	if before.View <= gov.NEW_VERSION_VIEW {
		// executeCommitDpos1: pays peers directly out of the balance, no credit records
		r.Count("c10/legacy_settlement(view<=6)")
		r.Eval("")
		return
	}
	tr, bad := transfers(res.Notify)
	if bad != "" {
		r.Inconclusive("event parsing: " + bad)
		return
	}
	var in uint64
	for _, t := range tr {
		if t.Token == OngAddr && t.To == GovAddr && t.From != GovAddr {
			in += t.Amount
		}
	}
	balanceAtSplit := before.OngGov + in
	if balanceAtSplit < before.OngGov {
		r.Inconclusive("harness: ONG balance overflow")
		return
	}
	if balanceAtSplit < after.OngGov {
		r.Inconclusive(fmt.Sprintf("harness: governance ONG balance grew by more than the transfers in the settlement tx (%d + %d < %d)", before.OngGov, in, after.OngGov))
		return
	}
	paidOut := balanceAtSplit - after.OngGov // ONG that left the contract during the settlement (dapp share)
	if balanceAtSplit < before.SplitFee {
		h.violate("C10", "reserved-exceeds-balance-before:"+trigger, fmt.Sprintf("splitFee %d > ONG balance %d before the settlement", before.SplitFee, balanceAtSplit), nil)
		return
	}
	income := balanceAtSplit - before.SplitFee

	// credits
	addrs := map[common.Address]bool{}
	for a := range before.FeeAddr {
		addrs[a] = true
	}
	for a := range after.FeeAddr {
		addrs[a] = true
	}
	var sumCredit uint64
	credited := 0
	authorizerCredited := false
	owners := map[common.Address]bool{}
	for _, pool := range []map[string]*gov.PeerPoolItem{before.Pools[before.View-1], before.Pool()} {
		for _, p := range pool {
			owners[p.Address] = true
		}
	}
	for a := range addrs {
		b, c := before.FeeAddr[a], after.FeeAddr[a]
		if c < b {
			h.violate("C10", "credit-decreased-or-wrapped:"+trigger, fmt.Sprintf("SplitFeeAddress[%s].Amount went %d -> %d across a settlement", h.W.Name(a), b, c),
				map[string]interface{}{"address": h.W.Name(a), "before": b, "after": c, "income": income})
			continue
		}
		d := c - b
		if d > income {
			h.violate("C10", "single-credit-exceeds-income:"+trigger, fmt.Sprintf("%s credited %d out of an income of %d", h.W.Name(a), d, income),
				map[string]interface{}{"address": h.W.Name(a), "credit": d, "income": income})
		}
		n := sumCredit + d
		if n < sumCredit {
			h.violate("C10", "credit-sum-wraps:"+trigger, "sum of credits exceeds 2^64", map[string]interface{}{"income": income})
		}
		sumCredit = n
		if d > 0 {
			credited++
			if !owners[a] {
				authorizerCredited = true
			}
		}
	}
	if sumCredit+paidOut < sumCredit || sumCredit+paidOut > income {
		h.violate("C10", "over-distribution:"+trigger, fmt.Sprintf("credits %d + paid out %d = %d exceed the income %d (balance %d + received %d - reserved %d)", sumCredit, paidOut, sumCredit+paidOut, income, before.OngGov, in, before.SplitFee),
			map[string]interface{}{"credits": sumCredit, "paid_out": paidOut, "income": income, "ong_before": before.OngGov, "received_in_tx": in, "split_fee_before": before.SplitFee})
	}
	// afterwards: all recorded credits are covered by the contract's balance
	sumAmount, wrapped := after.SumFeeAddr()
	if wrapped || sumAmount > after.OngGov {
		h.violate("C10", "credits-exceed-balance:"+trigger, fmt.Sprintf("sum of SplitFeeAddress amounts %d (wrapped=%v) > governance ONG balance %d", sumAmount, wrapped, after.OngGov),
			map[string]interface{}{"sum_amount": sumAmount, "ong_balance": after.OngGov})
	}
	r.Count("c10/settlement_checked")
	r.Count("c10/settlement_by/" + trigger)
	if paidOut > 0 {
		r.Count("c10/settlement_with_dapp_share")
	}
	if authorizerCredited {
		r.Count("c10/settlement_crediting_authorizers")
	}
	if income == 0 {
		r.Count("c10/settlement_without_income")
	}
	if income > 0 && sumCredit+paidOut < income {
		r.Count("c10/settlement_leaving_remainder")
	}
	if income >= 10_000_000_000_000_000 {
		r.Count("c10/settlement_income>=1e16")
	}
	nCand := 0
	if before.Config != nil {
		for _, p := range before.Pools[before.View-1] {
			if active(p) {
				nCand++
			}
		}
		if nCand > int(before.Config.K) {
			r.Count("c10/settlement_with_candidate_peers")
		}
	}

	// every credited address can withdraw exactly its amount, all of them one after the other
	if fork != nil && mkWithdraw != nil {
		var l []common.Address
		for a, v := range after.FeeAddr {
			if v > 0 {
				l = append(l, a)
			}
		}
		sort.Slice(l, func(i, j int) bool { return string(l[i][:]) < string(l[j][:]) })
		for _, a := range l {
			act := h.W.actor(a)
			if act == nil {
				r.Count("c10/credited_address_without_key")
				continue
			}
			want := after.FeeAddr[a]
			wop := mkWithdraw(act)
			v0 := fork.View()
			bal0 := Balance(v0, OngAddr, a)
			wres := fork.Exec(wop.Tx, wop.Height, wop.Ts)
			v1 := fork.View()
			bal1 := Balance(v1, OngAddr, a)
			r.Count("c10/withdrawFee_checked")
			if !wres.OK {
				h.violate("C10", "credited-amount-not-withdrawable:"+trigger, fmt.Sprintf("withdrawFee of %s (credited %d) fails after the settlement: %.200s", h.W.Name(a), want, wres.Err),
					map[string]interface{}{"address": h.W.Name(a), "amount": want, "error": wres.Err, "ong_balance_of_governance": Balance(v0, OngAddr, GovAddr)})
				continue
			}
			if bal1-bal0 != want {
				h.violate("C10", "withdrawFee-pays-different-amount:"+trigger, fmt.Sprintf("withdrawFee of %s paid %d, credited %d", h.W.Name(a), bal1-bal0, want),
					map[string]interface{}{"address": h.W.Name(a), "amount": want, "paid": bal1 - bal0})
			}
		}
		if len(l) > 0 {
			r.Count("c10/withdraw_all_checked")
		}
	}
	fp := ""
	if income > 0 && credited > 0 {
		fp = fmt.Sprintf("%s/%d/%s", h.Tag, len(h.Lines), after.Hash)
	}
	r.Eval(fp)
}

func (w *World) actor(a common.Address) *Actor {
	for _, x := range w.AllActors() {
		if x.Addr() == a {
			return x
		}
	}
	return nil
}
