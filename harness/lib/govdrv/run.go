package govdrv

import (
	"encoding/hex"
	"fmt"
	"os"
	"path/filepath"
	"regexp"
	"runtime"
	"sort"
	"strings"
	"sync"

	gov "github.com/ontio/ontology/smartcontract/service/native/governance"
	"verifharness/lib/chain"
	"verifharness/lib/vf"
)

const Rule = "seeded histories of signed governance invoke transactions over generated genesis peer sets (K=7..12, four stake distributions): " +
	"register/authorize/unauthorize/withdraw/quit/black/white/fee-percentage/init-pos/param updates/withdrawFee/withdrawOng, ONG income transfers and " +
	"epoch settlements (admin-signed and unsigned consensus commitDpos, blackNode-triggered), ~18% deliberately invalid (wrong signer, over-withdraw, unknown peer, bad amounts); " +
	"each tx runs through the production StateStore.HandleInvokeTransaction on a copy of a real solo ledger's post-bootstrap state with a workload-chosen block height/timestamp, " +
	"plus lockstep histories committed as real blocks on the solo ledger (agreement check). " +
	"C10 case = one epoch settlement on the executeSplit2 path, non-trivial when income>0 and at least one address is credited; " +
	"C11 case = one operation, non-trivial when it succeeded or was judged against the full state dump; distinct by (operation kind, outcome, resulting state hash)"

// Cfg sizes a run.
type Cfg struct {
	Prop      string // "C10" | "C11"
	Worlds    int
	Hist      int
	Len       int
	AgreeLen  int
	SampleOps int
}

func short(s string, n int) string {
	if len(s) > n {
		return s[:n] + "…"
	}
	return s
}

// errClass maps a handler error to a coarse class for the evidence counters.
func errClass(e string) string {
	switch {
	case e == "":
		return ""
	case strings.Contains(e, "panic:"):
		return "panic"
	case strings.Contains(e, "block num is not reached"):
		return "heightGate"
	case strings.Contains(e, "checkWitness") || strings.Contains(e, "authentication"):
		return "witness"
	default:
		return "other"
	}
}

// failure reasons of the executed transactions (evidence only): kind -> reason -> count
var (
	reasonMu sync.Mutex
	reasons  = map[string]map[string]int{}
	digits   = regexp.MustCompile(`[0-9]+`)
)

func noteReason(kind, err string) {
	const marker = "Native serivce function execute error!: "
	if i := strings.LastIndex(err, marker); i >= 0 {
		err = err[i+len(marker):]
	}
	err = digits.ReplaceAllString(short(err, 90), "#")
	reasonMu.Lock()
	if reasons[kind] == nil {
		reasons[kind] = map[string]int{}
	}
	if len(reasons[kind]) < 40 || reasons[kind][err] > 0 {
		reasons[kind][err]++
	}
	reasonMu.Unlock()
}

// runHistory drives one history on `primary` (and in lockstep on `twin` when given).
func runHistory(r *vf.Run, cfg Cfg, w *World, tag string, rng *vf.RNG, primary, twin Engine, lowEra bool, startHeight uint32) {
	h := NewHist(r, w, tag, cfg.Prop)
	g := &Gen{W: w, TB: chain.NewTxBuilder(uint32(rng.U64() % 1_000_000_000)), Rng: rng, Height: startHeight, Ts: w.BootTime + 5, LowEra: lowEra,
		Profile: strings.ToLower(cfg.Prop), Scenarios: map[string]int{}}
	defer func() {
		for k, v := range g.Scenarios {
			r.Add("scenario_started/"+k, int64(v))
		}
	}()
	st := ReadState(primary.View())
	n := cfg.Len
	if lowEra {
		n = cfg.AgreeLen
	}
	mkWithdraw := func(a *Actor) *Op {
		hh := g.Height + 1
		if hh < gov.NEW_VERSION_BLOCK {
			hh = gov.NEW_VERSION_BLOCK
		}
		op := g.govOp(gov.WITHDRAW_FEE, "valid", a.Name, &gov.WithdrawFeeParam{Address: a.Addr()}, a)
		op.Height, op.Ts = hh, g.Ts+1
		return op
	}
	engine := "virtual"
	if lowEra {
		engine = "ledger"
	}
	for step := 0; step < n; step++ {
		op := g.Next(st)
		res := primary.Exec(op.Tx, op.Height, op.Ts)
		after := ReadState(primary.View())
		outcome := "fail"
		if res.OK {
			outcome = "ok"
		}
		line := fmt.Sprintf("%s -> %s", op.String(), outcome)
		if !res.OK && res.Err != "" {
			line += " (" + short(res.Err, 160) + ")"
		}
		h.Lines = append(h.Lines, line)
		h.LastTx = hex.EncodeToString(op.Tx.ToArray())
		r.Count("op/" + op.Kind + "/" + outcome)
		r.Count("variant/" + op.Variant + "/" + outcome)
		r.Count("engine/" + engine + "/ops")
		if !res.OK {
			noteReason(op.Kind, res.Err)
		}
		if c := errClass(res.Err); c == "heightGate" {
			r.Count("fail/height_gate")
		}
		if res.Panic != nil {
			// the real node would crash here (C12's concern); nothing was committed
			r.Count("panic_in_contract")
			r.Extra("panic_witness", h.witness(map[string]interface{}{"panic": fmt.Sprint(res.Panic)}))
			if lowEra {
				return // the ledger's saving lock is held by the panicked call
			}
		}
		// expectation bookkeeping of the generator (not a verdict): how often its own label was right
		if (op.Variant == "valid") != res.OK {
			r.Count("generator_label_mismatch/" + op.Kind + "/" + op.Variant)
		}

		// lockstep twin: same transaction, same header, other engine
		if twin != nil {
			tres := twin.Exec(op.Tx, op.Height, op.Ts)
			tst := ReadState(twin.View())
			r.Count("agreement/steps_compared")
			if tres.OK != res.OK || tst.Hash != after.Hash {
				r.Inconclusive(fmt.Sprintf("engines disagree at %s step %d (%s): ledger ok=%v virtual ok=%v (%s); state diff %v", tag, step, op.String(), res.OK, tres.OK, short(tres.Err, 120), diffDumps(after.Raw, tst.Raw, 4)))
				return
			}
		}

		// ---- oracles
		h.CheckC11(st, after, op, res)
		if cfg.Prop == "C11" {
			fp := ""
			if res.OK || op.Variant != "valid" {
				fp = op.Kind + "/" + outcome + "/" + after.Hash
			}
			r.Eval(fp)
		}
		if cfg.Prop == "C10" && res.OK && after.View != st.View {
			var fork Engine
			switch {
			case twin != nil:
				fork = twin.Fork()
			default:
				fork = primary.Fork()
			}
			h.CheckC10(st, after, op, res, fork, mkWithdraw)
			if fork != nil {
				fork.Close()
			}
		}
		if op.Kind == "commitDpos/system" || op.Kind == "commitDpos/signed" || op.Kind == gov.BLACK_NODE {
			if res.Panic != nil {
				r.Count("c10/settlement_panicked(inconclusive case)")
			}
		}
		st = after
	}
	if len(h.Lines) > 0 {
		k := cfg.SampleOps
		if k > len(h.Lines) {
			k = len(h.Lines)
		}
		r.Sample(map[string]interface{}{"history": tag, "world": w.Tag, "K": w.K, "engine": engine, "start_height": startHeight, "first_ops": h.Lines[:k], "final_view": st.View})
	}
	r.Count("histories/" + engine)
	if st.View > gov.NEW_VERSION_VIEW+1 {
		r.Count("histories_reaching_split2")
	}
}

// startHeight picks the virtual block height a history starts at.
func startHeight(rng *vf.RNG) uint32 {
	switch x := rng.Intn(20); {
	case x < 8:
		return gov.NEW_VERSION_BLOCK + uint32(rng.Intn(2000))
	case x < 11:
		return gov.NEW_VERSION_BLOCK - 4 - uint32(rng.Intn(30)) // crosses the NEW_VERSION_BLOCK gate
	case x < 14:
		return gov.NEW_WITHDRAW_BLOCK - uint32(rng.Intn(60)) // crosses NEW_WITHDRAW_BLOCK
	default:
		return 500_000 + uint32(rng.U64()%2_000_000_000)
	}
}

// Run is the whole monitor for one property.
func Run(r *vf.Run, cfg Cfg) {
	scratch := vf.Scratch(strings.ToLower(cfg.Prop))
	defer os.RemoveAll(scratch)
	seed := vf.Seed()
	rng := vf.NewRNG(seed)

	// ---- worlds: real solo ledgers, created one after the other (config.DefConfig is global)
	var worlds []*World
	for i := 0; i <= cfg.Worlds; i++ {
		K := 7 + i%6
		variant := i + int(seed%4)
		if i == cfg.Worlds {
			variant = -1 - int(seed%3) // the zero-stake world
		}
		w := NewWorld(fmt.Sprintf("gov-%d-w%d", seed, i), K, variant)
		if err := w.Boot(filepath.Join(scratch, fmt.Sprintf("w%d", i))); err != nil {
			r.Inconclusive(fmt.Sprintf("world %d (K=%d) does not boot: %v", i, K, err))
			continue
		}
		st := ReadState(w.Chain.Store().GetCacheDB())
		tot, _ := st.SumStake()
		if tot != w.SumInitPos() || st.OntGov != tot || st.View != 1 || len(st.Pool()) != K {
			r.Inconclusive(fmt.Sprintf("world %d: unexpected post-bootstrap state: stakes %d initpos %d ont %d view %d peers %d", i, tot, w.SumInitPos(), st.OntGov, st.View, len(st.Pool())))
			continue
		}
		worlds = append(worlds, w)
		r.Count("worlds_booted")
	}
	defer func() {
		for _, w := range worlds {
			w.Close()
		}
		os.RemoveAll(scratch)
	}()
	if len(worlds) == 0 {
		return
	}
	workers := runtime.NumCPU()
	if workers > 8 {
		workers = 8
	}

	// ---- phase 1: real blocks on each world's ledger, the virtual engine in lockstep
	var wg sync.WaitGroup
	for i, w := range worlds {
		if w.ZeroStakePeers {
			continue
		}
		wg.Add(1)
		go func(i int, w *World) {
			defer wg.Done()
			sub := rng.Sub(uint64(1_000_000 + i))
			twin := NewVEngine(w)
			defer twin.Close()
			runHistory(r, cfg, w, fmt.Sprintf("ledger-%d", i), sub, &LEngine{C: w.Chain}, twin, true, w.BootHeight)
		}(i, w)
	}
	wg.Wait()

	// ---- phase 2: histories at workload-chosen heights
	var normal []*World
	var zero *World
	for _, w := range worlds {
		if w.ZeroStakePeers {
			zero = w
		} else {
			normal = append(normal, w)
		}
	}
	if len(normal) == 0 {
		r.Inconclusive("no regular world booted")
		return
	}
	vf.Parallel(cfg.Hist, workers, func(i int) {
		sub := rng.Sub(uint64(i))
		w := normal[i%len(normal)]
		if zero != nil && i%25 == 24 {
			w = zero
		}
		e := NewVEngine(w)
		defer e.Close()
		runHistory(r, cfg, w, fmt.Sprintf("hist-%d", i), sub, e, nil, false, startHeight(sub))
	})
	summarise(r, cfg)
}

// summarise adds the coverage requirements.
func summarise(r *vf.Run, cfg Cfg) {
	both := []string{gov.REGISTER_CANDIDATE, gov.AUTHORIZE_FOR_PEER, gov.UNAUTHORIZE_FOR_PEER, gov.WITHDRAW, gov.QUIT_NODE, gov.BLACK_NODE, gov.WHITE_NODE,
		gov.SET_PEER_COST, gov.SET_FEE_PERCENTAGE, gov.ADD_INIT_POS, gov.REDUCE_INIT_POS, gov.UPDATE_GLOBAL_PARAM, gov.UPDATE_GLOBAL_PARAM2,
		gov.WITHDRAW_FEE, gov.WITHDRAW_ONG, gov.CHANGE_MAX_AUTHORIZATION, gov.SET_GAS_ADDRESS, gov.TRANSFER_PENALTY, gov.AUTHORIZE_FOR_PEER_TRANSFER_FROM,
		"commitDpos/signed", "commitDpos/system"}
	for _, k := range both {
		r.Require("op/"+k+"/ok", 1)
		r.Require("op/"+k+"/fail", 1)
	}
	r.Require("op/"+gov.REGISTER_CANDIDATE_TRANSFER_FROM+"/ok", 1)
	r.Require("op/ongIncome/ok", 20)
	r.Require("op/ontApprove/ok", 3)
	for _, k := range []string{gov.APPROVE_CANDIDATE, gov.REJECT_CANDIDATE, gov.UNREGISTER_CANDIDATE} {
		r.Require("op/"+k+"/fail", 1)
	}
	for _, v := range []string{"wrongSigner", "overWithdraw", "unknownPeer", "overPosition", "beforeCycle", "heightGate", "ownPeer"} {
		r.Require("variant/"+v+"/fail", 3)
	}
	r.Require("fail/height_gate", 3)
	r.Require("agreement/steps_compared", 50)
	r.Require("histories_reaching_split2", 5)
	if cfg.Prop == "C10" {
		r.Require("c10/settlement_checked", 30)
		r.Require("c10/settlement_crediting_authorizers", 5)
		r.Require("c10/settlement_with_dapp_share", 3)
		r.Require("c10/settlement_with_candidate_peers", 5)
		r.Require("c10/settlement_by/"+gov.BLACK_NODE, 1)
		r.Require("c10/settlement_by/commitDpos/system", 3)
		r.Require("c10/settlement_by/commitDpos/signed", 3)
		r.Require("c10/withdrawFee_checked", 30)
		r.Require("c10/settlement_income>=1e16", 2)
	} else {
		r.Require("c11/conservation_checked", 500)
		r.Require("c11/conservation_checked_with_penalty_stake", 10)
		r.Require("c11/failed_op_state_unchanged_checked", 100)
		r.Require("c11/ont_withdrawal_seen", 10)
		r.Require("c11/withdraw_position_checked", 10)
		r.Require("c11/withdrew_everything_unfrozen", 3)
		r.Require("c11/penalty_stake_created", 2)
		r.Require("c11/penalty_payout_seen", 1)
		r.Require("c11/epoch_change", 30)
	}
	// generator-label mismatches are informational; list them compactly
	var mism []string
	for _, k := range counterNames(r, "generator_label_mismatch/") {
		mism = append(mism, fmt.Sprintf("%s=%d", strings.TrimPrefix(k, "generator_label_mismatch/"), r.Counter(k)))
	}
	sort.Strings(mism)
	r.Extra("generator_label_mismatches", mism)
	reasonMu.Lock()
	r.Extra("failure_reasons", reasons)
	reasonMu.Unlock()

	r.Extra("driven_operations", "all governance methods except initConfig (genesis only), updateSplitCurve and setPromisePos are issued as signed invoke transactions; "+
		"approveCandidate/rejectCandidate/unRegisterCandidate always fail on the solo network id (RegisterCandidateStatus only exists below GetSelfGovRegisterHeight()=0: registerCandidate approves immediately and needs no ONT ID token). "+
		"The real ledger only accepts consecutive heights, and setPeerCost/updateGlobalParam2/withdrawFee/addInitPos/reduceInitPos/changeMaxAuthorization are gated by NEW_VERSION_BLOCK=414100 "+
		"(without changeMaxAuthorization no authorizeForPeer can succeed), so histories at those heights run through StateStore.HandleInvokeTransaction with a chosen header instead of ExecuteBlock; "+
		"the ledger-path histories (heights 2..) are run in lockstep on both engines and must agree on every state dump")
	r.Assume("network id solo: GetNewPeerCostHeight()=GetUserFeeSplitHeight()=GetOntHolderUnboundDeadline()=0, so only the current fee formulas (big.Int per-address share, stake/node cost split) are exercised, not the pre-fork main-net branches")
	r.Assume("bootstrap: the bookkeeper deposits sum(genesis InitPos) ONT at the governance address and funds the ONT contract with ONG; initConfig records the genesis stakes without moving ONT, so the conservation identity is judged from that funded state on")
	r.Assume("no plain ONT transfers to the governance address other than through governance methods (a donation is not a stake); ONG transfers to it are fee income")
	r.Assume("StateStore.HandleInvokeTransaction with a caller-chosen header is the ledger's transaction path (same function executeBlock calls); agreement is checked on the ledger-path histories of every run")
}

func counterNames(r *vf.Run, prefix string) []string {
	// vf.Run has no counter enumeration; probe the known label space
	var out []string
	kinds := []string{gov.REGISTER_CANDIDATE, gov.REGISTER_CANDIDATE_TRANSFER_FROM, gov.AUTHORIZE_FOR_PEER, gov.AUTHORIZE_FOR_PEER_TRANSFER_FROM, gov.UNAUTHORIZE_FOR_PEER, gov.WITHDRAW, gov.QUIT_NODE,
		gov.BLACK_NODE, gov.WHITE_NODE, gov.SET_PEER_COST, gov.SET_FEE_PERCENTAGE, gov.ADD_INIT_POS, gov.REDUCE_INIT_POS, gov.UPDATE_GLOBAL_PARAM, gov.UPDATE_GLOBAL_PARAM2,
		gov.WITHDRAW_FEE, gov.WITHDRAW_ONG, gov.CHANGE_MAX_AUTHORIZATION, gov.SET_GAS_ADDRESS, gov.TRANSFER_PENALTY, gov.UPDATE_CONFIG, "commitDpos/signed", "commitDpos/system", "ongIncome", "ontApprove", "ongApprove",
		gov.APPROVE_CANDIDATE, gov.REJECT_CANDIDATE, gov.UNREGISTER_CANDIDATE}
	variants := []string{"valid", "wrongSigner", "alreadyInPool", "badPubkey", "zero", "belowMinInitStake", "overBalance", "blackListed", "overLimit", "unknownPeer", "ownPeer", "inactivePeer", "peerFull",
		"notMultiple", "overRoom", "overPosition", "overWithdraw", "overWithdrawSplit", "frozenPosition", "notActive", "tooFewPeers", "notOwner", "notBlack", "noPenalty", "over100", "noPromiseRecord",
		"belowFloor", "moreThanInitPos", "A+B!=100", "yita0", "penalty>100", "posLimit0", "candidateNum<4K", "candidateFeeTooSmall", "minInitStake0", "splitNum<K", "4K>candidateNum", "K>candidates",
		"mbcv<10000", "K<7", "noRegisterCandidateStatus", "nothingCredited", "heightGate", "allowanceShort", "beforeCycle", "nonAdminAfterCycle"}
	for _, k := range kinds {
		for _, v := range variants {
			n := prefix + k + "/" + v
			if r.Counter(n) > 0 {
				out = append(out, n)
			}
		}
	}
	return out
}
