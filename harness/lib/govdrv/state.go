package govdrv

import (
	"bytes"
	"crypto/sha256"
	"encoding/binary"
	"encoding/hex"
	"fmt"
	"sort"
	"strings"

	"github.com/ontio/ontology/common"
	cstates "github.com/ontio/ontology/core/states"
	gov "github.com/ontio/ontology/smartcontract/service/native/governance"
	nutils "github.com/ontio/ontology/smartcontract/service/native/utils"
	"github.com/ontio/ontology/smartcontract/storage"
)

// GovState is the governance contract's storage decoded from a state dump with the
// contract's own decoders, every table enumerated by key prefix.
type GovState struct {
	Raw  map[string]string // whole ST_STORAGE dump (all contracts)
	Hash string

	View       uint32
	ViewHeight uint32
	Pools      map[uint32]map[string]*gov.PeerPoolItem
	Auth       map[string]*gov.AuthorizeInfo // key: pk + "|" + hex(addr)
	TotalStake map[common.Address]uint64
	Penalty    map[string]*gov.PenaltyStake
	SplitFee   uint64
	HasSplit   bool
	FeeAddr    map[common.Address]uint64
	Param      *gov.GlobalParam
	Param2     *gov.GlobalParam2 // nil when never set (contract defaults apply)
	Config     *gov.Configuration
	Attr       map[string]*gov.PeerAttributes
	Black      map[string]bool
	Promise    map[string]uint64
	GasAddr    common.Address

	OntGov uint64
	OngGov uint64

	DecodeErrs []string
}

func authKey(pk string, a common.Address) string { return pk + "|" + hex.EncodeToString(a[:]) }

// Pool is the peer pool of the current view.
func (s *GovState) Pool() map[string]*gov.PeerPoolItem { return s.Pools[s.View] }

func (s *GovState) AuthOf(pk string, a common.Address) *gov.AuthorizeInfo {
	if ai, ok := s.Auth[authKey(pk, a)]; ok {
		return ai
	}
	return &gov.AuthorizeInfo{PeerPubkey: pk, Address: a}
}

// MinAuthorizePos / CandidateFeeSplitNum / DappFee as the contract resolves them.
func (s *GovState) MinAuthorizePos() uint32 {
	if s.Param2 != nil {
		return s.Param2.MinAuthorizePos
	}
	return 500
}

func (s *GovState) SumStake() (total uint64, penalty uint64) {
	for _, v := range s.TotalStake {
		total += v
	}
	for _, p := range s.Penalty {
		penalty += p.InitPos + p.AuthorizePos
	}
	return
}

func (s *GovState) SumFeeAddr() (sum uint64, wrapped bool) {
	for _, v := range s.FeeAddr {
		n := sum + v
		if n < sum {
			wrapped = true
		}
		sum = n
	}
	return
}

// Balance reads a native token balance (integer units) from a state view.
func Balance(v *storage.CacheDB, token, addr common.Address) uint64 {
	b, err := nutils.GetNativeTokenBalance(v, append(append([]byte{}, token[:]...), addr[:]...))
	if err != nil {
		panic(fmt.Sprintf("balance decode: %v", err))
	}
	return b.ToInteger().BigInt().Uint64()
}

func rawValue(v string) ([]byte, error) { return cstates.GetValueFromRawStorageItem([]byte(v)) }

// ReadState dumps and decodes the state behind v.
func ReadState(v *storage.CacheDB) *GovState {
	s := &GovState{Raw: Dump(v), Pools: map[uint32]map[string]*gov.PeerPoolItem{}, Auth: map[string]*gov.AuthorizeInfo{},
		TotalStake: map[common.Address]uint64{}, Penalty: map[string]*gov.PenaltyStake{}, FeeAddr: map[common.Address]uint64{},
		Attr: map[string]*gov.PeerAttributes{}, Black: map[string]bool{}, Promise: map[string]uint64{}}
	keys := make([]string, 0, len(s.Raw))
	for k := range s.Raw {
		keys = append(keys, k)
	}
	sort.Strings(keys)
	h := sha256.New()
	for _, k := range keys {
		var l [8]byte
		binary.LittleEndian.PutUint32(l[:4], uint32(len(k)))
		binary.LittleEndian.PutUint32(l[4:], uint32(len(s.Raw[k])))
		h.Write(l[:])
		h.Write([]byte(k))
		h.Write([]byte(s.Raw[k]))
	}
	s.Hash = hex.EncodeToString(h.Sum(nil)[:12])
	s.OntGov = Balance(v, OntAddr, GovAddr)
	s.OngGov = Balance(v, OngAddr, GovAddr)

	gp := string(GovAddr[:])
	fail := func(what string, err error) {
		if len(s.DecodeErrs) < 5 {
			s.DecodeErrs = append(s.DecodeErrs, fmt.Sprintf("%s: %v", what, err))
		}
	}
	for _, k := range keys {
		if !strings.HasPrefix(k, gp) {
			continue
		}
		key := k[len(gp):]
		val, err := rawValue(s.Raw[k])
		if err != nil {
			fail("raw item "+hex.EncodeToString([]byte(key)), err)
			continue
		}
		src := common.NewZeroCopySource(val)
		has := func(p string) bool { return strings.HasPrefix(key, p) }
		switch {
		case key == gov.GOVERNANCE_VIEW:
			gv := new(gov.GovernanceView)
			if err := gv.Deserialize(bytes.NewBuffer(val)); err != nil {
				fail("governanceView", err)
			} else {
				s.View, s.ViewHeight = gv.View, gv.Height
			}
		case key == gov.GLOBAL_PARAM2:
			p := new(gov.GlobalParam2)
			if err := p.Deserialization(src); err != nil {
				fail("globalParam2", err)
			} else {
				s.Param2 = p
			}
		case key == gov.GLOBAL_PARAM:
			p := new(gov.GlobalParam)
			if err := p.Deserialization(src); err != nil {
				fail("globalParam", err)
			} else {
				s.Param = p
			}
		case key == gov.VBFT_CONFIG:
			p := new(gov.Configuration)
			if err := p.Deserialization(src); err != nil {
				fail("vbftConfig", err)
			} else {
				s.Config = p
			}
		case key == gov.GAS_ADDRESS:
			p := new(gov.GasAddress)
			if err := p.Deserialization(src); err != nil {
				fail("gasAddress", err)
			} else {
				s.GasAddr = p.Address
			}
		case has(gov.SPLIT_FEE_ADDRESS):
			p := new(gov.SplitFeeAddress)
			if err := p.Deserialization(src); err != nil {
				fail("splitFeeAddress", err)
				break
			}
			var a common.Address
			copy(a[:], key[len(gov.SPLIT_FEE_ADDRESS):])
			if len(key) != len(gov.SPLIT_FEE_ADDRESS)+20 || a != p.Address {
				fail("splitFeeAddress key/record address mismatch", fmt.Errorf("%x", key))
			}
			s.FeeAddr[a] = p.Amount
		case key == gov.SPLIT_FEE:
			n, err := gov.GetBytesUint64(val)
			if err != nil {
				fail("splitFee", err)
			}
			s.SplitFee, s.HasSplit = n, true
		case has(gov.PEER_POOL) && len(key) == len(gov.PEER_POOL)+4:
			m := &gov.PeerPoolMap{PeerPoolMap: map[string]*gov.PeerPoolItem{}}
			if err := m.Deserialization(src); err != nil {
				fail("peerPool", err)
				break
			}
			view := binary.LittleEndian.Uint32([]byte(key[len(gov.PEER_POOL):]))
			s.Pools[view] = m.PeerPoolMap
		case has(gov.TOTAL_STAKE):
			p := new(gov.TotalStake)
			if err := p.Deserialization(src); err != nil {
				fail("totalStake", err)
				break
			}
			var a common.Address
			copy(a[:], key[len(gov.TOTAL_STAKE):])
			if len(key) != len(gov.TOTAL_STAKE)+20 || a != p.Address {
				fail("totalStake key/record address mismatch", fmt.Errorf("%x", key))
			}
			s.TotalStake[a] = p.Stake
		case has(gov.PENALTY_STAKE):
			p := new(gov.PenaltyStake)
			if err := p.Deserialization(src); err != nil {
				fail("penaltyStake", err)
				break
			}
			s.Penalty[hex.EncodeToString([]byte(key[len(gov.PENALTY_STAKE):]))] = p
		case has(string(gov.AUTHORIZE_INFO_POOL)):
			p := new(gov.AuthorizeInfo)
			if err := p.Deserialization(src); err != nil {
				fail("authorizeInfo", err)
				break
			}
			s.Auth[authKey(p.PeerPubkey, p.Address)] = p
		case has(gov.PEER_ATTRIBUTES):
			p := new(gov.PeerAttributes)
			if err := p.Deserialization(src); err != nil {
				fail("peerAttributes", err)
				break
			}
			s.Attr[p.PeerPubkey] = p
		case has(gov.BLACK_LIST):
			s.Black[hex.EncodeToString([]byte(key[len(gov.BLACK_LIST):]))] = true
		case has(gov.PROMISE_POS):
			p := new(gov.PromisePos)
			if err := p.Deserialization(src); err != nil {
				fail("promisePos", err)
				break
			}
			s.Promise[p.PeerPubkey] = p.PromisePos
		}
	}
	return s
}

// MaxAuthorize as the contract resolves it (0 when no attributes record exists).
func (s *GovState) MaxAuthorize(pk string) uint64 {
	if a, ok := s.Attr[pk]; ok {
		return a.MaxAuthorize
	}
	return 0
}

// Unfrozen is the sum over all peers of the address's WithdrawUnfreezePos.
func (s *GovState) Unfrozen(a common.Address) uint64 {
	var n uint64
	for _, ai := range s.Auth {
		if ai.Address == a {
			n += ai.WithdrawUnfreezePos
		}
	}
	return n
}

// BucketSum is everything the contract's position tables attribute to the address:
// all six authorize buckets plus the init pos of the peers it owns (current view).
func (s *GovState) BucketSum(a common.Address) uint64 {
	var n uint64
	for _, ai := range s.Auth {
		if ai.Address == a {
			n += ai.ConsensusPos + ai.CandidatePos + ai.NewPos + ai.WithdrawConsensusPos + ai.WithdrawCandidatePos + ai.WithdrawUnfreezePos
		}
	}
	for _, p := range s.Pool() {
		if p.Address == a {
			n += p.InitPos
		}
	}
	return n
}
