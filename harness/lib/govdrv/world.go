// Package govdrv is the shared transaction-level driver of the governance monitors
// (C10, C11): generated genesis peer sets whose keys the harness holds, a real solo
// ledger per genesis ("world"), two execution engines for signed governance invoke
// transactions (the ledger's own ExecuteBlock/SubmitBlock path, and the production
// StateStore.HandleInvokeTransaction on a copy of the ledger's state with a block header
// whose height/timestamp the workload chooses), a state-aware operation generator, the
// decoded governance state and the two oracles.
package govdrv

import (
	"encoding/hex"
	"fmt"
	"path/filepath"

	"github.com/ontio/ontology-crypto/keypair"
	"github.com/ontio/ontology/account"
	"github.com/ontio/ontology/common"
	"github.com/ontio/ontology/common/config"
	"github.com/ontio/ontology/core/store/ledgerstore"
	"github.com/ontio/ontology/core/types"
	nutils "github.com/ontio/ontology/smartcontract/service/native/utils"
	"github.com/syndtr/goleveldb/leveldb"
	"github.com/syndtr/goleveldb/leveldb/opt"
	"verifharness/lib/chain"
)

var (
	GovAddr = nutils.GovernanceContractAddress
	OntAddr = nutils.OntContractAddress
	OngAddr = nutils.OngContractAddress
)

// Actor is a named account.
type Actor struct {
	Name string
	Acc  *account.Account
}

func (a *Actor) Addr() common.Address { return a.Acc.Address }

// Node is a consensus/candidate node key (only its public key is used by governance).
type Node struct {
	Name string
	PK   string // hex public key as governance stores it
}

type KV struct{ K, V []byte }

// World is one genesis: peers, actors, and the raw state DB after the bootstrap block.
type World struct {
	Tag      string
	K        int
	MBCV     uint32 // genesis MaxBlockChangeView
	BK       *Actor // solo bookkeeper = owner of all ONT/ONG = governance admin (param-contract operator)
	Nodes    []*Node
	Owners   []*Actor // Owners[i] owns genesis peer Nodes[i] (i<K); spare nodes are registered by any owner
	Stakers  []*Actor
	Dapp     *Actor
	Stranger *Actor // never funded, never authorised
	InitPos  []uint64
	VBFT     *config.VBFTConfig
	// ZeroStakePeers: some genesis peers have InitPos 0.  Every settlement on the
	// executeSplit2 path then panics (big.Int division by zero in splitNodeFee: initPos+totalPos == 0),
	// which is C12's concern; such a world only gets a small share of the histories.
	ZeroStakePeers bool

	Chain      *chain.Chain
	BootHeight uint32
	BootTime   uint32
	Snapshot   []KV // every key of the state LevelDB after the bootstrap block

	names map[common.Address]string
}

const (
	OwnerOnt  = 8_000_000
	StakerOnt = 8_000_000
	ActorOng  = 50_000_000_000_000      // 50 000 ONG
	OntCtrOng = 200_000_000_000_000_000 // ONG held by the ONT contract for governance unbinding (as on main net)
)

func det(tag, name string) *Actor { return &Actor{Name: name, Acc: chain.DetAccount(tag + "/" + name)} }

// NewWorld builds the actors and the VBFT genesis section for K genesis peers.
// variant selects the stake distribution and MaxBlockChangeView.
func NewWorld(tag string, K, variant int) *World {
	w := &World{Tag: tag, K: K, names: map[common.Address]string{}}
	w.BK = &Actor{Name: "BK", Acc: chain.DetAccount(tag + "/bookkeeper")}
	nSpare := 5
	for i := 0; i < K+nSpare; i++ {
		a := chain.DetAccount(fmt.Sprintf("%s/node%d", tag, i))
		w.Nodes = append(w.Nodes, &Node{Name: fmt.Sprintf("N%d", i), PK: hex.EncodeToString(keypair.SerializePublicKey(a.PublicKey))})
	}
	for i := 0; i < K; i++ {
		w.Owners = append(w.Owners, det(tag, fmt.Sprintf("O%d", i)))
	}
	for i := 0; i < 6; i++ {
		w.Stakers = append(w.Stakers, det(tag, fmt.Sprintf("S%d", i)))
	}
	w.Dapp = det(tag, "DAPP")
	w.Stranger = det(tag, "X")
	for _, a := range w.AllActors() {
		w.names[a.Addr()] = a.Name
	}
	w.names[GovAddr] = "GOV"
	w.names[OntAddr] = "ONTCTR"
	w.names[OngAddr] = "ONGCTR"

	mbcv := []uint32{12, 40, 7}[((variant%3)+3)%3]
	w.ZeroStakePeers = variant < 0
	w.MBCV = mbcv
	v := &config.VBFTConfig{
		N: uint32(K), C: uint32((K - 1) / 3), K: uint32(K), L: uint32(16 * K),
		BlockMsgDelay: 10000, HashMsgDelay: 10000, PeerHandshakeTimeout: 10,
		MaxBlockChangeView: mbcv, MinInitStake: 10000,
		AdminOntID: config.PolarisConfig.VBFT.AdminOntID,
		VrfValue:   config.PolarisConfig.VBFT.VrfValue,
		VrfProof:   config.PolarisConfig.VBFT.VrfProof,
	}
	if v.C == 0 {
		v.C = 1
	}
	for i := 0; i < K; i++ {
		var pos uint64
		sel := variant % 4
		if variant < 0 {
			sel = -1
		}
		switch sel {
		case 0: // equal stakes
			pos = 100000
		case 1: // widely spread
			pos = 10000 * uint64(1+i*i*3)
		case 2: // two whales, the rest minimal
			pos = 10000
			if i < 2 {
				pos = 3000000
			}
		case 3: // a few distinct sizes
			pos = 10000 * uint64(1+(i*7)%5)
		default: // variant < 0: some peers without any recorded stake (as in the polaris genesis config)
			pos = uint64(20000 * (i % 3))
		}
		w.InitPos = append(w.InitPos, pos)
		v.Peers = append(v.Peers, &config.VBFTPeerStakeInfo{Index: uint32(i + 1), PeerPubkey: w.Nodes[i].PK, Address: b58(w.Owners[i].Addr()), InitPos: pos})
	}
	w.VBFT = v
	return w
}

func b58(a common.Address) string { return a.ToBase58() }

func (w *World) AllActors() []*Actor {
	l := []*Actor{w.BK}
	l = append(l, w.Owners...)
	l = append(l, w.Stakers...)
	return append(l, w.Dapp, w.Stranger)
}

// Name renders an address with the actor's name when known.
func (w *World) Name(a common.Address) string {
	if n, ok := w.names[a]; ok {
		return n
	}
	return a.ToBase58()
}

func (w *World) NodeName(pk string) string {
	for _, n := range w.Nodes {
		if n.PK == pk {
			return n.Name
		}
	}
	if len(pk) > 12 {
		return "pk:" + pk[:12] + "…"
	}
	return "pk:" + pk
}

func (w *World) SumInitPos() uint64 {
	var s uint64
	for _, p := range w.InitPos {
		s += p
	}
	return s
}

// Boot creates the solo ledger whose genesis block initialises governance from w.VBFT,
// commits the bootstrap block (funding) through ExecuteBlock/SubmitBlock and snapshots the
// raw state DB.  Must not run concurrently with another Boot (config.DefConfig is global).
//
// Bootstrap block: the bookkeeper funds owners/stakers with ONT and ONG, moves
// OntCtrOng ONG to the ONT contract (on the solo network the whole ONG supply is credited
// to the bookkeeper, while governance unbinding pays out of the ONT contract's balance as
// on main net), and deposits sum(InitPos) ONT at the governance address: initConfig
// *records* the genesis peers' stakes (depositTotalStake) without moving any ONT, the
// launch procedure of the real networks transferred it separately.
func (w *World) Boot(dir string) error {
	saved := config.DefConfig.Genesis.VBFT
	config.DefConfig.Genesis.VBFT = w.VBFT
	defer func() { config.DefConfig.Genesis.VBFT = saved }()
	c, err := chain.NewSolo(dir, w.BK.Acc)
	if err != nil {
		return fmt.Errorf("NewSolo: %v", err)
	}
	w.Chain = c
	tb := chain.NewTxBuilder(100)
	var txs []*types.Transaction
	add := func(asset string, to common.Address, amt uint64) error {
		if amt == 0 {
			return nil
		}
		t, err := tb.TransferTx(asset, w.BK.Acc, to, amt, 0, 20000)
		if err != nil {
			return err
		}
		txs = append(txs, t)
		return nil
	}
	for _, a := range w.Owners {
		if err := add("ont", a.Addr(), OwnerOnt); err != nil {
			return err
		}
		if err := add("ong", a.Addr(), ActorOng); err != nil {
			return err
		}
	}
	for _, a := range w.Stakers {
		if err := add("ont", a.Addr(), StakerOnt); err != nil {
			return err
		}
		if err := add("ong", a.Addr(), ActorOng); err != nil {
			return err
		}
	}
	if err := add("ong", OntAddr, OntCtrOng); err != nil {
		return err
	}
	if err := add("ont", GovAddr, w.SumInitPos()); err != nil {
		return err
	}
	b, err := c.MakeBlock(txs, 0)
	if err != nil {
		return err
	}
	res, err := c.CommitExec(b)
	if err != nil {
		return err
	}
	for i, n := range res.Notify {
		if n.State != 1 {
			return fmt.Errorf("bootstrap tx %d failed", i)
		}
	}
	w.BootHeight = b.Header.Height
	w.BootTime = b.Header.Timestamp
	// raw copy of the state DB (all prefixes): close, read, reopen
	if err := c.Close(); err != nil {
		return err
	}
	db, err := leveldb.OpenFile(filepath.Join(dir, ledgerstore.DBDirState), &opt.Options{ErrorIfMissing: true})
	if err != nil {
		return err
	}
	it := db.NewIterator(nil, nil)
	for it.Next() {
		w.Snapshot = append(w.Snapshot, KV{append([]byte{}, it.Key()...), append([]byte{}, it.Value()...)})
	}
	it.Release()
	if err := it.Error(); err != nil {
		db.Close()
		return err
	}
	if err := db.Close(); err != nil {
		return err
	}
	config.DefConfig.Genesis.VBFT = w.VBFT // genesis block is rebuilt on open
	return c.Open()
}

func (w *World) Close() {
	if w.Chain != nil {
		w.Chain.Close()
		w.Chain = nil
	}
}
