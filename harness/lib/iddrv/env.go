// Package iddrv is the transaction-level driver shared by the ONT ID (C45) and auth
// contract (C41) monitors: a solo ledger on which every operation is a real signed
// native-invoke transaction committed in its own block, raw argument encoding for the
// ontid contract, a reference model of identities/keys/controllers/recovery, and the
// query helpers (pre-execution against committed state).
package iddrv

import (
	"bytes"
	"crypto/sha256"
	"encoding/hex"
	"fmt"
	"math/big"
	"os"
	"path/filepath"
	"sync"

	"github.com/ontio/ontology-crypto/keypair"
	"github.com/ontio/ontology/account"
	"github.com/ontio/ontology/common"
	"github.com/ontio/ontology/core/payload"
	"github.com/ontio/ontology/core/types"
	cutils "github.com/ontio/ontology/core/utils"
	"github.com/ontio/ontology/smartcontract/event"
	sstates "github.com/ontio/ontology/smartcontract/states"
	vm "github.com/ontio/ontology/vm/neovm"
	"verifharness/lib/chain"
	"verifharness/lib/txgen"
)

var soloMu sync.Mutex

// Bookkeeper is the single bookkeeper of every iddrv ledger (the solo configuration is
// process-global, so all ledgers of one process must share it).
func Bookkeeper() *account.Account { return chain.DetAccount("iddrv/bookkeeper") }

// Env is one solo ledger plus a deterministic nonce source.
type Env struct {
	C      *chain.Chain
	nonce  uint32
	LastTs uint32 // timestamp of the last committed block
	dir    string
	uses   int
}

// NewEnv creates a solo ledger in dir.  Creation is serialised: the solo configuration is
// process-global and genesis.BuildGenesisBlock writes global maps.
func NewEnv(dir string) (*Env, error) {
	soloMu.Lock()
	defer soloMu.Unlock()
	c, err := chain.NewSolo(dir, Bookkeeper())
	if err != nil {
		return nil, err
	}
	e := &Env{C: c, nonce: 5000, dir: dir}
	if h, err := c.Ledger.GetHeaderByHeight(c.Ledger.GetCurrentBlockHeight()); err == nil {
		e.LastTs = h.Timestamp
	}
	return e, nil
}

// Pool hands out ledgers to concurrently running histories.  A ledger hosts one history at
// a time and is reused for up to maxUses histories (identities and contract addresses of
// different histories are disjoint, so they do not see each other), which keeps the
// serialised ledger creation off the critical path.
type Pool struct {
	mu      sync.Mutex
	free    []*Env
	base    string
	n       int
	maxUses int
}

func NewPool(baseDir string, maxUses int) *Pool { return &Pool{base: baseDir, maxUses: maxUses} }

func (p *Pool) Get() (*Env, error) {
	p.mu.Lock()
	if n := len(p.free); n > 0 {
		e := p.free[n-1]
		p.free = p.free[:n-1]
		p.mu.Unlock()
		return e, nil
	}
	p.n++
	dir := filepath.Join(p.base, fmt.Sprintf("ledger-%d", p.n))
	p.mu.Unlock()
	return NewEnv(dir)
}

// Put returns a ledger; broken=true (a commit failed) discards it.
func (p *Pool) Put(e *Env, broken bool) {
	e.uses++
	if broken || e.uses >= p.maxUses {
		e.Close()
		os.RemoveAll(e.dir)
		return
	}
	p.mu.Lock()
	p.free = append(p.free, e)
	p.mu.Unlock()
}

func (p *Pool) Close() {
	p.mu.Lock()
	defer p.mu.Unlock()
	for _, e := range p.free {
		e.Close()
		os.RemoveAll(e.dir)
	}
	p.free = nil
}

func (e *Env) Close() {
	if e.C != nil {
		e.C.Close()
	}
}

const GasLimit = 200000000

// Tx builds an invoke transaction (gas price 0) signed by exactly the given keys, in
// order; payer = first signer (zero address when there is none).
func (e *Env) Tx(code []byte, signers []*txgen.Key) (*types.Transaction, error) {
	e.nonce++
	mt := &types.MutableTransaction{GasPrice: 0, GasLimit: GasLimit, TxType: types.InvokeNeo, Nonce: e.nonce,
		Payload: &payload.InvokeCode{Code: code}, Sigs: []types.Sig{}}
	if len(signers) > 0 {
		mt.Payer = signers[0].Address()
	}
	h := mt.Hash()
	for _, k := range signers {
		sig, err := k.Sign(h[:])
		if err != nil {
			return nil, fmt.Errorf("sign with %s#%d: %v", k.Kind, k.Index, err)
		}
		mt.Sigs = append(mt.Sigs, types.Sig{PubKeys: []keypair.PublicKey{k.Pub}, M: 1, SigData: [][]byte{sig}})
	}
	return mt.IntoImmutable()
}

// DeployTx builds a NeoVM contract deployment (gas price 0) signed by the given keys.
func (e *Env) DeployTx(code []byte, name string, signers []*txgen.Key) (*types.Transaction, error) {
	mt, err := cutils.NewDeployTransaction(code, name, "1.0", "verif", "v@v", "verif contract", payload.NEOVM_TYPE)
	if err != nil {
		return nil, err
	}
	e.nonce++
	mt.Nonce, mt.GasPrice, mt.GasLimit = e.nonce, 0, GasLimit
	if len(signers) > 0 {
		mt.Payer = signers[0].Address()
	}
	h := mt.Hash()
	for _, k := range signers {
		sig, err := k.Sign(h[:])
		if err != nil {
			return nil, err
		}
		mt.Sigs = append(mt.Sigs, types.Sig{PubKeys: []keypair.PublicKey{k.Pub}, M: 1, SigData: [][]byte{sig}})
	}
	return mt.IntoImmutable()
}

// ProbeTx is Tx for pre-execution only: the signature bytes are placeholders (the
// pre-execution path, like block execution, derives the witness set from the signature
// *programs* and never verifies signature data; real signing of thousands of probes
// would only cost time).
func (e *Env) ProbeTx(code []byte, signers []*txgen.Key) (*types.Transaction, error) {
	e.nonce++
	mt := &types.MutableTransaction{GasPrice: 0, GasLimit: GasLimit, TxType: types.InvokeNeo, Nonce: e.nonce,
		Payload: &payload.InvokeCode{Code: code}, Sigs: []types.Sig{}}
	if len(signers) > 0 {
		mt.Payer = signers[0].Address()
	}
	for _, k := range signers {
		mt.Sigs = append(mt.Sigs, types.Sig{PubKeys: []keypair.PublicKey{k.Pub}, M: 1, SigData: [][]byte{make([]byte, 65)}})
	}
	return mt.IntoImmutable()
}

// TxResult is what the committed ledger reports for one transaction.
type TxResult struct {
	State  byte // 1 success, 0 failed
	Notify []*event.NotifyEventInfo
}

// Commit seals the transactions into the next block (timestamp ts; 0 = LastTs+10),
// commits it through ExecuteBlock+SubmitBlock and reads the execution results back from
// the committed event store.
func (e *Env) Commit(txs []*types.Transaction, ts uint32) ([]TxResult, error) {
	if ts == 0 {
		ts = e.LastTs + 10
	}
	b, err := e.C.MakeBlock(txs, ts)
	if err != nil {
		return nil, fmt.Errorf("MakeBlock: %v", err)
	}
	if _, err := e.C.CommitExec(b); err != nil {
		return nil, err
	}
	e.LastTs = ts
	out := make([]TxResult, len(txs))
	for i, tx := range txs {
		n, err := e.C.Ledger.GetEventNotifyByTx(tx.Hash())
		if err != nil {
			return nil, fmt.Errorf("GetEventNotifyByTx: %v", err)
		}
		out[i] = TxResult{State: n.State, Notify: n.Notify}
	}
	return out, nil
}

// PreResult is the outcome of a pre-execution against the committed state.
type PreResult struct {
	OK     bool   // the invoke ran to completion without error
	Hex    string // hex of the returned byte string (when OK and the result is a byte string)
	Err    string
	Notify []*event.NotifyEventInfo
}

func (r PreResult) Bytes() []byte { b, _ := hex.DecodeString(r.Hex); return b }

// True reports a native "BYTE_TRUE" result.
func (r PreResult) True() bool { return r.OK && r.Hex == "01" }

// Pre pre-executes tx against committed state.  native.Time seen by the contract is the
// last block's timestamp + 1 (PreExecuteContract's rule).
func (e *Env) Pre(tx *types.Transaction) PreResult {
	var res *sstates.PreExecResult
	var err error
	res, err = e.C.Ledger.PreExecuteContract(tx)
	if err != nil {
		return PreResult{Err: err.Error()}
	}
	out := PreResult{OK: res.State == event.CONTRACT_STATE_SUCCESS, Notify: res.Notify}
	if s, ok := res.Result.(string); ok {
		out.Hex = s
	}
	return out
}

// PreTime is the native.Time a pre-execution would see now.
func (e *Env) PreTime() uint32 { return e.LastTs + 1 }

// ContractState is the committed smart-contract storage of every contract (the ST_STORAGE
// space read through a fresh overlay, like chain.DumpState; keys start with the contract
// address): everything a gas-price-0 native invoke can change.
func (e *Env) ContractState() map[string]string {
	// same content as chain.DumpState (which walks the 256 one-byte prefixes), read with a
	// single iterator over the whole storage space
	cache := e.C.Store().GetCacheDB()
	dump := map[string]string{}
	it := cache.NewIterator(nil)
	for ok := it.First(); ok; ok = it.Next() {
		dump[string(it.Key())] = string(it.Value())
	}
	it.Release()
	return dump
}

// ---------------------------------------------------------------- raw native args

// Args is the ordered raw argument list of a native call.  Every element becomes one
// field of the NeoVM struct handed to Ontology.Native.Invoke, which serialises byte strings
// as VarBytes, integers as VarUint (VarBytes of the little-endian number) and arrays as
// count followed by the elements – exactly what the ontid contract's decoders read.
type Args []interface{}

// Rec is a struct element of an array argument (fields are concatenated).
type Rec []interface{}

func emit(b *vm.ParamsBuilder, v interface{}) error {
	switch t := v.(type) {
	case []byte:
		b.EmitPushByteArray(t)
	case string:
		b.EmitPushByteArray([]byte(t))
	case common.Address:
		b.EmitPushByteArray(t[:])
	case uint64:
		b.EmitPushInteger(new(big.Int).SetUint64(t))
	case uint32:
		b.EmitPushInteger(new(big.Int).SetUint64(uint64(t)))
	case int:
		b.EmitPushInteger(big.NewInt(int64(t)))
	case Rec:
		emitStruct(b, []interface{}(t))
	case []Rec: // array of structs
		for i := len(t) - 1; i >= 0; i-- {
			if err := emit(b, t[i]); err != nil {
				return err
			}
		}
		b.EmitPushInteger(big.NewInt(int64(len(t))))
		b.Emit(vm.PACK)
	case [][]byte: // array of byte strings
		for i := len(t) - 1; i >= 0; i-- {
			b.EmitPushByteArray(t[i])
		}
		b.EmitPushInteger(big.NewInt(int64(len(t))))
		b.Emit(vm.PACK)
	default:
		return fmt.Errorf("iddrv: unsupported arg type %T", v)
	}
	return nil
}

func emitStruct(b *vm.ParamsBuilder, fields []interface{}) error {
	b.EmitPushInteger(big.NewInt(0))
	b.Emit(vm.NEWSTRUCT)
	b.Emit(vm.TOALTSTACK)
	for _, f := range fields {
		if err := emit(b, f); err != nil {
			return err
		}
		b.Emit(vm.DUPFROMALTSTACK)
		b.Emit(vm.SWAP)
		b.Emit(vm.APPEND)
	}
	b.Emit(vm.FROMALTSTACK)
	return nil
}

// NativeCode is the invoke script calling method of a native contract with raw args
// (same shape as core/utils.BuildNativeInvokeCode produces for a struct parameter).
func NativeCode(contract common.Address, method string, args Args) ([]byte, error) {
	b := vm.NewParamsBuilder(new(bytes.Buffer))
	if err := emitStruct(b, []interface{}(args)); err != nil {
		return nil, err
	}
	b.EmitPushByteArray([]byte(method))
	b.EmitPushByteArray(contract[:])
	b.EmitPushInteger(big.NewInt(0))
	b.Emit(vm.SYSCALL)
	b.EmitPushByteArray([]byte(cutils.NATIVE_INVOKE_NAME))
	return b.ToArray(), nil
}

// ---------------------------------------------------------------- deterministic ids

// DetID returns a well-formed ONT ID that is a pure function of tag.
func DetID(tag string) string {
	h := sha256.Sum256([]byte("iddrv-ontid:" + tag))
	id, err := account.CreateID(h[:])
	if err != nil {
		panic(err)
	}
	return id
}

// KeyLabel names a pool key so a witness can be replayed without the generator.
func KeyLabel(k *txgen.Key) string {
	if k == nil {
		return "-"
	}
	return fmt.Sprintf("%s#%d", k.Kind, k.Index)
}
