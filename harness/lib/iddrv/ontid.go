package iddrv

import (
	"bytes"
	"encoding/hex"
	"encoding/json"
	"fmt"
	"sort"
	"strings"

	"github.com/ontio/ontology-crypto/keypair"
	"github.com/ontio/ontology/common"
	"github.com/ontio/ontology/core/types"
	nutils "github.com/ontio/ontology/smartcontract/service/native/utils"
	"verifharness/lib/txgen"
)

// ---------------------------------------------------------------- groups

// Member of a controller / recovery group: an ONT ID or a sub-group.
type Member struct {
	ID  string `json:"id,omitempty"`
	Sub *Group `json:"sub,omitempty"`
}

type Group struct {
	Members   []Member `json:"members"`
	Threshold int      `json:"threshold"`
}

// Bytes is the contract's group encoding: VarUint n, n × VarBytes(member), VarUint threshold.
func (g *Group) Bytes() []byte {
	sink := common.NewZeroCopySink(nil)
	nutils.EncodeVarUint(sink, uint64(len(g.Members)))
	for _, m := range g.Members {
		if m.Sub != nil {
			sink.WriteVarBytes(m.Sub.Bytes())
		} else {
			sink.WriteVarBytes([]byte(m.ID))
		}
	}
	nutils.EncodeVarUint(sink, uint64(g.Threshold))
	return sink.Bytes()
}

// JSONValue is the shape the contract's *Json queries print for a group.
func (g *Group) JSONValue() interface{} {
	ms := make([]interface{}, len(g.Members))
	for i, m := range g.Members {
		if m.Sub != nil {
			ms[i] = m.Sub.JSONValue()
		} else {
			ms[i] = m.ID
		}
	}
	return map[string]interface{}{"members": ms, "threshold": float64(g.Threshold)}
}

func (g *Group) IDs() []string {
	var out []string
	for _, m := range g.Members {
		if m.Sub != nil {
			out = append(out, m.Sub.IDs()...)
		} else {
			out = append(out, m.ID)
		}
	}
	return out
}

type SignerRef struct {
	ID    string `json:"id"`
	Index uint32 `json:"index"`
}

func signersBytes(s []SignerRef) []byte {
	sink := common.NewZeroCopySink(nil)
	nutils.EncodeVarUint(sink, uint64(len(s)))
	for _, v := range s {
		sink.WriteVarBytes([]byte(v.ID))
		nutils.EncodeVarUint(sink, uint64(v.Index))
	}
	return sink.Bytes()
}

// ---------------------------------------------------------------- model

const (
	NotExist = 0
	Valid    = 1
	Revoked  = 2

	RecNone = 0
	RecOld  = 1 // deprecated single-address recovery
	RecNew  = 2 // group recovery
)

type KeyRec struct {
	Key     *txgen.Key // private half when the harness owns it
	Pub     []byte
	Addr    common.Address
	Revoked bool
	Auth    bool
	PkList  bool
	Ctrl    string
}

type Controller struct {
	Single string
	Group  *Group
}

type IDState struct {
	State    int
	Keys     []KeyRec
	Ctrl     *Controller
	RecKind  int
	RecAddr  common.Address
	RecKey   *txgen.Key // owner of RecAddr when known
	RecGroup *Group
	Attrs    map[string]bool
	Services map[string]bool
	Contexts map[string]bool
	Ghost    *IDState // state just before revocation (generator material only)
}

type Model struct {
	IDs map[string]*IDState
}

func NewModel() *Model { return &Model{IDs: map[string]*IDState{}} }

func (m *Model) St(id string) *IDState {
	if s, ok := m.IDs[id]; ok {
		return s
	}
	return &IDState{}
}

func (m *Model) IsValid(id string) bool { return m.St(id).State == Valid }

func AddrOfPub(pub []byte) (common.Address, bool) {
	pk, err := keypair.DeserializePublicKey(pub)
	if err != nil {
		return common.Address{}, false
	}
	return types.AddressFromPubKey(pk), true
}

func signedSet(keys []*txgen.Key) map[common.Address]bool {
	s := map[common.Address]bool{}
	for _, k := range keys {
		s[k.Address()] = true
	}
	return s
}

// --- statement-level authority: "witnessed by a non-revoked key of that identity that has
// authentication rights (or by its controller as configured)"; recovery counts as a
// configured authority too.

func (m *Model) selfOK(id string, signed map[common.Address]bool) bool {
	s := m.St(id)
	if s.State != Valid {
		return false
	}
	for _, k := range s.Keys {
		if !k.Revoked && k.Auth && signed[k.Addr] {
			return true
		}
	}
	return false
}

func (m *Model) groupSpecOK(g *Group, signed map[common.Address]bool) bool {
	n := 0
	for _, mb := range g.Members {
		if mb.Sub != nil {
			if m.groupSpecOK(mb.Sub, signed) {
				n++
			}
		} else if m.selfOK(mb.ID, signed) {
			n++
		}
	}
	return n >= g.Threshold
}

func (m *Model) ctrlSpecOK(c *Controller, signed map[common.Address]bool) bool {
	if c == nil {
		return false
	}
	if c.Group != nil {
		return m.groupSpecOK(c.Group, signed)
	}
	return m.selfOK(c.Single, signed)
}

func (m *Model) recSpecOK(s *IDState, signed map[common.Address]bool) bool {
	switch s.RecKind {
	case RecOld:
		return signed[s.RecAddr]
	case RecNew:
		return m.groupSpecOK(s.RecGroup, signed)
	}
	return false
}

// --- contract-level prediction helpers

func (m *Model) idxOK(id string, idx uint32, signed map[common.Address]bool) bool {
	s := m.St(id)
	if idx < 1 || int(idx) > len(s.Keys) {
		return false
	}
	k := s.Keys[idx-1]
	return !k.Revoked && k.Auth && signed[k.Addr]
}

// KeyControl is "proved control of its key" as the auth contract uses it (ontid
// verifySignature): identity valid, key keyNo exists and is not revoked, and its address
// witnessed the transaction.  Authentication right is not required there.
func (m *Model) KeyControl(id string, keyNo uint64, signers []*txgen.Key) bool {
	s := m.St(id)
	if s.State != Valid || keyNo < 1 || keyNo > uint64(len(s.Keys)) {
		return false
	}
	k := s.Keys[keyNo-1]
	return !k.Revoked && signedSet(signers)[k.Addr]
}

func thresholdByList(g *Group, proof []SignerRef) bool {
	n := 0
	for _, mb := range g.Members {
		if mb.Sub != nil {
			if thresholdByList(mb.Sub, proof) {
				n++
			}
			continue
		}
		for _, p := range proof {
			if p.ID == mb.ID {
				n++
				break
			}
		}
	}
	return n >= g.Threshold
}

func (m *Model) groupExpect(g *Group, proof []SignerRef, signed map[common.Address]bool) bool {
	if !thresholdByList(g, proof) {
		return false
	}
	for _, p := range proof {
		if !m.idxOK(p.ID, p.Index, signed) {
			return false
		}
	}
	return true
}

func (m *Model) ctrlExpect(c *Controller, op *Op, signed map[common.Address]bool) bool {
	if c == nil {
		return false
	}
	if c.Group != nil {
		return !op.ProofSingle && m.groupExpect(c.Group, op.Proof, signed)
	}
	return op.ProofSingle && m.idxOK(c.Single, op.Index, signed)
}

func (s *IDState) findKey(pub []byte) int {
	for i, k := range s.Keys {
		if bytes.Equal(k.Pub, pub) {
			return i
		}
	}
	return -1
}

func (m *Model) groupStorable(g *Group, depth int) bool {
	if depth >= 8 || g.Threshold > len(g.Members) {
		return false
	}
	for _, mb := range g.Members {
		if mb.Sub != nil {
			if !m.groupStorable(mb.Sub, depth+1) {
				return false
			}
			continue
		}
		s := m.St(mb.ID)
		if s.State != Valid || len(s.Keys) == 0 {
			return false
		}
	}
	return true
}

// ---------------------------------------------------------------- operations

type Attr struct {
	Key, Type, Value []byte
}

// Op is one mutating call of the ontid contract with the transaction's signer set.
type Op struct {
	Method      string
	ID          string
	Class       string // signer class intended by the generator (label only; never used by the model)
	Pub         []byte // key to register / add / remove
	PubKey      *txgen.Key
	Operator    []byte // by-public-key methods: operator's public key (or address bytes)
	Index       uint32 // signing key index / single controller's key index
	Target      uint32 // index of the key acted on
	CtrlID      string
	Group       *Group
	Proof       []SignerRef
	ProofSingle bool
	Attrs       []Attr
	Path        []byte
	KeyCtrl     []byte // optional trailing "controller" field of a new key (nil = omitted)
	Addr        common.Address
	OldAddr     common.Address
	RecKey      *txgen.Key
	SvcID       []byte
	Contexts    [][]byte
	Signers     []*txgen.Key
	// Witness is the transaction's actual witness set (addresses of its signature
	// programs), filled in once the transaction is built.  For Ethereum-type keys it differs
	// from the key's own address, so such a key cannot witness an ontid call.
	Witness []common.Address
}

func (op *Op) witnessSet() map[common.Address]bool {
	s := map[common.Address]bool{}
	for _, a := range op.Witness {
		s[a] = true
	}
	return s
}

// Kind of authority a method's code path consults.
const (
	KReg = iota
	KRegCtrl
	KPub    // operator public key (old API)
	KPubRec // operator public key or old recovery address
	KOldRec // old recovery address only
	KIdx
	KCtrl
	KRec
	KNever // always fails
)

type MethodInfo struct {
	Name string
	Kind int
}

// Methods lists every mutating method registered in ontid/init.go.
var Methods = []MethodInfo{
	{"regIDWithPublicKey", KReg}, {"regIDWithAttributes", KReg}, {"regIDWithController", KRegCtrl},
	{"revokeID", KIdx}, {"revokeIDByController", KCtrl}, {"removeController", KIdx},
	{"addRecovery", KPub}, {"changeRecovery", KOldRec}, {"setRecovery", KIdx}, {"updateRecovery", KRec}, {"removeRecovery", KIdx},
	{"addKey", KPubRec}, {"removeKey", KPubRec}, {"addKeyByIndex", KIdx}, {"removeKeyByIndex", KIdx},
	{"addKeyByController", KCtrl}, {"removeKeyByController", KCtrl}, {"addKeyByRecovery", KRec}, {"removeKeyByRecovery", KRec},
	{"addAttributes", KPub}, {"removeAttribute", KPub}, {"addAttributesByIndex", KIdx}, {"removeAttributeByIndex", KIdx},
	{"addAttributesByController", KCtrl}, {"removeAttributeByController", KCtrl},
	{"addNewAuthKey", KIdx}, {"addNewAuthKeyByRecovery", KRec}, {"addNewAuthKeyByController", KCtrl},
	{"setAuthKey", KIdx}, {"setAuthKeyByRecovery", KRec}, {"setAuthKeyByController", KCtrl},
	{"removeAuthKey", KIdx}, {"removeAuthKeyByRecovery", KRec}, {"removeAuthKeyByController", KCtrl},
	{"addService", KIdx}, {"updateService", KIdx}, {"removeService", KIdx},
	{"addContext", KIdx}, {"removeContext", KIdx},
	{"addProof", KNever},
}

func KindOf(method string) int {
	for _, mi := range Methods {
		if mi.Name == method {
			return mi.Kind
		}
	}
	return -1
}

func attrRecs(a []Attr) []Rec {
	out := make([]Rec, len(a))
	for i, x := range a {
		out[i] = Rec{x.Key, x.Type, x.Value}
	}
	return out
}

func (op *Op) proofArg() interface{} {
	if op.ProofSingle {
		return uint64(op.Index)
	}
	return signersBytes(op.Proof)
}

// Args is the raw argument list in the order the contract's decoder reads it.
func (op *Op) Args() Args {
	id := []byte(op.ID)
	var a Args
	switch op.Method {
	case "regIDWithPublicKey":
		a = Args{id, op.Pub}
	case "regIDWithAttributes":
		a = Args{id, op.Pub, attrRecs(op.Attrs)}
	case "regIDWithController":
		if op.Group != nil {
			a = Args{id, op.Group.Bytes(), signersBytes(op.Proof)}
		} else {
			a = Args{id, []byte(op.CtrlID), uint64(op.Index)}
		}
	case "revokeID", "removeController", "removeRecovery":
		a = Args{id, uint64(op.Index)}
	case "revokeIDByController":
		a = Args{id, op.proofArg()}
	case "addRecovery":
		a = Args{id, op.Addr, op.Operator}
	case "changeRecovery":
		a = Args{id, op.Addr, op.OldAddr}
	case "setRecovery":
		a = Args{id, op.Group.Bytes(), uint64(op.Index)}
	case "updateRecovery":
		a = Args{id, op.Group.Bytes(), signersBytes(op.Proof)}
	case "addKey":
		a = Args{id, op.Pub, op.Operator}
	case "removeKey":
		a = Args{id, op.Pub, op.Operator}
	case "addKeyByIndex", "removeKeyByIndex":
		a = Args{id, op.Pub, uint64(op.Index)}
	case "addKeyByController":
		a = Args{id, op.Pub, op.proofArg()}
	case "removeKeyByController":
		a = Args{id, uint64(op.Target), op.proofArg()}
	case "addKeyByRecovery":
		a = Args{id, op.Pub, signersBytes(op.Proof)}
	case "removeKeyByRecovery":
		a = Args{id, uint64(op.Target), signersBytes(op.Proof)}
	case "addAttributes":
		a = Args{id, attrRecs(op.Attrs), op.Operator}
	case "removeAttribute":
		a = Args{id, op.Path, op.Operator}
	case "addAttributesByIndex":
		a = Args{id, attrRecs(op.Attrs), uint64(op.Index)}
	case "removeAttributeByIndex":
		a = Args{id, op.Path, uint64(op.Index)}
	case "addAttributesByController":
		a = Args{id, attrRecs(op.Attrs), op.proofArg()}
	case "removeAttributeByController":
		a = Args{id, op.Path, op.proofArg()}
	case "addNewAuthKey":
		a = Args{id, op.Pub, op.keyCtrl(), uint64(op.Index)}
	case "addNewAuthKeyByRecovery":
		a = Args{id, op.Pub, op.keyCtrl(), signersBytes(op.Proof)}
	case "addNewAuthKeyByController":
		a = Args{id, op.Pub, op.keyCtrl(), op.proofArg()}
	case "setAuthKey", "removeAuthKey":
		a = Args{id, uint64(op.Target), uint64(op.Index)}
	case "setAuthKeyByRecovery", "removeAuthKeyByRecovery":
		a = Args{id, uint64(op.Target), signersBytes(op.Proof)}
	case "setAuthKeyByController", "removeAuthKeyByController":
		a = Args{id, uint64(op.Target), op.proofArg()}
	case "addService", "updateService":
		a = Args{id, op.SvcID, []byte("svc-type"), []byte("https://endpoint/" + string(op.SvcID)), uint64(op.Index)}
	case "removeService":
		a = Args{id, op.SvcID, uint64(op.Index)}
	case "addContext", "removeContext":
		a = Args{id, op.Contexts, uint64(op.Index)}
	case "addProof":
		a = Args{id, []byte("proof"), uint64(op.Index)}
	default:
		panic("iddrv: unknown method " + op.Method)
	}
	switch op.Method {
	case "addKey", "addKeyByIndex", "addKeyByController", "addKeyByRecovery":
		if op.KeyCtrl != nil {
			a = append(a, op.KeyCtrl)
		}
	}
	return a
}

func (op *Op) keyCtrl() []byte {
	if op.KeyCtrl != nil {
		return op.KeyCtrl
	}
	return []byte(op.ID)
}

func (op *Op) Code() []byte {
	code, err := NativeCode(nutils.OntIDContractAddress, op.Method, op.Args())
	if err != nil {
		panic(err)
	}
	return code
}

// Describe renders the operation for witnesses (concrete arguments, signer labels).
func (op *Op) Describe() map[string]interface{} {
	d := map[string]interface{}{"method": op.Method, "id": op.ID, "signer_class": op.Class}
	var ss []string
	for _, k := range op.Signers {
		a := k.Address()
		ss = append(ss, KeyLabel(k)+":"+a.ToBase58())
	}
	d["tx_signers"] = ss
	d["args_hex"] = func() []string {
		var out []string
		for _, a := range op.Args() {
			switch t := a.(type) {
			case []byte:
				out = append(out, hex.EncodeToString(t))
			case common.Address:
				out = append(out, "addr:"+t.ToBase58())
			case [][]byte:
				l := []string{}
				for _, b := range t {
					l = append(l, hex.EncodeToString(b))
				}
				out = append(out, "list["+strings.Join(l, ",")+"]")
			case []Rec:
				l := []string{}
				for _, rec := range t {
					f := []string{}
					for _, x := range rec {
						if b, ok := x.([]byte); ok {
							f = append(f, hex.EncodeToString(b))
						}
					}
					l = append(l, "{"+strings.Join(f, ",")+"}")
				}
				out = append(out, "list["+strings.Join(l, ",")+"]")
			default:
				out = append(out, fmt.Sprintf("%v", t))
			}
		}
		return out
	}()
	if op.Proof != nil {
		d["proof_signers"] = op.Proof
	}
	if op.Group != nil {
		d["group"] = op.Group
	}
	return d
}

// Authorised is the statement-level oracle: may this signer set change op.ID at all?
func (m *Model) Authorised(op *Op) bool {
	signed := signedSet(op.Signers) // lenient: a key that signed counts as a witness …
	for _, a := range op.Witness {  // … and so does every address the transaction layer reports
		signed[a] = true
	}
	s := m.St(op.ID)
	switch KindOf(op.Method) {
	case KReg:
		a, ok := AddrOfPub(op.Pub)
		return s.State == NotExist && ok && signed[a]
	case KRegCtrl:
		if s.State != NotExist {
			return false
		}
		if op.Group != nil {
			return m.groupSpecOK(op.Group, signed)
		}
		return m.selfOK(op.CtrlID, signed)
	case KNever:
		return false
	}
	if s.State != Valid {
		return false
	}
	return m.selfOK(op.ID, signed) || m.ctrlSpecOK(s.Ctrl, signed) || m.recSpecOK(s, signed)
}

func (m *Model) ownerExpect(s *IDState, operator []byte, signed map[common.Address]bool) bool {
	i := s.findKey(operator)
	return i >= 0 && s.Keys[i].Auth && !s.Keys[i].Revoked
}

func witnessOperator(operator []byte, signed map[common.Address]bool) bool {
	if a, ok := AddrOfPub(operator); ok && signed[a] {
		return true
	}
	if a, err := common.AddressParseFromBytes(operator); err == nil && signed[a] {
		return true
	}
	return false
}

// Expect predicts the contract's outcome (authority as the code path checks it plus the
// method's preconditions).  A disagreement with the real outcome is a logged mismatch.
func (m *Model) Expect(op *Op) (bool, string) {
	signed := op.witnessSet()
	s := m.St(op.ID)
	kind := KindOf(op.Method)
	switch kind {
	case KReg:
		a, ok := AddrOfPub(op.Pub)
		if s.State != NotExist {
			return false, "id exists or revoked"
		}
		return ok && signed[a], "witness of registered key"
	case KRegCtrl:
		if s.State != NotExist {
			return false, "id exists or revoked"
		}
		if op.Group != nil {
			return m.groupExpect(op.Group, op.Proof, signed), "group controller proof"
		}
		return m.idxOK(op.CtrlID, op.Index, signed), "single controller proof"
	case KNever:
		return false, "unsupported method"
	}
	if s.State != Valid {
		return false, "id not valid"
	}
	// authority
	switch kind {
	case KIdx:
		if !m.idxOK(op.ID, op.Index, signed) {
			return false, "index witness"
		}
	case KCtrl:
		if !m.ctrlExpect(s.Ctrl, op, signed) {
			return false, "controller proof"
		}
	case KRec:
		if s.RecKind != RecNew || !m.groupExpect(s.RecGroup, op.Proof, signed) {
			return false, "recovery proof"
		}
	case KPub:
		if !witnessOperator(op.Operator, signed) || !m.ownerExpect(s, op.Operator, signed) {
			return false, "operator key"
		}
	case KPubRec:
		if !witnessOperator(op.Operator, signed) {
			return false, "operator witness"
		}
		if op.Method == "removeKey" && s.RecKind == RecNew {
			return false, "removeKey refuses ids with a group recovery (getOldRecovery error)"
		}
		recOK := s.RecKind == RecOld && bytes.Equal(s.RecAddr[:], op.Operator)
		if !recOK && !m.ownerExpect(s, op.Operator, signed) {
			return false, "operator key"
		}
	case KOldRec:
		if s.RecKind != RecOld || s.RecAddr != op.OldAddr || !signed[op.OldAddr] {
			return false, "old recovery witness"
		}
	}
	// preconditions
	switch op.Method {
	case "addKey", "addKeyByIndex", "addKeyByController", "addKeyByRecovery",
		"addNewAuthKey", "addNewAuthKeyByRecovery", "addNewAuthKeyByController":
		if s.findKey(op.Pub) >= 0 {
			return false, "key already present"
		}
	case "removeKey", "removeKeyByIndex":
		i := s.findKey(op.Pub)
		if i < 0 || s.Keys[i].Revoked {
			return false, "key absent or revoked"
		}
	case "removeKeyByController", "removeKeyByRecovery",
		"setAuthKey", "setAuthKeyByRecovery", "setAuthKeyByController",
		"removeAuthKey", "removeAuthKeyByRecovery", "removeAuthKeyByController":
		if op.Target < 1 || int(op.Target) > len(s.Keys) || s.Keys[op.Target-1].Revoked {
			return false, "target key absent or revoked"
		}
	case "removeAttribute", "removeAttributeByIndex", "removeAttributeByController":
		if !s.Attrs[string(op.Path)] {
			return false, "attribute absent"
		}
	case "addRecovery":
		if s.RecKind == RecOld {
			return false, "recovery already set"
		}
	case "setRecovery":
		if s.RecKind == RecNew {
			return false, "recovery already set"
		}
		if !m.groupStorable(op.Group, 0) {
			return false, "invalid recovery group"
		}
	case "updateRecovery":
		if !m.groupStorable(op.Group, 0) {
			return false, "invalid recovery group"
		}
	case "addService":
		if s.Services[string(op.SvcID)] {
			return false, "service exists"
		}
	case "updateService", "removeService":
		if !s.Services[string(op.SvcID)] {
			return false, "service absent"
		}
	}
	return true, ""
}

func (op *Op) newKeyRec(auth, pkList bool) KeyRec {
	a, _ := AddrOfPub(op.Pub)
	ctrl := op.ID
	if op.KeyCtrl != nil {
		ctrl = string(op.KeyCtrl)
	}
	return KeyRec{Key: op.PubKey, Pub: op.Pub, Addr: a, Auth: auth, PkList: pkList, Ctrl: ctrl}
}

// Apply updates the model with the effect of a successful call.
func (m *Model) Apply(op *Op) {
	s, ok := m.IDs[op.ID]
	if !ok {
		s = &IDState{}
		m.IDs[op.ID] = s
	}
	if s.Attrs == nil {
		s.Attrs, s.Services, s.Contexts = map[string]bool{}, map[string]bool{}, map[string]bool{}
	}
	switch op.Method {
	case "regIDWithPublicKey":
		s.State = Valid
		k := op.newKeyRec(true, true)
		k.Ctrl = op.ID
		s.Keys = []KeyRec{k}
	case "regIDWithAttributes":
		s.State = Valid
		k := op.newKeyRec(false, true) // the contract stores this key without authentication right
		k.Ctrl = op.ID
		s.Keys = []KeyRec{k}
		for _, a := range op.Attrs {
			s.Attrs[string(a.Key)] = true
		}
	case "regIDWithController":
		s.State = Valid
		if op.Group != nil {
			s.Ctrl = &Controller{Group: op.Group}
		} else {
			s.Ctrl = &Controller{Single: op.CtrlID}
		}
	case "revokeID", "revokeIDByController":
		ghost := *s
		ghost.Ghost = nil
		*s = IDState{State: Revoked, Ghost: &ghost, Attrs: map[string]bool{}, Services: map[string]bool{}, Contexts: map[string]bool{}}
	case "removeController":
		s.Ctrl = nil
	case "addRecovery", "changeRecovery":
		s.RecKind, s.RecAddr, s.RecKey, s.RecGroup = RecOld, op.Addr, op.RecKey, nil
	case "setRecovery", "updateRecovery":
		s.RecKind, s.RecGroup, s.RecKey = RecNew, op.Group, nil
	case "removeRecovery":
		s.RecKind, s.RecGroup, s.RecKey = RecNone, nil, nil
	case "addKey", "addKeyByIndex", "addKeyByController", "addKeyByRecovery":
		s.Keys = append(s.Keys, op.newKeyRec(false, true))
	case "addNewAuthKey", "addNewAuthKeyByRecovery", "addNewAuthKeyByController":
		k := op.newKeyRec(true, false)
		k.Ctrl = string(op.keyCtrl())
		s.Keys = append(s.Keys, k)
	case "removeKey", "removeKeyByIndex":
		if i := s.findKey(op.Pub); i >= 0 {
			s.Keys[i].Revoked = true
		}
	case "removeKeyByController", "removeKeyByRecovery":
		if op.Target >= 1 && int(op.Target) <= len(s.Keys) {
			s.Keys[op.Target-1].Revoked = true
		}
	case "setAuthKey", "setAuthKeyByRecovery", "setAuthKeyByController":
		if op.Target >= 1 && int(op.Target) <= len(s.Keys) {
			s.Keys[op.Target-1].Auth = true
		}
	case "removeAuthKey", "removeAuthKeyByRecovery", "removeAuthKeyByController":
		if op.Target >= 1 && int(op.Target) <= len(s.Keys) {
			s.Keys[op.Target-1].Auth = false
		}
	case "addAttributes", "addAttributesByIndex", "addAttributesByController":
		for _, a := range op.Attrs {
			s.Attrs[string(a.Key)] = true
		}
	case "removeAttribute", "removeAttributeByIndex", "removeAttributeByController":
		delete(s.Attrs, string(op.Path))
	case "addService":
		s.Services[string(op.SvcID)] = true
	case "removeService":
		delete(s.Services, string(op.SvcID))
	case "addContext":
		for _, c := range op.Contexts {
			s.Contexts[string(c)] = true
		}
	case "removeContext":
		for _, c := range op.Contexts {
			delete(s.Contexts, string(c))
		}
	}
}

// ---------------------------------------------------------------- queries

func (e *Env) Query(method string, args Args) PreResult {
	code, err := NativeCode(nutils.OntIDContractAddress, method, args)
	if err != nil {
		panic(err)
	}
	tx, err := e.ProbeTx(code, nil)
	if err != nil {
		panic(err)
	}
	return e.Pre(tx)
}

func keyIndexOf(idField string) int {
	i := strings.LastIndex(idField, "#keys-")
	if i < 0 {
		return -1
	}
	n := 0
	fmt.Sscanf(idField[i+6:], "%d", &n)
	return n
}

func intsEq(a, b []int) bool {
	sort.Ints(a)
	sort.Ints(b)
	if len(a) != len(b) {
		return false
	}
	for i := range a {
		if a[i] != b[i] {
			return false
		}
	}
	return true
}

func jsonEq(a, b interface{}) bool {
	x, _ := json.Marshal(a)
	y, _ := json.Marshal(b)
	return bytes.Equal(x, y)
}

// CheckQueries compares the contract's query methods for id with the model.  It returns
// one line per disagreement, "query:aspect: got … want …".
func (e *Env) CheckQueries(m *Model, id string) (issues []string, nq int) {
	s := m.St(id)
	bad := func(q, aspect string, got, want interface{}) {
		issues = append(issues, fmt.Sprintf("%s:%s: got %v want %v", q, aspect, got, want))
	}
	idb := []byte(id)

	// getKeyState for every index incl. one past the end
	for i := 1; i <= len(s.Keys)+1; i++ {
		r := e.Query("getKeyState", Args{idb, uint64(i)})
		nq++
		got := "error"
		if r.OK {
			got = string(r.Bytes())
		}
		want := ""
		switch {
		case s.State != Valid:
			want = ""
		case i > len(s.Keys):
			want = "error"
		case s.Keys[i-1].Revoked:
			want = "revoked"
		default:
			want = "in use"
		}
		if got != want {
			bad("getKeyState", "key-state", fmt.Sprintf("[%d]=%q", i, got), fmt.Sprintf("%q", want))
		}
	}

	var wantPub, wantAuth []int
	for i, k := range s.Keys {
		if !k.Revoked {
			wantPub = append(wantPub, i+1)
			if k.Auth {
				wantAuth = append(wantAuth, i+1)
			}
		}
	}

	// The JSON key listings cannot print Ethereum-type keys (keyType: "unsupported type"):
	// for such identities only the key-state and controller queries are compared.
	liveEth := false
	for _, k := range s.Keys {
		if !k.Revoked && len(k.Pub) > 0 && keypair.KeyType(k.Pub[0]) == keypair.PK_ETHECDSA {
			liveEth = true
		}
	}

	// getPublicKeysJson
	r := e.Query("getPublicKeysJson", Args{idb})
	nq++
	if liveEth {
		// skipped
	} else if !r.OK {
		bad("getPublicKeysJson", "call", r.Err, "ok")
	} else if s.State != Valid {
		if len(r.Bytes()) != 0 {
			bad("getPublicKeysJson", "non-valid-id", string(r.Bytes()), "empty")
		}
	} else {
		var pks []struct {
			Id, Controller, PublicKeyHex string
		}
		if err := json.Unmarshal(r.Bytes(), &pks); err != nil {
			bad("getPublicKeysJson", "json", err.Error(), "list")
		} else {
			var got []int
			for _, p := range pks {
				n := keyIndexOf(p.Id)
				got = append(got, n)
				if n >= 1 && n <= len(s.Keys) {
					if !strings.HasSuffix(hex.EncodeToString(s.Keys[n-1].Pub), p.PublicKeyHex) {
						bad("getPublicKeysJson", "key-bytes", p.PublicKeyHex, hex.EncodeToString(s.Keys[n-1].Pub))
					}
					if p.Controller != s.Keys[n-1].Ctrl {
						bad("getPublicKeysJson", "key-controller", p.Controller, s.Keys[n-1].Ctrl)
					}
				}
			}
			if !intsEq(got, append([]int{}, wantPub...)) {
				bad("getPublicKeysJson", "live-keys", got, wantPub)
			}
		}
	}

	// getControllerJson
	r = e.Query("getControllerJson", Args{idb})
	nq++
	var wantCtrl interface{}
	if s.Ctrl != nil {
		if s.Ctrl.Group != nil {
			wantCtrl = s.Ctrl.Group.JSONValue()
		} else {
			wantCtrl = s.Ctrl.Single
		}
	}
	if !r.OK {
		bad("getControllerJson", "call", r.Err, "ok")
	} else if s.State != Valid {
		if len(r.Bytes()) != 0 {
			bad("getControllerJson", "non-valid-id", string(r.Bytes()), "empty")
		}
	} else {
		var got interface{}
		if err := json.Unmarshal(r.Bytes(), &got); err != nil {
			bad("getControllerJson", "json", err.Error(), "value")
		} else if !jsonEq(got, wantCtrl) {
			bad("getControllerJson", "controller", string(r.Bytes()), wantCtrl)
		}
	}

	// getDocumentJson
	r = e.Query("getDocumentJson", Args{idb})
	nq++
	if liveEth {
		// skipped
	} else if !r.OK {
		bad("getDocumentJson", "call", r.Err, "ok")
	} else if s.State != Valid {
		if len(r.Bytes()) != 0 {
			bad("getDocumentJson", "non-valid-id", string(r.Bytes()), "empty")
		}
	} else {
		var doc struct {
			Id        string `json:"id"`
			PublicKey []struct {
				Id string `json:"id"`
			} `json:"publicKey"`
			Authentication []interface{} `json:"authentication"`
			Controller     interface{}   `json:"controller"`
			Recovery       interface{}   `json:"recovery"`
			Service        []struct {
				Id string `json:"id"`
			} `json:"service"`
			Attribute []struct {
				Key string `json:"key"`
			} `json:"attribute"`
		}
		if err := json.Unmarshal(r.Bytes(), &doc); err != nil {
			bad("getDocumentJson", "json", err.Error(), "document")
		} else {
			var gotPub, gotAuth []int
			for _, p := range doc.PublicKey {
				gotPub = append(gotPub, keyIndexOf(p.Id))
			}
			for _, a := range doc.Authentication {
				switch t := a.(type) {
				case string:
					gotAuth = append(gotAuth, keyIndexOf(t))
				case map[string]interface{}:
					idf, _ := t["id"].(string)
					gotAuth = append(gotAuth, keyIndexOf(idf))
				}
			}
			if !intsEq(gotPub, append([]int{}, wantPub...)) {
				bad("getDocumentJson", "live-keys", gotPub, wantPub)
			}
			if !intsEq(gotAuth, append([]int{}, wantAuth...)) {
				bad("getDocumentJson", "auth-keys", gotAuth, wantAuth)
			}
			if !jsonEq(doc.Controller, wantCtrl) {
				bad("getDocumentJson", "controller", doc.Controller, wantCtrl)
			}
			var wantRec interface{}
			if s.RecKind == RecNew {
				wantRec = s.RecGroup.JSONValue()
			}
			if !jsonEq(doc.Recovery, wantRec) {
				bad("getDocumentJson", "recovery", doc.Recovery, wantRec)
			}
			if len(doc.Service) != len(s.Services) {
				bad("getDocumentJson", "services", len(doc.Service), len(s.Services))
			}
			if len(doc.Attribute) != len(s.Attrs) {
				bad("getDocumentJson", "attributes", len(doc.Attribute), len(s.Attrs))
			}
		}
	}

	// getDDO (deprecated binary form): only its availability class is compared
	r = e.Query("getDDO", Args{idb})
	nq++
	switch s.State {
	case Revoked:
		if r.OK {
			bad("getDDO", "revoked-id", "ok", "error")
		}
	case NotExist:
		if !r.OK || len(r.Bytes()) != 0 {
			bad("getDDO", "unknown-id", r.Hex+r.Err, "empty")
		}
	}
	return issues, nq
}
