// Package kvl ("key/value layers") is the shared oracle plumbing of the storage-layer
// monitors C03, C04 and C44: a three-layer reference model made of plain Go maps
// (persistent store / block overlay / transaction cache), the real
// CacheDB -> OverlayDB -> LevelDBStore(mem) stack, and comparison helpers that look at
// the real stack only through its exported API.
//
// All model keys are RAW store keys, i.e. they include the data-entry prefix byte
// (0x05 = ST_STORAGE for everything that is reachable through CacheDB.Put/Get/Delete).
package kvl

import (
	"bytes"
	"fmt"
	"sort"
	"strings"
	"sync"

	scom "github.com/ontio/ontology/core/store/common"
	"github.com/ontio/ontology/core/store/leveldbstore"
	"github.com/ontio/ontology/core/store/overlaydb"
	"github.com/ontio/ontology/smartcontract/storage"
	"verifharness/lib/vf"
)

const StoragePrefix = byte(scom.ST_STORAGE)

// KV is one key/value pair (raw key).
type KV struct{ K, V []byte }

func (kv KV) String() string { return vf.Hex(kv.K) + "=" + vf.Hex(kv.V) }

func KVStrings(kvs []KV) []string {
	out := make([]string, len(kvs))
	for i, kv := range kvs {
		out[i] = kv.String()
	}
	return out
}

// Layer is an upper (memory) layer: raw key -> value; a present entry with an empty
// value is a tombstone.
type Layer map[string][]byte

// Model is the reference: three plain maps with the obvious semantics.
type Model struct {
	Persist map[string][]byte // live entries only
	Overlay Layer
	Tx      Layer
}

func NewModel() *Model {
	return &Model{Persist: map[string][]byte{}, Overlay: Layer{}, Tx: Layer{}}
}

func (m *Model) Clone() *Model {
	c := NewModel()
	for k, v := range m.Persist {
		c.Persist[k] = v
	}
	for k, v := range m.Overlay {
		c.Overlay[k] = v
	}
	for k, v := range m.Tx {
		c.Tx[k] = v
	}
	return c
}

func (m *Model) StoreGet(k string) []byte { return m.Persist[k] }

// OverlayGet is the value seen through the block overlay (nil = absent).
func (m *Model) OverlayGet(k string) []byte {
	if v, ok := m.Overlay[k]; ok {
		if len(v) == 0 {
			return nil
		}
		return v
	}
	return m.Persist[k]
}

// TxGet is the value seen through the transaction cache (nil = absent).
func (m *Model) TxGet(k string) []byte {
	if v, ok := m.Tx[k]; ok {
		if len(v) == 0 {
			return nil
		}
		return v
	}
	return m.OverlayGet(k)
}

func (m *Model) CommitTx() {
	for k, v := range m.Tx {
		m.Overlay[k] = v
	}
	m.Tx = Layer{}
}
func (m *Model) ResetTx() { m.Tx = Layer{} }

// CommitOverlay publishes the overlay into the persistent map.  Like the real
// CommitTo+BatchCommit it does not clear the overlay.
func (m *Model) CommitOverlay() {
	for k, v := range m.Overlay {
		if len(v) == 0 {
			delete(m.Persist, k)
		} else {
			m.Persist[k] = v
		}
	}
}
func (m *Model) ClearOverlay() { m.Overlay = Layer{} }

// AllKeys is the sorted union of the keys of all three layers.
func (m *Model) AllKeys() []string {
	set := map[string]struct{}{}
	for k := range m.Persist {
		set[k] = struct{}{}
	}
	for k := range m.Overlay {
		set[k] = struct{}{}
	}
	for k := range m.Tx {
		set[k] = struct{}{}
	}
	out := make([]string, 0, len(set))
	for k := range set {
		out = append(out, k)
	}
	sort.Strings(out)
	return out
}

const (
	LvStore   = "store"
	LvOverlay = "overlay"
	LvCache   = "cache"
)

// Live returns the sorted live (non-deleted) entries with the given raw prefix as seen at
// the given level.
func (m *Model) Live(level string, prefix string) []KV {
	var out []KV
	for _, k := range m.AllKeys() {
		if !strings.HasPrefix(k, prefix) {
			continue
		}
		var v []byte
		switch level {
		case LvStore:
			v = m.StoreGet(k)
		case LvOverlay:
			v = m.OverlayGet(k)
		default:
			v = m.TxGet(k)
		}
		if len(v) != 0 {
			out = append(out, KV{[]byte(k), v})
		}
	}
	return out
}

// SortedLayer returns every entry of an upper layer (tombstones included, as empty
// values) in ascending key order.
func SortedLayer(l Layer) []KV {
	keys := make([]string, 0, len(l))
	for k := range l {
		keys = append(keys, k)
	}
	sort.Strings(keys)
	out := make([]KV, len(keys))
	for i, k := range keys {
		out[i] = KV{[]byte(k), l[k]}
	}
	return out
}

// ---------------------------------------------------------------- join shape

// The names of the merge-iterator situations that a prefix iteration can put the real
// JoinIter in.  They are derived from the MODEL (what the memory side and the backend
// side contain inside the prefix range), never from the implementation.
var JoinCases = []string{
	"mem_only_key", "back_only_key", "both_same_key", "tomb_over_back_key", "tomb_no_back_key",
	"mem_exhausted_first", "back_exhausted_first", "empty_mem", "empty_back", "both_empty",
	"tomb_first", "tomb_last", "tomb_run", "all_tombstoned",
}

// JoinShape classifies one iteration: mem is the memory layer restricted to the prefix
// (tombstones included), back the live backend keys inside the prefix.
func JoinShape(mem Layer, back []KV, prefix string) []string {
	var memKeys []string
	for k := range mem {
		if strings.HasPrefix(k, prefix) {
			memKeys = append(memKeys, k)
		}
	}
	sort.Strings(memKeys)
	backSet := map[string]bool{}
	var backKeys []string
	for _, kv := range back {
		backSet[string(kv.K)] = true
		backKeys = append(backKeys, string(kv.K))
	}
	seen := map[string]bool{}
	add := func(s string) { seen[s] = true }
	switch {
	case len(memKeys) == 0 && len(backKeys) == 0:
		add("both_empty")
	case len(memKeys) == 0:
		add("empty_mem")
	case len(backKeys) == 0:
		add("empty_back")
	default:
		lm, lb := memKeys[len(memKeys)-1], backKeys[len(backKeys)-1]
		if lm < lb {
			add("mem_exhausted_first")
		}
		if lb < lm {
			add("back_exhausted_first")
		}
	}
	memSet := map[string]bool{}
	for _, k := range memKeys {
		memSet[k] = true
		tomb := len(mem[k]) == 0
		switch {
		case tomb && backSet[k]:
			add("tomb_over_back_key")
		case tomb:
			add("tomb_no_back_key")
		case backSet[k]:
			add("both_same_key")
		default:
			add("mem_only_key")
		}
	}
	for _, k := range backKeys {
		if !memSet[k] {
			add("back_only_key")
		}
	}
	// merged sequence, to see where the tombstones sit
	merged := append([]string{}, memKeys...)
	for _, k := range backKeys {
		if !memSet[k] {
			merged = append(merged, k)
		}
	}
	sort.Strings(merged)
	isTomb := func(k string) bool { v, ok := mem[k]; return ok && len(v) == 0 }
	if len(merged) > 0 {
		if isTomb(merged[0]) {
			add("tomb_first")
		}
		if isTomb(merged[len(merged)-1]) {
			add("tomb_last")
		}
		all := true
		for i, k := range merged {
			if !isTomb(k) {
				all = false
			} else if i > 0 && isTomb(merged[i-1]) {
				add("tomb_run")
			}
		}
		if all {
			add("all_tombstoned")
		}
	}
	out := make([]string, 0, len(seen))
	for _, c := range JoinCases {
		if seen[c] {
			out = append(out, c)
		}
	}
	return out
}

// ---------------------------------------------------------------- real stack

type Stack struct {
	Store   *leveldbstore.LevelDBStore
	Overlay *overlaydb.OverlayDB
	Cache   *storage.CacheDB
	// BetweenIter, when set, runs after an iterator was created and before its First(): reads issued
	// by the caller between the two must not change what the iterator returns.
	BetweenIter func()
}

func NewStack() *Stack {
	s := &Stack{Store: leveldbstore.NewMemLevelDBStore()}
	s.Fresh()
	return s
}

// Fresh puts a new block overlay and a new transaction cache on top of the same store.
func (s *Stack) Fresh() {
	s.Overlay = overlaydb.NewOverlayDB(s.Store)
	s.Cache = storage.NewCacheDB(s.Overlay)
}

// FreshCache puts a new transaction cache on the current overlay.
func (s *Stack) FreshCache() { s.Cache = storage.NewCacheDB(s.Overlay) }

func (s *Stack) Close() { s.Store.Close() }

// Opening a memory LevelDB costs ~10 ms (buffers, background goroutines), far more than a
// whole case of the monitors.  AcquireStack therefore reuses stores: Release wipes the
// store (every key deleted, emptiness verified through a full iteration) and puts it on
// a free list.  A wiped store is observably identical to a new one, so a case is still a
// pure function of its seed.
var (
	poolMu sync.Mutex
	pool   []*leveldbstore.LevelDBStore
	uses   = map[*leveldbstore.LevelDBStore]int{}
)

// A store is retired after this many cases: deleted entries stay in LevelDB's memtable
// as tombstones and every later full iteration has to step over them, so unlimited reuse
// makes the run quadratic in the number of cases.
const maxStoreUses = 40

func AcquireStack() *Stack {
	poolMu.Lock()
	var st *leveldbstore.LevelDBStore
	if n := len(pool); n > 0 {
		st = pool[n-1]
		pool = pool[:n-1]
	}
	poolMu.Unlock()
	if st == nil {
		st = leveldbstore.NewMemLevelDBStore()
	}
	s := &Stack{Store: st}
	s.Fresh()
	return s
}

// Release wipes the store and returns it to the free list (or closes it when the wipe
// cannot be verified).
func (s *Stack) Release() {
	ok := func() bool {
		it := s.Store.NewIterator(nil)
		var keys [][]byte
		for has := it.First(); has; has = it.Next() {
			keys = append(keys, append([]byte{}, it.Key()...))
		}
		err := it.Error()
		it.Release()
		if err != nil {
			return false
		}
		s.Store.NewBatch()
		for _, k := range keys {
			s.Store.BatchDelete(k)
		}
		if s.Store.BatchCommit() != nil {
			return false
		}
		it = s.Store.NewIterator(nil)
		empty := !it.First() && it.Error() == nil
		it.Release()
		return empty
	}()
	poolMu.Lock()
	uses[s.Store]++
	retire := !ok || uses[s.Store] >= maxStoreUses
	if retire {
		delete(uses, s.Store)
	} else {
		pool = append(pool, s.Store)
	}
	poolMu.Unlock()
	if retire {
		s.Store.Close()
	}
}

// ClosePool closes the pooled stores (end of the run).
func ClosePool() {
	poolMu.Lock()
	for _, st := range pool {
		st.Close()
		delete(uses, st)
	}
	pool = nil
	poolMu.Unlock()
}

// CommitOverlay is what the ledger does at the end of a block.
func (s *Stack) CommitOverlay() error {
	s.Store.NewBatch()
	s.Overlay.CommitTo()
	return s.Store.BatchCommit()
}

// Populate writes live entries straight into the persistent store.
func (s *Stack) Populate(kvs []KV) error {
	s.Store.NewBatch()
	for _, kv := range kvs {
		s.Store.BatchPut(kv.K, kv.V)
	}
	return s.Store.BatchCommit()
}

// Collect drives an iterator with the First/Next protocol and copies what it yields.
// overrun is true when it yielded more than limit items (a non-terminating iterator).
func Collect(it scom.StoreIterator, limit int) (out []KV, overrun bool) {
	for ok := it.First(); ok; ok = it.Next() {
		if len(out) >= limit {
			return out, true
		}
		out = append(out, KV{append([]byte{}, it.Key()...), append([]byte{}, it.Value()...)})
	}
	return out, false
}

// DiffKVs compares what an enumeration produced with what the model expects.  clause is
// "" when they agree, otherwise the name of the first broken requirement.
func DiffKVs(got, want []KV) (clause, detail string) {
	for i := 1; i < len(got); i++ {
		c := bytes.Compare(got[i-1].K, got[i].K)
		if c == 0 {
			return "duplicate-key", fmt.Sprintf("key %x returned twice", got[i].K)
		}
		if c > 0 {
			return "not-ascending", fmt.Sprintf("key %x returned before %x", got[i-1].K, got[i].K)
		}
	}
	wm := map[string][]byte{}
	for _, kv := range want {
		wm[string(kv.K)] = kv.V
	}
	gm := map[string][]byte{}
	for _, kv := range got {
		gm[string(kv.K)] = kv.V
		w, ok := wm[string(kv.K)]
		if !ok {
			if len(kv.V) == 0 {
				return "deleted-key-returned", fmt.Sprintf("key %x returned with an empty value (tombstone)", kv.K)
			}
			return "extra-key", fmt.Sprintf("key %x (value %x) is not live in the model", kv.K, kv.V)
		}
		if !bytes.Equal(w, kv.V) {
			return "wrong-value", fmt.Sprintf("key %x: got %x want %x", kv.K, kv.V, w)
		}
	}
	for _, kv := range want {
		if _, ok := gm[string(kv.K)]; !ok {
			return "missing-key", fmt.Sprintf("live key %x (value %x) not returned", kv.K, kv.V)
		}
	}
	return "", ""
}

// Report receives one broken oracle clause.
type Report func(clause, detail string)

// CheckGets compares Get at all three levels for every key of the universe.
func (s *Stack) CheckGets(m *Model, universe []string, rep Report) {
	for _, k := range universe {
		raw := []byte(k)
		// persistent store
		v, err := s.Store.Get(raw)
		want := m.StoreGet(k)
		switch {
		case err != nil && err != scom.ErrNotFound:
			rep("get:store:error", fmt.Sprintf("key %x: %v", raw, err))
		case err == scom.ErrNotFound && len(want) != 0:
			rep("get:store:lost", fmt.Sprintf("key %x: not found, want %x", raw, want))
		case err == nil && !bytes.Equal(v, want):
			rep("get:store:"+getKind(v, want), fmt.Sprintf("key %x: got %x want %x", raw, v, want))
		}
		// block overlay
		v, err = s.Overlay.Get(raw)
		want = m.OverlayGet(k)
		if err != nil {
			rep("get:overlay:error", fmt.Sprintf("key %x: %v", raw, err))
		} else if !bytes.Equal(v, want) {
			rep("get:overlay:"+getKind(v, want), fmt.Sprintf("key %x: got %x want %x", raw, v, want))
		}
		// transaction cache (storage keys only)
		if len(raw) > 0 && raw[0] == StoragePrefix {
			v, err = s.Cache.Get(raw[1:])
			want = m.TxGet(k)
			if err != nil {
				rep("get:cache:error", fmt.Sprintf("key %x: %v", raw, err))
			} else if !bytes.Equal(v, want) {
				rep("get:cache:"+getKind(v, want), fmt.Sprintf("key %x: got %x want %x", raw, v, want))
			}
		}
	}
	if err := s.Overlay.Error(); err != nil {
		rep("overlay:dberr", err.Error())
	}
}

func getKind(got, want []byte) string {
	switch {
	case len(want) == 0:
		return "deleted-key-visible"
	case len(got) == 0:
		return "live-key-invisible"
	default:
		return "stale-value"
	}
}

// CheckIter runs one prefix iteration at the given level (LvCache: rawPrefix must start
// with the storage prefix byte) and compares it with the model.  count receives the
// join-shape cases of this iteration, prefixed by the level.
func (s *Stack) CheckIter(m *Model, level string, rawPrefix []byte, limit int, rep Report, count func(string)) {
	var it scom.StoreIterator
	var mem Layer
	var back []KV
	p := string(rawPrefix)
	switch level {
	case LvCache:
		it = s.Cache.NewIterator(rawPrefix[1:])
		mem, back = m.Tx, m.Live(LvOverlay, p)
	case LvOverlay:
		it = s.Overlay.NewIterator(rawPrefix)
		mem, back = m.Overlay, m.Live(LvStore, p)
	default:
		it = s.Store.NewIterator(rawPrefix)
	}
	if s.BetweenIter != nil {
		s.BetweenIter()
	}
	got, overrun := Collect(it, limit)
	err := it.Error()
	it.Release()
	if level == LvCache {
		for i := range got { // CacheDB strips the data-entry prefix
			got[i].K = append([]byte{StoragePrefix}, got[i].K...)
		}
	}
	if count != nil && level != LvStore {
		for _, c := range JoinShape(mem, back, p) {
			count(level + "/" + c)
		}
	}
	if overrun {
		rep("iter:"+level+":non-terminating", fmt.Sprintf("prefix %x: more than %d items", rawPrefix, limit))
		return
	}
	if err != nil {
		rep("iter:"+level+":error", fmt.Sprintf("prefix %x: %v", rawPrefix, err))
	}
	want := m.Live(level, p)
	for _, kv := range got {
		if !bytes.HasPrefix(kv.K, rawPrefix) {
			rep("iter:"+level+":outside-prefix", fmt.Sprintf("prefix %x: returned key %x", rawPrefix, kv.K))
			return
		}
	}
	if clause, detail := DiffKVs(got, want); clause != "" {
		rep("iter:"+level+":"+clause, fmt.Sprintf("prefix %x: %s; got %v want %v", rawPrefix, detail, KVStrings(got), KVStrings(want)))
	}
}

// CheckWriteSet compares the overlay's write set (ForEach order) with the model overlay.
func (s *Stack) CheckWriteSet(m *Model, rep Report) {
	var got []KV
	s.Overlay.GetWriteSet().ForEach(func(k, v []byte) {
		got = append(got, KV{append([]byte{}, k...), append([]byte{}, v...)})
	})
	if clause, detail := DiffWriteSet(got, SortedLayer(m.Overlay)); clause != "" {
		rep("writeset:"+clause, detail)
	}
	if n := s.Overlay.GetWriteSet().Len(); n != len(m.Overlay) {
		rep("writeset:len", fmt.Sprintf("Len()=%d, model has %d touched keys", n, len(m.Overlay)))
	}
}

// DiffWriteSet compares a full enumeration (tombstones are legitimate entries with an
// empty value) with the model's sorted entry list.
func DiffWriteSet(got, want []KV) (clause, detail string) {
	for i := 1; i < len(got); i++ {
		c := bytes.Compare(got[i-1].K, got[i].K)
		if c == 0 {
			return "duplicate-key", fmt.Sprintf("key %x enumerated twice", got[i].K)
		}
		if c > 0 {
			return "not-ascending", fmt.Sprintf("key %x enumerated before %x", got[i-1].K, got[i].K)
		}
	}
	wm := map[string][]byte{}
	for _, kv := range want {
		wm[string(kv.K)] = kv.V
	}
	gm := map[string]bool{}
	for _, kv := range got {
		gm[string(kv.K)] = true
		w, ok := wm[string(kv.K)]
		if !ok {
			return "extra-key", fmt.Sprintf("key %x (value %x) was never written", kv.K, kv.V)
		}
		if !bytes.Equal(w, kv.V) {
			kind := "wrong-value"
			if len(w) == 0 {
				kind = "tombstone-has-value"
			} else if len(kv.V) == 0 {
				kind = "value-lost"
			}
			return kind, fmt.Sprintf("key %x: got %x want %x", kv.K, kv.V, w)
		}
	}
	for _, kv := range want {
		if !gm[string(kv.K)] {
			kind := "missing-key"
			if len(kv.V) == 0 {
				kind = "tombstone-dropped"
			}
			return kind, fmt.Sprintf("touched key %x (value %x) not enumerated", kv.K, kv.V)
		}
	}
	return "", ""
}
