package kvl

import (
	"fmt"
	"os"
	"sync"
	"sync/atomic"
	"time"

	"verifharness/lib/vf"
)

// Watchdog turns a hang of the code under test (e.g. a skip list whose pointers form a
// cycle) into an INCONCLUSIVE verdict that carries the witness of the stuck case, instead
// of a monitor that never returns.  It is wall-clock based and therefore never produces a
// violation (DESIGN.md §2 "Seeds", §8): every operation of these monitors takes
// microseconds, the limit is a full minute without a single completed operation.
type Watchdog struct {
	r     *vf.Run
	limit time.Duration
	mu    sync.Mutex
	beats map[*Beat]struct{}
	stop  chan struct{}
}

// Beat is the progress record of one running case.
type Beat struct {
	w    *Watchdog
	n    uint64
	desc func() interface{}
	last uint64
	seen time.Time
}

func NewWatchdog(r *vf.Run, limit time.Duration) *Watchdog {
	w := &Watchdog{r: r, limit: limit, beats: map[*Beat]struct{}{}, stop: make(chan struct{})}
	go w.loop()
	return w
}

// Begin registers a case; desc must return the witness of the case as far as it got (it
// is only called when the case is stuck, i.e. while its goroutine is not making progress).
func (w *Watchdog) Begin(desc func() interface{}) *Beat {
	b := &Beat{w: w, desc: desc, seen: time.Now()}
	w.mu.Lock()
	w.beats[b] = struct{}{}
	w.mu.Unlock()
	return b
}

// Tick records one completed operation.
func (b *Beat) Tick() { atomic.AddUint64(&b.n, 1) }

func (b *Beat) End() {
	b.w.mu.Lock()
	delete(b.w.beats, b)
	b.w.mu.Unlock()
}

func (w *Watchdog) Stop() { close(w.stop) }

func (w *Watchdog) loop() {
	t := time.NewTicker(time.Second)
	defer t.Stop()
	for {
		select {
		case <-w.stop:
			return
		case now := <-t.C:
			w.mu.Lock()
			var stuck *Beat
			for b := range w.beats {
				n := atomic.LoadUint64(&b.n)
				if n != b.last {
					b.last, b.seen = n, now
				} else if now.Sub(b.seen) > w.limit {
					stuck = b
				}
			}
			w.mu.Unlock()
			if stuck != nil {
				w.r.Extra("hang_witness", stuck.desc())
				w.r.Inconclusive(fmt.Sprintf("HANG: a case completed no operation for %v inside the code under test; its witness is in coverage.hang_witness of the evidence file", w.limit))
				fmt.Printf("HANG property=%s: no progress for %v, giving up (inconclusive)\n", w.r.ID, w.limit)
				code := w.r.FinishNoExit()
				if code == 0 {
					code = 2
				}
				os.Exit(code)
			}
		}
	}
}
