// Package proc is a small child-process supervisor for monitors whose workload can end
// the process (unrecovered panic in a foreign goroutine, `fatal error: stack overflow`,
// out of memory, concurrent map writes, a kill by the kernel).
//
// Protocol
//
//   - The monitor binary re-executes itself (os.Args[0]) with the environment variable
//     VERIF_CHILD=<spec>.  `main` starts with
//
//     if spec, ok := proc.ChildSpec(); ok { childMain(spec); return }
//
//   - Before the child executes a case it calls CaseLog.Begin(index, record): the record
//     (the concrete input, self-contained) is appended to the case-log file with one
//     write(2) on an unbuffered descriptor, i.e. it has left the process before the case
//     runs and survives any death of the process.  The log is rotated (truncated) when
//     it exceeds 4 MiB, so disk use is bounded; only the LAST record is ever needed.
//
//   - The parent calls Run.  If the child exits 0 the result is nil.  Otherwise a *Death
//     describes how it died (Class: "panic", "fatal", "signal", "exit", "hang"), the
//     first line of the runtime's message, a digit-free MessageClass usable in a
//     structural violation key, the tail of stderr and the last record logged (the
//     witness).  The parent normally restarts the child at LastIndex+1.
//
//   - Children report results through files of their own choosing (Run does not look at
//     them); AppendJSONLine is a helper that writes one JSON document per line with a
//     single write(2), so results reported before a later death are not lost.
//
// Nothing here depends on wall-clock time for a verdict: StallTimeout only turns a child
// whose case log has not moved for that long into Class "hang" (callers report that as
// inconclusive, never as a violation).
package proc

import (
	"bytes"
	"encoding/binary"
	"encoding/json"
	"fmt"
	"io"
	"os"
	"os/exec"
	"regexp"
	"strings"
	"sync"
	"syscall"
	"time"
)

const EnvChild = "VERIF_CHILD"

// ChildSpec reports whether this process was started by Run, and with which spec.
func ChildSpec() (string, bool) {
	s := os.Getenv(EnvChild)
	return s, s != ""
}

// ---------------------------------------------------------------- case log (child side)

const rotateAt = 4 << 20

type CaseLog struct {
	f    *os.File
	size int64
	buf  []byte
}

// OpenCaseLog creates/truncates the case log.
func OpenCaseLog(path string) (*CaseLog, error) {
	f, err := os.OpenFile(path, os.O_CREATE|os.O_WRONLY|os.O_TRUNC, 0o644)
	if err != nil {
		return nil, err
	}
	return &CaseLog{f: f}, nil
}

// Begin records that case `index` with input `rec` is about to be executed.  It returns
// after the record has been handed to the kernel.
func (l *CaseLog) Begin(index uint64, rec []byte) {
	need := 16 + len(rec)
	if l.size+int64(need) > rotateAt && l.size > 0 {
		l.f.Truncate(0)
		l.f.Seek(0, io.SeekStart)
		l.size = 0
	}
	if cap(l.buf) < need {
		l.buf = make([]byte, 0, need*2)
	}
	b := l.buf[:need]
	binary.LittleEndian.PutUint32(b[0:], 0xca5e10c5)
	binary.LittleEndian.PutUint32(b[4:], uint32(len(rec)))
	binary.LittleEndian.PutUint64(b[8:], index)
	copy(b[16:], rec)
	if _, err := l.f.Write(b); err != nil {
		fmt.Fprintf(os.Stderr, "proc: case log write failed: %v\n", err)
		os.Exit(97)
	}
	l.size += int64(need)
}

func (l *CaseLog) Close() { l.f.Close() }

// ReadLastCase returns the last complete record of a case log.
func ReadLastCase(path string) (index uint64, rec []byte, ok bool) {
	b, err := os.ReadFile(path)
	if err != nil {
		return 0, nil, false
	}
	for len(b) >= 16 {
		if binary.LittleEndian.Uint32(b) != 0xca5e10c5 {
			break
		}
		n := int(binary.LittleEndian.Uint32(b[4:]))
		if len(b) < 16+n {
			break
		}
		index = binary.LittleEndian.Uint64(b[8:])
		rec = b[16 : 16+n]
		ok = true
		b = b[16+n:]
	}
	return
}

// AppendJSONLine appends one JSON document and a newline with a single write.
func AppendJSONLine(f *os.File, v interface{}) error {
	b, err := json.Marshal(v)
	if err != nil {
		return err
	}
	b = append(b, '\n')
	_, err = f.Write(b)
	return err
}

// ReadJSONLines decodes every complete line of a file written with AppendJSONLine.
func ReadJSONLines(path string, each func(raw json.RawMessage)) error {
	b, err := os.ReadFile(path)
	if err != nil {
		return err
	}
	for _, ln := range bytes.Split(b, []byte{'\n'}) {
		if len(ln) == 0 || !json.Valid(ln) {
			continue
		}
		each(json.RawMessage(ln))
	}
	return nil
}

// ---------------------------------------------------------------- parent side

type Cmd struct {
	Spec         string        // value of VERIF_CHILD
	Env          []string      // extra KEY=VALUE
	LogPath      string        // the case log the child writes (for the witness / hang detection)
	StallTimeout time.Duration // 0 = none
}

type Death struct {
	Class        string // panic | fatal | signal | exit | hang
	Message      string // e.g. "runtime error: slice bounds out of range [:64] with capacity 0"
	MessageClass string // Message with digit runs / addresses removed, for violation keys
	Signal       string
	ExitCode     int
	StderrTail   string
	HaveCase     bool
	LastIndex    uint64
	LastCase     []byte
}

type tailBuf struct {
	mu   sync.Mutex
	head []byte // first 8 KiB (the panic/fatal line is at the start of the crash report)
	tail []byte
}

func (t *tailBuf) Write(p []byte) (int, error) {
	t.mu.Lock()
	if len(t.head) < 8192 {
		k := 8192 - len(t.head)
		if k > len(p) {
			k = len(p)
		}
		t.head = append(t.head, p[:k]...)
	}
	t.tail = append(t.tail, p...)
	if len(t.tail) > 16384 {
		t.tail = t.tail[len(t.tail)-16384:]
	}
	t.mu.Unlock()
	return len(p), nil
}

// Run starts the child and waits for it.  nil, nil = child exited 0.
func Run(c Cmd) (*Death, error) {
	cmd := exec.Command(os.Args[0])
	cmd.Env = append(os.Environ(), EnvChild+"="+c.Spec, "GOTRACEBACK=single")
	cmd.Env = append(cmd.Env, c.Env...)
	// a child must not outlive a killed supervisor
	cmd.SysProcAttr = &syscall.SysProcAttr{Pdeathsig: syscall.SIGKILL}
	tb := &tailBuf{}
	cmd.Stderr = tb
	cmd.Stdout = tb
	if err := cmd.Start(); err != nil {
		return nil, err
	}
	done := make(chan error, 1)
	go func() { done <- cmd.Wait() }()
	hang := false
	if c.StallTimeout > 0 && c.LogPath != "" {
		tick := time.NewTicker(c.StallTimeout / 4)
		defer tick.Stop()
		var lastSize int64 = -1
		var lastMod time.Time
		lastMove := time.Now()
	loop:
		for {
			select {
			case <-done:
				done <- nil
				break loop
			case <-tick.C:
				if st, err := os.Stat(c.LogPath); err == nil {
					if st.Size() != lastSize || !st.ModTime().Equal(lastMod) {
						lastSize, lastMod, lastMove = st.Size(), st.ModTime(), time.Now()
					}
				}
				if time.Since(lastMove) > c.StallTimeout {
					hang = true
					cmd.Process.Kill()
					<-done
					done <- nil
					break loop
				}
			}
		}
	}
	<-done
	st := cmd.ProcessState
	if st != nil && st.Success() && !hang {
		return nil, nil
	}
	d := &Death{ExitCode: -1}
	if st != nil {
		d.ExitCode = st.ExitCode()
		if ws, ok := st.Sys().(syscall.WaitStatus); ok && ws.Signaled() {
			d.Signal = ws.Signal().String()
		}
	}
	tb.mu.Lock()
	head, tail := string(tb.head), string(tb.tail)
	tb.mu.Unlock()
	d.StderrTail = tail
	if len(d.StderrTail) > 3000 {
		d.StderrTail = d.StderrTail[len(d.StderrTail)-3000:]
	}
	d.Class, d.Message = Classify(head+"\n"+tail, d.Signal, hang)
	d.MessageClass = MessageClass(d.Message)
	if c.LogPath != "" {
		d.LastIndex, d.LastCase, d.HaveCase = ReadLastCase(c.LogPath)
		d.LastCase = append([]byte(nil), d.LastCase...)
	}
	return d, nil
}

// Classify inspects the crash report of a Go process.
func Classify(stderr, signal string, hang bool) (class, msg string) {
	if hang {
		return "hang", "no progress"
	}
	for _, ln := range strings.Split(stderr, "\n") {
		switch {
		case strings.HasPrefix(ln, "fatal error: "):
			return "fatal", strings.TrimSpace(strings.TrimPrefix(ln, "fatal error: "))
		case strings.HasPrefix(ln, "runtime: out of memory"), strings.HasPrefix(ln, "runtime: cannot allocate memory"):
			return "fatal", "out of memory"
		case strings.HasPrefix(ln, "panic: "):
			m := strings.TrimSpace(strings.TrimPrefix(ln, "panic: "))
			m = strings.TrimSuffix(m, " [recovered]")
			return "panic", m
		case strings.HasPrefix(ln, "SIGSEGV: ") || strings.HasPrefix(ln, "SIGBUS: ") || strings.HasPrefix(ln, "SIGILL: ") || strings.HasPrefix(ln, "SIGABRT: "):
			return "fatal", strings.TrimSpace(ln)
		}
	}
	if signal != "" {
		return "signal", signal
	}
	return "exit", "nonzero exit without a Go crash report"
}

var (
	reHex = regexp.MustCompile(`0x[0-9a-fA-F]+`)
	reNum = regexp.MustCompile(`[0-9]+`)
	reSp  = regexp.MustCompile(`\s+`)
)

// MessageClass removes the input-dependent parts (numbers, addresses) of a panic / fatal
// message so that one defect maps to one violation key.
func MessageClass(m string) string {
	if i := strings.IndexByte(m, '\n'); i >= 0 {
		m = m[:i]
	}
	m = reHex.ReplaceAllString(m, "X")
	m = reNum.ReplaceAllString(m, "N")
	m = reSp.ReplaceAllString(strings.TrimSpace(m), " ")
	if len(m) > 90 {
		m = m[:90]
	}
	return m
}
