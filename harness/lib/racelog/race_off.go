//go:build !race

package racelog

// Enabled reports whether the binary was built with -race.
const Enabled = false
