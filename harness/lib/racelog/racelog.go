// Package racelog turns the Go race detector's log files into monitor verdicts.
//
// `./check` builds some monitors with -race and runs them with
//
//	GORACE="halt_on_error=0 log_path=<dir>/<id>.race"
//
// so the runtime appends every report to `<log_path>.<pid>` (one file per process, also
// for re-exec'ed children) and keeps running.  At the END of its run (all workload
// goroutines joined) a monitor calls
//
//	racelog.Apply(r, "p2pserver/dht/kbucket/")            // anchored path fragments
//
// which reads all `<log_path>.*` files, parses the "WARNING: DATA RACE" blocks,
// de-duplicates them and
//   - calls r.Violation("race:<file>:<func>", …) for every de-duplicated report that has,
//     in one of its two ACCESS stacks, a frame whose file lies under the repository root
//     and contains one of the anchor fragments;
//   - lists every other report only in the evidence (r.Extra("race_reports_other")).
//
// Terminology.  A report has two access stacks ("Write at … by goroutine N:" and
// "Previous read at …") followed by goroutine-creation stacks.  Stacks are printed
// innermost frame first.  The *outermost repo frame* of an access stack is the LAST
// printed frame whose file is under the repository root, i.e. the entry point through
// which the harness (or a goroutine) entered the code under test.  Two reports are
// duplicates when the unordered pair of their outermost repo frames (file + function,
// line numbers ignored) is equal.  The violation key uses the outermost frame that lies
// in the anchored files (when both access stacks have one: the lexicographically smaller,
// so the key does not depend on the order of the two accesses): file relative to the repo
// root and the function without its package path, e.g.
// "race:p2pserver/dht/kbucket/table.go:(*RouteTable).Update".
//
// The repository root is $VERIF_REPO (default /repo): monitors built against a scratch
// worktree therefore classify frames of that worktree.
//
// racelog.Enabled tells whether the binary was built with -race.
package racelog

import (
	"os"
	"path/filepath"
	"sort"
	"strconv"
	"strings"

	"verifharness/lib/vf"
)

// Frame is one stack frame of a race report.
type Frame struct {
	Func string `json:"func"` // fully qualified, without the trailing "()"
	File string `json:"file"` // absolute path as printed
	Line int    `json:"line"`
}

// Stack is one titled stack of a report ("Write at 0x… by goroutine 7:").
type Stack struct {
	Title  string  `json:"title"`
	Frames []Frame `json:"frames"`
}

// Access tells whether the stack belongs to one of the two racing accesses (as opposed
// to a "Goroutine N (running) created at:" stack).
func (s Stack) Access() bool { return !strings.HasPrefix(s.Title, "Goroutine ") }

// Report is one "WARNING: DATA RACE" block.
type Report struct {
	Stacks []Stack `json:"stacks"`
	Raw    string  `json:"raw"`
}

// Unique is a class of duplicate reports.
type Unique struct {
	Key      string    `json:"key"`      // violation key, "race:<file>:<func>"
	Pair     [2]string `json:"pair"`     // the de-duplication pair "<relfile>:<func>" (sorted)
	Count    int       `json:"count"`    // how many raw reports fell in this class
	Anchored bool      `json:"anchored"` // an access stack has a frame in the anchored files
	Example  Report    `json:"example"`  // first report of the class
}

// Summary is what Collect found.
type Summary struct {
	Files  []string `json:"files"`
	Total  int      `json:"total"`  // raw "WARNING: DATA RACE" blocks
	Unique []Unique `json:"unique"` // sorted by Pair
}

// RepoRoot is the root under which a frame counts as "code under test".
func RepoRoot() string {
	if d := os.Getenv("VERIF_REPO"); d != "" {
		return filepath.Clean(d)
	}
	return "/repo"
}

// LogPath extracts log_path from $GORACE ("" when absent).
func LogPath() string {
	for _, f := range strings.Fields(os.Getenv("GORACE")) {
		if strings.HasPrefix(f, "log_path=") {
			return strings.TrimPrefix(f, "log_path=")
		}
	}
	return ""
}

// LogFiles lists the race log files of this run (`<log_path>.*`), sorted.
func LogFiles() []string {
	lp := LogPath()
	if lp == "" || lp == "stderr" || lp == "stdout" {
		return nil
	}
	m, _ := filepath.Glob(lp + ".*")
	sort.Strings(m)
	return m
}

// Parse extracts the data-race reports from the text of a race log.
func Parse(text string) []Report {
	var out []Report
	lines := strings.Split(text, "\n")
	for i := 0; i < len(lines); i++ {
		if !strings.HasPrefix(lines[i], "WARNING: DATA RACE") {
			continue
		}
		j := i + 1
		for j < len(lines) && !strings.HasPrefix(lines[j], "==================") && !strings.HasPrefix(lines[j], "WARNING: DATA RACE") {
			j++
		}
		out = append(out, parseBlock(lines[i:j]))
		i = j - 1
	}
	return out
}

func parseBlock(lines []string) Report {
	rep := Report{Raw: strings.Join(lines, "\n")}
	var cur *Stack
	for k := 1; k < len(lines); k++ {
		ln := lines[k]
		trim := strings.TrimSpace(ln)
		if trim == "" {
			continue
		}
		if !strings.HasPrefix(ln, " ") { // a title line: "Write at … by goroutine 7:"
			rep.Stacks = append(rep.Stacks, Stack{Title: strings.TrimSuffix(trim, ":")})
			cur = &rep.Stacks[len(rep.Stacks)-1]
			continue
		}
		if cur == nil {
			continue
		}
		if strings.HasPrefix(ln, "      ") { // "      /path/file.go:123 +0x1a" completes the last frame
			if n := len(cur.Frames); n > 0 && cur.Frames[n-1].File == "" {
				loc := trim
				if sp := strings.LastIndex(loc, " +0x"); sp >= 0 {
					loc = loc[:sp]
				}
				if c := strings.LastIndex(loc, ":"); c >= 0 {
					cur.Frames[n-1].Line, _ = strconv.Atoi(loc[c+1:])
					loc = loc[:c]
				}
				cur.Frames[n-1].File = loc
			}
			continue
		}
		// "  pkg.(*T).Method()" or "  [failed to restore the stack]"
		fn := trim
		if p := strings.LastIndex(fn, "("); p > 0 && strings.HasSuffix(fn, ")") {
			fn = fn[:p]
		}
		cur.Frames = append(cur.Frames, Frame{Func: fn})
	}
	return rep
}

// ShortFunc strips the package path: "a/b/pkg.(*T).M" -> "(*T).M", "a/b/pkg.F.func1" -> "F.func1".
func ShortFunc(fn string) string {
	if s := strings.LastIndex(fn, "/"); s >= 0 {
		fn = fn[s+1:]
	}
	if d := strings.Index(fn, "."); d >= 0 {
		fn = fn[d+1:]
	}
	return fn
}

func underRoot(file, root string) (rel string, ok bool) {
	if strings.HasPrefix(file, root+"/") {
		return file[len(root)+1:], true
	}
	return "", false
}

// outermost returns "<relfile>:<func>" of the last printed frame under root that
// satisfies keep (nil = any), or "".
func outermost(s Stack, root string, keep func(rel string) bool) string {
	for k := len(s.Frames) - 1; k >= 0; k-- {
		if rel, ok := underRoot(s.Frames[k].File, root); ok && (keep == nil || keep(rel)) {
			return rel + ":" + ShortFunc(s.Frames[k].Func)
		}
	}
	return ""
}

// Classify de-duplicates reports (see the package comment).
func Classify(reports []Report, root string, anchors []string) []Unique {
	inAnchor := func(rel string) bool {
		for _, a := range anchors {
			if strings.Contains(rel, a) {
				return true
			}
		}
		return false
	}
	idx := map[[3]string]int{} // pair + anchored frame: an anchored report never hides behind an unanchored twin
	var out []Unique
	for _, rep := range reports {
		var pair []string
		anchoredKey := ""
		for _, s := range rep.Stacks {
			if !s.Access() {
				continue
			}
			o := outermost(s, root, nil)
			if o == "" {
				o = "-"
			}
			pair = append(pair, o)
			// the key frame is the lexicographically smallest anchored outermost frame of the
			// two access stacks, so that it does not depend on which access was reported first
			if a := outermost(s, root, inAnchor); a != "" && (anchoredKey == "" || a < anchoredKey) {
				anchoredKey = a
			}
		}
		for len(pair) < 2 {
			pair = append(pair, "-")
		}
		sort.Strings(pair)
		p := [2]string{pair[0], pair[1]}
		ik := [3]string{p[0], p[1], anchoredKey}
		if k, ok := idx[ik]; ok {
			out[k].Count++
			continue
		}
		u := Unique{Pair: p, Count: 1, Example: rep, Anchored: anchoredKey != ""}
		switch {
		case anchoredKey != "":
			u.Key = "race:" + anchoredKey
		case p[0] != "-":
			u.Key = "race:" + p[0]
		default:
			u.Key = "race:" + p[1]
		}
		idx[ik] = len(out)
		out = append(out, u)
	}
	sort.Slice(out, func(a, b int) bool {
		if out[a].Pair[0] != out[b].Pair[0] {
			return out[a].Pair[0] < out[b].Pair[0]
		}
		return out[a].Pair[1] < out[b].Pair[1]
	})
	return out
}

// Collect reads and classifies the race log files of this run.
func Collect(anchors ...string) Summary {
	sum := Summary{Files: LogFiles()}
	var all []Report
	for _, f := range sum.Files {
		b, err := os.ReadFile(f)
		if err != nil {
			continue
		}
		all = append(all, Parse(string(b))...)
	}
	sum.Total = len(all)
	sum.Unique = Classify(all, RepoRoot(), anchors)
	return sum
}

// Apply is the one-call form for monitors: Collect, then one r.Violation per anchored
// class, the others only in r.Extra.  Counters "race_reports_total",
// "race_reports_anchored", "race_reports_other" are set; r.Extra("race_detector")
// records whether the detector was compiled in.  It returns the summary.
// Call it after every workload goroutine has been joined.
func Apply(r *vf.Run, anchors ...string) Summary {
	sum := Collect(anchors...)
	r.Extra("race_detector", map[string]interface{}{"enabled": Enabled, "log_files": sum.Files, "anchors": anchors})
	r.Add("race_reports_total", int64(sum.Total))
	var other []map[string]interface{}
	for _, u := range sum.Unique {
		if u.Anchored {
			r.Count("race_reports_anchored")
			r.Violation(u.Key, "data race reported by the race detector between "+u.Pair[0]+" and "+u.Pair[1],
				map[string]interface{}{"pair": u.Pair, "count": u.Count, "report": u.Example.Raw})
			continue
		}
		r.Count("race_reports_other")
		if len(other) < 20 {
			other = append(other, map[string]interface{}{"key": u.Key, "pair": u.Pair, "count": u.Count, "report": u.Example.Raw})
		}
	}
	if other == nil {
		other = []map[string]interface{}{}
	}
	r.Extra("race_reports_other", other)
	return sum
}
