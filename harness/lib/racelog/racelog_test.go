package racelog

import "testing"

const sample = `==================
WARNING: DATA RACE
Write at 0x00c000639da0 by goroutine 55:
  container/list.(*List).remove()
      /usr/lib/go-1.23/src/container/list/list.go:109 +0x31c
  github.com/ontio/ontology/p2pserver/dht/kbucket.(*Bucket).Remove()
      /repo/p2pserver/dht/kbucket/bucket.go:69 +0x285
  github.com/ontio/ontology/p2pserver/dht/kbucket.(*RouteTable).Remove()
      /repo/p2pserver/dht/kbucket/table.go:186 +0x299
  main.runConcurrent.func4.1()
      /verif/harness/props/c37/main.go:670 +0x59

Previous read at 0x00c000639da0 by goroutine 56:
  container/list.(*List).Front()
      /usr/lib/go-1.23/src/container/list/list.go:73 +0x67
  github.com/ontio/ontology/p2pserver/dht/kbucket.(*peerDistanceSorter).appendPeersFromList()
      /repo/p2pserver/dht/kbucket/sorting.go:59 +0x61
  github.com/ontio/ontology/p2pserver/dht/kbucket.(*RouteTable).NearestPeers()
      /repo/p2pserver/dht/kbucket/table.go:237 +0x387
  main.runConcurrent.func5.1()
      /verif/harness/props/c37/main.go:713 +0x4d4

Goroutine 55 (running) created at:
  main.runConcurrent()
      /verif/harness/props/c37/main.go:656 +0x1a5d

Goroutine 56 (running) created at:
  main.runConcurrent()
      /verif/harness/props/c37/main.go:695 +0x1d9d
==================
==================
WARNING: DATA RACE
Read at 0x00c0007b3da0 by goroutine 56:
  github.com/ontio/ontology/p2pserver/dht/kbucket.(*RouteTable).NearestPeers()
      /repo/p2pserver/dht/kbucket/table.go:240 +0x387
  main.x()
      /verif/harness/props/c37/main.go:1 +0x1

Previous write at 0x00c0007b3da0 by goroutine 55:
  github.com/ontio/ontology/p2pserver/dht/kbucket.(*RouteTable).Remove()
      /repo/p2pserver/dht/kbucket/table.go:190 +0x299
  main.y()
      /verif/harness/props/c37/main.go:2 +0x1
==================
==================
WARNING: DATA RACE
Write at 0x00c0007b3da0 by goroutine 7:
  main.cb()
      /verif/harness/props/c37/main.go:5 +0x1

Previous write at 0x00c0007b3da0 by goroutine 8:
  main.cb()
      /verif/harness/props/c37/main.go:5 +0x1
==================
`

func TestParseAndClassify(t *testing.T) {
	reps := Parse(sample)
	if len(reps) != 3 {
		t.Fatalf("want 3 reports, got %d", len(reps))
	}
	if n := len(reps[0].Stacks); n != 4 {
		t.Fatalf("want 4 stacks in report 0, got %d", n)
	}
	f := reps[0].Stacks[0].Frames[1]
	if f.File != "/repo/p2pserver/dht/kbucket/bucket.go" || f.Line != 69 || ShortFunc(f.Func) != "(*Bucket).Remove" {
		t.Fatalf("frame parsed wrongly: %+v", f)
	}
	u := Classify(reps, "/repo", []string{"p2pserver/dht/kbucket/"})
	if len(u) != 2 {
		t.Fatalf("want 2 classes (two reports share the outermost pair), got %d: %+v", len(u), u)
	}
	var anchored, other *Unique
	for i := range u {
		if u[i].Anchored {
			anchored = &u[i]
		} else {
			other = &u[i]
		}
	}
	if anchored == nil || anchored.Count != 2 || anchored.Key != "race:p2pserver/dht/kbucket/table.go:(*RouteTable).NearestPeers" {
		t.Fatalf("anchored class wrong: %+v", anchored)
	}
	if other == nil || other.Count != 1 || other.Pair != [2]string{"-", "-"} {
		t.Fatalf("unanchored class wrong: %+v", other)
	}
	// a different root: nothing is under it, nothing is anchored
	if v := Classify(reps, "/elsewhere", []string{"p2pserver/dht/kbucket/"}); len(v) != 1 || v[0].Anchored {
		t.Fatalf("root filter broken: %+v", v)
	}
}
