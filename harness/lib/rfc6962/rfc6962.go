// Package rfc6962 is the harness' own reference for Merkle hash trees over *leaf hashes*:
// tree head, audit path and consistency proof generated from the recursive definitions of
// RFC 6962 §2.1, and the verification algorithms of RFC 9162 §2.1.3.2 / §2.1.4.2.  It shares
// no code (and no algorithm shape) with github.com/ontio/ontology/merkle, which is a port of
// the certificate-transparency Python implementation.
package rfc6962

import "crypto/sha256"

type Hash = [32]byte

// LeafHash = SHA-256(0x00 || data)
func LeafHash(data []byte) Hash {
	h := sha256.New()
	h.Write([]byte{0})
	h.Write(data)
	var out Hash
	h.Sum(out[:0])
	return out
}

// NodeHash = SHA-256(0x01 || left || right)
func NodeHash(l, r Hash) Hash {
	var buf [65]byte
	buf[0] = 1
	copy(buf[1:], l[:])
	copy(buf[33:], r[:])
	return sha256.Sum256(buf[:])
}

// EmptyRoot = SHA-256("")
func EmptyRoot() Hash { return sha256.Sum256(nil) }

// Tree is a list of leaf hashes with a memo of subtree heads (not safe for concurrent use).
type Tree struct {
	Leaves []Hash
	memo   map[uint64]Hash
}

func New(leaves []Hash) *Tree { return &Tree{Leaves: leaves, memo: map[uint64]Hash{}} }

// split returns the largest power of two strictly smaller than n (n >= 2).
func split(n int) int {
	k := 1
	for k<<1 < n {
		k <<= 1
	}
	return k
}

// mth is MTH(D[lo:hi]) of RFC 6962 §2.1 with the leaf hashing already applied.
func (t *Tree) mth(lo, hi int) Hash {
	n := hi - lo
	switch n {
	case 0:
		return EmptyRoot()
	case 1:
		return t.Leaves[lo]
	}
	key := uint64(lo)<<32 | uint64(hi)
	if h, ok := t.memo[key]; ok {
		return h
	}
	k := split(n)
	h := NodeHash(t.mth(lo, lo+k), t.mth(lo+k, hi))
	t.memo[key] = h
	return h
}

// Root is the head of the first n leaves.
func (t *Tree) Root(n int) Hash { return t.mth(0, n) }

// Path is PATH(m, D[0:n]) of RFC 6962 §2.1.1 (m zero-based, m < n), leaf-to-root order.
func (t *Tree) Path(m, n int) []Hash { return t.path(m, 0, n) }

func (t *Tree) path(m, lo, hi int) []Hash {
	n := hi - lo
	if n <= 1 {
		return nil
	}
	k := split(n)
	if m < k {
		return append(t.path(m, lo, lo+k), t.mth(lo+k, hi))
	}
	return append(t.path(m-k, lo+k, hi), t.mth(lo, lo+k))
}

// Directions gives, for PATH(m, D[0:n]), whether each sibling sits on the right of the running hash.
func Directions(m, n int) []bool {
	if n <= 1 {
		return nil
	}
	k := split(n)
	if m < k {
		return append(Directions(m, k), true)
	}
	return append(Directions(m-k, n-k), false)
}

// Proof is PROOF(m, D[0:n]) of RFC 6962 §2.1.2 (1 <= m <= n).
func (t *Tree) Proof(m, n int) []Hash { return t.subproof(m, 0, n, true) }

func (t *Tree) subproof(m, lo, hi int, b bool) []Hash {
	n := hi - lo
	if m == n {
		if b {
			return nil
		}
		return []Hash{t.mth(lo, hi)}
	}
	k := split(n)
	if m <= k {
		return append(t.subproof(m, lo, lo+k, b), t.mth(lo+k, hi))
	}
	return append(t.subproof(m-k, lo+k, hi, false), t.mth(lo, lo+k))
}

// VerifyInclusion is RFC 9162 §2.1.3.2.
func VerifyInclusion(leaf Hash, index, size uint64, path []Hash, root Hash) bool {
	if index >= size {
		return false
	}
	fn, sn := index, size-1
	r := leaf
	for _, p := range path {
		if sn == 0 {
			return false
		}
		if fn&1 == 1 || fn == sn {
			r = NodeHash(p, r)
			if fn&1 == 0 {
				for fn&1 == 0 && fn != 0 {
					fn >>= 1
					sn >>= 1
				}
			}
		} else {
			r = NodeHash(r, p)
		}
		fn >>= 1
		sn >>= 1
	}
	return sn == 0 && r == root
}

// VerifyConsistency is RFC 9162 §2.1.4.2 for 0 < first < second; first == second is consistent
// exactly when the heads are equal and the proof is empty.  first == 0 is outside the definition
// and reported as not verifiable (false).
func VerifyConsistency(first, second uint64, firstRoot, secondRoot Hash, proof []Hash) bool {
	if first == 0 || first > second {
		return false
	}
	if first == second {
		return firstRoot == secondRoot && len(proof) == 0
	}
	if len(proof) == 0 {
		return false
	}
	path := proof
	if first&(first-1) == 0 {
		path = append([]Hash{firstRoot}, proof...)
	}
	fn, sn := first-1, second-1
	for fn&1 == 1 {
		fn >>= 1
		sn >>= 1
	}
	fr, sr := path[0], path[0]
	for _, c := range path[1:] {
		if sn == 0 {
			return false
		}
		if fn&1 == 1 || fn == sn {
			fr = NodeHash(c, fr)
			sr = NodeHash(c, sr)
			if fn&1 == 0 {
				for fn&1 == 0 && fn != 0 {
					fn >>= 1
					sn >>= 1
				}
			}
		} else {
			sr = NodeHash(sr, c)
		}
		fn >>= 1
		sn >>= 1
	}
	return fr == firstRoot && sr == secondRoot && sn == 0
}
