// Package sigasm hand-assembles Ontology-format transaction bytes with arbitrary signature
// scripts (every accepted public-key encoding, push form, key order, threshold form) and
// contains the monitors' OWN, independent view of what such bytes authorise:
//
//   - OwnAccount: the account of a key / an m-of-n key set, derived from the generator's key
//     objects with nothing of /repo involved (sha256+ripemd160 of the canonical script built
//     here, keccak for Ethereum-type keys);
//   - ParseVerify / ParseInvoke: an independent reader of verification / invocation scripts;
//   - Reverify: independent re-verification of decoded transaction bytes with ontology-crypto
//     only ("at least m distinct keys of every signature set verify over the hash; the payer
//     is one of the resulting accounts").
//
// Used by the C16 and C17 monitors.  Keys come from lib/txgen.
package sigasm

import (
	"bytes"
	"crypto/sha256"
	"encoding/binary"
	"errors"
	"fmt"
	"math/big"
	"sort"

	ethcrypto "github.com/ethereum/go-ethereum/crypto"
	"github.com/ontio/ontology-crypto/ec"
	"github.com/ontio/ontology-crypto/keypair"
	osig "github.com/ontio/ontology-crypto/signature"
	"github.com/ontio/ontology/common"
	"github.com/ontio/ontology/core/types"
	"golang.org/x/crypto/ed25519"
	"golang.org/x/crypto/ripemd160"
	"verifharness/lib/txgen"
	"verifharness/lib/vf"
)

// ---------------------------------------------------------------- opcodes (NeoVM numbering)

const (
	opPUSH0         = 0x00
	opPUSHBYTES1    = 0x01
	opPUSHBYTES75   = 0x4b
	opPUSHDATA1     = 0x4c
	opPUSHDATA2     = 0x4d
	opPUSHDATA4     = 0x4e
	opPUSH1         = 0x51
	opPUSH16        = 0x60
	OpCHECKSIG      = 0xac
	OpCHECKMULTISIG = 0xae
)

// ---------------------------------------------------------------- push forms

type PushForm int

const (
	PushAuto  PushForm = iota // shortest form (what the canonical builder emits)
	PushData1                 // 0x4c len8
	PushData2                 // 0x4d len16
	PushData4                 // 0x4e len32
	NumPushForms
)

func (f PushForm) String() string {
	return [...]string{"auto", "pushdata1", "pushdata2", "pushdata4"}[f]
}

// Push encodes a data push of b in the requested form.
func Push(b []byte, f PushForm) []byte {
	n := len(b)
	switch {
	case f == PushData4:
		h := []byte{opPUSHDATA4, 0, 0, 0, 0}
		binary.LittleEndian.PutUint32(h[1:], uint32(n))
		return append(h, b...)
	case f == PushData2 && n < 0x10000:
		return append([]byte{opPUSHDATA2, byte(n), byte(n >> 8)}, b...)
	case f == PushData1 && n < 0x100:
		return append([]byte{opPUSHDATA1, byte(n)}, b...)
	}
	// canonical (ProgramBuilder.PushBytes)
	switch {
	case n >= 1 && n <= 75:
		return append([]byte{byte(n)}, b...)
	case n < 0x100:
		return append([]byte{opPUSHDATA1, byte(n)}, b...)
	case n < 0x10000:
		return append([]byte{opPUSHDATA2, byte(n), byte(n >> 8)}, b...)
	}
	h := []byte{opPUSHDATA4, 0, 0, 0, 0}
	binary.LittleEndian.PutUint32(h[1:], uint32(n))
	return append(h, b...)
}

// NumForm is how a small number (threshold m / key count n) is written.
type NumForm int

const (
	NumOp        NumForm = iota // PUSH0 / PUSH1..PUSH16 (canonical)
	NumBytes1                   // 01 nn
	NumBytesBE2                 // 02 00 nn   (big-endian, leading zero)
	NumPushData1                // 4c 01 nn
	NumNumForms
)

func (f NumForm) String() string {
	return [...]string{"op", "bytes1", "bytes-be2", "pushdata1"}[f]
}

func Num(n int, f NumForm) []byte {
	switch f {
	case NumBytes1:
		return []byte{0x01, byte(n)}
	case NumBytesBE2:
		return []byte{0x02, 0x00, byte(n)}
	case NumPushData1:
		return []byte{opPUSHDATA1, 0x01, byte(n)}
	}
	if n == 0 {
		return []byte{opPUSH0}
	}
	if n >= 1 && n <= 16 {
		return []byte{byte(opPUSH1 + n - 1)}
	}
	// what ProgramBuilder.PushNum does above 16: little-endian signed bytes
	b := common.BigIntToNeoBytes(big.NewInt(int64(n)))
	return Push(b, PushAuto)
}

// ---------------------------------------------------------------- key encodings

type KeyEnc int

const (
	EncCanonical        KeyEnc = iota // keypair.SerializePublicKey
	EncUncompressed                   // point written as 04|X|Y
	EncTrailing                       // canonical + 1..3 ignored bytes
	EncUncompTrailing                 // 04|X|Y + ignored bytes
	EncLong                           // P-256 only: PK_ECDSA|P256|compressed point
	EncLongUncompressed               // P-256 only: PK_ECDSA|P256|04|X|Y
	EncLongTrailing                   // P-256 only: long form + ignored bytes
	NumKeyEncs
)

func (e KeyEnc) String() string {
	return [...]string{"canonical", "uncompressed", "trailing", "uncompressed+trailing", "long", "long-uncompressed", "long+trailing"}[e]
}

// Encodings lists the encodings the key decoder of ontology-crypto accepts for a key kind.
func Encodings(kind txgen.Kind) []KeyEnc {
	switch kind {
	case txgen.Ed25519, txgen.EthSecp256k1:
		return []KeyEnc{EncCanonical} // strict length
	case txgen.ECDSAP256:
		return []KeyEnc{EncCanonical, EncUncompressed, EncTrailing, EncUncompTrailing, EncLong, EncLongUncompressed, EncLongTrailing}
	default:
		return []KeyEnc{EncCanonical, EncUncompressed, EncTrailing, EncUncompTrailing}
	}
}

func ecPoint(k *txgen.Key) (x, y *big.Int, size int) {
	p := k.Pub.(*ec.PublicKey)
	return p.X, p.Y, (p.Curve.Params().BitSize + 7) >> 3
}

func uncompressedPoint(k *txgen.Key) []byte {
	x, y, size := ecPoint(k)
	out := make([]byte, 1+2*size)
	out[0] = 0x04
	x.FillBytes(out[1 : 1+size])
	y.FillBytes(out[1+size:])
	return out
}

// EncodeKey serializes the public key of k in encoding enc (trailing bytes from rng).
func EncodeKey(k *txgen.Key, enc KeyEnc, rng *vf.RNG) []byte {
	canon := k.PubBytes()
	trail := func(b []byte) []byte {
		t := rng.Bytes(1 + rng.Intn(3))
		return append(append([]byte{}, b...), t...)
	}
	if k.Kind == txgen.Ed25519 || k.Kind == txgen.EthSecp256k1 {
		return canon
	}
	isP256 := k.Kind == txgen.ECDSAP256
	prefix := []byte{}
	if !isP256 {
		prefix = canon[:2] // algorithm, curve label
	}
	switch enc {
	case EncUncompressed:
		return append(append([]byte{}, prefix...), uncompressedPoint(k)...)
	case EncTrailing:
		return trail(canon)
	case EncUncompTrailing:
		return trail(append(append([]byte{}, prefix...), uncompressedPoint(k)...))
	case EncLong, EncLongUncompressed, EncLongTrailing:
		if !isP256 {
			return canon
		}
		long := []byte{byte(keypair.PK_ECDSA), keypair.P256}
		switch enc {
		case EncLong:
			return append(long, canon...)
		case EncLongUncompressed:
			return append(long, uncompressedPoint(k)...)
		default:
			return trail(append(long, canon...))
		}
	}
	return canon
}

// ---------------------------------------------------------------- signature-set specification

// Set is one signature set as it will appear in the transaction bytes.
type Set struct {
	Keys     []*txgen.Key // keys in SCRIPT order
	KeyBytes [][]byte     // encoding of each key in the script
	Forms    []PushForm   // push form of each key
	M        int
	MForm    NumForm
	NForm    NumForm
	Multi    bool     // CHECKMULTISIG script (false: CHECKSIG, exactly one key)
	Sigs     [][]byte // signatures carried by the invocation script, in that order
	SigForms []PushForm
	Label    string // workload shape label
}

// CanonicalSet is what the canonical builders produce for a signer: sorted keys, canonical
// encodings.  No signatures yet.
func CanonicalSet(s txgen.Signer) *Set {
	if len(s.Keys) == 1 {
		k := s.Keys[0]
		return &Set{Keys: []*txgen.Key{k}, KeyBytes: [][]byte{k.PubBytes()}, Forms: []PushForm{PushAuto}, M: 1, Label: "single/" + k.Kind.String()}
	}
	keys := SortKeys(s.Keys)
	st := &Set{Keys: keys, M: s.M, Multi: true, Label: fmt.Sprintf("multi/%dof%d", s.M, len(keys))}
	for _, k := range keys {
		st.KeyBytes = append(st.KeyBytes, k.PubBytes())
		st.Forms = append(st.Forms, PushAuto)
	}
	return st
}

// Verify assembles the verification script.
func (s *Set) Verify() []byte {
	if !s.Multi {
		return append(Push(s.KeyBytes[0], s.Forms[0]), OpCHECKSIG)
	}
	out := Num(s.M, s.MForm)
	for i, kb := range s.KeyBytes {
		out = append(out, Push(kb, s.Forms[i])...)
	}
	out = append(out, Num(len(s.KeyBytes), s.NForm)...)
	return append(out, OpCHECKMULTISIG)
}

// Invoke assembles the invocation script (signature pushes).
func (s *Set) Invoke() []byte {
	var out []byte
	for i, sg := range s.Sigs {
		f := PushAuto
		if i < len(s.SigForms) {
			f = s.SigForms[i]
		}
		out = append(out, Push(sg, f)...)
	}
	return out
}

// SignWith fills Sigs with signatures over hash by the keys at the given script positions.
func (s *Set) SignWith(hash []byte, idx []int) error {
	s.Sigs = nil
	for _, i := range idx {
		sg, err := s.Keys[i].Sign(hash)
		if err != nil {
			return err
		}
		s.Sigs = append(s.Sigs, sg)
	}
	return nil
}

// SignRandom signs with a random M-subset of the keys, signatures in random order (the
// validator tries every not-yet-used key for every signature, so any order is valid).
func (s *Set) SignRandom(hash []byte, rng *vf.RNG) ([]int, error) {
	idx := rng.Perm(len(s.Keys))[:s.M]
	if !s.Multi {
		idx = []int{0}
	}
	return idx, s.SignWith(hash, idx)
}

// Account is the monitor's own derivation of the account the set authorises.
func (s *Set) Account() common.Address { return OwnAccount(s.Keys, s.M, s.Multi) }

func (s *Set) Clone() *Set {
	c := *s
	c.Keys = append([]*txgen.Key{}, s.Keys...)
	c.KeyBytes = append([][]byte{}, s.KeyBytes...)
	c.Forms = append([]PushForm{}, s.Forms...)
	c.Sigs = make([][]byte, len(s.Sigs))
	for i := range s.Sigs {
		c.Sigs[i] = append([]byte{}, s.Sigs[i]...)
	}
	c.SigForms = append([]PushForm{}, s.SigForms...)
	return &c
}

// ---------------------------------------------------------------- raw transaction assembly

// Unsigned returns the serialized unsigned part of mt (everything the hash covers).
func Unsigned(mt *types.MutableTransaction) ([]byte, error) {
	save := mt.Sigs
	mt.Sigs = nil
	tmp, err := mt.IntoImmutable()
	mt.Sigs = save
	if err != nil {
		return nil, err
	}
	raw := tmp.ToArray()
	return append([]byte{}, raw[:len(raw)-1]...), nil // drop the "0 signature sets" varuint
}

// PayerOffset is the offset of the 20 payer bytes inside the unsigned part
// (version 1, type 1, nonce 4, gas price 8, gas limit 8).
const PayerOffset = 22

// Hash is the transaction hash of an unsigned part: sha256(sha256(unsigned)).
func Hash(unsigned []byte) [32]byte {
	h := sha256.Sum256(unsigned)
	return sha256.Sum256(h[:])
}

func varUint(v uint64) []byte {
	s := common.NewZeroCopySink(nil)
	s.WriteVarUint(v)
	return s.Bytes()
}

// Assemble concatenates unsigned part and signature sets into transaction bytes.
func Assemble(unsigned []byte, sets []*Set) []byte {
	out := append([]byte{}, unsigned...)
	out = append(out, varUint(uint64(len(sets)))...)
	for _, s := range sets {
		inv, ver := s.Invoke(), s.Verify()
		out = append(out, varUint(uint64(len(inv)))...)
		out = append(out, inv...)
		out = append(out, varUint(uint64(len(ver)))...)
		out = append(out, ver...)
	}
	return out
}

// AssembleRaw is Assemble for already assembled (invoke, verify) script pairs.
func AssembleRaw(unsigned []byte, scripts [][2][]byte) []byte {
	out := append([]byte{}, unsigned...)
	out = append(out, varUint(uint64(len(scripts)))...)
	for _, s := range scripts {
		out = append(out, varUint(uint64(len(s[0])))...)
		out = append(out, s[0]...)
		out = append(out, varUint(uint64(len(s[1])))...)
		out = append(out, s[1]...)
	}
	return out
}

// ---------------------------------------------------------------- own account derivation

func hash160(b []byte) (a common.Address) {
	h := sha256.Sum256(b)
	md := ripemd160.New()
	md.Write(h[:])
	md.Sum(a[:0])
	return a
}

// Hash160 is sha256 then ripemd160 (the address of a script).
func Hash160(b []byte) common.Address { return hash160(b) }

type sortKey struct {
	typ, curve byte
	x, y       *big.Int
	raw        []byte
}

func sortKeyOf(k *txgen.Key) sortKey {
	switch k.Kind {
	case txgen.Ed25519:
		return sortKey{typ: byte(keypair.PK_EDDSA), raw: []byte(k.Pub.(ed25519.PublicKey))}
	case txgen.EthSecp256k1:
		p := k.Eth.PublicKey
		return sortKey{typ: byte(keypair.PK_ETHECDSA), x: p.X, y: p.Y}
	}
	x, y, _ := ecPoint(k)
	sk := sortKey{typ: byte(keypair.PK_ECDSA), x: x, y: y}
	switch k.Kind {
	case txgen.ECDSAP224:
		sk.curve = keypair.P224
	case txgen.ECDSAP256:
		sk.curve = keypair.P256
	case txgen.ECDSAP384:
		sk.curve = keypair.P384
	case txgen.ECDSAP521:
		sk.curve = keypair.P521
	case txgen.SM2:
		sk.typ, sk.curve = byte(keypair.PK_SM2), keypair.SM2P256V1
	}
	return sk
}

func lessKey(a, b sortKey) bool {
	if a.typ != b.typ {
		return a.typ < b.typ
	}
	if a.raw != nil {
		return bytes.Compare(a.raw, b.raw) < 0
	}
	if a.curve != b.curve {
		return a.curve < b.curve
	}
	if c := a.x.Cmp(b.x); c != 0 {
		return c < 0
	}
	return a.y.Cmp(b.y) < 0
}

// SortKeys returns the keys in the canonical order of a multi-signature script (key type,
// curve, X, Y / raw bytes) without touching the input slice.
func SortKeys(keys []*txgen.Key) []*txgen.Key {
	out := append([]*txgen.Key{}, keys...)
	sort.SliceStable(out, func(i, j int) bool { return lessKey(sortKeyOf(out[i]), sortKeyOf(out[j])) })
	return out
}

// OwnAccount derives the account of a single key (multi=false) or of the m-of-n key set.
func OwnAccount(keys []*txgen.Key, m int, multi bool) common.Address {
	if !multi {
		k := keys[0]
		if k.Kind == txgen.EthSecp256k1 {
			p := k.Eth.PublicKey
			buf := make([]byte, 64)
			p.X.FillBytes(buf[:32])
			p.Y.FillBytes(buf[32:])
			var a common.Address
			copy(a[:], ethcrypto.Keccak256(buf)[12:])
			return a
		}
		return hash160(append(Push(k.PubBytes(), PushAuto), OpCHECKSIG))
	}
	script := Num(m, NumOp)
	for _, k := range SortKeys(keys) {
		script = append(script, Push(k.PubBytes(), PushAuto)...)
	}
	script = append(script, Num(len(keys), NumOp)...)
	return hash160(append(script, OpCHECKMULTISIG))
}

// ---------------------------------------------------------------- independent script readers

type item struct {
	isNum bool
	num   int
	data  []byte
}

func readItems(b []byte) ([]item, error) {
	var out []item
	for len(b) > 0 {
		op := b[0]
		b = b[1:]
		var n int
		switch {
		case op == opPUSH0:
			out = append(out, item{isNum: true})
			continue
		case op >= opPUSH1 && op <= opPUSH16:
			out = append(out, item{isNum: true, num: int(op-opPUSH1) + 1})
			continue
		case op >= opPUSHBYTES1 && op <= opPUSHBYTES75:
			n = int(op)
		case op == opPUSHDATA1:
			if len(b) < 1 {
				return nil, errors.New("truncated pushdata1")
			}
			n, b = int(b[0]), b[1:]
		case op == opPUSHDATA2:
			if len(b) < 2 {
				return nil, errors.New("truncated pushdata2")
			}
			n, b = int(binary.LittleEndian.Uint16(b)), b[2:]
		case op == opPUSHDATA4:
			if len(b) < 4 {
				return nil, errors.New("truncated pushdata4")
			}
			v := binary.LittleEndian.Uint32(b)
			b = b[4:]
			if uint64(v) > uint64(len(b)) {
				return nil, errors.New("pushdata4 beyond end")
			}
			n = int(v)
		default:
			return nil, fmt.Errorf("opcode 0x%02x is not a push", op)
		}
		if n > len(b) {
			return nil, errors.New("push beyond end")
		}
		out = append(out, item{data: b[:n]})
		b = b[n:]
	}
	return out, nil
}

// ParseVerify reads a verification script: key encodings in script order, threshold m, and
// whether it is the multi-signature form.
func ParseVerify(script []byte) (keys [][]byte, m int, multi bool, err error) {
	if len(script) < 3 {
		return nil, 0, false, errors.New("script too short")
	}
	body, last := script[:len(script)-1], script[len(script)-1]
	items, err := readItems(body)
	if err != nil {
		return nil, 0, false, err
	}
	switch last {
	case OpCHECKSIG:
		if len(items) != 1 || items[0].isNum {
			return nil, 0, false, errors.New("CHECKSIG script is not exactly one key push")
		}
		return [][]byte{items[0].data}, 1, false, nil
	case OpCHECKMULTISIG:
		if len(items) < 3 || !items[0].isNum {
			return nil, 0, true, errors.New("CHECKMULTISIG script without PUSHm threshold")
		}
		m = items[0].num
		lastIt := items[len(items)-1]
		n := lastIt.num
		if !lastIt.isNum {
			n = int(new(big.Int).SetBytes(lastIt.data).Int64())
		}
		for _, it := range items[1 : len(items)-1] {
			if it.isNum {
				return nil, 0, true, errors.New("number where a key is expected")
			}
			keys = append(keys, it.data)
		}
		if n != len(keys) {
			return nil, 0, true, fmt.Errorf("script says n=%d but carries %d keys", n, len(keys))
		}
		return keys, m, true, nil
	}
	return nil, 0, false, errors.New("script ends with neither CHECKSIG nor CHECKMULTISIG")
}

// ParseInvoke reads an invocation script: a sequence of data pushes.
func ParseInvoke(script []byte) ([][]byte, error) {
	items, err := readItems(script)
	if err != nil {
		return nil, err
	}
	var out [][]byte
	for _, it := range items {
		if it.isNum {
			return nil, errors.New("number push in invocation script")
		}
		out = append(out, it.data)
	}
	return out, nil
}

// ---------------------------------------------------------------- independent re-verification

// accountOfParsed derives the account from DECODED public keys (ontology-crypto objects).
func accountOfParsed(pubs []keypair.PublicKey, m int, multi bool) common.Address {
	if !multi {
		if e, ok := pubs[0].(*ec.EthereumPublicKey); ok {
			buf := make([]byte, 64)
			e.X.FillBytes(buf[:32])
			e.Y.FillBytes(buf[32:])
			var a common.Address
			copy(a[:], ethcrypto.Keccak256(buf)[12:])
			return a
		}
		return hash160(append(Push(keypair.SerializePublicKey(pubs[0]), PushAuto), OpCHECKSIG))
	}
	sorted := keypair.SortPublicKeys(append([]keypair.PublicKey{}, pubs...))
	script := Num(m, NumOp)
	for _, p := range sorted {
		script = append(script, Push(keypair.SerializePublicKey(p), PushAuto)...)
	}
	script = append(script, Num(len(pubs), NumOp)...)
	return hash160(append(script, OpCHECKMULTISIG))
}

// Verdict of Reverify.
type Verdict struct {
	OK        bool
	Why       string // first failed clause ("" when OK), human readable
	Clause    string // the same as a structural code (violation keys)
	Accounts  []common.Address
	DupKeys   bool // some set lists the same key twice
	Surplus   bool // some set carries more than m signatures
	HashMatch bool // sha256d(unsigned bytes) equals tx.Hash()
}

// Reverify judges decoded transaction bytes without the validator: every set must have at
// least m DISTINCT keys (by value) with a valid signature over the hash among the carried
// signatures, 1 <= m <= n <= 16, at most 16 sets, payer among the accounts.
func Reverify(tx *types.Transaction) Verdict {
	var v Verdict
	// own hash over the unsigned bytes
	sigLen := len(varUint(uint64(len(tx.Sigs))))
	for _, s := range tx.Sigs {
		sigLen += len(varUint(uint64(len(s.Invoke)))) + len(s.Invoke) + len(varUint(uint64(len(s.Verify)))) + len(s.Verify)
	}
	if sigLen > len(tx.Raw) {
		v.Why = "signature section longer than raw bytes"
		v.Clause = "raw-bytes-inconsistent"
		return v
	}
	h := Hash(tx.Raw[:len(tx.Raw)-sigLen])
	th := tx.Hash()
	v.HashMatch = bytes.Equal(h[:], th[:])
	if !v.HashMatch {
		v.Why = "tx.Hash() is not sha256d of the unsigned bytes"
		v.Clause = "hash-not-sha256d-of-unsigned-bytes"
		return v
	}
	if len(tx.Sigs) > 16 {
		v.Why = "more than 16 signature sets"
		v.Clause = "more-than-16-sets"
		return v
	}
	for si, rs := range tx.Sigs {
		keyBytes, m, multi, err := ParseVerify(rs.Verify)
		if err != nil {
			v.Why = fmt.Sprintf("set %d: verification script: %v", si, err)
			v.Clause = "verification-script-unreadable"
			return v
		}
		sigs, err := ParseInvoke(rs.Invoke)
		if err != nil {
			v.Why = fmt.Sprintf("set %d: invocation script: %v", si, err)
			v.Clause = "invocation-script-unreadable"
			return v
		}
		n := len(keyBytes)
		if m < 1 || m > n || n > 16 || (multi && n < 2) {
			v.Why = fmt.Sprintf("set %d: bad threshold m=%d n=%d", si, m, n)
			v.Clause = "bad-threshold"
			return v
		}
		var pubs []keypair.PublicKey
		seen := map[string]bool{}
		var distinct []keypair.PublicKey
		for _, kb := range keyBytes {
			p, err := keypair.DeserializePublicKey(kb)
			if err != nil {
				v.Why = fmt.Sprintf("set %d: key does not decode: %v", si, err)
				v.Clause = "key-does-not-decode"
				return v
			}
			pubs = append(pubs, p)
			id := string(keypair.SerializePublicKey(p))
			if seen[id] {
				v.DupKeys = true
				continue
			}
			seen[id] = true
			distinct = append(distinct, p)
		}
		if len(sigs) > m {
			v.Surplus = true
		}
		used := make([]bool, len(distinct))
		good := 0
		for _, sb := range sigs {
			so, err := osig.Deserialize(sb)
			if err != nil {
				continue
			}
			if blob, ok := so.Value.([]byte); ok && so.Scheme == osig.KECCAK256WithECDSA && len(blob) < 64 {
				continue // ontology-crypto would slice out of range; certainly not a valid signature
			}
			for j, p := range distinct {
				if used[j] {
					continue
				}
				okv := false
				if pn := vf.Catch(func() { okv = osig.Verify(p, h[:], so) }); pn != nil {
					okv = false
				}
				if okv {
					used[j] = true
					good++
					break
				}
			}
			if good >= m {
				break
			}
		}
		if good < m {
			v.Why = fmt.Sprintf("set %d: only %d of the required %d distinct keys have a valid signature", si, good, m)
			v.Clause = "too-few-distinct-keys-signed"
			return v
		}
		v.Accounts = append(v.Accounts, accountOfParsed(pubs, m, multi))
	}
	for _, a := range v.Accounts {
		if a == tx.Payer {
			v.OK = true
			return v
		}
	}
	v.Why = "payer is not among the signer accounts"
	v.Clause = "payer-not-a-signer"
	return v
}

// AddrSet renders a set of addresses canonically (sorted, de-duplicated hex).
func AddrSet(as []common.Address) []string {
	m := map[string]bool{}
	for _, a := range as {
		m[a.ToHexString()] = true
	}
	out := make([]string, 0, len(m))
	for k := range m {
		out = append(out, k)
	}
	sort.Strings(out)
	return out
}
