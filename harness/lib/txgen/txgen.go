// Package txgen is the shared generator of keys, signer sets and signed transactions used
// by the property monitors.
//
// Everything is a deterministic function of the *vf.RNG that is passed in, except the
// signature bytes themselves (ECDSA/SM2 signing draws a nonce from crypto/rand inside
// ontology-crypto).  The key pool is deterministic too: key #i of a kind is derived from
// a fixed constant, so the same (seed, case index) produces the same keys, scripts and
// addresses in every process.
//
// API (small on purpose):
//
//	Kinds:    ECDSAP224 … EthSecp256k1, NumKinds, Kind.String()
//	Keys:     Pool(kind) []*Key, Pick(rng), PickKind(rng, kind), PickSet(rng, n) (distinct,
//	          mixed kinds), PickLight/PickSetLight (P-224 rare: its decompression is slow),
//	          Pubs(keys); Key.{Kind,Index,Pri,Pub,Scheme,Eth}, Key.PubBytes(),
//	          Key.Address(), Key.Sign(msg)
//	Signers:  Signer{Keys, M}; Single(k), Multi(keys, m), PickSigner(rng, maxN),
//	          Signer.Address(), Signer.Sig(hash, rng)
//	Payloads: TransferCode(asset, from, to, amount), RandomNeoCode(rng, n)
//	Txs:      NewTransfer(rng, from), NewInvoke(rng, wasm), NewDeploy(rng, vmFlags),
//	          Finish(mt, payer, others, rng) -> *types.Transaction (sets Payer, signs)
//	          NewEIP155(rng, chainID, key, EIPOpts) -> signed go-ethereum tx,
//	          types.TransactionFromEIP155 turns it into an Ontology transaction
//	          Random(rng, chainID) -> (*types.Transaction, Desc) mixed valid transaction
package txgen

import (
	"crypto/ecdsa"
	"crypto/elliptic"
	"fmt"
	"math/big"
	"sync"

	ethcomm "github.com/ethereum/go-ethereum/common"
	ethtypes "github.com/ethereum/go-ethereum/core/types"
	ethcrypto "github.com/ethereum/go-ethereum/crypto"
	"github.com/ontio/ontology-crypto/ec"
	"github.com/ontio/ontology-crypto/keypair"
	sig "github.com/ontio/ontology-crypto/signature"
	"github.com/ontio/ontology/common"
	"github.com/ontio/ontology/common/constants"
	"github.com/ontio/ontology/core/payload"
	"github.com/ontio/ontology/core/types"
	cutils "github.com/ontio/ontology/core/utils"
	nutils "github.com/ontio/ontology/smartcontract/service/native/utils"
	"golang.org/x/crypto/ed25519"
	"verifharness/lib/vf"
)

// ---------------------------------------------------------------- keys

type Kind int

const (
	ECDSAP224 Kind = iota
	ECDSAP256
	ECDSAP384
	ECDSAP521
	SM2
	Ed25519
	EthSecp256k1 // keypair.PK_ETHECDSA: Ethereum-style key, address = keccak(pub)[12:]
	NumKinds
)

var kindNames = [...]string{"ecdsa-p224", "ecdsa-p256", "ecdsa-p384", "ecdsa-p521", "sm2", "ed25519", "eth-secp256k1"}

func (k Kind) String() string {
	if k < 0 || k >= NumKinds {
		return fmt.Sprintf("kind(%d)", int(k))
	}
	return kindNames[k]
}

// PoolSize is the number of cached keys per kind.
const PoolSize = 32

type Key struct {
	Kind   Kind
	Index  int // index in Pool(Kind)
	Pri    keypair.PrivateKey
	Pub    keypair.PublicKey
	Scheme sig.SignatureScheme
	Eth    *ecdsa.PrivateKey // only for EthSecp256k1
}

var (
	pools    [NumKinds][]*Key
	poolOnce [NumKinds]sync.Once
)

// Pool returns the cached keys of a kind (built on first use; deterministic).
func Pool(kind Kind) []*Key {
	poolOnce[kind].Do(func() {
		rng := vf.NewRNG(0x74786765_6e6b6579).Sub(uint64(kind)) // "txgenkey": fixed, independent of VERIF_SEED
		ks := make([]*Key, PoolSize)
		for i := range ks {
			ks[i] = derive(kind, i, rng.Sub(uint64(i)))
		}
		pools[kind] = ks
	})
	return pools[kind]
}

func scalar(rng *vf.RNG, n *big.Int) *big.Int {
	d := new(big.Int).SetBytes(rng.Bytes((n.BitLen()+7)/8 + 8))
	d.Mod(d, new(big.Int).Sub(n, big.NewInt(1)))
	return d.Add(d, big.NewInt(1))
}

func derive(kind Kind, idx int, rng *vf.RNG) *Key {
	k := &Key{Kind: kind, Index: idx}
	ecKey := func(c elliptic.Curve, alg ec.ECAlgorithm, scheme sig.SignatureScheme) {
		d := scalar(rng, c.Params().N)
		pri := &ec.PrivateKey{Algorithm: alg, PrivateKey: ec.ConstructPrivateKey(d.Bytes(), c)}
		k.Pri, k.Pub, k.Scheme = pri, &ec.PublicKey{Algorithm: alg, PublicKey: &pri.PublicKey}, scheme
	}
	switch kind {
	case ECDSAP224:
		ecKey(elliptic.P224(), ec.ECDSA, sig.SHA224withECDSA)
	case ECDSAP256:
		ecKey(elliptic.P256(), ec.ECDSA, sig.SHA256withECDSA)
	case ECDSAP384:
		ecKey(elliptic.P384(), ec.ECDSA, sig.SHA384withECDSA)
	case ECDSAP521:
		ecKey(elliptic.P521(), ec.ECDSA, sig.SHA512withECDSA)
	case SM2:
		c, err := keypair.GetCurve(keypair.SM2P256V1)
		if err != nil {
			panic(err)
		}
		ecKey(c, ec.SM2, sig.SM3withSM2)
	case Ed25519:
		pri := ed25519.NewKeyFromSeed(rng.Bytes(ed25519.SeedSize))
		k.Pri, k.Pub, k.Scheme = pri, pri.Public().(ed25519.PublicKey), sig.SHA512withEDDSA
	case EthSecp256k1:
		d := scalar(rng, ethcrypto.S256().Params().N)
		buf := make([]byte, 32)
		d.FillBytes(buf)
		ek, err := ethcrypto.ToECDSA(buf)
		if err != nil {
			panic(err)
		}
		k.Eth = ek
		k.Pri, k.Pub = keypair.FromEthereumPrivateKey(ek)
		k.Scheme = sig.KECCAK256WithECDSA
	default:
		panic("txgen: unknown key kind")
	}
	return k
}

// Pick draws a key of a uniformly random kind.
func Pick(rng *vf.RNG) *Key { return PickKind(rng, Kind(rng.Intn(int(NumKinds)))) }

// PickLight is Pick with ECDSAP224 down-weighted to 4 %: ontology-crypto decompresses a
// P-224 point in ~8 ms (every other kind: < 0.1 ms), so workloads that parse verification
// scripts many times use the light pickers.  PickSigner/Random use them.
func PickLight(rng *vf.RNG) *Key {
	if rng.Chance(4) {
		return PickKind(rng, ECDSAP224)
	}
	return PickKind(rng, Kind(1+rng.Intn(int(NumKinds)-1)))
}

func PickKind(rng *vf.RNG, kind Kind) *Key { return Pool(kind)[rng.Intn(PoolSize)] }

// PickSet returns n distinct keys of mixed kinds (n <= NumKinds*PoolSize).
func PickSet(rng *vf.RNG, n int) []*Key { return pickSet(rng, n, Pick) }

// PickSetLight is PickSet drawing with PickLight.
func PickSetLight(rng *vf.RNG, n int) []*Key { return pickSet(rng, n, PickLight) }

func pickSet(rng *vf.RNG, n int, pick func(*vf.RNG) *Key) []*Key {
	seen := map[[2]int]bool{}
	out := make([]*Key, 0, n)
	for len(out) < n {
		k := pick(rng)
		id := [2]int{int(k.Kind), k.Index}
		if !seen[id] {
			seen[id] = true
			out = append(out, k)
		}
	}
	return out
}

// Pubs returns a fresh slice of the public keys (safe to hand to code that sorts in place).
func Pubs(keys []*Key) []keypair.PublicKey {
	out := make([]keypair.PublicKey, len(keys))
	for i, k := range keys {
		out[i] = k.Pub
	}
	return out
}

// PubBytes is the canonical serialization of the public key.
func (k *Key) PubBytes() []byte { return keypair.SerializePublicKey(k.Pub) }

// Address is the single-signature account address of the key.
func (k *Key) Address() common.Address { return types.AddressFromPubKey(k.Pub) }

// Sign returns the serialized signature over msg exactly as cmd/utils.Sign produces it.
func (k *Key) Sign(msg []byte) ([]byte, error) {
	s, err := sig.Sign(k.Scheme, k.Pri, msg, nil)
	if err != nil {
		return nil, err
	}
	return sig.Serialize(s)
}

// ---------------------------------------------------------------- signers

// Signer is a single key (len(Keys)==1, M ignored) or an M-of-len(Keys) multi-signature account.
type Signer struct {
	Keys []*Key
	M    int
}

func Single(k *Key) Signer            { return Signer{Keys: []*Key{k}, M: 1} }
func Multi(keys []*Key, m int) Signer { return Signer{Keys: keys, M: m} }

// PickSigner picks a single key (60 %) or an m-of-n account with 2 <= n <= maxN.
func PickSigner(rng *vf.RNG, maxN int) Signer {
	if maxN < 2 || rng.Chance(60) {
		return Single(PickLight(rng))
	}
	n := rng.Range(2, maxN)
	return Multi(PickSetLight(rng, n), rng.Range(1, n))
}

func (s Signer) Address() common.Address {
	if len(s.Keys) == 1 {
		return s.Keys[0].Address()
	}
	a, err := types.AddressFromMultiPubKeys(Pubs(s.Keys), s.M)
	if err != nil {
		panic(err)
	}
	return a
}

// Sig signs hash with M of the keys (a random M-subset) and returns the signature set.
func (s Signer) Sig(hash common.Uint256, rng *vf.RNG) (types.Sig, error) {
	out := types.Sig{PubKeys: Pubs(s.Keys), M: uint16(s.M)}
	idx := []int{0}
	if len(s.Keys) > 1 {
		idx = rng.Perm(len(s.Keys))[:s.M]
	} else {
		out.M = 1
	}
	for _, i := range idx {
		d, err := s.Keys[i].Sign(hash[:])
		if err != nil {
			return out, err
		}
		out.SigData = append(out.SigData, d)
	}
	return out, nil
}

// ---------------------------------------------------------------- payloads

type transferState struct { // same exported field order as native/ont.TransferState
	From  common.Address
	To    common.Address
	Value uint64
}

// TransferCode is the NeoVM native-invoke script of ONT (asset "ont") or ONG ("ong") transfer.
func TransferCode(asset string, from, to common.Address, amount uint64) []byte {
	addr := nutils.OntContractAddress
	if asset == "ong" {
		addr = nutils.OngContractAddress
	}
	code, err := cutils.BuildNativeInvokeCode(addr, 0, "transfer", []interface{}{[]*transferState{{From: from, To: to, Value: amount}}})
	if err != nil {
		panic(err)
	}
	return code
}

// RandomNeoCode is n bytes of opcode soup (never executed by codec monitors).
func RandomNeoCode(rng *vf.RNG, n int) []byte { return rng.Bytes(n) }

func randHeader(rng *vf.RNG, mt *types.MutableTransaction) {
	mt.Nonce = uint32(rng.U64())
	switch rng.Intn(4) {
	case 0:
		mt.GasPrice = 0
	case 1:
		mt.GasPrice = 2500
	default:
		mt.GasPrice = rng.U64() >> uint(rng.Intn(64))
	}
	switch rng.Intn(3) {
	case 0:
		mt.GasLimit = 20000
	default:
		mt.GasLimit = rng.U64() >> uint(rng.Intn(64))
	}
}

func randAddr(rng *vf.RNG) common.Address {
	var a common.Address
	copy(a[:], rng.Bytes(common.ADDR_LEN))
	return a
}

// NewTransfer is an unsigned native ONT/ONG transfer invoke from `from` to a random address.
func NewTransfer(rng *vf.RNG, from common.Address) *types.MutableTransaction {
	asset := "ont"
	if rng.Bool() {
		asset = "ong"
	}
	amount := uint64(rng.Intn(1000)) + 1
	if rng.Chance(20) {
		amount = rng.U64()
	}
	mt := &types.MutableTransaction{TxType: types.InvokeNeo, Payload: &payload.InvokeCode{Code: TransferCode(asset, from, randAddr(rng), amount)}}
	randHeader(rng, mt)
	return mt
}

// NewInvoke is an unsigned invoke transaction with random code; wasm selects tx type InvokeWasm.
func NewInvoke(rng *vf.RNG, wasm bool) *types.MutableTransaction {
	n := rng.Intn(300)
	if rng.Chance(10) {
		n = 0xfd + rng.Intn(1200) // crosses the 3-byte length prefix
	}
	mt := &types.MutableTransaction{TxType: types.InvokeNeo, Payload: &payload.InvokeCode{Code: rng.Bytes(n)}}
	if wasm {
		mt.TxType = types.InvokeWasm
	}
	randHeader(rng, mt)
	return mt
}

func randStr(rng *vf.RNG, max int) string {
	n := rng.Intn(max + 1)
	if rng.Chance(30) {
		return ""
	}
	b := rng.Bytes(n)
	if rng.Chance(70) {
		for i := range b {
			b[i] = 'a' + b[i]%26
		}
	}
	return string(b)
}

// NewDeploy is an unsigned deploy transaction; vmFlags must be 0, 1 (NeoVM) or 3 (Wasm).
func NewDeploy(rng *vf.RNG, vmFlags byte) *types.MutableTransaction {
	n := 1 + rng.Intn(400)
	desc := randStr(rng, 60)
	if rng.Chance(8) {
		desc = string(rng.Bytes(0xfd + rng.Intn(600)))
	}
	dc, err := payload.NewDeployCode(rng.Bytes(n), payload.VmType(vmFlags), randStr(rng, 30), randStr(rng, 8), randStr(rng, 20), randStr(rng, 30), desc)
	if err != nil {
		panic(err)
	}
	mt := &types.MutableTransaction{TxType: types.Deploy, Payload: dc}
	randHeader(rng, mt)
	return mt
}

// Finish sets mt.Payer to payer's address, signs the transaction hash with payer and every
// signer of others (each becomes one signature set) and returns the immutable transaction.
func Finish(mt *types.MutableTransaction, payer Signer, others []Signer, rng *vf.RNG) (*types.Transaction, error) {
	mt.Payer = payer.Address()
	mt.Sigs = nil
	h := mt.Hash()
	if h == common.UINT256_EMPTY {
		return nil, fmt.Errorf("txgen: unsigned transaction does not serialize")
	}
	for _, s := range append([]Signer{payer}, others...) {
		sg, err := s.Sig(h, rng)
		if err != nil {
			return nil, err
		}
		mt.Sigs = append(mt.Sigs, sg)
	}
	return mt.IntoImmutable()
}

// ---------------------------------------------------------------- EIP-155

type EIPOpts struct {
	Nonce     *uint64  // default: random < 2^32
	GasPrice  *big.Int // in wei; default: random multiple of GWei
	Create    bool     // contract creation (no recipient)
	DataLen   int      // -1: random
	Homestead bool     // sign unprotected (v = 27/28) instead of EIP-155
}

// NewEIP155 builds and signs a legacy Ethereum transaction with key (kind EthSecp256k1).
func NewEIP155(rng *vf.RNG, chainID uint64, key *Key, o EIPOpts) (*ethtypes.Transaction, error) {
	if key.Eth == nil {
		return nil, fmt.Errorf("txgen: EIP-155 needs an eth-secp256k1 key")
	}
	nonce := rng.U64() & 0xffffffff
	if rng.Chance(50) {
		nonce = uint64(rng.Intn(300))
	}
	if o.Nonce != nil {
		nonce = *o.Nonce
	}
	price := new(big.Int).Mul(new(big.Int).SetUint64(uint64(rng.Intn(5000))), big.NewInt(constants.GWei))
	if rng.Chance(15) {
		price = new(big.Int).Mul(new(big.Int).SetUint64(rng.U64()/constants.GWei), big.NewInt(constants.GWei))
	}
	if o.GasPrice != nil {
		price = o.GasPrice
	}
	gas := uint64(21000 + rng.Intn(1000000))
	if rng.Chance(15) {
		gas = rng.U64() >> uint(rng.Intn(64))
	}
	value := new(big.Int).SetBytes(rng.Bytes(rng.Intn(13)))
	n := o.DataLen
	if n < 0 {
		n = 0
		if rng.Chance(60) {
			n = rng.Intn(120)
		}
	}
	data := rng.Bytes(n)
	var tx *ethtypes.Transaction
	if o.Create {
		tx = ethtypes.NewContractCreation(nonce, value, gas, price, data)
	} else {
		tx = ethtypes.NewTransaction(nonce, ethcomm.BytesToAddress(rng.Bytes(20)), value, gas, price, data)
	}
	var signer ethtypes.Signer = ethtypes.NewEIP155Signer(new(big.Int).SetUint64(chainID))
	if o.Homestead {
		signer = ethtypes.HomesteadSigner{}
	}
	return ethtypes.SignTx(tx, signer, key.Eth)
}

// ---------------------------------------------------------------- mixed valid transactions

// Desc describes what Random built.
type Desc struct {
	Shape  string   // transfer | invoke-neo | invoke-wasm | deploy-neo0 | deploy-neo1 | deploy-wasm | eip155-call | eip155-create
	Payer  Signer   // for eip155: Single(eth key)
	Others []Signer // extra signature sets (Ontology format only)
}

// Random returns a valid signed transaction of a random shape.
func Random(rng *vf.RNG, chainID uint64) (*types.Transaction, Desc, error) {
	return Shaped(rng, chainID, rng.Intn(NumShapes))
}

const NumShapes = 8

// Shaped builds shape number `shape` (0..NumShapes-1) of the list in Desc.Shape.
func Shaped(rng *vf.RNG, chainID uint64, shape int) (*types.Transaction, Desc, error) {
	var d Desc
	if shape >= 6 {
		k := PickKind(rng, EthSecp256k1)
		d.Payer = Single(k)
		d.Shape = "eip155-call"
		o := EIPOpts{DataLen: -1}
		if shape == 7 {
			d.Shape, o.Create = "eip155-create", true
		}
		etx, err := NewEIP155(rng, chainID, k, o)
		if err != nil {
			return nil, d, err
		}
		tx, err := types.TransactionFromEIP155(etx)
		return tx, d, err
	}
	d.Payer = PickSigner(rng, 5)
	if rng.Chance(4) {
		n := rng.Range(6, constants.MULTI_SIG_MAX_PUBKEY_SIZE)
		d.Payer = Multi(PickSetLight(rng, n), rng.Range(1, n))
	}
	for rng.Chance(25) && len(d.Others) < 3 {
		d.Others = append(d.Others, PickSigner(rng, 4))
	}
	var mt *types.MutableTransaction
	switch shape {
	case 0:
		d.Shape, mt = "transfer", NewTransfer(rng, d.Payer.Address())
	case 1:
		d.Shape, mt = "invoke-neo", NewInvoke(rng, false)
	case 2:
		d.Shape, mt = "invoke-wasm", NewInvoke(rng, true)
	case 3:
		d.Shape, mt = "deploy-neo0", NewDeploy(rng, 0)
	case 4:
		d.Shape, mt = "deploy-neo1", NewDeploy(rng, 1)
	default:
		d.Shape, mt = "deploy-wasm", NewDeploy(rng, 3)
	}
	tx, err := Finish(mt, d.Payer, d.Others, rng)
	return tx, d, err
}
