// Package vf is the shared plumbing of every property monitor: seeded PRNG,
// evidence accounting, replay files, known-findings matching and verdict exit codes.
package vf

import (
	"encoding/hex"
	"encoding/json"
	"fmt"
	"os"
	"path/filepath"
	"sort"
	"strconv"
	"strings"
	"sync"
	"time"
)

// ---------------------------------------------------------------- environment

func VerifDir() string {
	if d := os.Getenv("VERIF_DIR"); d != "" {
		return d
	}
	return "/verif"
}

func Seed() uint64 {
	if s := os.Getenv("VERIF_SEED"); s != "" {
		if v, err := strconv.ParseUint(s, 10, 64); err == nil {
			return v
		}
		if v, err := strconv.ParseInt(s, 10, 64); err == nil {
			return uint64(v)
		}
	}
	return 20260921
}

func Tier() string {
	if os.Getenv("VERIF_TIER") == "thorough" {
		return "thorough"
	}
	return "quick"
}

func Thorough() bool { return Tier() == "thorough" }

// N picks the case count for the tier.
func N(quick, thorough int) int {
	if Thorough() {
		return thorough
	}
	return quick
}

// Scratch returns a fresh scratch directory outside /repo, /verif and /tmp
// (tmpfs /dev/shm when available, else /var/tmp; override with VERIF_SCRATCH).
func Scratch(tag string) string {
	base := os.Getenv("VERIF_SCRATCH")
	if base == "" {
		base = "/var/tmp"
		if st, err := os.Stat("/dev/shm"); err == nil && st.IsDir() {
			if f, err := os.CreateTemp("/dev/shm", "verif-probe-"); err == nil {
				f.Close()
				os.Remove(f.Name())
				base = "/dev/shm" // tmpfs: no fsync cost; process-death semantics are unaffected
			}
		}
	}
	d, err := os.MkdirTemp(base, "verif-"+tag+"-")
	if err != nil {
		panic(err)
	}
	return d
}

// ---------------------------------------------------------------- PRNG (splitmix64)

type RNG struct{ s uint64 }

func NewRNG(seed uint64) *RNG { return &RNG{s: seed} }

// Sub derives an independent stream, so that case i is a pure function of (seed, i).
func (r *RNG) Sub(i uint64) *RNG { return &RNG{s: mix(r.s ^ mix(i+0x9e3779b97f4a7c15))} }

func mix(z uint64) uint64 {
	z = (z ^ (z >> 30)) * 0xbf58476d1ce4e5b9
	z = (z ^ (z >> 27)) * 0x94d049bb133111eb
	return z ^ (z >> 31)
}

func (r *RNG) U64() uint64 {
	r.s += 0x9e3779b97f4a7c15
	return mix(r.s)
}
func (r *RNG) Intn(n int) int {
	if n <= 0 {
		return 0
	}
	return int(r.U64() % uint64(n))
}
func (r *RNG) Range(lo, hi int) int { return lo + r.Intn(hi-lo+1) } // inclusive
func (r *RNG) Bool() bool           { return r.U64()&1 == 1 }
func (r *RNG) Chance(pct int) bool  { return r.Intn(100) < pct }
func (r *RNG) Bytes(n int) []byte {
	b := make([]byte, n)
	for i := 0; i < n; i += 8 {
		v := r.U64()
		for j := 0; j < 8 && i+j < n; j++ {
			b[i+j] = byte(v >> (8 * uint(j)))
		}
	}
	return b
}
func (r *RNG) Read(p []byte) (int, error) { copy(p, r.Bytes(len(p))); return len(p), nil }
func (r *RNG) Perm(n int) []int {
	p := make([]int, n)
	for i := range p {
		p[i] = i
	}
	for i := n - 1; i > 0; i-- {
		j := r.Intn(i + 1)
		p[i], p[j] = p[j], p[i]
	}
	return p
}

// ---------------------------------------------------------------- run / evidence

type Finding struct {
	Property string `json:"property"`
	Key      string `json:"key"`  // structural fingerprint of the witness
	What     string `json:"what"` // human description
	Status   string `json:"status,omitempty"`
}

type knownFile struct {
	Known []Finding `json:"known"`
	Fixed []string  `json:"fixed"`
}

type Run struct {
	ID    string
	Level string
	Rule  string

	mu          sync.Mutex
	start       time.Time
	evals       int64
	distinct    map[string]struct{}
	counters    map[string]int64
	samples     []interface{}
	maxSamples  int
	violations  int
	knownHits   map[string]int
	replayN     int
	incon       []string
	assumptions []string
	extra       map[string]interface{}
	known       []Finding
	reported    map[string]bool
	maxReports  int
}

func NewRun(id, level, rule string) *Run {
	r := &Run{ID: id, Level: level, Rule: rule, start: time.Now(),
		distinct: map[string]struct{}{}, counters: map[string]int64{}, maxSamples: 5,
		knownHits: map[string]int{}, extra: map[string]interface{}{}, reported: map[string]bool{}, maxReports: 10}
	var kf knownFile
	home := os.Getenv("VERIF_HOME")
	if home == "" {
		home = VerifDir()
	}
	if b, err := os.ReadFile(filepath.Join(home, "known_findings.json")); err == nil {
		if err := json.Unmarshal(b, &kf); err != nil {
			fmt.Fprintf(os.Stderr, "known_findings.json unreadable: %v\n", err)
			os.Exit(3)
		}
	}
	for _, f := range kf.Known {
		if f.Property == id {
			r.known = append(r.known, f)
		}
	}
	// evidence is rewritten by every run: remove the stale file first
	os.MkdirAll(filepath.Join(VerifDir(), "evidence"), 0o755)
	os.Remove(r.evidencePath())
	return r
}

func (r *Run) evidencePath() string {
	return filepath.Join(VerifDir(), "evidence", r.ID+".json")
}

// Eval counts one evaluated case; fp is its distinctness fingerprint ("" = trivial case).
func (r *Run) Eval(fp string) {
	r.mu.Lock()
	r.evals++
	if fp != "" {
		if len(r.distinct) < 2_000_000 {
			r.distinct[fp] = struct{}{}
		}
	}
	r.mu.Unlock()
}

func (r *Run) Evals(n int) { r.mu.Lock(); r.evals += int64(n); r.mu.Unlock() }

func (r *Run) Count(name string) { r.Add(name, 1) }
func (r *Run) Add(name string, n int64) {
	r.mu.Lock()
	r.counters[name] += n
	r.mu.Unlock()
}
func (r *Run) Counter(name string) int64 { r.mu.Lock(); defer r.mu.Unlock(); return r.counters[name] }

func (r *Run) Sample(v interface{}) {
	r.mu.Lock()
	if len(r.samples) < r.maxSamples {
		r.samples = append(r.samples, v)
	}
	r.mu.Unlock()
}
func (r *Run) Assume(s string) { r.mu.Lock(); r.assumptions = append(r.assumptions, s); r.mu.Unlock() }
func (r *Run) Extra(k string, v interface{}) {
	if k == "exhaustive" { // the evidence schema wants a boolean here; descriptions go to exhaustive_scope
		if _, ok := v.(bool); !ok {
			k = "exhaustive_scope"
		}
	}
	r.mu.Lock()
	r.extra[k] = v
	r.mu.Unlock()
}
func (r *Run) Inconclusive(why string) { r.mu.Lock(); r.incon = append(r.incon, why); r.mu.Unlock() }
func (r *Run) Violations() int         { r.mu.Lock(); defer r.mu.Unlock(); return r.violations }

// Require marks the run inconclusive when an oracle branch was never observed.
func (r *Run) Require(counter string, min int64) {
	if r.Counter(counter) < min {
		r.Inconclusive(fmt.Sprintf("counter %s=%d < required %d", counter, r.Counter(counter), min))
	}
}

// Violation records a witness.  key is a structural fingerprint: when it matches (prefix
// match on the listed key) an entry of known_findings.json for this property it is
// reported as KNOWN-FINDING, otherwise as VIOLATION.  Returns true when it is new.
func (r *Run) Violation(key, what string, witness interface{}) bool {
	r.mu.Lock()
	defer r.mu.Unlock()
	for _, f := range r.known {
		if f.Key == key || (strings.HasSuffix(f.Key, "*") && strings.HasPrefix(key, strings.TrimSuffix(f.Key, "*"))) {
			r.knownHits[f.Key]++
			if r.knownHits[f.Key] == 1 {
				fmt.Printf("KNOWN-FINDING: property=%s %s [key=%s]\n", r.ID, f.What, f.Key)
			}
			return false
		}
	}
	r.violations++
	if r.reported[key] || len(r.reported) >= r.maxReports {
		return true
	}
	r.reported[key] = true
	r.replayN++
	dir := filepath.Join(VerifDir(), "replays", r.ID)
	os.MkdirAll(dir, 0o755)
	path := filepath.Join(dir, fmt.Sprintf("%d-%s-%d.json", Seed(), Tier(), r.replayN))
	b, _ := json.MarshalIndent(map[string]interface{}{"property": r.ID, "key": key, "what": what, "seed": Seed(), "tier": Tier(), "witness": witness}, "", " ")
	os.WriteFile(path, b, 0o644)
	fmt.Printf("VIOLATION property=%s replay=%s\n", r.ID, path)
	fmt.Printf("  key=%s what=%s\n", key, what)
	return true
}

// Finish writes the evidence file and exits: 0 held, 1 violation, 2 inconclusive.
func (r *Run) Finish() {
	code := r.FinishNoExit()
	os.Exit(code)
}

func (r *Run) FinishNoExit() int {
	r.mu.Lock()
	defer r.mu.Unlock()
	cov := map[string]interface{}{
		"evaluations":         r.evals,
		"distinct_nontrivial": len(r.distinct),
		"rule":                r.Rule,
		"samples":             r.samples,
		"observed":            r.counters,
	}
	if len(r.samples) == 0 {
		cov["samples"] = []interface{}{}
	}
	for k, v := range r.extra {
		cov[k] = v
	}
	if len(r.incon) > 0 {
		cov["inconclusive"] = r.incon
	}
	if len(r.knownHits) > 0 {
		cov["known_findings_hit"] = r.knownHits
	}
	ev := map[string]interface{}{
		"property_id": r.ID, "tier": Tier(), "seed": int64(Seed() & 0x7fffffffffffffff), "level": r.Level,
		"coverage": cov, "assumptions": r.assumptions, "wall_s": time.Since(r.start).Seconds(),
		"violations": r.violations,
	}
	if r.assumptions == nil {
		ev["assumptions"] = []string{}
	}
	b, _ := json.MarshalIndent(ev, "", " ")
	if err := os.WriteFile(r.evidencePath(), b, 0o644); err != nil {
		fmt.Fprintf(os.Stderr, "cannot write evidence: %v\n", err)
		return 3
	}
	keys := make([]string, 0, len(r.counters))
	for k := range r.counters {
		keys = append(keys, k)
	}
	sort.Strings(keys)
	var sb strings.Builder
	for _, k := range keys {
		fmt.Fprintf(&sb, " %s=%d", k, r.counters[k])
	}
	fmt.Printf("%s %s seed=%d: evaluations=%d distinct=%d violations=%d wall=%.1fs\n  observed:%s\n",
		r.ID, Tier(), Seed(), r.evals, len(r.distinct), r.violations, time.Since(r.start).Seconds(), sb.String())
	for _, f := range r.known {
		if r.knownHits[f.Key] == 0 {
			fmt.Printf("KNOWN-FINDING: property=%s %s [key=%s] (listed; not reproduced by the cases of this run)\n", r.ID, f.What, f.Key)
		}
	}
	if r.violations > 0 {
		return 1
	}
	if len(r.incon) > 0 || r.evals == 0 || len(r.distinct) < 2 {
		fmt.Printf("INCONCLUSIVE property=%s: %v (evals=%d distinct=%d)\n", r.ID, r.incon, r.evals, len(r.distinct))
		return 2
	}
	return 0
}

// ---------------------------------------------------------------- helpers

func Hex(b []byte) string { return hex.EncodeToString(b) }

// HexTrunc renders long byte strings compactly for samples.
func HexTrunc(b []byte, n int) string {
	if len(b) <= n {
		return hex.EncodeToString(b)
	}
	return hex.EncodeToString(b[:n]) + fmt.Sprintf("…(%d bytes)", len(b))
}

// Catch runs f and converts a panic into an error string (for decoders that must not panic).
func Catch(f func()) (panicked interface{}) {
	defer func() {
		if e := recover(); e != nil {
			panicked = e
		}
	}()
	f()
	return nil
}

// Parallel runs fn(i) for i in [0,n) on w workers.
func Parallel(n, w int, fn func(i int)) {
	if w < 1 {
		w = 1
	}
	var wg sync.WaitGroup
	ch := make(chan int, w)
	for k := 0; k < w; k++ {
		wg.Add(1)
		go func() {
			defer wg.Done()
			for i := range ch {
				fn(i)
			}
		}()
	}
	for i := 0; i < n; i++ {
		ch <- i
	}
	close(ch)
	wg.Wait()
}
