package main

import (
	"fmt"

	"github.com/ontio/ontology/core/types"
	"verifharness/lib/chain"
	"verifharness/lib/vf"
)

// Big blocks: the write batches of a block commit (block store: one entry per transaction;
// event store: one notify per transaction; state store: one entry per touched key) must stay
// atomic for blocks of any size.  Some of the blocks that are committed under crash-point
// snapshots therefore carry 63..300 cheap transactions.
type bigSpec struct {
	kind string // transfers | kvputs | multiput | mixed
	n    int    // transactions (multiput: storage puts, spread over 3 transactions)
}

// bigSpecs is the list of big blocks of a run: quick covers one size of every class up to 140 transactions
// (every snapshot directory is copied and reopened several times, so the ~300-transaction blocks are left to the
// thorough tier, which also adds the boundary sizes around 64 and 128 and a few random sizes next to them).
func bigSpecs(rng *vf.RNG) []bigSpec {
	sp := []bigSpec{
		{"transfers", rng.Range(66, 100)},
		{"transfers", rng.Range(130, 140)},
		{"kvputs", rng.Range(66, 100)},
		{"multiput", rng.Range(130, 140)},
	}
	if vf.Thorough() {
		sp = append(sp, bigSpec{"mixed", rng.Range(290, 310)})
		for _, n := range []int{63, 64, 65, 127, 128, 129} {
			sp = append(sp, bigSpec{"transfers", n}, bigSpec{"kvputs", n})
		}
		sp = append(sp,
			bigSpec{"kvputs", rng.Range(130, 140)},
			bigSpec{"multiput", rng.Range(66, 100)},
			bigSpec{"multiput", rng.Range(56, 66)},
			bigSpec{"multiput", rng.Range(120, 130)},
			bigSpec{"transfers", rng.Range(56, 62)},
			bigSpec{"transfers", rng.Range(120, 126)},
			bigSpec{"mixed", rng.Range(250, 262)},
			bigSpec{"kvputs", rng.Range(290, 310)},
		)
	}
	return sp
}

// bigPlan places the big blocks of history hi (of nHist) at distinct heights 3..L; it is a pure function of its
// arguments so that the SIGKILL children rebuild the very same chain.
func bigPlan(runSeed uint64, hi, nHist, L int) map[uint32]bigSpec {
	rng := vf.NewRNG(runSeed)
	specs := bigSpecs(rng.Sub(0xb16))
	perm := rng.Sub(0xb17 + uint64(hi)).Perm(L - 2)
	plan := map[uint32]bigSpec{}
	k := 0
	for j, sp := range specs {
		if j%nHist == hi {
			plan[uint32(3+perm[k])] = sp
			k++
		}
	}
	return plan
}

// bigTxs builds the transactions of one big block: ONT/ONG transfers between the world's accounts and/or
// storage puts of distinct keys into the KV contract, all with distinct nonces and gas price 0.
func bigTxs(w *chain.World, rng *vf.RNG, sp bigSpec, height uint32) []*types.Transaction {
	var txs []*types.Transaction
	transfer := func(j int) {
		from := w.Accts[rng.Intn(len(w.Accts))]
		to := w.Accts[rng.Intn(len(w.Accts))]
		asset := "ont"
		if j%2 == 1 {
			asset = "ong"
		}
		t, err := w.TB.TransferTx(asset, from, to.Address, uint64(1+rng.Intn(20)), 0, 20000)
		if err != nil {
			panic(err)
		}
		txs = append(txs, t)
	}
	put := func(keys int, first int) {
		a := chain.NewAsm()
		for k := 0; k < keys; k++ {
			key := []byte(fmt.Sprintf("big/%d/%d", height, first+k))
			val := append([]byte{byte(1 + rng.Intn(250))}, rng.Bytes(rng.Intn(8))...)
			a.Push(val).Push(key).PushBool(true).AppCall(w.KV)
		}
		mt := w.TB.Invoke(0, 20000+uint64(keys)*20000, a.Bytes())
		if err := chain.Sign(mt, w.Accts[rng.Intn(len(w.Accts))]); err != nil {
			panic(err)
		}
		txs = append(txs, chain.Immutable(mt))
	}
	switch sp.kind {
	case "transfers":
		for j := 0; j < sp.n; j++ {
			transfer(j)
		}
	case "kvputs":
		for j := 0; j < sp.n; j++ {
			put(1, j)
		}
	case "multiput":
		a, b := sp.n/3, sp.n/3
		put(a, 0)
		put(b, a)
		put(sp.n-a-b, a+b)
	default: // mixed
		for j := 0; j < sp.n; j++ {
			if rng.Chance(50) {
				transfer(j)
			} else {
				put(1, j)
			}
		}
	}
	return txs
}

// txClass names the size class of a block by its transaction count (boundary sizes get their own class).
func txClass(n int) string {
	switch {
	case n == 63 || n == 64 || n == 65 || n == 127 || n == 128 || n == 129:
		return fmt.Sprintf("tx=%d", n)
	case n < 63:
		return "tx<63"
	case n <= 128:
		return "tx66..126"
	case n <= 256:
		return "tx130..256"
	}
	return "tx>256"
}

// countBig records one checked crash point of a big block under its size classes.
func countBig(r *vf.Run, sp bigSpec, nTx, stateWrites int) {
	r.Count("big_block_crash_points_checked/" + sp.kind + "/" + txClass(nTx))
	if nTx > 64 {
		r.Count("big_block_crash_points_checked/tx>64")
	}
	if nTx > 128 {
		r.Count("big_block_crash_points_checked/tx>128")
	}
	if nTx > 256 {
		r.Count("big_block_crash_points_checked/tx>256")
	}
	if stateWrites > 64 {
		r.Count("big_block_crash_points_checked/state_writes>64")
	}
	if stateWrites > 128 {
		r.Count("big_block_crash_points_checked/state_writes>128")
	}
	if nTx <= 8 && stateWrites > 128 {
		r.Count("big_block_crash_points_checked/few_txs_state_writes>128")
	}
	if nTx <= 8 && stateWrites > 64 {
		r.Count("big_block_crash_points_checked/few_txs_state_writes>64")
	}
}
