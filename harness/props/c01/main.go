// C01 — Ledger recovers to a state identical to an uncrashed run.
// Fault enumeration: every crash point of the commit sequence (verif hook), at every
// block of a generated chain, is turned into an on-disk snapshot (what a SIGKILL leaves),
// reopened with the production InitLedger path and compared with an uncrashed reference.
package main

import (
	"encoding/json"
	"fmt"
	"os"
	"os/exec"
	"path/filepath"
	"strconv"
	"syscall"

	"github.com/ontio/ontology/core/store"
	"github.com/ontio/ontology/core/store/ledgerstore"
	"github.com/ontio/ontology/core/types"
	"verifharness/lib/chain"
	"verifharness/lib/vf"
)

type refPoint struct {
	fp       chain.Fingerprint
	events   string
	proofs   string
	execHash string
	execRoot string
	merkleSz int64
}

type history struct {
	tag    string
	seed   uint64
	L      int
	blocks []*types.Block // index = height (0 unused)
	ref    []refPoint     // index = height
	big    map[uint32]bigSpec
	writes []int // index = height: entries of the block's state write set
}

type snap struct {
	point  string
	height uint32 // block being committed (or replayed) when the crash point fired
	dir    string
	nested bool
}

const maxTx = 6

// buildChain commits the deterministic chain of (tag, seed, big) into dir.  onBlock is called
// after each commit with the ledger still open.
func buildChain(tag string, seed uint64, L int, big map[uint32]bigSpec, dir string, onBlock func(c *chain.Chain, h uint32, b *types.Block, res store.ExecuteResult)) (*chain.Chain, error) {
	w := chain.NewWorld(tag, 5)
	c, err := chain.NewSolo(dir, w.BK)
	if err != nil {
		return nil, err
	}
	rng := vf.NewRNG(seed)
	if onBlock != nil {
		onBlock(c, 0, nil, store.ExecuteResult{})
	}
	for h := uint32(1); h <= uint32(L); h++ {
		var txs []*types.Transaction
		if h == 1 {
			txs = w.FundingTxs()
		} else if sp, ok := big[h]; ok {
			txs = bigTxs(w, rng.Sub(uint64(h)+0xb18), sp, h)
		} else {
			txs, _ = w.RandomTxs(rng.Sub(uint64(h)), maxTx)
		}
		b, err := c.MakeBlock(txs, 0)
		if err != nil {
			return c, fmt.Errorf("make block %d: %v", h, err)
		}
		res, err := c.Ledger.ExecuteBlock(b)
		if err != nil {
			return c, fmt.Errorf("execute block %d: %v", h, err)
		}
		if h%2 == 0 {
			if err := c.CommitSync(b, res.MerkleRoot); err != nil {
				return c, fmt.Errorf("AddBlock %d: %v", h, err)
			}
		} else {
			if err := c.Ledger.SubmitBlock(b, nil, res); err != nil {
				return c, fmt.Errorf("SubmitBlock %d: %v", h, err)
			}
		}
		if onBlock != nil {
			onBlock(c, h, b, res)
		}
	}
	return c, nil
}

func eventsOf(c *chain.Chain, h uint32) string {
	ev, err := c.Ledger.GetEventNotifyByBlock(h)
	if err != nil {
		return "err:" + err.Error()
	}
	b, _ := json.Marshal(ev)
	return string(b)
}

func proofsOf(c *chain.Chain, h uint32) string {
	out := ""
	for _, m := range []uint32{0, h / 2, h} {
		p, err := c.Ledger.GetMerkleProof(m, h)
		if err != nil {
			out += fmt.Sprintf("[%d:err:%v]", m, err)
			continue
		}
		out += fmt.Sprintf("[%d:", m)
		for _, x := range p {
			out += x.ToHexString()[:8]
		}
		out += "]"
	}
	return out
}

func merkleSize(dir string) int64 {
	st, err := os.Stat(filepath.Join(dir, ledgerstore.MerkleTreeStorePath))
	if err != nil {
		return -1
	}
	return st.Size()
}

var (
	captureMode  string // "", "ref", "recover"
	captured     []snap
	scratch      string
	snapN        int
	captureDir   string
	killAtFiring int
	firings      int
	firingLog    []snap // every hook firing of the reference run, in order (incl. genesis)
)

func hook(name string, height uint32) {
	if killAtFiring > 0 {
		firings++
		if firings == killAtFiring {
			syscall.Kill(os.Getpid(), syscall.SIGKILL)
			select {}
		}
		return
	}
	if captureMode == "ref" || captureMode == "ref-genesis" {
		firingLog = append(firingLog, snap{point: name, height: height})
	}
	switch captureMode {
	case "ref":
		if len(name) < 7 || name[:7] != "submit:" {
			return
		}
	case "recover":
		if len(name) < 8 || name[:8] != "recover:" {
			return
		}
	default:
		return
	}
	snapN++
	d := filepath.Join(scratch, fmt.Sprintf("snap-%d", snapN))
	if err := chain.CopyDir(captureDir, d); err != nil {
		panic(err)
	}
	captured = append(captured, snap{point: name, height: height, dir: d, nested: captureMode == "recover"})
}

func main() {
	ledgerstore.VerifCrashPoint = hook
	if d := os.Getenv("VERIF_C01_CHILD"); d != "" {
		childKill(d)
		return
	}
	r := vf.NewRun("C01", "fault_enumeration",
		"seeded chains of L blocks (0-6 txs: ONT/ONG transfers incl. failing ones, contract storage put/delete, EVM transfers, a deploy; some blocks are BIG: 63..~300 transfers / storage puts of distinct keys, or 3 transactions with 56..140 storage puts, so that the block, event and state write batches exceed 64 / 128 / 256 entries; both commit paths alternate); at every block every crash point of submitBlock (6) yields a directory snapshot; recoveries that replay a block are snapshotted again at the 3 recovery crash points; torn merkle hash-file variants; thorough adds real SIGKILLs in a child process. A case = (crash point, height, variant); non-trivial when the block carries >=1 tx or the crash point leaves stores at different heights; distinct by (history, point, height, variant)")
	scratch = vf.Scratch("c01")
	defer os.RemoveAll(scratch)

	nHist, L := 1, 13
	if vf.Thorough() {
		nHist, L = 5, 36
	}
	rng := vf.NewRNG(vf.Seed())
	for hi := 0; hi < nHist; hi++ {
		runHistory(r, fmt.Sprintf("c01-%d-%d", vf.Seed(), hi), rng.Sub(uint64(hi)).U64(), L, hi, nHist)
	}
	for _, p := range []string{"submit:before-batches", "submit:after-saveBlockToBlockStore", "submit:after-saveBlockToStateStore",
		"submit:after-blockStore.CommitTo", "submit:after-eventStore.CommitTo", "submit:after-stateStore.CommitTo",
		"recover:before-replay", "recover:after-eventStore.CommitTo", "recover:after-stateStore.CommitTo"} {
		r.Require("point/"+p, 5)
	}
	r.Require("recovered_to_old_height", 5)
	r.Require("recovered_to_new_height", 5)
	r.Require("recovery_replayed_block", 5)
	r.Require("torn_merkle_variant", 3)
	r.Require("next_blocks_replayed", 20)
	r.Require("real_sigkill", 6)
	r.Require("big_block_crash_points_checked/tx>64", 12)
	r.Require("big_block_crash_points_checked/tx>128", 6)
	r.Require("big_block_crash_points_checked/state_writes>64", 6)
	r.Require("big_block_crash_points_checked/state_writes>128", 6)
	r.Require("big_block_crash_points_checked/few_txs_state_writes>128", 6)
	if vf.Thorough() {
		r.Require("big_block_crash_points_checked/tx>256", 6)
		for _, n := range []int{63, 64, 65, 127, 128, 129} {
			r.Require(fmt.Sprintf("big_block_crash_points_checked/transfers/tx=%d", n), 6)
			r.Require(fmt.Sprintf("big_block_crash_points_checked/kvputs/tx=%d", n), 6)
		}
	}
	r.Assume("crash = process death: everything already passed to write() survives (page cache), nothing else; power loss / un-fsynced data loss is out of scope")
	r.Assume("LevelDB's own crash-consistency below write() granularity is trusted")
	os.RemoveAll(scratch)
	r.Finish()
}

func runHistory(r *vf.Run, tag string, seed uint64, L int, hi, nHist int) {
	h := &history{tag: tag, seed: seed, L: L, blocks: make([]*types.Block, L+1), ref: make([]refPoint, L+1),
		big: bigPlan(vf.Seed(), hi, nHist, L), writes: make([]int, L+1)}
	refDir := filepath.Join(scratch, tag+"-ref")
	captured = nil
	firingLog = nil
	captureDir = refDir
	captureMode = "ref"
	txCount := make([]int, L+1)
	c, err := buildChain(tag, seed, L, h.big, refDir, func(c *chain.Chain, ht uint32, b *types.Block, res store.ExecuteResult) {
		captureMode = ""
		h.blocks[ht] = b
		if b != nil {
			txCount[ht] = len(b.Transactions)
			h.writes[ht] = res.WriteSet.Len()
		}
		h.ref[ht] = refPoint{fp: c.Fingerprint(), events: eventsOf(c, ht), proofs: proofsOf(c, ht), execHash: res.Hash.ToHexString(), execRoot: res.MerkleRoot.ToHexString(), merkleSz: merkleSize(refDir)}
		captureMode = "ref"
	})
	captureMode = ""
	if err != nil {
		r.Violation("reference-chain-failed", err.Error(), map[string]interface{}{"tag": tag, "seed": seed})
		if c != nil {
			c.Close()
		}
		return
	}
	// height 0 reference
	c.Close()
	snaps := captured
	captured = nil
	r.Sample(map[string]interface{}{"history": tag, "blocks": L, "tx_per_block": txCount[1:], "snapshots": len(snaps)})

	bk := chain.DetAccount(tag + "/bookkeeper")
	for _, s := range snaps {
		if s.height == 0 {
			os.RemoveAll(s.dir)
			continue
		}
		checkRecovery(r, h, bk, s, "plain", true)
	}
	// --- real SIGKILL variant: a child process commits the same deterministic chain and kills
	// itself at the k-th crash-point firing; the very directory it leaves is recovered here.
	log := firingLog
	nKill := 8
	if vf.Thorough() {
		nKill = 32
	}
	krng := vf.NewRNG(seed ^ 0xdead)
	self, _ := os.Executable()
	type kill struct {
		k   int
		f   snap
		dir string
		out []byte
		err error
		ws  syscall.WaitStatus
	}
	var kills []*kill
	for i := 0; i < nKill; i++ {
		k := 1 + krng.Intn(len(log))
		f := log[k-1]
		if f.height == 0 {
			i--
			continue
		}
		kills = append(kills, &kill{k: k, f: f, dir: filepath.Join(scratch, fmt.Sprintf("kill-%s-%d-%d", tag, k, i))})
	}
	// the children are independent OS processes with their own directories: run them 8 at a time; the
	// directories they leave are recovered one after the other (the crash-point hook is process-global)
	vf.Parallel(len(kills), 8, func(i int) {
		kl := kills[i]
		os.RemoveAll(kl.dir)
		cmd := exec.Command(self)
		cmd.Env = append(os.Environ(), "VERIF_C01_CHILD="+kl.dir, "VERIF_C01_KILL="+strconv.Itoa(kl.k), "VERIF_C01_L="+strconv.Itoa(L),
			"VERIF_C01_SEED="+strconv.FormatUint(seed, 10), "VERIF_C01_TAG="+tag,
			"VERIF_C01_HI="+strconv.Itoa(hi), "VERIF_C01_NHIST="+strconv.Itoa(nHist))
		kl.out, kl.err = cmd.CombinedOutput()
		if cmd.ProcessState != nil {
			kl.ws, _ = cmd.ProcessState.Sys().(syscall.WaitStatus)
		}
	})
	for _, kl := range kills {
		if kl.err == nil || !kl.ws.Signaled() || kl.ws.Signal() != syscall.SIGKILL {
			r.Inconclusive(fmt.Sprintf("sigkill child k=%d did not die by SIGKILL: err=%v out=%s", kl.k, kl.err, string(kl.out)))
			os.RemoveAll(kl.dir)
			continue
		}
		r.Count("real_sigkill")
		checkRecovery(r, h, bk, snap{point: kl.f.point, height: kl.f.height, dir: kl.dir}, "sigkill", false)
	}
}

// checkRecovery reopens the snapshot and compares it with the reference.
func checkRecovery(r *vf.Run, h *history, bk interface{}, s snap, variant string, allowVariants bool) {
	defer os.RemoveAll(s.dir)
	id := map[string]interface{}{"history": h.tag, "seed": h.seed, "L": h.L, "point": s.point, "height": s.height, "variant": variant}
	r.Count("point/" + s.point)
	if sp, ok := h.big[s.height]; ok {
		countBig(r, sp, len(h.blocks[s.height].Transactions), h.writes[s.height])
		id["txs"], id["state_writes"] = len(h.blocks[s.height].Transactions), h.writes[s.height]
	}
	nontrivial := len(h.blocks[s.height].Transactions) > 0
	fp := ""
	if nontrivial {
		fp = fmt.Sprintf("%s/%s/%d/%s", h.tag, s.point, s.height, variant)
	}
	r.Eval(fp)

	// torn merkle hash-file variants of this snapshot (made before we touch it)
	if allowVariants && !s.nested && (s.point == "submit:after-saveBlockToStateStore" || s.point == "submit:after-blockStore.CommitTo" || s.point == "submit:after-eventStore.CommitTo") {
		committed := h.ref[s.height-1].merkleSz
		cur := merkleSize(s.dir)
		if s.height >= 1 && committed >= 0 && cur > committed {
			cuts := []int64{}
			for sz := committed; sz < cur; sz += 32 {
				cuts = append(cuts, sz)
			}
			cuts = append(cuts, committed+17) // mid-hash
			for _, cut := range cuts {
				if cut >= cur {
					continue
				}
				d := fmt.Sprintf("%s-torn%d", s.dir, cut)
				if err := chain.CopyDir(s.dir, d); err != nil {
					panic(err)
				}
				if err := os.Truncate(filepath.Join(d, ledgerstore.MerkleTreeStorePath), cut); err != nil {
					panic(err)
				}
				r.Count("torn_merkle_variant")
				checkRecovery(r, h, bk, snap{point: s.point, height: s.height, dir: d}, fmt.Sprintf("torn@%d(of %d..%d)", cut, committed, cur), false)
			}
		}
	}

	// --- first reopen (recovery runs here); capture crash points inside recovery
	w := chain.NewWorld(h.tag, 5)
	captured = nil
	captureDir = s.dir
	if !s.nested && allowVariants {
		captureMode = "recover"
	}
	c, err := chain.NewSolo(s.dir, w.BK)
	captureMode = ""
	nestedSnaps := captured
	captured = nil
	if err != nil {
		r.Violation("reopen-fails:"+s.point+":"+vclass(variant), err.Error(), id)
		for _, n := range nestedSnaps {
			os.RemoveAll(n.dir)
		}
		return
	}
	if len(nestedSnaps) > 0 {
		r.Count("recovery_replayed_block")
	}
	height := c.Ledger.GetCurrentBlockHeight()
	id["recovered_height"] = height
	switch height {
	case s.height - 1:
		r.Count("recovered_to_old_height")
	case s.height:
		r.Count("recovered_to_new_height")
	default:
		r.Violation("height-neither-old-nor-new:"+s.point, fmt.Sprintf("recovered height %d, committing %d", height, s.height), id)
		closeRecovered(r, c, s, variant, id)
		return
	}
	ok := compareWithRef(r, h, c, height, s, variant, id, "after-recovery")
	// --- the recovered node must accept the following blocks exactly like the uncrashed node
	if ok {
		for nh := height + 1; nh <= uint32(h.L) && nh <= height+3; nh++ {
			b := h.blocks[nh]
			res, err := c.Ledger.ExecuteBlock(b)
			if err != nil {
				r.Violation("next-block-execute-fails:"+s.point+":"+vclass(variant), err.Error(), withH(id, nh))
				ok = false
				break
			}
			if res.Hash.ToHexString() != h.ref[nh].execHash || res.MerkleRoot.ToHexString() != h.ref[nh].execRoot {
				r.Violation("next-block-executes-differently:"+s.point+":"+vclass(variant), fmt.Sprintf("height %d change hash %s vs ref %s", nh, res.Hash.ToHexString(), h.ref[nh].execHash), withH(id, nh))
				ok = false
				break
			}
			if nh%2 == 1 {
				err = c.CommitSync(b, res.MerkleRoot)
			} else {
				err = c.Ledger.SubmitBlock(b, nil, res)
			}
			if err != nil {
				r.Violation("next-block-rejected:"+s.point+":"+vclass(variant), err.Error(), withH(id, nh))
				ok = false
				break
			}
			if c.Ledger.GetCurrentBlockHeight() != nh {
				r.Violation("next-block-not-applied:"+s.point+":"+vclass(variant), fmt.Sprintf("height stays %d", c.Ledger.GetCurrentBlockHeight()), withH(id, nh))
				ok = false
				break
			}
			r.Count("next_blocks_replayed")
			if !compareWithRef(r, h, c, nh, s, variant, id, "after-next-block") {
				ok = false
				break
			}
		}
	}
	finalH := c.Ledger.GetCurrentBlockHeight()
	if !closeRecovered(r, c, s, variant, id) {
		ok = false // the directory is still locked by the half-closed ledger
	}
	// --- second reopen must be clean as well
	if ok {
		c2, err := chain.NewSolo(s.dir, w.BK)
		if err != nil {
			r.Violation("second-reopen-fails:"+s.point+":"+vclass(variant), err.Error(), id)
		} else {
			if c2.Ledger.GetCurrentBlockHeight() != finalH {
				r.Violation("second-reopen-height:"+s.point, fmt.Sprintf("%d vs %d", c2.Ledger.GetCurrentBlockHeight(), finalH), id)
			} else {
				compareWithRef(r, h, c2, finalH, s, variant, id, "after-second-reopen")
			}
			r.Count("second_reopen")
			c2.Close()
		}
	}
	// --- crash during recovery, then recover again
	for _, n := range nestedSnaps {
		checkRecovery(r, h, bk, snap{point: n.point, height: s.height, dir: n.dir, nested: true}, "during-recovery-of:"+s.point, false)
	}
}

// closeRecovered closes a ledger that was opened from a crash snapshot: Close must neither fail nor panic.
func closeRecovered(r *vf.Run, c *chain.Chain, s snap, variant string, id map[string]interface{}) bool {
	var err error
	if p := vf.Catch(func() { err = c.Close() }); p != nil {
		r.Violation("close-panics:"+s.point+":"+vclass(variant), fmt.Sprint(p), id)
		return false
	}
	if err != nil {
		r.Violation("close-fails:"+s.point, err.Error(), id)
	}
	return true
}

func vclass(v string) string {
	if len(v) >= 4 && v[:4] == "torn" {
		return "torn-hashfile"
	}
	if len(v) >= 6 && v[:6] == "during" {
		return "nested"
	}
	return v
}

func withH(id map[string]interface{}, nh uint32) map[string]interface{} {
	m := map[string]interface{}{}
	for k, v := range id {
		m[k] = v
	}
	m["next_height"] = nh
	return m
}

func compareWithRef(r *vf.Run, h *history, c *chain.Chain, height uint32, s snap, variant string, id map[string]interface{}, stage string) bool {
	ref := h.ref[height]
	fp := c.Fingerprint()
	if d := ref.fp.Diff(fp); d != "" {
		what := d
		cls := "state"
		switch {
		case len(d) >= 17 && d[:17] == "state merkle root":
			cls = "state-merkle-root"
		case d == "block merkle root":
			cls = "block-merkle-root"
		case len(d) >= 10 && d[:10] == "state dump":
			cls = "state-dump"
		}
		r.Violation(fmt.Sprintf("differs-from-uncrashed:%s:%s:%s:%s", cls, s.point, vclass(variant), stage), what, id)
		return false
	}
	if ev := eventsOf(c, height); ev != ref.events {
		r.Violation(fmt.Sprintf("differs-from-uncrashed:events:%s:%s:%s", s.point, vclass(variant), stage), "event notifies of block differ", id)
		return false
	}
	if pr := proofsOf(c, height); pr != ref.proofs {
		r.Violation(fmt.Sprintf("differs-from-uncrashed:merkle-proof:%s:%s:%s", s.point, vclass(variant), stage), fmt.Sprintf("%s vs ref %s", pr, ref.proofs), id)
		return false
	}
	r.Count("compared_equal/" + stage)
	return true
}

// ---------------------------------------------------------------- real SIGKILL variant

func childKill(dir string) {
	k, _ := strconv.Atoi(os.Getenv("VERIF_C01_KILL"))
	L, _ := strconv.Atoi(os.Getenv("VERIF_C01_L"))
	seed, _ := strconv.ParseUint(os.Getenv("VERIF_C01_SEED"), 10, 64)
	hi, _ := strconv.Atoi(os.Getenv("VERIF_C01_HI"))
	nHist, _ := strconv.Atoi(os.Getenv("VERIF_C01_NHIST"))
	killAtFiring = k
	c, err := buildChain(os.Getenv("VERIF_C01_TAG"), seed, L, bigPlan(vf.Seed(), hi, nHist, L), dir, nil)
	if err != nil {
		fmt.Println("child error:", err)
		os.Exit(7)
	}
	c.Close()
	os.Exit(0)
}
