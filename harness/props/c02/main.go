// C02 — Every node derives the same state from the same blocks.
// Differential monitor, no model: node A is a consensus member (every transaction passes
// the validator first, blocks go through ExecuteBlock+SubmitBlock); node B is a syncing node
// (the sealed block travels as bytes, is decoded and committed with AddBlock); node C is a
// separate OS process (fresh Go map seeds) syncing the same bytes and being restarted.
package main

import (
	"bufio"
	"crypto/sha256"
	"encoding/hex"
	"encoding/json"
	"fmt"
	"os"
	"os/exec"
	"path/filepath"
	"strings"

	"github.com/ontio/ontology-crypto/keypair"
	"github.com/ontio/ontology/common"
	"github.com/ontio/ontology/core/program"
	"github.com/ontio/ontology/core/store"
	"github.com/ontio/ontology/core/types"
	"github.com/ontio/ontology/core/validation"
	ontErrors "github.com/ontio/ontology/errors"
	"github.com/ontio/ontology/smartcontract/service/native/global_params"
	"github.com/ontio/ontology/smartcontract/service/native/ont"
	nutils "github.com/ontio/ontology/smartcontract/service/native/utils"
	"github.com/ontio/ontology/vm/neovm"
	"verifharness/lib/chain"
	"verifharness/lib/txgen"
	"verifharness/lib/vf"
)

// ---------------------------------------------------------------- signer variants

// variant = one way of authorising a transaction: which key(s) and how the verification
// script encodes them.  addr is the account the VALIDATOR derives for it (types.AddressFrom…).
type variant struct {
	name   string
	keys   []*txgen.Key
	m      int
	addr   common.Address
	verify []byte // verification script bytes
	// multi-signature sets that carry MORE signatures than the threshold (the validator accepts that: it
	// checks the first m): surplus = number of signatures after the m required ones; junk = the surplus
	// ones are not valid member signatures over this transaction; payerOther = the fee payer is another,
	// correctly signed account (a second signature set), the variant's account only authorises the spend
	surplus    int
	junk       bool
	payerOther bool
}

// feePayer is the correctly signed single-key account that pays for the payerOther variants.
func feePayer() variant {
	k := txgen.Pool(txgen.ECDSAP256)[8]
	return variant{name: "fee-payer", keys: []*txgen.Key{k}, m: 1, addr: types.AddressFromPubKey(k.Pub), verify: program.ProgramFromPubKey(k.Pub)}
}

func pushData(b []byte, form string) []byte {
	switch form {
	case "pushdata1":
		return append([]byte{byte(neovm.PUSHDATA1), byte(len(b))}, b...)
	case "pushdata2":
		return append([]byte{byte(neovm.PUSHDATA2), byte(len(b)), byte(len(b) >> 8)}, b...)
	default:
		return append([]byte{byte(len(b))}, b...) // PUSHBYTESn
	}
}

func singleScript(keyBytes []byte, form string) []byte {
	return append(pushData(keyBytes, form), byte(neovm.CHECKSIG))
}

func num(n int) []byte {
	if n == 0 {
		return []byte{byte(neovm.PUSH0)}
	}
	return []byte{byte(int(neovm.PUSH1) + n - 1)}
}

func multiScript(keyBytes [][]byte, m int) []byte {
	s := num(m)
	for _, k := range keyBytes {
		s = append(s, pushData(k, "")...)
	}
	s = append(s, num(len(keyBytes))...)
	return append(s, byte(neovm.CHECKMULTISIG))
}

func p256Encodings(k *txgen.Key) map[string][]byte {
	short := keypair.SerializePublicKey(k.Pub) // 33 bytes 02/03|X
	out := map[string][]byte{}
	out["long-form"] = append([]byte{byte(keypair.PK_ECDSA), keypair.P256}, short...)
	out["trailing-byte"] = append(append([]byte{}, short...), 0x00)
	return out
}

func buildVariants() []variant {
	var vs []variant
	kinds := []txgen.Kind{txgen.ECDSAP224, txgen.ECDSAP256, txgen.ECDSAP384, txgen.ECDSAP521, txgen.SM2, txgen.Ed25519, txgen.EthSecp256k1}
	for _, kd := range kinds {
		k := txgen.Pool(kd)[1]
		vs = append(vs, variant{name: "single/" + kd.String() + "/canonical", keys: []*txgen.Key{k}, m: 1, addr: types.AddressFromPubKey(k.Pub), verify: program.ProgramFromPubKey(k.Pub)})
	}
	// alternative accepted encodings of the same P-256 key
	k := txgen.Pool(txgen.ECDSAP256)[2]
	for n, enc := range p256Encodings(k) {
		vs = append(vs, variant{name: "single/ecdsa-p256/" + n, keys: []*txgen.Key{k}, m: 1, addr: types.AddressFromPubKey(k.Pub), verify: singleScript(enc, "")})
	}
	k3 := txgen.Pool(txgen.ECDSAP256)[3]
	vs = append(vs, variant{name: "single/ecdsa-p256/pushdata1", keys: []*txgen.Key{k3}, m: 1, addr: types.AddressFromPubKey(k3.Pub), verify: singleScript(keypair.SerializePublicKey(k3.Pub), "pushdata1")})
	// multi-signature accounts
	ms := []*txgen.Key{txgen.Pool(txgen.ECDSAP256)[4], txgen.Pool(txgen.SM2)[4], txgen.Pool(txgen.Ed25519)[4]}
	maddr, err := types.AddressFromMultiPubKeys(txgen.Pubs(ms), 2)
	if err != nil {
		panic(err)
	}
	canon, _ := program.ProgramFromMultiPubKey(txgen.Pubs(ms), 2)
	vs = append(vs, variant{name: "multi/2of3/canonical", keys: ms, m: 2, addr: maddr, verify: canon})
	// the same account with the keys listed in another (non-sorted) order in the script
	sorted := keypair.SortPublicKeys(txgen.Pubs(ms))
	var rev [][]byte
	for i := len(sorted) - 1; i >= 0; i-- {
		rev = append(rev, keypair.SerializePublicKey(sorted[i]))
	}
	ms2 := []*txgen.Key{txgen.Pool(txgen.ECDSAP256)[5], txgen.Pool(txgen.ECDSAP256)[6], txgen.Pool(txgen.ECDSAP384)[5]}
	maddr2, _ := types.AddressFromMultiPubKeys(txgen.Pubs(ms2), 2)
	sorted2 := keypair.SortPublicKeys(txgen.Pubs(ms2))
	rev = nil
	for i := len(sorted2) - 1; i >= 0; i-- {
		rev = append(rev, keypair.SerializePublicKey(sorted2[i]))
	}
	vs = append(vs, variant{name: "multi/2of3/keys-in-reverse-order", keys: ms2, m: 2, addr: maddr2, verify: multiScript(rev, 2)})
	ms3 := []*txgen.Key{txgen.Pool(txgen.EthSecp256k1)[7], txgen.Pool(txgen.ECDSAP256)[7]}
	if maddr3, err := types.AddressFromMultiPubKeys(txgen.Pubs(ms3), 1); err == nil {
		if canon3, err := program.ProgramFromMultiPubKey(txgen.Pubs(ms3), 1); err == nil {
			vs = append(vs, variant{name: "multi/1of2/with-eth-key/canonical", keys: ms3, m: 1, addr: maddr3, verify: canon3})
		}
	}
	// signature sets with more signatures than the threshold: every base multi-signature account above plus
	// a 2-of-4 one, surplus m+1..n valid member signatures or junk, paid by itself or by another account
	ms4 := []*txgen.Key{txgen.Pool(txgen.ECDSAP256)[9], txgen.Pool(txgen.ECDSAP224)[9], txgen.Pool(txgen.SM2)[9], txgen.Pool(txgen.Ed25519)[9]}
	maddr4, err := types.AddressFromMultiPubKeys(txgen.Pubs(ms4), 2)
	if err != nil {
		panic(err)
	}
	canon4, err := program.ProgramFromMultiPubKey(txgen.Pubs(ms4), 2)
	if err != nil {
		panic(err)
	}
	base := []variant{}
	for _, v := range vs {
		if len(v.keys) > 1 {
			base = append(base, v)
		}
	}
	base = append(base, variant{name: "multi/2of4/canonical", keys: ms4, m: 2, addr: maddr4, verify: canon4})
	for _, b := range base {
		n := len(b.keys)
		for sp := 1; sp <= n-b.m; sp++ {
			for _, other := range []bool{true, false} {
				// the 2-of-3 canonical account gets the full matrix, the others the payer-other column and the largest set
				if !other && !(b.name == "multi/2of3/canonical" || sp == n-b.m) {
					continue
				}
				v := b
				v.surplus, v.payerOther = sp, other
				v.name = fmt.Sprintf("%s/surplus-%d-valid/%s", b.name, sp, payerName(other))
				vs = append(vs, v)
			}
		}
	}
	for bi, b := range base[:2] {
		for _, other := range []bool{true, false} {
			v := b
			v.surplus, v.junk, v.payerOther = 1+bi, true, other // 1+bi = 2 on a 2-of-3 set: more signatures than keys
			v.name = fmt.Sprintf("%s/surplus-%d-junk/%s", b.name, v.surplus, payerName(other))
			vs = append(vs, v)
		}
	}
	return vs
}

func payerName(other bool) string {
	if other {
		return "payer-other"
	}
	return "payer-self"
}

// signedTx assembles transaction bytes with hand-made signature scripts and decodes them.
// Multi-signature sets are signed by a seeded m-subset of the members in seeded order (the validator tries
// every unused key for each of the first m signatures), followed by the variant's surplus signatures.
func signedTx(mt *types.MutableTransaction, signers []variant, rng *vf.RNG) (*types.Transaction, error) {
	mt.Sigs = nil
	tmp, err := mt.IntoImmutable()
	if err != nil {
		return nil, err
	}
	raw := tmp.ToArray()
	unsigned := raw[:len(raw)-1] // drop the "0 signatures" varuint
	h := mt.Hash()
	sink := common.NewZeroCopySink(nil)
	sink.WriteBytes(unsigned)
	sink.WriteVarUint(uint64(len(signers)))
	for _, v := range signers {
		if _, err := program.GetProgramInfo(v.verify); err != nil {
			return nil, fmt.Errorf("verify script of %s does not parse: %v", v.name, err)
		}
		var sigs [][]byte
		order := rng.Perm(len(v.keys))
		for _, ki := range order[:v.m] {
			s, err := v.keys[ki].Sign(h[:])
			if err != nil {
				return nil, err
			}
			sigs = append(sigs, s)
		}
		for x := 0; x < v.surplus; x++ {
			var s []byte
			switch {
			case !v.junk: // a further member's valid signature
				if s, err = v.keys[order[v.m+x]].Sign(h[:]); err != nil {
					return nil, err
				}
			default:
				switch rng.Intn(4) {
				case 0: // the first signature once more
					s = append([]byte{}, sigs[0]...)
				case 1: // bytes that are no signature of anything
					s = rng.Bytes(64 + rng.Intn(2))
				case 2: // a member's signature over another message
					other := sha256.Sum256(h[:])
					if s, err = v.keys[order[0]].Sign(other[:]); err != nil {
						return nil, err
					}
				default: // a valid signature by a key that is not a member
					if s, err = txgen.Pool(txgen.ECDSAP256)[10].Sign(h[:]); err != nil {
						return nil, err
					}
				}
			}
			sigs = append(sigs, s)
		}
		sink.WriteVarBytes(program.ProgramFromParams(sigs))
		sink.WriteVarBytes(v.verify)
	}
	return types.TransactionFromRawBytes(sink.Bytes())
}

// clockCode is a deployable NeoVM contract whose effect is a function of the block being executed:
// block time, ledger height and the hash of the current block go to storage and are notified.
func clockCode() []byte {
	a := chain.NewAsm().Push([]byte{0xc0, 0x02}).Op(neovm.DROP)
	for _, q := range [][2]string{{"System.Runtime.GetTime", "time"}, {"System.Blockchain.GetHeight", "height"}, {"Ontology.Runtime.GetCurrentBlockHash", "hash"}} {
		a.Syscall(q[0]).Push([]byte(q[1])).Syscall("System.Storage.GetContext").Syscall("System.Storage.Put")
		a.Syscall(q[0]).Syscall("System.Runtime.Notify")
	}
	return a.Op(neovm.RET).Bytes()
}

// ---------------------------------------------------------------- child (node C)

type childRec struct {
	Height uint32
	FP     string
	Err    string
}

func fpString(c *chain.Chain) string {
	f := c.Fingerprint()
	ev, _ := c.Ledger.GetEventNotifyByBlock(f.Height)
	eb, _ := json.Marshal(ev)
	return fmt.Sprintf("%d|%s|%s|%s|%s|%x", f.Height, f.BlockHash, f.StateHash, f.StateRoots[len(f.StateRoots)-1], f.BlockRoot, common.Uint256(shaOf(eb)))
}

func childMain() {
	dir := os.Getenv("VERIF_C02_CHILD")
	w := chain.NewWorld(os.Getenv("VERIF_C02_TAG"), 5)
	c, err := chain.NewSolo(dir, w.BK)
	if err != nil {
		fmt.Println("CHILDERR", err)
		os.Exit(3)
	}
	f, err := os.Open(os.Getenv("VERIF_C02_BLOCKS"))
	if err != nil {
		panic(err)
	}
	sc := bufio.NewScanner(f)
	sc.Buffer(make([]byte, 1<<20), 1<<26)
	out := json.NewEncoder(os.Stdout)
	n := 0
	for sc.Scan() {
		parts := strings.Split(sc.Text(), " ")
		raw, _ := hex.DecodeString(parts[0])
		root, _ := common.Uint256FromHexString(parts[1])
		b, err := types.BlockFromRawBytes(raw)
		rec := childRec{}
		if err == nil {
			err = c.Ledger.AddBlock(b, nil, root)
			rec.Height = b.Header.Height
		}
		if err != nil {
			rec.Err = err.Error()
			out.Encode(rec)
			break
		}
		rec.FP = fpString(c)
		out.Encode(rec)
		n++
		if n%7 == 0 { // restarted node
			if err := c.Reopen(); err != nil {
				out.Encode(childRec{Height: rec.Height, Err: "reopen: " + err.Error()})
				break
			}
		}
	}
	c.Close()
}

// ---------------------------------------------------------------- main

func main() {
	if os.Getenv("VERIF_C02_CHILD") != "" {
		childMain()
		return
	}
	r := vf.NewRun("C02", "exploration",
		"seeded block sequences on a solo chain: ordinary traffic (ONT/ONG transfers incl. failing ones, contract storage, EVM transfers, deploy) plus, per block, one transfer authorised by a signer VARIANT (each supported key type incl. Ethereum-type keys; alternative accepted encodings of a P-256 key; PUSHDATA1 script form; multi-signature canonical, reversed key order, with an Ethereum-type member, 2-of-4; multi-signature sets carrying m+1..n signatures, the surplus valid or junk, paid by the account itself or by another correctly signed account), signed by a seeded member subset in seeded order; every block also carries an ONT transfer between holders (unbound ONG depends on block time) and a call of a contract that stores and notifies block time, height and current block hash; in a seeded 65% of the rounds node A first executes (ExecuteBlock only) one or two ABANDONED proposals of the same height (same transactions with another timestamp and/or consensus data, a permutation, a subset, an empty block), sometimes one more between the re-executions; nodes B and C never see them; node A validates+executes, node B decodes bytes and AddBlocks in-process, node C does the same in a child process with restarts; every block is also executed 3x on A. distinct by (variant, block height)")
	scratch := vf.Scratch("c02")
	defer os.RemoveAll(scratch)
	rng := vf.NewRNG(vf.Seed())
	tag := fmt.Sprintf("c02-%d", vf.Seed())
	w := chain.NewWorld(tag, 5)
	A, err := chain.NewSolo(filepath.Join(scratch, "A"), w.BK)
	if err != nil {
		panic(err)
	}
	B, err := chain.NewSolo(filepath.Join(scratch, "B"), w.BK)
	if err != nil {
		panic(err)
	}
	variants := buildVariants()
	blocksFile := filepath.Join(scratch, "blocks.txt")
	bf, _ := os.Create(blocksFile)
	var fpsA []string
	bAlive := true
	sink := w.Accts[0].Address

	// rival builds a proposal of the height A is about to decide that will be ABANDONED: executed on A only
	// (ExecuteBlock, never submitted), never shown to B or C.
	rivalKinds := []string{"same-txs/other-timestamp", "same-txs/other-timestamp", "same-txs/other-consensus-data", "same-txs/other-timestamp-and-consensus-data", "permuted-txs", "subset-of-txs", "empty-block"}
	rival := func(accepted []*types.Transaction, rr *vf.RNG) (string, *types.Block) {
		kind := rivalKinds[rr.Intn(len(rivalKinds))]
		if len(accepted) == 0 {
			kind = "empty-block"
		}
		ts := chain.TimeAt(A.Ledger.GetCurrentBlockHeight() + 1) // what the committed block will carry
		otherTime := func() {
			// stays after the previous block (TimeAt steps by 10)
			if d := uint32(rr.Intn(9) + 1); rr.Bool() {
				ts += d
			} else {
				ts -= d
			}
		}
		txs, cd := accepted, false
		switch kind {
		case "same-txs/other-timestamp":
			otherTime()
		case "same-txs/other-consensus-data":
			cd = true
		case "same-txs/other-timestamp-and-consensus-data":
			otherTime()
			cd = true
		case "permuted-txs":
			txs = nil
			for _, i := range rr.Perm(len(accepted)) {
				txs = append(txs, accepted[i])
			}
			if rr.Bool() {
				otherTime()
			}
		case "subset-of-txs":
			txs = nil
			drop := rr.Intn(len(accepted)) // at least this one is missing
			for i, t := range accepted {
				if i != drop && rr.Chance(60) {
					txs = append(txs, t)
				}
			}
			if rr.Bool() {
				otherTime()
			}
		case "empty-block":
			txs = nil
			if rr.Bool() {
				otherTime()
			}
		}
		blk, err := A.MakeBlock(txs, ts)
		if err != nil {
			panic(err)
		}
		if cd {
			blk.Header.ConsensusData ^= rr.U64() | 1
			if err := A.Seal(blk); err != nil {
				panic(err)
			}
		}
		return kind, blk
	}
	var rivalSamples []interface{}

	// watch: tx hash -> counter name, counted when the transaction succeeds in the committed block on A
	commit := func(h int, txs []*types.Transaction, label string, rr *vf.RNG, watch map[common.Uint256]string) bool {
		// consensus member: every tx passes the validator first (this sets the signer accounts)
		var accepted []*types.Transaction
		for _, tx := range txs {
			if code := validation.VerifyTransaction(tx); code != ontErrors.ErrNoError {
				r.Count("validator_rejected/" + label)
				continue
			}
			accepted = append(accepted, tx)
		}
		// in a seeded fraction of the rounds A first executes one or two proposals of this height that are then abandoned
		nRivals, lateRival := 0, false
		if rr.Chance(65) {
			nRivals = 1 + rr.Intn(2)
			lateRival = rr.Chance(40)
		}
		lastKind := ""
		var lastRes store.ExecuteResult
		var lastErr error
		var sched, rivalHex []string
		for i := 0; i < nRivals; i++ {
			kind, rb := rival(accepted, rr)
			lastKind = kind
			lastRes, lastErr = A.Ledger.ExecuteBlock(rb)
			if lastErr != nil {
				r.Count("rival_block_level_error") // e.g. EVM nonces out of order in a permutation / subset
			}
			r.Count("rival_executed/" + kind)
			sched = append(sched, fmt.Sprintf("%s ts=%d cd=%x txs=%d", kind, rb.Header.Timestamp, rb.Header.ConsensusData, len(rb.Transactions)))
			rivalHex = append(rivalHex, vf.HexTrunc(rb.ToArray(), 6000))
		}
		if nRivals > 0 {
			r.Count("rounds_with_abandoned_proposals")
			r.Count("last_rival_before_committed_block/" + lastKind)
		} else {
			r.Count("rounds_without_abandoned_proposals")
		}
		blk, err := A.MakeBlock(accepted, 0)
		if err != nil {
			panic(err)
		}
		res, err := A.Ledger.ExecuteBlock(blk)
		if err != nil {
			r.Count("block_level_error_on_A")
			return false
		}
		if nRivals > 0 && strings.HasPrefix(lastKind, "same-txs/") && lastErr == nil && (lastRes.Hash != res.Hash || lastRes.MerkleRoot != res.MerkleRoot) {
			// sensitivity of the workload (no verdict): the abandoned proposal with the same transactions and another
			// header had ANOTHER write set, so a node that reused its result would be seen
			r.Count("rival_with_same_txs_had_another_result")
		}
		if lateRival {
			// one more abandoned proposal BETWEEN the executions of the block that is committed
			kind, rb := rival(accepted, rr)
			if _, err := A.Ledger.ExecuteBlock(rb); err != nil {
				r.Count("rival_block_level_error")
			}
			r.Count("rival_executed_between_reexecutions/" + kind)
			sched = append(sched, "between re-executions: "+kind)
			rivalHex = append(rivalHex, vf.HexTrunc(rb.ToArray(), 6000))
		}
		if nRivals > 0 && len(rivalSamples) < 4 {
			rivalSamples = append(rivalSamples, map[string]interface{}{"height": blk.Header.Height, "committed_ts": blk.Header.Timestamp, "abandoned": sched})
		}
		// determinism of repeated execution in one process
		n0, _ := json.Marshal(res.Notify)
		for rep := 0; rep < 2; rep++ {
			res2, err2 := A.Ledger.ExecuteBlock(blk)
			n2, _ := json.Marshal(res2.Notify)
			if err2 != nil || res2.Hash != res.Hash || res2.MerkleRoot != res.MerkleRoot || string(n2) != string(n0) {
				r.Violation("re-execution-differs:"+label, fmt.Sprintf("height %d: err=%v hash %s vs %s", h, err2, res2.Hash.ToHexString(), res.Hash.ToHexString()), map[string]interface{}{"height": h, "label": label, "block_hex": hex.EncodeToString(blk.ToArray())})
			}
		}
		r.Count("blocks_reexecuted")
		if err := A.Ledger.SubmitBlock(blk, nil, res); err != nil {
			panic(fmt.Errorf("A submit: %v", err))
		}
		fa := fpString(A)
		fpsA = append(fpsA, fa)
		raw := blk.ToArray()
		fmt.Fprintf(bf, "%s %s\n", hex.EncodeToString(raw), res.MerkleRoot.ToHexString())
		id := map[string]interface{}{"height": h, "label": label, "block_hex": vf.HexTrunc(raw, 6000)}
		if len(sched) > 0 {
			id["abandoned_proposals_executed_on_A_only"], id["abandoned_block_hex"] = sched, rivalHex
		}
		ns := 0
		for _, n := range res.Notify {
			if n.State == 1 {
				ns++
			}
		}
		id["tx_success"], id["tx_total"] = ns, len(res.Notify)
		for _, n := range res.Notify {
			if name, ok := watch[n.TxHash]; ok && n.State == 1 {
				r.Count(name)
			}
		}
		fp := fmt.Sprintf("%s/%d", label, h)
		r.Eval(fp)
		// syncing node: bytes -> decode -> AddBlock
		if bAlive {
			db, err := types.BlockFromRawBytes(raw)
			if err == nil {
				err = B.Ledger.AddBlock(db, nil, res.MerkleRoot)
			}
			if err != nil {
				r.Violation("syncing-node-rejects-sealed-block:"+label, err.Error(), id)
				bAlive = false
			} else if fb := fpString(B); fb != fa {
				r.Violation("syncing-node-state-differs:"+label, fa+" vs "+fb, id)
				bAlive = false
			} else {
				r.Count("sync_node_agrees")
			}
			if !bAlive {
				// resynchronise B by copying A so later blocks are still compared
				B.Close()
				A.Close()
				chain.CopyDir(filepath.Join(scratch, "A"), filepath.Join(scratch, "B"))
				A, _ = chain.NewSolo(filepath.Join(scratch, "A"), w.BK)
				B, err = chain.NewSolo(filepath.Join(scratch, "B"), w.BK)
				bAlive = err == nil
				r.Count("sync_node_resynchronised")
			}
		}
		return true
	}

	// block 1: fund actors and every variant account
	txs := w.FundingTxs()
	for _, v := range variants {
		t1, _ := w.TB.TransferTx("ont", w.BK, v.addr, 100000, 0, 20000)
		t2, _ := w.TB.TransferTx("ong", w.BK, v.addr, 1000000000000, 0, 20000)
		txs = append(txs, t1, t2)
	}
	payer := feePayer()
	tp, _ := w.TB.TransferTx("ong", w.BK, payer.addr, 1000000000000000, 0, 20000)
	clock := clockCode()
	clockAddr := common.AddressFromVmCode(clock)
	dm, err := w.TB.Deploy(0, 30000000, clock, "clock")
	if err != nil {
		panic(err)
	}
	chain.Sign(dm, w.BK)
	txs = append(txs, tp, chain.Immutable(dm))
	commit(1, txs, "funding", rng.Sub(1).Sub(0xab), nil)
	// authorise signs mt with the variant (and the fee payer's set, in seeded order, for the payer-other variants)
	authorise := func(mt *types.MutableTransaction, v variant, sub *vf.RNG) (*types.Transaction, error) {
		mt.Payer = v.addr
		signers := []variant{v}
		if v.payerOther {
			mt.Payer = payer.addr
			if signers = []variant{payer, v}; sub.Bool() {
				signers = []variant{v, payer}
			}
		}
		return signedTx(mt, signers, sub)
	}
	L := vf.N(2, 50) // rounds over all variants (thorough: ~1300 blocks)
	h := 1
	for round := 0; round < L; round++ {
		for vi, v := range variants {
			h++
			sub := rng.Sub(uint64(h))
			txs, _ := w.RandomTxs(sub, 4)
			// the variant transaction: ONT transfer out of the variant's account, authorised only by the variant's script
			asset := nutils.OntContractAddress
			if sub.Bool() {
				asset = nutils.OngContractAddress
			}
			gp := uint64(0)
			if sub.Chance(40) {
				gp = 2500
			}
			mt, err := w.TB.Native(gp, 30000, asset, "transfer", []interface{}{[]*ont.TransferState{{From: v.addr, To: sink, Value: uint64(sub.Intn(50) + 1)}}})
			if err != nil {
				panic(err)
			}
			vtx, err := authorise(mt, v, sub)
			if err != nil {
				r.Count("variant_not_decodable/" + v.name)
				continue
			}
			insert := func(t *types.Transaction) {
				pos := sub.Intn(len(txs) + 1)
				txs = append(txs[:pos:pos], append([]*types.Transaction{t}, txs[pos:]...)...)
			}
			insert(vtx)
			class := "plain"
			if v.surplus > 0 {
				class = "surplus-signatures/" + payerName(v.payerOther)
			}
			watch := map[common.Uint256]string{vtx.Hash(): "variant_spend_succeeded/" + class}
			// every block carries transactions whose effect is a function of the block header: an ONT transfer between
			// two holders (the ONG unbound so far depends on the block time) and a call of the clock contract (time,
			// height, current block hash -> storage + notify); ample gas so that no gas schedule makes them fail
			fi := sub.Intn(len(w.Accts))
			ti := (fi + 1 + sub.Intn(len(w.Accts)-1)) % len(w.Accts)
			ot, err := w.TB.TransferTx("ont", w.Accts[fi], w.Accts[ti].Address, uint64(sub.Intn(3)+1), 0, 100000000)
			if err != nil {
				panic(err)
			}
			cm := w.TB.Invoke(0, 100000000, chain.NewAsm().AppCall(clockAddr).Bytes())
			chain.Sign(cm, w.Accts[sub.Intn(len(w.Accts))])
			ct := chain.Immutable(cm)
			insert(ot)
			insert(ct)
			watch[ot.Hash()] = "time_dependent_ont_transfer_succeeded"
			watch[ct.Hash()] = "clock_contract_call_succeeded"
			// witness probe authorised by the same variant: CheckWitness over a list of accounts (zero address,
			// token contracts, this and another variant's account, an ordinary account, a random one), each
			// answer notified, plus an approve whose `from` is the zero address (needs only its witness)
			var rnd common.Address
			copy(rnd[:], sub.Bytes(20))
			pa := chain.NewAsm()
			for _, a := range []common.Address{{}, nutils.OntContractAddress, nutils.OngContractAddress, v.addr, variants[(vi+1)%len(variants)].addr, w.Accts[1].Address, rnd} {
				pa.Push(a[:]).Syscall("System.Runtime.CheckWitness").Syscall("System.Runtime.Notify")
			}
			pm := w.TB.Invoke(0, 60000, pa.Bytes())
			if ptx, err := authorise(pm, v, sub); err == nil {
				txs = append(txs, ptx)
				r.Count("witness_probe_txs")
			}
			zm, _ := w.TB.Native(0, 30000, nutils.OntContractAddress, "approve", []interface{}{&ont.TransferState{From: common.Address{}, To: sink, Value: 7}})
			if ztx, err := authorise(zm, v, sub); err == nil {
				txs = append(txs, ztx)
			}
			// every few blocks the on-chain gas schedule changes (global params: setGlobalParam + createSnapshot
			// by the operator), so that outcomes of the gas-limited transactions above depend on the schedule in force
			if h%5 == 0 {
				val := []string{"60000", "1000", "25000", "3000"}[(h/5)%4]
				ps := global_params.Params{{Key: "Ontology.Native.Invoke", Value: val}, {Key: "System.Runtime.CheckWitness", Value: []string{"200", "20000", "900"}[(h/5)%3]}}
				m1, _ := w.TB.Native(0, 100000000, nutils.ParamContractAddress, global_params.SET_GLOBAL_PARAM_NAME, []interface{}{ps})
				chain.Sign(m1, w.BK)
				m2, _ := w.TB.Native(0, 100000000, nutils.ParamContractAddress, global_params.CREATE_SNAPSHOT_NAME, []interface{}{"createSnapshot"})
				chain.Sign(m2, w.BK)
				txs = append(txs, chain.Immutable(m1), chain.Immutable(m2))
				r.Count("gas_schedule_changes")
			}
			before := r.Counter("validator_rejected/" + v.name)
			commit(h, txs, v.name, sub.Sub(0xab), watch)
			if r.Counter("validator_rejected/"+v.name) == before {
				r.Count("variant_accepted_by_validator/" + v.name)
			}
		}
	}
	bf.Close()
	A.Close()
	B.Close()
	// node C: separate process
	runs := vf.N(1, 3)
	self, _ := os.Executable()
	for k := 0; k < runs; k++ {
		cd := filepath.Join(scratch, fmt.Sprintf("C%d", k))
		cmd := exec.Command(self)
		cmd.Env = append(os.Environ(), "VERIF_C02_CHILD="+cd, "VERIF_C02_TAG="+tag, "VERIF_C02_BLOCKS="+blocksFile)
		cmd.Stderr = os.Stderr
		out, err := cmd.Output()
		if err != nil {
			r.Inconclusive(fmt.Sprintf("child process failed: %v", err))
			continue
		}
		dec := json.NewDecoder(strings.NewReader(string(out)))
		i := 0
		for dec.More() {
			var rec childRec
			if err := dec.Decode(&rec); err != nil {
				break
			}
			if rec.Err != "" {
				r.Violation("child-process-node-rejects-sealed-block", fmt.Sprintf("height %d: %s", rec.Height, rec.Err), map[string]interface{}{"height": rec.Height})
				break
			}
			if i < len(fpsA) && rec.FP != fpsA[i] {
				r.Violation("child-process-node-state-differs", fmt.Sprintf("height %d: %s vs %s", rec.Height, fpsA[i], rec.FP), map[string]interface{}{"height": rec.Height})
				break
			}
			i++
			r.Count("child_node_agrees")
		}
		os.RemoveAll(cd)
	}
	var names []string
	for _, v := range variants {
		names = append(names, v.name)
		r.Require("variant_accepted_by_validator/"+v.name, 1)
	}
	r.Sample(map[string]interface{}{"variants": names, "blocks": len(fpsA)})
	for _, rs := range rivalSamples {
		r.Sample(rs)
	}
	// abandoned proposals on the consensus node
	r.Require("rounds_with_abandoned_proposals", 10)
	r.Require("rounds_without_abandoned_proposals", 3)
	for _, k := range []string{"same-txs/other-timestamp", "same-txs/other-consensus-data", "same-txs/other-timestamp-and-consensus-data", "permuted-txs", "subset-of-txs", "empty-block"} {
		r.Require("rival_executed/"+k, 1)
	}
	r.Require("last_rival_before_committed_block/same-txs/other-timestamp", 2)
	r.Require("rival_with_same_txs_had_another_result", 4)
	// header-dependent transactions really took effect
	r.Require("time_dependent_ont_transfer_succeeded", 10)
	r.Require("clock_contract_call_succeeded", 10)
	// spends authorised by signature sets with surplus signatures really took effect
	r.Require("variant_spend_succeeded/plain", 5)
	r.Require("variant_spend_succeeded/surplus-signatures/payer-other", 4)
	r.Require("variant_spend_succeeded/surplus-signatures/payer-self", 3)
	r.Require("sync_node_agrees", 10)
	r.Require("witness_probe_txs", 10)
	r.Require("gas_schedule_changes", 2)
	r.Require("child_node_agrees", 10)
	r.Require("blocks_reexecuted", 10)
	r.Assume("all nodes run the same binary on the same architecture; WASM contracts not driven")
	os.RemoveAll(scratch)
	r.Finish()
}

func shaOf(b []byte) [32]byte { return sha256.Sum256(b) }
