// C02 — Every node derives the same state from the same blocks.
// Differential monitor, no model: node A is a consensus member (every transaction passes
// the validator first, blocks go through ExecuteBlock+SubmitBlock); node B is a syncing node
// (the sealed block travels as bytes, is decoded and committed with AddBlock); node C is a
// separate OS process (fresh Go map seeds) syncing the same bytes and being restarted.
package main

import (
	"bufio"
	"crypto/sha256"
	"encoding/hex"
	"encoding/json"
	"fmt"
	"os"
	"os/exec"
	"path/filepath"
	"strings"

	"github.com/ontio/ontology-crypto/keypair"
	"github.com/ontio/ontology/common"
	"github.com/ontio/ontology/core/program"
	"github.com/ontio/ontology/core/types"
	"github.com/ontio/ontology/core/validation"
	ontErrors "github.com/ontio/ontology/errors"
	"github.com/ontio/ontology/smartcontract/service/native/global_params"
	"github.com/ontio/ontology/smartcontract/service/native/ont"
	nutils "github.com/ontio/ontology/smartcontract/service/native/utils"
	"github.com/ontio/ontology/vm/neovm"
	"verifharness/lib/chain"
	"verifharness/lib/txgen"
	"verifharness/lib/vf"
)

// ---------------------------------------------------------------- signer variants

// variant = one way of authorising a transaction: which key(s) and how the verification
// script encodes them.  addr is the account the VALIDATOR derives for it (types.AddressFrom…).
type variant struct {
	name   string
	keys   []*txgen.Key
	m      int
	addr   common.Address
	verify []byte // verification script bytes
}

func pushData(b []byte, form string) []byte {
	switch form {
	case "pushdata1":
		return append([]byte{byte(neovm.PUSHDATA1), byte(len(b))}, b...)
	case "pushdata2":
		return append([]byte{byte(neovm.PUSHDATA2), byte(len(b)), byte(len(b) >> 8)}, b...)
	default:
		return append([]byte{byte(len(b))}, b...) // PUSHBYTESn
	}
}

func singleScript(keyBytes []byte, form string) []byte {
	return append(pushData(keyBytes, form), byte(neovm.CHECKSIG))
}

func num(n int) []byte {
	if n == 0 {
		return []byte{byte(neovm.PUSH0)}
	}
	return []byte{byte(int(neovm.PUSH1) + n - 1)}
}

func multiScript(keyBytes [][]byte, m int) []byte {
	s := num(m)
	for _, k := range keyBytes {
		s = append(s, pushData(k, "")...)
	}
	s = append(s, num(len(keyBytes))...)
	return append(s, byte(neovm.CHECKMULTISIG))
}

func p256Encodings(k *txgen.Key) map[string][]byte {
	short := keypair.SerializePublicKey(k.Pub) // 33 bytes 02/03|X
	out := map[string][]byte{}
	out["long-form"] = append([]byte{byte(keypair.PK_ECDSA), keypair.P256}, short...)
	out["trailing-byte"] = append(append([]byte{}, short...), 0x00)
	return out
}

func buildVariants() []variant {
	var vs []variant
	kinds := []txgen.Kind{txgen.ECDSAP224, txgen.ECDSAP256, txgen.ECDSAP384, txgen.ECDSAP521, txgen.SM2, txgen.Ed25519, txgen.EthSecp256k1}
	for _, kd := range kinds {
		k := txgen.Pool(kd)[1]
		vs = append(vs, variant{name: "single/" + kd.String() + "/canonical", keys: []*txgen.Key{k}, m: 1, addr: types.AddressFromPubKey(k.Pub), verify: program.ProgramFromPubKey(k.Pub)})
	}
	// alternative accepted encodings of the same P-256 key
	k := txgen.Pool(txgen.ECDSAP256)[2]
	for n, enc := range p256Encodings(k) {
		vs = append(vs, variant{name: "single/ecdsa-p256/" + n, keys: []*txgen.Key{k}, m: 1, addr: types.AddressFromPubKey(k.Pub), verify: singleScript(enc, "")})
	}
	k3 := txgen.Pool(txgen.ECDSAP256)[3]
	vs = append(vs, variant{name: "single/ecdsa-p256/pushdata1", keys: []*txgen.Key{k3}, m: 1, addr: types.AddressFromPubKey(k3.Pub), verify: singleScript(keypair.SerializePublicKey(k3.Pub), "pushdata1")})
	// multi-signature accounts
	ms := []*txgen.Key{txgen.Pool(txgen.ECDSAP256)[4], txgen.Pool(txgen.SM2)[4], txgen.Pool(txgen.Ed25519)[4]}
	maddr, err := types.AddressFromMultiPubKeys(txgen.Pubs(ms), 2)
	if err != nil {
		panic(err)
	}
	canon, _ := program.ProgramFromMultiPubKey(txgen.Pubs(ms), 2)
	vs = append(vs, variant{name: "multi/2of3/canonical", keys: ms, m: 2, addr: maddr, verify: canon})
	// the same account with the keys listed in another (non-sorted) order in the script
	sorted := keypair.SortPublicKeys(txgen.Pubs(ms))
	var rev [][]byte
	for i := len(sorted) - 1; i >= 0; i-- {
		rev = append(rev, keypair.SerializePublicKey(sorted[i]))
	}
	ms2 := []*txgen.Key{txgen.Pool(txgen.ECDSAP256)[5], txgen.Pool(txgen.ECDSAP256)[6], txgen.Pool(txgen.ECDSAP384)[5]}
	maddr2, _ := types.AddressFromMultiPubKeys(txgen.Pubs(ms2), 2)
	sorted2 := keypair.SortPublicKeys(txgen.Pubs(ms2))
	rev = nil
	for i := len(sorted2) - 1; i >= 0; i-- {
		rev = append(rev, keypair.SerializePublicKey(sorted2[i]))
	}
	vs = append(vs, variant{name: "multi/2of3/keys-in-reverse-order", keys: ms2, m: 2, addr: maddr2, verify: multiScript(rev, 2)})
	ms3 := []*txgen.Key{txgen.Pool(txgen.EthSecp256k1)[7], txgen.Pool(txgen.ECDSAP256)[7]}
	if maddr3, err := types.AddressFromMultiPubKeys(txgen.Pubs(ms3), 1); err == nil {
		if canon3, err := program.ProgramFromMultiPubKey(txgen.Pubs(ms3), 1); err == nil {
			vs = append(vs, variant{name: "multi/1of2/with-eth-key/canonical", keys: ms3, m: 1, addr: maddr3, verify: canon3})
		}
	}
	return vs
}

// signedTx assembles transaction bytes with hand-made signature scripts and decodes them.
func signedTx(mt *types.MutableTransaction, signers []variant, rng *vf.RNG) (*types.Transaction, error) {
	mt.Sigs = nil
	tmp, err := mt.IntoImmutable()
	if err != nil {
		return nil, err
	}
	raw := tmp.ToArray()
	unsigned := raw[:len(raw)-1] // drop the "0 signatures" varuint
	h := mt.Hash()
	sink := common.NewZeroCopySink(nil)
	sink.WriteBytes(unsigned)
	sink.WriteVarUint(uint64(len(signers)))
	for _, v := range signers {
		var sigs [][]byte
		// m signatures in the order the validator expects (key order of the script)
		info, err := program.GetProgramInfo(v.verify)
		if err != nil {
			return nil, fmt.Errorf("verify script of %s does not parse: %v", v.name, err)
		}
		need := v.m
		for _, pk := range info.PubKeys {
			if need == 0 {
				break
			}
			for _, k := range v.keys {
				if keypair.ComparePublicKey(k.Pub, pk) {
					s, err := k.Sign(h[:])
					if err != nil {
						return nil, err
					}
					sigs = append(sigs, s)
					need--
					break
				}
			}
		}
		sink.WriteVarBytes(program.ProgramFromParams(sigs))
		sink.WriteVarBytes(v.verify)
	}
	return types.TransactionFromRawBytes(sink.Bytes())
}

// ---------------------------------------------------------------- child (node C)

type childRec struct {
	Height uint32
	FP     string
	Err    string
}

func fpString(c *chain.Chain) string {
	f := c.Fingerprint()
	ev, _ := c.Ledger.GetEventNotifyByBlock(f.Height)
	eb, _ := json.Marshal(ev)
	return fmt.Sprintf("%d|%s|%s|%s|%s|%x", f.Height, f.BlockHash, f.StateHash, f.StateRoots[len(f.StateRoots)-1], f.BlockRoot, common.Uint256(shaOf(eb)))
}

func childMain() {
	dir := os.Getenv("VERIF_C02_CHILD")
	w := chain.NewWorld(os.Getenv("VERIF_C02_TAG"), 5)
	c, err := chain.NewSolo(dir, w.BK)
	if err != nil {
		fmt.Println("CHILDERR", err)
		os.Exit(3)
	}
	f, err := os.Open(os.Getenv("VERIF_C02_BLOCKS"))
	if err != nil {
		panic(err)
	}
	sc := bufio.NewScanner(f)
	sc.Buffer(make([]byte, 1<<20), 1<<26)
	out := json.NewEncoder(os.Stdout)
	n := 0
	for sc.Scan() {
		parts := strings.Split(sc.Text(), " ")
		raw, _ := hex.DecodeString(parts[0])
		root, _ := common.Uint256FromHexString(parts[1])
		b, err := types.BlockFromRawBytes(raw)
		rec := childRec{}
		if err == nil {
			err = c.Ledger.AddBlock(b, nil, root)
			rec.Height = b.Header.Height
		}
		if err != nil {
			rec.Err = err.Error()
			out.Encode(rec)
			break
		}
		rec.FP = fpString(c)
		out.Encode(rec)
		n++
		if n%7 == 0 { // restarted node
			if err := c.Reopen(); err != nil {
				out.Encode(childRec{Height: rec.Height, Err: "reopen: " + err.Error()})
				break
			}
		}
	}
	c.Close()
}

// ---------------------------------------------------------------- main

func main() {
	if os.Getenv("VERIF_C02_CHILD") != "" {
		childMain()
		return
	}
	r := vf.NewRun("C02", "exploration",
		"seeded block sequences on a solo chain: ordinary traffic (ONT/ONG transfers incl. failing ones, contract storage, EVM transfers, deploy) plus, per block, one transfer authorised by a signer VARIANT (each supported key type incl. Ethereum-type keys; alternative accepted encodings of a P-256 key; PUSHDATA1 script form; multi-signature canonical, reversed key order, with an Ethereum-type member); node A validates+executes, node B decodes bytes and AddBlocks in-process, node C does the same in a child process with restarts; every block is also executed 3x on A. distinct by (variant, block height)")
	scratch := vf.Scratch("c02")
	defer os.RemoveAll(scratch)
	rng := vf.NewRNG(vf.Seed())
	tag := fmt.Sprintf("c02-%d", vf.Seed())
	w := chain.NewWorld(tag, 5)
	A, err := chain.NewSolo(filepath.Join(scratch, "A"), w.BK)
	if err != nil {
		panic(err)
	}
	B, err := chain.NewSolo(filepath.Join(scratch, "B"), w.BK)
	if err != nil {
		panic(err)
	}
	variants := buildVariants()
	blocksFile := filepath.Join(scratch, "blocks.txt")
	bf, _ := os.Create(blocksFile)
	var fpsA []string
	bAlive := true
	sink := w.Accts[0].Address

	commit := func(h int, txs []*types.Transaction, label string) bool {
		// consensus member: every tx passes the validator first (this sets the signer accounts)
		var accepted []*types.Transaction
		for _, tx := range txs {
			if code := validation.VerifyTransaction(tx); code != ontErrors.ErrNoError {
				r.Count("validator_rejected/" + label)
				continue
			}
			accepted = append(accepted, tx)
		}
		blk, err := A.MakeBlock(accepted, 0)
		if err != nil {
			panic(err)
		}
		res, err := A.Ledger.ExecuteBlock(blk)
		if err != nil {
			r.Count("block_level_error_on_A")
			return false
		}
		// determinism of repeated execution in one process
		n0, _ := json.Marshal(res.Notify)
		for rep := 0; rep < 2; rep++ {
			res2, err2 := A.Ledger.ExecuteBlock(blk)
			n2, _ := json.Marshal(res2.Notify)
			if err2 != nil || res2.Hash != res.Hash || res2.MerkleRoot != res.MerkleRoot || string(n2) != string(n0) {
				r.Violation("re-execution-differs:"+label, fmt.Sprintf("height %d: err=%v hash %s vs %s", h, err2, res2.Hash.ToHexString(), res.Hash.ToHexString()), map[string]interface{}{"height": h, "label": label, "block_hex": hex.EncodeToString(blk.ToArray())})
			}
		}
		r.Count("blocks_reexecuted")
		if err := A.Ledger.SubmitBlock(blk, nil, res); err != nil {
			panic(fmt.Errorf("A submit: %v", err))
		}
		fa := fpString(A)
		fpsA = append(fpsA, fa)
		raw := blk.ToArray()
		fmt.Fprintf(bf, "%s %s\n", hex.EncodeToString(raw), res.MerkleRoot.ToHexString())
		id := map[string]interface{}{"height": h, "label": label, "block_hex": vf.HexTrunc(raw, 6000)}
		ns := 0
		for _, n := range res.Notify {
			if n.State == 1 {
				ns++
			}
		}
		id["tx_success"], id["tx_total"] = ns, len(res.Notify)
		fp := fmt.Sprintf("%s/%d", label, h)
		r.Eval(fp)
		// syncing node: bytes -> decode -> AddBlock
		if bAlive {
			db, err := types.BlockFromRawBytes(raw)
			if err == nil {
				err = B.Ledger.AddBlock(db, nil, res.MerkleRoot)
			}
			if err != nil {
				r.Violation("syncing-node-rejects-sealed-block:"+label, err.Error(), id)
				bAlive = false
			} else if fb := fpString(B); fb != fa {
				r.Violation("syncing-node-state-differs:"+label, fa+" vs "+fb, id)
				bAlive = false
			} else {
				r.Count("sync_node_agrees")
			}
			if !bAlive {
				// resynchronise B by copying A so later blocks are still compared
				B.Close()
				A.Close()
				chain.CopyDir(filepath.Join(scratch, "A"), filepath.Join(scratch, "B"))
				A, _ = chain.NewSolo(filepath.Join(scratch, "A"), w.BK)
				B, err = chain.NewSolo(filepath.Join(scratch, "B"), w.BK)
				bAlive = err == nil
				r.Count("sync_node_resynchronised")
			}
		}
		return true
	}

	// block 1: fund actors and every variant account
	txs := w.FundingTxs()
	for _, v := range variants {
		t1, _ := w.TB.TransferTx("ont", w.BK, v.addr, 100000, 0, 20000)
		t2, _ := w.TB.TransferTx("ong", w.BK, v.addr, 1000000000000, 0, 20000)
		txs = append(txs, t1, t2)
	}
	commit(1, txs, "funding")
	L := vf.N(2, 14) // rounds over all variants
	h := 1
	for round := 0; round < L; round++ {
		for vi, v := range variants {
			h++
			sub := rng.Sub(uint64(h))
			txs, _ := w.RandomTxs(sub, 4)
			// the variant transaction: ONT transfer out of the variant's account, authorised only by the variant's script
			asset := nutils.OntContractAddress
			if sub.Bool() {
				asset = nutils.OngContractAddress
			}
			gp := uint64(0)
			if sub.Chance(40) {
				gp = 2500
			}
			mt, err := w.TB.Native(gp, 30000, asset, "transfer", []interface{}{[]*ont.TransferState{{From: v.addr, To: sink, Value: uint64(sub.Intn(50) + 1)}}})
			if err != nil {
				panic(err)
			}
			mt.Payer = v.addr
			vtx, err := signedTx(mt, []variant{v}, sub)
			if err != nil {
				r.Count("variant_not_decodable/" + v.name)
				continue
			}
			pos := sub.Intn(len(txs) + 1)
			txs = append(txs[:pos], append([]*types.Transaction{vtx}, txs[pos:]...)...)
			// witness probe authorised by the same variant: CheckWitness over a list of accounts (zero address,
			// token contracts, this and another variant's account, an ordinary account, a random one), each
			// answer notified, plus an approve whose `from` is the zero address (needs only its witness)
			var rnd common.Address
			copy(rnd[:], sub.Bytes(20))
			pa := chain.NewAsm()
			for _, a := range []common.Address{{}, nutils.OntContractAddress, nutils.OngContractAddress, v.addr, variants[(vi+1)%len(variants)].addr, w.Accts[1].Address, rnd} {
				pa.Push(a[:]).Syscall("System.Runtime.CheckWitness").Syscall("System.Runtime.Notify")
			}
			pm := w.TB.Invoke(0, 60000, pa.Bytes())
			pm.Payer = v.addr
			if ptx, err := signedTx(pm, []variant{v}, sub); err == nil {
				txs = append(txs, ptx)
				r.Count("witness_probe_txs")
			}
			zm, _ := w.TB.Native(0, 30000, nutils.OntContractAddress, "approve", []interface{}{&ont.TransferState{From: common.Address{}, To: sink, Value: 7}})
			zm.Payer = v.addr
			if ztx, err := signedTx(zm, []variant{v}, sub); err == nil {
				txs = append(txs, ztx)
			}
			// every few blocks the on-chain gas schedule changes (global params: setGlobalParam + createSnapshot
			// by the operator), so that outcomes of the gas-limited transactions above depend on the schedule in force
			if h%5 == 0 {
				val := []string{"60000", "1000", "25000", "3000"}[(h/5)%4]
				ps := global_params.Params{{Key: "Ontology.Native.Invoke", Value: val}, {Key: "System.Runtime.CheckWitness", Value: []string{"200", "20000", "900"}[(h/5)%3]}}
				m1, _ := w.TB.Native(0, 100000000, nutils.ParamContractAddress, global_params.SET_GLOBAL_PARAM_NAME, []interface{}{ps})
				chain.Sign(m1, w.BK)
				m2, _ := w.TB.Native(0, 100000000, nutils.ParamContractAddress, global_params.CREATE_SNAPSHOT_NAME, []interface{}{"createSnapshot"})
				chain.Sign(m2, w.BK)
				txs = append(txs, chain.Immutable(m1), chain.Immutable(m2))
				r.Count("gas_schedule_changes")
			}
			before := r.Counter("validator_rejected/" + v.name)
			commit(h, txs, v.name)
			if r.Counter("validator_rejected/"+v.name) == before {
				r.Count("variant_accepted_by_validator/" + v.name)
			}
		}
	}
	bf.Close()
	A.Close()
	B.Close()
	// node C: separate process
	runs := vf.N(1, 3)
	self, _ := os.Executable()
	for k := 0; k < runs; k++ {
		cd := filepath.Join(scratch, fmt.Sprintf("C%d", k))
		cmd := exec.Command(self)
		cmd.Env = append(os.Environ(), "VERIF_C02_CHILD="+cd, "VERIF_C02_TAG="+tag, "VERIF_C02_BLOCKS="+blocksFile)
		cmd.Stderr = os.Stderr
		out, err := cmd.Output()
		if err != nil {
			r.Inconclusive(fmt.Sprintf("child process failed: %v", err))
			continue
		}
		dec := json.NewDecoder(strings.NewReader(string(out)))
		i := 0
		for dec.More() {
			var rec childRec
			if err := dec.Decode(&rec); err != nil {
				break
			}
			if rec.Err != "" {
				r.Violation("child-process-node-rejects-sealed-block", fmt.Sprintf("height %d: %s", rec.Height, rec.Err), map[string]interface{}{"height": rec.Height})
				break
			}
			if i < len(fpsA) && rec.FP != fpsA[i] {
				r.Violation("child-process-node-state-differs", fmt.Sprintf("height %d: %s vs %s", rec.Height, fpsA[i], rec.FP), map[string]interface{}{"height": rec.Height})
				break
			}
			i++
			r.Count("child_node_agrees")
		}
		os.RemoveAll(cd)
	}
	var names []string
	for _, v := range variants {
		names = append(names, v.name)
		r.Require("variant_accepted_by_validator/"+v.name, 1)
	}
	r.Sample(map[string]interface{}{"variants": names, "blocks": len(fpsA)})
	r.Require("sync_node_agrees", 10)
	r.Require("witness_probe_txs", 10)
	r.Require("gas_schedule_changes", 2)
	r.Require("child_node_agrees", 10)
	r.Require("blocks_reexecuted", 10)
	r.Assume("all nodes run the same binary on the same architecture; WASM contracts not driven")
	os.RemoveAll(scratch)
	r.Finish()
}

func shaOf(b []byte) [32]byte { return sha256.Sum256(b) }
