// C03 — Block change hash depends only on the final key/value content.
//
// Oracle (runtime, on the real overlaydb.OverlayDB / MemDB / storage.CacheDB):
//
//	(1) model: a plain Go map key -> final value ("" = deleted) over the touched keys.
//	    OverlayDB.ChangeHash() must equal sha256(concat over ascending keys of key||val) of
//	    the model, and GetWriteSet().ForEach must enumerate exactly the model in strictly
//	    ascending key order.
//	(2) metamorphic: the same final map is reached through several differently shaped
//	    operation sequences (sorted, permuted, overwrite-then-restore, delete-then-recreate,
//	    same-value overwrite, routed through CacheDB transactions incl. discarded ones,
//	    on a Reset() overlay); all must give the same hash and the same write set as the
//	    original random history.
package main

import (
	"bytes"
	"crypto/sha256"
	"fmt"
	"runtime"
	"sort"
	"sync/atomic"
	"time"

	"github.com/ontio/ontology/core/store/leveldbstore"
	"github.com/ontio/ontology/core/store/overlaydb"
	"github.com/ontio/ontology/smartcontract/storage"
	"verifharness/lib/kvl"
	"verifharness/lib/vf"
)

// step is one operation of a witness sequence.
type step struct {
	Kind string // ov.put ov.del tx.put tx.del tx.commit tx.reset ov.reset
	K, V []byte
}

func (s step) String() string {
	switch s.Kind {
	case "tx.commit", "tx.reset", "ov.reset":
		return s.Kind
	case "ov.del", "tx.del":
		return s.Kind + " " + vf.Hex(s.K)
	}
	return s.Kind + " " + vf.Hex(s.K) + "=" + vf.Hex(s.V)
}

func stepStrings(ss []step) []string {
	out := make([]string, len(ss))
	for i, s := range ss {
		out[i] = s.String()
	}
	return out
}

// apply executes a sequence on a fresh overlay (over the shared, read-only store) and
// returns the overlay.
func apply(store *leveldbstore.LevelDBStore, steps []step) *overlaydb.OverlayDB {
	ov := overlaydb.NewOverlayDB(store)
	var tx *storage.CacheDB
	cache := func() *storage.CacheDB {
		if tx == nil {
			tx = storage.NewCacheDB(ov)
		}
		return tx
	}
	// in half of the histories the change hash is also READ between the operations (an observer asking for
	// it must not influence what it is later)
	hashEvery := 0
	if len(steps)%2 == 0 {
		hashEvery = 2 + len(steps)%5
	}
	for i, s := range steps {
		if hashEvery > 0 && i%hashEvery == hashEvery-1 {
			ov.ChangeHash()
			intermediateHashReads.Add(1)
		}
		switch s.Kind {
		case "ov.put":
			ov.Put(s.K, s.V)
		case "ov.del":
			ov.Delete(s.K)
		case "ov.reset":
			ov.Reset()
		case "tx.put":
			cache().Put(s.K[1:], s.V)
		case "tx.del":
			cache().Delete(s.K[1:])
		case "tx.commit":
			cache().Commit()
		case "tx.reset":
			cache().Reset()
		default:
			panic("bad step " + s.Kind)
		}
	}
	return ov
}

var intermediateHashReads atomic.Int64

func writeSet(db *overlaydb.MemDB) []kvl.KV {
	var got []kvl.KV
	db.ForEach(func(k, v []byte) {
		got = append(got, kvl.KV{K: append([]byte{}, k...), V: append([]byte{}, v...)})
	})
	return got
}

func modelHash(final []kvl.KV) [32]byte {
	h := sha256.New()
	for _, kv := range final {
		h.Write(kv.K)
		h.Write(kv.V)
	}
	var out [32]byte
	h.Sum(out[:0])
	return out
}

var alphabet = []byte{0x00, 0x05, 'a', 'b', 0xff}

// genKeys builds a pool of keys of 0..40 bytes over a 5-letter alphabet; most keys are
// made by extending / varying an earlier key so that shared prefixes and
// "one is a prefix of the other" pairs are common.
func genKeys(rng *vf.RNG, n int) [][]byte {
	var pool [][]byte
	seen := map[string]bool{}
	for tries := 0; len(pool) < n && tries < 20*n; tries++ {
		var k []byte
		switch c := rng.Intn(10); {
		case c < 3 || len(pool) == 0: // fresh short key, mostly a storage key (0x05 first)
			l := rng.Intn(5)
			for j := 0; j < l; j++ {
				k = append(k, alphabet[rng.Intn(len(alphabet))])
			}
			if l > 0 && rng.Chance(60) {
				k[0] = kvl.StoragePrefix
			}
		case c < 6: // extend an existing key
			base := pool[rng.Intn(len(pool))]
			k = append(k, base...)
			ext := 1 + rng.Intn(3)
			if rng.Chance(12) {
				ext = rng.Intn(41)
			}
			for j := 0; j < ext && len(k) < 40; j++ {
				k = append(k, alphabet[rng.Intn(len(alphabet))])
			}
		case c < 8: // sibling: change the last byte
			base := pool[rng.Intn(len(pool))]
			k = append(k, base...)
			if len(k) > 0 {
				k[len(k)-1] = alphabet[rng.Intn(len(alphabet))]
			}
		default: // truncate an existing key (proper prefix)
			base := pool[rng.Intn(len(pool))]
			k = append(k, base[:rng.Intn(len(base)+1)]...)
		}
		if len(k) > 40 {
			k = k[:40]
		}
		if !seen[string(k)] {
			seen[string(k)] = true
			pool = append(pool, k)
		}
	}
	return pool
}

// persisted reports whether the shared backend store holds the key (all keys of length
// 1..3 over the alphabet are pre-populated).
func persisted(k []byte) bool {
	if len(k) < 1 || len(k) > 3 {
		return false
	}
	for _, b := range k {
		if bytes.IndexByte(alphabet, b) < 0 {
			return false
		}
	}
	return true
}

var watchdog *kvl.Watchdog

func main() {
	r := vf.NewRun("C03", "exploration",
		"each case: a pool of 1..30 keys (0..40 bytes over a 5-letter alphabet, built by extending/varying earlier keys so prefixes are shared) and a random history of 1..400 put/delete/put-empty/same-value-overwrite ops on a block overlay over a pre-populated store; its final map is then re-created by 7 differently shaped op sequences (sorted, permuted, overwrite-then-restore, delete-then-recreate, same value twice, via CacheDB transactions with discarded ones, after Reset); distinct by the final map; non-trivial when >=2 keys were touched and one of them was overwritten or deleted")
	rng := vf.NewRNG(vf.Seed())

	// shared read-only backend: every key of length 1..3 over the alphabet
	store := leveldbstore.NewMemLevelDBStore()
	defer store.Close()
	store.NewBatch()
	var gen func(prefix []byte, depth int)
	gen = func(prefix []byte, depth int) {
		if len(prefix) > 0 {
			store.BatchPut(append([]byte{}, prefix...), append([]byte("P"), prefix...))
		}
		if depth == 3 {
			return
		}
		for _, b := range alphabet {
			gen(append(append([]byte{}, prefix...), b), depth+1)
		}
	}
	gen(nil, 0)
	if err := store.BatchCommit(); err != nil {
		r.Inconclusive("cannot populate backend: " + err.Error())
		r.Finish()
	}

	watchdog = kvl.NewWatchdog(r, 60*time.Second)
	nCases := vf.N(20000, 400000)
	vf.Parallel(nCases, runtime.NumCPU(), func(i int) {
		runCase(r, store, rng.Sub(uint64(i)), i)
	})
	watchdog.Stop()

	for _, c := range []string{"final_has_tombstone", "final_tombstone_on_persisted_key", "final_tombstone_on_unpersisted_key",
		"history_overwrite_other_value", "history_overwrite_same_value", "history_delete_then_recreate", "history_put_empty_value",
		"history_delete_of_deleted", "history_put_of_persisted_value", "history_first_touch_is_put_of_persisted_value", "keys_one_prefix_of_other", "key_len_ge_32", "key_empty",
		"variant/sorted", "variant/permuted", "variant/overwrite_restore", "variant/delete_recreate", "variant/same_value_twice",
		"variant/via_cachedb", "variant/after_reset", "via_cachedb_discarded_tx", "via_cachedb_committed_tx", "deepclone_checked"} {
		r.Require(c, 20)
	}
	r.Add("intermediate_change_hash_reads", intermediateHashReads.Load())
	r.Require("intermediate_change_hash_reads", 1000)
	r.Assume("the un-delimited key||value encoding of ChangeHash is taken as the definition of the hash (collisions between different maps are not claimed absent)")
	r.Assume("keys 0..40 bytes over the alphabet {00,05,61,62,ff}; values 2..12 bytes (or empty = delete); 1..400 operations per history")
	r.Finish()
}

func runCase(r *vf.Run, store *leveldbstore.LevelDBStore, rng *vf.RNG, idx int) {
	// ---- the original random history
	nKeys := 1 + rng.Intn(30)
	if rng.Chance(10) {
		nKeys = 1 + rng.Intn(3)
	}
	pool := genKeys(rng, nKeys)
	nOps := 1 + rng.Intn(400)
	if rng.Chance(50) {
		nOps = 1 + rng.Intn(40)
	}
	final := map[string][]byte{}
	var hist []step
	valCtr := 0
	newVal := func() []byte {
		valCtr++
		v := []byte{byte(valCtr >> 8), byte(valCtr)}
		return append(v, rng.Bytes(rng.Intn(11))...)
	}
	flags := map[string]bool{}
	// share of plain puts in this history (the rest: same-value overwrite, put-empty, delete)
	putPct := []int{55, 55, 75, 92}[rng.Intn(4)]
	for n := 0; n < nOps; n++ {
		k := pool[rng.Intn(len(pool))]
		old, touched := final[string(k)]
		c := rng.Intn(100)
		if c >= putPct {
			c = 55 + (c-putPct)*45/(100-putPct)
		} else {
			c = 0
		}
		switch {
		case c < 55:
			v := newVal()
			if persisted(k) && rng.Chance(20) {
				// write exactly what the persistent store already holds: still a touched key
				v = append([]byte("P"), k...)
				flags["history_put_of_persisted_value"] = true
				if !touched {
					flags["history_first_touch_is_put_of_persisted_value"] = true
				}
			}
			if touched && len(old) != 0 {
				flags["history_overwrite_other_value"] = true
			}
			if touched && len(old) == 0 {
				flags["history_delete_then_recreate"] = true
			}
			hist = append(hist, step{"ov.put", k, v})
			final[string(k)] = v
		case c < 65 && touched && len(old) != 0:
			flags["history_overwrite_same_value"] = true
			hist = append(hist, step{"ov.put", k, old})
		case c < 70:
			flags["history_put_empty_value"] = true
			var v []byte
			if rng.Bool() {
				v = []byte{}
			}
			hist = append(hist, step{"ov.put", k, v})
			final[string(k)] = nil
		default:
			if touched && len(old) == 0 {
				flags["history_delete_of_deleted"] = true
			}
			hist = append(hist, step{"ov.del", k, nil})
			final[string(k)] = nil
		}
	}
	for f := range flags {
		r.Count(f)
	}

	// ---- the model
	keys := make([]string, 0, len(final))
	for k := range final {
		keys = append(keys, k)
	}
	sort.Strings(keys)
	var want []kvl.KV
	tomb, changed := false, false
	for i, k := range keys {
		want = append(want, kvl.KV{K: []byte(k), V: final[k]})
		if len(final[k]) == 0 {
			if !tomb {
				r.Count("final_has_tombstone")
			}
			tomb = true
			if persisted([]byte(k)) {
				r.Count("final_tombstone_on_persisted_key")
			} else {
				r.Count("final_tombstone_on_unpersisted_key")
			}
		}
		if i > 0 && len(k) > len(keys[i-1]) && k[:len(keys[i-1])] == keys[i-1] {
			r.Count("keys_one_prefix_of_other")
		}
		if len(k) >= 32 {
			r.Count("key_len_ge_32")
		}
		if len(k) == 0 {
			r.Count("key_empty")
		}
	}
	changed = flags["history_overwrite_other_value"] || flags["history_delete_then_recreate"] || tomb
	wantHash := modelHash(want)
	fp := ""
	if len(keys) >= 2 && changed {
		fp = vf.Hex(wantHash[:12])
	}
	r.Eval(fp)
	if idx < 3 {
		r.Sample(map[string]interface{}{"case": idx, "keys": len(pool), "history": stepStrings(hist[:min(len(hist), 12)]), "history_len": len(hist), "final": kvl.KVStrings(want[:min(len(want), 8)]), "hash": vf.Hex(wantHash[:])})
	}

	shape := func() string {
		s := "live-only"
		if tomb {
			s = "with-tombstone"
		}
		return s
	}
	// check runs one sequence and compares with the model; returns hash and write set.
	var curVariant string
	var curSteps []step
	beat := watchdog.Begin(func() interface{} {
		return map[string]interface{}{"case": idx, "history": stepStrings(hist), "stuck_in_variant": curVariant, "variant_ops": stepStrings(curSteps)}
	})
	defer beat.End()
	check := func(variant string, steps []step) ([32]byte, []kvl.KV, bool) {
		curVariant, curSteps = variant, steps
		defer beat.Tick()
		var hash [32]byte
		var ws []kvl.KV
		var ov *overlaydb.OverlayDB
		if p := vf.Catch(func() {
			ov = apply(store, steps)
			hash = ov.ChangeHash()
			ws = writeSet(ov.GetWriteSet())
		}); p != nil {
			r.Violation("panic:"+variant, fmt.Sprint(p), map[string]interface{}{"variant": variant, "ops": stepStrings(steps)})
			return hash, nil, false
		}
		r.Count("variant/" + variant)
		ok := true
		wit := func() map[string]interface{} {
			return map[string]interface{}{"variant": variant, "ops": stepStrings(steps), "model_final": kvl.KVStrings(want), "model_hash": vf.Hex(wantHash[:]),
				"real_hash": vf.Hex(hash[:]), "real_writeset": kvl.KVStrings(ws)}
		}
		if clause, detail := kvl.DiffWriteSet(ws, want); clause != "" {
			ok = false
			r.Violation("writeset:"+clause+":"+variant+":"+shape(), "write set differs from the model: "+detail, wit())
		}
		if hash != wantHash {
			ok = false
			r.Violation("hash-vs-model:"+variant+":"+shape(), fmt.Sprintf("ChangeHash %x, model %x", hash[:8], wantHash[:8]), wit())
		}
		if h2 := ov.ChangeHash(); h2 != hash {
			r.Violation("hash-not-repeatable:"+variant, "two ChangeHash calls on an unchanged overlay differ", wit())
		}
		if variant == "history" {
			// a deep clone of the write set enumerates the same content
			r.Count("deepclone_checked")
			clone := ov.GetWriteSet().DeepClone()
			if clause, detail := kvl.DiffWriteSet(writeSet(clone), want); clause != "" {
				r.Violation("deepclone:"+clause, "cloned write set differs from the model: "+detail, wit())
			}
		}
		return hash, ws, ok
	}

	h0, ws0, _ := check("history", hist)

	// ---- metamorphic variants: per-key op lists merged in random order
	junk := func() []byte { return append([]byte{0xee}, rng.Bytes(1+rng.Intn(6))...) }
	finalStep := func(k string) step {
		if len(final[k]) == 0 {
			if rng.Chance(25) {
				return step{"ov.put", []byte(k), nil}
			}
			return step{"ov.del", []byte(k), nil}
		}
		return step{"ov.put", []byte(k), final[k]}
	}
	perKey := func(style string) [][]step {
		lists := make([][]step, 0, len(keys))
		for _, k := range keys {
			var l []step
			switch style {
			case "overwrite_restore":
				for j := 1 + rng.Intn(2); j > 0; j-- {
					l = append(l, step{"ov.put", []byte(k), junk()})
				}
			case "delete_recreate":
				if rng.Bool() {
					l = append(l, finalStep(k))
				} else {
					l = append(l, step{"ov.put", []byte(k), junk()})
				}
				l = append(l, step{"ov.del", []byte(k), nil})
			case "same_value_twice":
				l = append(l, finalStep(k))
				if rng.Bool() {
					l = append(l, finalStep(k))
				}
			}
			l = append(l, finalStep(k))
			lists = append(lists, l)
		}
		return lists
	}
	merge := func(lists [][]step) []step {
		var out []step
		idxs := make([]int, len(lists))
		live := make([]int, 0, len(lists))
		for i := range lists {
			live = append(live, i)
		}
		for len(live) > 0 {
			p := rng.Intn(len(live))
			li := live[p]
			out = append(out, lists[li][idxs[li]])
			idxs[li]++
			if idxs[li] == len(lists[li]) {
				live[p] = live[len(live)-1]
				live = live[:len(live)-1]
			}
		}
		return out
	}
	variants := map[string][]step{}
	order := []string{"sorted", "permuted", "overwrite_restore", "delete_recreate", "same_value_twice", "via_cachedb", "after_reset"}
	for _, k := range keys {
		variants["sorted"] = append(variants["sorted"], finalStep(k))
	}
	variants["permuted"] = merge(perKey("plain"))
	variants["overwrite_restore"] = merge(perKey("overwrite_restore"))
	variants["delete_recreate"] = merge(perKey("delete_recreate"))
	variants["same_value_twice"] = merge(perKey("same_value_twice"))
	{ // via CacheDB: storage keys go through transactions, some of which are discarded
		styles := []string{"plain", "overwrite_restore", "delete_recreate", "same_value_twice"}
		base := merge(perKey(styles[rng.Intn(len(styles))]))
		var out []step
		open := false
		for _, s := range base {
			if rng.Chance(15) {
				if open {
					out = append(out, step{Kind: "tx.commit"})
					r.Count("via_cachedb_committed_tx")
					open = false
				}
				if rng.Chance(50) { // a failed transaction: writes, then Reset
					for j := 1 + rng.Intn(3); j > 0; j-- {
						k := append([]byte{kvl.StoragePrefix}, pool[rng.Intn(len(pool))]...)
						if rng.Bool() {
							out = append(out, step{"tx.put", k, junk()})
						} else {
							out = append(out, step{"tx.del", k, nil})
						}
					}
					out = append(out, step{Kind: "tx.reset"})
					r.Count("via_cachedb_discarded_tx")
				}
			}
			if len(s.K) > 0 && s.K[0] == kvl.StoragePrefix {
				if s.Kind == "ov.put" {
					s.Kind = "tx.put"
				} else {
					s.Kind = "tx.del"
				}
				open = true
			}
			out = append(out, s)
		}
		out = append(out, step{Kind: "tx.commit"})
		r.Count("via_cachedb_committed_tx")
		variants["via_cachedb"] = out
	}
	{ // the overlay is used for something else first, Reset, then filled
		var out []step
		for j := 1 + rng.Intn(20); j > 0; j-- {
			k := pool[rng.Intn(len(pool))]
			if rng.Chance(70) {
				out = append(out, step{"ov.put", k, junk()})
			} else {
				out = append(out, step{"ov.del", k, nil})
			}
		}
		out = append(out, step{Kind: "ov.reset"})
		variants["after_reset"] = append(out, merge(perKey("plain"))...)
	}
	for _, name := range order {
		h, ws, _ := check(name, variants[name])
		if ws == nil && h == ([32]byte{}) {
			continue // panicked, already reported
		}
		wit := func() map[string]interface{} {
			return map[string]interface{}{"history": stepStrings(hist), "variant": name, "variant_ops": stepStrings(variants[name]),
				"history_hash": vf.Hex(h0[:]), "variant_hash": vf.Hex(h[:]), "history_writeset": kvl.KVStrings(ws0), "variant_writeset": kvl.KVStrings(ws)}
		}
		if h != h0 {
			r.Violation("metamorphic:hash:"+name+":"+shape(), "two op sequences with the same final content give different change hashes", wit())
		}
		if !sameKVs(ws, ws0) {
			r.Violation("metamorphic:writeset:"+name+":"+shape(), "two op sequences with the same final content give different write sets", wit())
		}
	}
}

func sameKVs(a, b []kvl.KV) bool {
	if len(a) != len(b) {
		return false
	}
	for i := range a {
		if !bytes.Equal(a[i].K, b[i].K) || !bytes.Equal(a[i].V, b[i].V) {
			return false
		}
	}
	return true
}

func min(a, b int) int {
	if a < b {
		return a
	}
	return b
}
