// C04 — Layered contract storage behaves like one ordered key/value map.
//
// Model-based state machine.  The real stack CacheDB -> OverlayDB -> LevelDBStore(mem)
// is driven by a generated history; a three-layer reference model of plain Go maps
// (lib/kvl) receives the same operations.  After EVERY operation:
//   * Get at all three levels for every key of the universe equals the model,
//   * the overlay write set (ForEach) equals the model overlay, ascending, no duplicates,
//   * prefix iterators of CacheDB and OverlayDB (several prefixes of different kinds) yield
//     exactly the model's live keys with that prefix, ascending, values equal, Error()==nil.
// Each merge-iterator situation (mem-only key, backend-only key, same key on both sides,
// tombstone over a backend key, tombstone without backend key, memory side exhausted first,
// backend exhausted first, empty memory side, empty backend, ...) is counted per level from
// the MODEL's shape at iteration time; a zero count makes the run inconclusive.
package main

import (
	"crypto/sha256"
	"fmt"
	"runtime"
	"sort"
	"strings"
	"time"

	"github.com/ontio/ontology/core/store/overlaydb"
	"verifharness/lib/kvl"
	"verifharness/lib/vf"
)

var alphabet = []byte{0x00, 0x01, 'a', 0xfe, 0xff}

var nonStorage = [][]byte{{0x04}, {0x04, 'a'}, {0x04, 0xff}, {0x06}, {0x06, 0x00}, {0x06, 0xff}, {0xff}, {0xff, 0xff}, {0xff, 0xff, 0x00}, {0xff, 0x00}, {0x00}}

// genUniverse returns <= n raw keys; storage keys start with 0x05 and share prefixes.
func genUniverse(rng *vf.RNG, n int) []string {
	seen := map[string]bool{}
	var storageKeys [][]byte
	var out []string
	add := func(k []byte) {
		if !seen[string(k)] {
			seen[string(k)] = true
			out = append(out, string(k))
			if k[0] == kvl.StoragePrefix {
				storageKeys = append(storageKeys, k)
			}
		}
	}
	for tries := 0; len(out) < n && tries < 30*n; tries++ {
		c := rng.Intn(100)
		switch {
		case c < 25 || len(storageKeys) == 0:
			k := []byte{kvl.StoragePrefix}
			for j := rng.Intn(3); j > 0; j-- {
				k = append(k, alphabet[rng.Intn(len(alphabet))])
			}
			add(k)
		case c < 60:
			base := storageKeys[rng.Intn(len(storageKeys))]
			k := append(append([]byte{}, base...), alphabet[rng.Intn(len(alphabet))])
			if len(k) <= 6 {
				add(k)
			}
		case c < 75:
			base := storageKeys[rng.Intn(len(storageKeys))]
			k := append([]byte{}, base...)
			if len(k) > 1 {
				k[len(k)-1] = alphabet[rng.Intn(len(alphabet))]
				add(k)
			}
		case c < 85:
			base := storageKeys[rng.Intn(len(storageKeys))]
			add(append([]byte{}, base[:1+rng.Intn(len(base))]...))
		default:
			add(nonStorage[rng.Intn(len(nonStorage))])
		}
	}
	sort.Strings(out)
	return out
}

type machine struct {
	r        *vf.Run
	rng      *vf.RNG
	idx      int
	universe []string
	storage  []string // the universe keys reachable through CacheDB
	initial  []kvl.KV
	s        *kvl.Stack
	m        *kvl.Model
	ops      []string
	lastOp   string
	failed   bool
	valCtr   int

	counters map[string]int64 // flushed into the run at the end of the case
	beat     *kvl.Beat

	clone     *overlaydb.MemDB
	cloneSnap []kvl.KV
	cloneAt   int
}

func (mc *machine) witness(extra map[string]interface{}) map[string]interface{} {
	w := map[string]interface{}{
		"case": mc.idx, "universe": hexes(mc.universe), "initial_store": kvl.KVStrings(mc.initial), "ops": append([]string{}, mc.ops...),
		"model_persist": kvl.KVStrings(kvl.SortedLayer(kvl.Layer(mc.m.Persist))), "model_overlay": kvl.KVStrings(kvl.SortedLayer(mc.m.Overlay)), "model_tx": kvl.KVStrings(kvl.SortedLayer(mc.m.Tx)),
	}
	for k, v := range extra {
		w[k] = v
	}
	return w
}

func hexes(ss []string) []string {
	out := make([]string, len(ss))
	for i, s := range ss {
		out[i] = vf.Hex([]byte(s))
	}
	return out
}

// report is the kvl.Report of this machine: the violation key is the broken clause plus
// the kind of the operation after which it was observed.
func (mc *machine) report(clause, detail string) {
	if mc.failed {
		return
	}
	mc.failed = true
	mc.r.Violation(clause+":after="+mc.lastOp, detail, mc.witness(map[string]interface{}{"detail": detail}))
}

func (mc *machine) count(name string) { mc.counters[name]++ }

// begin records an operation BEFORE it is executed, so that the witness of a case that
// panics or hangs inside the operation names it.
func (mc *machine) begin(op string) { mc.ops = append(mc.ops, op) }

func (mc *machine) newVal() []byte {
	mc.valCtr++
	v := []byte{byte(mc.valCtr >> 8), byte(mc.valCtr)}
	return append(v, mc.rng.Bytes(mc.rng.Intn(4))...)
}

// pickPrefix chooses an iteration prefix of a named kind for a level.
func (mc *machine) pickPrefix(level string) (kind string, raw []byte) {
	rng := mc.rng
	pool := mc.universe
	if level == kvl.LvCache {
		pool = mc.storage
	}
	some := func() []byte {
		if len(pool) == 0 {
			return []byte{kvl.StoragePrefix}
		}
		return []byte(pool[rng.Intn(len(pool))])
	}
	minLen := 0
	if level == kvl.LvCache {
		minLen = 1
	}
	kinds := []string{"empty", "full_key", "full_key", "proper_prefix", "proper_prefix", "no_match", "succ_ff", "ends_ff"}
	if level == kvl.LvOverlay {
		kinds = append(kinds, "all_ff", "one_byte")
	}
	kind = kinds[rng.Intn(len(kinds))]
	switch kind {
	case "empty":
		if level == kvl.LvCache {
			raw = []byte{kvl.StoragePrefix}
		} else if rng.Bool() {
			raw = []byte{}
		}
	case "full_key":
		raw = some()
	case "proper_prefix":
		k := some()
		if len(k) <= minLen+0 {
			raw = k
			kind = "full_key"
		} else {
			raw = append([]byte{}, k[:minLen+rng.Intn(len(k)-minLen)]...)
			if len(raw) == minLen && minLen == 1 {
				kind = "empty"
			} else if len(raw) == 0 {
				kind = "empty"
			}
		}
	case "no_match":
		raw = append(some(), 0x77)
	case "succ_ff", "ends_ff":
		want := byte(0xfe)
		if kind == "ends_ff" {
			want = 0xff
		}
		// a prefix of a universe key ending in the wanted byte, else a constructed one
		var cands [][]byte
		for _, k := range pool {
			for l := minLen + 1; l <= len(k); l++ {
				if k[l-1] == want {
					cands = append(cands, []byte(k[:l]))
				}
			}
		}
		if len(cands) > 0 {
			raw = append([]byte{}, cands[rng.Intn(len(cands))]...)
		} else {
			raw = []byte{kvl.StoragePrefix, want}
		}
	case "all_ff":
		raw = [][]byte{{0xff}, {0xff, 0xff}}[rng.Intn(2)]
	case "one_byte":
		raw = [][]byte{{0x04}, {0x05}, {0x06}, {0x00}}[rng.Intn(4)]
	}
	return kind, raw
}

func (mc *machine) iterate(level string, n int) {
	for j := 0; j < n && !mc.failed; j++ {
		kind, raw := mc.pickPrefix(level)
		mc.count("prefix/" + level + "/" + kind)
		if len(mc.m.Live(level, string(raw))) > 0 {
			mc.count("prefix_with_live_keys/" + level + "/" + kind)
		}
		mc.count("iterations/" + level)
		mc.s.BetweenIter = nil
		if mc.rng.Chance(40) && len(mc.universe) > 0 {
			// reads of other keys between NewIterator and First (what a contract does between Storage.Find and
			// the first Iterator.Next): they leave the model untouched and must not disturb the iterator
			ks := []string{mc.universe[mc.rng.Intn(len(mc.universe))], mc.universe[mc.rng.Intn(len(mc.universe))]}
			mc.s.BetweenIter = func() {
				for _, k := range ks {
					if len(k) > 0 && k[0] == kvl.StoragePrefix {
						mc.s.Cache.Get([]byte(k[1:]))
					}
					mc.s.Overlay.Get([]byte(k))
				}
			}
			mc.count("iterations_with_reads_between_create_and_first/" + level)
		}
		mc.s.CheckIter(mc.m, level, raw, 4*len(mc.universe)+16, func(c, d string) { mc.report(c+":prefix="+kind, d) }, mc.count)
		mc.s.BetweenIter = nil
	}
}

func (mc *machine) checkAll(extraIters int) {
	if p := vf.Catch(func() {
		mc.s.CheckGets(mc.m, mc.universe, mc.report)
		if !mc.failed {
			mc.s.CheckWriteSet(mc.m, mc.report)
		}
		mc.iterate(kvl.LvCache, 2+extraIters)
		mc.iterate(kvl.LvOverlay, 2+extraIters)
		if !mc.failed && mc.rng.Chance(10) {
			mc.s.CheckIter(mc.m, kvl.LvStore, nil, 4*len(mc.universe)+16, mc.report, nil)
		}
	}); p != nil {
		mc.report("panic:check", fmt.Sprint(p))
	}
	mc.count("state_checks")
}

func (mc *machine) checkClone(why string) {
	if mc.clone == nil {
		return
	}
	var got []kvl.KV
	mc.clone.ForEach(func(k, v []byte) {
		got = append(got, kvl.KV{K: append([]byte{}, k...), V: append([]byte{}, v...)})
	})
	mc.count("clone_checked")
	if clause, detail := kvl.DiffWriteSet(got, mc.cloneSnap); clause != "" {
		mc.lastOp = "clone"
		mc.report("deepclone:"+clause, fmt.Sprintf("clone taken at op %d, checked %s: %s", mc.cloneAt, why, detail))
	}
	for _, kv := range mc.cloneSnap { // and Get on the clone
		v, unknown := mc.clone.Get(kv.K)
		if unknown || string(v) != string(kv.V) {
			mc.lastOp = "clone"
			mc.report("deepclone:get", fmt.Sprintf("clone taken at op %d: Get(%x)=%x unknown=%v want %x", mc.cloneAt, kv.K, v, unknown, kv.V))
		}
	}
}

func (mc *machine) step(i int) {
	rng, m, s := mc.rng, mc.m, mc.s
	anyKey := func() string { return mc.universe[rng.Intn(len(mc.universe))] }
	stKey := func() string { return mc.storage[rng.Intn(len(mc.storage))] }
	extra := 0
	var op string
	c := rng.Intn(100)
	switch {
	case c < 24:
		k, v := stKey(), mc.newVal()
		op = "tx.put " + vf.Hex([]byte(k)) + "=" + vf.Hex(v)
		mc.begin(op)
		mc.lastOp = "tx.put"
		switch {
		case len(m.TxGet(k)) != 0:
			mc.count("write/tx.put_over_live")
		default:
			_, inTx := m.Tx[k]
			_, inOv := m.Overlay[k]
			if inTx || inOv { // a tombstone in an upper layer is being overwritten
				mc.count("write/tx.put_recreate_deleted")
			}
		}
		s.Cache.Put([]byte(k)[1:], v)
		m.Tx[k] = v
	case c < 34:
		k := stKey()
		op = "tx.del " + vf.Hex([]byte(k))
		mc.begin(op)
		mc.lastOp = "tx.del"
		if len(m.TxGet(k)) == 0 {
			mc.count("write/tx.del_of_absent")
		} else if _, ok := m.Tx[k]; !ok {
			mc.count("write/tx.del_of_lower_layer_key")
		}
		s.Cache.Delete([]byte(k)[1:])
		m.Tx[k] = nil
	case c < 36:
		k := stKey()
		op = "tx.put " + vf.Hex([]byte(k)) + "="
		mc.begin(op)
		mc.lastOp = "tx.put_empty"
		s.Cache.Put([]byte(k)[1:], []byte{})
		m.Tx[k] = nil
	case c < 46:
		k, v := anyKey(), mc.newVal()
		op = "ov.put " + vf.Hex([]byte(k)) + "=" + vf.Hex(v)
		mc.begin(op)
		mc.lastOp = "ov.put"
		if _, ok := m.Tx[k]; ok {
			mc.count("write/ov.put_under_pending_tx_entry")
		}
		s.Overlay.Put([]byte(k), v)
		m.Overlay[k] = v
	case c < 51:
		k := anyKey()
		op = "ov.del " + vf.Hex([]byte(k))
		mc.begin(op)
		mc.lastOp = "ov.del"
		if len(m.Persist[k]) != 0 {
			mc.count("write/ov.del_of_persisted")
		}
		s.Overlay.Delete([]byte(k))
		m.Overlay[k] = nil
	case c < 52:
		k := anyKey()
		op = "ov.put " + vf.Hex([]byte(k)) + "="
		mc.begin(op)
		mc.lastOp = "ov.put_empty"
		s.Overlay.Put([]byte(k), nil)
		m.Overlay[k] = nil
	case c < 60:
		op, mc.lastOp = "tx.commit", "tx.commit"
		mc.begin(op)
		if len(m.Tx) == 0 {
			mc.count("tx.commit_empty")
		} else {
			mc.count("tx.commit_nonempty")
		}
		s.Cache.Commit()
		m.CommitTx()
	case c < 65:
		op, mc.lastOp = "tx.reset", "tx.reset"
		mc.begin(op)
		if len(m.Tx) != 0 {
			mc.count("tx.reset_nonempty")
		}
		s.Cache.Reset()
		m.ResetTx()
	case c < 67:
		// a new transaction cache on the same block overlay; pending writes are dropped
		op, mc.lastOp = "tx.new", "tx.new"
		mc.begin(op)
		s.FreshCache()
		m.ResetTx()
	case c < 71:
		var err error
		switch rng.Intn(4) {
		case 0: // end of block, overlay object kept as is
			op, mc.lastOp = "block.commit(keep overlay)", "block.commit_keep"
			mc.begin(op)
			err = s.CommitOverlay()
			m.CommitOverlay()
		case 1: // end of block, overlay reused after Reset; the tx cache keeps its pending writes
			op, mc.lastOp = "block.commit(overlay.Reset)", "block.commit_reset"
			mc.begin(op)
			err = s.CommitOverlay()
			s.Overlay.Reset()
			m.CommitOverlay()
			m.ClearOverlay()
		case 2: // end of block, then a fresh overlay + tx cache (what the ledger does)
			op, mc.lastOp = "block.commit(fresh overlay)", "block.commit_fresh"
			mc.begin(op)
			err = s.CommitOverlay()
			s.Fresh()
			m.CommitOverlay()
			m.ClearOverlay()
			m.ResetTx()
		default: // block abandoned
			op, mc.lastOp = "block.discard(overlay.Reset)", "block.discard"
			mc.begin(op)
			s.Overlay.Reset()
			m.ClearOverlay()
		}
		mc.count(mc.lastOp)
		if err != nil {
			mc.report("commit:error", err.Error())
			return
		}
	case c < 74:
		op, mc.lastOp = "ov.clone", "ov.clone"
		mc.begin(op)
		mc.checkClone("before re-cloning")
		mc.clone = s.Overlay.GetWriteSet().DeepClone()
		mc.cloneSnap = kvl.SortedLayer(m.Overlay)
		mc.cloneAt = i
		if rng.Bool() && len(mc.universe) > 0 { // writing to the clone must not leak into the overlay
			k, v := anyKey(), []byte{0xcc, byte(i)}
			mc.begin("clone.put " + vf.Hex([]byte(k)) + "=" + vf.Hex(v))
			mc.clone.Put([]byte(k), v)
			l := kvl.Layer{}
			for _, kv := range mc.cloneSnap {
				l[string(kv.K)] = kv.V
			}
			l[k] = v
			mc.cloneSnap = kvl.SortedLayer(l)
			mc.count("clone_written")
		}
	default:
		op, mc.lastOp = "iterate", "iterate"
		mc.begin(op)
		extra = 3
	}
	mc.checkAll(extra)
	mc.beat.Tick()
}

func runCase(r *vf.Run, rng *vf.RNG, idx int) {
	mc := &machine{r: r, rng: rng, idx: idx, m: kvl.NewModel(), counters: map[string]int64{}}
	defer func() {
		for k, v := range mc.counters {
			r.Add(k, v)
		}
	}()
	n := 4 + rng.Intn(21)
	if rng.Chance(10) {
		n = 1 + rng.Intn(4)
	}
	mc.universe = genUniverse(rng, n)
	for _, k := range mc.universe {
		if k[0] == kvl.StoragePrefix {
			mc.storage = append(mc.storage, k)
		}
	}
	if len(mc.storage) == 0 {
		mc.universe = append(mc.universe, string([]byte{kvl.StoragePrefix, 'a'}))
		sort.Strings(mc.universe)
		mc.storage = []string{string([]byte{kvl.StoragePrefix, 'a'})}
	}
	mc.s = kvl.AcquireStack()
	defer mc.s.Release()
	mc.beat = watchdog.Begin(func() interface{} {
		return mc.witness(map[string]interface{}{"stuck": "the last entry of ops (or the state check after it) never returned"})
	})
	defer mc.beat.End()
	// pre-populate the persistent store
	pct := []int{0, 30, 60, 100}[rng.Intn(4)]
	for j, k := range mc.universe {
		if rng.Chance(pct) {
			v := []byte{'P', byte(j)}
			mc.initial = append(mc.initial, kvl.KV{K: []byte(k), V: v})
			mc.m.Persist[k] = v
		}
	}
	if err := mc.s.Populate(mc.initial); err != nil {
		r.Inconclusive("cannot populate store: " + err.Error())
		return
	}
	mc.lastOp = "populate"
	mc.checkAll(1)
	nOps := 20 + rng.Intn(230)
	writes := 0
	for i := 0; i < nOps && !mc.failed; i++ {
		if p := vf.Catch(func() { mc.step(i) }); p != nil {
			mc.report("panic:op", fmt.Sprint(p))
		}
		if mc.lastOp != "iterate" {
			writes++
		}
	}
	if !mc.failed {
		if p := vf.Catch(func() { mc.checkClone("at the end of the history") }); p != nil {
			mc.lastOp = "clone"
			mc.report("panic:deepclone", fmt.Sprint(p))
		}
	}
	r.Add("ops", int64(len(mc.ops)))
	fp := ""
	if writes >= 2 && len(mc.universe) >= 2 {
		h := sha256.Sum256([]byte(strings.Join(mc.ops, "\n") + "|" + strings.Join(mc.universe, "\x00")))
		fp = vf.Hex(h[:10])
	}
	r.Eval(fp)
	if idx < 3 {
		r.Sample(map[string]interface{}{"case": idx, "universe": hexes(mc.universe), "initial_store": kvl.KVStrings(mc.initial), "ops_total": len(mc.ops), "first_ops": mc.ops[:minInt(len(mc.ops), 25)]})
	}
}

func minInt(a, b int) int {
	if a < b {
		return a
	}
	return b
}

var watchdog *kvl.Watchdog

func main() {
	r := vf.NewRun("C04", "exploration",
		"each case: a universe of <=25 raw keys (storage keys 0x05.. of 1..6 bytes over {00,01,61,fe,ff} sharing prefixes, plus a few keys of other data-entry prefixes), a random part of it pre-populated in a memory LevelDB, then a history of 20..250 ops (tx put/delete/commit/reset/new, direct overlay put/delete, block commit keep/Reset/fresh, block discard, write-set DeepClone, extra iterations) on the real CacheDB->OverlayDB->store stack with the full oracle after every op; distinct by (universe, op sequence); non-trivial when >=2 state-changing ops")
	rng := vf.NewRNG(vf.Seed())
	watchdog = kvl.NewWatchdog(r, 60*time.Second)
	nCases := vf.N(1500, 24000)
	vf.Parallel(nCases, runtime.NumCPU(), func(i int) { runCase(r, rng.Sub(uint64(i)), i) })

	watchdog.Stop()
	for _, lv := range []string{kvl.LvCache, kvl.LvOverlay} {
		for _, c := range kvl.JoinCases {
			r.Require(lv+"/"+c, 50)
		}
		for _, k := range []string{"empty", "full_key", "proper_prefix", "no_match", "succ_ff", "ends_ff"} {
			r.Require("prefix/"+lv+"/"+k, 50)
			if k != "no_match" {
				r.Require("prefix_with_live_keys/"+lv+"/"+k, 20)
			}
		}
	}
	r.Require("prefix/overlay/all_ff", 50)
	r.Require("iterations_with_reads_between_create_and_first/cache", 200)
	r.Require("iterations_with_reads_between_create_and_first/overlay", 200)
	r.Require("prefix_with_live_keys/overlay/all_ff", 20)
	for _, c := range []string{"tx.commit_nonempty", "tx.reset_nonempty", "block.commit_keep", "block.commit_reset", "block.commit_fresh", "block.discard",
		"clone_checked", "clone_written", "write/tx.put_over_live", "write/tx.put_recreate_deleted", "write/tx.del_of_lower_layer_key", "write/tx.del_of_absent",
		"write/ov.put_under_pending_tx_entry", "write/ov.del_of_persisted"} {
		r.Require(c, 20)
	}
	kvl.ClosePool()
	r.Assume("a memory LevelDB whose keys were all deleted (verified by a full iteration) is reused for the next case as if it were new")
	r.Assume("single goroutine per stack (the storage layers are not specified for concurrent use); raw keys never empty; store written only through OverlayDB.CommitTo+BatchCommit after pre-population")
	r.Assume("Put with an empty value is a delete (documented MemDB semantics)")
	r.Finish()
}
