// C05, block compositions.  Every kind of failing invoke transaction is placed inside a block between
// successful transactions of every kind (NeoVM invoke, native invoke, deploy, EVM transfer, EVM call that
// writes storage).  Oracle (write-set rule): the block's effect on the state must equal the effect of the
// SAME block without the transactions that failed, except that every failed transaction's payer holds
// GasConsumed less ONG and the governance contract holds the sum more.  The rule is evaluated on the
// block executor's write set for every block, and on the committed state + stored event notifications
// for every committed one.  All keys of the state are compared byte for byte (contract storage 0x05,
// contract records 0x04, destroyed markers 0x06, EVM code 0x30 / accounts 0x31).
package main

import (
	"encoding/hex"
	"fmt"
	"math/big"
	"sort"
	"strings"

	ethcom "github.com/ethereum/go-ethereum/common"
	"github.com/ethereum/go-ethereum/crypto"
	"github.com/ontio/ontology/account"
	"github.com/ontio/ontology/common"
	"github.com/ontio/ontology/core/payload"
	"github.com/ontio/ontology/core/store"
	"github.com/ontio/ontology/core/types"
	"github.com/ontio/ontology/smartcontract/event"
	"github.com/ontio/ontology/smartcontract/service/native/ont"
	nutils "github.com/ontio/ontology/smartcontract/service/native/utils"
	"github.com/ontio/ontology/vm/neovm"
	"verifharness/lib/chain"
	"verifharness/lib/vf"
)

const (
	ampleTarget = 1000000000000000 // base units of ONG held by a well funded payer
	createGas   = 20000000
)

var statePrefixes = map[byte]string{0x04: "contract-record", 0x05: "storage", 0x06: "destroyed-marker", 0x30: "evm-code", 0x31: "evm-account"}

type env struct {
	r        *vf.Run
	w        *chain.World
	c        *chain.Chain
	tag      string
	dump     map[string]string
	ample    []*account.Account
	low      []*account.Account
	lowBal   []uint64
	stranger *account.Account // signs for payers that do not sign themselves; owns nothing
	eth      [2]*chain.EthAccount
	ethNonce [2]uint64
	ethSink  ethcom.Address
	sstore   ethcom.Address // EVM contract: SSTORE(calldata[32:64], calldata[0:32])
	sdEmpty  common.Address // NeoVM contract without storage whose false branch destroys it
	sdFull   common.Address // the same with storage entries
	smFull   common.Address // NeoVM contract with storage whose false branch migrates it
	seq      int
	samples  int
}

// branchContract: called with [..., op]; op=true => Storage.Put(key, value) with [value, key] below it,
// op=false => falseBranch.
func branchContract(salt byte, falseBranch []byte) []byte {
	put := chain.NewAsm().Syscall("System.Storage.GetContext").Syscall("System.Storage.Put").Op(neovm.RET).Bytes()
	pre := chain.NewAsm().Push([]byte{salt, 0xc5}).Op(neovm.DROP).Bytes()
	off := 3 + len(put)
	code := append([]byte{}, pre...)
	code = append(code, byte(neovm.JMPIFNOT), byte(off), byte(off>>8))
	code = append(code, put...)
	return append(code, falseBranch...)
}

func selfDestructCode(salt byte) []byte {
	return branchContract(salt, chain.NewAsm().Syscall("System.Contract.Destroy").Op(neovm.RET).Bytes())
}

func selfMigrateCode(salt byte) []byte {
	return branchContract(salt, chain.NewAsm().Syscall("Ontology.Contract.Migrate").Op(neovm.DROP).Op(neovm.RET).Bytes())
}

// pushContract pushes the seven arguments of Contract.Create / Contract.Migrate.
func pushContract(a *chain.Asm, code []byte) *chain.Asm {
	return a.Push([]byte("d")).Push([]byte("e@e")).Push([]byte("a")).Push([]byte("1")).Push([]byte("c05")).PushInt(int64(payload.NEOVM_TYPE)).Push(code)
}

// freshCode is a tiny valid NeoVM program, distinct per (n, tag).
func freshCode(n int, tag byte) []byte {
	return chain.NewAsm().Push([]byte{byte(n), byte(n >> 8), byte(n >> 16), tag, 0x77}).Op(neovm.DROP).Op(neovm.RET).Bytes()
}

func evmInit(runtime []byte) []byte {
	pre := []byte{0x60, byte(len(runtime)), 0x80, 0x60, 0x0b, 0x60, 0x00, 0x39, 0x60, 0x00, 0xf3}
	return append(pre, runtime...)
}

func cat(parts ...[]byte) []byte {
	var o []byte
	for _, p := range parts {
		o = append(o, p...)
	}
	return o
}

func balUnits(dump map[string]string, a common.Address) uint64 {
	return new(big.Int).Div(decodeBal(dump[ongKey(a)]), scale).Uint64()
}

func (e *env) commit(txs []*types.Transaction, what string) {
	b, err := e.c.MakeBlock(txs, 0)
	if err != nil {
		panic(err)
	}
	res, err := e.c.CommitExec(b)
	if err != nil {
		panic(fmt.Sprintf("%s: %v", what, err))
	}
	for i, n := range res.Notify {
		if n.State != event.CONTRACT_STATE_SUCCESS {
			panic(fmt.Sprintf("%s: transaction %d failed", what, i))
		}
	}
	_, _, e.dump = e.c.DumpState()
}

func (e *env) setup() {
	w := e.w
	var txs []*types.Transaction
	fund := func(asset string, to common.Address, v uint64) {
		t, err := w.TB.TransferTx(asset, w.BK, to, v, 0, 20000)
		if err != nil {
			panic(err)
		}
		txs = append(txs, t)
	}
	for i := 0; i < 6; i++ {
		p := chain.DetAccount(fmt.Sprintf("%s/comp-ample%d", e.tag, i))
		e.ample = append(e.ample, p)
		fund("ong", p.Address, ampleTarget)
		fund("ont", p.Address, 1000)
	}
	e.lowBal = []uint64{0, 1, 20000*500 - 1, 20000*2500 - 1}
	for i, b := range e.lowBal {
		p := chain.DetAccount(fmt.Sprintf("%s/comp-low%d", e.tag, i))
		e.low = append(e.low, p)
		if b > 0 {
			fund("ong", p.Address, b)
		}
	}
	e.stranger = chain.DetAccount(e.tag + "/comp-stranger")
	for i := range e.eth {
		e.eth[i] = chain.DetEthAccount(fmt.Sprintf("%s/comp-eth%d", e.tag, i))
		fund("ong", e.eth[i].OntAddr(), 5000000000000000)
	}
	e.ethSink = chain.DetEthAccount(e.tag + "/comp-sink").Addr
	for _, d := range []struct {
		code []byte
		at   *common.Address
	}{{selfDestructCode(1), &e.sdEmpty}, {selfDestructCode(2), &e.sdFull}, {selfMigrateCode(3), &e.smFull}} {
		mt, err := w.TB.Deploy(0, 30000000, d.code, "c05")
		if err != nil {
			panic(err)
		}
		chain.Sign(mt, w.BK)
		txs = append(txs, chain.Immutable(mt))
		*d.at = common.AddressFromVmCode(d.code)
	}
	e.commit(txs, "composition setup 1")
	// EVM storage contract + storage entries of the self-destructing / self-migrating contracts
	txs = nil
	ct, err := chain.EvmTx(e.eth[0], 0, nil, big.NewInt(0), 300000, 2500, evmInit([]byte{0x60, 0x00, 0x35, 0x60, 0x20, 0x35, 0x55, 0x00}))
	if err != nil {
		panic(err)
	}
	e.ethNonce[0] = 1
	e.sstore = crypto.CreateAddress(e.eth[0].Addr, 0)
	txs = append(txs, ct)
	for _, a := range []common.Address{e.sdFull, e.smFull} {
		for k := 0; k < 3; k++ {
			mt := w.TB.Invoke(0, 100000, chain.KVInvoke(a, []byte{'s', byte(k)}, []byte{9, byte(k)}, true))
			chain.Sign(mt, w.Accts[0])
			txs = append(txs, chain.Immutable(mt))
		}
	}
	e.commit(txs, "composition setup 2")
	for _, a := range []common.Address{e.sdEmpty, e.sdFull, e.smFull} {
		if e.dump[string(append([]byte{0x04}, a[:]...))] == "" {
			panic("composition setup: contract record missing")
		}
	}
	if e.dump[string(append(append([]byte{0x05}, e.sdFull[:]...), 's', 1))] == "" || e.dump[string(append(append([]byte{0x05}, e.smFull[:]...), 's', 1))] == "" {
		panic("composition setup: contract storage missing")
	}
	if e.dump[string(append([]byte{0x31}, e.sstore[:]...))] == "" {
		panic("composition setup: EVM contract account missing")
	}
}

// maintain restores the graded balances of the dedicated payers after a committed block.
func (e *env) maintain() {
	var txs []*types.Transaction
	top := func(p *account.Account, want, floor uint64) {
		have := balUnits(e.dump, p.Address)
		if have < floor {
			t, err := e.w.TB.TransferTx("ong", e.w.BK, p.Address, want-have, 0, 20000)
			if err != nil {
				panic(err)
			}
			txs = append(txs, t)
		}
	}
	for _, p := range e.ample {
		top(p, ampleTarget, ampleTarget/2)
	}
	for i, p := range e.low {
		top(p, e.lowBal[i], e.lowBal[i])
	}
	if len(txs) > 0 {
		e.commit(txs, "composition maintenance")
		e.r.Count("comp_payers_regraded")
	}
}

// ---------------------------------------------------------------- transactions of a composed block

type ctx struct {
	tx       *types.Transaction
	kind     string
	wantFail bool
	payer    common.Address
	signed   bool
	price    uint64
	limit    uint64
}

type failKind struct {
	name      string
	needPrice bool // fails only when a fee is due
	low       bool // payer with (almost) no ONG
	unsigned  bool // the named payer is not among the signers
	build     func(e *env, rng *vf.RNG, payer *account.Account, bal uint64, n int) (code []byte, limit uint64)
}

func throwOr(rng *vf.RNG) []byte {
	switch rng.Intn(6) {
	case 0:
		return []byte{byte(neovm.PUSH1), byte(neovm.PUSH0), byte(neovm.DIV)} // division by zero
	case 1:
		return []byte{byte(neovm.PUSH0), byte(neovm.THROWIFNOT)}
	}
	return []byte{byte(neovm.THROW)}
}

var loopForever = []byte{byte(neovm.PUSH1), byte(neovm.DROP), byte(neovm.JMP), 0xfe, 0xff}

func (e *env) put(rng *vf.RNG) []byte {
	return chain.KVInvoke(e.w.KV, []byte(fmt.Sprintf("c%d", rng.Intn(6))), rng.Bytes(1+rng.Intn(8)), true)
}

func (e *env) ongTransfer(from *account.Account, rng *vf.RNG, v uint64) []byte {
	to := e.w.Accts[rng.Intn(len(e.w.Accts))]
	return nativeCode(nutils.OngContractAddress, "transfer", []interface{}{[]*ont.TransferState{{From: from.Address, To: to.Address, Value: v}}})
}

func create(n int, tag byte) []byte {
	return pushContract(chain.NewAsm(), freshCode(n, tag)).Syscall("Ontology.Contract.Create").Op(neovm.DROP).Bytes()
}

var failKinds = []failKind{
	{name: "storage-put+fault", build: func(e *env, rng *vf.RNG, p *account.Account, bal uint64, n int) ([]byte, uint64) {
		return cat(e.put(rng), throwOr(rng)), 100000
	}},
	{name: "ong-transfer+fault", build: func(e *env, rng *vf.RNG, p *account.Account, bal uint64, n int) ([]byte, uint64) {
		return cat(e.ongTransfer(p, rng, uint64(rng.Intn(100000)+1)), throwOr(rng)), 100000
	}},
	{name: "ont-transfer+fault", build: func(e *env, rng *vf.RNG, p *account.Account, bal uint64, n int) ([]byte, uint64) {
		to := e.w.Accts[rng.Intn(len(e.w.Accts))]
		return cat(nativeCode(nutils.OntContractAddress, "transfer", []interface{}{[]*ont.TransferState{{From: p.Address, To: to.Address, Value: uint64(rng.Intn(5) + 1)}}}), throwOr(rng)), 100000
	}},
	{name: "contract-create-only+fault", build: func(e *env, rng *vf.RNG, p *account.Account, bal uint64, n int) ([]byte, uint64) {
		return cat(create(n, 1), throwOr(rng)), 30000000
	}},
	{name: "contract-create+put+fault", build: func(e *env, rng *vf.RNG, p *account.Account, bal uint64, n int) ([]byte, uint64) {
		return cat(create(n, 2), e.put(rng), throwOr(rng)), 30000000
	}},
	{name: "destroy-storageless-contract+fault", build: func(e *env, rng *vf.RNG, p *account.Account, bal uint64, n int) ([]byte, uint64) {
		return cat(chain.KVInvoke(e.sdEmpty, []byte("k"), []byte("v"), false), throwOr(rng)), 100000
	}},
	{name: "destroy-contract-with-storage+fault", build: func(e *env, rng *vf.RNG, p *account.Account, bal uint64, n int) ([]byte, uint64) {
		return cat(chain.KVInvoke(e.sdFull, []byte("k"), []byte("v"), false), throwOr(rng)), 100000
	}},
	{name: "migrate-entry-script-only+fault", build: func(e *env, rng *vf.RNG, p *account.Account, bal uint64, n int) ([]byte, uint64) {
		return cat(pushContract(chain.NewAsm(), freshCode(n, 3)).Syscall("Ontology.Contract.Migrate").Op(neovm.DROP).Bytes(), throwOr(rng)), 30000000
	}},
	{name: "migrate-contract-with-storage+fault", build: func(e *env, rng *vf.RNG, p *account.Account, bal uint64, n int) ([]byte, uint64) {
		return cat(pushContract(chain.NewAsm(), freshCode(n, 4)).PushBool(false).AppCall(e.smFull).Bytes(), throwOr(rng)), 30000000
	}},
	{name: "notify-only+fault", build: func(e *env, rng *vf.RNG, p *account.Account, bal uint64, n int) ([]byte, uint64) {
		return cat(chain.NewAsm().Push([]byte("leak")).Syscall("System.Runtime.Notify").Bytes(), throwOr(rng)), 100000
	}},
	{name: "storage-put+out-of-gas", build: func(e *env, rng *vf.RNG, p *account.Account, bal uint64, n int) ([]byte, uint64) {
		return cat(e.put(rng), loopForever), 25000 + uint64(rng.Intn(2000))
	}},
	{name: "contract-create-only+out-of-gas", build: func(e *env, rng *vf.RNG, p *account.Account, bal uint64, n int) ([]byte, uint64) {
		return cat(create(n, 5), loopForever), createGas + 500 + uint64(rng.Intn(2000))
	}},
	{name: "balance-below-minimum-fee", needPrice: true, low: true, build: func(e *env, rng *vf.RNG, p *account.Account, bal uint64, n int) ([]byte, uint64) {
		return e.put(rng), 100000
	}},
	{name: "balance-spent-inside(fee unpayable)", needPrice: true, build: func(e *env, rng *vf.RNG, p *account.Account, bal uint64, n int) ([]byte, uint64) {
		return cat(e.put(rng), e.ongTransfer(p, rng, bal-uint64(rng.Intn(20000)))), 100000
	}},
	{name: "storage-put+unauthorised-ont-transfer", build: func(e *env, rng *vf.RNG, p *account.Account, bal uint64, n int) ([]byte, uint64) {
		from := e.w.Accts[rng.Intn(len(e.w.Accts))]
		return cat(e.put(rng), nativeCode(nutils.OntContractAddress, "transfer", []interface{}{[]*ont.TransferState{{From: from.Address, To: p.Address, Value: 1}}})), 100000
	}},
	{name: "storage-put+native-transfer-second-state-fails", build: func(e *env, rng *vf.RNG, p *account.Account, bal uint64, n int) ([]byte, uint64) {
		to := e.w.Accts[rng.Intn(len(e.w.Accts))]
		sts := []*ont.TransferState{{From: p.Address, To: to.Address, Value: 1}, {From: p.Address, To: to.Address, Value: ^uint64(0) >> 2}}
		return cat(e.put(rng), nativeCode(nutils.OngContractAddress, "transfer", []interface{}{sts})), 100000
	}},
	{name: "payer-did-not-sign:storage-put+fault", unsigned: true, build: func(e *env, rng *vf.RNG, p *account.Account, bal uint64, n int) ([]byte, uint64) {
		return cat(e.put(rng), throwOr(rng)), 100000
	}},
	{name: "payer-did-not-sign:contract-create-only+fault", unsigned: true, build: func(e *env, rng *vf.RNG, p *account.Account, bal uint64, n int) ([]byte, uint64) {
		return cat(create(n, 6), throwOr(rng)), 30000000
	}},
	{name: "payer-did-not-sign:script-succeeds(fee refused)", unsigned: true, needPrice: true, build: func(e *env, rng *vf.RNG, p *account.Account, bal uint64, n int) ([]byte, uint64) {
		return e.put(rng), 100000
	}},
}

var succKinds = []string{"neovm-invoke", "native-invoke", "deploy", "evm-transfer", "evm-call-sstore"}

// blockBuilder hands out dedicated payers (one failing transaction each) and EVM nonces for one block.
type blockBuilder struct {
	e        *env
	n        int
	usedPay  map[common.Address]bool
	ethNonce [2]uint64
	slot     int
}

func (e *env) newBlock() *blockBuilder {
	e.seq++
	return &blockBuilder{e: e, n: e.seq, usedPay: map[common.Address]bool{}, ethNonce: e.ethNonce}
}

func (bb *blockBuilder) fail(k int, rng *vf.RNG) ctx {
	e := bb.e
	fk := failKinds[k]
	var price uint64
	switch rng.Intn(5) {
	case 0:
		price = 0
	case 1, 2:
		price = 500
	default:
		price = 2500
	}
	if fk.needPrice && price == 0 {
		price = 500
	}
	pool := e.ample
	if fk.low {
		pool = nil
		for i, p := range e.low {
			if e.lowBal[i] < 20000*price {
				pool = append(pool, p)
			}
		}
	}
	start := rng.Intn(len(pool))
	var payer *account.Account
	for i := range pool {
		if p := pool[(start+i)%len(pool)]; !bb.usedPay[p.Address] {
			payer = p
			break
		}
	}
	if payer == nil {
		payer = pool[start]
	}
	bb.usedPay[payer.Address] = true
	bb.slot++
	code, limit := fk.build(e, rng, payer, balUnits(e.dump, payer.Address), bb.n*8+bb.slot)
	mt := e.w.TB.Invoke(price, limit, code)
	mt.Payer = payer.Address
	signer := payer
	if fk.unsigned {
		signer = e.stranger
	}
	if err := chain.Sign(mt, signer); err != nil {
		panic(err)
	}
	return ctx{tx: chain.Immutable(mt), kind: fk.name, wantFail: true, payer: payer.Address, signed: !fk.unsigned, price: price, limit: limit}
}

func (bb *blockBuilder) succ(k int, rng *vf.RNG) ctx {
	e := bb.e
	w := e.w
	bb.slot++
	from := w.Accts[rng.Intn(len(w.Accts))]
	price := uint64(0)
	if rng.Bool() {
		price = 2500
	}
	out := ctx{kind: succKinds[k], payer: from.Address, signed: true, price: price}
	switch succKinds[k] {
	case "neovm-invoke":
		mt := w.TB.Invoke(price, 60000, chain.KVInvoke(w.KV, []byte(fmt.Sprintf("s%d", rng.Intn(4))), rng.Bytes(1+rng.Intn(6)), true))
		chain.Sign(mt, from)
		out.tx, out.limit = chain.Immutable(mt), 60000
	case "native-invoke":
		to := w.Accts[rng.Intn(len(w.Accts))]
		t, err := w.TB.TransferTx("ong", from, to.Address, uint64(rng.Intn(1000000)+1), price, 30000)
		if err != nil {
			panic(err)
		}
		out.tx, out.limit = t, 30000
	case "deploy":
		if price != 0 {
			price = 500
			out.price = price
		}
		mt, err := w.TB.Deploy(price, 30000000, freshCode(bb.n*8+bb.slot, 9), "c05s")
		if err != nil {
			panic(err)
		}
		chain.Sign(mt, from)
		out.tx, out.limit = chain.Immutable(mt), 30000000
	case "evm-transfer", "evm-call-sstore":
		s := rng.Intn(2)
		to, limit, data := e.ethSink, uint64(30000), []byte(nil)
		value := big.NewInt(int64(rng.Intn(1000)+1) * chain.GWei)
		if succKinds[k] == "evm-call-sstore" {
			data = make([]byte, 64)
			copy(data[24:32], rng.Bytes(8))
			data[31] |= 1 // never zero
			data[63] = byte(rng.Intn(4))
			to, limit, value = e.sstore, 120000, big.NewInt(0)
		}
		t, err := chain.EvmTx(e.eth[s], bb.ethNonce[s], &to, value, limit, 2500, data)
		if err != nil {
			panic(err)
		}
		bb.ethNonce[s]++
		out.tx, out.limit, out.payer, out.price = t, limit, e.eth[s].OntAddr(), 2500
	}
	return out
}

// ---------------------------------------------------------------- oracle

func effectOf(dump map[string]string, res store.ExecuteResult) map[string]string {
	eff := map[string]string{}
	res.WriteSet.ForEach(func(k, v []byte) {
		if dump[string(k)] != string(v) {
			eff[string(k)] = string(v)
		}
	})
	return eff
}

func dumpDelta(before, after map[string]string) map[string]string {
	eff := map[string]string{}
	for k, v := range after {
		if _, ok := statePrefixes[k[0]]; ok && before[k] != v {
			eff[k] = v
		}
	}
	for k := range before {
		if _, ok := statePrefixes[k[0]]; ok {
			if _, still := after[k]; !still {
				eff[k] = ""
			}
		}
	}
	return eff
}

func valueAfter(dump, eff map[string]string, k string) string {
	if v, ok := eff[k]; ok {
		return v
	}
	return dump[k]
}

func (e *env) witness(txs []ctx, states []byte, extra map[string]interface{}) map[string]interface{} {
	var l []map[string]interface{}
	for i, t := range txs {
		m := map[string]interface{}{"kind": t.kind, "gas_price": t.price, "gas_limit": t.limit, "payer": t.payer.ToHexString(), "payer_signed": t.signed, "raw_tx_hex": hex.EncodeToString(t.tx.ToArray())}
		if i < len(states) {
			m["state"] = states[i]
		}
		l = append(l, m)
	}
	w := map[string]interface{}{"block_height": e.c.Ledger.GetCurrentBlockHeight() + 1, "block_transactions": l,
		"reference": "the same block without the transactions whose state is 0"}
	for k, v := range extra {
		w[k] = v
	}
	return w
}

// judge applies the write-set rule and the fee equation to one observed effect of the block `txs`:
// eff is what the block changed (against e.dump), notif the per-transaction notifications of that
// execution, ref the effect of the reference block, failed the indices of the failed transactions.
func (e *env) judge(via string, txs []ctx, eff map[string]string, notif []*event.ExecuteNotify, ref map[string]string, failed []int, shape string) {
	r := e.r
	gov := nutils.GovernanceContractAddress
	gk := ongKey(gov)
	states := make([]byte, len(notif))
	for i, n := range notif {
		states[i] = n.State
	}
	feeOf := map[string]*big.Int{}   // ONG key of a payer -> fees reported for its failed transactions
	kindOf := map[string]string{}    // ONG key of a payer -> kind of its failed transaction
	total := new(big.Int)            // all fees reported for failed transactions
	failedKinds := map[string]bool{} // for the violation key
	for _, i := range failed {
		t, n := txs[i], notif[i]
		fee := new(big.Int).Mul(new(big.Int).SetUint64(n.GasConsumed), scale)
		pk := ongKey(t.payer)
		if feeOf[pk] == nil {
			feeOf[pk] = new(big.Int)
		}
		feeOf[pk].Add(feeOf[pk], fee)
		kindOf[pk] = t.kind
		total.Add(total, fee)
		failedKinds[t.kind] = true
		id := func() map[string]interface{} {
			return e.witness(txs, states, map[string]interface{}{"observed_via": via, "failed_index": i, "gas_consumed": n.GasConsumed})
		}
		if t.price == 0 && n.GasConsumed != 0 {
			r.Violation("gas-consumed-at-gas-price-0:"+t.kind, fmt.Sprintf("GasConsumed %d reported for a failed transaction with gas price 0", n.GasConsumed), id())
		}
		if fee.Cmp(decodeBal(e.dump[pk])) > 0 {
			r.Violation("fee-exceeds-balance:"+t.kind, fmt.Sprintf("GasConsumed %d (=%s) but the payer owned %s", n.GasConsumed, fee, decodeBal(e.dump[pk])), id())
		}
		if bad := badFeeEvent(n, t.payer); bad != "" {
			r.Violation("failed-tx-event-survives:"+t.kind, bad, id())
		}
		if n.GasConsumed == 0 && len(n.Notify) != 0 {
			r.Violation("fee-event-without-fee:"+t.kind, "notify present but GasConsumed is 0", id())
		}
		switch {
		case n.GasConsumed > 0:
			r.Count("comp_fee_charged/" + via)
		case t.price == 0:
			r.Count("comp_no_fee_gas_price_0/" + via)
		case !t.signed:
			r.Count("comp_no_fee_payer_did_not_sign/" + via)
		default:
			r.Count("comp_no_fee_empty_balance/" + via)
		}
		if t.price > 0 && new(big.Int).Mul(new(big.Int).SetUint64(20000*t.price), scale).Cmp(decodeBal(e.dump[pk])) > 0 && t.signed {
			r.Count("comp_fee_is_whole_balance_path/" + via)
		}
	}
	var fk []string
	for k := range failedKinds {
		fk = append(fk, k)
	}
	sort.Strings(fk)
	fkey := strings.Join(fk, "+")
	if len(fk) > 1 {
		fkey = "several-failed-kinds"
	}
	keys := map[string]bool{}
	for k := range eff {
		keys[k] = true
	}
	for k := range ref {
		keys[k] = true
	}
	keys[gk] = true
	for pk := range feeOf {
		keys[pk] = true
	}
	sorted := make([]string, 0, len(keys))
	for k := range keys {
		sorted = append(sorted, k)
	}
	sort.Strings(sorted)
	reported := map[string]bool{}
	for _, k := range sorted {
		got, want := valueAfter(e.dump, eff, k), valueAfter(e.dump, ref, k)
		fee, isPayer := feeOf[k]
		if isPayer || k == gk {
			g, wnt := decodeBal(got), decodeBal(want)
			who := "payer"
			if k == gk {
				wnt = new(big.Int).Add(wnt, total)
				who = "governance"
			} else {
				wnt = new(big.Int).Sub(wnt, fee)
			}
			if g.Cmp(wnt) != 0 {
				kind := fkey
				if isPayer {
					kind = kindOf[k]
				}
				vk := "gas-consumed-differs-from-fee-moved-in-block:" + who + ":" + kind
				if !reported[vk] {
					reported[vk] = true
					r.Violation(vk, fmt.Sprintf("%s ONG balance after the block is %s; the reference block leaves %s and the failed transactions report fees of %s, so %s was expected (%s)", who, g, decodeBal(want), map[bool]*big.Int{true: fee, false: total}[isPayer], wnt, via),
						e.witness(txs, states, map[string]interface{}{"observed_via": via, "shape": shape, "key_hex": hex.EncodeToString([]byte(k))}))
				}
			}
			continue
		}
		if got != want {
			cls := statePrefixes[k[0]]
			if cls == "" {
				cls = fmt.Sprintf("prefix-%02x", k[0])
			}
			vk := "failed-tx-effect-survives-in-block:" + cls + ":" + fkey
			if !reported[vk] {
				reported[vk] = true
				r.Violation(vk, fmt.Sprintf("key %x is [%s] after the block but [%s] after the same block without its failed transactions (%s)", k, vf.HexTrunc([]byte(got), 48), vf.HexTrunc([]byte(want), 48), via),
					e.witness(txs, states, map[string]interface{}{"observed_via": via, "shape": shape, "key_hex": hex.EncodeToString([]byte(k))}))
			}
		}
	}
}

// badFeeEvent: a failed transaction may report only the fee transfer payer -> governance.
func badFeeEvent(n *event.ExecuteNotify, payer common.Address) string {
	for _, ev := range n.Notify {
		ok := ev.ContractAddress == nutils.OngContractAddress
		if ok {
			if st, isList := ev.States.([]interface{}); !isList || len(st) != 4 || fmt.Sprint(st[0]) != "transfer" || fmt.Sprint(st[1]) != payer.ToBase58() || fmt.Sprint(st[2]) != nutils.GovernanceContractAddress.ToBase58() {
				ok = false
			}
		}
		if !ok {
			return fmt.Sprintf("event from %s: %v", ev.ContractAddress.ToHexString(), ev.States)
		}
	}
	return ""
}

func blockOf(txs []ctx) []*types.Transaction {
	out := make([]*types.Transaction, len(txs))
	for i, t := range txs {
		out[i] = t.tx
	}
	return out
}

// evalBlock executes one composed block and its reference; commit says whether the block is then
// committed (alternating the consensus and the sync path) and judged again on the committed state.
func (e *env) evalBlock(bb *blockBuilder, txs []ctx, shape string, commit bool) {
	r := e.r
	c := e.c
	full, err := c.MakeBlock(blockOf(txs), 0)
	if err != nil {
		panic(err)
	}
	resF, err := c.Ledger.ExecuteBlock(full)
	if err != nil {
		r.Count("comp_block_rejected")
		r.Inconclusive("a composed block was rejected as a whole: " + err.Error())
		r.Eval("")
		return
	}
	states := make([]byte, len(txs))
	var failed []int
	var rest []ctx
	restIdx := []int{}
	brokenFollower := -1
	for i, n := range resF.Notify {
		states[i] = n.State
		switch {
		case n.State == event.CONTRACT_STATE_SUCCESS:
			rest = append(rest, txs[i])
			restIdx = append(restIdx, i)
		case txs[i].tx.TxType == types.InvokeNeo:
			failed = append(failed, i)
			if !txs[i].wantFail && brokenFollower < 0 {
				brokenFollower = i
			}
		default: // a deploy / EVM transaction that failed: furniture that did not work
			rest = append(rest, txs[i])
			restIdx = append(restIdx, i)
			if brokenFollower < 0 {
				brokenFollower = i
			}
		}
	}
	for i, t := range txs {
		if t.wantFail && states[i] == event.CONTRACT_STATE_SUCCESS {
			r.Count("comp_intended_failure_succeeded/" + t.kind)
		}
	}
	if brokenFollower >= 0 {
		// a transaction meant to succeed did not: does it succeed in the block without the failing ones?
		var only []ctx
		at := -1
		for i, t := range txs {
			if !t.wantFail {
				if i == brokenFollower {
					at = len(only)
				}
				only = append(only, t)
			}
		}
		ob, _ := c.MakeBlock(blockOf(only), 0)
		resO, oerr := c.Ledger.ExecuteBlock(ob)
		if oerr == nil && resO.Notify[at].State == event.CONTRACT_STATE_SUCCESS {
			r.Violation("failed-tx-makes-later-tx-fail:"+txs[brokenFollower].kind, fmt.Sprintf("transaction %d succeeds in the block without the failing transactions and fails with them", brokenFollower),
				e.witness(txs, states, map[string]interface{}{"shape": shape}))
		} else {
			r.Count("comp_furniture_tx_fails_on_its_own/" + txs[brokenFollower].kind)
		}
	}
	refB, err := c.MakeBlock(blockOf(rest), 0)
	if err != nil {
		panic(err)
	}
	resR, err := c.Ledger.ExecuteBlock(refB)
	if err != nil {
		r.Count("comp_block_rejected")
		r.Inconclusive("a reference block was rejected as a whole: " + err.Error())
		r.Eval("")
		return
	}
	// the surviving transactions must do the same thing with and without the failed ones around them
	for j, i := range restIdx {
		a, b := resF.Notify[i], resR.Notify[j]
		if a.State != b.State || a.GasConsumed != b.GasConsumed || len(a.Notify) != len(b.Notify) {
			r.Violation("failed-tx-changes-outcome-of-other-tx:"+txs[i].kind, fmt.Sprintf("transaction %d: state %d gas %d events %d in the block, state %d gas %d events %d in the block without its failed transactions", i, a.State, a.GasConsumed, len(a.Notify), b.State, b.GasConsumed, len(b.Notify)),
				e.witness(txs, states, map[string]interface{}{"shape": shape}))
			break
		}
	}
	effF, effR := effectOf(e.dump, resF), effectOf(e.dump, resR)
	e.judge("ExecuteBlock write set", txs, effF, resF.Notify, effR, failed, shape)
	// coverage: each failed transaction with the successful transactions right before / after it
	for _, i := range failed {
		t := txs[i]
		if !t.wantFail {
			continue
		}
		r.Count("comp/fail/" + t.kind)
		if i > 0 && states[i-1] == event.CONTRACT_STATE_SUCCESS && !txs[i-1].wantFail && i+1 < len(txs) && states[i+1] == event.CONTRACT_STATE_SUCCESS && !txs[i+1].wantFail {
			r.Count("comp/" + t.kind + "->" + txs[i+1].kind)
			r.Count("comp/after/" + txs[i-1].kind)
			r.Count("comp/before/" + txs[i+1].kind)
		}
		if i+1 < len(txs) && states[i+1] != event.CONTRACT_STATE_SUCCESS {
			r.Count("comp_failed_tx_followed_by_failed_tx")
		}
	}
	if len(failed) > 1 {
		r.Count("comp_block_with_several_failed_txs")
	}
	var fp []string
	for i, t := range txs {
		fp = append(fp, fmt.Sprintf("%s/%d/%d", t.kind, t.price, states[i]))
	}
	if len(failed) == 0 {
		r.Eval("")
	} else {
		r.Eval("comp:" + strings.Join(fp, "|"))
	}
	if e.samples < 3 && len(failed) > 0 {
		e.samples++
		var l []string
		for i, t := range txs {
			l = append(l, fmt.Sprintf("%s(price %d, state %d, gas %d)", t.kind, t.price, states[i], resF.Notify[i].GasConsumed))
		}
		r.Sample(map[string]interface{}{"composed_block": l, "changed_keys": len(effF), "reference_changed_keys": len(effR)})
	}
	if !commit {
		return
	}
	path := "consensus path"
	if (bb.n/3)%2 == 0 {
		path = "sync path"
		err = c.CommitSync(full, resF.MerkleRoot)
	} else {
		_, err = c.CommitExec(full)
	}
	if err != nil {
		r.Count("comp_block_rejected")
		r.Inconclusive("commit of a composed block failed: " + err.Error())
		return
	}
	_, _, after := c.DumpState()
	var stored []*event.ExecuteNotify
	for _, t := range txs {
		n, err := c.Ledger.GetEventNotifyByTx(t.tx.Hash())
		if err != nil || n == nil {
			r.Count("comp_stored_notification_missing")
			r.Inconclusive("no stored notification for a committed transaction")
			n = &event.ExecuteNotify{}
		}
		stored = append(stored, n)
	}
	var failedC []int
	for i, n := range stored {
		if n.State != event.CONTRACT_STATE_SUCCESS && txs[i].tx.TxType == types.InvokeNeo {
			failedC = append(failedC, i)
		}
	}
	if fmt.Sprint(failedC) == fmt.Sprint(failed) {
		e.judge("committed state and stored notifications, "+path, txs, dumpDelta(e.dump, after), stored, effR, failedC, shape)
		r.Count("comp_committed_block_judged")
	} else {
		r.Violation("stored-notification-state-differs-from-execution", fmt.Sprintf("failed per ExecuteBlock %v, per stored notifications %v", failed, failedC), e.witness(txs, states, map[string]interface{}{"shape": shape}))
	}
	e.dump = after
	e.ethNonce = bb.ethNonce
	e.maintain()
}

// runCompositions: (a) every failing kind x every successful kind after it, a rotating successful kind
// before it; (b) random longer blocks with several failing transactions.
func runCompositions(r *vf.Run, w *chain.World, c *chain.Chain, rng *vf.RNG, tag string) {
	e := &env{r: r, w: w, c: c, tag: tag}
	e.setup()
	rounds := vf.N(4, 40)
	n := 0
	for round := 0; round < rounds; round++ {
		for fk := range failKinds {
			for post := range succKinds {
				g := rng.Sub(uint64(7000000 + n))
				bb := e.newBlock()
				pre := (fk + post + round) % len(succKinds)
				txs := []ctx{bb.succ(pre, g), bb.fail(fk, g), bb.succ(post, g)}
				e.evalBlock(bb, txs, "success,failure,success", n%3 == 0)
				n++
			}
		}
		for k := 0; k < 40; k++ {
			g := rng.Sub(uint64(9000000 + n))
			bb := e.newBlock()
			txs := []ctx{bb.succ(g.Intn(len(succKinds)), g)}
			nf := 0
			for len(txs) < 3+g.Intn(5) {
				if nf < 4 && g.Intn(2) == 0 {
					txs = append(txs, bb.fail(g.Intn(len(failKinds)), g))
					nf++
				} else {
					txs = append(txs, bb.succ(g.Intn(len(succKinds)), g))
				}
			}
			txs = append(txs, bb.succ(g.Intn(len(succKinds)), g))
			e.evalBlock(bb, txs, "random", n%3 == 0)
			n++
		}
	}
	for _, fk := range failKinds {
		r.Require("comp/fail/"+fk.name, 5)
		for _, s := range succKinds {
			r.Require("comp/"+fk.name+"->"+s, 1)
		}
	}
	for _, s := range succKinds {
		r.Require("comp/after/"+s, 10)
		r.Require("comp/before/"+s, 10)
	}
	for _, via := range []string{"ExecuteBlock write set", "committed state and stored notifications, consensus path", "committed state and stored notifications, sync path"} {
		r.Require("comp_fee_charged/"+via, 10)
		r.Require("comp_no_fee_gas_price_0/"+via, 3)
		r.Require("comp_no_fee_payer_did_not_sign/"+via, 3)
		r.Require("comp_fee_is_whole_balance_path/"+via, 2)
	}
	r.Require("comp_committed_block_judged", 30)
	r.Require("comp_block_with_several_failed_txs", 10)
	r.Require("comp_failed_tx_followed_by_failed_tx", 5)
}
