// C05 — A failed transaction changes nothing except the fee it is charged.
// Each generated invoke transaction is executed by the real block executor (ExecuteBlock,
// side-effect free) alone on a committed state; the block's write set minus the committed
// values is the transaction's effect.  Oracle: FAIL => effect ⊆ {payer ONG, governance ONG},
// Δgov = −Δpayer = fee, 0 ≤ fee ≤ payer balance, GasConsumed = fee, only the fee event.
package main

import (
	"encoding/hex"
	"fmt"
	"math/big"
	"os"
	"path/filepath"

	"github.com/ontio/ontology/account"
	"github.com/ontio/ontology/common"
	cstates "github.com/ontio/ontology/core/states"
	"github.com/ontio/ontology/core/types"
	cutils "github.com/ontio/ontology/core/utils"
	"github.com/ontio/ontology/smartcontract/event"
	"github.com/ontio/ontology/smartcontract/service/native/ont"
	nutils "github.com/ontio/ontology/smartcontract/service/native/utils"
	"github.com/ontio/ontology/vm/neovm"
	"verifharness/lib/chain"
	"verifharness/lib/vf"
)

const minGas = 20000

func ongKey(a common.Address) string {
	return string(append(append([]byte{0x05}, nutils.OngContractAddress[:]...), a[:]...))
}

func decodeBal(v string) *big.Int {
	if v == "" {
		return big.NewInt(0)
	}
	item := new(cstates.StorageItem)
	if err := item.Deserialization(common.NewZeroCopySource([]byte(v))); err != nil {
		return big.NewInt(-1)
	}
	b, err := cstates.NativeTokenBalanceFromStorageItem(item)
	if err != nil {
		return big.NewInt(-1)
	}
	return b.Balance.BigInt()
}

var scale = big.NewInt(1000000000)

type gen struct {
	w      *chain.World
	payers []*account.Account
	rng    *vf.RNG
}

func nativeCode(contract common.Address, method string, params []interface{}) []byte {
	c, err := cutils.BuildNativeInvokeCode(contract, 0, method, params)
	if err != nil {
		panic(err)
	}
	return c
}

// script returns (code, kind).
func (g *gen) script(payer *account.Account, payerBal uint64) ([]byte, string) {
	r := g.rng
	other := g.w.Accts[r.Intn(len(g.w.Accts))]
	put := chain.KVInvoke(g.w.KV, []byte(fmt.Sprintf("f%d", r.Intn(6))), r.Bytes(1+r.Intn(8)), true)
	del := chain.KVInvoke(g.w.KV, []byte("k0"), nil, false)
	innerOng := func(v uint64) []byte {
		return nativeCode(nutils.OngContractAddress, "transfer", []interface{}{[]*ont.TransferState{{From: payer.Address, To: other.Address, Value: v}}})
	}
	notify := chain.NewAsm().Push([]byte("leak")).Syscall("System.Runtime.Notify").Bytes()
	throw := []byte{byte(neovm.THROW)}
	cat := func(parts ...[]byte) []byte {
		var o []byte
		for _, p := range parts {
			o = append(o, p...)
		}
		return o
	}
	switch r.Intn(12) {
	case 0:
		return r.Bytes(1 + r.Intn(60)), "random-bytes"
	case 1:
		return cat(put, notify, throw), "put+notify+THROW"
	case 2:
		return cat(put, innerOng(uint64(r.Intn(1000)+1)), del, throw), "put+inner-ong-transfer+delete+THROW"
	case 3:
		// succeeds, but spends (almost) the whole balance inside, so the fee cannot be paid afterwards
		v := payerBal
		if v > 0 && r.Bool() {
			v -= uint64(r.Intn(int(minUint(v, 30000))))
		}
		return cat(put, innerOng(v)), "drain-balance-inside(then fee unpayable)"
	case 4:
		// unauthorised: moves someone else's ONT
		return cat(put, nativeCode(nutils.OntContractAddress, "transfer", []interface{}{[]*ont.TransferState{{From: other.Address, To: payer.Address, Value: 1}}})), "put+unauthorised-ont-transfer"
	case 5:
		// native call with random argument bytes
		methods := []string{"transfer", "approve", "transferFrom", "balanceOf", "allowance", "transferV2", "nosuchmethod"}
		raw := chain.NewAsm().Push(r.Bytes(r.Intn(40))).Push([]byte(methods[r.Intn(len(methods))])).Push(nutils.OngContractAddress[:]).PushInt(0).Syscall("Ontology.Native.Invoke").Bytes()
		return cat(put, raw), "put+native-random-args"
	case 6:
		// out of gas: a long loop (JMP back) after a write
		loop := []byte{byte(neovm.PUSH1), byte(neovm.DROP), byte(neovm.JMP), 0xfe, 0xff} // JMP -2 -> back to PUSH1
		return cat(put, loop), "put+infinite-loop(out of gas/steps)"
	case 7:
		return cat(put, innerOng(uint64(r.Intn(100)+1)), notify), "success:put+inner-ong+notify"
	case 8:
		return put, "success:put"
	case 9:
		// over-balance inner transfer: native returns false/err
		return cat(put, innerOng(payerBal+1+uint64(r.Intn(1000)))), "put+inner-ong-over-balance"
	case 10:
		// multi-state transfer whose second element fails
		sts := []*ont.TransferState{{From: payer.Address, To: other.Address, Value: 1}, {From: payer.Address, To: other.Address, Value: ^uint64(0) >> 2}}
		return cat(put, nativeCode(nutils.OngContractAddress, "transfer", []interface{}{sts})), "put+multi-transfer-second-fails"
	default:
		// stack fault after writes
		return cat(put, del, []byte{byte(neovm.DROP), byte(neovm.DROP), byte(neovm.DROP), byte(neovm.ADD)}), "put+delete+stack-fault"
	}
}

func minUint(a, b uint64) uint64 {
	if a < b {
		return a
	}
	return b
}

func main() {
	r := vf.NewRun("C05", "exploration",
		"invoke transactions (random bytes, scripts that write/notify/transfer then fault, drain their payer, call natives with random args, loop, or succeed) x gas price {0,1,500,2500,random} x gas limit around the code-length and minimum gas x payer balance from 0 to ample; each executed alone by ExecuteBlock on committed states of a solo ledger; a case is non-trivial when the tx is charged or fails; distinct by (script kind, price class, limit class, balance class, outcome); one case in eight names a payer that is not among the signers. Then composed blocks: every failing kind (fault after storage writes / native ONG or ONT transfers / Contract.Create / Destroy of a contract with and without storage / Migrate from the entry script and of a contract with storage / notify only; out of gas after a put or after Contract.Create alone; balance below the minimum fee; balance spent inside; unauthorised transfer; native call failing half-way; payer that did not sign) x every successful kind right after it (NeoVM invoke, native invoke, deploy, EVM transfer, EVM call doing SSTORE) with a rotating successful kind right before it, plus random blocks of 3-8 transactions with up to 4 failing ones; gas price {0,500,2500}; each block and the same block without its failed transactions are executed by ExecuteBlock on the same committed state and every third block is committed (consensus path / sync path alternately) and judged again from the state dump and the stored notifications; distinct by the sequence of (kind, price, state)")
	scratch := vf.Scratch("c05")
	defer os.RemoveAll(scratch)
	rng := vf.NewRNG(vf.Seed())
	tag := fmt.Sprintf("c05-%d", vf.Seed())
	w := chain.NewWorld(tag, 5)
	c, err := chain.NewSolo(filepath.Join(scratch, "l"), w.BK)
	if err != nil {
		panic(err)
	}
	defer c.Close()
	// payers with graded ONG balances (base units)
	balances := []uint64{0, 1, 19999, 20000, 20001, 500 * minGas, 500*minGas + 1, 2500*minGas - 1, 2500 * minGas, 2500*minGas + 7, 2500 * 40000, 3 * 2500 * minGas, 1000000000000}
	var payers []*account.Account
	txs := w.FundingTxs()
	for i, b := range balances {
		p := chain.DetAccount(fmt.Sprintf("%s/payer%d", tag, i))
		payers = append(payers, p)
		if b > 0 {
			t, err := w.TB.TransferTx("ong", w.BK, p.Address, b, 0, 20000)
			if err != nil {
				panic(err)
			}
			txs = append(txs, t)
		}
	}
	b1, err := c.MakeBlock(txs, 0)
	if err != nil {
		panic(err)
	}
	if _, err := c.CommitExec(b1); err != nil {
		panic(err)
	}
	g := &gen{w: w, payers: payers}
	stranger := chain.DetAccount(tag + "/stranger") // owns nothing, signs for payers that do not sign
	gov := nutils.GovernanceContractAddress
	N := vf.N(1500, 40000)
	_, _, dump := c.DumpState()
	sampled := map[string]bool{}
	for i := 0; i < N; i++ {
		if i > 0 && i%400 == 0 {
			// move the committed state: a block of ordinary traffic + re-grade two payers
			btx, _ := w.RandomTxs(rng.Sub(uint64(i)+99), 5)
			nb, err := c.MakeBlock(btx, 0)
			if err == nil {
				if _, err := c.CommitExec(nb); err != nil {
					panic(err)
				}
			}
			_, _, dump = c.DumpState()
			r.Count("state_advanced")
		}
		g.rng = rng.Sub(uint64(i))
		pi := g.rng.Intn(len(payers))
		payer := payers[pi]
		balBefore := decodeBal(dump[ongKey(payer.Address)])
		govBefore := decodeBal(dump[ongKey(gov)])
		balU := new(big.Int).Div(balBefore, scale).Uint64()
		code, kind := g.script(payer, balU)
		var price uint64
		pclass := ""
		switch g.rng.Intn(6) {
		case 0:
			price, pclass = 0, "0"
		case 1:
			price, pclass = 1, "1"
		case 2:
			price, pclass = 500, "500"
		case 3, 4:
			price, pclass = 2500, "2500"
		default:
			price, pclass = uint64(g.rng.Intn(100000)+2), "rand"
		}
		codeGas := uint64(len(code)/1024) * 20000
		var limit uint64
		lclass := ""
		switch g.rng.Intn(8) {
		case 0:
			limit, lclass = 0, "0"
		case 1:
			limit, lclass = minGas-1, "min-1"
		case 2:
			limit, lclass = minGas, "min"
		case 3:
			limit, lclass = minGas+codeGas+uint64(g.rng.Intn(3)), "min+code"
		case 4:
			limit, lclass = uint64(g.rng.Intn(60000)), "rand-small"
		case 5:
			limit, lclass = 30000000, "huge"
		default:
			limit, lclass = 40000+uint64(g.rng.Intn(100000)), "ample"
		}
		mt := w.TB.Invoke(price, limit, code)
		// one case in eight names the payer without its signature (possible in a block assembled at ledger
		// level): the fee transfer is then refused, so nothing may move and no gas may be reported
		signer := payer
		if g.rng.Intn(8) == 0 {
			signer = stranger
			mt.Payer = payer.Address
			kind += "/payer-did-not-sign"
		}
		if err := chain.Sign(mt, signer); err != nil {
			panic(err)
		}
		tx := chain.Immutable(mt)
		blk, err := c.MakeBlock([]*types.Transaction{tx}, 0)
		if err != nil {
			panic(err)
		}
		res, err := c.Ledger.ExecuteBlock(blk)
		id := map[string]interface{}{"case": i, "kind": kind, "gas_price": price, "gas_limit": limit, "payer_balance": balBefore.String(), "script_hex": hex.EncodeToString(code), "height": blk.Header.Height, "payer_signed": signer == payer, "raw_tx_hex": hex.EncodeToString(tx.ToArray())}
		if err != nil {
			r.Count("block_level_error")
			r.Eval("")
			continue
		}
		n := res.Notify[0]
		// effect = write set entries that differ from the committed value
		effect := map[string]string{}
		res.WriteSet.ForEach(func(k, v []byte) {
			if dump[string(k)] != string(v) {
				effect[string(k)] = string(v)
			}
		})
		// the same transaction followed, in one block, by an independent successful transaction of another
		// account (free, writes one storage key of its own): whatever the first one leaves behind in the
		// shared per-block transaction cache would be published by the follower's commit.  The pair's effect
		// must be exactly the union of the two single effects.
		if i%3 == 0 {
			fm := w.TB.Invoke(0, 30000, chain.KVInvoke(w.KV, []byte("follower-key"), []byte{byte(i), byte(i >> 8), 1}, true))
			chain.Sign(fm, w.Accts[4])
			ftx := chain.Immutable(fm)
			fb, _ := c.MakeBlock([]*types.Transaction{ftx}, 0)
			fres, ferr := c.Ledger.ExecuteBlock(fb)
			pb, _ := c.MakeBlock([]*types.Transaction{tx, ftx}, 0)
			pres, perr := c.Ledger.ExecuteBlock(pb)
			if ferr == nil && perr == nil && fres.Notify[0].State == event.CONTRACT_STATE_SUCCESS {
				want := map[string]string{}
				for k, v := range effect {
					want[k] = v
				}
				fres.WriteSet.ForEach(func(k, v []byte) {
					if dump[string(k)] != string(v) {
						want[string(k)] = string(v)
					}
				})
				got := map[string]string{}
				pres.WriteSet.ForEach(func(k, v []byte) {
					if dump[string(k)] != string(v) {
						got[string(k)] = string(v)
					}
				})
				same := len(got) == len(want)
				for k, v := range want {
					if got[k] != v {
						same = false
					}
				}
				r.Count("pair_with_follower_compared")
				if n.State != event.CONTRACT_STATE_SUCCESS {
					r.Count("failed_tx_followed_by_committing_tx")
				}
				if !same {
					cls := "success-first"
					if n.State != event.CONTRACT_STATE_SUCCESS {
						cls = "failed-first"
					}
					r.Violation("effect-leaks-into-later-tx-of-block:"+cls+":"+kind, fmt.Sprintf("block [tx, follower] changes %d keys, the two transactions alone change %d", len(got), len(want)), id)
				}
			}
		}
		pk, gk := ongKey(payer.Address), ongKey(gov)
		balAfter, govAfter := balBefore, govBefore
		if v, ok := effect[pk]; ok {
			balAfter = decodeBal(v)
		}
		if v, ok := effect[gk]; ok {
			govAfter = decodeBal(v)
		}
		dPayer := new(big.Int).Sub(balBefore, balAfter)
		dGov := new(big.Int).Sub(govAfter, govBefore)
		fee := new(big.Int).Mul(new(big.Int).SetUint64(n.GasConsumed), scale)
		bclass := "ample"
		switch {
		case balU == 0:
			bclass = "0"
		case balU < minGas*price:
			bclass = "<min"
		case balU < 3*minGas*price:
			bclass = "near-min"
		}
		outcome := "success"
		if n.State != event.CONTRACT_STATE_SUCCESS {
			outcome = "fail"
		}
		fp := fmt.Sprintf("%s/%s/%s/%s/%s", kind, pclass, lclass, bclass, outcome)
		if price == 0 && outcome == "success" {
			r.Eval("")
		} else {
			r.Eval(fp)
		}
		r.Count("outcome/" + outcome + "/" + kind)
		if len(sampled) < 5 && !sampled[kind] && outcome == "fail" {
			sampled[kind] = true
			r.Sample(map[string]interface{}{"kind": kind, "gas_price": price, "gas_limit": limit, "payer_balance_base_units": balU, "state": outcome, "gas_consumed": n.GasConsumed, "effect_keys": len(effect)})
		}
		if outcome == "fail" {
			if price > 0 {
				r.Count("failed_and_charged_path")
				if signer != payer {
					r.Count("failed_and_charged_path_payer_did_not_sign")
				}
			}
			for k := range effect {
				if k != pk && k != gk {
					r.Violation("failed-tx-effect-survives:"+kind, fmt.Sprintf("key %x changed by a failed transaction", k), id)
					break
				}
			}
			if dGov.Cmp(dPayer) != 0 {
				r.Violation("fee-not-conserved:"+kind, fmt.Sprintf("payer -%s, governance +%s", dPayer, dGov), id)
			}
			if dPayer.Sign() < 0 {
				r.Violation("failed-tx-credits-payer:"+kind, dPayer.String(), id)
			}
			if dPayer.Cmp(balBefore) > 0 {
				r.Violation("fee-exceeds-balance:"+kind, fmt.Sprintf("fee %s balance %s", dPayer, balBefore), id)
			}
			if fee.Cmp(dPayer) != 0 {
				r.Violation("gas-consumed-differs-from-fee-moved:"+kind, fmt.Sprintf("GasConsumed %d (=%s) but %s moved", n.GasConsumed, fee, dPayer), id)
			}
			if dPayer.Sign() > 0 {
				r.Count("fee_charged_on_failure")
			} else {
				r.Count("no_fee_on_failure")
			}
			// only the fee transfer event may be reported
			for _, e := range n.Notify {
				okEvt := e.ContractAddress == nutils.OngContractAddress
				if okEvt {
					if st, ok := e.States.([]interface{}); !ok || len(st) != 4 || fmt.Sprint(st[0]) != "transfer" || fmt.Sprint(st[1]) != payer.Address.ToBase58() || fmt.Sprint(st[2]) != gov.ToBase58() {
						okEvt = false
					}
				}
				if !okEvt {
					r.Violation("failed-tx-event-survives:"+kind, fmt.Sprintf("event from %s: %v", e.ContractAddress.ToHexString(), e.States), id)
					break
				}
			}
			if dPayer.Sign() == 0 && len(n.Notify) != 0 {
				r.Violation("fee-event-without-fee:"+kind, "notify present but no ONG moved", id)
			}
		} else if price > 0 {
			r.Count("success_and_charged_path")
			// success: the reported gas must be what reached governance on top of what the script itself sent there (nothing here)
			if fee.Cmp(dGov) != 0 {
				r.Violation("success-gas-consumed-differs-from-fee-moved:"+kind, fmt.Sprintf("GasConsumed %d (=%s) but governance got %s", n.GasConsumed, fee, dGov), id)
			}
			if dPayer.Cmp(balBefore) > 0 || balAfter.Sign() < 0 {
				r.Violation("success-overdraws-payer:"+kind, fmt.Sprintf("payer -%s of %s", dPayer, balBefore), id)
			}
		}
	}
	for _, k := range []string{"put+notify+THROW", "put+inner-ong-transfer+delete+THROW", "drain-balance-inside(then fee unpayable)", "put+unauthorised-ont-transfer", "put+native-random-args", "put+infinite-loop(out of gas/steps)", "put+inner-ong-over-balance", "put+multi-transfer-second-fails", "put+delete+stack-fault", "random-bytes"} {
		r.Require("outcome/fail/"+k, 5)
	}
	r.Require("outcome/success/success:put", 5)
	r.Require("fee_charged_on_failure", 50)
	r.Require("failed_tx_followed_by_committing_tx", 100)
	r.Require("no_fee_on_failure", 20)
	r.Require("failed_and_charged_path", 50)
	r.Require("success_and_charged_path", 20)
	r.Require("failed_and_charged_path_payer_did_not_sign", 30)
	runCompositions(r, w, c, rng, tag)
	r.Assume("quantifier is invoke transactions (deploy and EIP-155 transactions are only chain furniture here, placed before and after the failing invokes); WASM invokes not driven")
	r.Assume("reference of a composed block = the same block without its failed transactions, executed by the same executor on the same committed state; the successful transactions are signed by accounts other than the failing transactions' payers, so the only keys they share with a failed transaction's fee are the governance ONG balance (compared arithmetically)")
	os.RemoveAll(scratch)
	r.Finish()
}
