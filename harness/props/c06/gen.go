package main

import (
	"math/big"
	"sort"
	"strings"

	"github.com/ontio/ontology/common"
	"verifharness/lib/vf"
)

// ---------------------------------------------------------------- generator
//
// Every operation is a pure function of (rng stream, reference ledger).  The generator is
// state-aware (it asks the ledger for balances/allowances) so that boundary amounts
// (exactly the balance, balance+1, exactly the allowance, allowance+1) are hit on purpose.

type gen struct {
	rng *vf.RNG
	u   *universe
	net *netCfg
}

func (g *gen) keyed() int { return g.u.keyed[g.rng.Intn(len(g.u.keyed))] }
func (g *gen) any() *actor { return g.u.actors[g.rng.Intn(len(g.u.actors))] }

// holder: a keyed actor with a positive balance of token (falls back to any keyed actor).
func (g *gen) holder(m *ledgerModel, token string) int {
	var c []int
	for _, i := range g.u.keyed {
		if m.B(token, g.u.actors[i].Addr).Sign() > 0 {
			c = append(c, i)
		}
	}
	if len(c) == 0 {
		return g.keyed()
	}
	return c[g.rng.Intn(len(c))]
}

func (g *gen) randBelow(n *big.Int) *big.Int { // uniform-ish in [1, n], n >= 1
	if n.Sign() <= 0 {
		return big.NewInt(1)
	}
	x := new(big.Int).SetBytes(g.rng.Bytes(20))
	x.Mod(x, n)
	return x.Add(x, big.NewInt(1))
}

// signer sets: `need` (a keyed actor index, or -1) is included when auth is true and
// excluded otherwise; 0-2 further random keyed actors; order shuffled (payer = first).
func (g *gen) signers(need int, auth bool) []int {
	set := map[int]bool{}
	if auth && need >= 0 {
		set[need] = true
	}
	extra := g.rng.Intn(3)
	if len(set) == 0 && extra == 0 {
		extra = 1
	}
	for tries := 0; extra > 0 && tries < 20; tries++ {
		k := g.keyed()
		if (!auth && k == need) || set[k] {
			continue
		}
		set[k] = true
		extra--
	}
	if len(set) == 0 { // only possible when every keyed actor is `need`
		for _, k := range g.u.keyed {
			if k != need {
				set[k] = true
				break
			}
		}
	}
	var out []int
	for k := range set {
		out = append(out, k)
	}
	sort.Ints(out)
	p := g.rng.Perm(len(out))
	sh := make([]int, len(out))
	for i, j := range p {
		sh[i] = out[j]
	}
	return sh
}

func (g *gen) keyedIndex(a common.Address) int {
	for _, i := range g.u.keyed {
		if g.u.actors[i].Addr == a {
			return i
		}
	}
	return -1
}

// raw converts a scaled amount into the raw parameter of a V1 (whole units, floor) or V2 call.
func raw(v2 bool, scaled *big.Int) *big.Int {
	if v2 {
		return new(big.Int).Set(scaled)
	}
	return new(big.Int).Quo(scaled, scale)
}

var hugeAmounts = []string{
	"18446744073709551615", "18446744073709551616", "36893488147419103233", // 2^64-1, 2^64, 2^65+1
	"1000000000", "1000000001", // ONT supply (V1 units) and +1
	"1000000000000000000", "1000000000000000001", // ONT supply V2 / ONG supply V1, and +1
	"1000000000000000000000000000", "1000000000000000000000000001", // ONG supply V2 and +1
	"340282366920938463463374607431768211456", // 2^128
}

func (g *gen) huge() *big.Int {
	v, _ := new(big.Int).SetString(hugeAmounts[g.rng.Intn(len(hugeAmounts))], 10)
	return v
}

// amountWithin: a raw amount whose scaled value lies in [1, limit] (limit scaled); V1 needs limit >= 1 unit.
func (g *gen) amountWithin(v2 bool, limit *big.Int) *big.Int {
	if v2 {
		switch g.rng.Intn(4) {
		case 0: // k*10^9 + fraction
			units := new(big.Int).Quo(limit, scale)
			if units.Sign() > 0 {
				k := g.randBelow(units)
				k.Sub(k, big.NewInt(1))
				x := k.Mul(k, scale)
				x.Add(x, big.NewInt(int64(1+g.rng.Intn(999999999))))
				if x.Cmp(limit) <= 0 {
					return x
				}
			}
		case 1: // a small fraction only
			f := big.NewInt(int64(1 + g.rng.Intn(999999999)))
			if f.Cmp(limit) <= 0 {
				return f
			}
		}
		return g.randBelow(limit)
	}
	units := new(big.Int).Quo(limit, scale)
	if units.Sign() <= 0 {
		return big.NewInt(1)
	}
	if g.rng.Chance(50) && units.Cmp(big.NewInt(100)) > 0 {
		return big.NewInt(int64(1 + g.rng.Intn(100)))
	}
	return g.randBelow(units)
}

func (g *gen) pickMethod(kind string) string {
	p := 40
	if !g.net.v2 {
		p = 12 // V2 methods are not registered at these heights: keep a few (they must fail cleanly)
	}
	if g.rng.Chance(p) {
		return kind + "V2"
	}
	return kind
}

func (g *gen) next(m *ledgerModel) *op {
	token := "ont"
	if g.rng.Chance(50) {
		token = "ong"
	}
	switch k := g.rng.Intn(100); {
	case k < 45:
		return g.transfer(m, token)
	case k < 65:
		return g.approve(m, token)
	default:
		return g.transferFrom(m, token)
	}
}

// one transfer element according to scenario sc, evaluated against ledger m.
func (g *gen) element(m *ledgerModel, token string, v2 bool, sc string) (xfer, int, bool) {
	fi := g.holder(m, token)
	from := g.u.actors[fi]
	to := g.any()
	bal := m.B(token, from.Addr)
	auth := true
	var val *big.Int
	switch sc {
	case "valid":
		val = g.amountWithin(v2, bal)
	case "exact-balance":
		val = raw(v2, bal)
	case "over-balance":
		val = raw(v2, bal)
		val.Add(val, big.NewInt(1))
	case "unauthorized":
		val = g.amountWithin(v2, bal)
		auth = false
	case "zero":
		val = big.NewInt(0)
		auth = g.rng.Chance(50)
	case "self":
		to = from
		if g.rng.Chance(50) {
			val = g.amountWithin(v2, bal)
		} else { // more than the balance, to itself
			val = raw(v2, bal)
			val.Add(val, big.NewInt(int64(1+g.rng.Intn(5))))
		}
	case "keyless-from": // debit an address nobody can sign for (contract / zero address), if it holds anything
		var c []*actor
		for _, a := range g.u.actors {
			if a.Keys == nil {
				c = append(c, a)
			}
		}
		from = c[g.rng.Intn(len(c))]
		fi = -1
		b := m.B(token, from.Addr)
		if b.Sign() > 0 {
			val = g.amountWithin(v2, b)
		} else {
			val = big.NewInt(1)
		}
	case "huge":
		val = g.huge()
	case "wrapped": // k*2^64 + a valid amount: rejected, except where V1 `transfer` decodes mod 2^64 (main net, ONT)
		val = g.amountWithin(false, bal)
		val.Add(val, new(big.Int).Mul(two64, big.NewInt(int64(1+g.rng.Intn(3)))))
	case "negative":
		val = big.NewInt(-int64(1 + g.rng.Intn(3)))
	default: // random
		from = g.any()
		fi = g.keyedIndex(from.Addr)
		val = big.NewInt(int64(g.rng.Intn(50)))
		auth = g.rng.Chance(50)
	}
	return xfer{From: from.Addr, To: to.Addr, Value: val}, fi, auth
}

var transferScenarios = []struct {
	name string
	w    int
}{{"valid", 42}, {"exact-balance", 7}, {"over-balance", 9}, {"unauthorized", 10}, {"zero", 4}, {"self", 8},
	{"keyless-from", 6}, {"huge", 6}, {"negative", 3}, {"random", 5}}

func (g *gen) scenario() string {
	if g.rng.Chance(3) || (g.net.wrap && g.rng.Chance(12)) {
		return "wrapped"
	}
	x := g.rng.Intn(100)
	for _, s := range transferScenarios {
		if x < s.w {
			return s.name
		}
		x -= s.w
	}
	return "random"
}

func (g *gen) transfer(m *ledgerModel, token string) *op {
	method := g.pickMethod("transfer")
	v2 := strings.HasSuffix(method, "V2")
	o := &op{Token: token, Method: method}
	if g.rng.Chance(70) { // single state
		sc := g.scenario()
		x, fi, auth := g.element(m, token, v2, sc)
		o.States = []xfer{x}
		o.Signers = g.signers(fi, auth)
		o.Shape = "single/" + sc
		return o
	}
	// list of 2..4 states; all of them must be witnessed by one signer set
	n := 2 + g.rng.Intn(3)
	mode := []string{"all-valid", "late-fail", "late-fail", "mixed"}[g.rng.Intn(4)]
	work := m.clone()
	need := map[int]bool{}
	deny := -1
	for i := 0; i < n; i++ {
		sc := "valid"
		last := i == n-1
		switch {
		case mode == "late-fail" && last:
			sc = []string{"over-balance", "unauthorized", "keyless-from", "huge"}[g.rng.Intn(4)]
		case mode == "mixed":
			sc = g.scenario()
		case g.rng.Chance(10):
			sc = "zero"
		}
		x, fi, auth := g.element(work, token, v2, sc)
		if !auth && fi >= 0 {
			if need[fi] { // the same account was debited by an earlier element: pick the failure differently
				x.Value = raw(v2, work.B(token, x.From))
				x.Value.Add(x.Value, big.NewInt(1))
			} else {
				deny = fi
			}
		} else if fi >= 0 && fi != deny {
			need[fi] = true
		}
		o.States = append(o.States, x)
		// advance the working ledger as if the element executed (only when it is plainly valid)
		if sc == "valid" || sc == "exact-balance" {
			one := &op{Token: token, Method: method, States: []xfer{x}}
			if ex, nx := work.expect(one, execCtx{v2Enabled: true, witness: map[common.Address]bool{x.From: true}}); ex.outcome == "ok" {
				work = nx
			}
		}
	}
	set := map[int]bool{}
	for k := range need {
		set[k] = true
	}
	if len(set) == 0 || g.rng.Chance(30) {
		for tries := 0; tries < 5; tries++ {
			if k := g.keyed(); k != deny {
				set[k] = true
				break
			}
		}
	}
	for k := range set {
		o.Signers = append(o.Signers, k)
	}
	sort.Ints(o.Signers)
	if len(o.Signers) == 0 {
		o.Signers = g.signers(deny, false)
	}
	o.Shape = "list/" + mode
	return o
}

func (g *gen) approve(m *ledgerModel, token string) *op {
	method := g.pickMethod("approve")
	v2 := strings.HasSuffix(method, "V2")
	fi := g.holder(m, token)
	from := g.u.actors[fi]
	auth := g.rng.Chance(85)
	if g.rng.Chance(10) {
		from = g.any()
		fi = g.keyedIndex(from.Addr)
	}
	to := g.any()
	if g.rng.Chance(60) { // mostly to someone who can later spend it
		to = g.u.actors[g.keyed()]
	}
	bal := m.B(token, from.Addr)
	var val *big.Int
	shape := ""
	switch k := g.rng.Intn(100); {
	case k < 45:
		val, shape = g.amountWithin(v2, bal), "within-balance"
	case k < 60:
		val, shape = raw(v2, bal), "exact-balance"
	case k < 72: // more than the balance: allowed, spending it must then fail on the balance
		val, shape = raw(v2, bal), "over-balance"
		val.Add(val, g.amountWithin(v2, new(big.Int).Mul(big.NewInt(50), scale)))
	case k < 80:
		val, shape = big.NewInt(0), "zero"
	case k < 90:
		val, shape = g.huge(), "huge"
	case k < 94:
		val, shape = big.NewInt(-1), "negative"
	default:
		val, shape = big.NewInt(int64(1+g.rng.Intn(1000))), "small"
	}
	if !auth {
		shape += "/unauthorized"
	}
	return &op{Token: token, Method: method, States: []xfer{{From: from.Addr, To: to.Addr, Value: val}},
		Signers: g.signers(fi, auth), Shape: "approve/" + shape}
}

func (g *gen) transferFrom(m *ledgerModel, token string) *op {
	method := g.pickMethod("transferFrom")
	v2 := strings.HasSuffix(method, "V2")
	// existing positive allowances whose spender can sign
	type ent struct {
		from, sender common.Address
		si           int
	}
	var ents []ent
	var keys []string
	for k, v := range m.allow {
		if v.Sign() > 0 && strings.HasPrefix(k, token+"|") {
			keys = append(keys, k)
		}
	}
	sort.Strings(keys)
	for _, k := range keys {
		p := strings.Split(k, "|")
		f, _ := common.AddressFromHexString(p[1])
		s, _ := common.AddressFromHexString(p[2])
		if si := g.keyedIndex(s); si >= 0 {
			ents = append(ents, ent{f, s, si})
		}
	}
	o := &op{Token: token, Method: method}
	if len(ents) > 0 && g.rng.Chance(75) {
		e := ents[g.rng.Intn(len(ents))]
		al, bal := m.A(token, e.from, e.sender), m.B(token, e.from)
		lim := al
		if bal.Cmp(lim) < 0 {
			lim = bal
		}
		to := e.sender
		switch g.rng.Intn(4) {
		case 0:
			to = g.any().Addr
		case 1:
			to = e.from // from == to
		}
		auth := true
		var val *big.Int
		shape := ""
		switch k := g.rng.Intn(100); {
		case k < 45 && lim.Sign() > 0 && (v2 || lim.Cmp(scale) >= 0):
			val, shape = g.amountWithin(v2, lim), "within"
		case k < 55:
			val, shape = raw(v2, al), "exact-allowance"
		case k < 67:
			val, shape = raw(v2, al), "over-allowance"
			val.Add(val, big.NewInt(1))
		case k < 75 && al.Cmp(bal) > 0:
			val, shape = raw(v2, bal), "over-balance-within-allowance"
			val.Add(val, big.NewInt(1))
		case k < 87 && lim.Sign() > 0 && (v2 || lim.Cmp(scale) >= 0):
			val, shape = g.amountWithin(v2, lim), "sender-not-signer"
			auth = false
		case k < 92:
			val, shape = big.NewInt(0), "zero"
		case k < 96:
			val, shape = g.huge(), "huge"
		default:
			val, shape = big.NewInt(1), "one"
		}
		// "owner signs instead of spender": the owner's signature must not be enough
		sg := g.signers(e.si, auth)
		if !auth && g.rng.Chance(50) {
			if fi := g.keyedIndex(e.from); fi >= 0 && fi != e.si {
				sg = []int{fi}
				shape = "owner-signs-not-spender"
			}
		}
		o.Sender, o.States, o.Signers, o.Shape = e.sender, []xfer{{From: e.from, To: to, Value: val}}, sg, "transferFrom/"+shape
		return o
	}
	// no allowance: random participants
	from, sender, to := g.any(), g.any(), g.any()
	if g.rng.Chance(60) {
		sender = g.u.actors[g.keyed()]
	}
	si := g.keyedIndex(sender.Addr)
	val := big.NewInt(int64(g.rng.Intn(20)))
	if g.rng.Chance(30) {
		val = raw(v2, m.B(token, from.Addr))
	}
	o.Sender, o.States, o.Signers, o.Shape = sender.Addr, []xfer{{From: from.Addr, To: to.Addr, Value: val}}, g.signers(si, g.rng.Chance(80)), "transferFrom/no-allowance"
	return o
}
