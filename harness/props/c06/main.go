package main

import (
	"fmt"
	"math/big"
	"os"

	"github.com/ontio/ontology/account"
	"github.com/ontio/ontology/common"
	"github.com/ontio/ontology/common/config"
	"github.com/ontio/ontology/common/constants"
	"github.com/ontio/ontology/core/types"
	nutils "github.com/ontio/ontology/smartcontract/service/native/utils"
	"verifharness/lib/chain"
	"verifharness/lib/vf"
)

type st struct {
	From, To common.Address
	Value    *big.Int
}

func main() {
	dir := vf.Scratch("c06probe")
	defer os.RemoveAll(dir)
	for _, net := range []uint32{config.NETWORK_ID_SOLO_NET, config.NETWORK_ID_POLARIS_NET, config.NETWORK_ID_MAIN_NET} {
		w := chain.NewWorld(fmt.Sprint("probe", net), 3)
		chain.SetupSoloConfig(w.BK)
		config.DefConfig.P2PNode.NetworkId = net
		c := &chain.Chain{Dir: fmt.Sprintf("%s/%d", dir, net), BK: w.BK, BKs: []*account.Account{w.BK}}
		if err := c.Open(); err != nil {
			panic(err)
		}
		_, n0, d0 := c.DumpState()
		fmt.Println("net", net, "genesis keys", n0, "deadline", config.GetOntHolderUnboundDeadline(), "v2h", config.GetAddDecimalsHeight())
		for k, v := range d0 {
			if len(k) >= 20 && (k[:20] == string(nutils.OntContractAddress[:]) || k[:20] == string(nutils.OngContractAddress[:])) {
				fmt.Printf("  %x = %x\n", k, v)
			}
		}
		step := func(name string, ts uint32, txs ...*types.Transaction) {
			_, _, before := c.DumpState()
			b, err := c.MakeBlock(txs, ts)
			if err != nil {
				fmt.Printf("%+v bk=%v n=%d\n", err, c.BK != nil, len(txs))
				panic(err)
			}
			res, err := c.CommitExec(b)
			if err != nil {
				fmt.Println(name, "COMMIT ERR", err)
				return
			}
			_, _, after := c.DumpState()
			fmt.Println("==", name, "h", c.Ledger.GetCurrentBlockHeight())
			for _, n := range res.Notify {
				fmt.Printf("   notify state=%d gas=%d n=%d\n", n.State, n.GasConsumed, len(n.Notify))
			}
			for _, l := range chain.DiffDumps(before, after, 30) {
				fmt.Println("   ", l)
			}
		}
		step("empty", 0)
		mk := func(contract common.Address, method string, p interface{}, signers ...int) *types.Transaction {
			mt, err := w.TB.Native(0, 20000, contract, method, []interface{}{p})
			if err != nil {
				panic(err)
			}
			sg := []*accountT{}
			_ = sg
			if len(signers) == 0 {
				chain.Sign(mt, w.BK)
			} else {
				for _, s := range signers {
					chain.Sign(mt, w.Accts[s])
				}
			}
			return chain.Immutable(mt)
		}
		a0, a1 := w.Accts[0].Address, w.Accts[1].Address
		step("ont bk->a0 100", 0, mk(nutils.OntContractAddress, "transfer", []st{{w.BK.Address, a0, big.NewInt(100)}}))
		step("ont a0->a1 10", 0, mk(nutils.OntContractAddress, "transfer", []st{{a0, a1, big.NewInt(10)}}, 0))
		step("ont a0->a1 V2 1.5", 0, mk(nutils.OntContractAddress, "transferV2", []st{{a0, a1, big.NewInt(1500000000)}}, 0))
		step("ont a0->a1 unauth", 0, mk(nutils.OntContractAddress, "transfer", []st{{a0, a1, big.NewInt(10)}}, 1))
		step("ont a0->a1 multi 2nd fails", 0, mk(nutils.OntContractAddress, "transfer", []st{{a0, a1, big.NewInt(1)}, {a0, a1, big.NewInt(1000)}}, 0))
		step("ont a0->a1 huge", 0, mk(nutils.OntContractAddress, "transfer", []st{{a0, a1, new(big.Int).Lsh(big.NewInt(1), 70)}}, 0))
		dl := config.GetOntHolderUnboundDeadline() + constants.GENESIS_BLOCK_TIMESTAMP
		if config.GetOntHolderUnboundDeadline() > 0 {
			step("ont a0->a1 10 at deadline-5", dl-5, mk(nutils.OntContractAddress, "transfer", []st{{a0, a1, big.NewInt(10)}}, 0))
			step("ont a0->a1 10 at deadline", dl, mk(nutils.OntContractAddress, "transfer", []st{{a0, a1, big.NewInt(10)}}, 0))
			step("ont a0->a1 10 at deadline+1", dl+1, mk(nutils.OntContractAddress, "transfer", []st{{a0, a1, big.NewInt(10)}}, 0))
			step("ont a0->a1 10 at deadline+100", dl+100, mk(nutils.OntContractAddress, "transfer", []st{{a0, a1, big.NewInt(10)}}, 0))
		}
		c.Close()
	}
}

type accountT struct{}
