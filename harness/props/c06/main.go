// C06 — Native token operations conserve supply and respect authorization.
//
// Model-based exploration: every ONT/ONG transfer/approve/transferFrom (V1 and V2) is a real
// signed invoke transaction executed in a real block of a solo-consensus ledger; the oracle
// reads the committed contract storage (all balance/allowance keys found by iterator) and
// compares it with a reference ledger.
package main

import (
	"crypto/sha256"
	"encoding/hex"
	"encoding/json"
	"fmt"
	"math/big"
	"os"
	"path/filepath"
	"sort"
	"strings"
	"sync"

	"github.com/ontio/ontology/account"
	"github.com/ontio/ontology/common"
	"github.com/ontio/ontology/common/config"
	"github.com/ontio/ontology/common/constants"
	"github.com/ontio/ontology/core/types"
	"github.com/ontio/ontology/smartcontract/event"
	nutils "github.com/ontio/ontology/smartcontract/service/native/utils"
	"verifharness/lib/chain"
	"verifharness/lib/vf"
)

type netCfg struct {
	name     string
	id       uint32
	v2       bool   // V2 methods registered at the heights we reach
	wrap     bool   // ONT `transfer` decodes amounts mod 2^64 at the heights we reach
	deadline uint32 // holder-unbound deadline (offset from genesis time); 0 = no unbinding
}

var (
	openMu  sync.Mutex
	scratch string
)

func main() {
	r := vf.NewRun("C06", "exploration",
		"seeded call histories on solo-consensus ledgers with network id solo / polaris / main (solo: V1+V2 methods, no ONG unbinding; polaris: V1+V2 and real unbinding before and after the holder deadline; main: V1 only, uint64-wrapping transfer decoding). Each call (ont|ong).(transfer|transferV2|approve|approveV2|transferFrom|transferFromV2) is one signed invoke tx (gas price 0) with a generated signer set (single keys and a 2-of-3 multisig) over 8 addresses incl. both token contracts and the zero address; amounts from {0, 1, within balance, exactly balance, balance+1, allowance, allowance+1, k*10^9+fraction, 2^64-1, 2^64, total supply(+1), 2^128, negative}; transfer lists of 2-4 states incl. late-failing elements; 1 tx per block (1-4 on solo). A case = one call; non-trivial unless amount is 0; distinct by (network, call, participants, amounts, signer set)")
	scratch = vf.Scratch("c06")
	defer os.RemoveAll(scratch)
	rng := vf.NewRNG(vf.Seed())

	// network ids: all chain-configuration facts the model needs are read from the real config
	nets := []*netCfg{{name: "solo", id: config.NETWORK_ID_SOLO_NET}, {name: "polaris", id: config.NETWORK_ID_POLARIS_NET}, {name: "main", id: config.NETWORK_ID_MAIN_NET}}
	chains := map[string]int{"solo": vf.N(20, 300), "polaris": vf.N(14, 220), "main": vf.N(6, 80)}
	blocks := vf.N(200, 400)
	workers := 8
	if vf.Thorough() {
		workers = 12
	}
	u := newUniverse("c06")
	for ni, net := range nets {
		chain.SetupSoloConfig(u.actors[0].Keys[0])
		config.DefConfig.P2PNode.NetworkId = net.id
		config.DefConfig.P2PNode.EVMChainId = config.GetEip155ChainID(net.id)
		const maxHeight = 100000
		net.v2 = config.GetAddDecimalsHeight() == 0
		if !net.v2 && config.GetAddDecimalsHeight() <= maxHeight {
			panic("V2 activation height inside the generated range")
		}
		net.wrap = config.GetUint64WrappingHeight() >= maxHeight
		if !net.wrap && config.GetUint64WrappingHeight() != 0 {
			panic("wrapping height inside the generated range")
		}
		net.deadline = config.GetOntHolderUnboundDeadline()
		r.Extra("net_"+net.name, map[string]interface{}{"id": net.id, "v2": net.v2, "wrapV1": net.wrap, "holderDeadline": net.deadline})
		sub := rng.Sub(uint64(ni))
		n := chains[net.name]
		vf.Parallel(n, workers, func(i int) {
			runChain(r, u, net, i, sub.Sub(uint64(i)), blocks)
		})
	}

	for _, tk := range []string{"ont", "ong"} {
		for _, m := range []string{"transfer", "transferV2", "approve", "approveV2", "transferFrom", "transferFromV2"} {
			r.Require("ok/"+tk+"."+m, 20)
		}
		r.Require("supply-checked/"+tk, 100)
	}
	for _, reason := range []string{"no-witness", "insufficient-balance", "insufficient-allowance", "over-supply", "amount-not-uint64", "negative-amount", "v2-not-enabled"} {
		r.Require("fail/"+reason, 10)
	}
	for _, c := range []string{"false-noop", "atomicity/late-element-fails", "atomicity/list-ok", "self-transfer/ok", "self-transfer/over-balance-rejected",
		"transferFrom/from==to/ok", "transferFrom/owner-signs-not-spender/rejected", "signer/multisig-debited", "keyless-from/rejected",
		"failed-block/dump-identical", "multi-tx-block", "authorized-debit/signer", "authorized-debit/allowance", "authorized-debit/unbound-ong",
		"unbound-ong/approved-before-deadline", "unbound-ong/moved-after-deadline", "unbound-ong/claimed-by-transferFrom", "time/before-deadline", "time/after-deadline", "time/at-deadline",
		"v2-balance-item", "wrapped-amount/main", "net/solo", "net/polaris", "net/main"} {
		r.Require(c, 3)
	}
	r.Assume("block execution does not verify transaction signatures (the validators do); witnesses are the addresses of the attached signature sets — the monitor attaches real signatures")
	r.Assume("gas price 0: no fee transfer interferes with the judged balances")
	r.Assume("the amount of ONG unbound by an ONT transfer is not recomputed by the model (C09 covers it): only its shape is checked — ONG leaves the ONT contract address and reaches the holders named in the call, nothing else moves")
	os.RemoveAll(scratch)
	r.Finish()
}

// ---------------------------------------------------------------- one chain

type blockRec struct {
	Height uint32                   `json:"height"`
	Time   uint32                   `json:"time"`
	Ops    []map[string]interface{} `json:"ops"`
	States []byte                   `json:"tx_states"`
}

func timestamps(net *netCfg, rng *vf.RNG, L int) []uint32 {
	ts := make([]uint32, L+2)
	g := constants.GENESIS_BLOCK_TIMESTAMP
	if net.deadline == 0 {
		t := g + 50
		for i := 1; i <= L+1; i++ {
			t += uint32(1 + rng.Intn(3000))
			ts[i] = t
		}
		return ts
	}
	// first part strictly before the deadline, then deadline-1, deadline, deadline+1, then after
	cross := L*2/5 + rng.Intn(L/5+1)
	var pre []uint32
	for i := 0; i < cross; i++ {
		pre = append(pre, g+100+uint32(rng.U64()%uint64(net.deadline-2000)))
	}
	sort.Slice(pre, func(a, b int) bool { return pre[a] < pre[b] })
	t := g + 50
	for i := 1; i <= L+1; i++ {
		switch {
		case i <= cross:
			if pre[i-1] <= t {
				t++
			} else {
				t = pre[i-1]
			}
		case i == cross+1:
			t = g + net.deadline - 1
		case i == cross+2:
			t = g + net.deadline
		case i == cross+3:
			t = g + net.deadline + 1
		default:
			if rng.Chance(15) {
				t += uint32(86400 * (1 + rng.Intn(200)))
			} else {
				t += uint32(1 + rng.Intn(5000))
			}
		}
		ts[i] = t
	}
	return ts
}

func fundingOps(u *universe, net *netCfg) [][]*op {
	bk := u.actors[0]
	var blocks [][]*op
	mk := func(token, method string, to int, v string) *op {
		x, _ := new(big.Int).SetString(v, 10)
		return &op{Token: token, Method: method, States: []xfer{{From: bk.Addr, To: u.actors[to].Addr, Value: x}}, Signers: []int{0}, Shape: "funding"}
	}
	blocks = append(blocks, []*op{mk("ont", "transfer", 1, "5000")}, []*op{mk("ont", "transfer", 2, "120")}, []*op{mk("ont", "transfer", 4, "900")})
	if net.v2 {
		blocks = append(blocks, []*op{mk("ont", "transferV2", 3, "77500000001")})
	} else {
		blocks = append(blocks, []*op{mk("ont", "transfer", 3, "77")})
	}
	if net.id == config.NETWORK_ID_SOLO_NET { // only on a solo net does the bookkeeper own the ONG
		blocks = append(blocks, []*op{mk("ong", "transfer", 1, "400000")}, []*op{mk("ong", "transferV2", 2, "123456789123456789")},
			[]*op{mk("ong", "transfer", 4, "31")}, []*op{mk("ong", "transferV2", 3, "999999999")})
	}
	return blocks
}

func runChain(r *vf.Run, u *universe, net *netCfg, idx int, rng *vf.RNG, L int) {
	tag := fmt.Sprintf("%s-%d", net.name, idx)
	dir := filepath.Join(scratch, tag)
	c := &chain.Chain{Dir: dir, BK: u.actors[0].Keys[0], BKs: []*account.Account{u.actors[0].Keys[0]}}
	openMu.Lock()
	err := c.Open()
	openMu.Unlock()
	if err != nil {
		r.Inconclusive("cannot open ledger: " + err.Error())
		return
	}
	defer func() {
		c.Close()
		os.RemoveAll(dir)
	}()
	r.Count("net/" + net.name)
	tb := chain.NewTxBuilder(uint32(1000 + idx*1000000))
	g := &gen{rng: rng, u: u, net: net}
	ts := timestamps(net, rng.Sub(999), L)
	before := takeSnapshot(c)
	model := before.ledger()
	var history []blockRec
	funding := fundingOps(u, net)

	for h := 1; h <= L; h++ {
		// ---- generate the block's calls
		var ops []*op
		if h <= len(funding) {
			ops = funding[h-1]
		} else {
			n := 1
			if net.deadline == 0 && rng.Chance(35) {
				n = 2 + rng.Intn(3)
			}
			work := model
			for i := 0; i < n; i++ {
				o := g.next(work)
				ops = append(ops, o)
				if n > 1 { // later calls of the block are generated against the expected intermediate state
					if ex, nx := work.expect(o, ctxOf(u, net, o)); ex.outcome == "ok" {
						work = nx
					}
				}
			}
		}
		var txs []*types.Transaction
		for _, o := range ops {
			txs = append(txs, buildTx(tb, u, o))
		}
		b, err := c.MakeBlock(txs, ts[h])
		if err != nil {
			r.Inconclusive("MakeBlock: " + err.Error())
			return
		}
		res, err := c.CommitExec(b)
		if err != nil {
			// an invoke transaction can never make a block invalid
			r.Violation("block-rejected", err.Error(), witness(u, net, tag, history, ops, txs, ts[h], nil, nil))
			return
		}
		after := takeSnapshot(c)
		rec := blockRec{Height: uint32(h), Time: ts[h]}
		for i, o := range ops {
			rec.Ops = append(rec.Ops, o.describe(u))
			rec.States = append(rec.States, res.Notify[i].State)
		}
		judge(r, u, net, tag, history, ops, txs, ts[h], res.Notify, model, before, after)
		history = append(history, rec)
		if len(history) > 400 {
			history = history[1:]
		}
		before = after
		model = after.ledger() // resynchronise: one deviation must not cascade
	}
}

func ctxOf(u *universe, net *netCfg, o *op) execCtx {
	w := map[common.Address]bool{}
	for _, i := range o.Signers {
		w[u.actors[i].Addr] = true
	}
	return execCtx{v2Enabled: net.v2, wrapV1: net.wrap, witness: w}
}

func witness(u *universe, net *netCfg, tag string, history []blockRec, ops []*op, txs []*types.Transaction, ts uint32, before, after *snapshot) map[string]interface{} {
	w := map[string]interface{}{"network": net.name, "network_id": net.id, "chain": tag, "block_time": ts, "history_blocks": history}
	var od []map[string]interface{}
	for _, o := range ops {
		od = append(od, o.describe(u))
	}
	w["block_calls"] = od
	var raw []string
	for _, t := range txs {
		raw = append(raw, hex.EncodeToString(t.ToArray()))
	}
	w["block_tx_hex"] = raw
	if before != nil {
		st := map[string]string{}
		for k, v := range before.bal {
			if v.Sign() != 0 {
				st["balance "+prettyKey(u, k)] = fmtAmt(v)
			}
		}
		for k, v := range before.allow {
			if v.Sign() != 0 {
				st["allowance "+prettyKey(u, k)] = fmtAmt(v)
			}
		}
		w["state_before"] = st
	}
	if before != nil && after != nil {
		w["storage_diff"] = chain.DiffDumps(before.raw, after.raw, 40)
	}
	return w
}

func prettyKey(u *universe, k string) string {
	p := strings.Split(k, "|")
	for i := 1; i < len(p); i++ {
		if a, err := common.AddressFromHexString(p[i]); err == nil {
			if x, ok := u.byAddr[a]; ok {
				p[i] = x.Name
			}
		}
	}
	return strings.Join(p, " ")
}

// ---------------------------------------------------------------- oracle

func judge(r *vf.Run, u *universe, net *netCfg, tag string, history []blockRec, ops []*op, txs []*types.Transaction, ts uint32,
	notes []*event.ExecuteNotify, model *ledgerModel, before, after *snapshot) {
	wit := func() map[string]interface{} { return witness(u, net, tag, history, ops, txs, ts, before, after) }
	calls := map[string]bool{}
	for _, o := range ops {
		calls[o.Token+"."+o.Method] = true
	}
	var cl []string
	for k := range calls {
		cl = append(cl, k)
	}
	sort.Strings(cl)
	callKey := strings.Join(cl, "+")
	if len(ops) > 1 {
		r.Count("multi-tx-block")
	}
	if net.deadline > 0 {
		off := ts - constants.GENESIS_BLOCK_TIMESTAMP
		switch {
		case off < net.deadline:
			r.Count("time/before-deadline")
		case off == net.deadline:
			r.Count("time/at-deadline")
		default:
			r.Count("time/after-deadline")
		}
	}

	// (ii) every balance / allowance item decodes to a non-negative amount
	for _, b := range after.bad {
		r.Violation("negative-or-undecodable-item:"+callKey, b, wit())
	}
	for _, v := range after.raw {
		if len(v) > 0 && v[0] == 1 {
			r.Count("v2-balance-item")
			break
		}
	}
	// (i) sum over ALL balance keys of each token unchanged, and equal to the total supply
	for _, tk := range []string{"ont", "ong"} {
		r.Count("supply-checked/" + tk)
		if a, b := after.total(tk), before.total(tk); a.Cmp(b) != 0 {
			r.Violation("supply-changed:"+tk+":"+callKey, fmt.Sprintf("sum of %s balances %s -> %s", tk, fmtAmt(b), fmtAmt(a)), wit())
		} else if a.Cmp(supplyS[tk]) != 0 {
			r.Violation("supply-not-total:"+tk, fmt.Sprintf("sum of %s balances %s, total supply %s", tk, fmtAmt(a), fmtAmt(supplyS[tk])), wit())
		}
		if after.supply[tk] == nil || after.supply[tk].Cmp(supplyS[tk]) != 0 {
			r.Violation("total-supply-key-changed:"+tk+":"+callKey, fmt.Sprintf("%v", after.supply[tk]), wit())
		}
	}

	// (iii)/(v) per call: observed outcome against the reference ledger's preconditions
	work := model
	changed := false // some call of the block is expected/observed to have changed state
	desync := false
	holders := map[common.Address]bool{}
	var lastFail string
	for i, o := range ops {
		cx := ctxOf(u, net, o)
		ex, next := work.expect(o, cx)
		ok := notes[i].State == event.CONTRACT_STATE_SUCCESS
		call := o.Token + "." + o.Method
		nontrivial := false
		for _, s := range o.States {
			if s.Value.Sign() != 0 {
				nontrivial = true
			}
		}
		fp := ""
		if nontrivial {
			j, _ := json.Marshal(o.describe(u))
			hsum := sha256.Sum256(append([]byte(net.name), j...))
			fp = hex.EncodeToString(hsum[:12])
		}
		r.Eval(fp)
		r.Count("call/" + call)
		r.Count("shape/" + o.Shape)
		if i == 0 && o.Shape != "funding" {
			r.Sample(map[string]interface{}{"network": net.name, "call": o.describe(u), "tx_success": ok, "model": ex.outcome + "/" + ex.reason})
		}
		switch {
		case ok && ex.outcome == "ok":
			work = next
			changed = true
			r.Count("ok/" + call)
			for _, hd := range ex.holders {
				holders[hd] = true
			}
			observeOK(r, u, o, ex)
		case ok && ex.outcome == "false-noop":
			r.Count("false-noop")
		case ok && ex.outcome == "fail":
			changed = true
			desync = true
			if ex.relevant {
				key := fmt.Sprintf("success-despite-%s:%s", ex.reason, call)
				if ex.elem > 0 {
					key += ":later-list-element"
				}
				r.Violation(key, fmt.Sprintf("call %d of the block succeeded although the reference ledger says %s (element %d)", i, ex.reason, ex.elem), wit())
			} else {
				r.Count("drift/success-despite-" + ex.reason)
				r.Inconclusive(fmt.Sprintf("model drift: %s succeeded although the model expects %s", call, ex.reason))
			}
		case !ok && ex.outcome == "fail":
			r.Count("fail/" + ex.reason)
			lastFail = ex.reason
			observeFail(r, u, o, ex)
		default: // failed although every modelled precondition holds: not a violation of the statement, but the workload is no longer what it claims
			r.Count("drift/unexpected-failure/" + call)
			r.Inconclusive(fmt.Sprintf("model drift: %s (%s) failed although the model expects %s", call, o.Shape, ex.outcome))
			lastFail = "unexpected"
		}
	}

	// (iv) a block in which no call succeeded with effects leaves the whole contract storage untouched
	if !changed {
		if d := chain.DiffDumps(before.raw, after.raw, 10); len(d) > 0 {
			key := "failed-call-changed-state:" + callKey + ":" + lastFail
			r.Violation(key, fmt.Sprintf("no call of the block succeeded, but %d storage items changed: %v", len(d), d), wit())
		} else {
			r.Count("failed-block/dump-identical")
		}
		return
	}
	if desync {
		return
	}

	// (v) balances and allowances equal the reference ledger's, up to the unbound-ONG side channel
	ontC := nutils.OntContractAddress
	var mism []string
	moved := new(big.Int)
	for _, k := range diffMaps(work.bal, after.bal) {
		p := strings.Split(k, "|")
		a, _ := common.AddressFromHexString(p[1])
		if p[0] == "ong" && len(holders) > 0 && (a == ontC || holders[a]) {
			d := new(big.Int).Sub(zeroIfNil(after.bal[k]), zeroIfNil(work.bal[k]))
			if a == ontC && !holders[a] {
				if d.Sign() > 0 {
					r.Violation("unbound-ong-pattern:ont-contract-gained:"+callKey, fmt.Sprintf("ONT contract's ONG balance grew by %s", fmtAmt(d)), wit())
				}
				moved.Sub(moved, d)
			} else if d.Sign() < 0 && a != ontC {
				r.Violation("unbound-ong-pattern:holder-lost-ong:"+callKey, fmt.Sprintf("%s lost %s ONG in an ONT transfer", u.name(a), fmtAmt(new(big.Int).Neg(d))), wit())
			}
			continue
		}
		mism = append(mism, "balance "+prettyKey(u, k)+fmt.Sprintf(" model=%s observed=%s", fmtAmt(zeroIfNil(work.bal[k])), fmtAmt(zeroIfNil(after.bal[k]))))
	}
	if moved.Sign() > 0 {
		r.Count("unbound-ong/moved-after-deadline")
	}
	for _, k := range diffMaps(work.allow, after.allow) {
		p := strings.Split(k, "|")
		f, _ := common.AddressFromHexString(p[1])
		t, _ := common.AddressFromHexString(p[2])
		if p[0] == "ong" && f == ontC && holders[t] {
			if zeroIfNil(after.allow[k]).Cmp(zeroIfNil(work.allow[k])) > 0 {
				r.Count("unbound-ong/approved-before-deadline")
			}
			continue
		}
		mism = append(mism, "allowance "+prettyKey(u, k)+fmt.Sprintf(" model=%s observed=%s", fmtAmt(zeroIfNil(work.allow[k])), fmtAmt(zeroIfNil(after.allow[k]))))
	}
	if len(mism) > 0 {
		what := "balance"
		if strings.HasPrefix(mism[0], "allowance") {
			what = "allowance"
		}
		r.Violation("state-differs-from-model:"+what+":"+callKey, strings.Join(mism, "; "), wit())
	}

	// (iii) observation-only authorization check (single-call blocks): every address whose balance went down
	if len(ops) == 1 {
		o := ops[0]
		cx := ctxOf(u, net, o)
		for _, tk := range []string{"ont", "ong"} {
			for _, k := range diffMaps(before.bal, after.bal) {
				if !strings.HasPrefix(k, tk+"|") {
					continue
				}
				dec := new(big.Int).Sub(zeroIfNil(before.bal[k]), zeroIfNil(after.bal[k]))
				if dec.Sign() <= 0 {
					continue
				}
				p := strings.Split(k, "|")
				a, _ := common.AddressFromHexString(p[1])
				switch {
				case tk == o.Token && cx.witness[a] && o.kind() == "transfer":
					r.Count("authorized-debit/signer")
				case tk == o.Token && o.kind() == "transferFrom" && a == o.States[0].From && cx.witness[o.Sender] &&
					before.ledger().A(tk, a, o.Sender).Cmp(dec) >= 0 &&
					new(big.Int).Sub(before.ledger().A(tk, a, o.Sender), dec).Cmp(after.ledger().A(tk, a, o.Sender)) == 0:
					r.Count("authorized-debit/allowance")
					if tk == "ong" && a == ontC {
						r.Count("unbound-ong/claimed-by-transferFrom")
					}
				case tk == "ong" && o.Token == "ont" && a == ontC && o.kind() != "approve":
					r.Count("authorized-debit/unbound-ong")
				default:
					r.Violation("unauthorized-debit:"+tk+":"+o.Token+"."+o.Method, fmt.Sprintf("%s of %s decreased by %s without its witness or a sufficient, decremented allowance", tk, u.name(a), fmtAmt(dec)), wit())
				}
			}
		}
	}
}

func zeroIfNil(v *big.Int) *big.Int {
	if v == nil {
		return new(big.Int)
	}
	return v
}

// coverage bookkeeping for shapes the design calls out
func observeOK(r *vf.Run, u *universe, o *op, ex expectation) {
	switch o.kind() {
	case "transfer":
		if len(o.States) > 1 {
			r.Count("atomicity/list-ok")
		}
		for _, s := range o.States {
			if s.From == s.To && s.Value.Sign() > 0 {
				r.Count("self-transfer/ok")
			}
		}
	case "transferFrom":
		if o.States[0].From == o.States[0].To {
			r.Count("transferFrom/from==to/ok")
		}
	}
	for _, d := range ex.debits {
		if a := u.byAddr[d]; a != nil && a.M > 0 {
			r.Count("signer/multisig-debited")
		}
	}
	if o.Method == "transfer" && o.Token == "ont" {
		for _, s := range o.States {
			if s.Value.Cmp(two64) >= 0 {
				r.Count("wrapped-amount/main")
			}
		}
	}
}

func observeFail(r *vf.Run, u *universe, o *op, ex expectation) {
	if o.kind() == "transfer" && ex.elem > 0 && (ex.reason == "no-witness" || ex.reason == "insufficient-balance" || ex.reason == "over-supply") {
		r.Count("atomicity/late-element-fails")
	}
	if o.kind() == "transfer" && ex.reason == "insufficient-balance" && o.States[ex.elem].From == o.States[ex.elem].To {
		r.Count("self-transfer/over-balance-rejected")
	}
	if o.kind() == "transfer" && ex.reason == "no-witness" {
		if a := u.byAddr[o.States[ex.elem].From]; a != nil && a.Keys == nil {
			r.Count("keyless-from/rejected")
		}
	}
	if o.Shape == "transferFrom/owner-signs-not-spender" && ex.reason == "no-witness" {
		r.Count("transferFrom/owner-signs-not-spender/rejected")
	}
}
