package main

import (
	"fmt"
	"math/big"
	"sort"

	"github.com/ontio/ontology/common"
)

// ---------------------------------------------------------------- reference ledger
//
// All amounts are 10^9-scaled big integers (the representation of
// core/states.NativeTokenBalance): 1 ONT (V1 unit) = 10^9, 1 ONG-V1 unit = 10^9.

var (
	scale   = big.NewInt(1000000000)
	two64   = new(big.Int).Lsh(big.NewInt(1), 64)
	supplyS = map[string]*big.Int{ // scaled total supplies
		"ont": new(big.Int).Mul(big.NewInt(1000000000), scale),
		"ong": new(big.Int).Mul(big.NewInt(1000000000000000000), scale),
	}
)

type ledgerModel struct {
	bal   map[string]*big.Int // token|addrhex
	allow map[string]*big.Int // token|fromhex|tohex
}

func newLedger() *ledgerModel {
	return &ledgerModel{bal: map[string]*big.Int{}, allow: map[string]*big.Int{}}
}

func (m *ledgerModel) clone() *ledgerModel {
	n := newLedger()
	for k, v := range m.bal {
		n.bal[k] = new(big.Int).Set(v)
	}
	for k, v := range m.allow {
		n.allow[k] = new(big.Int).Set(v)
	}
	return n
}

func bkey(token string, a common.Address) string { return token + "|" + a.ToHexString() }
func akey(token string, f, t common.Address) string {
	return token + "|" + f.ToHexString() + "|" + t.ToHexString()
}

func (m *ledgerModel) B(token string, a common.Address) *big.Int {
	if v, ok := m.bal[bkey(token, a)]; ok {
		return v
	}
	return new(big.Int)
}
func (m *ledgerModel) A(token string, f, t common.Address) *big.Int {
	if v, ok := m.allow[akey(token, f, t)]; ok {
		return v
	}
	return new(big.Int)
}
func (m *ledgerModel) setB(token string, a common.Address, v *big.Int) {
	m.bal[bkey(token, a)] = new(big.Int).Set(v)
}
func (m *ledgerModel) setA(token string, f, t common.Address, v *big.Int) {
	m.allow[akey(token, f, t)] = new(big.Int).Set(v)
}

// diffMaps lists keys whose (zero-defaulted) values differ.
func diffMaps(a, b map[string]*big.Int) []string {
	keys := map[string]bool{}
	for k := range a {
		keys[k] = true
	}
	for k := range b {
		keys[k] = true
	}
	var out []string
	for k := range keys {
		va, vb := a[k], b[k]
		if va == nil {
			va = new(big.Int)
		}
		if vb == nil {
			vb = new(big.Int)
		}
		if va.Cmp(vb) != 0 {
			out = append(out, k)
		}
	}
	sort.Strings(out)
	return out
}

// ---------------------------------------------------------------- operations

type xfer struct {
	From, To common.Address
	Value    *big.Int // raw parameter as passed (V1: whole units, V2: scaled)
}

type op struct {
	Token   string // "ont" | "ong"
	Method  string // transfer, transferV2, approve, approveV2, transferFrom, transferFromV2
	States  []xfer // transfer*: 1..n; approve*/transferFrom*: exactly 1
	Sender  common.Address
	Signers []int  // indices into the universe (keyed actors only)
	Shape   string // generator scenario, for evidence
}

func (o *op) v2() bool {
	return o.Method == "transferV2" || o.Method == "approveV2" || o.Method == "transferFromV2"
}
func (o *op) kind() string {
	switch o.Method {
	case "transfer", "transferV2":
		return "transfer"
	case "approve", "approveV2":
		return "approve"
	}
	return "transferFrom"
}

// execution context the model needs (all of it is chain configuration, not code behaviour)
type execCtx struct {
	v2Enabled bool // height >= GetAddDecimalsHeight()
	wrapV1    bool // height <= GetUint64WrappingHeight(): ONT `transfer` decodes amounts mod 2^64
	witness   map[common.Address]bool
}

// expectation of the model for one call
type expectation struct {
	outcome  string   // "ok" | "false-noop" | "fail"
	reason   string   // first failing precondition in the order the contract evaluates them
	relevant bool     // reason is one of the property's preconditions (witness / funds / allowance)
	elem     int      // index of the failing list element (transfer lists)
	debits   []common.Address
	holders  []common.Address // ONT holders whose unbound-ONG settlement runs (ONT transfers only)
}

// scaledAmounts decodes the raw parameters the way the contract does.
func scaledAmounts(o *op, cx execCtx) ([]*big.Int, string) {
	out := make([]*big.Int, len(o.States))
	for i, s := range o.States {
		v := s.Value
		if o.v2() {
			if v.Sign() < 0 {
				return nil, "negative-amount"
			}
			out[i] = new(big.Int).Set(v)
			continue
		}
		if v.Sign() < 0 {
			return nil, "negative-amount"
		}
		if v.Cmp(two64) >= 0 {
			if cx.wrapV1 && o.Token == "ont" && o.Method == "transfer" {
				v = new(big.Int).Mod(v, two64)
			} else {
				return nil, "amount-not-uint64"
			}
		}
		out[i] = new(big.Int).Mul(v, scale)
	}
	return out, ""
}

// expect evaluates the call on a clone of m; on "ok" the returned ledger carries the effects.
func (m *ledgerModel) expect(o *op, cx execCtx) (expectation, *ledgerModel) {
	n := m.clone()
	fail := func(reason string, relevant bool, elem int) (expectation, *ledgerModel) {
		return expectation{outcome: "fail", reason: reason, relevant: relevant, elem: elem}, m
	}
	if o.v2() && !cx.v2Enabled {
		return fail("v2-not-enabled", false, 0)
	}
	amts, bad := scaledAmounts(o, cx)
	if bad != "" {
		return fail(bad, false, 0)
	}
	sup := supplyS[o.Token]
	ex := expectation{outcome: "ok"}
	switch o.kind() {
	case "transfer":
		for i, s := range o.States {
			a := amts[i]
			if a.Sign() == 0 {
				continue
			}
			if a.Cmp(sup) > 0 {
				return fail("over-supply", false, i)
			}
			if !cx.witness[s.From] {
				return fail("no-witness", true, i)
			}
			if n.B(o.Token, s.From).Cmp(a) < 0 {
				return fail("insufficient-balance", true, i)
			}
			n.setB(o.Token, s.From, new(big.Int).Sub(n.B(o.Token, s.From), a))
			n.setB(o.Token, s.To, new(big.Int).Add(n.B(o.Token, s.To), a))
			ex.debits = append(ex.debits, s.From)
			if o.Token == "ont" {
				ex.holders = append(ex.holders, s.From, s.To)
			}
		}
	case "approve":
		s, a := o.States[0], amts[0]
		if a.Cmp(sup) > 0 {
			return fail("over-supply", false, 0)
		}
		if !cx.witness[s.From] {
			return fail("no-witness", true, 0)
		}
		n.setA(o.Token, s.From, s.To, a)
	case "transferFrom":
		s, a := o.States[0], amts[0]
		if a.Sign() == 0 {
			return expectation{outcome: "false-noop"}, m
		}
		if a.Cmp(sup) > 0 {
			return fail("over-supply", false, 0)
		}
		if !cx.witness[o.Sender] {
			return fail("no-witness", true, 0)
		}
		if n.A(o.Token, s.From, o.Sender).Cmp(a) < 0 {
			return fail("insufficient-allowance", true, 0)
		}
		n.setA(o.Token, s.From, o.Sender, new(big.Int).Sub(n.A(o.Token, s.From, o.Sender), a))
		if n.B(o.Token, s.From).Cmp(a) < 0 {
			return fail("insufficient-balance", true, 0)
		}
		n.setB(o.Token, s.From, new(big.Int).Sub(n.B(o.Token, s.From), a))
		n.setB(o.Token, s.To, new(big.Int).Add(n.B(o.Token, s.To), a))
		ex.debits = append(ex.debits, s.From)
		if o.Token == "ont" {
			ex.holders = append(ex.holders, s.From, s.To)
		}
	}
	return ex, n
}

func (o *op) describe(u *universe) map[string]interface{} {
	var sts []map[string]string
	for _, s := range o.States {
		sts = append(sts, map[string]string{"from": u.name(s.From), "to": u.name(s.To), "value": s.Value.String()})
	}
	var sg []string
	for _, i := range o.Signers {
		sg = append(sg, u.actors[i].Name)
	}
	d := map[string]interface{}{"call": o.Token + "." + o.Method, "states": sts, "signers": sg, "shape": o.Shape}
	if o.kind() == "transferFrom" {
		d["sender"] = u.name(o.Sender)
	}
	return d
}

func fmtAmt(v *big.Int) string {
	q, r := new(big.Int).QuoRem(v, scale, new(big.Int))
	if r.Sign() == 0 {
		return q.String()
	}
	return fmt.Sprintf("%s.%09d", q, r)
}
