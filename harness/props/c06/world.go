package main

import (
	"fmt"
	"math/big"

	"github.com/ontio/ontology-crypto/keypair"
	"github.com/ontio/ontology/account"
	"github.com/ontio/ontology/common"
	cstates "github.com/ontio/ontology/core/states"
	"github.com/ontio/ontology/core/signature"
	"github.com/ontio/ontology/core/types"
	nutils "github.com/ontio/ontology/smartcontract/service/native/utils"
	"github.com/ontio/ontology/smartcontract/storage"
	"verifharness/lib/chain"
)

// ---------------------------------------------------------------- actors

type actor struct {
	Name string
	Addr common.Address
	Keys []*account.Account // nil: address without a key (contract addresses, zero address)
	M    int                // >0: M-of-len(Keys) multi-signature address
}

type universe struct {
	actors []*actor
	keyed  []int // indices of actors that can sign
	byAddr map[common.Address]*actor
}

func (u *universe) name(a common.Address) string {
	if x, ok := u.byAddr[a]; ok {
		return x.Name + ":" + a.ToHexString()
	}
	return a.ToHexString()
}

func contractOf(token string) common.Address {
	if token == "ong" {
		return nutils.OngContractAddress
	}
	return nutils.OntContractAddress
}

// newUniverse: bookkeeper (initial holder), three single-key accounts, one 2-of-3 multi-signature
// account, and three addresses nobody can sign for: both token contracts and the zero address.
func newUniverse(tag string) *universe {
	u := &universe{byAddr: map[common.Address]*actor{}}
	add := func(a *actor) {
		u.actors = append(u.actors, a)
		u.byAddr[a.Addr] = a
		if a.Keys != nil {
			u.keyed = append(u.keyed, len(u.actors)-1)
		}
	}
	bk := chain.DetAccount(tag + "/bookkeeper")
	add(&actor{Name: "bk", Addr: bk.Address, Keys: []*account.Account{bk}})
	for i := 1; i <= 3; i++ {
		a := chain.DetAccount(fmt.Sprintf("%s/a%d", tag, i))
		add(&actor{Name: fmt.Sprintf("a%d", i), Addr: a.Address, Keys: []*account.Account{a}})
	}
	var mk []*account.Account
	var pks []keypair.PublicKey
	for i := 0; i < 3; i++ {
		a := chain.DetAccount(fmt.Sprintf("%s/ms%d", tag, i))
		mk = append(mk, a)
		pks = append(pks, a.PublicKey)
	}
	maddr, err := types.AddressFromMultiPubKeys(pks, 2)
	if err != nil {
		panic(err)
	}
	add(&actor{Name: "ms2of3", Addr: maddr, Keys: mk, M: 2})
	add(&actor{Name: "ontContract", Addr: nutils.OntContractAddress})
	add(&actor{Name: "ongContract", Addr: nutils.OngContractAddress})
	add(&actor{Name: "zero", Addr: common.ADDRESS_EMPTY})
	return u
}

// signTx attaches the signature sets of the given actors (payer = first one).
func signTx(mt *types.MutableTransaction, signers ...*actor) {
	if len(signers) > 0 {
		mt.Payer = signers[0].Addr
	}
	h := mt.Hash()
	for _, a := range signers {
		if a.M == 0 {
			sig, err := signature.Sign(a.Keys[0], h[:])
			if err != nil {
				panic(err)
			}
			mt.Sigs = append(mt.Sigs, types.Sig{PubKeys: []keypair.PublicKey{a.Keys[0].PublicKey}, M: 1, SigData: [][]byte{sig}})
			continue
		}
		var pks []keypair.PublicKey
		for _, k := range a.Keys {
			pks = append(pks, k.PublicKey)
		}
		pks = keypair.SortPublicKeys(pks)
		var sigs [][]byte
		for _, pk := range pks { // signatures in sorted key order, first M keys
			if len(sigs) == a.M {
				break
			}
			for _, k := range a.Keys {
				if keypair.ComparePublicKey(k.PublicKey, pk) {
					sig, err := signature.Sign(k, h[:])
					if err != nil {
						panic(err)
					}
					sigs = append(sigs, sig)
				}
			}
		}
		mt.Sigs = append(mt.Sigs, types.Sig{PubKeys: pks, M: uint16(a.M), SigData: sigs})
	}
}

// ---------------------------------------------------------------- transactions

type pState struct { // parameter struct as BuildNativeInvokeCode wants it (flat fields)
	From, To common.Address
	Value    *big.Int
}
type pFrom struct {
	Sender, From, To common.Address
	Value            *big.Int
}

func buildTx(tb *chain.TxBuilder, u *universe, o *op) *types.Transaction {
	var param interface{}
	switch o.kind() {
	case "transfer":
		var l []pState
		for _, s := range o.States {
			l = append(l, pState{s.From, s.To, s.Value})
		}
		param = l
	case "approve":
		s := o.States[0]
		param = pState{s.From, s.To, s.Value}
	default:
		s := o.States[0]
		param = pFrom{o.Sender, s.From, s.To, s.Value}
	}
	mt, err := tb.Native(0, 400000, contractOf(o.Token), o.Method, []interface{}{param})
	if err != nil {
		panic(err)
	}
	var sg []*actor
	for _, i := range o.Signers {
		sg = append(sg, u.actors[i])
	}
	signTx(mt, sg...)
	return chain.Immutable(mt)
}

// ---------------------------------------------------------------- observation

type snapshot struct {
	raw    map[string]string
	bal    map[string]*big.Int
	allow  map[string]*big.Int
	supply map[string]*big.Int
	bad    []string // undecodable / negative items
}

// dumpStorage returns every contract-storage key/value visible through cache (one iterator
// over the whole ST_STORAGE space).
func dumpStorage(cache *storage.CacheDB) map[string]string {
	out := map[string]string{}
	it := cache.NewIterator(nil)
	for ok := it.First(); ok; ok = it.Next() {
		out[string(append([]byte{}, it.Key()...))] = string(append([]byte{}, it.Value()...))
	}
	it.Release()
	return out
}

func decodeItem(v string) (*big.Int, error) {
	item := new(cstates.StorageItem)
	if err := item.Deserialization(common.NewZeroCopySource([]byte(v))); err != nil {
		return nil, err
	}
	// independent decoding of the two value formats (no trust in the decoder's own sign check)
	var mine *big.Int
	if item.StateVersion == cstates.DefaultVersion {
		if len(item.Value) != 8 {
			return nil, fmt.Errorf("version-0 item with %d value bytes", len(item.Value))
		}
		var x uint64
		for i := 7; i >= 0; i-- {
			x = x<<8 | uint64(item.Value[i])
		}
		mine = new(big.Int).Mul(new(big.Int).SetUint64(x), scale)
	} else {
		mine = common.BigIntFromNeoBytes(item.Value)
	}
	if mine.Sign() < 0 {
		return mine, fmt.Errorf("negative value %s", mine)
	}
	b, err := cstates.NativeTokenBalanceFromStorageItem(item)
	if err != nil {
		return mine, err
	}
	if b.ToBigInt().Cmp(mine) != 0 {
		return mine, fmt.Errorf("decoder disagrees: %s vs %s", b.ToBigInt(), mine)
	}
	return mine, nil
}

func takeSnapshot(c *chain.Chain) *snapshot {
	s := &snapshot{raw: dumpStorage(c.Store().GetCacheDB()), bal: map[string]*big.Int{}, allow: map[string]*big.Int{}, supply: map[string]*big.Int{}}
	for _, token := range []string{"ont", "ong"} {
		ca := contractOf(token)
		for k, v := range s.raw {
			if len(k) < 20 || k[:20] != string(ca[:]) {
				continue
			}
			rest := k[20:]
			switch {
			case rest == "totalSupply":
				x, err := decodeItem(v)
				if err != nil {
					s.bad = append(s.bad, fmt.Sprintf("%s totalSupply: %v", token, err))
					continue
				}
				s.supply[token] = x
			case len(rest) == 20:
				var a common.Address
				copy(a[:], rest)
				x, err := decodeItem(v)
				if err != nil {
					s.bad = append(s.bad, fmt.Sprintf("%s balance of %s (%x): %v", token, a.ToHexString(), v, err))
					if x == nil {
						continue
					}
				}
				s.bal[bkey(token, a)] = x
			case len(rest) == 40:
				var f, t common.Address
				copy(f[:], rest[:20])
				copy(t[:], rest[20:])
				x, err := decodeItem(v)
				if err != nil {
					s.bad = append(s.bad, fmt.Sprintf("%s allowance %s->%s (%x): %v", token, f.ToHexString(), t.ToHexString(), v, err))
					if x == nil {
						continue
					}
				}
				s.allow[akey(token, f, t)] = x
			}
		}
	}
	return s
}

func (s *snapshot) total(token string) *big.Int {
	t := new(big.Int)
	for k, v := range s.bal {
		if k[:3] == token {
			t.Add(t, v)
		}
	}
	return t
}

func (s *snapshot) ledger() *ledgerModel {
	m := newLedger()
	for k, v := range s.bal {
		m.bal[k] = new(big.Int).Set(v)
	}
	for k, v := range s.allow {
		m.allow[k] = new(big.Int).Set(v)
	}
	return m
}
