// C07 — EVM transactions conserve ONG and advance the sender nonce by one.
//
// Invariant monitor around the real HandleEIP155Transaction / ApplyTransaction /
// StateTransition code.  Every generated EIP-155 transaction is (a) applied on a CacheDB over
// the committed state exactly the way executeBlock does (fine observation: ExecutionResult,
// receipt logs, full raw state before/after) and (b) put into a real block that is executed
// and committed through the ledger; invalid-nonce transactions must make the whole block fail
// and leave the full raw state untouched.
package main

import (
	"bytes"
	"crypto/sha256"
	"encoding/hex"
	"errors"
	"fmt"
	"math/big"
	"os"
	"path/filepath"
	"sort"
	"strings"
	"sync"
	"sync/atomic"

	ethcom "github.com/ethereum/go-ethereum/common"
	ethtypes "github.com/ethereum/go-ethereum/core/types"
	"github.com/ethereum/go-ethereum/crypto"
	"github.com/ontio/ontology/account"
	"github.com/ontio/ontology/common"
	"github.com/ontio/ontology/common/config"
	"github.com/ontio/ontology/common/constants"
	cstates "github.com/ontio/ontology/core/states"
	scom "github.com/ontio/ontology/core/store/common"
	"github.com/ontio/ontology/core/store/ledgerstore"
	"github.com/ontio/ontology/core/store/overlaydb"
	"github.com/ontio/ontology/core/types"
	"github.com/ontio/ontology/smartcontract/event"
	evm2 "github.com/ontio/ontology/smartcontract/service/evm"
	evmtypes "github.com/ontio/ontology/smartcontract/service/evm/types"
	nutils "github.com/ontio/ontology/smartcontract/service/native/utils"
	"github.com/ontio/ontology/smartcontract/storage"
	evmerrors "github.com/ontio/ontology/vm/evm/errors"
	"verifharness/lib/chain"
	"verifharness/lib/evmasm"
	"verifharness/lib/vf"
)

var (
	gwei    = big.NewInt(1000000000)
	feeRcv  = ethcom.Address(nutils.GovernanceContractAddress)
	ongAddr = nutils.OngContractAddress
	openMu  sync.Mutex
	sampled int32
	scratch string
	bk      *account.Account
)

const nEOA = 6

func main() {
	r := vf.NewRun("C07", "exploration",
		"seeded histories of EIP-155 transactions on solo-consensus ledgers (chain id of the solo network, never mainnet): value transfers, contract creations (deployer of a generated runtime program, or a generated program run directly as init code) and calls into deployed programs. Programs are straight-line: SSTORE set/clear (literal or CALLVALUE), CALL with value {0,1,k GWei,SELFBALANCE,SELFBALANCE+1,CALLVALUE} to {fresh, EOA, deployed contract, ORIGIN, CALLER, fee receiver, precompile addresses, self}, CREATE of children {empty, runtime, selfdestructing to other / to self, reverting}, terminal STOP/RETURN/REVERT/INVALID/loop(OOG)/SELFDESTRUCT(other|self). Senders with ample, scarce and zero balance; gas price {0,1,500,2500,random} GWei; gas limit ample / around intrinsic / tight; value {0,1,small,max affordable,balance,>balance}; nonce {n-1,n,n+1,n+k}. A scripted prelude per chain reaches every outcome class once, the rest is random. Separate chains carry refund-heavy histories on three hand-assembled contracts (store: set / clear / clear-some of slots 1..16 by bit mask, optional re-set after the clear, end STOP/REVERT/out-of-gas/INVALID; multi: calls a list of targets, ignoring failures, then ends likewise; factory: CREATEs m children that SELFDESTRUCT to a beneficiary given in calldata): k in 1..12 slots set over 1..3 transactions in one or several blocks, later all / part of them cleared in ONE transaction, directly or through multi; m in 1..6 children spawned, later (or in the same transaction) j of them destroyed in one transaction with beneficiary sender / other EOA / fresh / store / factory / fee receiver (never the child itself); both at once; the clearing frame reverting / running out of gas at the end, or inside a nested frame that fails while the outer one succeeds; gas limit = {just sufficient, 1.5x, 2x, 3x, 10x, 30..99%} of the gas the transaction needs before refunds (measured by a probe run with a tracer on a scratch overlay), gas price {0, 2500, random} GWei, ample and scarce senders. A case = one transaction; trivial when nothing can move (zero value, zero gas price, no code); distinct by (kind, program, value, gas limit, gas price, sender tier, nonce mode)")
	scratch = vf.Scratch("c07")
	defer os.RemoveAll(scratch)
	rng := vf.NewRNG(vf.Seed())

	bk = chain.DetAccount("c07/bookkeeper")
	chain.SetupSoloConfig(bk)
	if config.DefConfig.P2PNode.EVMChainId == constants.EIP155_CHAINID_MAINNET {
		panic("mainnet chain id")
	}
	r.Extra("evm_chain_id", config.DefConfig.P2PNode.EVMChainId)
	nChains := vf.N(30, 360)
	nBlocks := vf.N(60, 90)
	workers := 8
	if vf.Thorough() {
		workers = 12
	}
	// refund-heavy histories (refund.go) run on chains of their own
	nRefund := vf.N(12, 96)
	nRounds := vf.N(22, 40)
	vf.Parallel(nChains+nRefund, workers, func(i int) {
		if i < nRefund {
			runRefundChain(r, i, rng.Sub(uint64(1000000+i)), nRounds)
			return
		}
		runChain(r, i-nRefund, rng.Sub(uint64(i-nRefund)), nBlocks)
	})

	for _, c := range []string{"outcome/success", "outcome/revert", "outcome/oog", "outcome/invalid-opcode", "outcome/intrinsic-gas", "outcome/insufficient-funds-for-transfer",
		"kind/transfer", "kind/deploy", "kind/direct-create", "kind/call",
		"call-with-value/moved", "call-with-value/failed-inner", "create-inner/executed", "create-tx/contract-created",
		"selfdestruct-other/executed", "selfdestruct-other/with-balance", "selfdestruct-self/executed", "selfdestruct-self/with-balance",
		"sstore/set", "sstore/clear-refund", "sstore/clear-committed-refund", "adjusted-gas", "gas-price-zero", "sender/zero-balance", "value-to-fresh-address", "fee-receiver-is-value-target",
		"bad-nonce-low/rejected", "bad-nonce-high/rejected", "bad-nonce/block-rejected-state-unchanged", "block/committed", "block/nonces-advanced",
		"check/total", "check/nonce", "check/fee", "check/debit", "check/participants", "check/not-richer", "check/charge"} {
		r.Require(c, 3)
	}
	// refund-heavy histories: every class of refund.go, in particular the transactions whose refund
	// counter (by the monitor's own count of cleared slots and destroyed children) exceeds half of
	// / all of the gas they use while the gas limit leaves room for more
	for c, min := range map[string]int64{
		"refund/history": 100, "refund/history-sstore": 30, "refund/history-kill": 20, "refund/history-mixed": 8, "refund/measured-tx": 100,
		"refund/set-tx": 100, "refund/slots-set": 300, "refund/spawn-tx": 30, "refund/spawn-with-endowment": 20,
		"refund/cleared": 30, "refund/cleared-all": 12, "refund/cleared-some": 12, "refund/cleared-k=1-2": 3, "refund/cleared-k=3-5": 8, "refund/cleared-k=6-8": 3, "refund/cleared-k=9+": 8,
		"refund/cleared-in-block-of-earlier-tx": 5, "refund/cleared-then-set-again": 5,
		"refund/killed": 30, "refund/killed-j>=2": 20, "refund/killed-j=1": 3, "refund/killed-j=2": 5, "refund/killed-j=3": 5, "refund/killed-j=4": 3, "refund/killed-j=5": 3, "refund/killed-j=6": 5,
		"refund/killed-beneficiary-sender": 5, "refund/killed-beneficiary-eoa": 5, "refund/killed-beneficiary-store": 5, "refund/killed-beneficiary-multi": 5, "refund/killed-beneficiary-fresh": 3, "refund/killed-beneficiary-fee-receiver": 3,
		"refund/killed-with-balance": 20, "refund/spawned-and-killed-in-one-tx": 5, "refund/cleared-and-killed-in-one-tx": 8,
		"refund/gas-x1": 8, "refund/gas-x1.5": 8, "refund/gas-x2": 15, "refund/gas-x3": 15, "refund/gas-x10": 8, "refund/gas-short": 8, "refund/gas-all-consumed": 8,
		"refund/price-0": 8, "refund/price-2500": 50, "refund/price-random": 10, "refund/adjusted-gas": 3, "refund/via-multi": 40, "refund/direct": 30,
		"refund/outcome-success": 80, "refund/outcome-revert": 8, "refund/outcome-oog": 8,
		"refund/nested-frame-failed-outer-succeeded": 10, "refund/failed-tx-work-undone": 15, "refund/revert-at-the-end": 8, "refund/out-of-gas-after-the-work": 8,
		"refund/granted": 50, "refund/counter-above-half-of-gas-used/limit>=1.5x": 30, "refund/counter-above-gas-used/limit>=2x": 20} {
		r.Require(c, min)
	}
	r.Assume("chain id is the solo network's (12345); the mainnet-only special cases of buyGas/handleGasFee are out of the property's scope")
	r.Assume("fine observation calls the exported (*StateStore).HandleEIP155Transaction with a CacheDB on a fresh overlay of the committed state, exactly as executeBlock does; the same signed transaction is then executed again inside a real block")
	r.Assume("ledger.ExecuteBlock does not verify transaction signatures; the monitor signs every transaction correctly anyway")
	r.Assume("refund histories: gas limits are sized from a probe run of the same call through evm.ApplyTransaction with a tracer (gas used by the outermost frame before refunds); the probe only shapes the workload, no verdict depends on it")
	os.RemoveAll(scratch)
	r.Finish()
}

// ---------------------------------------------------------------- observation

type ethAcct struct {
	Nonce    uint64
	CodeHash ethcom.Hash
}

type obs struct {
	raw   map[string]string
	ong   map[ethcom.Address]*big.Int
	acct  map[ethcom.Address]ethAcct
	total *big.Int
	bad   []string
}

func decodeBalance(v []byte) (*big.Int, error) {
	item := new(cstates.StorageItem)
	if err := item.Deserialization(common.NewZeroCopySource(v)); err != nil {
		return nil, err
	}
	var x *big.Int
	if item.StateVersion == cstates.DefaultVersion {
		if len(item.Value) != 8 {
			return nil, fmt.Errorf("version-0 item with %d bytes", len(item.Value))
		}
		var u uint64
		for i := 7; i >= 0; i-- {
			u = u<<8 | uint64(item.Value[i])
		}
		x = new(big.Int).Mul(new(big.Int).SetUint64(u), gwei)
	} else {
		x = common.BigIntFromNeoBytes(item.Value)
	}
	if x.Sign() < 0 {
		return x, fmt.Errorf("negative balance %s", x)
	}
	return x, nil
}

// observe dumps the whole raw state visible through ov (every key prefix) and extracts every
// ONG balance key (ST_STORAGE|ongContract|addr) and every EVM account (ST_ETH_ACCOUNT|addr).
func observe(ov *overlaydb.OverlayDB) *obs {
	o := &obs{raw: map[string]string{}, ong: map[ethcom.Address]*big.Int{}, acct: map[ethcom.Address]ethAcct{}, total: new(big.Int)}
	it := ov.NewIterator(nil)
	for ok := it.First(); ok; ok = it.Next() {
		k := append([]byte{}, it.Key()...)
		v := append([]byte{}, it.Value()...)
		o.raw[string(k)] = string(v)
		switch {
		case len(k) == 41 && k[0] == byte(scom.ST_STORAGE) && bytes.Equal(k[1:21], ongAddr[:]):
			var a ethcom.Address
			copy(a[:], k[21:])
			x, err := decodeBalance(v)
			if err != nil {
				o.bad = append(o.bad, fmt.Sprintf("ONG balance of %s (%x): %v", a.Hex(), v, err))
				if x == nil {
					continue
				}
			}
			o.ong[a] = x
			o.total.Add(o.total, x)
		case len(k) == 21 && k[0] == byte(scom.ST_ETH_ACCOUNT):
			var a ethcom.Address
			copy(a[:], k[1:])
			var ea ethAcct
			if len(v) >= 40 {
				for i := 7; i >= 0; i-- {
					ea.Nonce = ea.Nonce<<8 | uint64(v[i])
				}
				copy(ea.CodeHash[:], v[8:40])
			}
			o.acct[a] = ea
		}
	}
	it.Release()
	return o
}

func (o *obs) bal(a ethcom.Address) *big.Int {
	if v, ok := o.ong[a]; ok {
		return v
	}
	return new(big.Int)
}

func rawDiff(a, b *obs, max int) []string { return chain.DiffDumps(a.raw, b.raw, max) }

// ---------------------------------------------------------------- cases

type txCase struct {
	Kind      string // transfer | deploy | direct-create | call
	From      int
	To        *ethcom.Address
	Value     *big.Int
	GasLimit  uint64
	GasGwei   uint64
	Nonce     uint64
	NonceMode string // ok | low | high
	Data      []byte
	Prog      *prog // program that runs first (init program, or the callee's program)
	Tags      []string
	tx        *types.Transaction
	eip       *ethtypes.Transaction
	// refund-heavy histories (refund.go)
	Rf    *rfInfo                          // what the monitor planned and measured for this transaction
	After func(a *applied, pre, post *obs) // coverage bookkeeping once the transaction was judged
}

func (t *txCase) desc(eo []*chain.EthAccount) map[string]interface{} {
	d := map[string]interface{}{"kind": t.Kind, "from": fmt.Sprintf("eoa%d:%s", t.From, eo[t.From].Addr.Hex()), "value_wei": t.Value.String(),
		"gas_limit": t.GasLimit, "gas_price_gwei": t.GasGwei, "nonce": t.Nonce, "nonce_mode": t.NonceMode, "tags": t.Tags}
	if t.To != nil {
		d["to"] = t.To.Hex()
	}
	if t.Prog != nil {
		d["program"] = t.Prog.String()
	}
	if len(t.Data) > 0 {
		d["data"] = vf.HexTrunc(t.Data, 400)
	}
	if t.tx != nil {
		d["tx_hex"] = hex.EncodeToString(t.tx.ToArray())
	}
	if t.Rf != nil {
		d["refund_history_step"] = t.Rf
	}
	return d
}

type contractInfo struct {
	addr ethcom.Address
	p    *prog
}

type chainState struct {
	r       *vf.Run
	tag     string
	c       *chain.Chain
	eo      []*chain.EthAccount
	pool    []*contractInfo
	byAddr  map[ethcom.Address]*contractInfo
	rng     *vf.RNG
	pg      *progGen
	tb      *chain.TxBuilder
	history [][]string // committed blocks: tx hex
	ss      *ledgerstore.StateStore
	prefix  []*txCase // transactions already applied in the block under construction
	rf      *rfWorld  // refund-heavy histories only (refund.go)
}

func (s *chainState) poolAddrs() []ethcom.Address {
	var out []ethcom.Address
	for _, c := range s.pool {
		out = append(out, c.addr)
	}
	return out
}

func (s *chainState) removeContract(a ethcom.Address) {
	delete(s.byAddr, a)
	for i, c := range s.pool {
		if c.addr == a {
			s.pool = append(s.pool[:i], s.pool[i+1:]...)
			return
		}
	}
}

// involves reports whether running p can reach a SELFDESTRUCT-to-self (statically, following
// literal call targets into deployed programs).
func (s *chainState) involvesSdSelf(p *prog, depth int) bool {
	if p == nil || depth > 4 {
		return false
	}
	if p.selfdestructSelf() || p.hasChild("selfdestruct-self") {
		return true
	}
	for _, x := range p.Actions {
		if x.Kind == "call" && x.To.Kind == "lit" {
			if ci, ok := s.byAddr[x.To.Addr]; ok && s.involvesSdSelf(ci.p, depth+1) {
				return true
			}
		}
	}
	return false
}

func (s *chainState) build(t *txCase) {
	tx, err := chain.EvmTx(s.eo[t.From], t.Nonce, t.To, t.Value, t.GasLimit, t.GasGwei, t.Data)
	if err != nil {
		panic(err)
	}
	t.tx = tx
	t.eip, err = tx.GetEIP155Tx()
	if err != nil {
		panic(err)
	}
}

func intrinsic(data []byte, create bool) uint64 { return evm2.IntrinsicGas(data, create, true, true) }

// ---------------------------------------------------------------- generator of transactions

func (s *chainState) gasPrice() uint64 {
	switch k := s.rng.Intn(100); {
	case k < 10:
		return 0
	case k < 20:
		return 1
	case k < 40:
		return 500
	case k < 80:
		return 2500
	}
	return uint64(1 + s.rng.Intn(5000))
}

func (s *chainState) sender() int {
	switch k := s.rng.Intn(100); {
	case k < 60:
		return s.rng.Intn(2) // ample
	case k < 88:
		return 2 + s.rng.Intn(2) // scarce
	}
	return 4 + s.rng.Intn(2) // (initially) zero balance
}

func (s *chainState) random(cur *obs) *txCase {
	t := &txCase{From: s.sender(), GasGwei: s.gasPrice(), NonceMode: "ok"}
	from := s.eo[t.From].Addr
	k := s.rng.Intn(100)
	switch {
	case k < 22 || (k >= 60 && len(s.pool) == 0):
		t.Kind = "transfer"
		var to ethcom.Address
		switch j := s.rng.Intn(10); {
		case j < 3:
			to = s.pg.fresh()
			t.Tags = append(t.Tags, "to-fresh")
		case j < 7:
			to = s.eo[s.rng.Intn(len(s.eo))].Addr
		case j < 8:
			to = feeRcv
			t.Tags = append(t.Tags, "to-fee-receiver")
		default:
			to = from
		}
		t.To = &to
		if s.rng.Chance(25) {
			t.Data = s.rng.Bytes(s.rng.Intn(40))
		}
	case k < 42:
		t.Kind = "deploy"
		t.Prog = s.pg.program()
		t.Data = evmasm.Deployer(t.Prog.code())
	case k < 60:
		t.Kind = "direct-create"
		t.Prog = s.pg.program()
		t.Data = t.Prog.code()
	default:
		t.Kind = "call"
		ci := s.pool[s.rng.Intn(len(s.pool))]
		to := ci.addr
		t.To, t.Prog = &to, ci.p
		if s.rng.Chance(20) {
			t.Data = s.rng.Bytes(s.rng.Intn(40))
		}
	}
	ig := intrinsic(t.Data, t.To == nil)
	switch j := s.rng.Intn(100); {
	case j < 60:
		t.GasLimit = uint64(200000 + s.rng.Intn(1300000))
	case j < 72: // around the intrinsic gas
		t.GasLimit = ig - uint64(s.rng.Intn(2000)) + uint64(s.rng.Intn(3000))
		t.Tags = append(t.Tags, "gas-around-intrinsic")
	default:
		t.GasLimit = ig + uint64(s.rng.Intn(70000))
		t.Tags = append(t.Tags, "gas-tight")
	}
	bal := cur.bal(from)
	cost := new(big.Int).Mul(new(big.Int).SetUint64(t.GasLimit), new(big.Int).Mul(new(big.Int).SetUint64(t.GasGwei), gwei))
	switch j := s.rng.Intn(100); {
	case j < 30:
		t.Value = big.NewInt(0)
	case j < 40:
		t.Value = big.NewInt(1)
	case j < 70:
		t.Value = new(big.Int).Mul(big.NewInt(int64(1+s.rng.Intn(5000))), gwei)
	case j < 80: // the most the sender can afford after paying for gas
		t.Value = new(big.Int).Sub(bal, cost)
		if t.Value.Sign() < 0 {
			t.Value = big.NewInt(0)
		}
		t.Tags = append(t.Tags, "value-max-affordable")
	case j < 90:
		t.Value = new(big.Int).Set(bal)
		t.Tags = append(t.Tags, "value=balance")
	default:
		t.Value = new(big.Int).Add(bal, big.NewInt(int64(1+s.rng.Intn(1000))))
		t.Tags = append(t.Tags, "value>balance")
	}
	n := cur.acct[from].Nonce
	t.Nonce = n
	switch j := s.rng.Intn(100); {
	case j < 4 && n > 0:
		t.NonceMode = "low"
		t.Nonce = n - 1
		if s.rng.Chance(30) {
			t.Nonce = uint64(s.rng.Intn(int(n)))
		}
	case j < 8:
		t.NonceMode = "high"
		t.Nonce = n + 1
		if s.rng.Chance(30) {
			t.Nonce = n + uint64(2+s.rng.Intn(50))
		}
	}
	return t
}

// the scripted prelude: every outcome class once per chain, shortest witnesses first
func (s *chainState) script() []func(cur *obs) *txCase {
	lit := func(a ethcom.Address, note string) addrSpec { return addrSpec{Kind: "lit", Addr: a, Note: note} }
	gv := func(n int64) *big.Int { return new(big.Int).Mul(big.NewInt(n), gwei) }
	fresh1, fresh2 := s.pg.fresh(), s.pg.fresh()
	var deployed []ethcom.Address // addresses of scripted deployments, in order
	deploy := func(p *prog, endow *big.Int) func(cur *obs) *txCase {
		return func(cur *obs) *txCase {
			n := cur.acct[s.eo[0].Addr].Nonce
			deployed = append(deployed, crypto.CreateAddress(s.eo[0].Addr, n))
			return &txCase{Kind: "deploy", From: 0, Value: endow, GasLimit: 900000, GasGwei: 2500, Nonce: n, NonceMode: "ok", Prog: p, Data: evmasm.Deployer(p.code()), Tags: []string{"scripted"}}
		}
	}
	call := func(i int, value *big.Int, gasLimit uint64, from int) func(cur *obs) *txCase {
		return func(cur *obs) *txCase {
			to := deployed[i]
			var p *prog
			if ci := s.byAddr[to]; ci != nil {
				p = ci.p
			}
			return &txCase{Kind: "call", From: from, To: &to, Value: value, GasLimit: gasLimit, GasGwei: 2500, Nonce: cur.acct[s.eo[from].Addr].Nonce, NonceMode: "ok", Prog: p, Tags: []string{"scripted"}}
		}
	}
	transfer := func(from int, to ethcom.Address, value *big.Int, gasLimit, gasGwei uint64, mode string) func(cur *obs) *txCase {
		return func(cur *obs) *txCase {
			n := cur.acct[s.eo[from].Addr].Nonce
			switch mode {
			case "low":
				n--
			case "high":
				n++
			}
			t := to
			return &txCase{Kind: "transfer", From: from, To: &t, Value: value, GasLimit: gasLimit, GasGwei: gasGwei, Nonce: n, NonceMode: mode, Tags: []string{"scripted"}}
		}
	}
	return []func(cur *obs) *txCase{
		deploy(&prog{Term: "selfdestruct", Benef: addrSpec{Kind: "self"}}, big.NewInt(0)), // 0
		call(0, gv(7), 300000, 0), // SELFDESTRUCT to self with a balance
		deploy(&prog{Term: "selfdestruct", Benef: lit(fresh1, "fresh")}, gv(3)), // 1
		call(1, gv(5), 300000, 0), // SELFDESTRUCT to another address
		transfer(0, s.eo[4].Addr, gv(3000000000), 21000, 2500, "ok"),
		deploy(&prog{Actions: []action{{Kind: "sstore", Slot: 1, Val: 5}}, Term: "stop"}, big.NewInt(0)), // 2: set
		call(2, big.NewInt(0), 300000, 0),
		deploy(&prog{Actions: []action{{Kind: "sstore", Slot: 1, Val: 5}, {Kind: "sstore", Slot: 1, Val: 0}}, Term: "stop"}, big.NewInt(0)), // 3: set+clear (refund)
		call(3, big.NewInt(0), 300000, 1),
		deploy(&prog{Actions: []action{{Kind: "sstore", Slot: 2, Val: 1}}, Term: "revert"}, big.NewInt(0)), // 4
		call(4, gv(11), 300000, 0),
		deploy(&prog{Term: "loop"}, big.NewInt(0)), // 5
		call(5, gv(2), 90000, 0),
		deploy(&prog{Term: "invalid"}, big.NewInt(0)), // 6
		call(6, gv(2), 90000, 1),
		deploy(&prog{Actions: []action{{Kind: "call", To: lit(fresh2, "fresh"), Value: valSpec{Kind: "callvalue"}}}, Term: "stop"}, big.NewInt(0)), // 7: forwarder
		call(7, gv(9), 300000, 0),
		deploy(&prog{Actions: []action{{Kind: "call", To: lit(fresh2, "fresh"), Value: valSpec{Kind: "selfbalance+1"}}}, Term: "stop"}, big.NewInt(0)), // 8: inner call fails
		call(8, gv(9), 300000, 0),
		deploy(&prog{Actions: []action{{Kind: "create", Value: valSpec{Kind: "callvalue"}, Child: "runtime-stop"}}, Term: "stop"}, big.NewInt(0)), // 9: creator
		call(9, gv(4), 400000, 0),
		deploy(&prog{Actions: []action{{Kind: "call", To: lit(feeRcv, "fee-receiver"), Value: valSpec{Kind: "callvalue"}}}, Term: "stop"}, big.NewInt(0)), // 10
		call(10, gv(6), 300000, 0),
		deploy(&prog{Actions: []action{{Kind: "sstore-cv", Slot: 0}}, Term: "stop"}, big.NewInt(0)), // 11: slot0 = CALLVALUE
		call(11, gv(8), 300000, 0),                          // sets the slot (committed with the block)
		call(11, big.NewInt(0), 300000, 1),                  // clears a committed non-zero slot: refund
		transfer(0, s.eo[1].Addr, gv(1), 20999, 2500, "ok"), // intrinsic gas too low
		transfer(2, s.eo[1].Addr, new(big.Int).Mul(gv(1000000000), big.NewInt(1000000)), 21000, 500, "ok"), // value > balance
		transfer(2, s.eo[1].Addr, gv(1), 4000000000, 2500, "ok"),                                           // gasLimit*price > balance: adjusted gas
		transfer(5, s.eo[1].Addr, big.NewInt(0), 21000, 0, "ok"),                                           // zero-balance sender, free gas
		transfer(5, s.eo[1].Addr, big.NewInt(0), 21000, 2500, "ok"),                                        // zero-balance sender, priced gas
		transfer(0, s.eo[1].Addr, gv(1), 21000, 2500, "low"),
		transfer(0, s.eo[1].Addr, gv(1), 21000, 2500, "high"),
	}
}

// ---------------------------------------------------------------- one chain

// openChain opens a fresh solo ledger and commits block 1: the bookkeeper (owner of all ONG on a
// solo net) funds the senders: two ample, two scarce (around the price of one transaction), two
// stay at zero.  The caller closes the ledger with the returned function.
func openChain(r *vf.Run, tag string, nonceBase uint32, rng *vf.RNG) (*chainState, func()) {
	dir := filepath.Join(scratch, tag)
	c := &chain.Chain{Dir: dir, BK: bk, BKs: []*account.Account{bk}}
	openMu.Lock()
	err := c.Open()
	openMu.Unlock()
	if err != nil {
		r.Inconclusive("cannot open ledger: " + err.Error())
		return nil, func() {}
	}
	done := func() {
		c.Close()
		os.RemoveAll(dir)
	}
	s := &chainState{r: r, tag: tag, c: c, rng: rng, byAddr: map[ethcom.Address]*contractInfo{}, tb: chain.NewTxBuilder(nonceBase), ss: &ledgerstore.StateStore{}}
	for i := 0; i < nEOA; i++ {
		s.eo = append(s.eo, chain.DetEthAccount(fmt.Sprintf("c07/eoa%d", i)))
	}
	var eoAddrs []ethcom.Address
	for _, e := range s.eo {
		eoAddrs = append(eoAddrs, e.Addr)
	}
	s.pg = &progGen{rng: rng.Sub(77), eoas: eoAddrs, pool: s.poolAddrs, feeRcv: feeRcv}

	var funding []*types.Transaction
	for i, amt := range []uint64{5000000000000000, 3000000000000000, 150000000 + uint64(rng.Intn(100000000)), 40000000 + uint64(rng.Intn(50000000))} {
		t, err := s.tb.TransferTx("ong", bk, s.eo[i].OntAddr(), amt, 0, 20000)
		if err != nil {
			panic(err)
		}
		funding = append(funding, t)
	}
	if !s.commitFurniture(funding) {
		done()
		return nil, func() {}
	}
	return s, done
}

func runChain(r *vf.Run, idx int, rng *vf.RNG, nBlocks int) {
	s, done := openChain(r, fmt.Sprintf("chain%d", idx), uint32(7000+idx*100000), rng)
	if s == nil {
		return
	}
	defer done()
	script := s.script()
	for h := 2; h <= nBlocks; h++ {
		// occasional refill of the scarce accounts (chain furniture, not judged)
		if h%9 == 0 {
			var ts []*types.Transaction
			for _, i := range []int{2, 3} {
				t, err := s.tb.TransferTx("ong", bk, s.eo[i].OntAddr(), 50000000+uint64(rng.Intn(400000000)), 0, 20000)
				if err != nil {
					panic(err)
				}
				ts = append(ts, t)
			}
			if !s.commitFurniture(ts) {
				return
			}
			continue
		}
		n := 1 + rng.Intn(4)
		if len(script) > 0 && n > 2 {
			n = 2
		}
		next := func(cur *obs) *txCase {
			if len(script) > 0 {
				g := script[0]
				script = script[1:]
				return g(cur)
			}
			return s.random(cur)
		}
		if !s.block(n, next) {
			return
		}
	}
}

func (s *chainState) commitFurniture(txs []*types.Transaction) bool {
	b, err := s.c.MakeBlock(txs, 0)
	if err == nil {
		_, err = s.c.CommitExec(b)
	}
	if err != nil {
		s.r.Inconclusive("furniture block failed: " + err.Error())
		return false
	}
	var hx []string
	for _, t := range txs {
		hx = append(hx, hex.EncodeToString(t.ToArray()))
	}
	s.history = append(s.history, hx)
	return true
}

type applied struct {
	t       *txCase
	res     *evmtypes.ExecutionResult
	receipt *types.Receipt
	flagged bool
}

func (s *chainState) witness(t *txCase, pre, post *obs, extra map[string]interface{}) map[string]interface{} {
	w := map[string]interface{}{"chain": s.tag, "evm_chain_id": config.DefConfig.P2PNode.EVMChainId, "committed_blocks_tx_hex": s.history,
		"bookkeeper_tag": "c07/bookkeeper", "note": "block 1 funds eoa0..eoa3 with ONG; replay = commit the listed blocks on a fresh solo ledger, then apply same_block_prefix and the failing tx"}
	if t != nil {
		w["tx"] = t.desc(s.eo)
	}
	if pre != nil && post != nil {
		d := map[string]string{}
		seen := map[ethcom.Address]bool{}
		for a := range pre.ong {
			seen[a] = true
		}
		for a := range post.ong {
			seen[a] = true
		}
		for a := range seen {
			if pre.bal(a).Cmp(post.bal(a)) != 0 {
				d[a.Hex()] = fmt.Sprintf("%s -> %s (%s)", pre.bal(a), post.bal(a), new(big.Int).Sub(post.bal(a), pre.bal(a)))
			}
		}
		w["ong_balance_changes_wei"] = d
		w["ong_total_before"] = pre.total.String()
		w["ong_total_after"] = post.total.String()
	}
	for k, v := range extra {
		w[k] = v
	}
	return w
}

type ongLog struct {
	From, To ethcom.Address
	Amount   *big.Int
}

var transferTopic = crypto.Keccak256Hash([]byte("Transfer(address,address,uint256)"))

func ongLogs(rc *types.Receipt) []ongLog {
	var out []ongLog
	for _, l := range rc.Logs {
		if l.Address != ethcom.Address(ongAddr) || len(l.Topics) != 3 || l.Topics[0] != transferTopic {
			continue
		}
		out = append(out, ongLog{From: ethcom.BytesToAddress(l.Topics[1][:]), To: ethcom.BytesToAddress(l.Topics[2][:]), Amount: new(big.Int).SetBytes(l.Data)})
	}
	return out
}

func classify(err error) string {
	switch {
	case err == nil:
		return "success"
	case errors.Is(err, evmerrors.ErrExecutionReverted):
		return "revert"
	case errors.Is(err, evmerrors.ErrOutOfGas), errors.Is(err, evmerrors.ErrCodeStoreOutOfGas):
		return "oog"
	case errors.Is(err, evm2.ErrIntrinsicGas):
		return "intrinsic-gas"
	case errors.Is(err, evm2.ErrInsufficientFundsForTransfer):
		return "insufficient-funds-for-transfer"
	case strings.HasPrefix(err.Error(), "invalid opcode"):
		return "invalid-opcode"
	}
	return "other-vm-error:" + strings.ReplaceAll(err.Error(), " ", "-")
}

// block generates, applies (fine layer) and commits (block layer) one block.
func (s *chainState) block(n int, next func(cur *obs) *txCase) bool {
	r := s.r
	height := s.c.Ledger.GetCurrentBlockHeight() + 1
	ts := chain.TimeAt(height)
	ov := s.c.Store().VerifStateOverlay()
	cache := storage.NewCacheDB(ov)
	committed := observe(ov)
	cur := committed
	var good []*applied
	var bad *txCase
	var prefixHex []string
	s.prefix = nil

	for i := 0; i < n; i++ {
		t := next(cur)
		s.build(t)
		cache.Reset()
		notify := &event.ExecuteNotify{}
		ctx := ledgerstore.Eip155Context{BlockHash: common.UINT256_EMPTY, TxIndex: uint32(i), Height: height, Timestamp: ts}
		var res *evmtypes.ExecutionResult
		var rc *types.Receipt
		var err error
		if p := vf.Catch(func() { res, rc, err = s.ss.HandleEIP155Transaction(s.c.Store(), cache, t.eip, ctx, notify, true) }); p != nil {
			r.Violation("panic:HandleEIP155Transaction:"+t.Kind, fmt.Sprint(p), s.witness(t, nil, nil, map[string]interface{}{"same_block_prefix": prefixHex}))
			return false
		}
		nxt := observe(ov)
		pre := cur
		wit := func(extra map[string]interface{}) map[string]interface{} {
			if extra == nil {
				extra = map[string]interface{}{}
			}
			extra["same_block_prefix"] = prefixHex
			if res != nil && res.Err != nil {
				extra["vm_error"] = res.Err.Error()
			}
			if err != nil {
				extra["apply_error"] = err.Error()
			}
			if rc != nil {
				var ls []string
				for _, l := range ongLogs(rc) {
					ls = append(ls, fmt.Sprintf("%s -> %s : %s", l.From.Hex(), l.To.Hex(), l.Amount))
				}
				if len(ls) > 16 {
					ls = append(append(append([]string{}, ls[:8]...), fmt.Sprintf("... %d more ...", len(ls)-12)), ls[len(ls)-4:]...)
				}
				extra["ong_transfer_logs"] = ls
				extra["used_gas"] = rc.GasUsed
			}
			return s.witness(t, pre, nxt, extra)
		}
		fpSrc := fmt.Sprintf("%s|%v|%s|%d|%d|%d|%s|%v", t.Kind, t.Prog, t.Value, t.GasLimit, t.GasGwei, t.From, t.NonceMode, t.Tags)
		trivial := t.Value.Sign() == 0 && t.GasGwei == 0 && t.Prog == nil && t.Rf == nil
		fp := ""
		if !trivial {
			hs := sha256.Sum256([]byte(fpSrc))
			fp = hex.EncodeToString(hs[:12])
		}
		r.Eval(fp)
		r.Count("kind/" + t.Kind)

		if t.NonceMode != "ok" {
			// a transaction whose nonce differs from the account nonce is rejected and nothing changes
			if err == nil {
				r.Violation("bad-nonce-accepted:"+t.NonceMode, fmt.Sprintf("tx nonce %d, account nonce %d: applied", t.Nonce, pre.acct[s.eo[t.From].Addr].Nonce), wit(nil))
				return false
			}
			if d := rawDiff(pre, nxt, 10); len(d) > 0 {
				r.Violation("bad-nonce-changed-state:"+t.NonceMode, fmt.Sprintf("rejected tx changed %d raw state items: %v", len(d), d), wit(nil))
			} else {
				r.Count("bad-nonce-" + t.NonceMode + "/rejected")
			}
			bad = t
			break
		}
		if err != nil {
			// not demanded by the statement (only wrong-nonce rejection is), but then the workload is not what it claims
			r.Count("drift/valid-tx-rejected")
			r.Inconclusive(fmt.Sprintf("a transaction with the right nonce was rejected: %v", err))
			return false
		}
		a := &applied{t: t, res: res, receipt: rc}
		a.flagged = s.judge(a, pre, nxt, wit)
		good = append(good, a)
		s.prefix = append(s.prefix, t)
		prefixHex = append(prefixHex, hex.EncodeToString(t.tx.ToArray()))
		if t.Prog != nil && t.Kind != "deploy" && atomic.AddInt32(&sampled, 1) <= 5 {
			r.Sample(map[string]interface{}{"tx": t.desc(s.eo), "outcome": classify(res.Err), "used_gas": res.UsedGas})
		}
		cur = nxt
	}

	// ---- block layer
	before := observe(s.c.Store().VerifStateOverlay())
	if d := chain.DiffDumps(before.raw, committed.raw, 3); len(d) > 0 {
		r.Inconclusive("fine-layer execution changed the committed state (harness error)")
		return false
	}
	var goodTxs []*types.Transaction
	for _, a := range good {
		goodTxs = append(goodTxs, a.t.tx)
	}
	if bad != nil {
		bb, err := s.c.MakeBlock(append(append([]*types.Transaction{}, goodTxs...), bad.tx), ts)
		if err != nil {
			r.Inconclusive("MakeBlock: " + err.Error())
			return false
		}
		w := func() map[string]interface{} {
			return s.witness(bad, nil, nil, map[string]interface{}{"same_block_prefix": prefixHex})
		}
		_, e1 := s.c.Ledger.ExecuteBlock(bb)
		e2 := s.c.Ledger.AddBlock(bb, nil, common.UINT256_EMPTY)
		if e1 == nil || e2 == nil || s.c.Ledger.GetCurrentBlockHeight() != height-1 {
			r.Violation("bad-nonce-block-accepted:"+bad.NonceMode, fmt.Sprintf("ExecuteBlock err=%v AddBlock err=%v height=%d", e1, e2, s.c.Ledger.GetCurrentBlockHeight()), w())
			return false
		}
		after := observe(s.c.Store().VerifStateOverlay())
		if d := rawDiff(before, after, 10); len(d) > 0 {
			r.Violation("bad-nonce-block-changed-state:"+bad.NonceMode, fmt.Sprintf("%v", d), w())
			return false
		}
		r.Count("bad-nonce/block-rejected-state-unchanged")
	}
	b, err := s.c.MakeBlock(goodTxs, ts)
	if err != nil {
		r.Inconclusive("MakeBlock: " + err.Error())
		return false
	}
	if _, err := s.c.CommitExec(b); err != nil {
		r.Count("drift/valid-block-rejected")
		r.Inconclusive("block of individually applicable transactions rejected: " + err.Error())
		return false
	}
	r.Count("block/committed")
	after := observe(s.c.Store().VerifStateOverlay())
	var hx []string
	anyFlag := false
	perSender := map[ethcom.Address]uint64{}
	for _, a := range good {
		hx = append(hx, hex.EncodeToString(a.t.tx.ToArray()))
		anyFlag = anyFlag || a.flagged
		perSender[s.eo[a.t.From].Addr]++
	}
	bw := func() map[string]interface{} {
		return s.witness(nil, before, after, map[string]interface{}{"block_tx_hex": hx})
	}
	if !anyFlag {
		if before.total.Cmp(after.total) != 0 {
			r.Violation("ong-total-changed:committed-block", fmt.Sprintf("%s -> %s", before.total, after.total), bw())
		}
		// the committed block must show what the per-transaction observation showed
		for a, v := range cur.ong {
			if after.bal(a).Cmp(v) != 0 {
				r.Inconclusive(fmt.Sprintf("block execution and per-transaction execution disagree on the balance of %s", a.Hex()))
				break
			}
		}
	}
	okN := true
	for a, n := range perSender {
		if after.acct[a].Nonce != before.acct[a].Nonce+n {
			okN = false
			r.Violation("nonce-not-advanced-by-tx-count:committed-block", fmt.Sprintf("%s: %d -> %d with %d transactions", a.Hex(), before.acct[a].Nonce, after.acct[a].Nonce, n), bw())
		}
	}
	if okN && len(perSender) > 0 {
		r.Count("block/nonces-advanced")
	}
	s.history = append(s.history, hx)
	if len(s.history) > 200 {
		s.history = s.history[len(s.history)-200:]
	}
	return true
}

// judge evaluates the per-transaction invariants; returns true when a violation was recorded.
func (s *chainState) judge(a *applied, pre, post *obs, wit func(map[string]interface{}) map[string]interface{}) bool {
	r, t := s.r, a.t
	flagged := false
	viol := func(key, what string) {
		flagged = true
		r.Violation(key, what, wit(nil))
	}
	out := classify(a.res.Err)
	r.Count("outcome/" + out)
	sender := s.eo[t.From].Addr
	price := new(big.Int).Mul(new(big.Int).SetUint64(t.GasGwei), gwei)
	fee := new(big.Int).Mul(new(big.Int).SetUint64(a.res.UsedGas), price)
	maxGas := new(big.Int).Mul(new(big.Int).SetUint64(t.GasLimit), price)
	logs := ongLogs(a.receipt)
	delta := func(x ethcom.Address) *big.Int { return new(big.Int).Sub(post.bal(x), pre.bal(x)) }
	shape := t.Kind + "/" + out
	sdSelf := s.involvesSdSelf(t.Prog, 0)
	selfLog := false
	for _, l := range logs {
		if l.From == l.To && l.From != sender {
			selfLog = true
		}
	}

	for _, b := range post.bad {
		viol("negative-or-undecodable-ong-balance:"+shape, b)
	}
	// 1. sum of ONG over ALL balance keys unchanged
	r.Count("check/total")
	if pre.total.Cmp(post.total) != 0 {
		cls := shape
		burned := new(big.Int) // value of SELFDESTRUCTs whose beneficiary was the destroyed contract itself
		for _, l := range logs {
			if _, alive := post.acct[l.From]; l.From == l.To && !alive {
				burned.Add(burned, l.Amount)
			}
		}
		lost := new(big.Int).Sub(pre.total, post.total)
		single := false // nested frames of one contract each log the same balance; only one of them destroys it
		for _, l := range logs {
			if _, alive := post.acct[l.From]; l.From == l.To && !alive && l.Amount.Cmp(lost) == 0 {
				single = true
			}
		}
		if burned.Sign() > 0 && (lost.Cmp(burned) == 0 || single) {
			cls = "selfdestruct-to-self"
		} else if sdSelf && selfLog {
			cls = "selfdestruct-to-self+" + shape
		}
		dir := "decreased"
		if post.total.Cmp(pre.total) > 0 {
			dir = "increased"
		}
		viol("ong-total-changed:"+cls, fmt.Sprintf("sum of all ONG balances %s by %s wei (%s -> %s)", dir, new(big.Int).Abs(new(big.Int).Sub(post.total, pre.total)), pre.total, post.total))
	}
	// 2. sender nonce advanced by exactly one, whatever the EVM outcome
	r.Count("check/nonce")
	if post.acct[sender].Nonce != pre.acct[sender].Nonce+1 {
		viol("nonce-not-advanced-by-one:"+shape, fmt.Sprintf("sender nonce %d -> %d", pre.acct[sender].Nonce, post.acct[sender].Nonce))
	}
	// 3. the sender is charged at most gasLimit*gasPrice + value
	r.Count("check/debit")
	debit := new(big.Int).Neg(delta(sender))
	if debit.Cmp(new(big.Int).Add(maxGas, t.Value)) > 0 {
		viol("sender-overcharged:"+shape, fmt.Sprintf("sender lost %s > gasLimit*gasPrice %s + value %s", debit, maxGas, t.Value))
	}
	if a.res.UsedGas > t.GasLimit {
		viol("used-gas-exceeds-limit:"+shape, fmt.Sprintf("%d > %d", a.res.UsedGas, t.GasLimit))
	}
	// 4. fee receiver gains exactly UsedGas*gasPrice (plus what it receives as an ordinary value target)
	r.Count("check/fee")
	extraIn := new(big.Int)
	feeLogSeen := fee.Sign() == 0
	for _, l := range logs {
		if !feeLogSeen && l.From == sender && l.To == feeRcv && l.Amount.Cmp(fee) == 0 {
			feeLogSeen = true // the fee transfer's own log
			continue
		}
		if l.To == feeRcv {
			extraIn.Add(extraIn, l.Amount)
		}
		if l.From == feeRcv {
			extraIn.Sub(extraIn, l.Amount)
		}
	}
	if extraIn.Sign() != 0 {
		r.Count("fee-receiver-is-value-target")
	}
	if want := new(big.Int).Add(fee, extraIn); delta(feeRcv).Cmp(want) != 0 {
		viol("fee-receiver-delta:"+shape, fmt.Sprintf("fee receiver gained %s, UsedGas*gasPrice = %s (+%s received as value target)", delta(feeRcv), fee, extraIn))
	}
	// 5. only the sender, the fee receiver and the parties of value transfers changed balance
	r.Count("check/participants")
	allowed := map[ethcom.Address]bool{sender: true, feeRcv: true}
	for _, l := range logs {
		allowed[l.From] = true
		allowed[l.To] = true
	}
	seen := map[ethcom.Address]bool{}
	for x := range pre.ong {
		seen[x] = true
	}
	for x := range post.ong {
		seen[x] = true
	}
	var odd []string
	for x := range seen {
		if !allowed[x] && delta(x).Sign() != 0 {
			odd = append(odd, fmt.Sprintf("%s %+d", x.Hex(), delta(x)))
		}
	}
	if len(odd) > 0 {
		sort.Strings(odd)
		viol("unrelated-balance-changed:"+shape, strings.Join(odd, ", "))
	}
	// 6. a sender never ends up richer by its own transaction, except by what other accounts
	// lost in it (value sent back by a contract, a SELFDESTRUCT naming it as beneficiary):
	// judged on the observed balances alone, no log and no reported gas figure involved
	r.Count("check/not-richer")
	othersLost := new(big.Int)
	for x := range seen {
		if x != sender && delta(x).Sign() < 0 {
			othersLost.Sub(othersLost, delta(x))
		}
	}
	if delta(sender).Cmp(othersLost) > 0 {
		viol("sender-richer:"+shape, fmt.Sprintf("sender gained %s wei by its own transaction while all other accounts together lost %s", delta(sender), othersLost))
	}
	// 7. the sender is charged exactly UsedGas*gasPrice on top of the value flows from and to it
	r.Count("check/charge")
	flow := new(big.Int)
	feeLogSkipped := fee.Sign() == 0
	for _, l := range logs {
		if !feeLogSkipped && l.From == sender && l.To == feeRcv && l.Amount.Cmp(fee) == 0 {
			feeLogSkipped = true
			continue
		}
		if l.To == sender {
			flow.Add(flow, l.Amount)
		}
		if l.From == sender {
			flow.Sub(flow, l.Amount)
		}
	}
	if want := new(big.Int).Sub(flow, fee); delta(sender).Cmp(want) != 0 {
		viol("sender-charge-mismatch:"+shape, fmt.Sprintf("sender balance changed by %s, value flows %s - UsedGas*gasPrice %s = %s", delta(sender), flow, fee, want))
	}

	// ---- coverage bookkeeping + pool maintenance
	if pre.bal(sender).Cmp(maxGas) < 0 {
		r.Count("adjusted-gas")
	}
	if t.GasGwei == 0 {
		r.Count("gas-price-zero")
	}
	if pre.bal(sender).Sign() == 0 {
		r.Count("sender/zero-balance")
	}
	for _, l := range logs {
		if _, existed := pre.ong[l.To]; !existed && l.Amount.Sign() > 0 && pre.acct[l.To] == (ethAcct{}) {
			r.Count("value-to-fresh-address")
			break
		}
	}
	if out == "success" {
		if t.To == nil {
			ca := a.receipt.ContractAddress
			if post.acct[ca].CodeHash != (ethcom.Hash{}) {
				r.Count("create-tx/contract-created")
				if t.Kind == "deploy" {
					ci := &contractInfo{addr: ca, p: t.Prog}
					s.pool = append(s.pool, ci)
					s.byAddr[ca] = ci
					if len(s.pool) > 24 {
						s.removeContract(s.pool[0].addr)
					}
				}
			}
		}
		if p := t.Prog; p != nil && t.Kind != "deploy" {
			// straight-line program that ended without error: every action ran
			for _, x := range p.Actions {
				if x.Kind != "sstore-cv" || t.To == nil {
					continue
				}
				var slot [32]byte
				slot[31] = byte(x.Slot)
				old := pre.raw[string(append(append([]byte{byte(scom.ST_STORAGE)}, t.To[:]...), slot[:]...))]
				if t.Value.Sign() == 0 && len(strings.Trim(old, "\x00")) > 0 {
					r.Count("sstore/clear-committed-refund")
				}
			}
			if p.has("sstore") {
				for _, x := range p.Actions {
					if x.Kind == "sstore" && x.Val != 0 {
						r.Count("sstore/set")
					}
					if x.Kind == "sstore" && x.Val == 0 {
						r.Count("sstore/clear-refund")
					}
				}
			}
			if p.has("create") {
				r.Count("create-inner/executed")
			}
			if p.has("call") {
				moved := false
				for _, l := range logs {
					if l.From != sender && l.Amount.Sign() > 0 {
						moved = true
					}
				}
				if moved {
					r.Count("call-with-value/moved")
				}
				for _, x := range p.Actions {
					if x.Kind == "call" && x.Value.Kind == "selfbalance+1" {
						r.Count("call-with-value/failed-inner")
					}
				}
			}
			if p.Term == "selfdestruct" {
				me := ethcom.Address{}
				if t.To != nil {
					me = *t.To
				} else {
					me = a.receipt.ContractAddress
				}
				had := false
				for _, l := range logs {
					if l.From == me && p.Benef.Kind != "self" && l.To != me {
						had = true
					}
					if l.From == me && l.To == me && p.Benef.Kind == "self" {
						had = true
					}
				}
				if p.Benef.Kind == "self" {
					r.Count("selfdestruct-self/executed")
					if had {
						r.Count("selfdestruct-self/with-balance")
					}
				} else {
					r.Count("selfdestruct-other/executed")
					if had {
						r.Count("selfdestruct-other/with-balance")
					}
				}
				if t.To != nil {
					s.removeContract(*t.To)
				}
			}
		}
	}
	if s.rf != nil {
		s.rf.track(pre, post)
	}
	if t.After != nil {
		t.After(a, pre, post)
	}
	// contracts destroyed indirectly (called by the executed program) leave the pool
	for _, ci := range append([]*contractInfo{}, s.pool...) {
		if _, ok := post.acct[ci.addr]; !ok {
			s.removeContract(ci.addr)
		}
	}
	return flagged
}
