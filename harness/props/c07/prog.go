package main

import (
	"fmt"
	"math/big"
	"strings"

	ethcom "github.com/ethereum/go-ethereum/common"
	"verifharness/lib/evmasm"
	"verifharness/lib/vf"
)

// ---------------------------------------------------------------- straight-line EVM programs
//
// A program is a list of actions followed by one terminal.  Targets and amounts are either
// literals fixed at generation time or taken from the execution context by an opcode
// (ORIGIN / CALLER / ADDRESS, SELFBALANCE / CALLVALUE), so that "all of my balance",
// "more than my balance" and "to myself" are reachable without knowing the address.

type addrSpec struct {
	Kind string // lit | origin | caller | self
	Addr ethcom.Address
	Note string // what the literal is (fresh, eoa2, contract, governance, ...)
}

func (a addrSpec) code() []byte {
	switch a.Kind {
	case "origin":
		return []byte{evmasm.ORIGIN}
	case "caller":
		return []byte{evmasm.CALLER}
	case "self":
		return []byte{evmasm.ADDRESS}
	}
	return evmasm.PushAddrCode(a.Addr)
}
func (a addrSpec) String() string {
	if a.Kind == "lit" {
		return a.Note + ":" + a.Addr.Hex()
	}
	return a.Kind
}

type valSpec struct {
	Kind string // lit | selfbalance | selfbalance+1 | callvalue | half
	V    *big.Int
}

func (v valSpec) code() []byte {
	switch v.Kind {
	case "selfbalance":
		return []byte{evmasm.SELFBALANCE}
	case "selfbalance+1":
		return append(append([]byte{evmasm.SELFBALANCE}, evmasm.PushCode(big.NewInt(1))...), evmasm.ADD)
	case "callvalue":
		return []byte{evmasm.CALLVALUE}
	}
	return evmasm.PushCode(v.V)
}
func (v valSpec) String() string {
	if v.Kind == "lit" {
		return v.V.String()
	}
	return v.Kind
}

type action struct {
	Kind  string // sstore | sstore-cv (value = CALLVALUE: a later zero-value call clears the slot) | call | create
	Slot  uint64
	Val   uint64
	To    addrSpec
	Value valSpec
	Gas   uint64 // 0 = all remaining
	Child string // create: kind of the child's init code
	CTo   addrSpec
}

type prog struct {
	Actions []action
	Term    string // stop | return | revert | invalid | loop | selfdestruct
	Benef   addrSpec
}

func childInit(kind string, to addrSpec) []byte {
	switch kind {
	case "empty":
		return []byte{evmasm.STOP}
	case "runtime-stop":
		return evmasm.Deployer([]byte{evmasm.STOP})
	case "selfdestruct-other":
		return evmasm.New().SelfDestructDyn(to.code()).Bytes()
	case "selfdestruct-self":
		return evmasm.New().SelfDestructDyn([]byte{evmasm.ADDRESS}).Bytes()
	case "revert":
		return evmasm.New().Revert().Bytes()
	}
	panic("child kind " + kind)
}

func (p *prog) code() []byte {
	a := evmasm.New()
	for _, x := range p.Actions {
		switch x.Kind {
		case "sstore":
			a.SStore(x.Slot, x.Val)
		case "sstore-cv":
			a.Op(evmasm.CALLVALUE).PushU(x.Slot).Op(evmasm.SSTORE)
		case "call":
			a.CallDyn(x.Gas, x.To.code(), x.Value.code())
		case "create":
			a.Create(x.Value.code(), childInit(x.Child, x.CTo))
		}
	}
	switch p.Term {
	case "stop":
		a.Stop()
	case "return":
		a.Return0()
	case "revert":
		a.Revert()
	case "invalid":
		a.Invalid()
	case "loop":
		a.Loop()
	case "selfdestruct":
		a.SelfDestructDyn(p.Benef.code())
	}
	return a.Bytes()
}

func (p *prog) String() string {
	var s []string
	for _, x := range p.Actions {
		switch x.Kind {
		case "sstore":
			s = append(s, fmt.Sprintf("sstore(%d,%d)", x.Slot, x.Val))
		case "sstore-cv":
			s = append(s, fmt.Sprintf("sstore(%d,CALLVALUE)", x.Slot))
		case "call":
			s = append(s, fmt.Sprintf("call(to=%s,value=%s,gas=%d)", x.To, x.Value, x.Gas))
		case "create":
			c := x.Child
			if c == "selfdestruct-other" {
				c += "->" + x.CTo.String()
			}
			s = append(s, fmt.Sprintf("create(value=%s,child=%s)", x.Value, c))
		}
	}
	t := p.Term
	if t == "selfdestruct" {
		t += "(" + p.Benef.String() + ")"
	}
	return strings.Join(append(s, t), "; ")
}

// structural features of a program (for coverage counters and violation keys)
func (p *prog) selfdestructSelf() bool {
	return p.Term == "selfdestruct" && p.Benef.Kind == "self"
}
func (p *prog) has(kind string) bool {
	for _, x := range p.Actions {
		if x.Kind == kind {
			return true
		}
	}
	return false
}
func (p *prog) hasChild(kind string) bool {
	for _, x := range p.Actions {
		if x.Kind == "create" && x.Child == kind {
			return true
		}
	}
	return false
}

// ---------------------------------------------------------------- program generator

type progGen struct {
	rng    *vf.RNG
	eoas   []ethcom.Address
	pool   func() []ethcom.Address // currently deployed contracts
	feeRcv ethcom.Address
}

func (g *progGen) fresh() ethcom.Address {
	var a ethcom.Address
	copy(a[:], g.rng.Bytes(20))
	a[0] = 0xfe // never a precompile, never an actor
	return a
}

func (g *progGen) target() addrSpec {
	switch k := g.rng.Intn(100); {
	case k < 25:
		return addrSpec{Kind: "lit", Addr: g.fresh(), Note: "fresh"}
	case k < 45:
		return addrSpec{Kind: "lit", Addr: g.eoas[g.rng.Intn(len(g.eoas))], Note: "eoa"}
	case k < 60:
		if p := g.pool(); len(p) > 0 {
			return addrSpec{Kind: "lit", Addr: p[g.rng.Intn(len(p))], Note: "contract"}
		}
		return addrSpec{Kind: "lit", Addr: g.fresh(), Note: "fresh"}
	case k < 72:
		return addrSpec{Kind: "origin"}
	case k < 80:
		return addrSpec{Kind: "caller"}
	case k < 86:
		return addrSpec{Kind: "lit", Addr: g.feeRcv, Note: "fee-receiver"}
	case k < 92: // low addresses: precompiles; 0x..02 is also the byte pattern of the ONG contract address
		var a ethcom.Address
		a[19] = byte(1 + g.rng.Intn(9))
		return addrSpec{Kind: "lit", Addr: a, Note: "precompile"}
	default:
		return addrSpec{Kind: "self"}
	}
}

func (g *progGen) value() valSpec {
	switch k := g.rng.Intn(100); {
	case k < 20:
		return valSpec{Kind: "lit", V: big.NewInt(0)}
	case k < 35:
		return valSpec{Kind: "lit", V: big.NewInt(1)}
	case k < 55:
		return valSpec{Kind: "lit", V: new(big.Int).Mul(big.NewInt(int64(1+g.rng.Intn(1000))), big.NewInt(1000000000))}
	case k < 75:
		return valSpec{Kind: "selfbalance"}
	case k < 85:
		return valSpec{Kind: "callvalue"}
	default:
		return valSpec{Kind: "selfbalance+1"}
	}
}

func (g *progGen) action() action {
	switch k := g.rng.Intn(100); {
	case k < 10:
		return action{Kind: "sstore-cv", Slot: uint64(g.rng.Intn(3))}
	case k < 30:
		v := uint64(0)
		if g.rng.Chance(55) {
			v = uint64(1 + g.rng.Intn(1000))
		}
		return action{Kind: "sstore", Slot: uint64(g.rng.Intn(3)), Val: v}
	case k < 75:
		gas := uint64(0)
		if g.rng.Chance(30) {
			gas = uint64(g.rng.Intn(40000))
		}
		return action{Kind: "call", To: g.target(), Value: g.value(), Gas: gas}
	default:
		kinds := []string{"empty", "runtime-stop", "selfdestruct-other", "selfdestruct-self", "revert"}
		a := action{Kind: "create", Value: g.value(), Child: kinds[g.rng.Intn(len(kinds))], CTo: g.target()}
		if a.Child == "selfdestruct-other" && a.CTo.Kind == "self" {
			a.Child = "selfdestruct-self"
		}
		return a
	}
}

func (g *progGen) program() *prog {
	p := &prog{}
	n := g.rng.Intn(4)
	for i := 0; i < n; i++ {
		p.Actions = append(p.Actions, g.action())
	}
	switch k := g.rng.Intn(100); {
	case k < 30:
		p.Term = "stop"
	case k < 36:
		p.Term = "return"
	case k < 48:
		p.Term = "revert"
	case k < 56:
		p.Term = "invalid"
	case k < 64:
		p.Term = "loop"
	case k < 84:
		p.Term = "selfdestruct"
		p.Benef = g.target()
		for p.Benef.Kind == "self" {
			p.Benef = g.target()
		}
	default:
		p.Term = "selfdestruct"
		p.Benef = addrSpec{Kind: "self"}
	}
	return p
}
