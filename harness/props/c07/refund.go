package main

// Refund-heavy histories.
//
// The gas refund of a transaction (15000 per storage slot cleared that an EARLIER transaction
// set, 24000 per contract destroyed) only becomes large with a history: somebody first has to
// fill slots or deploy contracts.  These chains carry three small hand-assembled contracts:
//
//	store   calldata [v, mask, end, resetMask]: for every bit i of mask SSTORE(i+1, v); then for
//	        every bit i of resetMask SSTORE(i+1, 7); then end: 0 STOP, 1 REVERT, 2 loop until
//	        out of gas, 3 INVALID.  set = v != 0, clear = v == 0, clear-some = a smaller mask.
//	multi   calldata [0, end, n, n records of (target, 8 words)]: CALLs every target with its 8
//	        words (result ignored), then ends like store; a record may target multi itself or the
//	        other multi, so a frame that clears / destroys and then reverts can sit inside an
//	        outer frame that succeeds.
//	        calldata [1, m, endowment]: factory, CREATEs m children with the endowment each.
//	child   SELFDESTRUCT(beneficiary = calldata word 0).
//
// A history sets k slots over one or several transactions and blocks and later clears all or
// part of them in ONE transaction, or spawns m children and later makes j of them self-destruct
// in one transaction, or both at once.  The gas the measured transaction needs is found by a
// probe run on a scratch overlay with a tracer (gas before any refund); the limit is then a
// multiple of it.  All verdicts come from judge(), unchanged; this file only plans workloads and
// counts what was reached.

import (
	"fmt"
	"math/big"
	"sort"
	"strings"
	"time"

	ethcom "github.com/ethereum/go-ethereum/common"
	"github.com/ethereum/go-ethereum/crypto"
	"github.com/ontio/ontology/common"
	"github.com/ontio/ontology/common/config"
	scom "github.com/ontio/ontology/core/store/common"
	"github.com/ontio/ontology/core/store/ledgerstore"
	"github.com/ontio/ontology/core/types"
	"github.com/ontio/ontology/smartcontract/event"
	evm2 "github.com/ontio/ontology/smartcontract/service/evm"
	evmtypes "github.com/ontio/ontology/smartcontract/service/evm/types"
	"github.com/ontio/ontology/smartcontract/service/native/ong"
	nutils "github.com/ontio/ontology/smartcontract/service/native/utils"
	"github.com/ontio/ontology/smartcontract/storage"
	vmevm "github.com/ontio/ontology/vm/evm"
	"github.com/ontio/ontology/vm/evm/params"
	"verifharness/lib/chain"
	"verifharness/lib/evmasm"
	"verifharness/lib/vf"
)

// ---------------------------------------------------------------- assembler with labels

const (
	opMUL          = 0x02
	opEQ           = 0x14
	opISZERO       = 0x15
	opAND          = 0x16
	opSHR          = 0x1c
	opCALLDATALOAD = 0x35
	opCALLDATACOPY = 0x37
	opJUMPI        = 0x57
	opDUP2         = 0x81
	opDUP6         = 0x85
)

type lasm struct {
	b      []byte
	labels map[string]int
	fix    map[int]string
}

func newLasm() *lasm { return &lasm{labels: map[string]int{}, fix: map[int]string{}} }

func (a *lasm) op(ops ...byte) *lasm { a.b = append(a.b, ops...); return a }
func (a *lasm) push(v uint64) *lasm {
	a.b = append(a.b, evmasm.PushCode(new(big.Int).SetUint64(v))...)
	return a
}
func (a *lasm) label(n string) *lasm {
	if _, dup := a.labels[n]; dup {
		panic("lasm: duplicate label " + n)
	}
	a.labels[n] = len(a.b)
	return a.op(evmasm.JUMPDEST)
}
func (a *lasm) ref(n string) *lasm {
	a.b = append(a.b, evmasm.PUSH1+1, 0, 0)
	a.fix[len(a.b)-2] = n
	return a
}
func (a *lasm) jump(n string) *lasm  { return a.ref(n).op(evmasm.JUMP) }
func (a *lasm) jumpi(n string) *lasm { return a.ref(n).op(opJUMPI) }
func (a *lasm) bytes() []byte {
	out := append([]byte{}, a.b...)
	for at, n := range a.fix {
		pc, ok := a.labels[n]
		if !ok {
			panic("lasm: unknown label " + n)
		}
		out[at], out[at+1] = byte(pc>>8), byte(pc)
	}
	return out
}

// end modes shared by store and multi
const (
	endStop    = 0
	endRevert  = 1
	endSpin    = 2 // loops until out of gas
	endInvalid = 3
)

var endNames = map[uint64]string{endStop: "stop", endRevert: "revert", endSpin: "oog", endInvalid: "invalid"}

// emitEnd: the word at calldata offset off selects how the frame ends.
func (a *lasm) emitEnd(off uint64, id string) {
	a.push(off).op(opCALLDATALOAD)
	a.op(evmasm.DUP1).push(endRevert).op(opEQ).jumpi("rev" + id)
	a.op(evmasm.DUP1).push(endSpin).op(opEQ).jumpi("spin" + id)
	a.op(evmasm.DUP1).push(endInvalid).op(opEQ).jumpi("inv" + id)
	a.op(evmasm.STOP)
	a.label("rev" + id).push(0).push(0).op(evmasm.REVERT)
	a.label("spin" + id).jump("spin" + id)
	a.label("inv" + id).op(evmasm.INVALID)
}

const nSlots = 16 // store uses slots 1..16

func storeRuntime() []byte {
	a := newLasm()
	pass := func(id string, maskOff uint64, val func()) {
		a.push(0) // i
		a.label("loop" + id)
		a.op(evmasm.DUP1).push(nSlots).op(opEQ).jumpi("end" + id)
		a.push(maskOff).op(opCALLDATALOAD).op(opDUP2, opSHR).push(1).op(opAND, opISZERO).jumpi("skip" + id)
		val()                               // i v
		a.op(opDUP2).push(1).op(evmasm.ADD) // i v slot
		a.op(evmasm.SSTORE)                 // i
		a.label("skip" + id).push(1).op(evmasm.ADD)
		a.jump("loop" + id)
		a.label("end" + id).op(evmasm.POP)
	}
	pass("1", 0x20, func() { a.push(0).op(opCALLDATALOAD) })
	pass("2", 0x60, func() { a.push(7) })
	a.emitEnd(0x40, "")
	return a.bytes()
}

func childRuntime() []byte {
	return newLasm().push(0).op(opCALLDATALOAD, evmasm.SELFDESTRUCT).bytes()
}

const (
	recWords = 8
	recArg   = recWords * 32
	recSize  = recArg + 32
)

func multiRuntime() []byte {
	a := newLasm()
	a.push(0).op(opCALLDATALOAD).push(1).op(opEQ).jumpi("spawn")
	// ---- multicall
	a.push(0) // i
	a.label("mloop")
	a.op(evmasm.DUP1).push(0x40).op(opCALLDATALOAD, opEQ).jumpi("mend")
	a.op(evmasm.DUP1).push(recSize).op(opMUL).push(0x60).op(evmasm.ADD) // i base
	a.push(recArg).op(opDUP2).push(32).op(evmasm.ADD).push(0).op(opCALLDATACOPY)
	a.push(0).push(0).push(recArg).push(0).push(0) // i base retSize retOff argSize argOff value
	a.op(opDUP6, opCALLDATALOAD)                   // ... target
	a.op(evmasm.GAS, evmasm.CALL, evmasm.POP)      // i base
	a.op(evmasm.POP).push(1).op(evmasm.ADD)
	a.jump("mloop")
	a.label("mend").op(evmasm.POP)
	a.emitEnd(0x20, "m")
	// ---- factory
	a.label("spawn")
	init := evmasm.Deployer(childRuntime())
	if len(init) > 32 {
		panic("child init code longer than one word")
	}
	var w [32]byte
	copy(w[:], init)
	a.op(evmasm.PUSH1 + 31).op(w[:]...).push(0).op(evmasm.MSTORE)
	a.push(0) // i
	a.label("sloop")
	a.op(evmasm.DUP1).push(0x20).op(opCALLDATALOAD, opEQ).jumpi("send")
	a.push(uint64(len(init))).push(0).push(0x40).op(opCALLDATALOAD).op(evmasm.CREATE, evmasm.POP)
	a.push(1).op(evmasm.ADD)
	a.jump("sloop")
	a.label("send").op(evmasm.STOP)
	return a.bytes()
}

// ---------------------------------------------------------------- calldata

func word(v *big.Int) []byte {
	var w [32]byte
	b := v.Bytes()
	copy(w[32-len(b):], b)
	return w[:]
}
func wordU(v uint64) []byte         { return word(new(big.Int).SetUint64(v)) }
func wordA(a ethcom.Address) []byte { return word(new(big.Int).SetBytes(a[:])) }
func cat(parts ...[]byte) []byte {
	var out []byte
	for _, p := range parts {
		out = append(out, p...)
	}
	return out
}

func storeData(v, mask, end, reset uint64) []byte {
	return cat(wordU(v), wordU(mask), wordU(end), wordU(reset))
}

type rec struct {
	To   ethcom.Address
	Data []byte // at most recArg bytes; the callee sees it zero-padded to recArg
	Note string
}

func multiData(end uint64, recs []rec) []byte {
	out := cat(wordU(0), wordU(end), wordU(uint64(len(recs))))
	for _, r := range recs {
		if len(r.Data) > recArg {
			panic("record calldata too long")
		}
		arg := make([]byte, recArg)
		copy(arg, r.Data)
		out = append(out, wordA(r.To)...)
		out = append(out, arg...)
	}
	return out
}

func spawnData(m uint64, endow *big.Int) []byte { return cat(wordU(1), wordU(m), word(endow)) }

// ---------------------------------------------------------------- world of one refund chain

type rfWorld struct {
	stores   [2]ethcom.Address
	multis   [2]ethcom.Address
	children []ethcom.Address // alive children of both factories, oldest first
}

// track keeps the list of alive children current: what the factories created in the transaction
// (CREATE address = keccak(rlp(factory, nonce)), computed here), minus what no longer exists.
func (w *rfWorld) track(pre, post *obs) {
	for _, m := range w.multis {
		if m == (ethcom.Address{}) {
			continue
		}
		for n := pre.acct[m].Nonce; n < post.acct[m].Nonce && n < pre.acct[m].Nonce+64; n++ {
			if n == 0 {
				continue
			}
			c := crypto.CreateAddress(m, n)
			if ea, ok := post.acct[c]; ok && ea.CodeHash != (ethcom.Hash{}) {
				w.children = append(w.children, c)
			}
		}
	}
	alive := w.children[:0]
	for _, c := range w.children {
		if _, ok := post.acct[c]; ok {
			alive = append(alive, c)
		}
	}
	w.children = alive
}

func storageKey(a ethcom.Address, slot int) string {
	var k [32]byte
	k[31] = byte(slot)
	return string(append(append([]byte{byte(scom.ST_STORAGE)}, a[:]...), k[:]...))
}

// nonzero returns the bit mask (bit i = slot i+1) of the store's non-zero slots in o.
func nonzero(o *obs, store ethcom.Address) uint64 {
	var m uint64
	for i := 0; i < nSlots; i++ {
		if len(strings.Trim(o.raw[storageKey(store, i+1)], "\x00")) > 0 {
			m |= 1 << uint(i)
		}
	}
	return m
}

func popcount(m uint64) int {
	n := 0
	for ; m != 0; m &= m - 1 {
		n++
	}
	return n
}

func bits(m uint64) []int {
	var out []int
	for i := 0; i < 64; i++ {
		if m&(1<<uint(i)) != 0 {
			out = append(out, i)
		}
	}
	return out
}

// subset picks n of the set bits of m.
func subset(rng *vf.RNG, m uint64, n int) uint64 {
	b := bits(m)
	var out uint64
	for _, j := range rng.Perm(len(b)) {
		if n == 0 {
			break
		}
		out |= 1 << uint(b[j])
		n--
	}
	return out
}

// ---------------------------------------------------------------- probe

type gasTracer struct {
	used  uint64
	ended bool
}

func (g *gasTracer) CaptureStart(env *vmevm.EVM, from ethcom.Address, to ethcom.Address, create bool, input []byte, gas uint64, value *big.Int) {
}
func (g *gasTracer) CaptureState(env *vmevm.EVM, pc uint64, op vmevm.OpCode, gas, cost uint64, memory *vmevm.Memory, stack *vmevm.Stack, rStack *vmevm.ReturnStack, rData []byte, contract *vmevm.Contract, depth int, err error) {
}
func (g *gasTracer) CaptureEnter(typ vmevm.OpCode, from ethcom.Address, to ethcom.Address, input []byte, gas uint64, value *big.Int) {
}
func (g *gasTracer) CaptureExit(output []byte, gasUsed uint64, err error) {}
func (g *gasTracer) CaptureFault(env *vmevm.EVM, pc uint64, op vmevm.OpCode, gas, cost uint64, memory *vmevm.Memory, stack *vmevm.Stack, rStack *vmevm.ReturnStack, contract *vmevm.Contract, depth int, err error) {
}
func (g *gasTracer) CaptureEnd(output []byte, gasUsed uint64, t time.Duration, err error) {
	g.used, g.ended = gasUsed, true
}

// probe runs the call t with the given gas limit at gas price 0 on a scratch overlay (committed
// state + the transactions already applied in the block under construction) and reports the gas
// consumed before any refund (intrinsic + what the outermost frame used, as seen by a tracer)
// and the outcome.  Nothing of it reaches a verdict: it only sizes gas limits.
func (s *chainState) probe(t *txCase, gasLimit uint64) (gross uint64, outcome string, ok bool) {
	height := s.c.Ledger.GetCurrentBlockHeight() + 1
	ts := chain.TimeAt(height)
	ov := s.c.Store().VerifStateOverlay()
	cache := storage.NewCacheDB(ov)
	for i, p := range s.prefix {
		cache.Reset()
		ctx := ledgerstore.Eip155Context{BlockHash: common.UINT256_EMPTY, TxIndex: uint32(i), Height: height, Timestamp: ts}
		var err error
		if pn := vf.Catch(func() {
			_, _, err = s.ss.HandleEIP155Transaction(s.c.Store(), cache, p.eip, ctx, &event.ExecuteNotify{}, true)
		}); pn != nil || err != nil {
			return 0, "", false
		}
	}
	cache.Reset()
	tx, err := chain.EvmTx(s.eo[t.From], t.Nonce, t.To, t.Value, gasLimit, 0, t.Data)
	if err != nil {
		panic(err)
	}
	eip, err := tx.GetEIP155Tx()
	if err != nil {
		panic(err)
	}
	tr := &gasTracer{}
	statedb := storage.NewStateDB(cache, eip.Hash(), ethcom.Hash{}, ong.OngBalanceHandle{})
	used := uint64(0)
	var res *evmtypes.ExecutionResult
	if pn := vf.Catch(func() {
		res, _, err = evm2.ApplyTransaction(params.GetChainConfig(config.DefConfig.P2PNode.EVMChainId), s.c.Store(), statedb, height, ts, eip, &used,
			nutils.GovernanceContractAddress, vmevm.Config{Debug: true, Tracer: tr}, true)
	}); pn != nil || err != nil || res == nil {
		return 0, "", false
	}
	ig := intrinsic(t.Data, t.To == nil)
	if !tr.ended {
		return ig, classify(res.Err), true
	}
	return ig + tr.used, classify(res.Err), true
}

// ---------------------------------------------------------------- plans

// rfInfo is what the monitor planned and measured for one transaction of a history (it goes into
// the witness, so a failing transaction can be understood without the generator).
type rfInfo struct {
	Step      string   `json:"step"`    // deploy | set | clear | spawn | kill | mixed | filler
	History   string   `json:"history"` // the plan of the whole round
	Records   []string `json:"records,omitempty"`
	GasMode   string   `json:"gas_mode"` // x1 | x1.5 | x2 | x3 | x10 | short | all-consumed | fixed
	Gross     uint64   `json:"probe_gas_before_refund"`
	ProbeOut  string   `json:"probe_outcome"`
	PriceMode string   `json:"price_mode"`
	measured  bool
	clearMask [2]uint64 // slots this transaction tries to clear, per store
	resetMask [2]uint64
	kills     []ethcom.Address
	benefs    []string
	nestedRev bool // some record's frame clears / destroys and then reverts while the outer frame goes on
	outerEnd  uint64
	spawnKill bool
	viaMulti  bool
}

type gen func(cur *obs) *txCase

type roundPlan struct {
	Kind    string // sstore | kill | mixed
	Store   int
	K       int    // slots to set
	Parts   int    // number of set transactions
	Layout  string // own-blocks | sets-together | all-in-one-block
	Clear   string // all | some | some+unset
	Via     string // direct | multi
	End     string // stop | revert | oog | invalid | nested-revert | nested-oog | reset
	Gas     string
	Price   string
	Sender  int
	M, J    int
	Endow   uint64 // gwei per child
	Benef   string // sender | eoa | fresh | store | multi | fee-receiver | mix
	SameTx  bool   // spawn and kill in ONE transaction
	Factory int
	Filler  bool // an unrelated transfer between the set-up and the measured transaction
}

func (p roundPlan) String() string {
	switch p.Kind {
	case "sstore":
		return fmt.Sprintf("sstore store%d: set %d slots in %d tx (%s), then clear %s via %s, end %s, gas %s, price %s, sender eoa%d", p.Store, p.K, p.Parts, p.Layout, p.Clear, p.Via, p.End, p.Gas, p.Price, p.Sender)
	case "kill":
		return fmt.Sprintf("kill: factory%d spawns %d children (%d gwei each, same tx as the kill: %v), then %d self-destruct in one tx to %s, end %s, gas %s, price %s, sender eoa%d (%s)", p.Factory, p.M, p.Endow, p.SameTx, p.J, p.Benef, p.End, p.Gas, p.Price, p.Sender, p.Layout)
	}
	return fmt.Sprintf("mixed: set %d slots in each store, spawn %d children (%d gwei each), then one tx clears %s in both stores and destroys %d children to %s, end %s, gas %s, price %s, sender eoa%d (%s)", p.K, p.M, p.Endow, p.Clear, p.J, p.Benef, p.End, p.Gas, p.Price, p.Sender, p.Layout)
}

func pick(rng *vf.RNG, weighted ...interface{}) string {
	total := 0
	for i := 1; i < len(weighted); i += 2 {
		total += weighted[i].(int)
	}
	k := rng.Intn(total)
	for i := 0; i < len(weighted); i += 2 {
		if k < weighted[i+1].(int) {
			return weighted[i].(string)
		}
		k -= weighted[i+1].(int)
	}
	panic("pick")
}

func randomPlan(rng *vf.RNG) roundPlan {
	p := roundPlan{
		Kind:    pick(rng, "sstore", 50, "kill", 32, "mixed", 18),
		Store:   rng.Intn(2),
		K:       1 + rng.Intn(12),
		Parts:   1 + rng.Intn(3),
		Layout:  pick(rng, "own-blocks", 45, "sets-together", 35, "all-in-one-block", 20),
		Clear:   pick(rng, "all", 55, "some", 30, "some+unset", 15),
		Via:     pick(rng, "direct", 55, "multi", 45),
		End:     pick(rng, "stop", 50, "revert", 12, "oog", 8, "invalid", 4, "nested-revert", 12, "nested-oog", 5, "reset", 9),
		Gas:     pick(rng, "x1", 14, "x1.5", 14, "x2", 22, "x3", 20, "x10", 20, "short", 10),
		Price:   pick(rng, "0", 15, "2500", 50, "random", 35),
		Sender:  rng.Intn(2),
		M:       1 + rng.Intn(6),
		Endow:   []uint64{0, 1, 3, uint64(1 + rng.Intn(5000))}[rng.Intn(4)],
		Benef:   pick(rng, "sender", 25, "eoa", 15, "fresh", 12, "store", 15, "multi", 10, "fee-receiver", 5, "mix", 18),
		SameTx:  rng.Chance(12),
		Factory: rng.Intn(2),
		Filler:  rng.Chance(25),
	}
	if p.Parts > p.K {
		p.Parts = p.K
	}
	p.J = 1 + rng.Intn(p.M)
	if rng.Chance(12) {
		p.Sender = 2 + rng.Intn(2) // scarce: the gas bought is cut down to what the sender can pay
	}
	return p
}

// the first rounds of every chain: the shortest witnesses of every class, ample everything
func scriptedPlan(round int) (roundPlan, bool) {
	base := roundPlan{Kind: "sstore", K: 4, Parts: 1, Layout: "own-blocks", Clear: "all", Via: "direct", End: "stop", Gas: "x3", Price: "2500", M: 3, J: 3, Endow: 2, Benef: "sender"}
	switch round {
	case 0:
		return base, true
	case 1:
		p := base
		p.Kind, p.Gas, p.Sender = "kill", "x3", 1
		return p, true
	case 2:
		p := base
		p.K, p.Parts, p.Via, p.End, p.Gas, p.Store = 6, 2, "multi", "nested-revert", "x2", 1
		return p, true
	case 3:
		p := base
		p.Kind, p.K, p.M, p.J, p.Benef, p.Gas, p.Price = "mixed", 5, 4, 2, "store", "x10", "0"
		return p, true
	case 4:
		p := base
		p.K, p.End, p.Gas = 8, "revert", "x2"
		return p, true
	case 5:
		p := base
		p.Kind, p.M, p.J, p.SameTx, p.Benef, p.Gas = "kill", 2, 2, true, "eoa", "x2"
		return p, true
	case 6:
		p := base
		p.K, p.Clear, p.Gas, p.Layout = 12, "some", "x1", "sets-together"
		p.Parts = 3
		return p, true
	case 7:
		p := base
		p.K, p.End, p.Gas = 5, "oog", "x2"
		return p, true
	case 8:
		p := base
		p.Kind, p.M, p.J, p.Benef, p.Gas, p.Via = "kill", 6, 6, "multi", "x1.5", "multi"
		return p, true
	case 9:
		p := base
		p.K, p.End, p.Gas, p.Layout = 3, "reset", "x3", "all-in-one-block"
		return p, true
	case 10:
		p := base
		p.K, p.Gas = 7, "short"
		return p, true
	case 11:
		p := base
		p.Kind, p.M, p.J, p.End, p.Gas, p.Benef = "kill", 3, 2, "nested-revert", "x3", "fresh"
		return p, true
	case 12:
		p := base
		p.Kind, p.M, p.J, p.Gas, p.Benef, p.Price, p.Factory = "kill", 5, 5, "x2", "fresh", "random", 1
		return p, true
	case 13: // a scarce sender: the gas bought is cut down to what it can pay for
		p := base
		p.Kind, p.M, p.J, p.Gas, p.Benef, p.Sender, p.Layout = "kill", 6, 4, "x10", "fee-receiver", 2, "sets-together"
		return p, true
	}
	return roundPlan{}, false
}

// ---------------------------------------------------------------- building transactions

func (s *chainState) rfTx(cur *obs, from int, to ethcom.Address, value *big.Int, data []byte, info *rfInfo) *txCase {
	a := to
	t := &txCase{Kind: "call", From: from, To: &a, Value: value, Data: data, Nonce: cur.acct[s.eo[from].Addr].Nonce, NonceMode: "ok", Rf: info}
	t.Tags = []string{"refund-history", info.Step}
	return t
}

func (s *chainState) price(rng *vf.RNG, mode string) uint64 {
	switch mode {
	case "0":
		return 0
	case "2500":
		return 2500
	}
	return uint64(1 + rng.Intn(5000))
}

// sizeGas probes the transaction and sets its gas limit to the planned multiple of the gas it
// needs.
func (s *chainState) sizeGas(t *txCase, rng *vf.RNG, gasMode, priceMode string) {
	const ample = 6000000
	t.GasGwei = s.price(rng, priceMode)
	t.Rf.PriceMode = priceMode
	ig := intrinsic(t.Data, false)
	gross, out, ok := s.probe(t, ample)
	if !ok {
		t.Rf.GasMode, t.GasLimit = "fixed", 1500000
		s.r.Count("refund/probe-failed")
		return
	}
	t.Rf.Gross, t.Rf.ProbeOut = gross, out
	if gross >= ample-ample/8 { // something burns whatever it is given: multiples mean nothing
		t.Rf.GasMode = "all-consumed"
		t.GasLimit = uint64(120000 + rng.Intn(600000))
		return
	}
	t.Rf.GasMode = gasMode
	switch gasMode {
	case "x1": // the smallest of a few candidates that reproduces the ample run
		for _, c := range []uint64{gross, gross + 2301, gross + 2301 + gross/60, gross + gross/20, gross + gross/6} {
			t.GasLimit = c
			if g2, o2, ok2 := s.probe(t, c); ok2 && o2 == out && g2 == gross {
				break
			}
		}
	case "x1.5":
		t.GasLimit = gross * 3 / 2
	case "x2":
		t.GasLimit = gross*2 + uint64(rng.Intn(3))
	case "x3":
		t.GasLimit = gross * 3
	case "x10":
		t.GasLimit = gross * 10
	case "short":
		t.GasLimit = ig + (gross-ig)*uint64(30+rng.Intn(70))/100
	default:
		panic("gas mode " + gasMode)
	}
}

func (s *chainState) beneficiary(rng *vf.RNG, kind string, sender int) (ethcom.Address, string) {
	if kind == "mix" {
		kind = []string{"sender", "eoa", "fresh", "store", "multi", "fee-receiver"}[rng.Intn(6)]
	}
	switch kind {
	case "sender":
		return s.eo[sender].Addr, kind
	case "eoa":
		return s.eo[(sender+1+rng.Intn(nEOA-1))%nEOA].Addr, kind
	case "fresh":
		return s.pg.fresh(), kind
	case "store":
		return s.rf.stores[rng.Intn(2)], kind
	case "multi":
		return s.rf.multis[rng.Intn(2)], kind
	case "fee-receiver":
		return feeRcv, kind
	}
	panic("beneficiary " + kind)
}

// wrapEnd turns "the frame that does the work ends with `end`" into records: nested ends put the
// work into an inner multi frame of its own (one record per piece of work, each piece at most
// one record of 8 words: target + up to 4 words), so that the inner frame fails while the outer
// one goes on.
func (s *chainState) nest(rng *vf.RNG, inner rec, end uint64) rec {
	if len(inner.Data) > 4*32 {
		panic("nested record too long")
	}
	arg := make([]byte, 4*32)
	copy(arg, inner.Data)
	m := s.rf.multis[rng.Intn(2)]
	return rec{To: m, Data: cat(wordU(0), wordU(end), wordU(1), wordA(inner.To), arg), Note: fmt.Sprintf("multi%s{%s; %s}", short(m), inner.Note, endNames[end])}
}

func short(a ethcom.Address) string { return a.Hex()[2:8] }

// measured builds the ONE transaction of a history that clears slots and / or destroys children.
func (s *chainState) measured(cur *obs, rng *vf.RNG, p roundPlan, step string, clearStores []int, nKill int, spawnFirst bool) *txCase {
	info := &rfInfo{Step: step, History: p.String(), measured: true}
	var recs []rec
	endOuter, endWork := uint64(endStop), uint64(endStop)
	nested := false
	switch p.End {
	case "revert":
		endOuter = endRevert
	case "oog":
		endOuter = endSpin
	case "invalid":
		endOuter = endInvalid
	case "nested-revert":
		nested, endWork = true, endRevert
	case "nested-oog":
		nested, endWork = true, endSpin
		if rng.Chance(40) {
			endWork = endInvalid
		}
	}
	direct := p.Via == "direct" && !nested && len(clearStores) == 1 && nKill == 0 && !spawnFirst
	var directData []byte
	for ci, si := range clearStores {
		st := s.rf.stores[si]
		nz := nonzero(cur, st)
		mask := nz
		switch {
		case p.Clear != "all" && popcount(nz) > 1:
			mask = subset(rng, nz, 1+rng.Intn(popcount(nz)-1))
			if p.Clear == "some+unset" {
				mask |= subset(rng, ^nz&(1<<nSlots-1), 1+rng.Intn(3))
			}
		case nz == 0:
			mask = subset(rng, 1<<nSlots-1, p.K) // the set-up failed: clears of zero slots, no refund
		}
		var reset uint64
		if p.End == "reset" {
			reset = subset(rng, mask, 1+rng.Intn(popcount(mask)))
		}
		info.clearMask[si] |= mask
		info.resetMask[si] |= reset
		end := uint64(endStop)
		if direct {
			end = endOuter
		} else if nested && (ci == 0 || rng.Chance(50)) {
			end = endWork // the store's own frame fails after clearing
			info.nestedRev = true
		}
		d := storeData(0, mask, end, reset)
		directData = d
		recs = append(recs, rec{To: st, Data: d, Note: fmt.Sprintf("store%d.clear(mask=%#x,reset=%#x,end=%s)", si, mask, reset, endNames[end])})
	}
	to := s.rf.multis[p.Factory]
	value := new(big.Int)
	var victims []ethcom.Address
	if spawnFirst {
		// the factory calls itself to spawn, paid with the value of this very transaction; the
		// children's addresses follow from the factory's nonce
		endow := new(big.Int).Mul(new(big.Int).SetUint64(p.Endow), gwei)
		value.Mul(endow, big.NewInt(int64(p.M)))
		recs = append(recs, rec{To: to, Data: spawnData(uint64(p.M), endow), Note: fmt.Sprintf("factory.spawn(%d,%s)", p.M, endow)})
		n0 := cur.acct[to].Nonce
		for i := 0; i < nKill && i < p.M; i++ {
			victims = append(victims, crypto.CreateAddress(to, n0+uint64(i)))
		}
		info.spawnKill = true
	} else {
		alive := s.rf.children
		if nKill > len(alive) {
			nKill = len(alive)
		}
		for _, j := range rng.Perm(len(alive))[:nKill] {
			victims = append(victims, alive[j])
		}
		sort.Slice(victims, func(i, j int) bool { return victims[i].Hex() < victims[j].Hex() })
	}
	var killRecs []rec
	for _, v := range victims {
		b, kind := s.beneficiary(rng, p.Benef, p.Sender)
		info.benefs = append(info.benefs, kind)
		r := rec{To: v, Data: wordA(b), Note: fmt.Sprintf("child%s.selfdestruct(%s:%s)", short(v), kind, short(b))}
		if nested && (len(clearStores) == 0 || rng.Chance(50)) {
			r = s.nest(rng, r, endWork)
			info.nestedRev = true
		}
		killRecs = append(killRecs, r)
	}
	info.kills = victims
	if spawnFirst || len(clearStores) == 0 || rng.Bool() {
		recs = append(recs, killRecs...)
	} else {
		recs = append(killRecs, recs...)
	}
	info.outerEnd = endOuter
	for _, r := range recs {
		info.Records = append(info.Records, r.Note)
	}
	var t *txCase
	if direct {
		t = s.rfTx(cur, p.Sender, s.rf.stores[clearStores[0]], value, directData, info)
	} else {
		info.viaMulti = true
		info.Records = append(info.Records, "outer end "+endNames[endOuter])
		t = s.rfTx(cur, p.Sender, to, value, multiData(endOuter, recs), info)
	}
	s.sizeGas(t, rng, p.Gas, p.Price)
	t.Tags = append(t.Tags, "end="+p.End, "gas="+info.GasMode, "price="+p.Price, fmt.Sprintf("clear=%d+%d", popcount(info.clearMask[0]), popcount(info.clearMask[1])), fmt.Sprintf("kill=%d", len(victims)))
	t.After = func(a *applied, pre, post *obs) { s.afterMeasured(t, a, pre, post) }
	return t
}

// setup transactions: ample gas (a multiple of what they need), they carry no refund
func (s *chainState) setTx(cur *obs, rng *vf.RNG, p roundPlan, si int, mask uint64) *txCase {
	info := &rfInfo{Step: "set", History: p.String()}
	v := uint64(1 + rng.Intn(1000000))
	var t *txCase
	if p.Via == "multi" && rng.Chance(60) {
		info.viaMulti = true
		info.Records = []string{fmt.Sprintf("store%d.set(mask=%#x,v=%d)", si, mask, v)}
		t = s.rfTx(cur, p.Sender, s.rf.multis[rng.Intn(2)], new(big.Int), multiData(endStop, []rec{{To: s.rf.stores[si], Data: storeData(v, mask, endStop, 0)}}), info)
	} else {
		info.Records = []string{fmt.Sprintf("store%d.set(mask=%#x,v=%d)", si, mask, v)}
		t = s.rfTx(cur, p.Sender, s.rf.stores[si], new(big.Int), storeData(v, mask, endStop, 0), info)
	}
	s.sizeGas(t, rng, pick(rng, "x1.5", 20, "x2", 30, "x3", 30, "x10", 20), pick(rng, "0", 20, "2500", 50, "random", 30))
	k := popcount(mask)
	t.After = func(a *applied, pre, post *obs) {
		if a.res.Err == nil && popcount(nonzero(post, s.rf.stores[si])&mask) == k {
			s.r.Count("refund/set-tx")
			s.r.Add("refund/slots-set", int64(popcount(mask&^nonzero(pre, s.rf.stores[si]))))
		}
	}
	return t
}

func (s *chainState) spawnTx(cur *obs, rng *vf.RNG, p roundPlan) *txCase {
	info := &rfInfo{Step: "spawn", History: p.String()}
	endow := new(big.Int).Mul(new(big.Int).SetUint64(p.Endow), gwei)
	info.Records = []string{fmt.Sprintf("factory%d.spawn(%d,%s)", p.Factory, p.M, endow)}
	t := s.rfTx(cur, p.Sender, s.rf.multis[p.Factory], new(big.Int).Mul(endow, big.NewInt(int64(p.M))), spawnData(uint64(p.M), endow), info)
	s.sizeGas(t, rng, pick(rng, "x1.5", 20, "x2", 30, "x3", 30, "x10", 20), pick(rng, "0", 20, "2500", 50, "random", 30))
	t.After = func(a *applied, pre, post *obs) {
		if a.res.Err == nil {
			s.r.Count("refund/spawn-tx")
			if p.Endow > 0 {
				s.r.Count("refund/spawn-with-endowment")
			}
		}
	}
	return t
}

func (s *chainState) fillerTx(cur *obs, rng *vf.RNG, p roundPlan) *txCase {
	from := (p.Sender + 1) % 2
	to := s.eo[rng.Intn(nEOA)].Addr
	t := &txCase{Kind: "transfer", From: from, To: &to, Value: new(big.Int).Mul(big.NewInt(int64(rng.Intn(50))), gwei), GasLimit: 21000, GasGwei: 2500,
		Nonce: cur.acct[s.eo[from].Addr].Nonce, NonceMode: "ok", Tags: []string{"refund-history", "filler"}}
	return t
}

// afterMeasured counts what the measured transaction of a history reached.  R is the refund the
// monitor itself expects from its own view of the state: 15000 per slot that was non-zero before
// and is zero after, 24000 per child that existed before and is gone after.
func (s *chainState) afterMeasured(t *txCase, a *applied, pre, post *obs) {
	r, info := s.r, t.Rf
	out := classify(a.res.Err)
	cleared, resetAgain := 0, 0
	for si, st := range s.rf.stores {
		was, is := nonzero(pre, st), nonzero(post, st)
		cleared += popcount(was &^ is & info.clearMask[si])
		resetAgain += popcount(was & is & info.resetMask[si])
	}
	killed := 0
	for i, v := range info.kills {
		_, before := pre.acct[v]
		_, after := post.acct[v]
		if info.spawnKill { // created and destroyed inside the transaction: the factory's nonce shows the creation
			before = post.acct[*t.To].Nonce > pre.acct[*t.To].Nonce+uint64(i)
		}
		if before && !after {
			killed++
		}
	}
	adjusted := pre.bal(s.eo[t.From].Addr).Cmp(new(big.Int).Mul(new(big.Int).SetUint64(t.GasLimit), new(big.Int).Mul(new(big.Int).SetUint64(t.GasGwei), gwei))) < 0
	r.Count("refund/measured-tx")
	r.Count("refund/outcome-" + out)
	r.Count("refund/gas-" + info.GasMode)
	r.Count("refund/price-" + info.PriceMode)
	if adjusted {
		r.Count("refund/adjusted-gas")
	}
	if info.viaMulti {
		r.Count("refund/via-multi")
	} else {
		r.Count("refund/direct")
	}
	planned := popcount(info.clearMask[0]) + popcount(info.clearMask[1])
	if out == "success" {
		if cleared > 0 {
			r.Count("refund/cleared")
			r.Count(fmt.Sprintf("refund/cleared-k=%s", bucket(cleared)))
			full := true
			for si, st := range s.rf.stores {
				if info.clearMask[si] != 0 && nonzero(post, st) != 0 {
					full = false
				}
			}
			if full {
				r.Count("refund/cleared-all")
			} else {
				r.Count("refund/cleared-some")
			}
			if len(s.prefix) > 0 {
				r.Count("refund/cleared-in-block-of-earlier-tx")
			}
		}
		if killed > 0 {
			r.Count("refund/killed")
			r.Count(fmt.Sprintf("refund/killed-j=%d", killed))
			if killed >= 2 {
				r.Count("refund/killed-j>=2")
			}
			seen := map[string]bool{}
			for _, b := range info.benefs {
				if !seen[b] {
					seen[b] = true
					r.Count("refund/killed-beneficiary-" + b)
				}
			}
			moved := false
			for _, v := range info.kills {
				if pre.bal(v).Sign() > 0 {
					moved = true
				}
			}
			if moved {
				r.Count("refund/killed-with-balance")
			}
			if info.spawnKill {
				r.Count("refund/spawned-and-killed-in-one-tx")
			}
		}
		if cleared > 0 && killed > 0 {
			r.Count("refund/cleared-and-killed-in-one-tx")
		}
		if resetAgain > 0 {
			r.Count("refund/cleared-then-set-again")
		}
		if info.nestedRev && (cleared < planned || killed < len(info.kills)) {
			r.Count("refund/nested-frame-failed-outer-succeeded")
		}
		R := uint64(15000*cleared + 24000*killed)
		g := info.Gross
		if R > 0 && g > 0 && info.GasMode != "all-consumed" {
			if a.res.UsedGas < g {
				r.Count("refund/granted")
			}
			if R > g/2 {
				r.Count("refund/counter-above-half-of-gas-used") // the cap binds
				if t.GasLimit >= g+g/2 && !adjusted {
					r.Count("refund/counter-above-half-of-gas-used/limit>=1.5x")
				}
			}
			if R > g {
				r.Count("refund/counter-above-gas-used")
				if t.GasLimit >= 2*g && !adjusted {
					r.Count("refund/counter-above-gas-used/limit>=2x")
				}
			}
		}
	} else if planned+len(info.kills) > 0 {
		// the whole transaction failed: nothing may stay cleared or destroyed
		if cleared == 0 && killed == 0 {
			r.Count("refund/failed-tx-work-undone")
			if out == "revert" {
				r.Count("refund/revert-at-the-end")
			}
			if out == "oog" || out == "invalid-opcode" {
				r.Count("refund/out-of-gas-after-the-work")
			}
		}
	}
}

func bucket(k int) string {
	switch {
	case k <= 2:
		return "1-2"
	case k <= 5:
		return "3-5"
	case k <= 8:
		return "6-8"
	}
	return "9+"
}

// ---------------------------------------------------------------- rounds

// round turns a plan into blocks of transaction generators.
func (s *chainState) round(rng *vf.RNG, p roundPlan) [][]gen {
	var setup []gen
	switch p.Kind {
	case "sstore", "mixed":
		stores := []int{p.Store}
		if p.Kind == "mixed" {
			stores = []int{0, 1}
		}
		for _, si := range stores {
			si := si
			target := subset(rng, 1<<nSlots-1, p.K)
			left := target
			for i := 0; i < p.Parts; i++ {
				n := popcount(left)
				if i < p.Parts-1 {
					n = 1 + rng.Intn(popcount(left)-(p.Parts-1-i))
				}
				part := subset(rng, left, n)
				left &^= part
				sub := rng.Sub(uint64(100 + 10*si + i))
				setup = append(setup, func(cur *obs) *txCase { return s.setTx(cur, sub, p, si, part) })
			}
		}
	}
	if (p.Kind == "kill" && !p.SameTx) || p.Kind == "mixed" {
		sub := rng.Sub(200)
		setup = append(setup, func(cur *obs) *txCase { return s.spawnTx(cur, sub, p) })
	}
	sub := rng.Sub(300)
	var last gen
	switch p.Kind {
	case "sstore":
		last = func(cur *obs) *txCase { return s.measured(cur, sub, p, "clear", []int{p.Store}, 0, false) }
	case "kill":
		last = func(cur *obs) *txCase { return s.measured(cur, sub, p, "kill", nil, p.J, p.SameTx) }
	default:
		last = func(cur *obs) *txCase { return s.measured(cur, sub, p, "mixed", []int{0, 1}, p.J, false) }
	}
	if p.Filler {
		fsub := rng.Sub(400)
		setup = append(setup, func(cur *obs) *txCase { return s.fillerTx(cur, fsub, p) })
	}
	var blocks [][]gen
	switch p.Layout {
	case "own-blocks":
		for _, g := range setup {
			blocks = append(blocks, []gen{g})
		}
		blocks = append(blocks, []gen{last})
	case "sets-together":
		if len(setup) > 0 {
			blocks = append(blocks, setup)
		}
		blocks = append(blocks, []gen{last})
	default:
		blocks = append(blocks, append(setup, last))
	}
	return blocks
}

func runRefundChain(r *vf.Run, idx int, rng *vf.RNG, nRounds int) {
	s, done := openChain(r, fmt.Sprintf("refund%d", idx), uint32(2000000000+idx*100000), rng)
	if s == nil {
		return
	}
	defer done()
	s.rf = &rfWorld{}
	// block 2: the contracts.  The factories start with a small balance of their own.
	type dep struct {
		code  []byte
		value int64
		into  *ethcom.Address
		what  string
	}
	deps := []dep{{storeRuntime(), 0, &s.rf.stores[0], "store0"}, {storeRuntime(), 0, &s.rf.stores[1], "store1"},
		{multiRuntime(), 40, &s.rf.multis[0], "multi0"}, {multiRuntime(), 0, &s.rf.multis[1], "multi1"}}
	ok := s.block(len(deps), func(cur *obs) *txCase {
		d := deps[0]
		deps = deps[1:]
		t := &txCase{Kind: "deploy", From: 0, Value: new(big.Int).Mul(big.NewInt(d.value), gwei), GasLimit: 1500000, GasGwei: 2500, Nonce: cur.acct[s.eo[0].Addr].Nonce, NonceMode: "ok",
			Data: evmasm.Deployer(d.code), Tags: []string{"refund-history", "deploy " + d.what}, Rf: &rfInfo{Step: "deploy", History: d.what, GasMode: "fixed", PriceMode: "2500"}}
		t.After = func(a *applied, pre, post *obs) {
			if a.res.Err == nil && post.acct[a.receipt.ContractAddress].CodeHash != (ethcom.Hash{}) {
				*d.into = a.receipt.ContractAddress
			}
		}
		return t
	})
	if !ok {
		return
	}
	for _, a := range append(s.rf.stores[:], s.rf.multis[:]...) {
		if a == (ethcom.Address{}) {
			r.Inconclusive("refund chain: a contract of the workload could not be deployed")
			return
		}
	}
	for round := 0; round < nRounds; round++ {
		rr := rng.Sub(uint64(1000 + round))
		p, scripted := scriptedPlan(round)
		if !scripted {
			p = randomPlan(rr)
		}
		for _, gens := range s.round(rr, p) {
			q := gens
			if !s.block(len(q), func(cur *obs) *txCase {
				g := q[0]
				q = q[1:]
				return g(cur)
			}) {
				return
			}
		}
		r.Count("refund/history")
		r.Count("refund/history-" + p.Kind)
		if round%6 == 5 { // refill of the scarce accounts (chain furniture, not judged)
			var ts []*types.Transaction
			for _, i := range []int{2, 3} {
				t, err := s.tb.TransferTx("ong", bk, s.eo[i].OntAddr(), 50000000+uint64(rr.Intn(400000000)), 0, 20000)
				if err != nil {
					panic(err)
				}
				ts = append(ts, t)
			}
			if !s.commitFurniture(ts) {
				return
			}
		}
	}
}
