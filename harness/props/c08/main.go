// C08 — EVM snapshot revert restores exactly the observable state.
//
// Model-free oracle: an observation vector over a fixed universe (6 addresses x 4 storage
// slots) is read through the StateDB getters (GetState, GetCommittedState, GetNonce,
// GetCode/GetCodeHash/GetCodeSize, GetBalance, HasSuicided, Exist, Empty, GetRefund, GetLogs
// deep-copied).  The workload keeps its own stack of (snapshot id, vector):
//
//	Snapshot()            must not change the vector;
//	RevertToSnapshot(id)  the vector must equal the one stored when id was taken;
//	DiscardSnapshot(id)   the vector must be unchanged, and older snapshots must still
//	                      revert correctly afterwards (checked by the later reverts and by
//	                      the final unwinding of every history);
//	no getter or mutator may panic or set the database error.
//
// Histories are random interleavings of the mutators with nested snapshots on a real
// StateDB over CacheDB / OverlayDB / in-memory leveldb with the real ONG balance handle.
package main

import (
	"bytes"
	"fmt"
	"math/big"
	"strings"
	"sync"

	ethcomm "github.com/ethereum/go-ethereum/common"
	"github.com/ontio/ontology/core/store/leveldbstore"
	"github.com/ontio/ontology/core/store/overlaydb"
	"github.com/ontio/ontology/core/types"
	"github.com/ontio/ontology/smartcontract/service/native/ong"
	"github.com/ontio/ontology/smartcontract/storage"
	"verifharness/lib/vf"
)

const (
	nAddr    = 6
	nSlot    = 4
	maxDepth = 12
)

var (
	addrs [nAddr]ethcomm.Address
	slots [nSlot]ethcomm.Hash
)

func init() {
	for i := range addrs {
		for j := range addrs[i] {
			addrs[i][j] = byte(0xA0 + i)
		}
		addrs[i][19] = byte(i + 1)
	}
	for i := range slots {
		slots[i][31] = byte(i)
		slots[i][0] = byte(0x10 * i)
	}
}

// ---------------------------------------------------------------- observation vector

type acct struct {
	nonce     uint64
	codeHash  ethcomm.Hash
	code      []byte
	codeSize  int
	balance   string
	suicided  bool
	exist     bool
	empty     bool
	state     [nSlot]ethcomm.Hash
	committed [nSlot]ethcomm.Hash
}

type vector struct {
	accts  [nAddr]acct
	refund uint64
	logs   []string
	dbErr  string
}

func observe(sd *storage.StateDB) (v *vector, panicked interface{}) {
	v = &vector{}
	panicked = vf.Catch(func() {
		for i, a := range addrs {
			ac := &v.accts[i]
			ac.nonce = sd.GetNonce(a)
			ac.codeHash = sd.GetCodeHash(a)
			ac.code = append([]byte{}, sd.GetCode(a)...)
			ac.codeSize = sd.GetCodeSize(a)
			ac.balance = sd.GetBalance(a).String()
			ac.suicided = sd.HasSuicided(a)
			ac.exist = sd.Exist(a)
			ac.empty = sd.Empty(a)
			for j, s := range slots {
				ac.state[j] = sd.GetState(a, s)
				ac.committed[j] = sd.GetCommittedState(a, s)
			}
		}
		v.refund = sd.GetRefund()
		for _, l := range sd.GetLogs() {
			if l == nil {
				v.logs = append(v.logs, "<nil>")
				continue
			}
			var sb strings.Builder
			fmt.Fprintf(&sb, "%x|", l.Address[:])
			for _, t := range l.Topics {
				fmt.Fprintf(&sb, "%x,", t[:])
			}
			fmt.Fprintf(&sb, "|%x", l.Data)
			v.logs = append(v.logs, sb.String())
		}
		if err := sd.DbErr(); err != nil {
			v.dbErr = err.Error()
		}
	})
	return
}

// diff returns the first differing field class and a description ("" when equal).
func diff(want, got *vector) (field, desc string) {
	for i := range want.accts {
		w, g := &want.accts[i], &got.accts[i]
		switch {
		case w.nonce != g.nonce:
			return "nonce", fmt.Sprintf("addr%d nonce %d, expected %d", i, g.nonce, w.nonce)
		case w.codeHash != g.codeHash:
			return "codehash", fmt.Sprintf("addr%d code hash %x, expected %x", i, g.codeHash, w.codeHash)
		case !bytes.Equal(w.code, g.code):
			return "code", fmt.Sprintf("addr%d code %x, expected %x", i, g.code, w.code)
		case w.codeSize != g.codeSize:
			return "codesize", fmt.Sprintf("addr%d code size %d, expected %d", i, g.codeSize, w.codeSize)
		case w.balance != g.balance:
			return "balance", fmt.Sprintf("addr%d balance %s, expected %s", i, g.balance, w.balance)
		case w.suicided != g.suicided:
			return "suicided", fmt.Sprintf("addr%d HasSuicided %v, expected %v", i, g.suicided, w.suicided)
		case w.exist != g.exist:
			return "exist", fmt.Sprintf("addr%d Exist %v, expected %v", i, g.exist, w.exist)
		case w.empty != g.empty:
			return "empty", fmt.Sprintf("addr%d Empty %v, expected %v", i, g.empty, w.empty)
		}
		for j := range w.state {
			if w.state[j] != g.state[j] {
				return "storage", fmt.Sprintf("addr%d slot%d = %x, expected %x", i, j, g.state[j], w.state[j])
			}
			if w.committed[j] != g.committed[j] {
				return "committed-storage", fmt.Sprintf("addr%d slot%d committed = %x, expected %x", i, j, g.committed[j], w.committed[j])
			}
		}
	}
	if want.refund != got.refund {
		return "refund", fmt.Sprintf("refund %d, expected %d", got.refund, want.refund)
	}
	if len(want.logs) != len(got.logs) {
		return "logs-length", fmt.Sprintf("%d logs, expected %d", len(got.logs), len(want.logs))
	}
	for i := range want.logs {
		if want.logs[i] != got.logs[i] {
			return "logs-content", fmt.Sprintf("log %d = %s, expected %s", i, got.logs[i], want.logs[i])
		}
	}
	if want.dbErr != got.dbErr {
		return "dberr", fmt.Sprintf("db error %q, expected %q", got.dbErr, want.dbErr)
	}
	return "", ""
}

// changed lists every field class that differs between two vectors (coverage accounting).
func changed(a, b *vector) map[string]bool {
	m := map[string]bool{}
	for i := range a.accts {
		x, y := &a.accts[i], &b.accts[i]
		if x.nonce != y.nonce {
			m["nonce"] = true
		}
		if x.codeHash != y.codeHash || !bytes.Equal(x.code, y.code) {
			m["code"] = true
		}
		if x.balance != y.balance {
			m["balance"] = true
		}
		if x.suicided != y.suicided {
			m["suicided"] = true
		}
		if x.exist != y.exist || x.empty != y.empty {
			m["exist-empty"] = true
		}
		if x.state != y.state {
			m["storage"] = true
		}
	}
	if a.refund != b.refund {
		m["refund"] = true
	}
	if len(a.logs) != len(b.logs) {
		m["logs"] = true
	}
	return m
}

// ---------------------------------------------------------------- history

type frame struct {
	id  int
	vec *vector
	at  int // op index at which the snapshot was taken
}

type local struct {
	counts map[string]int64
}

func (l *local) c(s string) { l.counts[s]++ }

var (
	keyMu     sync.Mutex
	keyCounts = map[string]int{}
)

func violation(r *vf.Run, key, what string, witness interface{}) {
	keyMu.Lock()
	keyCounts[key]++
	keyMu.Unlock()
	r.Violation(key, what, witness)
}

var emptyStore = leveldbstore.NewMemLevelDBStore() // never written

var maxBalance, _ = new(big.Int).SetString("1000000000000000000000000000", 10) // 10^27 = ONG total supply in wei

func randAmount(rng *vf.RNG) *big.Int {
	switch rng.Intn(4) {
	case 0:
		return big.NewInt(int64(rng.Intn(1000))) // below 10^9: "float" storage version
	case 1:
		return new(big.Int).Mul(big.NewInt(int64(1+rng.Intn(1000))), big.NewInt(1000000000)) // whole 10^9 units: legacy uint64 storage version
	case 2:
		return new(big.Int).SetUint64(rng.U64() >> uint(rng.Intn(40)))
	default:
		v := new(big.Int).SetBytes(rng.Bytes(11)) // up to 2^88 ~ 3*10^26
		return v
	}
}

func runHistory(r *vf.Run, l *local, hidx int, rng *vf.RNG) {
	var ops []string
	logf := func(f string, a ...interface{}) { ops = append(ops, fmt.Sprintf(f, a...)) }
	wit := func(extra map[string]interface{}) map[string]interface{} {
		w := map[string]interface{}{"history": hidx, "ops": append([]string{}, ops...)}
		for k, v := range extra {
			w[k] = v
		}
		return w
	}

	// -- real stack: in-memory leveldb <- OverlayDB <- CacheDB <- StateDB
	// prep: 0 empty backend | 1,2 committed state in the overlay | 3 committed state in leveldb.
	// Opening a leveldb store allocates its 4 MiB write buffer, so only the histories that
	// write to leveldb get a store of their own; the others share one that stays empty.
	prep := []int{0, 1, 1, 1, 2, 2, 2, 2, 3, 1}[rng.Intn(10)]
	store := emptyStore
	if prep == 3 {
		store = leveldbstore.NewMemLevelDBStore()
		defer store.Close()
	}
	overlay := overlaydb.NewOverlayDB(store)
	cache := storage.NewCacheDB(overlay)
	var thash, bhash ethcomm.Hash
	copy(thash[:], rng.Bytes(32))
	copy(bhash[:], rng.Bytes(32))
	sd := storage.NewStateDB(cache, thash, bhash, ong.OngBalanceHandle{})

	// -- pre-populate the backend (committed state), then optionally push it down to leveldb
	if p := vf.Catch(func() {
		if prep > 0 {
			for i := 0; i < nAddr; i++ {
				if rng.Chance(55) {
					sd.SetNonce(addrs[i], uint64(1+rng.Intn(1000)))
					logf("pre SetNonce(addr%d)", i)
				}
				if rng.Chance(45) {
					code := rng.Bytes(1 + rng.Intn(48))
					sd.SetCode(addrs[i], code)
					logf("pre SetCode(addr%d,%x)", i, code)
				}
				if rng.Chance(55) {
					amt := randAmount(rng)
					sd.AddBalance(addrs[i], amt)
					logf("pre AddBalance(addr%d,%s)", i, amt)
				}
				for j := 0; j < nSlot; j++ {
					if rng.Chance(40) {
						var v ethcomm.Hash
						copy(v[:], rng.Bytes(32))
						sd.SetState(addrs[i], slots[j], v)
						logf("pre SetState(addr%d,slot%d,%x)", i, j, v[:4])
					}
				}
			}
			if err := sd.Commit(); err != nil {
				panic(err)
			}
			logf("pre Commit")
			if prep == 3 { // committed state lives in leveldb, under an empty overlay
				store.NewBatch()
				overlay.CommitTo()
				if err := store.BatchCommit(); err != nil {
					panic(err)
				}
				overlay = overlaydb.NewOverlayDB(store)
				logf("pre overlay.CommitTo + fresh overlay")
			}
			// the transaction under test runs on a fresh CacheDB/StateDB over that backend
			cache = storage.NewCacheDB(overlay)
			sd = storage.NewStateDB(cache, thash, bhash, ong.OngBalanceHandle{})
		}
	}); p != nil {
		violation(r, "panic:prepopulate", fmt.Sprint(p), wit(nil))
		return
	}

	var stack []frame
	nops := 10 + rng.Intn(71)
	nontrivial := false
	maxNest := 0
	var refund uint64 // harness' own copy only to keep SubRefund <= refund (the EVM guarantees it)
	failed := false
	deepHistory := rng.Chance(15)

	check := func(kind string, want *vector, depthClass string, extra map[string]interface{}) bool {
		got, p := observe(sd)
		if p != nil {
			violation(r, "panic:getter:after-"+kind, fmt.Sprint(p), wit(extra))
			return false
		}
		if got.dbErr != "" && want.dbErr == "" {
			violation(r, "dberr:after-"+kind, "database error set: "+got.dbErr, wit(extra))
			return false
		}
		if f, d := diff(want, got); f != "" {
			e := map[string]interface{}{"difference": d}
			for k, v := range extra {
				e[k] = v
			}
			violation(r, fmt.Sprintf("%s:%s:%s", kind, f, depthClass), kind+": "+d, wit(e))
			return false
		}
		return true
	}

	doRevert := func(k int, src string) bool {
		fr := stack[k]
		depthClass := "top"
		if k < len(stack)-1 {
			depthClass = "below-top"
		}
		before, p := observe(sd)
		if p != nil {
			violation(r, "panic:getter", fmt.Sprint(p), wit(nil))
			return false
		}
		logf("RevertToSnapshot(%d) [taken at op %d, stack index %d of %d]%s", fr.id, fr.at, k, len(stack), src)
		if p := vf.Catch(func() { sd.RevertToSnapshot(fr.id) }); p != nil {
			violation(r, "panic:RevertToSnapshot:"+depthClass, fmt.Sprint(p), wit(nil))
			return false
		}
		stack = stack[:k]
		ch := changed(before, fr.vec)
		for f := range ch {
			l.c("revert_restores_" + f)
		}
		if len(ch) > 0 {
			nontrivial = true
			l.c("revert_nontrivial")
		} else {
			l.c("revert_noop")
		}
		l.c("revert_" + depthClass)
		return check("revert", fr.vec, depthClass, map[string]interface{}{"snapshot_id": fr.id, "snapshot_taken_at_op": fr.at})
	}

	for n := 0; n < nops && !failed; n++ {
		a := rng.Intn(nAddr)
		var p interface{}
		c := rng.Intn(100)
		if deepHistory && c >= 82 && rng.Chance(65) {
			c = 70 // nesting-heavy history: most reverts/discards become further snapshots
		}
		switch {
		case c < 14:
			s := rng.Intn(nSlot)
			var v ethcomm.Hash
			if !rng.Chance(15) { // 15%: write the zero value
				copy(v[:], rng.Bytes(32))
			}
			logf("SetState(addr%d,slot%d,%x)", a, s, v[:])
			p = vf.Catch(func() { sd.SetState(addrs[a], slots[s], v) })
			l.c("op_SetState")
		case c < 22:
			nn := uint64(rng.Intn(5000))
			logf("SetNonce(addr%d,%d)", a, nn)
			p = vf.Catch(func() { sd.SetNonce(addrs[a], nn) })
			l.c("op_SetNonce")
		case c < 29:
			code := rng.Bytes(rng.Intn(64))
			logf("SetCode(addr%d,%x)", a, code)
			p = vf.Catch(func() { sd.SetCode(addrs[a], code) })
			l.c("op_SetCode")
		case c < 37:
			amt := randAmount(rng)
			var bal *big.Int
			p = vf.Catch(func() { bal = sd.GetBalance(addrs[a]) })
			if p == nil && new(big.Int).Add(bal, amt).Cmp(maxBalance) <= 0 {
				logf("AddBalance(addr%d,%s)", a, amt)
				p = vf.Catch(func() { sd.AddBalance(addrs[a], amt) })
				l.c("op_AddBalance")
			}
		case c < 44:
			var bal *big.Int
			p = vf.Catch(func() { bal = sd.GetBalance(addrs[a]) })
			if p == nil && bal.Sign() > 0 {
				amt := new(big.Int).Set(bal)
				if !rng.Chance(25) { // 25%: the whole balance (key gets deleted)
					amt.Mod(new(big.Int).SetBytes(rng.Bytes(12)), bal)
				}
				logf("SubBalance(addr%d,%s)", a, amt)
				p = vf.Catch(func() { sd.SubBalance(addrs[a], amt) })
				l.c("op_SubBalance")
			}
		case c < 49:
			var ok bool
			p = vf.Catch(func() { ok = sd.Suicide(addrs[a]) })
			logf("Suicide(addr%d)=%v", a, ok)
			if ok {
				l.c("op_Suicide_effective")
			} else {
				l.c("op_Suicide_on_empty_account")
			}
		case c < 57:
			lg := &types.StorageLog{Address: addrs[a], Data: rng.Bytes(rng.Intn(40))}
			for t := rng.Intn(4); t > 0; t-- {
				var h ethcomm.Hash
				copy(h[:], rng.Bytes(32))
				lg.Topics = append(lg.Topics, h)
			}
			logf("AddLog(addr%d,%d topics,%x)", a, len(lg.Topics), lg.Data)
			p = vf.Catch(func() { sd.AddLog(lg) })
			l.c("op_AddLog")
		case c < 62:
			g := uint64(rng.Intn(50000))
			logf("AddRefund(%d)", g)
			p = vf.Catch(func() { sd.AddRefund(g) })
			refund += g
			l.c("op_AddRefund")
		case c < 66:
			if refund > 0 {
				g := rng.U64() % (refund + 1)
				logf("SubRefund(%d)", g)
				p = vf.Catch(func() { sd.SubRefund(g) })
				refund -= g
				l.c("op_SubRefund")
			}
		case c < 82: // Snapshot
			if len(stack) >= maxDepth {
				continue
			}
			before, pp := observe(sd)
			if pp != nil {
				p = pp
				break
			}
			var id int
			p = vf.Catch(func() { id = sd.Snapshot() })
			if p != nil {
				break
			}
			logf("Snapshot()=%d", id)
			l.c("op_Snapshot")
			if !check("snapshot-changed-state", before, "n/a", nil) {
				failed = true
				break
			}
			stack = append(stack, frame{id: id, vec: before, at: len(ops) - 1})
			if len(stack) > maxNest {
				maxNest = len(stack)
			}
		case c < 92: // Revert: mostly the innermost snapshot (what evm.Call does), sometimes an outer one
			if len(stack) == 0 {
				continue
			}
			k := len(stack) - 1
			if rng.Chance(22) {
				k = rng.Intn(len(stack))
			}
			if !doRevert(k, "") {
				failed = true
			} else {
				refund = 0
				if v, pp := observe(sd); pp == nil {
					refund = v.refund
				}
			}
		default: // Discard the innermost snapshot (successful call)
			if len(stack) == 0 {
				continue
			}
			fr := stack[len(stack)-1]
			before, pp := observe(sd)
			if pp != nil {
				p = pp
				break
			}
			logf("DiscardSnapshot(%d)", fr.id)
			p = vf.Catch(func() { sd.DiscardSnapshot(fr.id) })
			if p != nil {
				break
			}
			stack = stack[:len(stack)-1]
			l.c("op_Discard")
			if len(stack) > 0 {
				l.c("discard_with_outer_snapshots_left")
			}
			if !check("discard", before, "top", map[string]interface{}{"snapshot_id": fr.id}) {
				failed = true
			}
		}
		if p != nil {
			violation(r, "panic:mutator:"+strings.SplitN(ops[len(ops)-1], "(", 2)[0], fmt.Sprint(p), wit(nil))
			failed = true
		}
	}
	// -- unwind: every snapshot still open must revert correctly, innermost first or straight to
	// an outer one (older snapshots must have survived everything done since)
	for !failed && len(stack) > 0 {
		k := len(stack) - 1
		if rng.Chance(30) {
			k = rng.Intn(len(stack))
		}
		l.c("unwind_revert")
		if !doRevert(k, " (final unwinding)") {
			failed = true
		}
	}
	if !failed {
		if v, p := observe(sd); p != nil {
			violation(r, "panic:getter:final", fmt.Sprint(p), wit(nil))
		} else if v.dbErr != "" {
			violation(r, "dberr:final", "database error set: "+v.dbErr, wit(nil))
		}
	}
	if maxNest >= 4 {
		l.c("history_nesting_ge4")
	}
	if maxNest >= 8 {
		l.c("history_nesting_ge8")
	}
	if maxNest >= maxDepth {
		l.c("history_nesting_max")
	}
	if prep > 0 {
		l.c("history_with_committed_backend")
	}
	fp := ""
	if nontrivial {
		h := uint64(14695981039346656037)
		for _, o := range ops {
			for i := 0; i < len(o); i++ {
				h ^= uint64(o[i])
				h *= 1099511628211
			}
		}
		fp = fmt.Sprintf("%016x", h)
	}
	r.Eval(fp)
	if hidx < 2 {
		show := ops
		if len(show) > 40 {
			show = show[:40]
		}
		r.Sample(map[string]interface{}{"history": hidx, "ops_prefix": show, "max_nesting": maxNest})
	}
}

func main() {
	r := vf.NewRun("C08", "exploration",
		"histories of 10-80 operations (SetState/SetNonce/SetCode/Add-/SubBalance/Suicide/AddLog/AddRefund/SubRefund/Snapshot/Revert/Discard, nesting <= 12, revert mostly of the innermost and sometimes of an outer snapshot, discard of the innermost) on a fresh StateDB whose backend is pre-populated in 9 of 10 histories (committed state in the overlay, 1 of 10 in leveldb), followed by unwinding all open snapshots; a history is non-trivial when at least one revert had something to restore; distinct by operation sequence")
	rng := vf.NewRNG(vf.Seed())
	nh := vf.N(4000, 100000)
	const chunk = 50
	nch := (nh + chunk - 1) / chunk
	vf.Parallel(nch, 8, func(ci int) {
		l := &local{counts: map[string]int64{}}
		for h := ci * chunk; h < (ci+1)*chunk && h < nh; h++ {
			runHistory(r, l, h, rng.Sub(uint64(h)))
		}
		for k, v := range l.counts {
			r.Add(k, v)
		}
	})
	for _, c := range []string{"op_SetState", "op_SetNonce", "op_SetCode", "op_AddBalance", "op_SubBalance", "op_Suicide_effective", "op_AddLog",
		"op_AddRefund", "op_SubRefund", "op_Snapshot", "op_Discard", "discard_with_outer_snapshots_left",
		"revert_top", "revert_below-top", "revert_nontrivial", "unwind_revert",
		"revert_restores_storage", "revert_restores_nonce", "revert_restores_code", "revert_restores_balance", "revert_restores_suicided",
		"revert_restores_exist-empty", "revert_restores_refund", "revert_restores_logs",
		"history_nesting_ge4", "history_nesting_ge8", "history_nesting_max", "history_with_committed_backend"} {
		r.Require(c, 20)
	}
	if len(keyCounts) > 0 {
		r.Extra("violation_keys", keyCounts)
	}
	r.Assume("snapshot ids are used the way evm.Call/Create use them: only ids currently open; discard only of the innermost snapshot; SubRefund never exceeds the refund counter; SubBalance never exceeds the balance; balances stay below the ONG total supply (10^27)")
	r.Assume("observable state = the StateDB getters over a universe of 6 addresses x 4 slots (all mutations stay inside it)")
	r.Finish()
}
