// C09 — ONG issuance is interval-additive and totals exactly the ONG supply.
// Oracle: algebraic laws evaluated on the real CalcUnbindOng / CalcGovernanceUnbindOng.
package main

import (
	"fmt"
	"sort"

	"github.com/ontio/ontology/common/config"
	"github.com/ontio/ontology/common/constants"
	nutils "github.com/ontio/ontology/smartcontract/service/native/utils"
	"verifharness/lib/vf"
)

type fn struct {
	name string
	f    func(s, e uint32) uint64
}

func main() {
	r := vf.NewRun("C09", "exploration",
		"triples s<=m<=e of 32-bit offsets: all triples of a boundary grid (interval edges, holder/governance deadlines ±2, 0, 2^32-1) per network id, plus seeded random triples; a case is non-trivial when F(s,e)>0; distinct by (network, function, s, m, e)")
	rng := vf.NewRNG(vf.Seed())
	nets := []struct {
		name string
		id   uint32
	}{{"main", config.NETWORK_ID_MAIN_NET}, {"polaris", config.NETWORK_ID_POLARIS_NET}, {"solo", config.NETWORK_ID_SOLO_NET}, {"custom", 77}}

	for _, net := range nets {
		config.DefConfig.P2PNode.NetworkId = net.id
		hd := config.GetOntHolderUnboundDeadline()
		var gd uint32
		var gap uint64
		if p := vf.Catch(func() { gd, gap = config.GetGovUnboundDeadline() }); p != nil {
			r.Violation("panic:GetGovUnboundDeadline:"+net.name, fmt.Sprint(p), nil)
			continue
		}
		r.Extra("deadlines_"+net.name, map[string]uint64{"holder": uint64(hd), "gov": uint64(gd), "gap": gap})
		fns := []fn{
			{"holder*1", func(s, e uint32) uint64 { return nutils.CalcUnbindOng(1, s, e) }},
			{"holder*7", func(s, e uint32) uint64 { return nutils.CalcUnbindOng(7, s, e) }},
			{"holder*total", func(s, e uint32) uint64 { return nutils.CalcUnbindOng(constants.ONT_TOTAL_SUPPLY, s, e) }},
			{"gov", nutils.CalcGovernanceUnbindOng},
		}
		// boundary grid
		gs := map[uint32]bool{0: true, 1: true, 2: true, ^uint32(0): true, ^uint32(0) - 1: true}
		I := constants.UNBOUND_TIME_INTERVAL
		for k := uint32(0); k <= 19; k++ {
			for _, d := range []int64{-1, 0, 1} {
				v := int64(k)*int64(I) + d
				if v >= 0 && v <= int64(^uint32(0)) {
					gs[uint32(v)] = true
				}
			}
		}
		for _, c := range []uint32{hd, gd} {
			for d := int64(-2); d <= 2; d++ {
				v := int64(c) + d
				if v >= 0 && v <= int64(^uint32(0)) {
					gs[uint32(v)] = true
				}
			}
		}
		grid := make([]uint32, 0, len(gs))
		for v := range gs {
			grid = append(grid, v)
		}
		sort.Slice(grid, func(i, j int) bool { return grid[i] < grid[j] })
		r.Extra("grid_size_"+net.name, len(grid))

		check := func(f fn, s, m, e uint32, src string) {
			var whole, a, b uint64
			if p := vf.Catch(func() { whole = f.f(s, e); a = f.f(s, m); b = f.f(m, e) }); p != nil {
				r.Violation(fmt.Sprintf("panic:%s:%s", net.name, f.name), fmt.Sprint(p), map[string]interface{}{"net": net.name, "fn": f.name, "s": s, "m": m, "e": e})
				return
			}
			fp := ""
			if whole > 0 {
				fp = fmt.Sprintf("%s/%s/%d/%d/%d", net.name, f.name, s, m, e)
			}
			r.Eval(fp)
			if m == hd {
				r.Count("split_at_holder_deadline")
			}
			if m == gd {
				r.Count("split_at_gov_deadline")
			}
			if m%I == 0 && m > 0 {
				r.Count("split_at_interval_edge")
			}
			if whole != a+b {
				// structural key: which function, on which network, and where the split sits relative to the deadlines
				pos := "other"
				switch {
				case m == gd:
					pos = "m=govDeadline"
				case m == hd:
					pos = "m=holderDeadline"
				case m%I == 0:
					pos = "m=intervalEdge"
				}
				key := fmt.Sprintf("additivity:%s:%s:%s", net.name, f.name, pos)
				r.Violation(key, fmt.Sprintf("F(%d,%d)=%d but F(%d,%d)+F(%d,%d)=%d+%d (%s)", s, e, whole, s, m, m, e, a, b, src),
					map[string]interface{}{"net": net.name, "fn": f.name, "s": s, "m": m, "e": e, "whole": whole, "left": a, "right": b})
			}
			if a > whole || b > whole {
				r.Violation(fmt.Sprintf("monotone:%s:%s", net.name, f.name), "part larger than whole", map[string]interface{}{"s": s, "m": m, "e": e, "whole": whole, "left": a, "right": b})
			}
		}
		for _, f := range fns {
			for i := 0; i < len(grid); i++ {
				if z := f.f(grid[i], grid[i]); z != 0 {
					r.Violation("empty-interval:"+net.name+":"+f.name, "F(s,s)!=0", map[string]interface{}{"s": grid[i], "v": z})
				}
				for j := i; j < len(grid); j++ {
					for k := j; k < len(grid); k++ {
						check(f, grid[i], grid[j], grid[k], "grid")
					}
				}
			}
			nr := vf.N(25000, 2500000)
			sub := rng.Sub(uint64(net.id)*16 + uint64(len(f.name)))
			for n := 0; n < nr; n++ {
				var t [3]uint32
				for q := range t {
					switch sub.Intn(4) {
					case 0:
						t[q] = uint32(sub.U64())
					case 1:
						t[q] = uint32(sub.U64() % (20 * uint64(I)))
					case 2:
						t[q] = grid[sub.Intn(len(grid))]
					default: // near a grid point
						t[q] = grid[sub.Intn(len(grid))] + uint32(sub.Intn(2000)) - 1000
					}
				}
				sort.Slice(t[:], func(a, b int) bool { return t[a] < t[b] })
				check(f, t[0], t[1], t[2], "random")
			}
		}
		// totals: everything ever released = ONG total supply
		for _, end := range []uint32{^uint32(0), gd + 1, gd + 2, 18 * I, 19 * I, gd + 1000000} {
			if end <= gd {
				continue
			}
			var h, g uint64
			if p := vf.Catch(func() { h = nutils.CalcUnbindOng(constants.ONT_TOTAL_SUPPLY, 0, end); g = nutils.CalcGovernanceUnbindOng(0, end) }); p != nil {
				r.Violation("panic:total:"+net.name, fmt.Sprint(p), map[string]interface{}{"end": end})
				continue
			}
			r.Eval(fmt.Sprintf("total/%s/%d", net.name, end))
			r.Count("total_checked")
			if h+g != constants.ONG_TOTAL_SUPPLY {
				r.Violation("total:"+net.name, fmt.Sprintf("holder %d + gov %d != %d at end=%d", h, g, uint64(constants.ONG_TOTAL_SUPPLY), end),
					map[string]interface{}{"net": net.name, "end": end, "holder": h, "gov": g})
			}
			// the same total must be reached through any settlement split (governance settles at arbitrary times)
			sub := rng.Sub(uint64(end) ^ uint64(net.id))
			for n := 0; n < 200; n++ {
				cuts := []uint32{0}
				for c := 0; c < 1+sub.Intn(6); c++ {
					switch sub.Intn(3) {
					case 0:
						cuts = append(cuts, uint32(sub.U64()%uint64(end)))
					case 1:
						cuts = append(cuts, grid[sub.Intn(len(grid))])
					default:
						cuts = append(cuts, gd+uint32(sub.Intn(5))-2)
					}
				}
				cuts = append(cuts, end)
				sort.Slice(cuts, func(a, b int) bool { return cuts[a] < cuts[b] })
				var sh, sg uint64
				for c := 0; c+1 < len(cuts); c++ {
					if cuts[c+1] > end {
						break
					}
					sh += nutils.CalcUnbindOng(constants.ONT_TOTAL_SUPPLY, cuts[c], cuts[c+1])
					sg += nutils.CalcGovernanceUnbindOng(cuts[c], cuts[c+1])
				}
				r.Eval(fmt.Sprintf("totalsplit/%s/%d/%v", net.name, end, cuts))
				if sh+sg != constants.ONG_TOTAL_SUPPLY {
					hasGD := false
					for _, c := range cuts {
						if c == gd {
							hasGD = true
						}
					}
					key := "totalsplit:" + net.name
					if hasGD {
						key += ":cut=govDeadline"
					}
					r.Violation(key, fmt.Sprintf("piecewise total %d != %d", sh+sg, uint64(constants.ONG_TOTAL_SUPPLY)), map[string]interface{}{"net": net.name, "cuts": cuts, "holder": sh, "gov": sg})
				}
			}
		}
		r.Sample(map[string]interface{}{"net": net.name, "holderDeadline": hd, "govDeadline": gd, "gap": gap, "example": []uint32{grid[3], grid[len(grid)/2], grid[len(grid)-2]}})
	}
	r.Require("split_at_gov_deadline", 100)
	r.Require("split_at_interval_edge", 100)
	r.Require("total_checked", 4)
	r.Assume("32-bit offsets; ONT balance factor limited to {1,7,total supply} (the function is linear in balance)")
	r.Finish()
}
