package main

import (
	"fmt"
	"os"

	"github.com/ontio/ontology/core/types"
	gov "github.com/ontio/ontology/smartcontract/service/native/governance"
	ninit "github.com/ontio/ontology/smartcontract/service/native/init"
	cutils "github.com/ontio/ontology/core/utils"
	"verifharness/lib/chain"
	"verifharness/lib/govdrv"
	"verifharness/lib/vf"
)

func main() {
	dir := vf.Scratch("c10probe")
	defer os.RemoveAll(dir)
	w := govdrv.NewWorld("probe", 7, 0)
	if err := w.Boot(dir + "/w0"); err != nil {
		fmt.Println("boot:", err)
		return
	}
	fmt.Println("snapshot keys", len(w.Snapshot), "boot height", w.BootHeight)
	e := govdrv.NewVEngine(w)
	s := govdrv.ReadState(e.View())
	tot, pen := s.SumStake()
	fmt.Printf("view=%d ont(gov)=%d sumStake=%d pen=%d ong(gov)=%d errs=%v pools=%d\n", s.View, s.OntGov, tot, pen, s.OngGov, s.DecodeErrs, len(s.Pool()))
	tb := chain.NewTxBuilder(5000)
	h, ts := uint32(414200), w.BootTime+100
	run := func(name string, method string, params []interface{}, signers ...*govdrv.Actor) {
		mt, err := tb.Native(0, 2000000, govdrv.GovAddr, method, params)
		if err != nil {
			fmt.Println(name, "build:", err)
			return
		}
		for _, a := range signers {
			if err := chain.Sign(mt, a.Acc); err != nil {
				panic(err)
			}
		}
		h++
		ts += 50
		r := e.Exec(chain.Immutable(mt), h, ts)
		s := govdrv.ReadState(e.View())
		tot, pen := s.SumStake()
		fmt.Printf("%-22s ok=%v err=%.150s | view=%d ont=%d stake=%d pen=%d ong=%d splitFee=%d feeAddr=%d\n", name, r.OK, r.Err, s.View, s.OntGov, tot, pen, s.OngGov, s.SplitFee, len(s.FeeAddr))
	}
	o0, s0 := w.Owners[0], w.Stakers[0]
	run("register", gov.REGISTER_CANDIDATE, []interface{}{&gov.RegisterCandidateParam{PeerPubkey: w.Nodes[7].PK, Address: o0.Addr(), InitPos: 20000, Caller: []byte("did:ont:x"), KeyNo: 1}}, o0)
	run("changeMax", gov.CHANGE_MAX_AUTHORIZATION, []interface{}{&gov.ChangeMaxAuthorizationParam{PeerPubkey: w.Nodes[0].PK, Address: o0.Addr(), MaxAuthorize: 1000000}}, o0)
	run("authorize", gov.AUTHORIZE_FOR_PEER, []interface{}{&gov.AuthorizeForPeerParam{Address: s0.Addr(), PeerPubkeyList: []string{w.Nodes[0].PK}, PosList: []uint32{5000}}}, s0)
	run("setFeePct", gov.SET_FEE_PERCENTAGE, []interface{}{&gov.SetFeePercentageParam{PeerPubkey: w.Nodes[0].PK, Address: o0.Addr(), PeerCost: 30, StakeCost: 10}}, o0)
	for i := 0; i < 9; i++ {
		run(fmt.Sprintf("commit-admin-%d", i), gov.COMMIT_DPOS, []interface{}{}, w.BK)
	}
	// consensus style system tx
	mt := cutils.BuildNativeTransaction(govdrv.GovAddr, gov.COMMIT_DPOS, []byte{})
	mt.Nonce = 77
	tx, _ := mt.IntoImmutable()
	fmt.Println("sys code len", len(ninit.COMMIT_DPOS_BYTES))
	h += 100
	r := e.Exec(tx, h, ts+1000)
	fmt.Println("sys commit:", r.OK, r.Err)
	run("withdrawFee", gov.WITHDRAW_FEE, []interface{}{&gov.WithdrawFeeParam{Address: s0.Addr()}}, s0)
	run("unauth", gov.UNAUTHORIZE_FOR_PEER, []interface{}{&gov.AuthorizeForPeerParam{Address: s0.Addr(), PeerPubkeyList: []string{w.Nodes[0].PK}, PosList: []uint32{5000}}}, s0)
	var _ = types.Transaction{}
}
