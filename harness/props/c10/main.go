// C10 — Governance fee split never distributes more than it is splitting.
// Invariant monitor around every epoch settlement of real governance histories
// (driver, generator and oracle in lib/govdrv).
package main

import (
	"verifharness/lib/govdrv"
	"verifharness/lib/vf"
)

func main() {
	r := vf.NewRun("C10", "exploration", govdrv.Rule)
	govdrv.Run(r, govdrv.Cfg{Prop: "C10", Worlds: vf.N(6, 12), Hist: vf.N(120, 1300), Len: 100, AgreeLen: vf.N(70, 200), SampleOps: 12})
	r.Finish()
}
