// C10 — Governance fee split never distributes more than it is splitting.
// Invariant monitor around every epoch settlement of real governance histories
// (driver, generator and oracle in lib/govdrv).
package main

import (
	"verifharness/lib/govdrv"
	"verifharness/lib/vf"
)

func main() {
	r := vf.NewRun("C10", "exploration", govdrv.Rule)
	govdrv.Run(r, govdrv.Cfg{Prop: "C10", Worlds: vf.N(6, 12), Hist: vf.N(120, 1300), Len: 100, AgreeLen: vf.N(70, 200), SampleOps: 12})
	// scripted scenario of lib/govdrv (profile "c10"): fee percentages outside 0..100, each field alone and both,
	// on a node with an authorizer, followed through four settlements
	const sc = "scenario_started/out-of-range-fee-percentage"
	r.Require(sc, 5)
	r.Require(sc+"/authorize_issued", 3)
	for _, f := range []string{"stakeCost", "peerCost", "both"} {
		r.Require(sc+"/call_issued/"+f, 5)
		r.Require(sc+"/call_on_node_with_authorizers/"+f, 3)
	}
	r.Require(sc+"/settlement_3+_with_authorizers_on_node", 5)
	r.Require(sc+"/withdrawFee_issued", 5)
	r.Finish()
}
