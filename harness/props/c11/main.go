// C11 — Governance holds exactly the ONT that participants have staked.
// Conservation monitor evaluated after every operation of real governance histories
// (driver, generator and oracle in lib/govdrv; same driver as C10).
package main

import (
	"verifharness/lib/govdrv"
	"verifharness/lib/vf"
)

func main() {
	r := vf.NewRun("C11", "exploration", govdrv.Rule)
	govdrv.Run(r, govdrv.Cfg{Prop: "C11", Worlds: vf.N(6, 12), Hist: vf.N(120, 900), Len: 100, AgreeLen: vf.N(70, 200), SampleOps: 12})
	r.Finish()
}
