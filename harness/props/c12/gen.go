package main

// Case generators for the survival monitor: NeoVM programs (grammar + soup + raw bytes),
// native contract calls (every registered method, structured random arguments) and EVM
// bytecode (raw, generated, precompile calls).

import (
	"encoding/binary"
	"fmt"
	"math"
	"sort"

	ethcom "github.com/ethereum/go-ethereum/common"
	"github.com/ontio/ontology/common"
	"github.com/ontio/ontology/smartcontract/service/native"
	_ "github.com/ontio/ontology/smartcontract/service/native/init"
	neosvc "github.com/ontio/ontology/smartcontract/service/neovm"
	"github.com/ontio/ontology/vm/neovm"
	"verifharness/lib/chain"
	"verifharness/lib/vf"
)

type kase struct {
	Kind  string `json:"kind"`  // neovm | evm-create | evm-call
	Class string `json:"class"` // generator family (coverage counter)
	Code  []byte `json:"code"`
	To    string `json:"to,omitempty"` // evm-call target (hex)
}

var syscalls []string

func init() {
	seen := map[string]bool{}
	for _, m := range []map[string]neosvc.ServiceHandler{neosvc.ServiceMap, neosvc.ServiceMapNew, neosvc.ServiceMapDeprecated} {
		for k := range m {
			if !seen[k] {
				seen[k] = true
				syscalls = append(syscalls, k)
			}
		}
	}
	sort.Strings(syscalls)
}

type nativeMethod struct {
	addr   common.Address
	method string
}

func nativeMethods() []nativeMethod {
	var out []nativeMethod
	var addrs []common.Address
	for a := range native.Contracts {
		addrs = append(addrs, a)
	}
	sort.Slice(addrs, func(i, j int) bool { return string(addrs[i][:]) < string(addrs[j][:]) })
	for _, a := range addrs {
		svc := &native.NativeService{ServiceMap: map[string]native.Handler{}}
		native.Contracts[a](svc)
		var ms []string
		for m := range svc.ServiceMap {
			ms = append(ms, m)
		}
		sort.Strings(ms)
		for _, m := range ms {
			out = append(out, nativeMethod{a, m})
		}
	}
	return out
}

// recurseCode is a contract whose only action is to call itself (dynamic APPCALL of its own script
// hash): the depth of nested engines must stay bounded whatever gas the transaction brings.
func recurseCode() []byte {
	a := chain.NewAsm().Push([]byte("c12-recurse")).Op(neovm.DROP)
	a.Syscall("System.ExecutionEngine.GetExecutingScriptHash")
	a.AppCall(common.Address{})
	return a.Bytes()
}

// nativeSweep: for every method of every native contract, argument byte strings that open with a huge
// element COUNT in each encoding the native decoders use (native var-uint = var-bytes holding a
// little-endian integer; plain var-uint), bare, after one address, and inside a var-bytes envelope,
// followed by a few bytes only.  A decoder must fail on the missing data, not loop or allocate by the count.
func nativeSweep() []kase {
	counts := [][]byte{{0x08, 0xff, 0xff, 0xff, 0xff, 0xff, 0xff, 0xff, 0x7f}, {0x08, 0, 0, 0, 0, 0, 0, 0, 0x40}, {0x05, 0xff, 0xff, 0xff, 0xff, 0x00}, {0x04, 0xff, 0xff, 0xff, 0x7f},
		{0xff, 0xff, 0xff, 0xff, 0xff, 0xff, 0xff, 0xff, 0x7f}, {0xfe, 0xff, 0xff, 0xff, 0x7f}}
	var out []kase
	ms := nativeMethods()
	// (1) STRUCT arguments: BuildParamToNative writes the fields of a struct one after the other as
	// var-bytes, which is exactly the stream the native decoders read field by field; an integer-valued
	// byte string is a native var-uint.  Fields before the hostile count: none / address / empty lists.
	ints := [][]byte{{0xff, 0xff, 0xff, 0xff, 0xff, 0xff, 0xff, 0x7f}, {0, 0, 0, 0, 0, 0, 0, 0x40}, {0xff, 0xff, 0xff, 0xff, 0x00}, {0x00, 0x00, 0x10}}
	addr := make([]byte, 20)
	addr[0] = 0x42
	pres := [][][]byte{{}, {addr}, {{}}, {addr, {}}, {addr, {}, {}}, {addr, addr}}
	for ii, iv := range ints {
		for pi, pre := range pres {
			fields := append(append([][]byte{}, pre...), iv, []byte{0x01})
			for _, m := range ms {
				a := chain.NewAsm()
				a.PushInt(int64(len(fields))).Op(neovm.NEWSTRUCT)
				for fi, f := range fields {
					a.Op(neovm.DUP).PushInt(int64(fi)).Push(f).Op(neovm.SETITEM)
				}
				a.Push([]byte(m.method)).Push(m.addr[:]).PushInt(0).Syscall("Ontology.Native.Invoke")
				out = append(out, kase{"neovm", fmt.Sprintf("native-sweep/struct/i%d/p%d", ii, pi), a.Bytes(), ""})
			}
		}
	}
	// (2) BYTE-STRING arguments (written as one var-bytes envelope, which ontfs-style decoders unwrap first)
	// templates outermost, methods innermost: a run that cannot hold the whole sweep drops templates, never methods
	for ci, cnt := range counts {
		// what precedes the hostile count: nothing / an address / k empty lists / address + k empty lists
		for pre := 0; pre < 4; pre++ {
			for env := 0; env < 2; env++ {
				var inner []byte
				if pre == 1 || pre >= 4 {
					inner = append(append(inner, 0x14), make([]byte, 20)...)
				}
				switch pre {
				case 2, 4:
					inner = append(inner, 0x00)
				case 3, 5:
					inner = append(inner, 0x00, 0x00)
				}
				inner = append(append(inner, cnt...), 0x01, 0x00)
				body := inner
				if env == 1 { // var-bytes envelope around the whole argument
					body = append([]byte{byte(len(inner))}, inner...)
				}
				for _, m := range ms {
					a := chain.NewAsm()
					a.Push(body).Push([]byte(m.method)).Push(m.addr[:]).PushInt(0).Syscall("Ontology.Native.Invoke")
					out = append(out, kase{"neovm", fmt.Sprintf("native-sweep/c%d/p%d/e%d", ci, pre, env), a.Bytes(), ""})
				}
			}
		}
	}
	return out
}

type g struct {
	r  *vf.RNG
	kv common.Address
	me common.Address // an account address known to the chain
}

// ---- values

func (x *g) scalar(a *chain.Asm) {
	switch x.r.Intn(9) {
	case 0:
		a.PushInt(int64(x.r.Intn(20)) - 3)
	case 1:
		a.PushInt(int64(x.r.U64()))
	case 2:
		a.Push(x.r.Bytes(x.r.Intn(40)))
	case 3:
		a.Push(x.me[:])
	case 4:
		a.PushBool(x.r.Bool())
	case 5:
		a.Push(x.r.Bytes(33)) // big integer / key sized
	case 6:
		a.PushInt(int64([]int64{0, 1, -1, 1 << 31, 1<<31 - 1, -(1 << 31), 1 << 40, 1023, 1024, 1025, 65535, 65536}[x.r.Intn(12)]))
	case 7:
		a.Push(make([]byte, 0))
	default:
		a.Push([]byte("did:ont:" + x.me.ToBase58()))
	}
}

// container leaves one container value on the stack; kind chosen at random; depth bounded.
func (x *g) container(a *chain.Asm, depth int) {
	switch x.r.Intn(4) {
	case 0: // array via PACK
		n := x.r.Intn(5)
		for i := 0; i < n; i++ {
			x.value(a, depth-1)
		}
		a.PushInt(int64(n)).Op(neovm.PACK)
	case 1: // struct
		n := x.r.Intn(4)
		a.PushInt(int64(n)).Op(neovm.NEWSTRUCT)
		for i := 0; i < n; i++ {
			a.Op(neovm.DUP).PushInt(int64(i))
			x.value(a, depth-1)
			a.Op(neovm.SETITEM)
		}
	case 2: // map
		a.Op(neovm.NEWMAP)
		n := x.r.Intn(4)
		for i := 0; i < n; i++ {
			a.Op(neovm.DUP)
			if x.r.Bool() {
				a.PushInt(int64(i))
			} else {
				a.Push([]byte{byte('a' + i)})
			}
			x.value(a, depth-1)
			a.Op(neovm.SETITEM)
		}
	default: // NEWARRAY n
		a.PushInt(int64(x.r.Intn(6))).Op(neovm.NEWARRAY)
	}
}

func (x *g) value(a *chain.Asm, depth int) {
	if depth <= 0 || x.r.Chance(55) {
		x.scalar(a)
		return
	}
	x.container(a, depth)
}

// selfRef leaves a container on the stack that (transitively) contains itself at position pos.
func (x *g) selfRef(a *chain.Asm) string {
	n := 1 + x.r.Intn(4)
	pos := x.r.Intn(n)
	via := x.r.Intn(3) // 0 direct, 1 through an inner array, 2 through an inner map
	kind := x.r.Intn(3)
	name := ""
	switch kind {
	case 0:
		a.PushInt(int64(n)).Op(neovm.NEWARRAY)
		name = "array"
	case 1:
		a.PushInt(int64(n)).Op(neovm.NEWSTRUCT)
		name = "struct"
	default:
		a.Op(neovm.NEWMAP)
		name = "map"
	}
	for i := 0; i < n; i++ {
		a.Op(neovm.DUP) // [c,c]
		a.PushInt(int64(i))
		if i == pos {
			a.PushInt(2).Op(neovm.PICK) // [c,c,i,c]
			switch via {
			case 1:
				a.PushInt(1).Op(neovm.PACK)
			case 2:
				a.Op(neovm.NEWMAP).Op(neovm.DUP).PushInt(9).PushInt(3).Op(neovm.PICK) // [c,c,i,c,m,m,9,c]
				a.Op(neovm.SETITEM).Op(neovm.NIP)                                     // [c,c,i,m]
			}
		} else {
			x.scalar(a)
		}
		a.Op(neovm.SETITEM)
	}
	return fmt.Sprintf("%s/pos%d-of-%d/via%d", name, pos, n, via)
}

func (x *g) deep(a *chain.Asm) {
	a.PushInt(1)
	d := []int{9, 10, 11, 12, 40, 200, 1100}[x.r.Intn(7)]
	wrap := x.r.Intn(3)
	for i := 0; i < d; i++ {
		switch wrap {
		case 0:
			a.PushInt(1).Op(neovm.PACK)
		case 1:
			a.PushInt(1).Op(neovm.NEWSTRUCT).Op(neovm.DUP).PushInt(0).PushInt(3).Op(neovm.ROLL).Op(neovm.SETITEM)
		default:
			a.Op(neovm.NEWMAP).Op(neovm.DUP).PushInt(0).PushInt(3).Op(neovm.ROLL).Op(neovm.SETITEM)
		}
	}
}

// sink consumes / uses the value on top of the stack.
func (x *g) sink(a *chain.Asm) string {
	sinks := []string{"serialize", "notify", "native-arg", "storage-put", "equal-self", "roundtrip", "values", "keys", "unpack", "append-self", "reverse", "haskey", "arraysize", "cat", "return", "syscall"}
	s := sinks[x.r.Intn(len(sinks))]
	switch s {
	case "serialize":
		a.Syscall("System.Runtime.Serialize")
	case "notify":
		a.Syscall("System.Runtime.Notify")
	case "native-arg":
		ms := nativeMethods()
		m := ms[x.r.Intn(len(ms))]
		a.Push([]byte(m.method)).Push(m.addr[:]).PushInt(0).Syscall("Ontology.Native.Invoke")
	case "storage-put":
		a.Push([]byte("k")).PushBool(true).AppCall(x.kv)
	case "equal-self":
		a.Op(neovm.DUP).Op(neovm.EQUAL)
	case "roundtrip":
		a.Syscall("System.Runtime.Serialize").Syscall("System.Runtime.Deserialize")
	case "values":
		a.Op(neovm.VALUES)
	case "keys":
		a.Op(neovm.KEYS)
	case "unpack":
		a.Op(neovm.UNPACK)
	case "append-self":
		a.Op(neovm.DUP).Op(neovm.DUP).Op(neovm.APPEND)
	case "reverse":
		a.Op(neovm.DUP).Op(neovm.REVERSE)
	case "haskey":
		a.Op(neovm.DUP).PushInt(0).Op(neovm.HASKEY)
	case "arraysize":
		a.Op(neovm.ARRAYSIZE)
	case "cat":
		a.Op(neovm.DUP).Op(neovm.CAT)
	case "syscall":
		a.Syscall(syscalls[x.r.Intn(len(syscalls))])
	}
	return s
}

// ---- NeoVM case families

func (x *g) neovmCase() kase {
	a := chain.NewAsm()
	switch k := x.r.Intn(26); {
	case k >= 20:
		return x.boundaryOperands()
	case k < 2:
		return kase{"neovm", "raw-bytes", x.r.Bytes(1 + x.r.Intn(300)), ""}
	case k < 6:
		shape := x.selfRef(a)
		s := x.sink(a)
		_ = shape
		return kase{"neovm", "self-ref/" + s, a.Bytes(), ""}
	case k < 8:
		x.deep(a)
		s := x.sink(a)
		return kase{"neovm", "deep-nest/" + s, a.Bytes(), ""}
	case k < 11: // every syscall with a random argument stack
		n := x.r.Intn(5)
		for i := 0; i < n; i++ {
			x.value(a, 3)
		}
		name := syscalls[x.r.Intn(len(syscalls))]
		a.Syscall(name)
		if x.r.Bool() {
			x.sink(a)
		}
		return kase{"neovm", "syscall", a.Bytes(), ""}
	case k < 14: // native method with structured random arguments
		ms := nativeMethods()
		m := ms[x.r.Intn(len(ms))]
		switch x.r.Intn(6) {
		case 4, 5: // a huge element COUNT in the encodings native decoders use, followed by little or no data,
			// bare and wrapped in a var-bytes envelope (ontfs, governance, ontid lists): the decoder must
			// fail on the missing data, not loop or allocate by the count
			cnt := [][]byte{{0x08, 0xff, 0xff, 0xff, 0xff, 0xff, 0xff, 0xff, 0x7f}, {0x08, 0, 0, 0, 0, 0, 0, 0, 0x40}, {0x05, 0xff, 0xff, 0xff, 0xff, 0x00},
				{0x04, 0xff, 0xff, 0xff, 0x7f}, {0x03, 0x00, 0x00, 0x10}, {0xff, 0xff, 0xff, 0xff, 0xff, 0xff, 0xff, 0xff, 0x7f}, {0xfe, 0xff, 0xff, 0xff, 0x7f}}[x.r.Intn(7)]
			body := append(append([]byte{}, x.r.Bytes(x.r.Intn(3)*20)...), cnt...) // sometimes an address or two first
			body = append(body, x.r.Bytes(x.r.Intn(24))...)
			if x.r.Bool() {
				env := []byte{byte(len(body))}
				body = append(env, body...)
			}
			a.Push(body)
		case 0:
			a.Push(x.r.Bytes(x.r.Intn(120)))
		case 1: // hostile length prefixes inside a byte-array argument
			b := make([]byte, 9)
			b[0] = []byte{0xfd, 0xfe, 0xff}[x.r.Intn(3)]
			binary.LittleEndian.PutUint64(b[1:], []uint64{0, 1, 0xffff, 0xffffffff, 1 << 62, ^uint64(0)}[x.r.Intn(6)])
			a.Push(append(b, x.r.Bytes(x.r.Intn(20))...))
		default:
			x.container(a, 3)
		}
		a.Push([]byte(m.method)).Push(m.addr[:]).PushInt(int64(x.r.Intn(3))).Syscall("Ontology.Native.Invoke")
		return kase{"neovm", "native/" + m.addr.ToHexString()[38:], a.Bytes(), ""}
	case k < 16: // resource extremes
		switch x.r.Intn(10) {
		case 7: // unbounded contract-to-contract recursion: the deployed self-calling contract, and mutual calls through the KV contract
			rc := common.AddressFromVmCode(recurseCode())
			for i := x.r.Intn(3); i > 0; i-- {
				x.scalar(a)
			}
			a.AppCall(rc)
			return kase{"neovm", "self-calling-contract", a.Bytes(), ""}
		case 8, 9: // containers that double per round: a struct / array / map appended or set into (a clone of) itself
			rounds := []int{8, 16, 24, 40, 64, 200}[x.r.Intn(6)]
			switch x.r.Intn(3) {
			case 0:
				a.PushInt(0).Op(neovm.NEWSTRUCT)
				for i := 0; i < rounds; i++ {
					a.Op(neovm.DUP).Op(neovm.DUP).Op(neovm.APPEND)
				}
			case 1:
				a.PushInt(1).Op(neovm.NEWSTRUCT)
				for i := 0; i < rounds; i++ {
					a.Op(neovm.DUP).PushInt(0).PushInt(2).Op(neovm.PICK).Op(neovm.SETITEM)
				}
			default:
				a.PushInt(2).Op(neovm.NEWSTRUCT).PushInt(1).Op(neovm.PACK)
				for i := 0; i < rounds; i++ {
					a.Op(neovm.DUP).Op(neovm.DUP).PushInt(0).Op(neovm.PICKITEM).Op(neovm.APPEND)
				}
			}
			if x.r.Chance(50) {
				x.sink(a)
			}
			return kase{"neovm", "doubling-container", a.Bytes(), ""}
		case 0:
			a.PushInt(int64([]int{1024, 1025, 65536, 1 << 30}[x.r.Intn(4)])).Op(neovm.NEWARRAY)
		case 1:
			a.Push(x.r.Bytes(60))
			for i := 0; i < 22; i++ {
				a.Op(neovm.DUP).Op(neovm.CAT)
			}
		case 2:
			a.PushInt(1).PushInt(int64([]int{255, 256, 257, 100000}[x.r.Intn(4)])).Op(neovm.SHL)
		case 3: // unbounded recursion through CALL to self
			a.Raw([]byte{byte(neovm.CALL), 0x00, 0x00})
		case 4: // DCALL to the executing script
			a.Syscall("System.ExecutionEngine.GetExecutingScriptHash").Op(neovm.DCALL)
		case 5: // deep APPCALL chain into the KV contract with garbage
			for i := 0; i < 4; i++ {
				x.value(a, 2)
			}
			a.AppCall(x.kv)
		default:
			a.PushInt(int64(x.r.Intn(2000))).Op(neovm.PACK)
		}
		x.sink(a)
		return kase{"neovm", "resource-extreme", a.Bytes(), ""}
	default: // opcode soup over a prepared stack
		n := 2 + x.r.Intn(5)
		for i := 0; i < n; i++ {
			x.value(a, 3)
		}
		ops := []neovm.OpCode{neovm.DUP, neovm.SWAP, neovm.OVER, neovm.ROT, neovm.TUCK, neovm.DROP, neovm.NIP, neovm.DEPTH, neovm.PICK, neovm.ROLL, neovm.XDROP, neovm.XSWAP, neovm.XTUCK,
			neovm.TOALTSTACK, neovm.FROMALTSTACK, neovm.DUPFROMALTSTACK, neovm.CAT, neovm.SUBSTR, neovm.LEFT, neovm.RIGHT, neovm.SIZE, neovm.INVERT, neovm.AND, neovm.OR, neovm.XOR, neovm.EQUAL,
			neovm.INC, neovm.DEC, neovm.SIGN, neovm.NEGATE, neovm.ABS, neovm.NOT, neovm.NZ, neovm.ADD, neovm.SUB, neovm.MUL, neovm.DIV, neovm.MOD, neovm.SHL, neovm.SHR, neovm.BOOLAND, neovm.BOOLOR,
			neovm.NUMEQUAL, neovm.NUMNOTEQUAL, neovm.LT, neovm.GT, neovm.LTE, neovm.GTE, neovm.MIN, neovm.MAX, neovm.WITHIN, neovm.SHA1, neovm.SHA256, neovm.HASH160, neovm.HASH256,
			neovm.CHECKSIG, neovm.VERIFY, neovm.CHECKMULTISIG, neovm.ARRAYSIZE, neovm.PACK, neovm.UNPACK, neovm.PICKITEM, neovm.SETITEM, neovm.NEWARRAY, neovm.NEWSTRUCT, neovm.NEWMAP,
			neovm.APPEND, neovm.REVERSE, neovm.REMOVE, neovm.HASKEY, neovm.KEYS, neovm.VALUES, neovm.THROWIFNOT, neovm.NOP}
		m := 3 + x.r.Intn(25)
		for i := 0; i < m; i++ {
			if x.r.Chance(20) {
				x.scalar(a)
			} else {
				a.Op(ops[x.r.Intn(len(ops))])
			}
		}
		if x.r.Chance(40) {
			x.sink(a)
		}
		return kase{"neovm", "opcode-soup", a.Bytes(), ""}
	}
}

// boundaryOperands: every opcode that takes an index / count / length operand, with extreme integers
// in each operand position next to plausible other operands (sums like start+count must not wrap).
func (x *g) boundaryOperands() kase {
	a := chain.NewAsm()
	extremes := []func(){}
	for _, v := range []int64{math.MaxInt64, math.MaxInt64 - 1, math.MaxInt64 - 2, math.MaxInt64 - 3, math.MinInt64, math.MinInt64 + 1,
		1 << 32, 1<<32 - 1, 1 << 31, 1<<31 - 1, -(1 << 31), -(1 << 31) - 1, 1 << 62, -1, -2, 1024, 1025, 65536} {
		v := v
		extremes = append(extremes, func() { a.PushInt(v) })
	}
	// beyond the machine word: 2^63, 2^64-1, 2^64, 2^255, -(2^63)-1 as NeoVM little-endian integers
	for _, b := range [][]byte{{0, 0, 0, 0, 0, 0, 0, 0x80, 0}, {0xff, 0xff, 0xff, 0xff, 0xff, 0xff, 0xff, 0xff, 0}, {0, 0, 0, 0, 0, 0, 0, 0, 1},
		append(make([]byte, 31), 0x40), {0xff, 0xff, 0xff, 0xff, 0xff, 0xff, 0xff, 0x7f, 0xff}} {
		b := b
		extremes = append(extremes, func() { a.Push(b) })
	}
	small := func() { a.PushInt(int64(1 + x.r.Intn(3))) }
	bytesArg := func() { a.Push(x.r.Bytes(4 + x.r.Intn(8))) }
	arr := func() {
		n := 1 + x.r.Intn(4)
		for i := 0; i < n; i++ {
			x.scalar(a)
		}
		a.PushInt(int64(n)).Op(neovm.PACK)
	}
	stackFill := func() {
		for i := 0; i < 4; i++ {
			x.scalar(a)
		}
	}
	type opShape struct {
		name  string
		op    neovm.OpCode
		pre   func()
		nargs int
	}
	shapes := []opShape{
		{"SUBSTR", neovm.SUBSTR, bytesArg, 2}, {"LEFT", neovm.LEFT, bytesArg, 1}, {"RIGHT", neovm.RIGHT, bytesArg, 1},
		{"PICK", neovm.PICK, stackFill, 1}, {"ROLL", neovm.ROLL, stackFill, 1}, {"XDROP", neovm.XDROP, stackFill, 1},
		{"XSWAP", neovm.XSWAP, stackFill, 1}, {"XTUCK", neovm.XTUCK, stackFill, 1},
		{"PICKITEM", neovm.PICKITEM, arr, 1}, {"REMOVE", neovm.REMOVE, arr, 1}, {"SETITEM", neovm.SETITEM, arr, 2},
		{"NEWARRAY", neovm.NEWARRAY, func() {}, 1}, {"NEWSTRUCT", neovm.NEWSTRUCT, func() {}, 1}, {"PACK", neovm.PACK, stackFill, 1},
		{"SHL", neovm.SHL, func() { x.scalar(a) }, 1}, {"SHR", neovm.SHR, func() { x.scalar(a) }, 1},
		{"WITHIN", neovm.WITHIN, func() {}, 3}, {"MOD", neovm.MOD, func() {}, 2}, {"DIV", neovm.DIV, func() {}, 2},
		{"MUL", neovm.MUL, func() {}, 2}, {"ADD", neovm.ADD, func() {}, 2}, {"SUB", neovm.SUB, func() {}, 2},
		{"CHECKMULTISIG", neovm.CHECKMULTISIG, stackFill, 1},
	}
	// the combination (shape, extreme operand position, extreme value) is drawn uniformly, so that over a
	// run every combination is executed a few times; the other operands are small and valid
	sh := shapes[x.r.Intn(len(shapes))]
	pos := x.r.Intn(sh.nargs)
	ev := x.r.Intn(len(extremes))
	sh.pre()
	for i := 0; i < sh.nargs; i++ {
		switch {
		case i == pos:
			extremes[ev]()
		case x.r.Chance(10):
			extremes[x.r.Intn(len(extremes))]()
		default:
			small()
		}
	}
	a.Op(sh.op)
	if x.r.Chance(25) {
		x.sink(a)
	}
	return kase{"neovm", "boundary-operand/" + sh.name, a.Bytes(), ""}
}

// ---- EVM case families

func (x *g) evmCase() kase {
	switch k := x.r.Intn(10); {
	case k < 3:
		return kase{"evm-create", "evm/raw-bytes", x.r.Bytes(1 + x.r.Intn(200)), ""}
	case k < 6: // precompiles with hostile input lengths
		to := ethcom.BytesToAddress([]byte{byte(1 + x.r.Intn(9))})
		n := []int{0, 1, 31, 32, 33, 63, 64, 65, 95, 96, 97, 127, 128, 129, 191, 192, 193, 212, 213, 214, 384, 1000, 5000}[x.r.Intn(23)]
		b := x.r.Bytes(n)
		if x.r.Bool() && n >= 96 { // modexp style huge declared lengths
			for i := 0; i < 96; i += 32 {
				copy(b[i:], make([]byte, 32))
				binary.BigEndian.PutUint64(b[i+24:], []uint64{0, 1, 32, 1 << 20, 1 << 32, ^uint64(0)}[x.r.Intn(6)])
				if x.r.Chance(20) {
					b[i] = 0xff
				}
			}
		}
		return kase{"evm-call", "evm/precompile", b, to.Hex()}
	default: // generated op sequences with pushes
		var c []byte
		n := 3 + x.r.Intn(40)
		for i := 0; i < n; i++ {
			switch x.r.Intn(6) {
			case 0, 1:
				l := 1 + x.r.Intn(32)
				c = append(c, byte(0x5f+l))
				if x.r.Chance(30) {
					c = append(c, make([]byte, l)...)
					c[len(c)-1] = byte(x.r.Intn(64))
				} else {
					c = append(c, x.r.Bytes(l)...)
				}
			default:
				ops := []byte{0x01, 0x02, 0x03, 0x04, 0x05, 0x06, 0x07, 0x08, 0x09, 0x0a, 0x0b, 0x10, 0x14, 0x15, 0x16, 0x17, 0x18, 0x19, 0x1a, 0x1b, 0x1c, 0x1d, 0x20, 0x30, 0x31, 0x32, 0x33, 0x34, 0x35, 0x36, 0x37, 0x38, 0x39, 0x3a, 0x3b, 0x3c, 0x3d, 0x3e, 0x3f,
					0x40, 0x41, 0x42, 0x43, 0x44, 0x45, 0x46, 0x47, 0x50, 0x51, 0x52, 0x53, 0x54, 0x55, 0x56, 0x57, 0x58, 0x59, 0x5a, 0x5b, 0x80, 0x81, 0x82, 0x90, 0x91, 0xa0, 0xa1, 0xa2, 0xa3, 0xa4, 0xf0, 0xf1, 0xf2, 0xf3, 0xf4, 0xf5, 0xfa, 0xfd, 0xfe, 0xff}
				c = append(c, ops[x.r.Intn(len(ops))])
			}
		}
		return kase{"evm-create", "evm/generated", c, ""}
	}
}
