// C12 — No transaction or pre-execution request can crash the node.
// Process-survival monitor: generated cases are executed by child processes through the real
// entry points (block execution of a single-transaction block, PreExecuteContract,
// PreExecuteEip155Tx, EIP-155 block execution).  Each case is logged (and has left the
// process) BEFORE it runs.  A Go panic escaping an entry point, a fatal runtime error, a
// signal, or growth of the process beyond the memory bound is a violation whose witness is
// the logged case.  A case that makes no progress for the stall timeout is re-run alone.
package main

import (
	"encoding/hex"
	"encoding/json"
	"fmt"
	"math/big"
	"os"
	"path/filepath"
	"runtime"
	"strconv"
	"strings"
	"sync"
	"time"

	ethcom "github.com/ethereum/go-ethereum/common"
	ethtypes "github.com/ethereum/go-ethereum/core/types"
	"github.com/ontio/ontology/core/types"
	"verifharness/lib/chain"
	"verifharness/lib/proc"
	"verifharness/lib/vf"
)

const memBound = 3 << 30 // bytes of runtime.MemStats.Sys a single batch may reach

func setup(dir, tag string) (*chain.Chain, *chain.World) {
	w := chain.NewWorld(tag, 3)
	c, err := chain.NewSolo(dir, w.BK)
	if err != nil {
		panic(err)
	}
	if c.Ledger.GetCurrentBlockHeight() == 0 {
		b, err := c.MakeBlock(w.FundingTxs(), 0)
		if err != nil {
			panic(err)
		}
		if _, err := c.CommitExec(b); err != nil {
			panic(err)
		}
		// deployed helper contracts of the hostile scripts: one that calls itself without end
		d, err := w.TB.Deploy(0, 30000000, recurseCode(), "c12-recurse")
		if err != nil {
			panic(err)
		}
		chain.Sign(d, w.Accts[0])
		b2, err := c.MakeBlock([]*types.Transaction{chain.Immutable(d)}, 0)
		if err != nil {
			panic(err)
		}
		if _, err := c.CommitExec(b2); err != nil {
			panic(err)
		}
	}
	return c, w
}

type result struct {
	Index   int    `json:"i"`
	Outcome string `json:"o"` // ok | error | panic:<msg>
}

// execCase drives one case through every applicable entry point; a panic is reported, not hidden.
func execCase(c *chain.Chain, w *chain.World, k kase, i int) string {
	outcome := "ok"
	run := func(name string, f func() error) {
		var err error
		if p := vf.Catch(func() { err = f() }); p != nil {
			outcome = fmt.Sprintf("panic:%s:%v", name, p)
			return
		}
		if err != nil && outcome == "ok" {
			outcome = "error"
		}
	}
	switch k.Kind {
	case "neovm":
		tb := chain.NewTxBuilder(uint32(200000 + i))
		mt := tb.Invoke(0, 20000000, k.Code)
		chain.Sign(mt, w.Accts[0])
		tx := chain.Immutable(mt)
		run("PreExecuteContract", func() error { _, err := c.Ledger.PreExecuteContract(tx); return err })
		run("ExecuteBlock", func() error {
			blk, err := c.MakeBlock([]*types.Transaction{tx}, 0)
			if err != nil {
				return err
			}
			_, err = c.Ledger.ExecuteBlock(blk)
			return err
		})
		// charged variant: gas accounting paths
		mt2 := tb.Invoke(2500, 400000, k.Code)
		chain.Sign(mt2, w.Accts[1])
		tx2 := chain.Immutable(mt2)
		run("ExecuteBlock/charged", func() error {
			blk, err := c.MakeBlock([]*types.Transaction{tx2}, 0)
			if err != nil {
				return err
			}
			_, err = c.Ledger.ExecuteBlock(blk)
			return err
		})
	case "evm-create", "evm-call":
		var to *ethcom.Address
		if k.Kind == "evm-call" {
			t := ethcom.HexToAddress(k.To)
			to = &t
		}
		from := w.Eth[0]
		msg := ethtypes.NewMessage(from.Addr, to, 0, big.NewInt(0), 3000000, big.NewInt(2500*chain.GWei), k.Code, false)
		run("PreExecuteEip155Tx", func() error { _, err := c.Ledger.PreExecuteEip155Tx(msg); return err })
		run("ExecuteBlock/eip155", func() error {
			tx, err := chain.EvmTx(from, 0, to, big.NewInt(0), 3000000, 2500, k.Code)
			if err != nil {
				return err
			}
			blk, err := c.MakeBlock([]*types.Transaction{tx}, 0)
			if err != nil {
				return err
			}
			_, err = c.Ledger.ExecuteBlock(blk)
			return err
		})
		run("PreExecuteContract/eip155", func() error {
			tx, err := chain.EvmTx(from, 0, to, big.NewInt(0), 3000000, 2500, k.Code)
			if err != nil {
				return err
			}
			_, err = c.Ledger.PreExecuteContract(tx)
			return err
		})
	}
	return outcome
}

func genCases(seed uint64, n int, w *chain.World) []kase {
	rng := vf.NewRNG(seed)
	out := make([]kase, n)
	sweep := nativeSweep()
	for i := range out {
		x := &g{r: rng.Sub(uint64(i)), kv: w.KV, me: w.Accts[0].Address}
		if i < len(sweep) && i < n*3/4 {
			// systematic part: every native method x every hostile-count template, once per run
			out[i] = sweep[i]
			continue
		}
		if x.r.Chance(82) {
			out[i] = x.neovmCase()
		} else {
			out[i] = x.evmCase()
		}
	}
	return out
}

// child: spec = dir|tag|seed|n|from|to|resultfile|caselog
func childMain(spec string) {
	p := strings.Split(spec, "|")
	dir, tag := p[0], p[1]
	seed, _ := strconv.ParseUint(p[2], 10, 64)
	n, _ := strconv.Atoi(p[3])
	from, _ := strconv.Atoi(p[4])
	to, _ := strconv.Atoi(p[5])
	c, w := setup(dir, tag)
	cases := genCases(seed, n, w)
	cl, err := proc.OpenCaseLog(p[7])
	if err != nil {
		panic(err)
	}
	rf, _ := os.OpenFile(p[6], os.O_CREATE|os.O_WRONLY|os.O_APPEND, 0o644)
	// memory watchdog: unbounded allocation must not take the supervisor's machine down
	go func() {
		var ms runtime.MemStats
		for {
			time.Sleep(200 * time.Millisecond)
			runtime.ReadMemStats(&ms)
			if ms.Sys > memBound {
				fmt.Fprintf(os.Stderr, "fatal error: verif memory bound exceeded (Sys=%d MiB) while executing the logged case\n", ms.Sys>>20)
				os.Exit(97)
			}
		}
	}()
	for i := from; i < to && i < n; i++ {
		rec, _ := json.Marshal(cases[i])
		cl.Begin(uint64(i), rec)
		o := execCase(c, w, cases[i], i)
		proc.AppendJSONLine(rf, result{i, o})
	}
	cl.Close()
	c.Close()
}

func main() {
	if spec, ok := proc.ChildSpec(); ok {
		childMain(spec)
		return
	}
	r := vf.NewRun("C12", "exploration",
		"generated cases: NeoVM programs (self-referencing arrays/structs/maps at every element position, directly or through an inner array/map; nests of depth 9..1100; every syscall of the service maps with random argument stacks; every registered native contract method with random bytes / hostile length prefixes / structured containers as arguments; resource extremes: huge NEWARRAY/PACK, CAT doubling, SHL, unbounded CALL/DCALL/APPCALL; opcode soup; raw bytes) and EVM cases (raw bytes, generated op sequences, all 9 precompiles with hostile input lengths); each runs through PreExecuteContract + free and charged ExecuteBlock (NeoVM) or PreExecuteEip155Tx + EIP-155 ExecuteBlock + PreExecuteContract (EVM) in a child process, logged before execution. distinct by case bytes; non-trivial = all generated cases")
	scratch := vf.Scratch("c12")
	defer os.RemoveAll(scratch)
	tag := fmt.Sprintf("c12-%d", vf.Seed())
	// prepared ledger (funding block, KV contract) copied per child
	base := filepath.Join(scratch, "base")
	c0, w := setup(base, tag)
	c0.Close()
	N := vf.N(20000, 300000)
	batch := 400
	cases := genCases(vf.Seed(), N, w)
	for i, k := range cases {
		r.Eval(hex.EncodeToString(k.Code) + k.To)
		cls := k.Class
		if j := strings.Index(cls, "/"); j > 0 && strings.HasPrefix(cls, "self-ref") {
			cls = "self-ref"
		} else if strings.HasPrefix(cls, "deep-nest") {
			cls = "deep-nest"
		} else if strings.HasPrefix(cls, "native/") {
			cls = "native-call"
		}
		r.Count("generated/" + cls)
		if i < 5 {
			r.Sample(map[string]interface{}{"kind": k.Kind, "class": k.Class, "code_hex": vf.HexTrunc(k.Code, 120)})
		}
	}
	nb := (N + batch - 1) / batch
	var mu sync.Mutex
	outcomes := map[string]int64{}
	vf.Parallel(nb, 8, func(b int) {
		from, to := b*batch, (b+1)*batch
		if to > N {
			to = N
		}
		dir := filepath.Join(scratch, fmt.Sprintf("w%d", b))
		chain.CopyDir(base, dir)
		defer os.RemoveAll(dir)
		resf := filepath.Join(scratch, fmt.Sprintf("res%d.jsonl", b))
		clog := filepath.Join(scratch, fmt.Sprintf("case%d.log", b))
		defer os.Remove(clog)
		for from < to {
			spec := strings.Join([]string{dir, tag, strconv.FormatUint(vf.Seed(), 10), strconv.Itoa(N), strconv.Itoa(from), strconv.Itoa(to), resf, clog}, "|")
			d, err := proc.Run(proc.Cmd{Spec: spec, LogPath: clog, StallTimeout: 150 * time.Second})
			if err != nil {
				r.Inconclusive(fmt.Sprintf("batch %d: cannot run child: %v", b, err))
				return
			}
			if d == nil {
				break
			}
			// the child died: the last logged case is the witness
			idx := int(d.LastIndex)
			if !d.HaveCase {
				r.Inconclusive(fmt.Sprintf("batch %d: child died before logging a case: %s %s", b, d.Class, d.Message))
				return
			}
			k := cases[idx]
			wit := map[string]interface{}{"case_index": idx, "kind": k.Kind, "class": k.Class, "code_hex": hex.EncodeToString(k.Code), "to": k.To, "death": d.Class, "message": d.Message, "stderr_tail": tail(d.StderrTail, 1500)}
			switch d.Class {
			case "hang":
				// no verdict from wall-clock alone: the case is listed; step/gas limits bound every NeoVM/EVM loop logically
				r.Count("stalled_case(inconclusive)")
				r.Inconclusive(fmt.Sprintf("case %d (%s) made no progress for the stall timeout: %s", idx, k.Class, hex.EncodeToString(k.Code)))
			default:
				r.Violation(fmt.Sprintf("process-died:%s:%s:%s", d.Class, keyClass(k.Class), d.MessageClass), fmt.Sprintf("%s: %s", d.Class, d.Message), wit)
			}
			from = idx + 1
			// the ledger dir may hold a stale LOCK from the dead child: take a fresh copy
			os.RemoveAll(dir)
			chain.CopyDir(base, dir)
		}
		// recovered panics reported by the children
		proc.ReadJSONLines(resf, func(raw json.RawMessage) {
			var rs result
			if json.Unmarshal(raw, &rs) != nil {
				return
			}
			o := rs.Outcome
			if strings.HasPrefix(o, "panic:") {
				k := cases[rs.Index]
				r.Violation(fmt.Sprintf("panic:%s:%s", keyClass(k.Class), proc.MessageClass(o)), o, map[string]interface{}{"case_index": rs.Index, "kind": k.Kind, "class": k.Class, "code_hex": hex.EncodeToString(k.Code), "to": k.To})
				o = "panic"
			}
			mu.Lock()
			outcomes[o]++
			mu.Unlock()
		})
		os.Remove(resf)
	})
	for o, n := range outcomes {
		r.Add("outcome/"+o, n)
	}
	for _, cls := range []string{"self-ref", "deep-nest", "syscall", "native-call", "resource-extreme", "opcode-soup", "raw-bytes", "evm/raw-bytes", "evm/precompile", "evm/generated"} {
		r.Require("generated/"+cls, 20)
	}
	r.Require("outcome/ok", 100)
	r.Require("outcome/error", 100)
	r.Assume("WASM contracts are not driven (the JIT is a link stub in this sandbox); inputs outside the generators' grammars are not covered")
	r.Assume(fmt.Sprintf("memory bound per child %d MiB (runtime Sys); stall timeout turns a hang into inconclusive, never into a violation", memBound>>20))
	os.RemoveAll(scratch)
	r.Finish()
}

func keyClass(c string) string {
	if i := strings.Index(c, "/pos"); i > 0 {
		c = c[:i]
	}
	return c
}

func tail(s string, n int) string {
	if len(s) > n {
		return s[len(s)-n:]
	}
	return s
}
