// C13 — NeoVM integer opcodes compute exact integer results within bounds.
//
// Oracle: differential against math/big.  For every opcode of the arithmetic / bitwise /
// shift / comparison family a 2–4 instruction script (push operands, OP) is executed by a
// real neovm.Executor and the top of the evaluation stack is compared with the exact
// result R computed with math/big:
//
//	operands are always inside the VM bound (|x| < 2^256, the rule of IntValFromBigInt);
//	R inside the bound  -> the VM must return R (as big.Int AND as re-encoded NeoBytes);
//	R outside the bound, division by zero, negative shift count -> the VM must fault;
//	SHL with count > 256 may fault (documented VM limit) but must not return a wrong value;
//	SHR with count > 256 must return 0 / -1.
//
// Every case is run in three operand representations: minimal NeoBytes (byte-array typed
// stack items, int64 fast path when they fit), NeoBytes padded with redundant sign bytes,
// and integer/bigint-typed stack items produced by real VM arithmetic ((x-k) k ADD).
package main

import (
	"bytes"
	"fmt"
	"math/big"
	"sort"
	"strings"
	"sync"

	"github.com/ontio/ontology/vm/neovm"
	"github.com/ontio/ontology/vm/neovm/types"
	"verifharness/lib/vf"
)

// ---------------------------------------------------------------- reference side

var (
	one      = big.NewInt(1)
	bound    = new(big.Int).Lsh(one, 256) // in bound <=> |x| < 2^256  (magnitude <= 32 bytes)
	maxMag   = new(big.Int).Sub(bound, one)
	minInt64 = new(big.Int).Neg(new(big.Int).Lsh(one, 63))
	maxInt64 = new(big.Int).Sub(new(big.Int).Lsh(one, 63), one)
)

func inBound(x *big.Int) bool { return x.CmpAbs(bound) < 0 }

func clamp(x *big.Int) *big.Int {
	if inBound(x) {
		return x
	}
	if x.Sign() < 0 {
		return new(big.Int).Neg(maxMag)
	}
	return new(big.Int).Set(maxMag)
}

// neoBytes is this harness' own minimal little-endian two's complement encoder (the
// reference for "re-encoded NeoBytes"); it does not use common.BigIntToNeoBytes.
func neoBytes(x *big.Int) []byte {
	if x.Sign() == 0 {
		return []byte{}
	}
	// smallest n with -2^(8n-1) <= x < 2^(8n-1)
	var n int
	if x.Sign() > 0 {
		n = x.BitLen()/8 + 1
	} else {
		n = new(big.Int).Not(x).BitLen()/8 + 1 // ^x = -x-1 >= 0
	}
	mod := new(big.Int).Lsh(one, uint(8*n))
	v := new(big.Int).Mod(x, mod) // Euclidean: non-negative
	be := v.Bytes()
	out := make([]byte, n)
	for i := 0; i < len(be); i++ {
		out[i] = be[len(be)-1-i]
	}
	return out
}

type expect struct {
	fault    bool   // the VM must fault
	mayFault bool   // a fault is tolerated (SHL count > 256); a returned value must still be exact
	why      string // oracle branch
	isBool   bool
	b        bool
	v        *big.Int
}

func val(v *big.Int, why string) expect {
	if !inBound(v) {
		return expect{fault: true, why: "overflow_bound"}
	}
	return expect{v: v, why: why}
}
func boolean(b bool) expect { return expect{isBool: true, b: b, why: "bool"} }

type opSpec struct {
	name  string
	code  neovm.OpCode
	arity int
	ref   func(a []*big.Int) expect
}

func n() *big.Int { return new(big.Int) }

var ops = []opSpec{
	{"add", neovm.ADD, 2, func(a []*big.Int) expect { return val(n().Add(a[0], a[1]), "value") }},
	{"sub", neovm.SUB, 2, func(a []*big.Int) expect { return val(n().Sub(a[0], a[1]), "value") }},
	{"mul", neovm.MUL, 2, func(a []*big.Int) expect { return val(n().Mul(a[0], a[1]), "value") }},
	{"div", neovm.DIV, 2, func(a []*big.Int) expect {
		if a[1].Sign() == 0 {
			return expect{fault: true, why: "div_by_zero"}
		}
		return val(n().Quo(a[0], a[1]), "value") // truncation toward zero
	}},
	{"mod", neovm.MOD, 2, func(a []*big.Int) expect {
		if a[1].Sign() == 0 {
			return expect{fault: true, why: "div_by_zero"}
		}
		return val(n().Rem(a[0], a[1]), "value") // sign of the dividend
	}},
	{"shl", neovm.SHL, 2, func(a []*big.Int) expect {
		if a[1].Sign() < 0 {
			return expect{fault: true, why: "neg_shift"}
		}
		if a[1].Cmp(big.NewInt(256)) > 0 {
			if a[0].Sign() == 0 {
				return expect{mayFault: true, v: n(), why: "shl_gt256_zero"}
			}
			return expect{fault: true, why: "overflow_bound"} // |a| >= 1 shifted by > 256 bits is out of bound
		}
		return val(n().Lsh(a[0], uint(a[1].Int64())), "value")
	}},
	{"shr", neovm.SHR, 2, func(a []*big.Int) expect {
		if a[1].Sign() < 0 {
			return expect{fault: true, why: "neg_shift"}
		}
		if a[1].Cmp(big.NewInt(256)) > 0 { // |a| < 2^256: floor(a / 2^count) is 0 or -1
			if a[0].Sign() < 0 {
				return expect{v: big.NewInt(-1), why: "shr_gt256"}
			}
			return expect{v: n(), why: "shr_gt256"}
		}
		return val(n().Rsh(a[0], uint(a[1].Int64())), "value")
	}},
	{"and", neovm.AND, 2, func(a []*big.Int) expect { return val(n().And(a[0], a[1]), "value") }},
	{"or", neovm.OR, 2, func(a []*big.Int) expect { return val(n().Or(a[0], a[1]), "value") }},
	{"xor", neovm.XOR, 2, func(a []*big.Int) expect { return val(n().Xor(a[0], a[1]), "value") }},
	{"min", neovm.MIN, 2, func(a []*big.Int) expect {
		if a[0].Cmp(a[1]) <= 0 {
			return val(n().Set(a[0]), "value")
		}
		return val(n().Set(a[1]), "value")
	}},
	{"max", neovm.MAX, 2, func(a []*big.Int) expect {
		if a[0].Cmp(a[1]) >= 0 {
			return val(n().Set(a[0]), "value")
		}
		return val(n().Set(a[1]), "value")
	}},
	{"invert", neovm.INVERT, 1, func(a []*big.Int) expect { return val(n().Not(a[0]), "value") }},
	{"negate", neovm.NEGATE, 1, func(a []*big.Int) expect { return val(n().Neg(a[0]), "value") }},
	{"abs", neovm.ABS, 1, func(a []*big.Int) expect { return val(n().Abs(a[0]), "value") }},
	{"inc", neovm.INC, 1, func(a []*big.Int) expect { return val(n().Add(a[0], one), "value") }},
	{"dec", neovm.DEC, 1, func(a []*big.Int) expect { return val(n().Sub(a[0], one), "value") }},
	{"sign", neovm.SIGN, 1, func(a []*big.Int) expect { return val(big.NewInt(int64(a[0].Sign())), "value") }},
	{"nz", neovm.NZ, 1, func(a []*big.Int) expect { return boolean(a[0].Sign() != 0) }},
	{"lt", neovm.LT, 2, func(a []*big.Int) expect { return boolean(a[0].Cmp(a[1]) < 0) }},
	{"gt", neovm.GT, 2, func(a []*big.Int) expect { return boolean(a[0].Cmp(a[1]) > 0) }},
	{"lte", neovm.LTE, 2, func(a []*big.Int) expect { return boolean(a[0].Cmp(a[1]) <= 0) }},
	{"gte", neovm.GTE, 2, func(a []*big.Int) expect { return boolean(a[0].Cmp(a[1]) >= 0) }},
	{"numequal", neovm.NUMEQUAL, 2, func(a []*big.Int) expect { return boolean(a[0].Cmp(a[1]) == 0) }},
	{"numnotequal", neovm.NUMNOTEQUAL, 2, func(a []*big.Int) expect { return boolean(a[0].Cmp(a[1]) != 0) }},
	{"within", neovm.WITHIN, 3, func(a []*big.Int) expect { return boolean(a[0].Cmp(a[1]) >= 0 && a[0].Cmp(a[2]) < 0) }},
}

// ---------------------------------------------------------------- boundary values and key shapes

type named struct {
	name string
	v    *big.Int
}

func pow2(k uint) *big.Int    { return new(big.Int).Lsh(one, k) }
func neg(x *big.Int) *big.Int { return new(big.Int).Neg(x) }
func plus(x *big.Int, d int64) *big.Int {
	return new(big.Int).Add(x, big.NewInt(d))
}

var boundary []named
var boundaryName = map[string]string{}

func initBoundary() {
	add := func(name string, v *big.Int) {
		if _, dup := boundaryName[v.String()]; dup {
			return
		}
		boundary = append(boundary, named{name, v})
		boundaryName[v.String()] = name
	}
	add("0", big.NewInt(0))
	add("1", big.NewInt(1))
	add("-1", big.NewInt(-1))
	add("2", big.NewInt(2))
	add("-2", big.NewInt(-2))
	add("MinInt64", minInt64)
	add("MinInt64+1", plus(minInt64, 1))
	add("MinInt64-1", plus(minInt64, -1))
	add("MaxInt64", maxInt64)
	add("MaxInt64-1", plus(maxInt64, -1))
	add("MaxInt64+1", plus(maxInt64, 1)) // = 2^63
	add("2^31", pow2(31))
	add("-2^31", neg(pow2(31)))
	add("2^32", pow2(32))
	add("-2^32", neg(pow2(32)))
	add("2^63", pow2(63))
	add("-2^63", neg(pow2(63)))
	add("2^64", pow2(64))
	add("-2^64", neg(pow2(64)))
	add("2^255-1", plus(pow2(255), -1))
	add("-(2^255-1)", neg(plus(pow2(255), -1)))
	add("2^255", pow2(255))
	add("-2^255", neg(pow2(255)))
	add("2^256-1", plus(pow2(256), -1))
	add("-(2^256-1)", neg(plus(pow2(256), -1)))
}

// shape is the structural class of one operand used in violation keys.
func shape(x *big.Int) string {
	if nm, ok := boundaryName[x.String()]; ok {
		return nm
	}
	switch {
	case x.IsInt64() && x.Sign() > 0:
		return "int64+"
	case x.IsInt64():
		return "int64-"
	case x.Sign() > 0:
		return "big+"
	}
	return "big-"
}

func countClass(c *big.Int) string {
	switch {
	case c.Sign() < 0:
		return "count<0"
	case c.Cmp(big.NewInt(256)) <= 0:
		return "count<=256"
	case c.IsInt64():
		return "count:257..2^63-1"
	case c.IsUint64():
		return "count:2^63..2^64-1"
	}
	return "count>=2^64"
}

func pathOf(a []*big.Int) string {
	small := 0
	for _, x := range a {
		if x.IsInt64() {
			small++
		}
	}
	switch {
	case small == len(a):
		return "int64fast"
	case small == 0:
		return "bigpath"
	}
	return "mixedpath"
}

// ---------------------------------------------------------------- VM side

func pushBytes(code []byte, b []byte) []byte {
	if len(b) == 0 {
		return append(code, byte(neovm.PUSH0))
	}
	if len(b) <= 75 {
		code = append(code, byte(len(b)))
		return append(code, b...)
	}
	code = append(code, byte(neovm.PUSHDATA1), byte(len(b)))
	return append(code, b...)
}

type outcome struct {
	fault   bool
	errText string
	big     *big.Int
	raw     []byte
	isBool  bool
	b       bool
	count   int
	script  []byte
	bad     string // harness-level problem (operands not on stack as intended)
	// set when a stack copy of an operand (parked on the alt stack before the opcode) changed its value
	aliasChanged string
}

const (
	varMin   = 0
	varPad   = 1
	varArith = 2
)

var varName = []string{"minimal-bytes", "padded-bytes", "vm-arithmetic"}

// Executors are recycled for the random cases (NewExecutor allocates two 64-slot stacks,
// ~15 KB, which would dominate the run); a recycled executor is put in exactly the state
// NewExecutor produces: empty stacks, fresh context for the script, state BREAK.
var execPool sync.Pool
var recycle bool

func newExecutor(code []byte) *neovm.Executor {
	if recycle {
		if v := execPool.Get(); v != nil {
			e := v.(*neovm.Executor)
			for e.EvalStack.Count() > 0 {
				e.EvalStack.Pop()
			}
			for e.AltStack.Count() > 0 {
				e.AltStack.Pop()
			}
			e.Context = neovm.NewExecutionContext(code, neovm.VmFeatureFlag{})
			e.Callers = nil
			e.State = neovm.BREAK
			return e
		}
	}
	return neovm.NewExecutor(code, neovm.VmFeatureFlag{})
}

// runVM executes op on the operands in the given representation.
func runVM(op *opSpec, a []*big.Int, variant int, rng *vf.RNG) (out outcome, panicked interface{}) {
	panicked = vf.Catch(func() {
		var code []byte
		for _, x := range a {
			switch variant {
			case varMin:
				code = pushBytes(code, neoBytes(x))
			case varPad:
				b := neoBytes(x)
				pad := byte(0)
				if x.Sign() < 0 {
					pad = 0xff
				}
				for k := 1 + rng.Intn(4); k > 0; k-- {
					b = append(b, pad)
				}
				code = pushBytes(code, b)
			case varArith:
				// x = (x-k) + k computed by the VM: leaves an integer/bigint typed stack item
				k := new(big.Int).Quo(x, big.NewInt(2))
				if rng.Chance(30) && x.IsInt64() { // go through the big path and come back
					k = clamp(new(big.Int).Add(x, pow2(uint(70+rng.Intn(150)))))
				}
				code = pushBytes(code, neoBytes(new(big.Int).Sub(x, k)))
				code = pushBytes(code, neoBytes(k))
				code = append(code, byte(neovm.ADD))
			}
		}
		// another stack copy of every operand (PICK ... TOALTSTACK) is parked on the alt stack before the
		// opcode runs: stack items are values, an opcode must not change the copies it did not consume
		if variant == varArith {
			for i := range a {
				code = pushBytes(code, neoBytes(big.NewInt(int64(len(a)-1-i))))
				code = append(code, byte(neovm.PICK), byte(neovm.TOALTSTACK))
			}
		}
		var e *neovm.Executor
		defer func() {
			if e != nil && recycle {
				execPool.Put(e)
			}
		}()
		var state neovm.VMState
		var err error
		if variant == varArith {
			e = newExecutor(code)
			if err := e.Execute(); err != nil || e.State == neovm.FAULT {
				out.bad = fmt.Sprintf("operand prelude faulted: %v", err)
				out.script = code
				return
			}
			if e.EvalStack.Count() != len(a) {
				out.bad = "operand prelude left wrong stack depth"
				out.script = code
				return
			}
			for i, x := range a {
				v, _ := e.EvalStack.Peek(int64(len(a) - 1 - i))
				got, gerr := v.AsBigInt()
				if gerr != nil || got.Cmp(x) != 0 {
					out.bad = fmt.Sprintf("operand prelude produced %v for %v", got, x)
					out.script = code
					return
				}
			}
			out.script = append(append([]byte{}, code...), byte(op.code))
			state, err = e.ExecuteOp(op.code, e.Context)
		} else {
			code = append(code, byte(op.code))
			out.script = code
			e = newExecutor(code)
			err = e.Execute()
			state = e.State
		}
		if err != nil || state == neovm.FAULT {
			out.fault = true
			if err != nil {
				out.errText = err.Error()
			}
			return
		}
		if variant == varArith {
			// alt stack (top first): copy of operand len-1, ..., copy of operand 0
			for i := range a {
				v, aerr := e.AltStack.Peek(int64(len(a) - 1 - i))
				if aerr != nil {
					out.bad = "parked operand copy missing: " + aerr.Error()
					return
				}
				got, gerr := v.AsBigInt()
				if gerr != nil || got.Cmp(a[i]) != 0 {
					out.aliasChanged = fmt.Sprintf("operand %d: the copy parked on the alt stack now reads %v, was %v", i, got, a[i])
					break
				}
			}
		}
		out.count = e.EvalStack.Count()
		top, perr := e.EvalStack.Peek(0)
		if perr != nil {
			out.bad = "no result on stack: " + perr.Error()
			return
		}
		out.isBool = top.GetType() == types.BooleanType
		if bi, err := top.AsBigInt(); err == nil {
			out.big = new(big.Int).Set(bi)
		}
		if raw, err := top.AsBytes(); err == nil {
			out.raw = append([]byte{}, raw...)
		}
		if out.isBool {
			out.b, _ = top.AsBool()
		}
	})
	return
}

// ---------------------------------------------------------------- judge

type local struct {
	counts map[string]int64
}

var (
	keyMu     sync.Mutex
	keyCounts = map[string]int{}
)

// violation forwards to vf and keeps a complete key histogram (vf prints only the first 10 keys).
func violation(r *vf.Run, key, what string, witness interface{}) {
	keyMu.Lock()
	keyCounts[key]++
	keyMu.Unlock()
	r.Violation(key, what, witness)
}

func (l *local) c(s string) { l.counts[s]++ }

func decs(a []*big.Int) []string {
	s := make([]string, len(a))
	for i, x := range a {
		s[i] = x.String()
	}
	return s
}

func judge(r *vf.Run, l *local, op *opSpec, a []*big.Int, rng *vf.RNG, src string) {
	for _, x := range a {
		if !inBound(x) {
			panic("generator produced out-of-bound operand")
		}
	}
	exp := op.ref(a)
	path := pathOf(a)
	shapeKey := func() (string, string) { // computed only when a violation is reported
		if op.name == "shl" || op.name == "shr" {
			// shifts do not go through intOp: the structural class is (class of count, sign of value)
			return countClass(a[1]), []string{"neg", "zero", "pos"}[a[0].Sign()+1]
		}
		shapes := make([]string, len(a))
		for i, x := range a {
			shapes[i] = shape(x)
		}
		return path, strings.Join(shapes, "/")
	}
	l.c("op_" + op.name)
	l.c("branch_" + exp.why)
	l.c("path_" + path)
	if path == "int64fast" && exp.v != nil && !exp.v.IsInt64() {
		l.c("fast_operands_big_result")
	}
	if path == "int64fast" && exp.fault && exp.why == "overflow_bound" {
		l.c("fast_operands_overflow_bound")
	}
	if exp.v != nil && exp.v.BitLen() > 248 {
		l.c("result_near_bound")
	}
	fp := ""
	nontrivial := false
	for _, x := range a {
		if x.BitLen() > 1 {
			nontrivial = true
		}
	}
	if nontrivial {
		h := uint64(14695981039346656037)
		mixb := func(b byte) { h ^= uint64(b); h *= 1099511628211 }
		mixb(byte(op.code))
		for _, x := range a {
			for _, b := range neoBytes(x) {
				mixb(b)
			}
			mixb(0xfe)
			mixb(byte(x.Sign() + 1))
		}
		var hb [8]byte
		for i := range hb {
			hb[i] = byte(h >> (8 * uint(i)))
		}
		fp = string(hb[:])
	}
	r.Eval(fp)

	for variant := varMin; variant <= varArith; variant++ {
		out, p := runVM(op, a, variant, rng)
		wit := func(extra string) map[string]interface{} {
			w := map[string]interface{}{
				"opcode": strings.ToUpper(op.name), "operands_decimal": decs(a), "operand_representation": varName[variant],
				"script_hex": vf.Hex(out.script), "source": src, "oracle_branch": exp.why,
			}
			switch {
			case exp.fault:
				w["expected"] = "FAULT (" + exp.why + ")"
			case exp.isBool:
				w["expected"] = exp.b
			default:
				w["expected"] = exp.v.String()
				w["expected_neobytes"] = vf.Hex(neoBytes(exp.v))
			}
			if out.fault {
				w["got"] = "FAULT: " + out.errText
			} else if out.big != nil {
				w["got"] = out.big.String()
				w["got_neobytes"] = vf.Hex(out.raw)
			}
			if extra != "" {
				w["note"] = extra
			}
			return w
		}
		key := func(clause string) string {
			p, shp := shapeKey()
			return fmt.Sprintf("%s:%s:%s:%s", op.name, p, shp, clause)
		}
		if p != nil {
			violation(r, key("panic"), fmt.Sprintf("%s panicked: %v", strings.ToUpper(op.name), p), wit(fmt.Sprint(p)))
			continue
		}
		if out.bad != "" {
			// the operand prelude (VM ADD) did not reproduce the operand: that is itself a wrong ADD
			violation(r, key("prelude-add-wrong"), out.bad, wit(out.bad))
			continue
		}
		l.c("variant_" + varName[variant])
		if out.aliasChanged != "" {
			violation(r, key("operand-copy-changed"), fmt.Sprintf("%s %v: %s", strings.ToUpper(op.name), decs(a), out.aliasChanged), wit(out.aliasChanged))
			continue
		}
		if variant == varArith && !out.fault {
			l.c("operand_copies_parked_on_alt_stack_checked")
		}
		switch {
		case exp.fault:
			if !out.fault {
				violation(r, key("missing-fault"), fmt.Sprintf("%s %v must fault (%s) but returned %v", strings.ToUpper(op.name), decs(a), exp.why, out.big), wit(""))
			} else {
				l.c("ok_fault")
			}
		case out.fault:
			if exp.mayFault {
				l.c("ok_shl_gt256_fault_tolerated")
			} else {
				want := fmt.Sprint(exp.b)
				if !exp.isBool {
					want = exp.v.String()
				}
				violation(r, key("spurious-fault"), fmt.Sprintf("%s %v faulted (%s) but the exact result %s fits the bound", strings.ToUpper(op.name), decs(a), out.errText, want), wit(""))
			}
		case out.count != 1:
			violation(r, key("stack-depth"), fmt.Sprintf("%d items left on the stack", out.count), wit(""))
		case exp.isBool:
			if out.big == nil || !out.isBool || out.b != exp.b || out.big.Cmp(big.NewInt(b2i(exp.b))) != 0 {
				violation(r, key("wrong-bool"), fmt.Sprintf("%s %v returned %v, exact %v", strings.ToUpper(op.name), decs(a), out.big, exp.b), wit(""))
			} else {
				l.c("ok_bool")
			}
		default:
			if out.big == nil || out.big.Cmp(exp.v) != 0 {
				violation(r, key("wrong-value"), fmt.Sprintf("%s %v returned %v, exact %v", strings.ToUpper(op.name), decs(a), out.big, exp.v), wit(""))
			} else if !bytes.Equal(out.raw, neoBytes(exp.v)) {
				violation(r, key("wrong-encoding"), fmt.Sprintf("result %v re-encodes as %x, expected %x", exp.v, out.raw, neoBytes(exp.v)), wit(""))
			} else {
				l.c("ok_value")
				if exp.mayFault {
					l.c("ok_shl_gt256_value")
				}
			}
		}
	}
}

func b2i(b bool) int64 {
	if b {
		return 1
	}
	return 0
}

// ---------------------------------------------------------------- generators

func randMag(rng *vf.RNG, nbytes int) *big.Int {
	if nbytes == 0 {
		return new(big.Int)
	}
	b := rng.Bytes(nbytes)
	if rng.Chance(50) {
		b[0] |= 0x80 // full length
	}
	return new(big.Int).SetBytes(b)
}

func signed(rng *vf.RNG, x *big.Int) *big.Int {
	if rng.Bool() {
		return x.Neg(x)
	}
	return x
}

func genOperand(rng *vf.RNG) *big.Int {
	switch c := rng.Intn(100); {
	case c < 30:
		return signed(rng, randMag(rng, rng.Intn(33)))
	case c < 55:
		b := boundary[rng.Intn(len(boundary))].v
		return clamp(plus(b, int64(rng.Intn(7)-3)))
	case c < 75:
		bits := 1 + rng.Intn(63)
		v := new(big.Int).SetUint64(rng.U64() >> uint(64-bits))
		return signed(rng, v)
	case c < 87:
		v := plus(pow2(uint(rng.Intn(257))), int64(rng.Intn(5)-2))
		return clamp(signed(rng, v))
	default:
		return big.NewInt(int64(rng.Intn(601) - 300))
	}
}

var targets []*big.Int

func initTargets() {
	for _, t := range []*big.Int{maxInt64, minInt64, pow2(63), neg(plus(pow2(63), 1)), maxMag, neg(maxMag), pow2(255), neg(pow2(255)), pow2(64), pow2(128)} {
		targets = append(targets, t)
	}
}

// genCase draws an opcode and operands; a share of the cases is steered to results near the
// int64 edge and the 2^256 bound.
func genCase(rng *vf.RNG) (*opSpec, []*big.Int) {
	op := &ops[rng.Intn(len(ops))]
	a := make([]*big.Int, op.arity)
	for i := range a {
		a[i] = genOperand(rng)
	}
	steer := rng.Chance(40)
	t := plus(targets[rng.Intn(len(targets))], int64(rng.Intn(5)-2))
	switch op.name {
	case "add":
		if steer { // a + b = t
			a[1] = clamp(new(big.Int).Sub(t, a[0]))
		}
	case "sub":
		if steer { // a - b = t
			a[1] = clamp(new(big.Int).Sub(a[0], t))
		}
	case "mul":
		if steer && a[0].Sign() != 0 { // a * b ~ t
			a[1] = clamp(plus(new(big.Int).Quo(t, a[0]), int64(rng.Intn(3)-1)))
		}
	case "div", "mod":
		if steer && a[1].Sign() != 0 { // a = q*b + r
			q := genOperand(rng)
			rem := new(big.Int)
			if rng.Bool() {
				rem = new(big.Int).Rem(genOperand(rng), a[1])
			}
			a[0] = clamp(new(big.Int).Add(new(big.Int).Mul(q, a[1]), rem))
		}
		if rng.Chance(4) {
			a[1] = new(big.Int)
		}
	case "shl", "shr":
		switch c := rng.Intn(100); {
		case c < 70:
			a[1] = big.NewInt(int64(rng.Intn(258)))
		case c < 80:
			a[1] = big.NewInt(int64(257 + rng.Intn(400)))
		case c < 86:
			a[1] = big.NewInt(-int64(1 + rng.Intn(300)))
		}
		if rng.Chance(12) {
			a[0] = new(big.Int) // 0 << n, 0 >> n: the only value whose SHL by > 256 still fits
		}
		if op.name == "shl" && steer && a[1].Sign() >= 0 && a[1].Cmp(big.NewInt(256)) <= 0 {
			// a << b lands next to the bound or the int64 edge
			s := uint(a[1].Int64())
			a[0] = clamp(plus(new(big.Int).Rsh(t, s), int64(rng.Intn(3)-1)))
		}
	case "within":
		if steer { // x at the edges of [a, b)
			switch rng.Intn(4) {
			case 0:
				a[0] = new(big.Int).Set(a[1])
			case 1:
				a[0] = new(big.Int).Set(a[2])
			case 2:
				a[0] = clamp(plus(a[2], -1))
			default:
				a[0] = clamp(plus(a[1], -1))
			}
		}
	case "lt", "gt", "lte", "gte", "numequal", "numnotequal", "min", "max":
		if steer {
			a[1] = clamp(plus(a[0], int64(rng.Intn(3)-1)))
		}
	}
	return op, a
}

// ---------------------------------------------------------------- main

func main() {
	r := vf.NewRun("C13", "exploration",
		"(opcode, operand tuple) cases, each run in 3 operand representations against math/big: exhaustive tuples over a 25-value boundary set (int64 edges, 2^31/32/63/64, 2^255, 2^256-1, all signs) for every opcode, a shift-count grid, plus seeded random tuples of random byte length steered toward results at the int64 edge and the 2^256 bound; non-trivial when an operand has more than one bit; distinct by (opcode, operands)")
	initBoundary()
	initTargets()
	rng := vf.NewRNG(vf.Seed())

	flush := func(l *local) {
		for k, v := range l.counts {
			r.Add(k, v)
		}
	}

	// -- 1. exhaustive boundary tuples
	type job struct {
		op *opSpec
		a  []*big.Int
	}
	var jobs []job
	shiftCounts := []*big.Int{}
	for _, c := range []int64{0, 1, 2, 7, 8, 31, 32, 62, 63, 64, 65, 127, 128, 191, 192, 193, 254, 255, 256, 257, 300, 1 << 31, -1, -256} {
		shiftCounts = append(shiftCounts, big.NewInt(c))
	}
	shiftCounts = append(shiftCounts, pow2(63), pow2(64), minInt64, maxInt64, maxMag, neg(maxMag))
	for i := range ops {
		op := &ops[i]
		switch op.arity {
		case 1:
			for _, x := range boundary {
				jobs = append(jobs, job{op, []*big.Int{x.v}})
			}
		case 2:
			for _, x := range boundary {
				for _, y := range boundary {
					jobs = append(jobs, job{op, []*big.Int{x.v, y.v}})
				}
				if op.name == "shl" || op.name == "shr" {
					for _, c := range shiftCounts {
						jobs = append(jobs, job{op, []*big.Int{x.v, c}})
					}
				}
			}
		case 3:
			for _, x := range boundary {
				for _, y := range boundary {
					for _, z := range boundary {
						jobs = append(jobs, job{op, []*big.Int{x.v, y.v, z.v}})
					}
				}
			}
		}
	}
	r.Extra("boundary_values", len(boundary))
	r.Extra("boundary_grid_case_count", len(jobs))
	const chunk = 2000
	nch := (len(jobs) + chunk - 1) / chunk
	vf.Parallel(nch, 8, func(ci int) {
		l := &local{counts: map[string]int64{}}
		sub := rng.Sub(uint64(1_000_000_000 + ci))
		for k := ci * chunk; k < (ci+1)*chunk && k < len(jobs); k++ {
			judge(r, l, jobs[k].op, jobs[k].a, sub, "boundary-grid")
		}
		l.counts["boundary_grid_cases"] += int64(minInt((ci+1)*chunk, len(jobs)) - ci*chunk)
		flush(l)
	})

	// -- 2. random cases
	recycle = true
	nr := vf.N(100_000, 5_000_000)
	nrch := (nr + chunk - 1) / chunk
	vf.Parallel(nrch, 8, func(ci int) {
		l := &local{counts: map[string]int64{}}
		for k := ci * chunk; k < (ci+1)*chunk && k < nr; k++ {
			sub := rng.Sub(uint64(k))
			op, a := genCase(sub)
			judge(r, l, op, a, sub, fmt.Sprintf("random#%d", k))
			if k < 4 {
				r.Sample(map[string]interface{}{"case": k, "opcode": strings.ToUpper(op.name), "operands": decs(a)})
			}
		}
		l.counts["random_cases"] += int64(minInt((ci+1)*chunk, nr) - ci*chunk)
		flush(l)
	})
	r.Sample(map[string]interface{}{"boundary_set": func() []string {
		s := []string{}
		for _, b := range boundary {
			s = append(s, b.name)
		}
		sort.Strings(s)
		return s
	}()})

	// -- every oracle branch / workload shape must have been exercised
	for i := range ops {
		r.Require("op_"+ops[i].name, 500)
	}
	for _, c := range []string{"branch_value", "branch_bool", "branch_overflow_bound", "branch_div_by_zero", "branch_neg_shift",
		"branch_shr_gt256", "branch_shl_gt256_zero", "ok_shl_gt256_fault_tolerated",
		"path_int64fast", "path_bigpath", "path_mixedpath", "fast_operands_big_result", "result_near_bound",
		"variant_minimal-bytes", "variant_padded-bytes", "variant_vm-arithmetic", "ok_value", "ok_bool", "ok_fault"} {
		r.Require(c, 50)
	}
	if len(keyCounts) > 0 {
		r.Extra("violation_keys", keyCounts)
	}
	r.Assume("the VM integer bound is |x| < 2^256 (magnitude of at most 32 bytes), as IntValFromBigInt defines it; operands are generated inside it")
	r.Assume("SHL with a count above 256 may fault even when the exact result (0) fits: documented VM limit (DESIGN §8)")
	r.Assume("SHR is an arithmetic shift (floor division by 2^count), as math/big Rsh")
	r.Finish()
}

func minInt(a, b int) int {
	if a < b {
		return a
	}
	return b
}
