// C14 — NeoVM value serialization round-trips and rejects cycles safely.
//
// Three oracles on the real vm/neovm/types code:
//
//	(1) acyclic values within the depth (every node at depth <= 10) and size (encoding <=
//	    1 MiB) limits: Serialize succeeds and is deterministic, Deserialize gives a value
//	    structurally equal to the generated specification (own recursive comparer, maps
//	    by key), re-serialization is byte-identical; shared (DAG) sub-values are not
//	    rejected as "circular" by Serialize / BuildParamToNative / Stringify;
//	(2) arbitrary byte strings: Deserialize returns or errors, never panics; a returned
//	    value within the depth limit serializes, deserializes again to an equal value and
//	    re-serializes to the same bytes (fix point);
//	(3) values with a reference cycle closed at any element position / map entry, direct or
//	    through 2-3 containers, optionally below an acyclic wrapper: Serialize and
//	    BuildParamToNative must return an error; ConvertNeoVmValueHexString, Stringify and
//	    Dump must terminate.  A cyclic value can end in `fatal error: stack overflow`,
//	    which no recover() catches, so every cyclic (case, operation) item runs in a child
//	    process (this binary re-executed); the item id is written to disk before it runs
//	    and the parent turns the death of a child into the witness.
package main

import (
	"bufio"
	"bytes"
	"encoding/json"
	"fmt"
	"math/big"
	"os"
	"os/exec"
	"path/filepath"
	"runtime/debug"
	"sort"
	"strconv"
	"strings"
	"sync"
	"sync/atomic"
	"time"

	"github.com/ontio/ontology/common"
	"github.com/ontio/ontology/vm/neovm"
	"github.com/ontio/ontology/vm/neovm/types"
	"verifharness/lib/vf"
)

const (
	depthLimit = 10          // types.MAX_STRUCT_DEPTH: nodes at depth 0..10 are accepted
	sizeLimit  = 1024 * 1024 // constants.MAX_BYTEARRAY_SIZE
)

// ---------------------------------------------------------------- value specification

type node struct {
	kind byte // 'b' bytes, 'i' integer, 't' bool, 'a' array, 's' struct, 'm' map
	bs   []byte
	iv   *big.Int
	bv   bool
	kids []*node // array/struct elements, map values
	keys []*node // map keys (primitive), parallel to kids, sorted by key string
}

func (n *node) container() bool { return n.kind == 'a' || n.kind == 's' || n.kind == 'm' }

var one = big.NewInt(1)

// neoBytes: own minimal little-endian two's complement encoder.
func neoBytes(x *big.Int) []byte {
	if x.Sign() == 0 {
		return []byte{}
	}
	var n int
	if x.Sign() > 0 {
		n = x.BitLen()/8 + 1
	} else {
		n = new(big.Int).Not(x).BitLen()/8 + 1
	}
	v := new(big.Int).Mod(x, new(big.Int).Lsh(one, uint(8*n)))
	be := v.Bytes()
	out := make([]byte, n)
	for i := 0; i < len(be); i++ {
		out[i] = be[len(be)-1-i]
	}
	return out
}

// keyString is the map key of a primitive (the VM uses the AsBytes image).
func keyString(n *node) string {
	switch n.kind {
	case 'b':
		return string(n.bs)
	case 'i':
		return string(neoBytes(n.iv))
	case 't':
		if n.bv {
			return "\x01"
		}
		return "\x00"
	}
	panic("non-primitive key")
}

func putVarUint(b []byte, v uint64) []byte {
	switch {
	case v < 0xFD:
		return append(b, byte(v))
	case v <= 0xFFFF:
		return append(b, 0xFD, byte(v), byte(v>>8))
	case v <= 0xFFFFFFFF:
		return append(b, 0xFE, byte(v), byte(v>>8), byte(v>>16), byte(v>>24))
	}
	b = append(b, 0xFF)
	for i := 0; i < 8; i++ {
		b = append(b, byte(v>>(8*uint(i))))
	}
	return b
}

// encode is the harness' own encoder of the serialization format.  It is used to know the
// encoded size of a specification (size limit), to fingerprint cases and as the base of the
// mutated byte strings; it is not a verdict (agreement with Serialize is only counted).
// It stops early once the output exceeds `max` bytes.
func encode(n *node, out []byte, max int) []byte {
	if len(out) > max {
		return out
	}
	switch n.kind {
	case 'b':
		out = append(out, 0x00)
		out = putVarUint(out, uint64(len(n.bs)))
		out = append(out, n.bs...)
	case 'i':
		b := neoBytes(n.iv)
		out = append(out, 0x02)
		out = putVarUint(out, uint64(len(b)))
		out = append(out, b...)
	case 't':
		out = append(out, 0x01)
		if n.bv {
			out = append(out, 1)
		} else {
			out = append(out, 0)
		}
	case 'a', 's':
		if n.kind == 'a' {
			out = append(out, 0x80)
		} else {
			out = append(out, 0x81)
		}
		out = putVarUint(out, uint64(len(n.kids)))
		for _, k := range n.kids {
			out = encode(k, out, max)
		}
	case 'm':
		out = append(out, 0x82)
		out = putVarUint(out, uint64(len(n.kids)))
		for i, k := range n.kids {
			out = encode(n.keys[i], out, max)
			out = encode(k, out, max)
		}
	}
	return out
}

// height: maximum node depth below n (n itself at 0); acyclic specs only.
func height(n *node, memo map[*node]int) int {
	if h, ok := memo[n]; ok {
		return h
	}
	h := 0
	for _, k := range n.kids {
		if c := height(k, memo) + 1; c > h {
			h = c
		}
	}
	if n.kind == 'm' && len(n.kids) > 0 && h < 1 {
		h = 1
	}
	memo[n] = h
	return h
}

// shared reports whether some container is referenced more than once.
func shared(root *node) bool {
	seen := map[*node]bool{}
	var dup bool
	var walk func(n *node)
	walk = func(n *node) {
		if !n.container() {
			return
		}
		if seen[n] {
			dup = true
			return
		}
		seen[n] = true
		for _, k := range n.kids {
			walk(k)
		}
	}
	walk(root)
	return dup
}

func hasKind(root *node, kind byte) bool {
	seen := map[*node]bool{}
	var walk func(n *node) bool
	walk = func(n *node) bool {
		if n.kind == kind {
			return true
		}
		if seen[n] {
			return false
		}
		seen[n] = true
		for _, k := range n.kids {
			if walk(k) {
				return true
			}
		}
		return false
	}
	return walk(root)
}

// describe renders a specification (shared and cyclic references as &k / *k labels); it is
// the concrete, generator-independent form of a witness.
func describe(root *node) string {
	refs := map[*node]int{}
	var count func(n *node)
	count = func(n *node) {
		if !n.container() {
			return
		}
		refs[n]++
		if refs[n] > 1 {
			return
		}
		for _, k := range n.kids {
			count(k)
		}
	}
	count(root)
	labels := map[*node]int{}
	var sb strings.Builder
	var pr func(n *node)
	prim := func(n *node) {
		switch n.kind {
		case 'b':
			if len(n.bs) > 24 {
				fmt.Fprintf(&sb, "bytes(%x..,len=%d)", n.bs[:24], len(n.bs))
			} else {
				fmt.Fprintf(&sb, "bytes(%x)", n.bs)
			}
		case 'i':
			fmt.Fprintf(&sb, "int(%s)", n.iv.String())
		case 't':
			fmt.Fprintf(&sb, "bool(%v)", n.bv)
		}
	}
	pr = func(n *node) {
		if sb.Len() > 6000 {
			sb.WriteString("…")
			return
		}
		if !n.container() {
			prim(n)
			return
		}
		if id, ok := labels[n]; ok {
			fmt.Fprintf(&sb, "*%d", id)
			return
		}
		if refs[n] > 1 {
			labels[n] = len(labels) + 1
			fmt.Fprintf(&sb, "&%d", labels[n])
		}
		switch n.kind {
		case 'a':
			sb.WriteString("array[")
		case 's':
			sb.WriteString("struct[")
		case 'm':
			sb.WriteString("map{")
		}
		for i, k := range n.kids {
			if i > 0 {
				sb.WriteString(", ")
			}
			if n.kind == 'm' {
				prim(n.keys[i])
				sb.WriteString(": ")
			}
			pr(k)
		}
		if n.kind == 'm' {
			sb.WriteString("}")
		} else {
			sb.WriteString("]")
		}
	}
	pr(root)
	return sb.String()
}

// build turns a specification into a real VmValue.  Containers are memoised, so a node
// referenced twice becomes one shared container and a back edge becomes a reference cycle.
func build(n *node, memo map[*node]types.VmValue) types.VmValue {
	switch n.kind {
	case 'b':
		v, err := types.VmValueFromBytes(append([]byte{}, n.bs...))
		if err != nil {
			panic(err)
		}
		return v
	case 'i':
		v, err := types.VmValueFromBigInt(new(big.Int).Set(n.iv))
		if err != nil {
			panic(err)
		}
		return v
	case 't':
		return types.VmValueFromBool(n.bv)
	}
	if v, ok := memo[n]; ok {
		return v
	}
	switch n.kind {
	case 'a':
		arr := types.NewArrayValue()
		v := types.VmValueFromArrayVal(arr)
		memo[n] = v
		for _, k := range n.kids {
			if err := arr.Append(build(k, memo)); err != nil {
				panic(err)
			}
		}
		return v
	case 's':
		st := types.NewStructValue()
		v := types.VmValueFromStructVal(st)
		memo[n] = v
		for _, k := range n.kids {
			if err := st.Append(build(k, memo)); err != nil {
				panic(err)
			}
		}
		return v
	case 'm':
		mp := types.NewMapValue()
		v := types.VmValueFromMapValue(mp)
		memo[n] = v
		// the map is not only filled: like a contract would, the construction also overwrites entries and
		// removes keys, present and ABSENT ones (before, between and after the present keys) — the final
		// content is the spec's.  Decisions are a function of the key bytes, so the case is reproducible.
		present := map[string]bool{}
		for _, kn := range n.keys {
			present[keyString(kn)] = true
		}
		dummy := types.VmValueFromBool(true)
		absent := func(b []byte) {
			if present[string(b)] {
				return
			}
			kv, err := types.VmValueFromBytes(b)
			if err != nil {
				return
			}
			mapHistoryOps.Add(1)
			_ = mp.Remove(kv)
		}
		for i, k := range n.kids {
			kb := []byte(keyString(n.keys[i]))
			h := uint32(2166136261)
			for _, c := range kb {
				h = (h ^ uint32(c)) * 16777619
			}
			if h&1 == 1 { // a value that is overwritten afterwards
				if err := mp.Set(build(n.keys[i], memo), dummy); err != nil {
					panic(err)
				}
			}
			if err := mp.Set(build(n.keys[i], memo), build(k, memo)); err != nil {
				panic(err)
			}
			if h&2 == 2 { // absent key sorting right after / right before this one
				absent(append(append([]byte{}, kb...), 0))
				if len(kb) > 0 {
					absent(kb[:len(kb)-1])
				}
			}
			if h&4 == 4 { // an extra entry that is removed again, then removed once more
				eb := append(append([]byte{}, kb...), 0xff, byte(h>>8))
				if !present[string(eb)] {
					if ek, err := types.VmValueFromBytes(eb); err == nil {
						if err := mp.Set(ek, dummy); err != nil {
							panic(err)
						}
						mapHistoryOps.Add(2)
						_ = mp.Remove(ek)
						_ = mp.Remove(ek)
					}
				}
			}
			if h&8 == 8 {
				absent([]byte{})
				absent([]byte{0xff, 0xff, 0xff, 0xff})
			}
		}
		return v
	}
	panic("bad kind")
}

var mapHistoryOps atomic.Int64

// ---------------------------------------------------------------- own structural comparers

func kindName(t byte) string {
	switch t {
	case types.ByteArrayType:
		return "bytes"
	case types.BooleanType:
		return "bool"
	case types.IntegerType:
		return "int"
	case types.ArrayType:
		return "array"
	case types.StructType:
		return "struct"
	case types.MapType:
		return "map"
	}
	return fmt.Sprintf("type%#x", t)
}

// cmpSpec compares a decoded value with the specification; "" when equal, otherwise
// (structural clause, human description).
func cmpSpec(n *node, v types.VmValue, path string) (string, string) {
	want := map[byte]byte{'b': types.ByteArrayType, 'i': types.IntegerType, 't': types.BooleanType, 'a': types.ArrayType, 's': types.StructType, 'm': types.MapType}[n.kind]
	if v.GetType() != want {
		return "type:" + kindName(want), fmt.Sprintf("%s: type %s, expected %s", path, kindName(v.GetType()), kindName(want))
	}
	switch n.kind {
	case 'b':
		b, err := v.AsBytes()
		if err != nil || !bytes.Equal(b, n.bs) {
			return "value:bytes", fmt.Sprintf("%s: bytes %x, expected %x", path, b, n.bs)
		}
	case 'i':
		bi, err := v.AsBigInt()
		if err != nil || bi.Cmp(n.iv) != 0 {
			return "value:int", fmt.Sprintf("%s: int %v, expected %v", path, bi, n.iv)
		}
	case 't':
		b, err := v.AsBool()
		if err != nil || b != n.bv {
			return "value:bool", fmt.Sprintf("%s: bool %v, expected %v", path, b, n.bv)
		}
	case 'a', 's':
		var data []types.VmValue
		if n.kind == 'a' {
			a, _ := v.AsArrayValue()
			data = a.Data
		} else {
			s, _ := v.AsStructValue()
			data = s.Data
		}
		if len(data) != len(n.kids) {
			return "length:" + kindName(want), fmt.Sprintf("%s: %d elements, expected %d", path, len(data), len(n.kids))
		}
		for i, k := range n.kids {
			if c, d := cmpSpec(k, data[i], fmt.Sprintf("%s[%d]", path, i)); c != "" {
				return c, d
			}
		}
	case 'm':
		mp, _ := v.AsMapValue()
		if len(mp.Data) != len(n.kids) {
			return "length:map", fmt.Sprintf("%s: %d entries, expected %d", path, len(mp.Data), len(n.kids))
		}
		for i, k := range n.kids {
			ks := keyString(n.keys[i])
			ent, ok := mp.Data[ks]
			if !ok {
				return "mapkey-missing", fmt.Sprintf("%s: key %x missing", path, ks)
			}
			if c, d := cmpSpec(n.keys[i], ent[0], fmt.Sprintf("%s{key %x}", path, ks)); c != "" {
				return "mapkey-" + c, d
			}
			if c, d := cmpSpec(k, ent[1], fmt.Sprintf("%s{%x}", path, ks)); c != "" {
				return c, d
			}
		}
	}
	return "", ""
}

// cmpVal compares two real values structurally (both acyclic: they come out of Deserialize).
func cmpVal(a, b types.VmValue, path string) (string, string) {
	if a.GetType() != b.GetType() {
		return "type", fmt.Sprintf("%s: %s vs %s", path, kindName(a.GetType()), kindName(b.GetType()))
	}
	switch a.GetType() {
	case types.ByteArrayType, types.IntegerType, types.BooleanType:
		x, e1 := a.AsBytes()
		y, e2 := b.AsBytes()
		if e1 != nil || e2 != nil || !bytes.Equal(x, y) {
			return "value:" + kindName(a.GetType()), fmt.Sprintf("%s: %x vs %x", path, x, y)
		}
		if !a.Equals(b) {
			return "equals:" + kindName(a.GetType()), fmt.Sprintf("%s: Equals() false on identical primitive %x", path, x)
		}
	case types.ArrayType, types.StructType:
		var da, db []types.VmValue
		if a.GetType() == types.ArrayType {
			x, _ := a.AsArrayValue()
			y, _ := b.AsArrayValue()
			da, db = x.Data, y.Data
		} else {
			x, _ := a.AsStructValue()
			y, _ := b.AsStructValue()
			da, db = x.Data, y.Data
		}
		if len(da) != len(db) {
			return "length:" + kindName(a.GetType()), fmt.Sprintf("%s: %d vs %d elements", path, len(da), len(db))
		}
		for i := range da {
			if c, d := cmpVal(da[i], db[i], fmt.Sprintf("%s[%d]", path, i)); c != "" {
				return c, d
			}
		}
	case types.MapType:
		x, _ := a.AsMapValue()
		y, _ := b.AsMapValue()
		if len(x.Data) != len(y.Data) {
			return "length:map", fmt.Sprintf("%s: %d vs %d entries", path, len(x.Data), len(y.Data))
		}
		keys := make([]string, 0, len(x.Data))
		for k := range x.Data {
			keys = append(keys, k)
		}
		sort.Strings(keys)
		for _, k := range keys {
			ex := x.Data[k]
			ey, ok := y.Data[k]
			if !ok {
				return "mapkey-missing", fmt.Sprintf("%s: key %x missing", path, k)
			}
			if c, d := cmpVal(ex[0], ey[0], fmt.Sprintf("%s{key %x}", path, k)); c != "" {
				return "mapkey-" + c, d
			}
			if c, d := cmpVal(ex[1], ey[1], fmt.Sprintf("%s{%x}", path, k)); c != "" {
				return c, d
			}
		}
	default:
		return "type-unexpected", fmt.Sprintf("%s: %s", path, kindName(a.GetType()))
	}
	return "", ""
}

func heightVal(v types.VmValue) int {
	h := 0
	up := func(c int) {
		if c+1 > h {
			h = c + 1
		}
	}
	switch v.GetType() {
	case types.ArrayType:
		a, _ := v.AsArrayValue()
		for _, e := range a.Data {
			up(heightVal(e))
		}
	case types.StructType:
		s, _ := v.AsStructValue()
		for _, e := range s.Data {
			up(heightVal(e))
		}
	case types.MapType:
		m, _ := v.AsMapValue()
		for _, e := range m.Data {
			up(heightVal(e[1]))
		}
	}
	return h
}

// ---------------------------------------------------------------- generators (acyclic)

func genInt(rng *vf.RNG) *big.Int {
	var x *big.Int
	switch rng.Intn(6) {
	case 0:
		x = big.NewInt(int64(rng.Intn(400) - 200))
	case 1:
		x = new(big.Int).SetUint64(rng.U64() >> uint(rng.Intn(64)))
	case 2:
		x = new(big.Int).SetBytes(rng.Bytes(rng.Intn(33)))
	case 3:
		x = new(big.Int).Lsh(one, uint(rng.Intn(256)))
		x.Add(x, big.NewInt(int64(rng.Intn(3)-1)))
	case 4:
		x = new(big.Int).Sub(new(big.Int).Lsh(one, 256), one) // 2^256-1, the bound
	default:
		x = new(big.Int).Lsh(one, 63)
		x.Add(x, big.NewInt(int64(rng.Intn(5)-2)))
	}
	if rng.Bool() {
		x.Neg(x)
	}
	return x
}

func genPrim(rng *vf.RNG) *node {
	switch rng.Intn(10) {
	case 0, 1, 2, 3:
		n := 0
		switch rng.Intn(8) {
		case 0:
			n = 0
		case 1:
			n = 1
		case 2:
			n = 200 + rng.Intn(200) // needs a 3-byte varuint
		default:
			n = rng.Intn(40)
		}
		return &node{kind: 'b', bs: rng.Bytes(n)}
	case 4, 5, 6, 7:
		return &node{kind: 'i', iv: genInt(rng)}
	default:
		return &node{kind: 't', bv: rng.Bool()}
	}
}

type genCtx struct {
	rng    *vf.RNG
	budget int     // remaining node budget
	pool   []*node // completed containers (may be shared: keeps the graph acyclic)
	hm     map[*node]int
	share  int // percent chance of re-using a completed container
}

func (g *genCtx) gen(depthLeft int) *node {
	g.budget--
	if depthLeft <= 0 || g.budget <= 0 || g.rng.Chance(45) {
		return genPrim(g.rng)
	}
	if len(g.pool) > 0 && g.rng.Chance(g.share) {
		for try := 0; try < 4; try++ {
			c := g.pool[g.rng.Intn(len(g.pool))]
			if height(c, g.hm) <= depthLeft {
				return c
			}
		}
	}
	nk := g.rng.Intn(5)
	if g.rng.Chance(8) {
		nk = 5 + g.rng.Intn(30)
	}
	var n *node
	switch k := g.rng.Intn(10); {
	case k < 4:
		n = &node{kind: 'a'}
	case k < 7:
		n = &node{kind: 's'}
	default:
		n = &node{kind: 'm'}
	}
	if n.kind == 'm' {
		g.fillMap(n, nk, depthLeft)
	} else {
		for i := 0; i < nk; i++ {
			n.kids = append(n.kids, g.gen(depthLeft-1))
		}
	}
	g.pool = append(g.pool, n)
	return n
}

func (g *genCtx) fillMap(n *node, nk, depthLeft int) {
	type ent struct {
		k, v *node
		ks   string
	}
	var ents []ent
	seen := map[string]bool{}
	for i := 0; i < nk; i++ {
		k := genPrim(g.rng)
		ks := keyString(k)
		if seen[ks] {
			continue
		}
		seen[ks] = true
		ents = append(ents, ent{k, g.gen(depthLeft - 1), ks})
	}
	sort.Slice(ents, func(i, j int) bool { return ents[i].ks < ents[j].ks })
	for _, e := range ents {
		n.keys = append(n.keys, e.k)
		n.kids = append(n.kids, e.v)
	}
}

// chain builds a value whose deepest node sits at exactly depth h, following the given
// position policy ("first", "last", "mixed") through random container kinds.
func chain(rng *vf.RNG, h int, policy string) *node {
	cur := genPrim(rng)
	for d := 0; d < h; d++ {
		nsib := 1 + rng.Intn(3)
		pos := 0
		switch policy {
		case "last":
			pos = nsib
		case "mixed":
			pos = rng.Intn(nsib + 1)
		}
		var n *node
		switch rng.Intn(3) {
		case 0:
			n = &node{kind: 'a'}
		case 1:
			n = &node{kind: 's'}
		default:
			n = &node{kind: 'm'}
		}
		if n.kind == 'm' {
			// keys 1..nsib+1 as integers: sorted by key string = numeric order here
			for i := 0; i <= nsib; i++ {
				n.keys = append(n.keys, &node{kind: 'i', iv: big.NewInt(int64(i + 1))})
				if i == pos {
					n.kids = append(n.kids, cur)
				} else {
					n.kids = append(n.kids, genPrim(rng))
				}
			}
		} else {
			for i := 0; i <= nsib; i++ {
				if i == pos {
					n.kids = append(n.kids, cur)
				} else {
					n.kids = append(n.kids, genPrim(rng))
				}
			}
		}
		cur = n
	}
	return cur
}

// ---------------------------------------------------------------- oracle 1: acyclic round trip

func fnv(b []byte) string {
	h := uint64(14695981039346656037)
	for _, c := range b {
		h ^= uint64(c)
		h *= 1099511628211
	}
	var hb [8]byte
	for i := range hb {
		hb[i] = byte(h >> (8 * uint(i)))
	}
	return string(hb[:])
}

var (
	keyMu     sync.Mutex
	keyCounts = map[string]int{}
)

func violation(r *vf.Run, key, what string, witness interface{}) {
	keyMu.Lock()
	keyCounts[key]++
	keyMu.Unlock()
	r.Violation(key, what, witness)
}

func serialize(v types.VmValue) ([]byte, error, interface{}) {
	var out []byte
	var err error
	p := vf.Catch(func() {
		sink := common.NewZeroCopySink(nil)
		err = v.Serialize(sink)
		out = sink.Bytes()
	})
	return out, err, p
}

func deserialize(b []byte) (types.VmValue, uint64, error, interface{}) {
	var v types.VmValue
	var err error
	var left uint64
	p := vf.Catch(func() {
		src := common.NewZeroCopySource(b)
		err = v.Deserialize(src)
		left = src.Len()
	})
	return v, left, err, p
}

func isCircularErr(err error) bool {
	return err != nil && strings.Contains(err.Error(), "circular")
}

// checkAcyclic judges one acyclic specification.  family names the workload shape.
func checkAcyclic(r *vf.Run, spec *node, family string, idx int) {
	hm := map[*node]int{}
	h := height(spec, hm)
	enc := encode(spec, nil, sizeLimit+16)
	within := h <= depthLimit && len(enc) <= sizeLimit
	isShared := shared(spec)
	hasMap := hasKind(spec, 'm')
	fp := ""
	if spec.container() {
		fp = "A" + fnv(enc)
	}
	r.Eval(fp)
	r.Count("acyclic_" + family)
	if isShared {
		r.Count("acyclic_with_shared_subvalue")
	}
	if hasMap {
		r.Count("acyclic_with_map")
	}
	shape := "plain"
	switch {
	case isShared:
		shape = "dag"
	case family == "size-edge":
		shape = "size-edge"
	case h >= depthLimit-1:
		shape = fmt.Sprintf("depth=%d", h)
	}
	wit := func(extra map[string]interface{}) map[string]interface{} {
		w := map[string]interface{}{"family": family, "case": idx, "value": describe(spec), "height": h, "encoded_size": len(enc)}
		if len(enc) <= 2048 {
			w["reference_encoding_hex"] = vf.Hex(enc)
		}
		for k, v := range extra {
			w[k] = v
		}
		return w
	}
	v := build(spec, map[*node]types.VmValue{})

	s1, err, p := serialize(v)
	if p != nil {
		violation(r, "roundtrip:panic:Serialize:"+shape, fmt.Sprint(p), wit(nil))
		return
	}
	if !within {
		// outside the statement's domain: only recorded
		switch {
		case h > depthLimit && err != nil:
			r.Count("overdeep_rejected_" + family)
		case h > depthLimit:
			r.Count("overdeep_accepted_" + family)
		case err != nil:
			r.Count("oversize_rejected")
		default:
			r.Count("oversize_accepted")
		}
		return
	}
	r.Count("within_limits")
	if h == depthLimit {
		r.Count("within_limits_at_depth_limit")
	}
	if len(enc) > sizeLimit-64 {
		r.Count("within_limits_at_size_limit")
	}
	if err != nil {
		if isShared && isCircularErr(err) {
			violation(r, "dag-rejected:Serialize", "acyclic value with a shared sub-value rejected as circular: "+err.Error(), wit(nil))
		} else {
			violation(r, "roundtrip:serialize-rejected:"+shape, "Serialize failed on a value within the limits: "+err.Error(), wit(nil))
		}
		return
	}
	if bytes.Equal(s1, enc) {
		r.Count("reference_encoder_agrees")
	} else {
		r.Count("reference_encoder_differs")
	}
	if s1b, err2, _ := serialize(v); err2 != nil || !bytes.Equal(s1, s1b) {
		violation(r, fmt.Sprintf("serialize-nondeterministic:map=%v", hasMap), "two Serialize calls on the same value differ", wit(map[string]interface{}{"first": vf.HexTrunc(s1, 512), "second": vf.HexTrunc(s1b, 512)}))
		return
	}
	v2, left, derr, p := deserialize(s1)
	if p != nil {
		violation(r, "roundtrip:panic:Deserialize:"+shape, fmt.Sprint(p), wit(map[string]interface{}{"serialized": vf.HexTrunc(s1, 2048)}))
		return
	}
	if derr != nil {
		violation(r, "roundtrip:deserialize-rejected:"+shape, "Deserialize(Serialize(v)) failed: "+derr.Error(), wit(map[string]interface{}{"serialized": vf.HexTrunc(s1, 2048)}))
		return
	}
	if left != 0 {
		violation(r, "roundtrip:trailing-bytes:"+shape, fmt.Sprintf("%d bytes of the serialization were not consumed", left), wit(map[string]interface{}{"serialized": vf.HexTrunc(s1, 2048)}))
		return
	}
	if c, d := cmpSpec(spec, v2, "v"); c != "" {
		violation(r, "roundtrip:not-equal:"+c, d, wit(map[string]interface{}{"serialized": vf.HexTrunc(s1, 2048)}))
		return
	}
	r.Count("roundtrip_equal")
	if !spec.container() {
		if !v.Equals(v2) {
			violation(r, "roundtrip:equals-false:"+string(spec.kind), "Equals() false between a primitive and its round trip", wit(nil))
			return
		}
		r.Count("roundtrip_equals_primitive")
	}
	s2, err, _ := serialize(v2)
	if err != nil || !bytes.Equal(s1, s2) {
		violation(r, fmt.Sprintf("roundtrip:reserialize-differs:map=%v", hasMap), fmt.Sprintf("re-serialization differs (err=%v)", err), wit(map[string]interface{}{"first": vf.HexTrunc(s1, 1024), "second": vf.HexTrunc(s2, 1024)}))
		return
	}
	r.Count("reserialize_identical")

	// shared (DAG) references must not be mistaken for cycles by the other users of the detector
	if isShared {
		r.Count("dag_checked")
		var berr, serr error
		if p := vf.Catch(func() { berr = v.BuildParamToNative(common.NewZeroCopySink(nil)) }); p != nil {
			violation(r, "dag-panic:BuildParamToNative", fmt.Sprint(p), wit(nil))
		} else if isCircularErr(berr) {
			violation(r, "dag-rejected:BuildParamToNative", "acyclic shared value rejected as circular: "+berr.Error(), wit(nil))
		} else if berr == nil {
			r.Count("dag_marshalled_ok")
		}
		if p := vf.Catch(func() { _, serr = v.Stringify() }); p != nil {
			violation(r, "dag-panic:Stringify", fmt.Sprint(p), wit(nil))
		} else if isCircularErr(serr) {
			violation(r, "dag-rejected:Stringify", "acyclic shared value rejected as circular: "+serr.Error(), wit(nil))
		}
	}
	if idx < 3 && family == "random" {
		r.Sample(map[string]interface{}{"oracle": "roundtrip", "value": describe(spec), "serialized": vf.HexTrunc(s1, 96)})
	}
}

func acyclicCase(rng *vf.RNG, idx int) (*node, string) {
	switch idx % 10 {
	case 0, 1, 2, 3, 4: // random trees
		g := &genCtx{rng: rng, budget: 8 + rng.Intn(120), hm: map[*node]int{}, share: 0}
		return g.gen(rng.Intn(depthLimit + 1)), "random"
	case 5, 6: // DAG heavy
		g := &genCtx{rng: rng, budget: 10 + rng.Intn(60), hm: map[*node]int{}, share: 45}
		root := &node{kind: 'a'}
		if rng.Bool() {
			root.kind = 's'
		}
		nk := 2 + rng.Intn(4)
		for i := 0; i < nk; i++ {
			root.kids = append(root.kids, g.gen(depthLimit-1))
		}
		// make sure something is shared, also at element 0
		if len(g.pool) > 0 {
			c := g.pool[rng.Intn(len(g.pool))]
			root.kids[rng.Intn(len(root.kids))] = c
			if rng.Bool() {
				root.kids[0] = c
			} else {
				root.kids = append(root.kids, c)
			}
		} else {
			c := &node{kind: 'a', kids: []*node{genPrim(rng)}}
			root.kids = append(root.kids, c, c)
		}
		return root, "dag"
	case 7: // depth edge, within the limit
		return chain(rng, depthLimit-rng.Intn(2), []string{"first", "last", "mixed"}[rng.Intn(3)]), "depth-edge"
	case 8: // over the limit: outside the statement, recorded only
		pol := []string{"first", "last"}[rng.Intn(2)]
		return chain(rng, depthLimit+1+rng.Intn(3), pol), "overdeep-" + pol
	default: // map heavy: many keys of mixed primitive types
		g := &genCtx{rng: rng, budget: 200, hm: map[*node]int{}, share: 0}
		n := &node{kind: 'm'}
		g.fillMap(n, 3+rng.Intn(40), 2)
		return n, "map"
	}
}

// sizeEdge: values whose encoding sits at the 1 MiB limit (±).
func sizeEdge(rng *vf.RNG, idx int) *node {
	delta := []int{-1, 0, 1, -2, 2, -40}[idx%6]
	target := sizeLimit + delta
	if idx%2 == 0 { // single byte array: 1 type + 5 varuint + L
		L := target - 6
		if L > sizeLimit {
			L = sizeLimit
		}
		return &node{kind: 'b', bs: rng.Bytes(L)}
	}
	// array of three byte arrays: 1+1 header, each 1+5+L
	each := (target - 2 - 18) / 3
	rest := target - 2 - 18 - 2*each
	return &node{kind: 'a', kids: []*node{{kind: 'b', bs: rng.Bytes(each)}, {kind: 'b', bs: rng.Bytes(each)}, {kind: 'b', bs: rng.Bytes(rest)}}}
}

// ---------------------------------------------------------------- oracle 2: arbitrary bytes

func bytesCase(rng *vf.RNG, idx int) ([]byte, string) {
	tags := []byte{0x00, 0x01, 0x02, 0x80, 0x81, 0x82, 0x03, 0x40, 0x83, 0xff}
	switch idx % 8 {
	case 0: // random bytes with a plausible tag
		b := rng.Bytes(rng.Intn(64))
		if len(b) > 0 && rng.Chance(80) {
			b[0] = tags[rng.Intn(len(tags))]
		}
		return b, "random"
	case 1, 2, 3, 4: // mutated valid encoding
		g := &genCtx{rng: rng, budget: 4 + rng.Intn(40), hm: map[*node]int{}, share: 0}
		b := encode(g.gen(rng.Intn(6)), nil, 1<<20)
		nm := 1 + rng.Intn(3)
		for m := 0; m < nm && len(b) > 0; m++ {
			switch rng.Intn(7) {
			case 0:
				b[rng.Intn(len(b))] ^= 1 << uint(rng.Intn(8))
			case 1:
				b[rng.Intn(len(b))] = tags[rng.Intn(len(tags))]
			case 2:
				b = b[:rng.Intn(len(b)+1)]
			case 3:
				i := rng.Intn(len(b) + 1)
				b = append(b[:i:i], append(rng.Bytes(1+rng.Intn(3)), b[i:]...)...)
			case 4:
				b[rng.Intn(len(b))] = []byte{0xfd, 0xfe, 0xff, 0x00, 0x7f, 0x80}[rng.Intn(6)]
			case 5:
				i := rng.Intn(len(b))
				j := i + rng.Intn(len(b)-i)
				b = append(b[:i:i], b[j:]...)
			default: // unmutated: valid encodings must decode
			}
		}
		return b, "mutated"
	case 5: // hostile counts
		tag := []byte{0x80, 0x81, 0x82, 0x00, 0x02}[rng.Intn(5)]
		b := []byte{tag}
		switch rng.Intn(6) {
		case 0:
			b = append(b, 0xff, 0xff, 0xff, 0xff, 0xff, 0xff, 0xff, 0xff, 0xff)
		case 1:
			b = append(b, 0xff, 0, 0, 0, 0, 0, 0, 0, 0x80) // 2^63: int(count) negative
		case 2:
			b = append(b, 0xfe, 0xff, 0xff, 0xff, 0xff)
		case 3:
			b = append(b, 0xfd, 0xff, 0xff)
		case 4:
			b = append(b, 0xfd, 0x01, 0x00) // irregular (non-canonical) varuint
		default:
			b = putVarUint(b, uint64(1024+rng.Intn(3)-1)) // around MAX_ARRAY_SIZE
		}
		tail := rng.Intn(40)
		for i := 0; i < tail; i++ {
			b = append(b, []byte{0x01, 0x01, 0x00, 0x00, 0x02, 0x01, 0x05}[rng.Intn(7)])
		}
		if rng.Chance(30) { // really supply ~1024 booleans
			for i := 0; i < 1026; i++ {
				b = append(b, 0x01, byte(i&1))
			}
		}
		return b, "hostile-count"
	case 6: // deep nesting around the decoder's depth bound and the serializer's depth limit
		var d int
		switch rng.Intn(4) {
		case 0:
			d = depthLimit - 1 + rng.Intn(4)
		case 1:
			d = 1022 + rng.Intn(6)
		default:
			d = rng.Intn(1200)
		}
		tag := []byte{0x80, 0x81}[rng.Intn(2)]
		var b []byte
		for i := 0; i < d; i++ {
			b = append(b, tag, 0x01)
		}
		b = append(b, 0x01, 0x01)
		return b, "deep-nesting"
	default: // maps with odd keys: duplicate keys, container keys, colliding key images
		b := []byte{0x82}
		n := 1 + rng.Intn(4)
		b = putVarUint(b, uint64(n))
		for i := 0; i < n; i++ {
			switch rng.Intn(5) {
			case 0:
				b = append(b, 0x80, 0x00) // array as key
			case 1:
				b = append(b, 0x01, 0x01) // bool true: key image 01
			case 2:
				b = append(b, 0x02, 0x01, 0x01) // int 1: key image 01
			case 3:
				b = append(b, 0x00, 0x01, 0x01) // bytes 01: key image 01
			default:
				b = append(b, 0x02, 0x02, 0x01, 0x00) // non-minimal int 1
			}
			b = append(b, 0x02, 0x01, byte(i+1))
		}
		return b, "map-keys"
	}
}

func checkBytes(r *vf.Run, b []byte, family string, idx int) {
	fp := ""
	if len(b) > 1 {
		fp = "B" + fnv(b)
	}
	r.Eval(fp)
	r.Count("bytes_" + family)
	wit := func(extra map[string]interface{}) map[string]interface{} {
		w := map[string]interface{}{"family": family, "case": idx, "input_hex": vf.HexTrunc(b, 4096)}
		for k, v := range extra {
			w[k] = v
		}
		return w
	}
	v, _, err, p := deserialize(b)
	if p != nil {
		violation(r, "bytes:panic:Deserialize:"+family, fmt.Sprint(p), wit(nil))
		return
	}
	if err != nil {
		r.Count("bytes_rejected")
		return
	}
	r.Count("bytes_decoded")
	h := heightVal(v)
	s1, err, p := serialize(v)
	if p != nil {
		violation(r, "bytes:panic:Serialize:"+family, fmt.Sprint(p), wit(nil))
		return
	}
	if h > depthLimit {
		if err != nil {
			r.Count("bytes_decoded_overdeep_serialize_rejected")
		} else {
			r.Count("bytes_decoded_overdeep_serialize_accepted")
		}
		return
	}
	if err != nil {
		violation(r, "bytes:decoded-not-serializable:"+family, "Deserialize returned a value within the depth limit that Serialize rejects: "+err.Error(), wit(map[string]interface{}{"height": h}))
		return
	}
	v2, _, err, p := deserialize(s1)
	if p != nil || err != nil {
		violation(r, "bytes:reserialized-not-decodable:"+family, fmt.Sprintf("panic=%v err=%v", p, err), wit(map[string]interface{}{"serialized": vf.HexTrunc(s1, 2048)}))
		return
	}
	if c, d := cmpVal(v, v2, "v"); c != "" {
		violation(r, "bytes:roundtrip-not-equal:"+c, d, wit(map[string]interface{}{"serialized": vf.HexTrunc(s1, 2048)}))
		return
	}
	s2, err, _ := serialize(v2)
	if err != nil || !bytes.Equal(s1, s2) {
		violation(r, "bytes:not-a-fixpoint:"+family, fmt.Sprintf("second serialization differs (err=%v)", err), wit(map[string]interface{}{"first": vf.HexTrunc(s1, 1024), "second": vf.HexTrunc(s2, 1024)}))
		return
	}
	r.Count("bytes_decoded_roundtrip_ok")
	if !bytes.Equal(s1, b) {
		r.Count("bytes_decoded_noncanonical_input")
	}
}

// ---------------------------------------------------------------- oracle 3: cyclic values (child processes)

const (
	opSerialize = iota
	opBuildParam
	opHexString
	opStringify
	opDump
	nOps
)

var opName = []string{"Serialize", "BuildParamToNative", "ConvertNeoVmValueHexString", "Stringify", "Dump"}

type cycCase struct {
	root        *node  // nil for VM-built cases
	script      []byte // VM script that leaves the cyclic value on the stack
	desc        string
	closingKind string // container kind holding the edge that closes the cycle
	cls         string // "pos0" | "pos>0" | "mapval"
	length      int    // containers on the cycle
	wrapped     bool
	positions   string
	multiMap    bool // a multi-entry map lies on the path: detection is iteration-order dependent
}

func kindWord(k byte) string {
	return map[byte]string{'a': "array", 's': "struct", 'm': "map"}[k]
}

func smallAcyclic(rng *vf.RNG) *node {
	if rng.Chance(70) {
		return genPrim(rng)
	}
	g := &genCtx{rng: rng, budget: 6, hm: map[*node]int{}}
	return g.gen(2)
}

// container with `n` slots whose slot `pos` holds `target`; the others are acyclic siblings.
func holder(rng *vf.RNG, kind byte, n, pos int, target *node) *node {
	c := &node{kind: kind}
	for i := 0; i < n; i++ {
		var kid *node
		if i == pos {
			kid = target
		} else {
			kid = smallAcyclic(rng)
		}
		if kind == 'm' {
			// integer keys 1..n: their key strings sort in numeric order (all one byte)
			c.keys = append(c.keys, &node{kind: 'i', iv: big.NewInt(int64(i + 1))})
		}
		c.kids = append(c.kids, kid)
	}
	return c
}

func pickPos(rng *vf.RNG, n int, want string) int {
	switch want {
	case "first":
		return 0
	case "last":
		return n - 1
	case "middle":
		return n / 2
	}
	return rng.Intn(n)
}

var vmScripts = []struct {
	name, kind, cls string
	code            []byte
	desc            string
	multi           bool
}{
	{"vm:a=[false,a] via SETITEM", "array", "pos>0",
		[]byte{byte(neovm.PUSH2), byte(neovm.NEWARRAY), byte(neovm.DUP), byte(neovm.PUSH1), byte(neovm.OVER), byte(neovm.SETITEM)},
		"&1array[bool(false), *1]  (script PUSH2 NEWARRAY DUP PUSH1 OVER SETITEM)", false},
	{"vm:a=[false,false,a] via APPEND", "array", "pos>0",
		[]byte{byte(neovm.PUSH2), byte(neovm.NEWARRAY), byte(neovm.DUP), byte(neovm.DUP), byte(neovm.APPEND)},
		"&1array[bool(false), bool(false), *1]  (script PUSH2 NEWARRAY DUP DUP APPEND)", false},
	{"vm:a=[a] via SETITEM", "array", "pos0",
		[]byte{byte(neovm.PUSH1), byte(neovm.NEWARRAY), byte(neovm.DUP), byte(neovm.PUSH0), byte(neovm.OVER), byte(neovm.SETITEM)},
		"&1array[*1]  (script PUSH1 NEWARRAY DUP PUSH0 OVER SETITEM)", false},
	{"vm:m={1:1,2:m} via SETITEM", "map", "mapval",
		[]byte{byte(neovm.NEWMAP), byte(neovm.DUP), byte(neovm.PUSH1), byte(neovm.PUSH1), byte(neovm.SETITEM), byte(neovm.DUP), byte(neovm.PUSH2), byte(neovm.OVER), byte(neovm.SETITEM)},
		"&1map{int(1): int(1), int(2): *1}  (script NEWMAP DUP PUSH1 PUSH1 SETITEM DUP PUSH2 OVER SETITEM)", true},
}

// genCyc is a pure function of (rng stream, idx): parent and child regenerate the same case.
func genCyc(rng *vf.RNG, idx int) cycCase {
	if idx < len(vmScripts) {
		s := vmScripts[idx]
		return cycCase{script: s.code, desc: s.desc, closingKind: s.kind, cls: s.cls, length: 1, positions: s.name, multiMap: s.multi}
	}
	L := 1 + rng.Intn(3)
	kinds := make([]byte, L)
	for i := range kinds {
		kinds[i] = []byte{'a', 'a', 's', 's', 'm'}[rng.Intn(5)]
	}
	// steer the class: a third all-first, a third with a later position, a third free
	want := []string{"first", "later", "free"}[idx%3]
	nodes := make([]*node, L)
	for i := range nodes {
		nodes[i] = &node{kind: kinds[i]}
	}
	allFirst, anyLater, multi := true, false, false
	var posDesc []string
	for i := 0; i < L; i++ {
		n := 1 + rng.Intn(5)
		var pos int
		switch want {
		case "first":
			pos = 0
			if kinds[i] == 'm' {
				n = 1 // a single-entry map is the only deterministic "first" for a map
			}
		case "later":
			if n < 2 {
				n = 2 + rng.Intn(4)
			}
			pos = pickPos(rng, n, []string{"last", "middle", "last"}[rng.Intn(3)])
			if pos == 0 {
				pos = n - 1
			}
		default:
			pos = pickPos(rng, n, []string{"first", "middle", "last", "any"}[rng.Intn(4)])
		}
		h := holder(rng, kinds[i], n, pos, nodes[(i+1)%L])
		nodes[i].kids, nodes[i].keys = h.kids, h.keys
		word := "first"
		switch {
		case n == 1:
			word = "only"
		case pos == n-1:
			word = "last"
		case pos > 0:
			word = "middle"
		}
		posDesc = append(posDesc, fmt.Sprintf("%s[%d/%d:%s]", kindWord(kinds[i]), pos, n, word))
		if kinds[i] == 'm' && n > 1 {
			multi = true
			allFirst = false
		} else if pos > 0 {
			anyLater = true
			allFirst = false
		}
	}
	root := nodes[0]
	c := cycCase{length: L, closingKind: kindWord(kinds[L-1])}
	if rng.Chance(30) { // acyclic wrapper above the cycle
		wk := []byte{'a', 's', 'm'}[rng.Intn(3)]
		n := 1 + rng.Intn(4)
		pos := pickPos(rng, n, []string{"first", "last"}[rng.Intn(2)])
		if want == "first" {
			pos = 0
			if wk == 'm' {
				n = 1
			}
		}
		root = holder(rng, wk, n, pos, nodes[0])
		c.wrapped = true
		posDesc = append([]string{fmt.Sprintf("wrapper-%s[%d/%d]", kindWord(wk), pos, n)}, posDesc...)
		if wk == 'm' && n > 1 {
			multi = true
			allFirst = false
		} else if pos > 0 {
			anyLater = true
			allFirst = false
		}
	}
	switch {
	case allFirst:
		c.cls = "pos0"
	case anyLater:
		c.cls = "pos>0"
	default:
		c.cls = "mapval"
	}
	c.multiMap = multi
	c.root = root
	c.desc = describe(root)
	c.positions = strings.Join(posDesc, " -> ")
	return c
}

func (c *cycCase) value() (types.VmValue, error) {
	if c.script != nil {
		e := neovm.NewExecutor(c.script, neovm.VmFeatureFlag{})
		if err := e.Execute(); err != nil {
			return types.VmValue{}, err
		}
		return e.EvalStack.Peek(0)
	}
	return build(c.root, map[*node]types.VmValue{}), nil
}

func cycRNG(idx int) *vf.RNG { return vf.NewRNG(vf.Seed()).Sub(0xC1C000000 + uint64(idx)) }

func (c *cycCase) key(op int) string { return opName[op] + ":" + c.closingKind + ":" + c.cls }

type itemResult struct {
	Item     int    `json:"item"`
	Out      string `json:"out"` // "err" | "nil" | "panic" | "skipped" | "harness"
	Msg      string `json:"msg,omitempty"`
	Detector string `json:"det,omitempty"` // what CircularRefAndDepthDetection answered (recorded, not judged)
	SizeErr  bool   `json:"sizeerr,omitempty"`
}

// childMain executes items [from,to) sequentially.  Before an item runs its id is written
// to the progress file; after it returns its result is appended to the result file.
func childMain() {
	from, _ := strconv.Atoi(os.Getenv("VERIF_C14_FROM"))
	to, _ := strconv.Atoi(os.Getenv("VERIF_C14_TO"))
	cur := os.Getenv("VERIF_C14_CUR")
	res, err := os.OpenFile(os.Getenv("VERIF_C14_RES"), os.O_CREATE|os.O_WRONLY|os.O_APPEND, 0o644)
	if err != nil {
		fmt.Fprintln(os.Stderr, "child: cannot open result file:", err)
		os.Exit(4)
	}
	if ms, _ := strconv.Atoi(os.Getenv("VERIF_C14_MAXSTACK")); ms > 0 {
		debug.SetMaxStack(ms) // reduced limit: a runaway recursion dies after touching little memory
	}
	skip := map[string]bool{}
	if b, err := os.ReadFile(os.Getenv("VERIF_C14_SKIP")); err == nil {
		for _, l := range strings.Split(string(b), "\n") {
			if l != "" {
				skip[l] = true
			}
		}
	}
	emit := func(r itemResult) {
		b, _ := json.Marshal(r)
		res.Write(append(b, '\n'))
	}
	lastCase := -1
	var c cycCase
	for item := from; item < to; item++ {
		ci, op := item/nOps, item%nOps
		if ci != lastCase {
			c = genCyc(cycRNG(ci), ci)
			lastCase = ci
		}
		if skip["#"+strconv.Itoa(item)] {
			continue // probe item: already run in a process of its own
		}
		if skip[c.key(op)] {
			emit(itemResult{Item: item, Out: "skipped"})
			continue
		}
		if err := os.WriteFile(cur, []byte(strconv.Itoa(item)), 0o644); err != nil {
			fmt.Fprintln(os.Stderr, "child: cannot write progress file:", err)
			os.Exit(4)
		}
		v, err := c.value()
		if err != nil {
			emit(itemResult{Item: item, Out: "harness", Msg: err.Error()})
			continue
		}
		out := itemResult{Item: item}
		if cyc, derr := v.CircularRefAndDepthDetection(); derr != nil {
			out.Detector = "error"
		} else if cyc {
			out.Detector = "cycle"
		} else {
			out.Detector = "no-cycle"
		}
		reps := 1
		if c.multiMap {
			reps = 6 // the detector looks at one random map entry: repeat
		}
		sawNil := false
		for rep := 0; rep < reps && out.Out != "panic"; rep++ {
			var err error
			p := vf.Catch(func() {
				switch op {
				case opSerialize:
					err = v.Serialize(common.NewZeroCopySink(nil))
				case opBuildParam:
					err = v.BuildParamToNative(common.NewZeroCopySink(nil))
				case opHexString:
					_, err = v.ConvertNeoVmValueHexString()
				case opStringify:
					_, err = v.Stringify()
				case opDump:
					if s := v.Dump(); strings.HasPrefix(s, "error:") {
						err = fmt.Errorf("%s", s)
					}
				}
			})
			switch {
			case p != nil:
				out.Out, out.Msg = "panic", fmt.Sprint(p)
			case err == nil:
				sawNil = true
			default:
				out.Msg = err.Error()
				if strings.Contains(out.Msg, "uplimit") {
					out.SizeErr = true
				}
			}
		}
		if out.Out == "" {
			if sawNil {
				out.Out = "nil"
			} else {
				out.Out = "err"
			}
		}
		emit(out)
	}
	os.WriteFile(cur, []byte("done"), 0o644)
	os.Exit(0)
}

type childDeath struct {
	item  int
	class string // "stack-overflow" | "out-of-memory" | "killed:hang" | "exit:…"
	tail  string
}

// runRange drives children over items [from,to): when a child dies the item it was running
// is recorded and a new child continues after it.
func runRange(scratch string, from, to int, skipFile string, maxStack int, stall time.Duration, maxDeaths int) (results []itemResult, deaths []childDeath, notRun int) {
	attempt := 0
	for from < to {
		attempt++
		tag := fmt.Sprintf("%d-%d", from, attempt)
		cur := filepath.Join(scratch, "cur-"+tag)
		res := filepath.Join(scratch, "res-"+tag)
		errf := filepath.Join(scratch, "err-"+tag)
		ef, _ := os.Create(errf)
		cmd := exec.Command(os.Args[0])
		// gcshrinkstackoff: a deep but finite recursion (Serialize stopped by its size check needs
		// hundreds of MB of stack) pays for the stack pages once per child, not once per item
		cmd.Env = append(os.Environ(), "VERIF_C14_CHILD=1", "GOTRACEBACK=none", "GODEBUG=gcshrinkstackoff=1",
			"VERIF_C14_MAXSTACK="+strconv.Itoa(maxStack),
			"VERIF_C14_FROM="+strconv.Itoa(from), "VERIF_C14_TO="+strconv.Itoa(to),
			"VERIF_C14_CUR="+cur, "VERIF_C14_RES="+res, "VERIF_C14_SKIP="+skipFile)
		cmd.Stdout = ef
		cmd.Stderr = ef
		if err := cmd.Start(); err != nil {
			ef.Close()
			return results, append(deaths, childDeath{item: from, class: "cannot-start:" + err.Error()}), to - from
		}
		done := make(chan error, 1)
		go func() { done <- cmd.Wait() }()
		hung := false
		lastCur, lastChange := "", time.Now()
		var werr error
	wait:
		for {
			select {
			case werr = <-done:
				break wait
			case <-time.After(300 * time.Millisecond):
				b, _ := os.ReadFile(cur)
				if string(b) != lastCur {
					lastCur, lastChange = string(b), time.Now()
				} else if time.Since(lastChange) > stall {
					hung = true
					cmd.Process.Kill()
					werr = <-done
					break wait
				}
			}
		}
		ef.Close()
		// collect results
		seen := map[int]bool{}
		if f, err := os.Open(res); err == nil {
			sc := bufio.NewScanner(f)
			sc.Buffer(make([]byte, 1<<20), 1<<24)
			for sc.Scan() {
				var ir itemResult
				if json.Unmarshal(sc.Bytes(), &ir) == nil {
					results = append(results, ir)
					seen[ir.Item] = true
				}
			}
			f.Close()
		}
		cb, _ := os.ReadFile(cur)
		os.Remove(res)
		os.Remove(cur)
		if werr == nil && string(cb) == "done" {
			os.Remove(errf)
			return
		}
		// the child died: which item was it running?
		item, perr := strconv.Atoi(string(cb))
		eb, _ := os.ReadFile(errf)
		os.Remove(errf)
		tail := string(eb)
		if len(tail) > 600 {
			tail = tail[:600]
		}
		class := fmt.Sprintf("exit:%v", werr)
		switch {
		case hung:
			class = "killed:hang"
		case strings.Contains(string(eb), "stack overflow") || strings.Contains(string(eb), "goroutine stack exceeds"):
			class = "stack-overflow"
		case strings.Contains(string(eb), "out of memory"):
			class = "out-of-memory"
		}
		if perr != nil || seen[item] {
			// died outside an item (start-up or between items): infrastructure problem
			deaths = append(deaths, childDeath{item: -1, class: "outside-item:" + class, tail: tail})
			return results, deaths, to - from
		}
		deaths = append(deaths, childDeath{item: item, class: class, tail: tail})
		from = item + 1
		if len(deaths) >= maxDeaths {
			return results, deaths, to - from
		}
	}
	return
}

const reducedStack = 8 << 20 // child stack limit of the probe stage

func runCyclic(r *vf.Run, scratch string) {
	ncases := vf.N(400, 4000)
	cases := make([]cycCase, ncases)
	for i := range cases {
		cases[i] = genCyc(cycRNG(i), i)
	}
	nitems := ncases * nOps
	stall := 300 * time.Second
	var mu sync.Mutex
	var allResults []itemResult
	var allDeaths []childDeath
	deathNote := map[int]string{} // item -> how the death was observed
	emptySkip := filepath.Join(scratch, "skip-none")
	os.WriteFile(emptySkip, nil, 0o644)

	// A death by stack overflow at Go's default 1 GB limit means filling 1 GB of stack, which
	// costs seconds to a minute per item.  The cyclic items therefore run in stages:
	//  A. probes: the first case of every (closing kind, class), each operation in a process
	//     of its own under a reduced 8 MB stack limit (debug.SetMaxStack): cheap deaths;
	//  B. confirmation at the DEFAULT limit, one process each: quick tier the first overflowed
	//     probe of every operation, thorough tier every overflowed probe.  A confirmed death
	//     is the verdict "fatal"; an item that finishes here was only deep (Serialize is
	//     stopped by its size check after ~260k nested calls) and is judged by its result;
	//  C. bulk: all remaining items at the default limit in long-lived children; items whose
	//     key already died in A/B are skipped (same structural key, already reported).
	probeOf := map[string]int{}
	var probeItems []int
	isProbe := map[int]bool{}
	for i, c := range cases {
		k := c.closingKind + ":" + c.cls
		if _, ok := probeOf[k]; !ok {
			probeOf[k] = i
			for op := 0; op < nOps; op++ {
				probeItems = append(probeItems, i*nOps+op)
				isProbe[i*nOps+op] = true
			}
		}
	}
	var overflowedA []int
	t0 := time.Now()
	vf.Parallel(len(probeItems), 6, func(i int) {
		it := probeItems[i]
		res, deaths, _ := runRange(scratch, it, it+1, emptySkip, reducedStack, stall, 1)
		mu.Lock()
		allResults = append(allResults, res...)
		for _, d := range deaths {
			if d.item >= 0 && d.class == "stack-overflow" {
				overflowedA = append(overflowedA, d.item) // ambiguous: runaway or merely deep
			} else {
				allDeaths = append(allDeaths, d)
				if d.item >= 0 {
					deathNote[d.item] = "reduced 8 MB stack limit"
				}
			}
		}
		mu.Unlock()
	})
	sort.Ints(overflowedA)
	stageT := map[string]float64{"A_probes_reduced_stack_s": time.Since(t0).Seconds()}
	t0 = time.Now()
	r.Add("cyclic_probe_items", int64(len(probeItems)))
	r.Add("cyclic_probe_overflowed_reduced_stack", int64(len(overflowedA)))

	// B. confirmation at the default stack limit
	var confirm, unconfirmed []int
	seenOp := map[int]bool{}
	for _, it := range overflowedA {
		if vf.Thorough() || !seenOp[it%nOps] {
			seenOp[it%nOps] = true
			confirm = append(confirm, it)
		} else {
			unconfirmed = append(unconfirmed, it)
		}
	}
	dyingOp := map[int]int{}  // operation -> item confirmed to die at the default limit
	finiteOp := map[int]int{} // operation -> item confirmed to finish at the default limit
	runFull := func(items []int) {
		vf.Parallel(len(items), 5, func(i int) {
			it := items[i]
			res, deaths, _ := runRange(scratch, it, it+1, emptySkip, 0, stall, 1)
			mu.Lock()
			allResults = append(allResults, res...)
			for _, d := range deaths {
				allDeaths = append(allDeaths, d)
				if d.item >= 0 {
					deathNote[d.item] = "Go default stack limit (1 GB)"
					if _, ok := dyingOp[it%nOps]; !ok && d.class == "stack-overflow" {
						dyingOp[it%nOps] = it
					}
				}
			}
			if len(deaths) == 0 {
				if _, ok := finiteOp[it%nOps]; !ok {
					finiteOp[it%nOps] = it
				}
				r.Count("cyclic_deep_but_finite_at_default_stack")
			}
			mu.Unlock()
		})
	}
	runFull(confirm)
	var again []int
	for _, it := range unconfirmed {
		if rep, ok := dyingOp[it%nOps]; ok {
			if _, fin := finiteOp[it%nOps]; !fin {
				allDeaths = append(allDeaths, childDeath{item: it, class: "stack-overflow"})
				deathNote[it] = fmt.Sprintf("reduced 8 MB stack limit; %s confirmed fatal at Go's default 1 GB limit on case %d", opName[it%nOps], rep/nOps)
				continue
			}
		}
		again = append(again, it) // the operation's representative finished: decide each item at the default limit
	}
	runFull(again)

	stageT["B_confirm_default_stack_s"] = time.Since(t0).Seconds()
	t0 = time.Now()
	skipKeys := map[string]bool{}
	for _, d := range allDeaths {
		if d.item >= 0 {
			skipKeys[cases[d.item/nOps].key(d.item%nOps)] = true
		}
	}
	var sk []string
	for k := range skipKeys {
		sk = append(sk, k)
	}
	sort.Strings(sk)
	r.Extra("cyclic_keys_skipped_in_bulk_after_probe_death", sk)
	for it := range isProbe {
		sk = append(sk, "#"+strconv.Itoa(it))
	}
	skipFile := filepath.Join(scratch, "skip-keys")
	os.WriteFile(skipFile, []byte(strings.Join(sk, "\n")), 0o644)

	// C. bulk
	const workers = 6
	per := (nitems + workers - 1) / workers
	notRunTotal := 0
	vf.Parallel(workers, workers, func(w int) {
		from, to := w*per, (w+1)*per
		if to > nitems {
			to = nitems
		}
		if from >= to {
			return
		}
		res, deaths, notRun := runRange(scratch, from, to, skipFile, 0, stall, 3)
		mu.Lock()
		allResults = append(allResults, res...)
		for _, d := range deaths {
			allDeaths = append(allDeaths, d)
			if d.item >= 0 {
				deathNote[d.item] = "Go default stack limit (1 GB)"
			}
		}
		notRunTotal += notRun
		mu.Unlock()
	})
	stageT["C_bulk_s"] = time.Since(t0).Seconds()
	r.Extra("cyclic_stage_wall", stageT)
	if notRunTotal > 0 {
		r.Add("cyclic_items_not_run_after_repeated_deaths", int64(notRunTotal))
	}

	// -- judge
	sort.Slice(allResults, func(i, j int) bool { return allResults[i].Item < allResults[j].Item })
	sort.Slice(allDeaths, func(i, j int) bool { return allDeaths[i].item < allDeaths[j].item })
	wit := func(item int, extra map[string]interface{}) map[string]interface{} {
		c := cases[item/nOps]
		w := map[string]interface{}{"operation": opName[item%nOps], "value": c.desc, "cycle_length": c.length,
			"cycle_edge_positions": c.positions, "closing_container": c.closingKind, "class": c.cls, "below_acyclic_wrapper": c.wrapped, "case": item / nOps}
		for k, v := range extra {
			w[k] = v
		}
		return w
	}
	for _, d := range allDeaths {
		if d.item < 0 {
			r.Inconclusive("child process died outside an item: " + d.class + " " + d.tail)
			continue
		}
		c := cases[d.item/nOps]
		op := d.item % nOps
		if d.class == "killed:hang" {
			// no wall-clock verdicts: a stalled child only makes the run inconclusive
			r.Inconclusive(fmt.Sprintf("%s on %s made no progress for %v (item %d)", opName[op], c.desc, stall, d.item))
			continue
		}
		r.Eval("C" + strconv.Itoa(d.item))
		r.Count("cyclic_child_death")
		r.Count("cyclic_" + opName[op])
		violation(r, "cycle-crash:"+c.key(op), fmt.Sprintf("%s on a cyclic value killed the process: %s", opName[op], d.class),
			wit(d.item, map[string]interface{}{"process_death": d.class, "observed_under": deathNote[d.item], "stderr": d.tail}))
	}
	for _, ir := range allResults {
		c := cases[ir.Item/nOps]
		op := ir.Item % nOps
		switch ir.Out {
		case "skipped":
			r.Count("cyclic_skipped_same_key_as_probe_death")
			continue
		case "harness":
			r.Inconclusive("cannot build cyclic case: " + ir.Msg)
			continue
		}
		r.Eval("C" + strconv.Itoa(ir.Item))
		r.Count("cyclic_" + opName[op])
		r.Count("cyclic_class_" + c.cls)
		r.Count("cyclic_closing_" + c.closingKind)
		r.Count(fmt.Sprintf("cyclic_length_%d", c.length))
		if c.wrapped {
			r.Count("cyclic_below_wrapper")
		}
		if c.script != nil {
			r.Count("cyclic_built_by_vm_script")
		}
		if op == opSerialize {
			r.Count("detector_answer_" + ir.Detector + "_on_" + c.cls) // recorded, not judged
		}
		switch ir.Out {
		case "panic":
			violation(r, "cycle-panic:"+c.key(op), opName[op]+" panicked on a cyclic value: "+ir.Msg, wit(ir.Item, nil))
		case "nil":
			if op == opSerialize || op == opBuildParam {
				violation(r, "cycle-not-rejected:"+c.key(op), opName[op]+" returned no error for a value containing a reference cycle", wit(ir.Item, nil))
			} else {
				r.Count("cyclic_terminated_without_error")
			}
		case "err":
			if op == opSerialize || op == opBuildParam {
				r.Count("cyclic_rejected_with_error")
				if ir.SizeErr {
					r.Count("cyclic_rejected_only_by_size_limit") // informational: not the cycle check
				}
			} else {
				r.Count("cyclic_terminated_with_error")
			}
		}
		if ir.Item/nOps == len(vmScripts)+1 && op == opSerialize {
			r.Sample(map[string]interface{}{"oracle": "cycle", "value": c.desc, "positions": c.positions, "serialize": ir.Out + ": " + ir.Msg})
		}
	}
}

// ---------------------------------------------------------------- main

func main() {
	if os.Getenv("VERIF_C14_CHILD") == "1" {
		childMain()
		return
	}
	r := vf.NewRun("C14", "exploration",
		"(1) generated acyclic values (random trees to depth 10, DAG-shared sub-values, chains at depth 9-13 through first/last/mixed positions, many-key maps, encodings at the 1 MiB limit), distinct by encoding, non-trivial when the root is a container; (2) byte strings: random, mutated valid encodings, hostile varuint counts, nesting around depth 10 and 1024, odd map keys, distinct by content; (3) cyclic values: cycle of 1-3 arrays/structs/maps closed at first/middle/last position or map entry, optionally below an acyclic wrapper, plus VM-script-built cycles, each under 5 operations in a child process, distinct by (case, operation)")
	rng := vf.NewRNG(vf.Seed())
	scratch := vf.Scratch("c14")
	defer os.RemoveAll(scratch)

	// (3) first: the children are independent of the in-process work
	var wg sync.WaitGroup
	wg.Add(1)
	go func() { defer wg.Done(); runCyclic(r, scratch) }()

	// (1)
	na := vf.N(5000, 200000)
	vf.Parallel(na, 6, func(i int) {
		sub := rng.Sub(0xA000000000 + uint64(i))
		spec, fam := acyclicCase(sub, i)
		checkAcyclic(r, spec, fam, i)
	})
	nse := vf.N(6, 48)
	vf.Parallel(nse, 3, func(i int) {
		checkAcyclic(r, sizeEdge(rng.Sub(0x5E00000000+uint64(i)), i), "size-edge", i)
	})
	// (2)
	nb := vf.N(20000, 1000000)
	vf.Parallel(nb, 6, func(i int) {
		sub := rng.Sub(0xB000000000 + uint64(i))
		b, fam := bytesCase(sub, i)
		checkBytes(r, b, fam, i)
		if i < 2 {
			r.Sample(map[string]interface{}{"oracle": "bytes", "family": fam, "input": vf.HexTrunc(b, 64)})
		}
	})
	wg.Wait()

	for _, c := range []string{
		"acyclic_random", "acyclic_dag", "acyclic_depth-edge", "acyclic_map", "acyclic_size-edge", "acyclic_with_shared_subvalue", "acyclic_with_map",
		"within_limits", "within_limits_at_depth_limit", "within_limits_at_size_limit", "roundtrip_equal", "reserialize_identical", "dag_checked", "dag_marshalled_ok",
		"bytes_random", "bytes_mutated", "bytes_hostile-count", "bytes_deep-nesting", "bytes_map-keys", "bytes_rejected", "bytes_decoded", "bytes_decoded_roundtrip_ok", "bytes_decoded_noncanonical_input",
		"cyclic_Serialize", "cyclic_BuildParamToNative", "cyclic_ConvertNeoVmValueHexString", "cyclic_Stringify", "cyclic_Dump",
		"cyclic_class_pos0", "cyclic_class_pos>0", "cyclic_class_mapval", "cyclic_closing_array", "cyclic_closing_struct", "cyclic_closing_map",
		"cyclic_length_1", "cyclic_length_2", "cyclic_length_3", "cyclic_below_wrapper", "cyclic_built_by_vm_script", "cyclic_rejected_with_error",
	} {
		r.Require(c, 3)
	}
	r.Require("within_limits", 1000)
	r.Require("bytes_decoded_roundtrip_ok", 1000)
	if len(keyCounts) > 0 {
		r.Extra("violation_keys", keyCounts)
	}
	r.Assume("depth limit = every node at depth <= 10 below the root (types.MAX_STRUCT_DEPTH as the detector applies it), size limit = encoding of at most 1 MiB (constants.MAX_BYTEARRAY_SIZE); values outside are recorded, not judged")
	r.Assume("a byte string that decodes to a value deeper than 10 may be refused by Serialize (decoder bound is 1024, serializer bound 10): recorded, not judged")
	r.Assume("what CircularRefAndDepthDetection itself answers is recorded in evidence, not judged (mechanism, not observable)")
	os.RemoveAll(scratch)
	r.Add("map_construction_removals_of_absent_or_extra_keys", mapHistoryOps.Load())
	r.Require("map_construction_removals_of_absent_or_extra_keys", 200)
	r.Finish()
}
