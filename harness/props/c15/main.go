// C15 — Contract execution results do not depend on Go map iteration order.
// Repetition monitor: every generated map-centric NeoVM program is executed many times on the
// same committed state — in fresh engines in this process (pre-execution and block
// execution) and in child processes with fresh runtime map seeds — and every observable of
// the execution must be identical across all runs.
package main

import (
	"bufio"
	"crypto/sha256"
	"encoding/hex"
	"encoding/json"
	"fmt"
	"os"
	"os/exec"
	"path/filepath"
	"strings"
	"sync"

	"github.com/ontio/ontology/core/types"
	"github.com/ontio/ontology/vm/neovm"
	"verifharness/lib/chain"
	"verifharness/lib/vf"
)

type prog struct {
	code  []byte
	shape string
}

type gen struct{ r *vf.RNG }

func (g *gen) key(a *chain.Asm) {
	switch g.r.Intn(3) {
	case 0:
		a.PushInt(int64(g.r.Intn(12)))
	case 1:
		a.Push([]byte{byte('a' + g.r.Intn(8))})
	default:
		a.Push(g.r.Bytes(1 + g.r.Intn(4)))
	}
}

// nested pushes a value of the given nesting depth (arrays of one element around an int).
func nested(a *chain.Asm, depth int) {
	a.PushInt(7)
	for i := 0; i < depth; i++ {
		a.PushInt(1).Op(neovm.PACK)
	}
}

// value pushes a random value; kinds: scalar, small array, struct, inner map, deep nest.
func (g *gen) value(a *chain.Asm, allowBad bool) string {
	switch k := g.r.Intn(10); {
	case k < 4:
		a.PushInt(int64(g.r.Intn(1000)) - 500)
		return "int"
	case k < 6:
		a.Push(g.r.Bytes(g.r.Intn(6)))
		return "bytes"
	case k < 7:
		n := 1 + g.r.Intn(3)
		for i := 0; i < n; i++ {
			a.PushInt(int64(g.r.Intn(50)))
		}
		a.PushInt(int64(n)).Op(neovm.PACK)
		return "array"
	case k < 8:
		a.PushInt(2).Op(neovm.NEWSTRUCT)
		return "struct"
	case k < 9:
		a.Op(neovm.NEWMAP)
		a.Op(neovm.DUP)
		g.key(a)
		a.PushInt(int64(g.r.Intn(9)))
		a.Op(neovm.SETITEM)
		return "map"
	default:
		if allowBad {
			nested(a, 11+g.r.Intn(3)) // beyond MAX_STRUCT_DEPTH
			return "too-deep"
		}
		nested(a, 1+g.r.Intn(6))
		return "nest"
	}
}

// program builds: m = NEWMAP; several SETITEM (some overwriting / removed); optionally one entry that
// is cyclic (m itself) or too deep; then a sink: Serialize, Notify, Storage.Put(Serialize(m)),
// KEYS/VALUES + Serialize, EQUAL, HASKEY …
func (g *gen) program(w *chain.World) prog {
	a := chain.NewAsm()
	a.Op(neovm.NEWMAP) // [m]
	n := 2 + g.r.Intn(10)
	shape := fmt.Sprintf("n%d", n)
	badAt := -1
	badKind := ""
	if g.r.Chance(45) {
		badAt = g.r.Intn(n)
		badKind = []string{"cyclic", "too-deep", "cyclic-inner"}[g.r.Intn(3)]
	}
	for i := 0; i < n; i++ {
		a.Op(neovm.DUP) // [m,m]
		// distinct keys so that the number of entries is as intended
		a.Push([]byte{byte('k'), byte('0' + i/10), byte('0' + i%10)})
		if i == badAt {
			switch badKind {
			case "cyclic":
				a.PushInt(2).Op(neovm.PICK) // value = m itself
			case "too-deep":
				nested(a, 11+g.r.Intn(3))
			default: // an array whose element is m
				a.PushInt(2).Op(neovm.PICK).PushInt(1).Op(neovm.PACK)
			}
		} else {
			g.value(a, false)
		}
		a.Op(neovm.SETITEM) // [m]
	}
	if badAt >= 0 {
		shape += "/" + badKind
	}
	if g.r.Chance(30) { // remove an entry
		a.Op(neovm.DUP).Push([]byte{'k', '0', byte('0' + g.r.Intn(n)%10)}).Op(neovm.REMOVE)
		shape += "/remove"
	}
	sinkKind := g.r.Intn(7)
	switch sinkKind {
	case 0:
		a.Syscall("System.Runtime.Serialize")
		shape += "/serialize"
	case 1:
		a.Syscall("System.Runtime.Notify").PushInt(1)
		shape += "/notify"
	case 2: // Storage.Put(key, Serialize(m)) through the KV contract
		a.Syscall("System.Runtime.Serialize").Push([]byte("m")).PushBool(true).AppCall(w.KV)
		shape += "/storage-put"
	case 3:
		a.Op(neovm.KEYS).Syscall("System.Runtime.Serialize")
		shape += "/keys"
	case 4:
		a.Op(neovm.VALUES).Syscall("System.Runtime.Serialize")
		shape += "/values"
	case 5: // the map as the script's return value (converted to hex by pre-execution)
		shape += "/return-map"
	default: // serialize then deserialize then serialize
		a.Syscall("System.Runtime.Serialize").Syscall("System.Runtime.Deserialize").Syscall("System.Runtime.Serialize")
		shape += "/roundtrip"
	}
	return prog{a.Bytes(), shape}
}

type obs struct {
	Pre    string // PreExecuteContract: state|gas|result|notify or error
	Exec   string // ExecuteBlock: change hash | tx state | gas | notify
	PreErr string
}

func observe(c *chain.Chain, tx *types.Transaction, blk *types.Block) obs {
	var o obs
	res, err := c.Ledger.PreExecuteContract(tx)
	if err != nil {
		// the statement's observables are success/failure, return value, notifications and write set:
		// the TEXT of an error is not one of them (it is kept in PreErr for the witness only)
		o.Pre = "err"
		o.PreErr = err.Error()
	} else {
		nb, _ := json.Marshal(res.Notify)
		rb, _ := json.Marshal(res.Result)
		o.Pre = fmt.Sprintf("%d|%d|%s|%s", res.State, res.Gas, rb, nb)
	}
	er, err := c.Ledger.ExecuteBlock(blk)
	if err != nil {
		o.Exec = "err:" + err.Error()
	} else {
		nb, _ := json.Marshal(er.Notify)
		o.Exec = fmt.Sprintf("%s|%s", er.Hash.ToHexString(), nb)
	}
	return o
}

func digest(o obs) string {
	h := sha256.Sum256([]byte(o.Pre + "\x00" + o.Exec))
	return hex.EncodeToString(h[:12])
}

func setup(dir, tag string) (*chain.Chain, *chain.World) {
	w := chain.NewWorld(tag, 3)
	c, err := chain.NewSolo(dir, w.BK)
	if err != nil {
		panic(err)
	}
	b, err := c.MakeBlock(w.FundingTxs(), 0)
	if err != nil {
		panic(err)
	}
	if _, err := c.CommitExec(b); err != nil {
		panic(err)
	}
	return c, w
}

func mkTx(c *chain.Chain, w *chain.World, code []byte, i int) (*types.Transaction, *types.Block) {
	tb := chain.NewTxBuilder(uint32(100000 + i))
	mt := tb.Invoke(2500, 1000000, code) // charged: gas differences become visible in the fee (write set) and GasConsumed
	chain.Sign(mt, w.Accts[0])
	tx := chain.Immutable(mt)
	blk, err := c.MakeBlock([]*types.Transaction{tx}, 0)
	if err != nil {
		panic(err)
	}
	return tx, blk
}

func childMain() {
	c, w := setup(os.Getenv("VERIF_C15_CHILD"), os.Getenv("VERIF_C15_TAG"))
	defer c.Close()
	f, _ := os.Open(os.Getenv("VERIF_C15_PROGS"))
	sc := bufio.NewScanner(f)
	sc.Buffer(make([]byte, 1<<20), 1<<24)
	i := 0
	out := bufio.NewWriter(os.Stdout)
	defer out.Flush()
	for sc.Scan() {
		code, _ := hex.DecodeString(strings.TrimSpace(sc.Text()))
		tx, blk := mkTx(c, w, code, i)
		fmt.Fprintln(out, digest(observe(c, tx, blk)))
		i++
	}
}

func main() {
	if os.Getenv("VERIF_C15_CHILD") != "" {
		childMain()
		return
	}
	r := vf.NewRun("C15", "exploration",
		"generated NeoVM programs that build a map with 2-11 entries (int/bytes/array/struct/inner-map/nested values; in ~45% exactly one entry is the map itself, an array holding the map, or nested beyond the depth limit), optionally REMOVE, then Serialize / Notify / Storage.Put(Serialize) / KEYS / VALUES / return the map / serialize-deserialize-serialize; each program is pre-executed and block-executed R times in fresh engines in-process and once per child process (fresh map seeds); non-trivial = program has >=2 entries; distinct by program bytes")
	scratch := vf.Scratch("c15")
	defer os.RemoveAll(scratch)
	tag := fmt.Sprintf("c15-%d", vf.Seed())
	c, w := setup(filepath.Join(scratch, "l"), tag)
	rng := vf.NewRNG(vf.Seed())
	N := vf.N(1200, 30000)
	R := 6
	progs := make([]prog, N)
	pf, _ := os.Create(filepath.Join(scratch, "progs.txt"))
	for i := range progs {
		g := &gen{r: rng.Sub(uint64(i))}
		progs[i] = g.program(w)
		fmt.Fprintln(pf, hex.EncodeToString(progs[i].code))
	}
	pf.Close()
	first := make([]string, N)
	var mu sync.Mutex
	vf.Parallel(N, 8, func(i int) {
		tx, blk := mkTx(c, w, progs[i].code, i)
		var o0 obs
		for k := 0; k < R; k++ {
			o := observe(c, tx, blk)
			if k == 0 {
				o0 = o
				continue
			}
			if o.Pre != o0.Pre || o.Exec != o0.Exec {
				which := "pre-execution"
				if o.Pre == o0.Pre {
					which = "block-execution"
				}
				r.Violation("result-differs-between-runs:"+shapeClass(progs[i].shape)+":"+which, fmt.Sprintf("run 0: %s / %s ; run %d: %s / %s", o0.Pre, o0.Exec, k, o.Pre, o.Exec),
					map[string]interface{}{"program_hex": hex.EncodeToString(progs[i].code), "shape": progs[i].shape, "run0": o0, "runK": o})
				break
			}
		}
		mu.Lock()
		first[i] = digest(o0)
		mu.Unlock()
		r.Eval(hex.EncodeToString(progs[i].code))
		r.Count("shape/" + shapeClass(progs[i].shape))
		if o0.Pre == "err" {
			r.Count("outcome/pre-exec-error")
		} else {
			r.Count("outcome/pre-exec-ok")
		}
		if i < 4 {
			r.Sample(map[string]interface{}{"shape": progs[i].shape, "program_hex": hex.EncodeToString(progs[i].code), "pre": o0.Pre})
		}
	})
	c.Close()
	// child processes: fresh runtime hash seeds
	nChild := vf.N(2, 4)
	self, _ := os.Executable()
	for k := 0; k < nChild; k++ {
		cmd := exec.Command(self)
		cmd.Env = append(os.Environ(), "VERIF_C15_CHILD="+filepath.Join(scratch, fmt.Sprintf("child%d", k)), "VERIF_C15_TAG="+tag, "VERIF_C15_PROGS="+filepath.Join(scratch, "progs.txt"))
		cmd.Stderr = os.Stderr
		out, err := cmd.Output()
		if err != nil {
			// a child that dies is C12's subject; here the run is inconclusive for the remaining programs
			r.Inconclusive(fmt.Sprintf("child %d died: %v (after %d lines)", k, err, strings.Count(string(out), "\n")))
		}
		lines := strings.Split(strings.TrimSpace(string(out)), "\n")
		for i, l := range lines {
			if i < N && l != "" && l != first[i] {
				r.Violation("result-differs-between-processes:"+shapeClass(progs[i].shape), fmt.Sprintf("program %d: parent %s child %s", i, first[i], l),
					map[string]interface{}{"program_hex": hex.EncodeToString(progs[i].code), "shape": progs[i].shape})
			}
		}
		r.Add("child_process_comparisons", int64(len(lines)))
	}
	for _, s := range []string{"plain", "cyclic", "too-deep", "cyclic-inner"} {
		r.Require("shape/"+s, 20)
	}
	r.Require("child_process_comparisons", int64(N))
	r.Require("outcome/pre-exec-ok", 50)
	r.Require("outcome/pre-exec-error", 20)
	r.Assume("R=6 in-process runs + 2-4 child processes per program: an order dependence that shows with probability p per run is missed with probability (1-p)^(runs)")
	os.RemoveAll(scratch)
	r.Finish()
}

func shapeClass(s string) string {
	for _, k := range []string{"cyclic-inner", "cyclic", "too-deep"} {
		if strings.Contains(s, "/"+k) {
			return k
		}
	}
	return "plain"
}
