// C16 — Only correctly signed transactions paid by a signer are accepted.
//
// Positive/negative differential around validation.VerifyTransaction.  Ground truth is
// construction: a base transaction carries 1..16 signature sets, each with exactly m
// signatures by m distinct keys of its n distinct keys over sha256d(unsigned bytes), and the
// payer is the account of one set (derived by the monitor itself, lib/sigasm.OwnAccount) —
// it must be accepted.  Every mutant of the listed families must be rejected (at decode or by
// the validator; a panic is neither).  Independently of construction, everything the validator accepts is
// re-verified with ontology-crypto alone (sigasm.Reverify): >= m distinct keys of every set
// verify over the hash and the payer is one of the resulting accounts.
package main

import (
	"crypto/sha256"
	"fmt"
	"runtime"
	"sort"
	"strings"
	"sync"
	"sync/atomic"

	osig "github.com/ontio/ontology-crypto/signature"
	"github.com/ontio/ontology/common"
	"github.com/ontio/ontology/common/log"
	"github.com/ontio/ontology/core/payload"
	"github.com/ontio/ontology/core/types"
	"github.com/ontio/ontology/core/validation"
	ontErrors "github.com/ontio/ontology/errors"
	"verifharness/lib/sigasm"
	"verifharness/lib/txgen"
	"verifharness/lib/vf"
)

// ---------------------------------------------------------------- base transactions

type base struct {
	idx      int
	shape    string // structural label: sets=k;<kinds of the payer set>
	body     string
	mt       *types.MutableTransaction
	unsigned []byte
	hash     [32]byte
	sets     []*sigasm.Set
	payer    int // index of the set whose account is the payer
	raw      []byte
}

func (b *base) clone() *base {
	c := *b
	c.unsigned = append([]byte{}, b.unsigned...)
	c.sets = make([]*sigasm.Set, len(b.sets))
	for i, s := range b.sets {
		c.sets[i] = s.Clone()
	}
	return &c
}

func (b *base) assemble() []byte { return sigasm.Assemble(b.unsigned, b.sets) }

// resign recomputes the hash from the unsigned bytes and signs every set afresh.
func (b *base) resign(rng *vf.RNG) {
	b.hash = sigasm.Hash(b.unsigned)
	for _, s := range b.sets {
		if _, err := s.SignRandom(b.hash[:], rng); err != nil {
			panic(err)
		}
	}
}

func setPayer(unsigned []byte, a common.Address) {
	copy(unsigned[sigasm.PayerOffset:sigasm.PayerOffset+common.ADDR_LEN], a[:])
}

func smallBody(rng *vf.RNG, i int) (*types.MutableTransaction, string) {
	switch i % 4 {
	case 0:
		var from common.Address
		copy(from[:], rng.Bytes(20))
		return txgen.NewTransfer(rng, from), "transfer"
	case 1:
		mt := &types.MutableTransaction{TxType: types.InvokeNeo, Payload: &payload.InvokeCode{Code: rng.Bytes(rng.Intn(40))}, Nonce: uint32(rng.U64()), GasPrice: uint64(rng.Intn(5000)), GasLimit: 20000 + uint64(rng.Intn(100000))}
		return mt, "invoke-small"
	case 2:
		return txgen.NewInvoke(rng, rng.Bool()), "invoke"
	default:
		return txgen.NewDeploy(rng, byte(rng.Intn(2))), "deploy"
	}
}

// variedSet turns a signer into a set; mostly canonical, sometimes with the keys in a random
// script order / alternative key encodings / push forms (all accepted by the decoder).
func variedSet(s txgen.Signer, rng *vf.RNG) *sigasm.Set {
	st := sigasm.CanonicalSet(s)
	if !rng.Chance(20) {
		return st
	}
	st.Label += "/varied"
	if st.Multi {
		p := rng.Perm(len(st.Keys))
		keys := make([]*txgen.Key, len(p))
		for i, j := range p {
			keys[i] = st.Keys[j]
		}
		st.Keys = keys
		if rng.Bool() {
			st.NForm = sigasm.NumForm(rng.Intn(int(sigasm.NumNumForms)))
		}
	}
	for i, k := range st.Keys {
		encs := sigasm.Encodings(k.Kind)
		st.KeyBytes[i] = sigasm.EncodeKey(k, encs[rng.Intn(len(encs))], rng)
		st.Forms[i] = sigasm.PushForm(rng.Intn(int(sigasm.NumPushForms)))
	}
	return st
}

func lightKinds() []txgen.Kind {
	return []txgen.Kind{txgen.ECDSAP256, txgen.Ed25519, txgen.EthSecp256k1, txgen.ECDSAP384}
}

// fastKeys returns n distinct keys of cheap kinds (structural cases with many keys/sets).
func fastKeys(rng *vf.RNG, n int) []*txgen.Key {
	seen := map[[2]int]bool{}
	var out []*txgen.Key
	ks := lightKinds()
	for len(out) < n {
		k := txgen.PickKind(rng, ks[rng.Intn(3)])
		id := [2]int{int(k.Kind), k.Index}
		if !seen[id] {
			seen[id] = true
			out = append(out, k)
		}
	}
	return out
}

func genBase(rng *vf.RNG, i int) *base {
	b := &base{idx: i}
	b.mt, b.body = smallBody(rng, i)
	var signers []txgen.Signer
	nk := int(txgen.NumKinds)
	switch {
	case i < nk: // single key of every kind
		signers = []txgen.Signer{txgen.Single(txgen.PickKind(rng, txgen.Kind(i)))}
	case i < 2*nk: // homogeneous 2-of-3 of every kind
		kd := txgen.Kind(i - nk)
		p := rng.Perm(txgen.PoolSize)
		pool := txgen.Pool(kd)
		signers = []txgen.Signer{txgen.Multi([]*txgen.Key{pool[p[0]], pool[p[1]], pool[p[2]]}, 2)}
	case i < 2*nk+16: // 1..16 signature sets
		for k := 0; k <= i-2*nk; k++ {
			signers = append(signers, txgen.PickSigner(rng, 3))
		}
	case i < 2*nk+16+15: // n = 2..16 keys
		n := i - (2*nk + 16) + 2
		signers = []txgen.Signer{txgen.Multi(txgen.PickSetLight(rng, n), rng.Range(1, n))}
	default:
		ns := 1
		switch x := rng.Intn(100); {
		case x < 50:
			ns = 1
		case x < 80:
			ns = rng.Range(2, 3)
		case x < 96:
			ns = rng.Range(4, 8)
		default:
			ns = rng.Range(9, 16)
		}
		for k := 0; k < ns; k++ {
			switch {
			case rng.Chance(3):
				n := rng.Range(6, 16)
				signers = append(signers, txgen.Multi(txgen.PickSetLight(rng, n), rng.Range(1, n)))
			case rng.Chance(6): // uniformly any kind incl. P-224
				signers = append(signers, txgen.Single(txgen.Pick(rng)))
			default:
				signers = append(signers, txgen.PickSigner(rng, 5))
			}
		}
	}
	for _, s := range signers {
		b.sets = append(b.sets, variedSet(s, rng))
	}
	b.payer = rng.Intn(len(b.sets))
	b.mt.Payer = b.sets[b.payer].Account()
	u, err := sigasm.Unsigned(b.mt)
	if err != nil {
		panic(err)
	}
	b.unsigned = u
	b.hash = sigasm.Hash(u)
	ps := b.sets[b.payer]
	b.shape = fmt.Sprintf("sets=%d;payer=%s", len(b.sets), setShape(ps))
	return b
}

func setShape(s *sigasm.Set) string {
	if !s.Multi {
		return "single/" + s.Keys[0].Kind.String()
	}
	kinds := map[string]bool{}
	for _, k := range s.Keys {
		kinds[k.Kind.String()] = true
	}
	var ks []string
	for k := range kinds {
		ks = append(ks, k)
	}
	sort.Strings(ks)
	return fmt.Sprintf("multi/%dof%d/%s", s.M, len(s.Keys), strings.Join(ks, "+"))
}

// ---------------------------------------------------------------- running the validator

type outcome struct {
	decodeErr error
	code      ontErrors.ErrCode
	panicked  interface{}
	tx        *types.Transaction
}

func (o outcome) accepted() bool {
	return o.decodeErr == nil && o.panicked == nil && o.code == ontErrors.ErrNoError
}

// run verifies the bytes twice: on a freshly decoded object, and on a second freshly decoded object
// whose signer list was queried first (tx.GetSignatureAddresses, as the transaction pool does on the
// very object it then hands to the validator).  The verdict must not depend on that query: the more
// permissive of the two outcomes is what an attacker gets, so it is the one reported.
func run(raw []byte) outcome {
	var o, t outcome
	cp := append([]byte{}, raw...)
	o.panicked = vf.Catch(func() {
		o.tx, o.decodeErr = types.TransactionFromRawBytes(cp)
		if o.decodeErr == nil {
			o.code = validation.VerifyTransaction(o.tx)
		}
	})
	if o.decodeErr != nil {
		return o
	}
	cp2 := append([]byte{}, raw...)
	t.panicked = vf.Catch(func() {
		t.tx, t.decodeErr = types.TransactionFromRawBytes(cp2)
		if t.decodeErr == nil {
			vf.Catch(func() { t.tx.GetSignatureAddresses() })
			t.code = validation.VerifyTransaction(t.tx)
		}
	})
	if t.accepted() != o.accepted() {
		verdictDependsOnSignerQuery.Add(1)
	}
	if t.panicked != nil && o.panicked == nil || t.accepted() && !o.accepted() {
		return t
	}
	return o
}

var verdictDependsOnSignerQuery atomic.Int64

type monitor struct {
	r    *vf.Run
	mu   sync.Mutex
	obs  map[string]interface{}
	info []interface{}
}

func (m *monitor) witness(b *base, mut []byte, detail map[string]interface{}) map[string]interface{} {
	w := map[string]interface{}{"base_index": b.idx, "base_shape": b.shape, "base_body": b.body, "base_tx_hex": vf.Hex(b.raw)}
	if mut != nil {
		w["mutant_tx_hex"] = vf.Hex(mut)
	}
	for k, v := range detail {
		w[k] = v
	}
	return w
}

// reverifyAccepted: oracle (b) — whatever the validator accepts must pass the independent
// re-verification.
func (m *monitor) reverifyAccepted(family string, b *base, raw []byte, o outcome, detail map[string]interface{}) sigasm.Verdict {
	v := sigasm.Reverify(o.tx)
	m.r.Count("reverified_accepted")
	if v.DupKeys {
		m.r.Count("obs/accepted_with_duplicate_keys_in_script")
	}
	if !v.OK && !(v.DupKeys && v.Clause == "too-few-distinct-keys-signed") {
		d := map[string]interface{}{"family": family, "reverify": v.Why}
		for k, x := range detail {
			d[k] = x
		}
		m.r.Violation("accepted-but-independent-verification-fails:"+v.Clause, fmt.Sprintf("validator accepted, ontology-crypto re-verification says: %s (family %s)", v.Why, family), m.witness(b, raw, d))
	}
	return v
}

// expectReject: oracle (a) — a mutant of one of the listed families must not be accepted.
func (m *monitor) expectReject(family, keyDetail string, b *base, mut []byte, fp string, detail map[string]interface{}) {
	o := run(mut)
	m.r.Eval(fp)
	m.r.Count("mutants/" + family)
	switch {
	case o.panicked != nil:
		m.r.Count("mutants/" + family + "/panicked")
		d := map[string]interface{}{"panic": fmt.Sprint(o.panicked)}
		for k, x := range detail {
			d[k] = x
		}
		m.r.Violation("panic:"+family+":"+keyDetail, fmt.Sprintf("VerifyTransaction/decode panicked on a %s mutant: %v", family, o.panicked), m.witness(b, mut, d))
	case o.decodeErr != nil:
		m.r.Count("rejected_at_decode")
		m.r.Count("mutants/" + family + "/rejected_at_decode")
	case o.code != ontErrors.ErrNoError:
		m.r.Count("rejected_by_validator")
		m.r.Count("mutants/" + family + "/rejected_by_validator")
	default:
		v := m.reverifyAccepted(family, b, mut, o, detail)
		d := map[string]interface{}{"independent_reverification_ok": v.OK, "independent_reverification": v.Why}
		for k, x := range detail {
			d[k] = x
		}
		m.r.Violation("mutant-accepted:"+family+":"+keyDetail, fmt.Sprintf("a %s mutant of a valid transaction is accepted (base %s)", family, b.shape), m.witness(b, mut, d))
	}
}

// observe: families outside the property's domain — recorded, never a verdict (except a
// panic, and except oracle (b) for what is accepted).
func (m *monitor) observe(family string, b *base, mut []byte, fp string, checkB bool) bool {
	o := run(mut)
	m.r.Eval(fp)
	m.r.Count("observed/" + family)
	if o.panicked != nil {
		m.r.Violation("panic:"+family+":"+panicClass(o.panicked), fmt.Sprintf("panic on a %s transaction: %v", family, o.panicked), m.witness(b, mut, map[string]interface{}{"panic": fmt.Sprint(o.panicked)}))
		return false
	}
	if o.accepted() {
		m.r.Count("observed/" + family + "/accepted")
		if checkB {
			m.reverifyAccepted(family, b, mut, o, nil)
		}
		return true
	}
	m.r.Count("observed/" + family + "/rejected")
	return false
}

// ---------------------------------------------------------------- mutation helpers

func unsignedField(off, n int) string {
	switch {
	case off == 0:
		return "version"
	case off == 1:
		return "txtype"
	case off < 6:
		return "nonce"
	case off < 14:
		return "gasprice"
	case off < 22:
		return "gaslimit"
	case off < 42:
		return "payer"
	case off == n-1:
		return "attributes"
	}
	return "payload"
}

func sigRegion(k *txgen.Key, off, n int) string {
	switch k.Kind {
	case txgen.ECDSAP256:
		if n == 64 {
			if off < 32 {
				return "r"
			}
			return "s"
		}
	case txgen.SM2:
		if off == 1 {
			return "id-terminator"
		}
	case txgen.EthSecp256k1:
		if off == n-1 {
			return "recovery-id"
		}
	}
	if off == 0 {
		return "scheme"
	}
	body := n - 1
	if k.Kind == txgen.SM2 {
		body = n - 2
		off--
	}
	if k.Kind == txgen.EthSecp256k1 {
		body = n - 2
	}
	if off-1 < body/2 {
		return "r"
	}
	return "s"
}

func flipBit(b []byte, off int, bit uint) []byte {
	out := append([]byte{}, b...)
	out[off] ^= 1 << (bit & 7)
	return out
}

// otherKey returns a key of the same kind that is not in the set.
func otherKey(s *sigasm.Set, like *txgen.Key, rng *vf.RNG) *txgen.Key {
	for {
		k := txgen.PickKind(rng, like.Kind)
		in := false
		for _, x := range s.Keys {
			if x == k {
				in = true
			}
		}
		if !in {
			return k
		}
	}
}

func mustSign(k *txgen.Key, h []byte) []byte {
	s, err := k.Sign(h)
	if err != nil {
		panic(err)
	}
	return s
}

// signerIdx recovers which script positions signed (SignRandom result is not kept).
type signedBase struct {
	*base
	who [][]int // who[set][i] = script position of the key of signature i
}

func genSigned(rng *vf.RNG, i int) *signedBase {
	b := genBase(rng, i)
	sb := &signedBase{base: b}
	// sign while remembering who signed
	for _, s := range b.sets {
		idx, err := s.SignRandom(b.hash[:], rng)
		if err != nil {
			panic(err)
		}
		sb.who = append(sb.who, idx)
	}
	b.raw = b.assemble()
	return sb
}

func (sb *signedBase) accountCount(a common.Address) int {
	n := 0
	for _, s := range sb.sets {
		if s.Account() == a {
			n++
		}
	}
	return n
}

// ---------------------------------------------------------------- per-base case

func (m *monitor) doBase(rng *vf.RNG, i int) {
	r := m.r
	sb := genSigned(rng, i)
	b := sb.base
	fpb := fmt.Sprintf("base/%d", i)
	o := run(b.raw)
	r.Eval(fpb)
	if i < 3 {
		r.Sample(map[string]interface{}{"base_index": i, "shape": b.shape, "body": b.body, "tx_hex": vf.HexTrunc(b.raw, 400)})
	}
	if o.panicked != nil {
		r.Violation("panic:valid-tx:"+setShape(b.sets[b.payer]), fmt.Sprintf("panic on a valid transaction: %v", o.panicked), m.witness(b, nil, nil))
		return
	}
	if !o.accepted() {
		// "only if" statement: rejecting a valid transaction does not contradict it.  Informational
		// (the run ends inconclusive).  The mutants are still run: that they must be rejected is
		// known by construction, whatever the validator says about the base.
		r.Count("valid_tx_rejected")
		why := fmt.Sprint(o.decodeErr)
		if o.decodeErr == nil {
			why = fmt.Sprintf("error code %d (%s)", o.code, o.code.Error())
		}
		v := sigasm.Verdict{}
		if o.tx != nil {
			v = sigasm.Reverify(o.tx)
		}
		m.mu.Lock()
		if len(m.info) < 10 {
			m.info = append(m.info, map[string]interface{}{"key": "valid-tx-rejected:" + b.shape, "why": why, "independent_reverification_ok": v.OK, "independent_reverification": v.Why, "tx_hex": vf.Hex(b.raw)})
		}
		m.mu.Unlock()
		if o.tx == nil {
			return
		}
	} else {
		r.Count("base_accepted")
		r.Count(fmt.Sprintf("base_accepted/sets=%d", len(b.sets)))
		for _, s := range b.sets {
			if s.Multi {
				r.Count("base_accepted/multi")
				r.Count(fmt.Sprintf("base_accepted/multi/n=%d", len(s.Keys)))
				for _, k := range s.Keys {
					r.Count("base_accepted/multi-member/" + k.Kind.String())
				}
			} else {
				r.Count("base_accepted/single/" + s.Keys[0].Kind.String())
			}
			if strings.HasSuffix(s.Label, "/varied") {
				r.Count("base_accepted/non-canonical-script")
			}
		}
		if v := m.reverifyAccepted("valid-base", b, b.raw, o, nil); v.OK {
			r.Count("base_reverified_ok")
		}
	}
	// the validator's hash must be the monitor's hash
	if th := o.tx.Hash(); th != common.Uint256(b.hash) {
		r.Violation("hash-differs", "tx.Hash() != sha256d(unsigned bytes)", m.witness(b, nil, nil))
	}

	nU := len(b.unsigned)
	sigSection := b.raw[nU:]
	mk := func(u []byte) []byte { return append(append([]byte{}, u...), sigSection...) }

	// ---- family 1: single bit flips of the unsigned content
	exhaustive := i%4 == 0 && nU <= 260
	allBits := i%16 == 0 && nU <= 260
	var offs []int
	if exhaustive {
		for p := 0; p < nU; p++ {
			offs = append(offs, p)
		}
		r.Count("flip_unsigned/exhaustive_bases")
	} else {
		seen := map[int]bool{}
		for len(offs) < 10 && len(offs) < nU {
			p := rng.Intn(nU)
			if rng.Chance(40) {
				p = rng.Intn(43) // header incl. payer
			}
			if p < nU && !seen[p] {
				seen[p] = true
				offs = append(offs, p)
			}
		}
	}
	for _, p := range offs {
		bits := []uint{uint(rng.Intn(8))}
		if allBits {
			bits = []uint{0, 1, 2, 3, 4, 5, 6, 7}
			r.Count("flip_unsigned/all_bits_positions")
		}
		for _, bit := range bits {
			fld := unsignedField(p, nU)
			r.Count("flip_unsigned/field/" + fld)
			m.expectReject("flip-unsigned", fld, b, mk(flipBit(b.unsigned, p, bit)), fmt.Sprintf("fu/%d/%d/%d", i, p, bit), map[string]interface{}{"offset": p, "bit": bit, "field": fld})
		}
	}
	// whole-byte replacement of a few positions (byte change, not only bit flip)
	for k := 0; k < 2; k++ {
		p := rng.Intn(nU)
		u := append([]byte{}, b.unsigned...)
		u[p] ^= byte(1 + rng.Intn(255))
		fld := unsignedField(p, nU)
		m.expectReject("flip-unsigned", fld, b, mk(u), fmt.Sprintf("fb/%d/%d/%d", i, p, u[p]), map[string]interface{}{"offset": p, "new_byte": u[p], "field": fld})
	}

	// ---- family 2: flips in each required signature
	exhSig := i%8 == 0
	for si, s := range b.sets {
		for gi, sg := range s.Sigs {
			key := s.Keys[sb.who[si][gi]]
			var pos []int
			if exhSig && si == b.payer && gi == 0 {
				for p := range sg {
					pos = append(pos, p)
				}
				r.Count("flip_sig/exhaustive_signatures")
			} else {
				pos = []int{rng.Intn(len(sg))}
				if len(b.sets) <= 3 {
					half := len(sg) / 2
					pos = []int{0, len(sg) - 1, 2 + rng.Intn(half-2), half + 1 + rng.Intn(half-2)}
					if key.Kind == txgen.SM2 {
						pos = append(pos, 1)
					}
				}
			}
			for _, p := range pos {
				c := b.clone()
				bit := uint(rng.Intn(8))
				c.sets[si].Sigs[gi] = flipBit(sg, p, bit)
				reg := sigRegion(key, p, len(sg))
				r.Count("flip_sig/" + key.Kind.String() + "/" + reg)
				m.expectReject("flip-sig", key.Kind.String()+":"+reg, b, c.assemble(), fmt.Sprintf("fs/%d/%d/%d/%d/%d", i, si, gi, p, bit),
					map[string]interface{}{"set": si, "signature": gi, "offset": p, "bit": bit, "key_kind": key.Kind.String(), "region": reg, "signature_hex": vf.Hex(sg)})
			}
		}
	}

	// ---- family 2b: arithmetic variants of the last byte of an Ethereum-type signature (the recovery id):
	// +27 (the other common convention), +1, ^1, absolute 27..30, +4, 0xff — only the exact id may verify
	for si, s := range b.sets {
		for gi, sg := range s.Sigs {
			key := s.Keys[sb.who[si][gi]]
			if key.Kind != txgen.EthSecp256k1 || len(sg) == 0 {
				continue
			}
			last := sg[len(sg)-1]
			for _, nv := range []byte{last + 27, last + 1, last ^ 1, 27, 28, 29, 30, last + 4, 0xff, last + 35} {
				if nv == last {
					continue
				}
				c := b.clone()
				ns := append([]byte{}, sg...)
				ns[len(ns)-1] = nv
				c.sets[si].Sigs[gi] = ns
				r.Count("eth_recovery_id_variants")
				m.expectReject("eth-recovery-id", fmt.Sprintf("was=%d:now=%d", last, nv), b, c.assemble(), fmt.Sprintf("er/%d/%d/%d/%d", i, si, gi, nv),
					map[string]interface{}{"set": si, "signature": gi, "recovery_id_was": last, "now": nv, "signature_hex": vf.Hex(sg)})
			}
		}
	}

	// pick a target set for the per-set families: the payer's set and one random set
	targets := []int{b.payer}
	if len(b.sets) > 1 {
		targets = append(targets, rng.Intn(len(b.sets)))
	}
	for ti, si := range targets {
		s := b.sets[si]
		gi := rng.Intn(len(s.Sigs))
		key := s.Keys[sb.who[si][gi]]

		// ---- family 3: a valid signature over the right hash, by a key that is not in the set
		{
			c := b.clone()
			ok := otherKey(s, key, rng)
			c.sets[si].Sigs[gi] = mustSign(ok, b.hash[:])
			m.expectReject("sig-by-other-key", key.Kind.String(), b, c.assemble(), fmt.Sprintf("ok/%d/%d/%d", i, si, gi), map[string]interface{}{"set": si, "signature": gi, "other_key": vf.Hex(ok.PubBytes())})
		}
		// ---- family 4: the right key's signature over another hash
		{
			var hs [][]byte
			var names []string
			h1 := o.tx.SigHashForChain(1)
			hs, names = append(hs, h1[:]), append(names, "sighash-for-chain-1")
			u2 := append([]byte{}, b.unsigned...)
			u2[2] ^= 1 // other nonce
			h2 := sigasm.Hash(u2)
			hs, names = append(hs, h2[:]), append(names, "hash-of-tx-with-other-nonce")
			hs, names = append(hs, sha(sha(b.raw))), append(names, "sha256d-of-all-bytes")
			hs, names = append(hs, make([]byte, 32)), append(names, "zero-hash")
			hs, names = append(hs, sha(b.unsigned)), append(names, "single-sha256-of-unsigned")
			hs, names = append(hs, sha(b.hash[:])), append(names, "triple-sha256-of-unsigned")
			w := (i + ti) % len(hs)
			// sign EVERY set over the other hash: only the hash is wrong
			c := b.clone()
			for sj, s2 := range c.sets {
				if err := s2.SignWith(hs[w], sb.who[sj]); err != nil {
					panic(err)
				}
			}
			m.expectReject("sig-over-other-hash", names[w], b, c.assemble(), fmt.Sprintf("oh/%d/%d/%d", i, ti, w), map[string]interface{}{"signed_message_hex": vf.HexTrunc(hs[w], 64), "which": names[w]})
			// and only one signature over the other hash
			c2 := b.clone()
			c2.sets[si].Sigs[gi] = mustSign(key, hs[w])
			m.expectReject("sig-over-other-hash", names[w]+"/one-signature", b, c2.assemble(), fmt.Sprintf("oh1/%d/%d/%d/%d", i, si, gi, w), map[string]interface{}{"set": si, "signature": gi, "which": names[w]})
		}
		// ---- family 5: one signer's signature duplicated to fill m
		if s.Multi && s.M >= 2 {
			g2 := (gi + 1 + rng.Intn(len(s.Sigs)-1)) % len(s.Sigs)
			c := b.clone()
			c.sets[si].Sigs[g2] = append([]byte{}, s.Sigs[gi]...)
			m.expectReject("dup-signature", "same-bytes", b, c.assemble(), fmt.Sprintf("ds/%d/%d/%d/%d", i, si, gi, g2), map[string]interface{}{"set": si, "copied_from": gi, "copied_to": g2, "m": s.M, "n": len(s.Keys)})
			c = b.clone()
			c.sets[si].Sigs[g2] = mustSign(key, b.hash[:]) // a second, fresh signature by the same key
			m.expectReject("dup-signature", "fresh-signature-same-key", b, c.assemble(), fmt.Sprintf("df/%d/%d/%d/%d", i, si, gi, g2), map[string]interface{}{"set": si, "signer_of": gi, "replaced": g2, "m": s.M, "n": len(s.Keys)})
			// all m signatures by one key
			c = b.clone()
			for x := range c.sets[si].Sigs {
				c.sets[si].Sigs[x] = mustSign(key, b.hash[:])
			}
			m.expectReject("dup-signature", "all-by-one-key", b, c.assemble(), fmt.Sprintf("da/%d/%d/%d", i, si, gi), map[string]interface{}{"set": si, "m": s.M, "n": len(s.Keys)})
		}
		// ---- family 13: fewer than m signatures
		{
			c := b.clone()
			c.sets[si].Sigs = append(c.sets[si].Sigs[:gi:gi], c.sets[si].Sigs[gi+1:]...)
			kd := "multi"
			if !s.Multi {
				kd = "single-no-signature"
			}
			m.expectReject("too-few-signatures", kd, b, c.assemble(), fmt.Sprintf("tf/%d/%d/%d", i, si, gi), map[string]interface{}{"set": si, "m": s.M, "carried": len(c.sets[si].Sigs)})
		}
		// ---- family 14: truncated signature
		{
			sg := s.Sigs[gi]
			cuts := []int{len(sg) - 1, 1 + rng.Intn(len(sg)-1), 2}
			cut := cuts[(i+ti)%len(cuts)]
			c := b.clone()
			c.sets[si].Sigs[gi] = append([]byte{}, sg[:cut]...)
			kd := key.Kind.String()
			if key.Kind == txgen.EthSecp256k1 && cut == len(sg)-1 {
				kd += ":recovery-id-dropped"
			}
			m.expectReject("truncated-signature", kd, b, c.assemble(), fmt.Sprintf("ts/%d/%d/%d/%d", i, si, gi, cut), map[string]interface{}{"set": si, "signature": gi, "kept_bytes": cut, "of": len(sg), "key_kind": key.Kind.String()})
		}
	}

	// ---- family 6: payer changed to a non-signer, everything re-signed (only the payer check can object)
	{
		var cands []common.Address
		var names []string
		var ra common.Address
		copy(ra[:], rng.Bytes(20))
		cands, names = append(cands, ra), append(names, "random-address")
		ps := b.sets[b.payer]
		if ps.Multi {
			cands, names = append(cands, sigasm.OwnAccount(ps.Keys[:1], 1, false)), append(names, "single-account-of-a-member-key")
			m2 := ps.M%len(ps.Keys) + 1
			cands, names = append(cands, sigasm.OwnAccount(ps.Keys, m2, true)), append(names, "same-keys-other-threshold")
			if len(ps.Keys) > 2 {
				cands, names = append(cands, sigasm.OwnAccount(ps.Keys[1:], 1, true)), append(names, "subset-of-keys")
			}
		} else {
			ok := otherKey(ps, ps.Keys[0], rng)
			cands, names = append(cands, sigasm.OwnAccount([]*txgen.Key{ok}, 1, false)), append(names, "account-of-another-key")
			cands, names = append(cands, sigasm.OwnAccount([]*txgen.Key{ps.Keys[0], ok}, 1, true)), append(names, "multisig-account-containing-the-key")
			if ps.Keys[0].Kind == txgen.EthSecp256k1 {
				cands, names = append(cands, sigasm.Hash160(ps.Verify())), append(names, "script-hash-of-eth-key")
			}
		}
		cands, names = append(cands, sigasm.Hash160(b.sets[b.payer].Invoke())), append(names, "hash-of-invocation-script")
		for k := 0; k < 2; k++ {
			w := (i + k*3) % len(cands)
			if sb.accountCount(cands[w]) > 0 {
				continue
			}
			c := b.clone()
			setPayer(c.unsigned, cands[w])
			c.resign(rng.Sub(uint64(1000 + k)))
			m.expectReject("payer-not-a-signer", names[w], b, c.assemble(), fmt.Sprintf("pn/%d/%d", i, w), map[string]interface{}{"new_payer": cands[w].ToHexString(), "which": names[w]})
		}
	}

	// ---- family 7: threshold changed in the payer's script, payer not re-derived
	if ps := b.sets[b.payer]; ps.Multi && sb.accountCount(b.mt.Payer) == 1 {
		for _, m2 := range []int{ps.M - 1, ps.M + 1} {
			if m2 < 1 || m2 > len(ps.Keys) || sb.accountCount(sigasm.OwnAccount(ps.Keys, m2, true)) > 0 {
				continue
			}
			c := b.clone()
			cs := c.sets[b.payer]
			cs.M = m2
			if _, err := cs.SignRandom(b.hash[:], rng); err != nil { // exactly m2 valid signatures by distinct keys
				panic(err)
			}
			dir := "lowered"
			if m2 > ps.M {
				dir = "raised"
			}
			m.expectReject("threshold-changed", dir, b, c.assemble(), fmt.Sprintf("mc/%d/%d", i, m2), map[string]interface{}{"m": ps.M, "new_m": m2, "n": len(ps.Keys)})
			if m2 < ps.M { // lowered, original m signatures kept
				c = b.clone()
				c.sets[b.payer].M = m2
				m.expectReject("threshold-changed", "lowered-keeping-signatures", b, c.assemble(), fmt.Sprintf("mk/%d/%d", i, m2), map[string]interface{}{"m": ps.M, "new_m": m2, "n": len(ps.Keys)})
			}
		}
	}

	// ---- family 8: drop the signature set(s) of the payer
	{
		c := b.clone()
		var keep []*sigasm.Set
		for _, s := range c.sets {
			if s.Account() != b.mt.Payer {
				keep = append(keep, s)
			}
		}
		c.sets = keep
		kd := "others-remain"
		if len(keep) == 0 {
			kd = "no-set-remains"
		}
		m.expectReject("payer-set-dropped", kd, b, c.assemble(), fmt.Sprintf("pd/%d", i), map[string]interface{}{"remaining_sets": len(keep)})
	}

	// ---- family 15: flips in the signature section outside the signatures (scripts, lengths):
	// judged only by oracle (b) — an accepted mutant must still be correctly signed by the payer
	{
		for k := 0; k < 4; k++ {
			p := rng.Intn(len(sigSection))
			mut := append(append([]byte{}, b.unsigned...), flipBit(sigSection, p, uint(rng.Intn(8)))...)
			m.observe("flip-signature-section", b, mut, fmt.Sprintf("ss/%d/%d", i, p), true)
		}
	}

	// ---- observations outside the generated domain (DESIGN: surplus signatures)
	if i%5 == 0 {
		si := b.payer
		c := b.clone()
		junk := flipBit(c.sets[si].Sigs[0], 3, 1)
		c.sets[si].Sigs = append(c.sets[si].Sigs, junk)
		m.observe("surplus-invalid-signature", b, c.assemble(), fmt.Sprintf("su/%d", i), true)
	}
}

// panicClass is the panic message without the numbers (structural part of a violation key).
func panicClass(p interface{}) string {
	s := strings.Map(func(c rune) rune {
		switch {
		case c >= '0' && c <= '9':
			return -1
		case c == ' ' || c == ':' || c == '[' || c == ']':
			return '-'
		}
		return c
	}, fmt.Sprint(p))
	for strings.Contains(s, "--") {
		s = strings.ReplaceAll(s, "--", "-")
	}
	if len(s) > 70 {
		s = s[:70]
	}
	return s
}

func must(err error) {
	if err != nil {
		panic(err)
	}
}

func sha(b []byte) []byte {
	s := sha256.Sum256(b)
	return s[:]
}

// ---------------------------------------------------------------- structural cases

// structural builds transactions whose only defect is structural (n>16, m=0, m>n, >16 sets):
// every signature they carry is valid and the payer is the account the monitor derives for
// the offending script, so nothing but the structural check can object.
func (m *monitor) structural(rng *vf.RNG, i int) {
	mt, body := smallBody(rng, 1)
	mkBase := func(sets []*sigasm.Set, payer common.Address) *base {
		b := &base{idx: -1 - i, body: body, mt: mt, sets: sets}
		mt.Payer = payer
		u, err := sigasm.Unsigned(mt)
		if err != nil {
			panic(err)
		}
		b.unsigned = u
		b.hash = sigasm.Hash(u)
		return b
	}
	handSet := func(keys []*txgen.Key, mm int) *sigasm.Set {
		keys = sigasm.SortKeys(keys)
		s := &sigasm.Set{Keys: keys, M: mm, Multi: true}
		for _, k := range keys {
			s.KeyBytes = append(s.KeyBytes, k.PubBytes())
			s.Forms = append(s.Forms, sigasm.PushAuto)
		}
		return s
	}
	extra := func() []*sigasm.Set { // optionally one more, valid, set
		if rng.Bool() {
			return nil
		}
		return []*sigasm.Set{sigasm.CanonicalSet(txgen.Single(fastKeys(rng, 1)[0]))}
	}
	finish := func(b *base, sign func(s *sigasm.Set)) {
		for k, s := range b.sets {
			if k == 0 {
				sign(s)
			} else if _, err := s.SignRandom(b.hash[:], rng); err != nil {
				panic(err)
			}
		}
		b.raw = b.assemble()
		b.shape = "structural"
	}
	switch i % 6 {
	case 0: // n > 16
		n := 17 + rng.Intn(3)
		mm := rng.Range(1, n)
		if rng.Chance(30) {
			mm = rng.Range(1, 16)
		}
		s := handSet(fastKeys(rng, n), mm)
		b := mkBase(append([]*sigasm.Set{s}, extra()...), sigasm.OwnAccount(s.Keys, mm, true))
		finish(b, func(s *sigasm.Set) { must(s.SignWith(b.hash[:], rng.Perm(n)[:mm])) })
		m.expectReject("more-than-16-keys", fmt.Sprintf("n=%d", n), b, b.raw, fmt.Sprintf("st/n/%d", i), map[string]interface{}{"n": n, "m": mm})
	case 1: // m = 0
		n := rng.Range(2, 5)
		s := handSet(fastKeys(rng, n), 0)
		b := mkBase(append([]*sigasm.Set{s}, extra()...), sigasm.OwnAccount(s.Keys, 0, true))
		carried := rng.Intn(3)
		finish(b, func(s *sigasm.Set) { must(s.SignWith(b.hash[:], rng.Perm(n)[:carried])) })
		m.expectReject("threshold-zero", fmt.Sprintf("carried=%d", carried), b, b.raw, fmt.Sprintf("st/m0/%d", i), map[string]interface{}{"n": n, "m": 0, "carried_signatures": carried})
	case 2: // m > n
		n := rng.Range(2, 6)
		mm := n + rng.Range(1, 2)
		s := handSet(fastKeys(rng, n), mm)
		b := mkBase(append([]*sigasm.Set{s}, extra()...), sigasm.OwnAccount(s.Keys, mm, true))
		finish(b, func(s *sigasm.Set) {
			idx := rng.Perm(n)
			for len(idx) < mm {
				idx = append(idx, rng.Intn(n))
			}
			must(s.SignWith(b.hash[:], idx))
		})
		m.expectReject("threshold-above-n", fmt.Sprintf("m-n=%d", mm-n), b, b.raw, fmt.Sprintf("st/mn/%d", i), map[string]interface{}{"n": n, "m": mm})
	case 3: // more than 16 signature sets, all valid
		k := 17 + rng.Intn(4)
		var sets []*sigasm.Set
		for _, key := range fastKeys(rng, k) {
			sets = append(sets, sigasm.CanonicalSet(txgen.Single(key)))
		}
		b := mkBase(sets, sets[0].Account())
		finish(b, func(s *sigasm.Set) { _, err := s.SignRandom(b.hash[:], rng); must(err) })
		m.expectReject("more-than-16-sets", fmt.Sprintf("sets=%d", k), b, b.raw, fmt.Sprintf("st/ns/%d", i), map[string]interface{}{"sets": k})
	case 4: // multi-signature form with a single key (n = 1)
		key := fastKeys(rng, 1)[0]
		s := handSet([]*txgen.Key{key}, 1)
		b := mkBase(append([]*sigasm.Set{s}, extra()...), sigasm.OwnAccount(s.Keys, 1, true))
		finish(b, func(s *sigasm.Set) { must(s.SignWith(b.hash[:], []int{0})) })
		// domain note: the statement does not forbid 1-of-1 in CHECKMULTISIG form; observation only
		m.observe("multisig-form-with-one-key", b, b.raw, fmt.Sprintf("st/n1/%d", i), true)
		// the same key listed twice, both signatures by it (DESIGN: n DISTINCT keys is the domain)
		s2 := &sigasm.Set{Keys: []*txgen.Key{key, key}, KeyBytes: [][]byte{key.PubBytes(), key.PubBytes()}, Forms: []sigasm.PushForm{0, 0}, M: 2, Multi: true}
		b2 := mkBase([]*sigasm.Set{s2}, sigasm.OwnAccount(s2.Keys, 2, true))
		finish(b2, func(s *sigasm.Set) { must(s.SignWith(b2.hash[:], []int{0, 1})) })
		m.observe("same-key-listed-twice", b2, b2.raw, fmt.Sprintf("st/dk/%d", i), true)
	case 5: // key written as an uncompressed point that is NOT on the curve (the key decoder does not check)
		kinds := []txgen.Kind{txgen.ECDSAP256, txgen.ECDSAP384, txgen.ECDSAP521, txgen.SM2, txgen.ECDSAP224}
		key := txgen.PickKind(rng, kinds[(i/6)%len(kinds)])
		kb := sigasm.EncodeKey(key, sigasm.EncUncompressed, rng)
		kb[len(kb)-1-rng.Intn(8)] ^= 1 << uint(rng.Intn(8)) // damage Y
		s := &sigasm.Set{Keys: []*txgen.Key{key}, KeyBytes: [][]byte{kb}, Forms: []sigasm.PushForm{sigasm.PushAuto}, M: 1}
		b := mkBase([]*sigasm.Set{s}, sigasm.OwnAccount(s.Keys, 1, false))
		which := []string{"own-scheme-signature", "sm2-scheme-signature", "ecdsa-sha256-scheme-signature"}[(i/30)%3]
		finish(b, func(s *sigasm.Set) {
			must(s.SignWith(b.hash[:], []int{0}))
			switch which {
			case "sm2-scheme-signature": // scheme byte SM3withSM2, empty id, arbitrary r||s: needs no private key
				s.Sigs[0] = append([]byte{byte(osig.SM3withSM2), 0}, rng.Bytes(64)...)
			case "ecdsa-sha256-scheme-signature":
				s.Sigs[0] = append([]byte{byte(osig.SHA256withECDSA)}, rng.Bytes(2*((len(kb)-1)/2))...)
			}
		})
		m.expectReject("key-point-not-on-curve", key.Kind.String()+":"+which, b, b.raw, fmt.Sprintf("st/oc/%d", i), map[string]interface{}{"key_kind": key.Kind.String(), "key_bytes_in_script": vf.Hex(kb), "signature": which})
	}
}

// ---------------------------------------------------------------- main

func main() {
	log.InitLog(log.FatalLog, log.Stdout)
	r := vf.NewRun("C16", "exploration",
		"base = valid-by-construction Ontology-format tx (body transfer/invoke/deploy; 1..16 signature sets; each set a single key of one of 7 key types or m-of-n (n<=16) over mixed types, 20% with non-canonical but accepted scripts; exactly m signatures in random order; payer = monitor-derived account of a random set); first 45 bases sweep every key type single and 2-of-3, 1..16 sets, n=2..16, rest seeded random. Each base is mutated by 14 families (bit/byte flips of unsigned bytes - every byte position for every 4th small base, all 8 bits for every 16th -, bit flips in every required signature, signature by another key / over another hash, duplicated signer, too few / truncated signatures, payer not a signer with everything re-signed, threshold changed, payer set dropped) plus structural cases (n>16, m=0, m>n, >16 sets) whose signatures are all valid. Distinct by (family, base index, position); a case is non-trivial when it reaches decode")
	rng := vf.NewRNG(vf.Seed())
	m := &monitor{r: r, obs: map[string]interface{}{}}
	nBase := vf.N(320, 3000)
	nStruct := vf.N(90, 900)
	w := runtime.NumCPU()
	vf.Parallel(nBase+nStruct, w, func(i int) {
		if i < nBase {
			m.doBase(rng.Sub(uint64(i)), i)
		} else {
			m.structural(rng.Sub(uint64(1_000_000+i)), i-nBase)
		}
	})

	for k := txgen.Kind(0); k < txgen.NumKinds; k++ {
		r.Require("base_accepted/single/"+k.String(), 1)
		r.Require("base_accepted/multi-member/"+k.String(), 1)
		r.Require("flip_sig/"+k.String()+"/r", 1)
		r.Require("flip_sig/"+k.String()+"/s", 1)
	}
	for k := 1; k <= 16; k++ {
		r.Require(fmt.Sprintf("base_accepted/sets=%d", k), 1)
	}
	for n := 2; n <= 16; n++ {
		r.Require(fmt.Sprintf("base_accepted/multi/n=%d", n), 1)
	}
	r.Require("base_accepted", int64(nBase*9/10))
	r.Require("base_reverified_ok", int64(nBase*9/10))
	r.Require("base_accepted/non-canonical-script", 5)
	for _, f := range []string{"flip-unsigned", "flip-sig", "sig-by-other-key", "sig-over-other-hash", "dup-signature", "too-few-signatures", "truncated-signature",
		"payer-not-a-signer", "threshold-changed", "payer-set-dropped", "more-than-16-keys", "threshold-zero", "threshold-above-n", "more-than-16-sets", "key-point-not-on-curve"} {
		r.Require("mutants/"+f, 5)
	}
	for _, f := range []string{"version", "txtype", "nonce", "gasprice", "gaslimit", "payer", "payload", "attributes"} {
		r.Require("flip_unsigned/field/"+f, 1)
	}
	r.Require("flip_unsigned/exhaustive_bases", 10)
	r.Require("flip_sig/exhaustive_signatures", 5)
	r.Require("rejected_at_decode", 10)
	r.Require("rejected_by_validator", 1000)
	r.Require("flip_sig/eth-secp256k1/recovery-id", 1)
	r.Require("flip_sig/sm2/id-terminator", 1)

	if n := r.Counter("valid_tx_rejected"); n > 0 {
		r.Extra("informational_valid_tx_rejected", m.info)
		r.Inconclusive(fmt.Sprintf("%d valid-by-construction transactions were rejected (informational for an only-if statement; the must-be-rejected verdicts of their mutants stand, but positive coverage is missing) — see coverage.informational_valid_tx_rejected", n))
		fmt.Printf("INFO property=C16 valid-tx-rejected: %d valid transactions rejected, first: %v\n", n, m.info[0])
	}
	r.Extra("exhaustive", false)
	r.Extra("exhaustive_scope", "per base with index%4==0 and <=260 unsigned bytes: every byte position of the unsigned content (1 bit; all 8 bits when index%16==0); per base with index%8==0: every byte of one required signature")
	r.Extra("observations_outside_domain", map[string]int64{
		"surplus_invalid_signature_accepted":    r.Counter("observed/surplus-invalid-signature/accepted"),
		"surplus_invalid_signature_rejected":    r.Counter("observed/surplus-invalid-signature/rejected"),
		"same_key_listed_twice_accepted":        r.Counter("observed/same-key-listed-twice/accepted"),
		"multisig_form_with_one_key_accepted":   r.Counter("observed/multisig-form-with-one-key/accepted"),
		"signature_section_flip_still_accepted": r.Counter("observed/flip-signature-section/accepted"),
	})
	r.Require("eth_recovery_id_variants", 100)
	r.Add("verdict_depends_on_signer_query_before_validation", verdictDependsOnSignerQuery.Load())
	r.Assume("ontology-crypto's signature.Verify is the definition of 'a signature verifies' (oracle b re-uses it; it is not part of /repo)")
	r.Assume("signature sets carry exactly m signatures (DESIGN domain note): surplus signatures and scripts listing one key twice are observed, not judged")
	r.Assume("EIP-155 (Ethereum-format) transactions are outside this property: their signature is checked at decode")
	r.Finish()
}
