// keyforms.go — what NeoVM contract code sees through System.Runtime.CheckWitness.
//
// Contract code may ask "did X sign this transaction?" with X a 20-byte account address OR a
// serialized public key in any form keypair.DeserializePublicKey reads (33-byte P-256 point,
// 35-byte algorithm|curve|point, 34-byte Ed25519, 66-byte Ethereum-type secp256k1 key, the
// uncompressed / trailing-bytes / long P-256 variants).  For an accepted transaction the answer for
// a key form must be the answer for the account of that key, and that must be "the account is in
// the signer set the validator established" — on every copy of the decoded bytes.
//
// The probing code is real NeoVM code executed by the production NeoVmService inside a
// SmartContract whose Config.Tx is the decoded transaction:
//
//	PUSH arg_0  SYSCALL System.Runtime.CheckWitness  …  PUSH arg_{n-1}  SYSCALL …  PUSH n  PACK
//
// In the "witness/…" family this code IS the payload of the signed transaction (so the contract
// code itself is a function of the bytes); for every other accepted NeoVM-invoke transaction a
// short probing script over the same transaction is executed as foreign code.
//
// Oracle: lib/sigasm.OwnAccount of the generator's key objects (nothing of /repo involved):
// key K answers true iff OwnAccount(K) is among the accounts of the signature sets.  A member
// key of an m-of-n set is NOT a signer unless it also signed on its own.
package main

import (
	"fmt"
	"math/big"
	"sync"

	"github.com/ontio/ontology-crypto/ec"
	"github.com/ontio/ontology-crypto/keypair"
	osig "github.com/ontio/ontology-crypto/signature"
	"github.com/ontio/ontology/common"
	"github.com/ontio/ontology/core/payload"
	"github.com/ontio/ontology/core/types"
	"github.com/ontio/ontology/smartcontract"
	vmtypes "github.com/ontio/ontology/vm/neovm/types"
	"verifharness/lib/sigasm"
	"verifharness/lib/txgen"
	"verifharness/lib/vf"
)

const (
	opSYSCALL        = 0x68
	opPACK           = 0xc1
	checkWitnessName = "System.Runtime.CheckWitness"
)

// ---------------------------------------------------------------- one more key type

// kindK1 is ECDSA over secp256k1 under the generic PK_ECDSA label (35-byte key, 0x12 0x05 …): the
// same curve as the Ethereum key type but an ordinary script-hash account.  The shared pool of
// lib/txgen does not carry it, so the few keys needed live here.
const kindK1 = txgen.NumKinds

const numKindsAll = int(txgen.NumKinds) + 1

func kindName(k txgen.Kind) string {
	if k == kindK1 {
		return "ecdsa-secp256k1"
	}
	return k.String()
}

var (
	k1Once sync.Once
	k1Keys []*txgen.Key
)

func k1Pool() []*txgen.Key {
	k1Once.Do(func() {
		c, err := keypair.GetCurve(keypair.SECP256K1)
		if err != nil {
			panic(err)
		}
		base := vf.NewRNG(0x6b31_706f_6f6c) // fixed: independent of VERIF_SEED, like the shared pool
		for i := 0; i < 8; i++ {
			rng := base.Sub(uint64(i))
			n := c.Params().N
			d := new(big.Int).SetBytes(rng.Bytes(40))
			d.Mod(d, new(big.Int).Sub(n, big.NewInt(1)))
			d.Add(d, big.NewInt(1))
			pri := &ec.PrivateKey{Algorithm: ec.ECDSA, PrivateKey: ec.ConstructPrivateKey(d.Bytes(), c)}
			k1Keys = append(k1Keys, &txgen.Key{Kind: kindK1, Index: i, Pri: pri,
				Pub: &ec.PublicKey{Algorithm: ec.ECDSA, PublicKey: &pri.PublicKey}, Scheme: osig.SHA256withECDSA})
		}
	})
	return k1Keys
}

func pickAnyKind(rng *vf.RNG, kd txgen.Kind) *txgen.Key {
	if kd == kindK1 {
		p := k1Pool()
		return p[rng.Intn(len(p))]
	}
	return txgen.PickKind(rng, kd)
}

// keyEncodings: sigasm.Encodings, which treats the extra kind like the other labelled curves.
func keyEncodings(kd txgen.Kind) []sigasm.KeyEnc { return sigasm.Encodings(kd) }

// ---------------------------------------------------------------- probes

type signerInfo struct {
	keys  []*txgen.Key
	m     int
	multi bool
}

func (s signerInfo) account() common.Address { return sigasm.OwnAccount(s.keys, s.m, s.multi) }

type probe struct {
	arg     []byte
	form    sigasm.PushForm
	isKey   bool
	kind    string // key kind ("" for a plain address probe)
	enc     string // key encoding / address kind
	role    string // single-signer | multisig-member | member-and-single-signer | non-signer | …
	exp     bool   // own derivation
	pair    int    // key form: index of the address-form probe of the same key's account
	account common.Address
}

func (p *probe) class() string {
	if p.isKey {
		return fmt.Sprintf("key/%s/%s/%s", p.kind, p.enc, p.role)
	}
	return fmt.Sprintf("addr/%s/%s", p.enc, p.role)
}

// buildProbes lists what the contract will ask.  full: every accepted encoding of every key of
// every set plus non-signer keys of several kinds; otherwise a handful.
func buildProbes(sgs []signerInfo, nearMiss []common.Address, rng *vf.RNG, full bool) []probe {
	inOwn := map[common.Address]bool{}
	single := map[*txgen.Key]bool{}
	member := map[*txgen.Key]bool{}
	var order []*txgen.Key
	seen := map[*txgen.Key]bool{}
	add := func(k *txgen.Key) {
		if !seen[k] {
			seen[k] = true
			order = append(order, k)
		}
	}
	for _, s := range sgs {
		inOwn[s.account()] = true
		if !s.multi {
			single[s.keys[0]] = true
			add(s.keys[0])
			continue
		}
		ks := s.keys
		if !full && len(ks) > 2 {
			pm := rng.Perm(len(ks))
			ks = []*txgen.Key{ks[pm[0]], ks[pm[1]]}
		}
		for _, k := range ks {
			member[k] = true
			add(k)
		}
	}
	// non-signers: same kind as a signer key (another pool entry), and other kinds
	nSigner := len(order)
	wantKinds := []txgen.Kind{}
	if nSigner > 0 {
		wantKinds = append(wantKinds, order[rng.Intn(nSigner)].Kind)
	}
	if full {
		for _, k := range order[:nSigner] {
			if rng.Chance(40) {
				wantKinds = append(wantKinds, k.Kind)
			}
		}
		for j := 0; j < 3; j++ {
			kd := txgen.Kind(1 + rng.Intn(numKindsAll-1)) // P-224 (slow decompression) only as the kind of a signer
			wantKinds = append(wantKinds, kd)
		}
		wantKinds = append(wantKinds, txgen.EthSecp256k1)
	}
	for _, kd := range wantKinds {
		for try := 0; try < 8; try++ {
			k := pickAnyKind(rng, kd)
			if !seen[k] {
				add(k)
				break
			}
		}
	}
	var out []probe
	for _, k := range order {
		acct := sigasm.OwnAccount([]*txgen.Key{k}, 1, false)
		role := "non-signer"
		switch {
		case single[k] && member[k]:
			role = "member-and-single-signer"
		case single[k]:
			role = "single-signer"
		case member[k]:
			role = "multisig-member"
		case inOwn[acct]:
			role = "signer-by-coincidence"
		}
		exp := inOwn[acct]
		pair := len(out)
		out = append(out, probe{arg: append([]byte{}, acct[:]...), enc: "key-account", role: role, exp: exp, pair: -1, account: acct, kind: kindName(k.Kind)})
		encs := keyEncodings(k.Kind)
		if !full {
			e := []sigasm.KeyEnc{sigasm.EncCanonical}
			if len(encs) > 1 && k.Kind != txgen.ECDSAP224 {
				e = append(e, encs[1+rng.Intn(len(encs)-1)])
			}
			encs = e
		}
		for _, e := range encs {
			p := probe{arg: sigasm.EncodeKey(k, e, rng), isKey: true, kind: kindName(k.Kind), enc: e.String(), role: role, exp: exp, pair: pair, account: acct}
			if full && rng.Chance(15) {
				p.form = sigasm.PushForm(rng.Intn(int(sigasm.NumPushForms)))
			}
			out = append(out, p)
		}
	}
	// plain addresses: the set accounts, near misses, a random one
	for _, s := range sgs {
		a := s.account()
		enc := "single-sig-account"
		if s.multi {
			enc = "multi-sig-account"
		}
		out = append(out, probe{arg: append([]byte{}, a[:]...), enc: enc, role: "signer", exp: true, pair: -1, account: a})
	}
	nm := nearMiss
	if !full && len(nm) > 2 {
		nm = nm[:2]
	}
	for _, a := range nm {
		out = append(out, probe{arg: append([]byte{}, a[:]...), enc: "near-miss", role: "other", exp: inOwn[a], pair: -1, account: a})
	}
	var ra common.Address
	copy(ra[:], rng.Bytes(20))
	out = append(out, probe{arg: append([]byte{}, ra[:]...), enc: "random", role: "other", exp: inOwn[ra], pair: -1, account: ra})
	return out
}

// probeCode assembles the contract: every probe pushed and asked, answers packed into one array.
func probeCode(ps []probe) []byte {
	var code []byte
	for _, p := range ps {
		code = append(code, sigasm.Push(p.arg, p.form)...)
		code = append(code, opSYSCALL, byte(len(checkWitnessName)))
		code = append(code, checkWitnessName...)
	}
	code = append(code, sigasm.Num(len(ps), sigasm.NumOp)...)
	return append(code, opPACK)
}

// runProbeCode executes code inside a transaction context and returns the answers in probe order.
func runProbeCode(tx *types.Transaction, code []byte, n int) (ans []bool, err error) {
	if p := vf.Catch(func() {
		sc := &smartcontract.SmartContract{
			Config: &smartcontract.Config{Time: 1_600_000_000, Height: 100, Tx: tx},
			Gas:    1 << 40,
		}
		var eng interface {
			Invoke() (interface{}, error)
		}
		eng, err = sc.NewExecuteEngine(code, types.InvokeNeo)
		if err != nil {
			return
		}
		var res interface{}
		res, err = eng.Invoke()
		if err != nil {
			return
		}
		val, ok := res.(*vmtypes.VmValue)
		if !ok || val == nil {
			err = fmt.Errorf("contract returned %T, not a value", res)
			return
		}
		arr, e := val.AsArrayValue()
		if e != nil {
			err = fmt.Errorf("contract result is not an array: %v", e)
			return
		}
		if len(arr.Data) != n {
			err = fmt.Errorf("contract returned %d answers for %d questions", len(arr.Data), n)
			return
		}
		ans = make([]bool, n)
		for i := range arr.Data {
			b, e := arr.Data[i].AsBool()
			if e != nil {
				err = fmt.Errorf("answer %d is not a boolean: %v", i, e)
				return
			}
			// PACK pops the most recent answer first: array element i is the answer to question n-1-i
			ans[n-1-i] = b
		}
	}); p != nil {
		return nil, fmt.Errorf("panic: %v", p)
	}
	return ans, err
}

// ---------------------------------------------------------------- oracle

// checkKeyForms runs the probing contract on the three copies of an accepted transaction and judges
// the answers.  payloadCode: the probes are the transaction's own payload (tc.probes).
func (m *monitor) checkKeyForms(i int, tc *tcase, t1, t2, t3 *types.Transaction, rng *vf.RNG, wit func(map[string]interface{}) map[string]interface{}) {
	r := m.r
	ps := tc.probes
	var code []byte
	src := "payload-code"
	if len(ps) > 0 {
		// the code that runs is what the decoded bytes carry, not what the generator remembers
		inv, ok := t1.Payload.(*payload.InvokeCode)
		if !ok {
			r.Violation("vm-checkwitness:payload-lost", fmt.Sprintf("decoded payload is %T", t1.Payload), wit(nil))
			return
		}
		code = inv.Code
		if string(code) != string(probeCode(ps)) {
			r.Violation("vm-checkwitness:payload-code-changed-by-codec", "decoded invoke code differs from the signed code", wit(map[string]interface{}{"decoded_code": vf.Hex(code)}))
			return
		}
	} else {
		if len(tc.signers) == 0 || t1.TxType != types.InvokeNeo {
			return
		}
		src = "foreign-code"
		ps = buildProbes(tc.signers, tc.nearMiss, rng, false)
		code = probeCode(ps)
	}
	r.Count("vm_cases")
	r.Count("vm_cases/" + src)
	names := [3]string{"unvalidated", "validated", "queried-then-validated"}
	var ans [3][]bool
	for c, t := range []*types.Transaction{t1, t2, t3} {
		a, err := runProbeCode(t, code, len(ps))
		if err != nil {
			// all arguments are well-formed keys / addresses: the contract must not fail.  Name the question.
			culprit, cls := -1, "?"
			for j := range ps {
				if _, e := runProbeCode(t, probeCode(ps[j:j+1]), 1); e != nil {
					culprit, cls = j, ps[j].class()
					break
				}
			}
			w := map[string]interface{}{"copy": names[c], "error": err.Error(), "code_hex": vf.Hex(code)}
			if culprit >= 0 {
				w["argument_hex"] = vf.Hex(ps[culprit].arg)
			}
			r.Violation("vm-checkwitness-contract-fails:"+cls, fmt.Sprintf("probing contract fails on the %s copy: %v", names[c], err), wit(w))
			return
		}
		ans[c] = a
	}
	for j := range ps {
		p := &ps[j]
		cls := p.class()
		w := func() map[string]interface{} {
			return wit(map[string]interface{}{"argument_hex": vf.Hex(p.arg), "argument_class": cls, "account_of_key": p.account.ToHexString(),
				"answers": map[string]bool{names[0]: ans[0][j], names[1]: ans[1][j], names[2]: ans[2][j]}, "own_derivation_says": p.exp, "code_source": src})
		}
		r.Count("vm_probes")
		if p.isKey {
			r.Count("vm_key_probes")
			r.Count("vm_key/" + p.kind + "/" + p.enc)
			r.Count("vm_key_role/" + p.role)
			r.Count(fmt.Sprintf("vm_key_kind_role/%s/%s/%v", p.kind, p.role, p.exp))
			r.Count(fmt.Sprintf("vm_key_len/%d", len(p.arg)))
			if p.form != sigasm.PushAuto {
				r.Count("vm_key_pushed_as/" + p.form.String())
			}
		} else {
			r.Count("vm_addr/" + p.enc)
		}
		if p.exp {
			r.Count("vm_probes/expected_true")
		} else {
			r.Count("vm_probes/expected_false")
		}
		if ans[0][j] != ans[1][j] || ans[1][j] != ans[2][j] {
			r.Violation("vm-checkwitness-differs-between-copies:"+cls, fmt.Sprintf("contract CheckWitness(%s): unvalidated=%v validated=%v queried-then-validated=%v", vf.HexTrunc(p.arg, 80), ans[0][j], ans[1][j], ans[2][j]), w())
			return
		}
		got := ans[1][j]
		if p.isKey && got != ans[1][p.pair] {
			r.Violation("vm-checkwitness-key-form-differs-from-address-form:"+cls, fmt.Sprintf("contract CheckWitness(key %s)=%v but CheckWitness(its account %s)=%v in the same transaction (own derivation: %v)", vf.HexTrunc(p.arg, 80), got, p.account.ToHexString(), ans[1][p.pair], p.exp), w())
			return
		}
		if got != p.exp {
			kind := "unsigned"
			if p.exp {
				kind = "signer"
			}
			what := "account"
			if p.isKey {
				what = "key"
			}
			r.Violation(fmt.Sprintf("vm-checkwitness-%s-%s-answer-%v:%s", kind, what, got, cls), fmt.Sprintf("contract CheckWitness(%s)=%v on all copies, own derivation says %v", vf.HexTrunc(p.arg, 80), got, p.exp), w())
			return
		}
	}
	r.Count("vm_cases_all_answers_as_derived")
	if len(tc.probes) > 0 && i%61 == 7 {
		var qs []map[string]interface{}
		for j := range ps {
			if j < 12 {
				qs = append(qs, map[string]interface{}{"argument": vf.HexTrunc(ps[j].arg, 80), "class": ps[j].class(), "answer": ans[1][j]})
			}
		}
		r.Sample(map[string]interface{}{"case": i, "label": tc.label, "set_classes": tc.classes, "questions": len(ps), "first_questions": qs})
	}
}

// requireKeyForms: coverage the contract-level probing must have reached.
func requireKeyForms(r *vf.Run) {
	reps := int64(witnessReps())
	for kd := txgen.Kind(0); int(kd) < numKindsAll; kd++ {
		kn := kindName(kd)
		for role := 0; role < numRoles; role++ {
			r.Require(fmt.Sprintf("accepted/witness/sweep/%s/%s", kn, roleNames[role]), reps)
		}
		for _, e := range keyEncodings(kd) {
			r.Require(fmt.Sprintf("vm_key/%s/%s", kn, e), 3*reps)
		}
		r.Require("vm_key_kind_role/"+kn+"/single-signer/true", reps)
		r.Require("vm_key_kind_role/"+kn+"/multisig-member/false", reps)
		r.Require("vm_key_kind_role/"+kn+"/member-and-single-signer/true", reps)
		r.Require("vm_key_kind_role/"+kn+"/non-signer/false", reps)
	}
	// 33: P-256 point; 34: Ed25519; 35: label|curve|256-bit point; 65: uncompressed P-256; 66: Ethereum-type key
	for _, n := range []int{31, 33, 34, 35, 51, 65, 66, 69} {
		r.Require(fmt.Sprintf("vm_key_len/%d", n), 3)
	}
	for f := sigasm.PushForm(1); f < sigasm.NumPushForms; f++ {
		r.Require("vm_key_pushed_as/"+f.String(), 3)
	}
	for _, c := range []string{"vm_addr/key-account", "vm_addr/multi-sig-account", "vm_addr/single-sig-account", "vm_addr/near-miss", "vm_addr/random"} {
		r.Require(c, 20)
	}
	r.Require("accepted/witness/random", int64(vf.N(150, 4000)*9/10))
	r.Require("vm_cases/payload-code", (int64(numKindsAll*numRoles)*reps+int64(vf.N(150, 4000)))*9/10)
	r.Require("vm_cases/foreign-code", int64(vf.N(300, 9000)))
	r.Require("vm_probes/expected_true", int64(vf.N(1000, 30000)))
	r.Require("vm_probes/expected_false", int64(vf.N(1000, 30000)))
	r.Require("vm_cases_all_answers_as_derived", 1) // (on a defective tree this may legitimately be low; violations decide)
}

// ---------------------------------------------------------------- the witness/… family

// partnersFor returns n-1 distinct partner keys for k in one multi-signature set.  A secp256k1
// key under the PK_ECDSA label is only combined with keys of other algorithm labels (lib/sigasm's
// own key ordering knows the curves of the shared pool only).
func partnersFor(k *txgen.Key, n int, rng *vf.RNG) []*txgen.Key {
	out := []*txgen.Key{k}
	for len(out) < n {
		var c *txgen.Key
		if k.Kind == kindK1 || hasKind(out, kindK1) {
			c = txgen.PickKind(rng, []txgen.Kind{txgen.SM2, txgen.Ed25519, txgen.EthSecp256k1}[rng.Intn(3)])
		} else if rng.Chance(12) {
			c = pickAnyKind(rng, kindK1)
			if hasLabel(out, keypair.PK_ECDSA) {
				continue
			}
		} else {
			c = txgen.PickLight(rng)
		}
		dup := false
		for _, x := range out {
			if x == c {
				dup = true
			}
		}
		if !dup {
			out = append(out, c)
		}
	}
	return out
}

func hasKind(ks []*txgen.Key, kd txgen.Kind) bool {
	for _, k := range ks {
		if k.Kind == kd {
			return true
		}
	}
	return false
}

func hasLabel(ks []*txgen.Key, t keypair.KeyType) bool {
	for _, k := range ks {
		if keypair.GetKeyType(k.Pub) == t {
			return true
		}
	}
	return false
}

func singleSetOf(k *txgen.Key, rng *vf.RNG) (*sigasm.Set, []sigasm.KeyEnc) {
	e := randEncs([]*txgen.Key{k}, rng, 40)
	return mkSet([]*txgen.Key{k}, 1, false, e, randForms(1, rng, 20), 0, rng), e
}

func multiSetOf(ks []*txgen.Key, rng *vf.RNG) (*sigasm.Set, []sigasm.KeyEnc) {
	ks = permute(ks, rng.Perm(len(ks)))
	e := randEncs(ks, rng, 30)
	return mkSet(ks, rng.Range(1, len(ks)), true, e, randForms(len(ks), rng, 15), sigasm.NumForm(rng.Intn(int(sigasm.NumNumForms))), rng), e
}

const (
	roleSingle = iota
	roleMember
	roleMemberAndSingle
	numRoles
)

var roleNames = [...]string{"single", "multisig-member", "member-and-single"}

// witnessCase: a transaction whose payload asks CheckWitness about every key it was signed with.
// kd/role fix the key type and its role for the sweep; kd < 0: seeded random shape.
func witnessCase(rng *vf.RNG, kd txgen.Kind, role int) *tcase {
	var sets []*sigasm.Set
	var encs [][]sigasm.KeyEnc
	addSingle := func(k *txgen.Key) {
		s, e := singleSetOf(k, rng)
		sets, encs = append(sets, s), append(encs, e)
	}
	addMulti := func(ks []*txgen.Key) {
		s, e := multiSetOf(ks, rng)
		sets, encs = append(sets, s), append(encs, e)
	}
	label := "witness/random"
	if kd >= 0 {
		label = "witness/sweep/" + kindName(kd) + "/" + roleNames[role]
		k := pickAnyKind(rng, kd)
		switch role {
		case roleSingle:
			addSingle(k)
		case roleMember:
			addMulti(partnersFor(k, rng.Range(2, 4), rng))
		default:
			addMulti(partnersFor(k, rng.Range(2, 4), rng))
			addSingle(k)
		}
		if rng.Chance(30) { // a co-signer of any other kind
			addSingle(txgen.PickLight(rng))
		}
	} else {
		nsets := rng.Range(1, 3)
		for len(sets) < nsets {
			k := pickAnyKind(rng, txgen.Kind(1+rng.Intn(numKindsAll-1)))
			if rng.Chance(4) {
				k = txgen.PickKind(rng, txgen.ECDSAP224)
			}
			if rng.Chance(55) {
				addSingle(k)
				continue
			}
			ks := partnersFor(k, rng.Range(2, 5), rng)
			addMulti(ks)
			if rng.Chance(25) && len(sets) < nsets { // one member also signs on its own
				addSingle(ks[rng.Intn(len(ks))])
			}
		}
	}
	var sgs []signerInfo
	var nm []common.Address
	for _, s := range sets {
		sgs = append(sgs, signerInfo{keys: s.Keys, m: s.M, multi: s.Multi})
		nm = append(nm, sigasm.Hash160(s.Verify()))
		if s.Multi {
			nm = append(nm, sigasm.OwnAccount(s.Keys, s.M%len(s.Keys)+1, true))
		}
	}
	ps := buildProbes(sgs, nm, rng, true)
	mt := &types.MutableTransaction{TxType: types.InvokeNeo, Nonce: uint32(rng.U64()), GasLimit: 20000 + uint64(rng.Intn(1000000)), Payload: &payload.InvokeCode{Code: probeCode(ps)}}
	if rng.Bool() {
		mt.GasPrice = 2500
	}
	tc := assembleWith(label, sets, encs, mt, rng)
	tc.probes = ps
	return tc
}
