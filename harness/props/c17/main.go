// C17 — A transaction authorizes the same accounts on every node.
//
// Differential monitor around Transaction.GetSignatureAddresses / SmartContract.CheckWitness.
// For every accepted transaction (bytes b):
//
//	copy 1: decode(b), GetSignatureAddresses() WITHOUT validation   (syncing / restarted node)
//	copy 2: decode(b), VerifyTransaction, GetSignatureAddresses()   (consensus node)
//	copy 3: decode(b), GetSignatureAddresses(), VerifyTransaction, GetSignatureAddresses()
//	child : decode(b) in another OS process (fresh map seeds), both ways
//
// all address SETS must be equal to each other and to the monitor's own derivation
// (lib/sigasm.OwnAccount: from the generator's key objects, nothing of /repo involved), and
// CheckWitness must answer "a is in that set" on every copy for the union of all sets, a list
// of near-miss accounts (hash of the raw script, member keys' own accounts, …) and random ones.
package main

import (
	"bufio"
	"fmt"
	"os"
	"os/exec"
	"path/filepath"
	"runtime"
	"sort"
	"strconv"
	"strings"
	"sync"
	"sync/atomic"

	"encoding/hex"

	"github.com/ontio/ontology/common"
	"github.com/ontio/ontology/common/log"
	"github.com/ontio/ontology/core/types"
	"github.com/ontio/ontology/core/validation"
	ontErrors "github.com/ontio/ontology/errors"
	"github.com/ontio/ontology/smartcontract"
	"verifharness/lib/sigasm"
	"verifharness/lib/txgen"
	"verifharness/lib/vf"
)

const chainID = 5851

var surplusCases atomic.Int64

// ---------------------------------------------------------------- cases

type tcase struct {
	label    string   // workload shape (coverage counter)
	classes  []string // per signature set: structural class (used in violation keys)
	raw      []byte
	own      []common.Address // monitor's derivation, one per signature set
	nearMiss []common.Address // accounts that must NOT be authorised (unless also in own)
	mustPass bool             // the validator is expected to accept it
	signers  []signerInfo     // keys behind every signature set (Ontology-format cases)
	probes   []probe          // witness/… family: the CheckWitness questions the payload code asks
}

func setClass(s *sigasm.Set, encs []sigasm.KeyEnc) string {
	if !s.Multi {
		return fmt.Sprintf("single/%s/%s/%s", kindName(s.Keys[0].Kind), encs[0], s.Forms[0])
	}
	sorted := sigasm.SortKeys(s.Keys)
	order := "sorted"
	for i := range sorted {
		if sorted[i] != s.Keys[i] {
			order = "unsorted"
		}
	}
	enc, eth, form := "canonical-keys", "", "auto"
	for i, k := range s.Keys {
		if encs[i] != sigasm.EncCanonical {
			enc = "alt-key-encoding"
		}
		if k.Kind == txgen.EthSecp256k1 {
			eth = "/with-eth-key"
		}
		if s.Forms[i] != sigasm.PushAuto {
			form = "pushdata"
		}
	}
	return fmt.Sprintf("multi/%s/%s/%s/n-as-%s%s", order, enc, form, s.NForm, eth)
}

// mkSet builds a hand-assembled set: keys in the given script order, encodings, push forms.
func mkSet(keys []*txgen.Key, m int, multi bool, encs []sigasm.KeyEnc, forms []sigasm.PushForm, nform sigasm.NumForm, rng *vf.RNG) *sigasm.Set {
	s := &sigasm.Set{Keys: keys, M: m, Multi: multi, NForm: nform}
	for i, k := range keys {
		s.KeyBytes = append(s.KeyBytes, sigasm.EncodeKey(k, encs[i], rng))
		s.Forms = append(s.Forms, forms[i])
	}
	return s
}

func randEncs(keys []*txgen.Key, rng *vf.RNG, pctAlt int) []sigasm.KeyEnc {
	out := make([]sigasm.KeyEnc, len(keys))
	for i, k := range keys {
		if rng.Chance(pctAlt) {
			e := sigasm.Encodings(k.Kind)
			out[i] = e[rng.Intn(len(e))]
		}
	}
	return out
}

func randForms(n int, rng *vf.RNG, pctAlt int) []sigasm.PushForm {
	out := make([]sigasm.PushForm, n)
	for i := range out {
		if rng.Chance(pctAlt) {
			out[i] = sigasm.PushForm(rng.Intn(int(sigasm.NumPushForms)))
		}
	}
	return out
}

func body(rng *vf.RNG) *types.MutableTransaction {
	switch rng.Intn(3) {
	case 0:
		var from common.Address
		copy(from[:], rng.Bytes(20))
		return txgen.NewTransfer(rng, from)
	case 1:
		return txgen.NewInvoke(rng, rng.Bool())
	}
	return txgen.NewDeploy(rng, byte(rng.Intn(2)))
}

// assemble signs the sets (payer = account of a random set) and returns the case.
func assemble(label string, sets []*sigasm.Set, encs [][]sigasm.KeyEnc, rng *vf.RNG) *tcase {
	return assembleWith(label, sets, encs, body(rng), rng)
}

// assembleWith is assemble for a given unsigned transaction body.
func assembleWith(label string, sets []*sigasm.Set, encs [][]sigasm.KeyEnc, mt *types.MutableTransaction, rng *vf.RNG) *tcase {
	tc := &tcase{label: label, mustPass: true}
	mt.Payer = sets[rng.Intn(len(sets))].Account()
	u, err := sigasm.Unsigned(mt)
	if err != nil {
		panic(err)
	}
	h := sigasm.Hash(u)
	for i, s := range sets {
		if _, err := s.SignRandom(h[:], rng); err != nil {
			panic(err)
		}
		if s.Multi && rng.Chance(15) {
			// more signatures than the threshold (the validator accepts that: it checks the first m):
			// further members' valid signatures, or a junk one, after the m required ones
			surplusCases.Add(1)
			if s.M < len(s.Keys) && rng.Chance(70) {
				idx := rng.Perm(len(s.Keys))[:s.M+1+rng.Intn(len(s.Keys)-s.M)]
				if err := s.SignWith(h[:], idx); err != nil {
					panic(err)
				}
			} else {
				s.Sigs = append(s.Sigs, append([]byte{}, s.Sigs[0]...))
			}
		}
		if rng.Chance(10) { // signature pushes in another length form
			for range s.Sigs {
				s.SigForms = append(s.SigForms, sigasm.PushForm(rng.Intn(int(sigasm.NumPushForms))))
			}
		}
		tc.own = append(tc.own, s.Account())
		tc.signers = append(tc.signers, signerInfo{keys: s.Keys, m: s.M, multi: s.Multi})
		tc.classes = append(tc.classes, setClass(s, encs[i]))
		// near misses
		tc.nearMiss = append(tc.nearMiss, sigasm.Hash160(s.Verify()))
		tc.nearMiss = append(tc.nearMiss, sigasm.Hash160(append(sigasm.Push(s.Keys[0].PubBytes(), sigasm.PushAuto), sigasm.OpCHECKSIG)))
		if s.Multi {
			tc.nearMiss = append(tc.nearMiss, sigasm.OwnAccount(s.Keys[:1], 1, false), sigasm.OwnAccount(s.Keys[len(s.Keys)-1:], 1, false))
			tc.nearMiss = append(tc.nearMiss, sigasm.OwnAccount(s.Keys, s.M%len(s.Keys)+1, true))
		} else {
			tc.nearMiss = append(tc.nearMiss, sigasm.OwnAccount([]*txgen.Key{s.Keys[0], s.Keys[0]}, 1, true))
		}
	}
	tc.raw = sigasm.Assemble(u, sets)
	return tc
}

func signerSet(s txgen.Signer) (*sigasm.Set, []sigasm.KeyEnc) {
	st := sigasm.CanonicalSet(s)
	return st, make([]sigasm.KeyEnc, len(st.Keys))
}

func permute(keys []*txgen.Key, p []int) []*txgen.Key {
	out := make([]*txgen.Key, len(p))
	for i, j := range p {
		out[i] = keys[j]
	}
	return out
}

func allPerms(n int) [][]int {
	var out [][]int
	var rec func(cur []int, used []bool)
	rec = func(cur []int, used []bool) {
		if len(cur) == n {
			out = append(out, append([]int{}, cur...))
			return
		}
		for i := 0; i < n; i++ {
			if !used[i] {
				used[i] = true
				rec(append(cur, i), used)
				used[i] = false
			}
		}
	}
	rec(nil, make([]bool, n))
	return out
}

type gen func(rng *vf.RNG) *tcase

// plan lists the cases of this run: systematic sweeps first, seeded random shapes after.
func plan(rng *vf.RNG, total int) []gen {
	var p []gen
	// (1) every key kind x every accepted encoding x every push form, single-signature script
	for kd := txgen.Kind(0); kd < txgen.NumKinds; kd++ {
		for _, enc := range sigasm.Encodings(kd) {
			for f := sigasm.PushForm(0); f < sigasm.NumPushForms; f++ {
				kd, enc, f := kd, enc, f
				p = append(p, func(rng *vf.RNG) *tcase {
					k := txgen.PickKind(rng, kd)
					s := mkSet([]*txgen.Key{k}, 1, false, []sigasm.KeyEnc{enc}, []sigasm.PushForm{f}, 0, rng)
					return assemble("sweep/single-encodings", []*sigasm.Set{s}, [][]sigasm.KeyEnc{{enc}}, rng)
				})
			}
		}
	}
	// (2) multi-signature scripts with the keys in EVERY permutation, n = 2, 3, 4
	groups := vf.N(2, 8)
	for n := 2; n <= 4; n++ {
		for g := 0; g < groups; g++ {
			sub := rng.Sub(uint64(7_000_000 + n*100 + g))
			var keys []*txgen.Key
			switch g % 4 {
			case 0: // one of every cheap kind incl. an Ethereum-type key
				keys = []*txgen.Key{txgen.PickKind(sub, txgen.EthSecp256k1), txgen.PickKind(sub, txgen.ECDSAP256), txgen.PickKind(sub, txgen.Ed25519), txgen.PickKind(sub, txgen.SM2)}[:n]
			case 1: // homogeneous P-256
				pm := sub.Perm(txgen.PoolSize)
				for _, j := range pm[:n] {
					keys = append(keys, txgen.Pool(txgen.ECDSAP256)[j])
				}
			default:
				keys = txgen.PickSetLight(sub, n)
			}
			m := sub.Range(1, n)
			for _, pm := range allPerms(n) {
				n, keys, m, pm, altEnc := n, keys, m, pm, g%2 == 1
				p = append(p, func(rng *vf.RNG) *tcase {
					ks := permute(keys, pm)
					encs := make([]sigasm.KeyEnc, n)
					if altEnc {
						encs = randEncs(ks, rng, 50)
					}
					s := mkSet(ks, m, true, encs, randForms(n, rng, 15), sigasm.NumForm(rng.Intn(int(sigasm.NumNumForms))), rng)
					return assemble(fmt.Sprintf("sweep/all-permutations/n=%d", n), []*sigasm.Set{s}, [][]sigasm.KeyEnc{encs}, rng)
				})
			}
		}
	}
	// (3) n = 2..16, sampled permutations, every threshold form of n
	for n := 2; n <= 16; n++ {
		for nf := sigasm.NumForm(0); nf < sigasm.NumNumForms; nf++ {
			n, nf := n, nf
			p = append(p, func(rng *vf.RNG) *tcase {
				ks := permute(txgen.PickSetLight(rng, n), rng.Perm(n))
				encs := randEncs(ks, rng, 30)
				s := mkSet(ks, rng.Range(1, n), true, encs, randForms(n, rng, 20), nf, rng)
				return assemble(fmt.Sprintf("sweep/multi-n=%d", n), []*sigasm.Set{s}, [][]sigasm.KeyEnc{encs}, rng)
			})
		}
	}
	// (4) 1..16 signature sets
	for k := 1; k <= 16; k++ {
		k := k
		p = append(p, func(rng *vf.RNG) *tcase { return manySets(rng, k, fmt.Sprintf("sweep/sets=%d", k)) })
	}
	// (5) byte-pushed threshold m (the script reader refuses it: must simply not be accepted)
	for j := 0; j < 4; j++ {
		j := j
		p = append(p, func(rng *vf.RNG) *tcase {
			ks := txgen.PickSetLight(rng, 3)
			s := mkSet(ks, 2, true, make([]sigasm.KeyEnc, 3), make([]sigasm.PushForm, 3), 0, rng)
			s.MForm = sigasm.NumForm(1 + j%3)
			tc := assemble("byte-pushed-threshold-m", []*sigasm.Set{s}, [][]sigasm.KeyEnc{make([]sigasm.KeyEnc, 3)}, rng)
			tc.mustPass = false
			return tc
		})
	}
	// (6) seeded random shapes
	for len(p) < total {
		p = append(p, randomCase)
	}
	// (7) witness/…: the payload is NeoVM code that asks CheckWitness about every key the transaction was
	// signed with (address form and every serialized-key form) and about non-signer keys.  Appended
	// after the random shapes so that the case indices of (1)-(6) do not depend on it.
	for rep := 0; rep < witnessReps(); rep++ {
		for kd := txgen.Kind(0); int(kd) < numKindsAll; kd++ {
			for role := 0; role < numRoles; role++ {
				kd, role := kd, role
				p = append(p, func(rng *vf.RNG) *tcase { return witnessCase(rng, kd, role) })
			}
		}
	}
	for j := 0; j < vf.N(150, 4000); j++ {
		p = append(p, func(rng *vf.RNG) *tcase { return witnessCase(rng, -1, 0) })
	}
	return p
}

func witnessReps() int { return vf.N(3, 20) }

// manySets: k signature sets, several of them for the SAME account (identical script, or the
// same keys under another encoding / order).
func manySets(rng *vf.RNG, k int, label string) *tcase {
	var sets []*sigasm.Set
	var encs [][]sigasm.KeyEnc
	for len(sets) < k {
		if len(sets) > 0 && rng.Chance(35) { // another set of an account that is already there
			src := sets[rng.Intn(len(sets))]
			ks := src.Keys
			if src.Multi {
				ks = permute(ks, rng.Perm(len(ks)))
			}
			e := randEncs(ks, rng, 60)
			sets = append(sets, mkSet(ks, src.M, src.Multi, e, randForms(len(ks), rng, 30), sigasm.NumForm(rng.Intn(int(sigasm.NumNumForms))), rng))
			encs = append(encs, e)
			continue
		}
		sg := txgen.PickSigner(rng, 4)
		if rng.Chance(50) {
			s, e := signerSet(sg)
			sets, encs = append(sets, s), append(encs, e)
			continue
		}
		ks := sg.Keys
		if len(ks) > 1 {
			ks = permute(ks, rng.Perm(len(ks)))
		}
		e := randEncs(ks, rng, 50)
		sets = append(sets, mkSet(ks, sg.M, len(ks) > 1, e, randForms(len(ks), rng, 30), sigasm.NumForm(rng.Intn(int(sigasm.NumNumForms))), rng))
		encs = append(encs, e)
	}
	return assemble(label, sets, encs, rng)
}

func randomCase(rng *vf.RNG) *tcase {
	x := rng.Intn(100)
	switch {
	case x < 22: // canonical builders
		// shapes 0..4 (a deploy-wasm with a garbage module is rejected by the payload check, which is not about signatures)
		tx, d, err := txgen.Shaped(rng, chainID, rng.Intn(5))
		if err != nil {
			panic(err)
		}
		tc := &tcase{label: "builder/" + d.Shape, raw: tx.ToArray(), mustPass: true}
		for _, s := range append([]txgen.Signer{d.Payer}, d.Others...) {
			tc.own = append(tc.own, sigasm.OwnAccount(s.Keys, s.M, len(s.Keys) > 1))
			tc.signers = append(tc.signers, signerInfo{keys: s.Keys, m: s.M, multi: len(s.Keys) > 1})
			tc.classes = append(tc.classes, "builder")
			if len(s.Keys) > 1 {
				tc.nearMiss = append(tc.nearMiss, sigasm.OwnAccount(s.Keys[:1], 1, false))
			}
			if c, err := types.AddressFromBookkeepers(txgen.Pubs(s.Keys)); err == nil && len(s.Keys) > 1 && c != tc.own[len(tc.own)-1] {
				tc.nearMiss = append(tc.nearMiss, c)
			}
		}
		return tc
	case x < 28: // Ethereum-format transactions
		tx, d, err := txgen.Shaped(rng, chainID, 6+rng.Intn(2))
		if err != nil {
			panic(err)
		}
		k := d.Payer.Keys[0]
		tc := &tcase{label: "builder/" + d.Shape, raw: tx.ToArray(), mustPass: true, classes: []string{"eip155"}}
		tc.own = []common.Address{sigasm.OwnAccount([]*txgen.Key{k}, 1, false)}
		tc.nearMiss = []common.Address{sigasm.Hash160(append(sigasm.Push(k.PubBytes(), sigasm.PushAuto), sigasm.OpCHECKSIG))}
		return tc
	case x < 58: // one hand-assembled single-signature set
		k := txgen.PickLight(rng)
		if rng.Chance(25) {
			k = txgen.PickKind(rng, txgen.EthSecp256k1)
		}
		e := randEncs([]*txgen.Key{k}, rng, 70)
		s := mkSet([]*txgen.Key{k}, 1, false, e, randForms(1, rng, 50), 0, rng)
		return assemble("raw/single", []*sigasm.Set{s}, [][]sigasm.KeyEnc{e}, rng)
	case x < 88: // one hand-assembled multi-signature set
		n := rng.Range(2, 6)
		if rng.Chance(8) {
			n = rng.Range(7, 16)
		}
		ks := permute(txgen.PickSetLight(rng, n), rng.Perm(n))
		if rng.Chance(30) {
			ks[rng.Intn(n)] = distinctFrom(ks, txgen.EthSecp256k1, rng)
		}
		e := randEncs(ks, rng, 40)
		s := mkSet(ks, rng.Range(1, n), true, e, randForms(n, rng, 25), sigasm.NumForm(rng.Intn(int(sigasm.NumNumForms))), rng)
		return assemble("raw/multi", []*sigasm.Set{s}, [][]sigasm.KeyEnc{e}, rng)
	default:
		k := rng.Range(2, 5)
		if rng.Chance(15) {
			k = rng.Range(6, 16)
		}
		return manySets(rng, k, "raw/several-sets")
	}
}

func distinctFrom(ks []*txgen.Key, kind txgen.Kind, rng *vf.RNG) *txgen.Key {
	for {
		k := txgen.PickKind(rng, kind)
		dup := false
		for _, x := range ks {
			if x == k {
				dup = true
			}
		}
		if !dup {
			return k
		}
	}
}

// ---------------------------------------------------------------- oracle

func setStr(as []common.Address) string { return strings.Join(sigasm.AddrSet(as), ",") }

func decode(raw []byte) (*types.Transaction, error) {
	return types.TransactionFromRawBytes(append([]byte{}, raw...))
}

func witnessOf(tx *types.Transaction) *smartcontract.SmartContract {
	return &smartcontract.SmartContract{Config: &smartcontract.Config{Tx: tx}}
}

type result struct {
	idx       int
	raw       []byte
	unval     string // set seen without validation
	validated string
}

type monitor struct {
	r   *vf.Run
	mu  sync.Mutex
	res []result
}

// classOfDifference names the first signature set whose unvalidated address differs from the
// monitor's derivation (GetSignatureAddresses without validation is positional).
func classOfDifference(tc *tcase, a1 []common.Address) string {
	if len(a1) == len(tc.own) {
		for i := range a1 {
			if a1[i] != tc.own[i] {
				return tc.classes[i]
			}
		}
	}
	// the unvalidated path agrees with the own derivation set by set: the difference is on the validated side
	if len(tc.classes) > 1 {
		return "several-sets"
	}
	if len(tc.classes) == 1 {
		return tc.classes[0]
	}
	return "?"
}

func (m *monitor) check(i int, tc *tcase, rng *vf.RNG) {
	r := m.r
	wit := func(extra map[string]interface{}) map[string]interface{} {
		w := map[string]interface{}{"case": i, "label": tc.label, "set_classes": tc.classes, "tx_hex": vf.Hex(tc.raw), "own_derivation": sigasm.AddrSet(tc.own)}
		for k, v := range extra {
			w[k] = v
		}
		return w
	}
	var t1, t2, t3 *types.Transaction
	var a1, a1b, a2, a3 []common.Address
	var code ontErrors.ErrCode
	var derr error
	if p := vf.Catch(func() {
		t1, derr = decode(tc.raw)
		if derr != nil {
			return
		}
		a1 = append([]common.Address{}, t1.GetSignatureAddresses()...)
		a1b = append([]common.Address{}, t1.GetSignatureAddresses()...)
		t2, _ = decode(tc.raw)
		code = validation.VerifyTransaction(t2)
	}); p != nil {
		r.Eval(fmt.Sprintf("%s/%d", tc.label, i))
		r.Violation("panic:"+tc.label, fmt.Sprint(p), wit(nil))
		return
	}
	if derr != nil || code != ontErrors.ErrNoError {
		r.Eval("")
		r.Count("not_accepted/" + tc.label)
		if tc.mustPass {
			r.Count("not_accepted_unexpectedly")
			m.mu.Lock()
			fmt.Printf("INFO case %d (%s, %v) not accepted: decode=%v code=%d\n", i, tc.label, tc.classes, derr, code)
			m.mu.Unlock()
		}
		return
	}
	r.Eval(fmt.Sprintf("%s/%d", tc.label, i))
	r.Count("accepted")
	r.Count("accepted/" + tc.label)
	for _, c := range tc.classes {
		r.Count("accepted_set/" + strings.SplitN(c, "/", 2)[0])
		if strings.HasPrefix(c, "single/") {
			parts := strings.Split(c, "/")
			r.Count("accepted_single/" + parts[1] + "/" + parts[2])
			r.Count("accepted_single_pushform/" + parts[3])
		}
		if strings.HasPrefix(c, "multi/") {
			parts := strings.Split(c, "/")
			r.Count("accepted_multi/" + parts[1])
			r.Count("accepted_multi/" + parts[2])
			r.Count("accepted_multi/" + parts[4])
			if strings.HasSuffix(c, "/with-eth-key") {
				r.Count("accepted_multi/with-eth-key")
			}
		}
	}
	if len(sigasm.AddrSet(tc.own)) < len(tc.own) {
		r.Count("accepted/several-sets-of-one-account")
	}
	if p := vf.Catch(func() {
		a2 = append([]common.Address{}, t2.GetSignatureAddresses()...)
		t3, _ = decode(tc.raw)
		t3.GetSignatureAddresses()
		validation.VerifyTransaction(t3)
		a3 = append([]common.Address{}, t3.GetSignatureAddresses()...)
	}); p != nil {
		r.Violation("panic:"+tc.label, fmt.Sprint(p), wit(nil))
		return
	}
	own, s1, s1b, s2, s3 := setStr(tc.own), setStr(a1), setStr(a1b), setStr(a2), setStr(a3)
	cls := classOfDifference(tc, a1)
	sets := map[string]interface{}{"unvalidated": sigasm.AddrSet(a1), "validated": sigasm.AddrSet(a2), "queried_then_validated": sigasm.AddrSet(a3)}
	switch {
	case s1 != s2:
		r.Violation("unvalidated-set-differs-from-validated-set:"+cls, fmt.Sprintf("GetSignatureAddresses without validation gives {%s}, after VerifyTransaction {%s} (own derivation {%s})", s1, s2, own), wit(sets))
	case s2 != own:
		r.Violation("validator-set-differs-from-own-derivation:"+cls, fmt.Sprintf("validated {%s} vs own {%s}", s2, own), wit(sets))
	}
	if s1 != s1b {
		r.Violation("unvalidated-set-not-stable:"+cls, fmt.Sprintf("{%s} then {%s}", s1, s1b), wit(sets))
	}
	if s3 != s2 {
		r.Violation("set-depends-on-call-order:"+cls, fmt.Sprintf("query-validate-query gives {%s}, validate-query {%s}", s3, s2), wit(sets))
	}
	if s1 == own && s2 == own && s3 == own {
		r.Count("all_sets_equal_own_derivation")
	}
	// CheckWitness on every copy
	inOwn := map[common.Address]bool{}
	for _, a := range tc.own {
		inOwn[a] = true
	}
	var probes []common.Address
	probes = append(probes, tc.own...)
	probes = append(probes, a1...)
	probes = append(probes, a2...)
	probes = append(probes, a3...)
	probes = append(probes, tc.nearMiss...)
	probes = append(probes, t1.Payer)
	for k := 0; k < 3; k++ {
		var a common.Address
		copy(a[:], rng.Bytes(20))
		probes = append(probes, a)
	}
	c1, c2, c3 := witnessOf(t1), witnessOf(t2), witnessOf(t3)
	for _, a := range probes {
		w1, w2, w3 := c1.CheckWitness(a), c2.CheckWitness(a), c3.CheckWitness(a)
		exp := inOwn[a]
		r.Count("witness_probes")
		if exp {
			r.Count("witness_probes/expected_true")
		}
		if w1 != w2 || w2 != w3 {
			r.Violation("checkwitness-differs-between-copies:"+cls, fmt.Sprintf("CheckWitness(%s): unvalidated=%v validated=%v queried-then-validated=%v", a.ToHexString(), w1, w2, w3), wit(map[string]interface{}{"address": a.ToHexString()}))
			break
		}
		if w1 != exp {
			kind := "unsigned-account-authorised"
			if exp {
				kind = "signer-account-not-authorised"
			}
			r.Violation("checkwitness-"+kind+":"+cls, fmt.Sprintf("CheckWitness(%s)=%v on all copies, own derivation says %v", a.ToHexString(), w1, exp), wit(map[string]interface{}{"address": a.ToHexString()}))
			break
		}
	}
	// the same question asked by NeoVM contract code, with addresses and with serialized keys
	m.checkKeyForms(i, tc, t1, t2, t3, rng.Sub(7), wit)
	if !inOwn[t1.Payer] {
		r.Violation("accepted-but-payer-not-in-own-derivation:"+cls, "payer "+t1.Payer.ToHexString(), wit(nil))
	}
	m.mu.Lock()
	m.res = append(m.res, result{idx: i, raw: tc.raw, unval: s1, validated: s2})
	m.mu.Unlock()
	if i%997 == 3 {
		r.Sample(map[string]interface{}{"case": i, "label": tc.label, "set_classes": tc.classes, "tx_hex": vf.HexTrunc(tc.raw, 300), "accounts": sigasm.AddrSet(tc.own)})
	}
}

// ---------------------------------------------------------------- child process

func childMain(path string) {
	f, err := os.Open(path)
	if err != nil {
		fmt.Println("CHILDERR", err)
		os.Exit(3)
	}
	type line struct {
		idx int
		raw []byte
	}
	var lines []line
	sc := bufio.NewScanner(f)
	sc.Buffer(make([]byte, 1<<20), 1<<24)
	for sc.Scan() {
		parts := strings.Split(sc.Text(), " ")
		idx, _ := strconv.Atoi(parts[0])
		raw, _ := hex.DecodeString(parts[1])
		lines = append(lines, line{idx, raw})
	}
	out := make([]string, len(lines))
	vf.Parallel(len(lines), runtime.NumCPU(), func(k int) {
		l := lines[k]
		var s1, s2 string
		if p := vf.Catch(func() {
			t1, err := decode(l.raw)
			if err != nil {
				s1, s2 = "decode-error", "decode-error"
				return
			}
			s1 = setStr(t1.GetSignatureAddresses())
			s2 = "skipped"
			if l.idx%4 == 0 { // validation is the expensive part: every 4th case
				t2, _ := decode(l.raw)
				if validation.VerifyTransaction(t2) != ontErrors.ErrNoError {
					s2 = "rejected"
				} else {
					s2 = setStr(t2.GetSignatureAddresses())
				}
			}
		}); p != nil {
			s1, s2 = "panic", fmt.Sprint(p)
		}
		out[k] = fmt.Sprintf("%d|%s|%s", l.idx, s1, s2)
	})
	w := bufio.NewWriter(os.Stdout)
	for _, o := range out {
		fmt.Fprintln(w, o)
	}
	w.Flush()
}

// ---------------------------------------------------------------- main

func main() {
	log.InitLog(log.FatalLog, log.Stdout)
	if p := os.Getenv("VERIF_C17_CHILD"); p != "" {
		childMain(p)
		return
	}
	r := vf.NewRun("C17", "exploration",
		"accepted transactions built (a) by the canonical builders (Ontology format, all key types, 1-4 sets; EIP-155) and (b) hand-assembled: sweep of every key type x every encoding the key decoder accepts (compressed, uncompressed, trailing bytes, P-256 long form) x PUSHBYTES/PUSHDATA1/2/4; m-of-n scripts with the keys in every permutation for n=2,3,4 and sampled permutations for n<=16, mixed key types incl. Ethereum-type keys, key count written as PUSHn / byte push / big-endian 2-byte push / PUSHDATA1; 1..16 signature sets incl. several sets of the same account under different scripts; then seeded random mixes; (c) witness/…: NeoVM-invoke transactions signed with every key type (P-224/256/384/521, SM2, Ed25519, Ethereum-type secp256k1, secp256k1 under the generic ECDSA label) as single signer, as m-of-n member and as both, whose payload code calls System.Runtime.CheckWitness with the account address and with every serialized form of every signer key, member key and non-signer keys of several types (executed by the production NeoVmService on every copy; the other NeoVM-invoke cases get a short foreign probing script). Each case: 3 in-process copies (unvalidated, validated, queried-then-validated) + decode in a child process, compared as address sets with the monitor's own derivation, and CheckWitness probed with all sets, near-miss accounts and random addresses. Distinct by (shape, case index); non-trivial when accepted by the validator")
	scratch := vf.Scratch("c17")
	defer os.RemoveAll(scratch)
	rng := vf.NewRNG(vf.Seed())
	total := vf.N(2000, 60000)
	pl := plan(rng, total)
	m := &monitor{r: r}
	vf.Parallel(len(pl), runtime.NumCPU(), func(i int) {
		sub := rng.Sub(uint64(i))
		tc := pl[i](sub)
		m.check(i, tc, sub.Sub(99))
	})

	// the same bytes in another process
	sort.Slice(m.res, func(a, b int) bool { return m.res[a].idx < m.res[b].idx })
	path := filepath.Join(scratch, "accepted.txt")
	f, err := os.Create(path)
	if err != nil {
		panic(err)
	}
	bw := bufio.NewWriter(f)
	byIdx := map[int]result{}
	for _, x := range m.res {
		fmt.Fprintf(bw, "%d %s\n", x.idx, hex.EncodeToString(x.raw))
		byIdx[x.idx] = x
	}
	bw.Flush()
	f.Close()
	self, _ := os.Executable()
	for run := 0; run < vf.N(1, 2); run++ {
		cmd := exec.Command(self)
		cmd.Env = append(os.Environ(), "VERIF_C17_CHILD="+path)
		cmd.Stderr = os.Stderr
		out, err := cmd.Output()
		if err != nil {
			r.Inconclusive(fmt.Sprintf("child process failed: %v", err))
			continue
		}
		for _, ln := range strings.Split(strings.TrimSpace(string(out)), "\n") {
			parts := strings.SplitN(ln, "|", 3)
			if len(parts) != 3 {
				continue
			}
			idx, _ := strconv.Atoi(parts[0])
			x, ok := byIdx[idx]
			if !ok {
				continue
			}
			r.Count("child_compared")
			w := map[string]interface{}{"case": idx, "tx_hex": vf.Hex(x.raw), "parent_unvalidated": x.unval, "child_unvalidated": parts[1], "parent_validated": x.validated, "child_validated": parts[2]}
			if parts[1] != x.unval {
				r.Violation("other-process-derives-other-set:unvalidated", fmt.Sprintf("case %d: child {%s} parent {%s}", idx, parts[1], x.unval), w)
			}
			if parts[2] != "skipped" {
				r.Count("child_compared_validated")
				if parts[2] != x.validated {
					r.Violation("other-process-derives-other-set:validated", fmt.Sprintf("case %d: child {%s} parent {%s}", idx, parts[2], x.validated), w)
				}
			}
		}
	}

	// coverage that must have been reached
	for kd := txgen.Kind(0); kd < txgen.NumKinds; kd++ {
		for _, e := range sigasm.Encodings(kd) {
			r.Require(fmt.Sprintf("accepted_single/%s/%s", kd, e), 1)
		}
	}
	for f := sigasm.PushForm(0); f < sigasm.NumPushForms; f++ {
		r.Require("accepted_single_pushform/"+f.String(), 5)
	}
	for nf := sigasm.NumForm(0); nf < sigasm.NumNumForms; nf++ {
		r.Require("accepted_multi/n-as-"+nf.String(), 5)
	}
	g := int64(vf.N(2, 8))
	r.Require("accepted/sweep/all-permutations/n=2", 2*g)
	r.Require("accepted/sweep/all-permutations/n=3", 6*g)
	r.Require("accepted/sweep/all-permutations/n=4", 24*g)
	for n := 2; n <= 16; n++ {
		r.Require(fmt.Sprintf("accepted/sweep/multi-n=%d", n), int64(sigasm.NumNumForms))
	}
	for k := 1; k <= 16; k++ {
		r.Require(fmt.Sprintf("accepted/sweep/sets=%d", k), 1)
	}
	for _, c := range []string{"accepted_multi/unsorted", "accepted_multi/sorted", "accepted_multi/alt-key-encoding", "accepted_multi/canonical-keys", "accepted_multi/with-eth-key",
		"accepted/several-sets-of-one-account", "accepted/builder/transfer", "accepted/builder/eip155-call", "accepted/builder/eip155-create", "accepted/raw/single", "accepted/raw/multi", "accepted/raw/several-sets", "not_accepted/byte-pushed-threshold-m"} {
		r.Require(c, 3)
	}
	total = len(pl)
	r.Require("accepted", int64(total*9/10))
	r.Require("all_sets_equal_own_derivation", 1) // (on a defective tree this may legitimately be low; violations decide)
	r.Require("witness_probes/expected_true", int64(total*9/10))
	r.Require("child_compared", int64(total*9/10))
	r.Require("child_compared_validated", int64(total/5))
	requireKeyForms(r)
	if n := r.Counter("not_accepted_unexpectedly"); n > 0 {
		r.Inconclusive(fmt.Sprintf("%d generated transactions that should be valid were not accepted by the validator (see INFO lines)", n))
	}
	r.Extra("exhaustive", false)
	r.Extra("exhaustive_scope", "every (key type, accepted key encoding, push form) single-signature script; every key permutation of the n=2,3,4 multi-signature groups")
	r.Assume("address SETS are compared (the unvalidated path lists one entry per signature set, the validator de-duplicates)")
	r.Assume("CheckWitness is probed with an empty contract-call stack (SmartContract{Config{Tx}}), i.e. only the signer-account clause")
	r.Assume("secp256k1 keys of type PK_ECDSA (non-Ethereum) are not in the shared key pool: they appear in the witness/… family only, and in multi-signature sets only next to keys of other algorithm labels")
	r.Assume("contract-level CheckWitness is probed at the entry contract (no calling contract), i.e. only the signer-account clause; key arguments are well-formed encodings of on-curve keys")
	os.RemoveAll(scratch)
	r.Add("cases_with_more_signatures_than_threshold", surplusCases.Load())
	r.Require("cases_with_more_signatures_than_threshold", 20)
	r.Finish()
}
