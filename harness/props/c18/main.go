// C18 — Primitive binary codec round-trips, is canonical and never panics.
//
// The real ZeroCopySink / ZeroCopySource (common) and the io.Reader codec
// (common/serialization) are executed; the oracle is a reference codec written here
// (little-endian fixed-width integers, own VarUint encoder/parser) plus a cursor model of
// the source:
//
//	1  every primitive written by the sink equals the reference bytes and reads back
//	   identically (eof=false, irregular=false, exactly the written length consumed); the
//	   same through the io.Writer/io.Reader codec and crosswise between the two codecs
//	2  every non-minimal VarUint form is reported irregular / ErrIrregularData by
//	   NextVarUint, NextVarBytes, NextString, ReadVarUint, ReadVarBytes, ReadString; the
//	   minimal form never is
//	3  arbitrary bytes + arbitrary Next*/Read*/Skip/BackUp sequences: no panic, results equal
//	   the model's, eof exactly when the model cursor would overrun, Pos()<=Size(),
//	   returned slices lie inside the input (a canary-guarded backing array with spare
//	   capacity behind the input makes an over-read observable instead of a panic)
//	4  the io.Reader codec on hostile input: no panic, model-equal results, and bounded
//	   allocation on hostile length prefixes (runtime.MemStats.TotalAlloc deltas)
package main

import (
	"bytes"
	"encoding/hex"
	"fmt"
	"io"
	"math"
	"runtime"
	"sync"
	"unsafe"

	"github.com/ontio/ontology/common"
	ser "github.com/ontio/ontology/common/serialization"
	"verifharness/lib/vf"
)

// ---------------------------------------------------------------- reference codec

func refVarUint(v uint64) []byte {
	switch {
	case v < 0xFD:
		return []byte{byte(v)}
	case v <= 0xFFFF:
		return []byte{0xFD, byte(v), byte(v >> 8)}
	case v <= 0xFFFFFFFF:
		return []byte{0xFE, byte(v), byte(v >> 8), byte(v >> 16), byte(v >> 24)}
	default:
		b := make([]byte, 9)
		b[0] = 0xFF
		for i := 0; i < 8; i++ {
			b[1+i] = byte(v >> (8 * uint(i)))
		}
		return b
	}
}

// longForm writes v with the given prefix byte (0xFD/0xFE/0xFF) whether or not it is minimal.
func longForm(form byte, v uint64) []byte {
	w := map[byte]int{0xFD: 2, 0xFE: 4, 0xFF: 8}[form]
	b := make([]byte, 1+w)
	b[0] = form
	for i := 0; i < w; i++ {
		b[1+i] = byte(v >> (8 * uint(i)))
	}
	return b
}

func le(b []byte) (v uint64) {
	for i := len(b) - 1; i >= 0; i-- {
		v = v<<8 | uint64(b[i])
	}
	return
}

func leN(v uint64, n int) []byte {
	b := make([]byte, n)
	for i := 0; i < n; i++ {
		b[i] = byte(v >> (8 * uint(i)))
	}
	return b
}

// parseVar is the model's VarUint parser at d[pos:].
func parseVar(d []byte, pos uint64) (v, hdr uint64, minimal, complete bool) {
	if pos >= uint64(len(d)) {
		return 0, 0, false, false
	}
	fb := d[pos]
	w := uint64(0)
	switch fb {
	case 0xFD:
		w = 2
	case 0xFE:
		w = 4
	case 0xFF:
		w = 8
	}
	if uint64(len(d))-pos < 1+w {
		return 0, 0, false, false
	}
	if w == 0 {
		return uint64(fb), 1, true, true
	}
	v = le(d[pos+1 : pos+1+w])
	switch w {
	case 2:
		minimal = v >= 0xFD
	case 4:
		minimal = v > 0xFFFF
	default:
		minimal = v > 0xFFFFFFFF
	}
	return v, 1 + w, minimal, true
}

// ---------------------------------------------------------------- typed values

type kind int

const (
	kU8 kind = iota
	kByte
	kBool
	kU16
	kI16
	kU32
	kI32
	kU64
	kI64
	kVarUint
	kVarBytes
	kString
	kAddress
	kHash
	kI128
	kU128
	kBytes
	kBytesViaNext // sink.NextBytes(n) window + copy
	nKinds
)

var kindName = [...]string{"uint8", "byte", "bool", "uint16", "int16", "uint32", "int32", "uint64", "int64", "varuint", "varbytes", "string", "address", "hash", "i128", "u128", "bytes", "bytes-window"}

var fixedWidth = map[kind]int{kU8: 1, kByte: 1, kBool: 1, kU16: 2, kI16: 2, kU32: 4, kI32: 4, kU64: 8, kI64: 8, kAddress: 20, kHash: 32, kI128: 16, kU128: 16}

type value struct {
	k kind
	u uint64 // integer kinds (two's complement for signed), bool as 0/1
	b []byte // byte-string kinds
}

func (v value) String() string {
	if v.b != nil || v.k >= kVarBytes && v.k != kVarUint {
		return kindName[v.k] + ":" + vf.HexTrunc(v.b, 24)
	}
	return fmt.Sprintf("%s:%d", kindName[v.k], v.u)
}

func (v value) equal(o value) bool { return v.k == o.k && v.u == o.u && bytes.Equal(v.b, o.b) }

func refEncode(v value) []byte {
	switch v.k {
	case kU8, kByte, kBool, kU16, kI16, kU32, kI32, kU64, kI64:
		return leN(v.u, fixedWidth[v.k])
	case kVarUint:
		return refVarUint(v.u)
	case kVarBytes, kString:
		return append(refVarUint(uint64(len(v.b))), v.b...)
	default:
		return append([]byte(nil), v.b...)
	}
}

// writeSink performs the real sink call for v; size is the value the call reported (if any).
func writeSink(s *common.ZeroCopySink, v value) (size uint64, hasSize bool) {
	switch v.k {
	case kU8:
		s.WriteUint8(uint8(v.u))
	case kByte:
		s.WriteByte(byte(v.u))
	case kBool:
		s.WriteBool(v.u != 0)
	case kU16:
		s.WriteUint16(uint16(v.u))
	case kI16:
		s.WriteInt16(int16(v.u))
	case kU32:
		s.WriteUint32(uint32(v.u))
	case kI32:
		s.WriteInt32(int32(v.u))
	case kU64:
		s.WriteUint64(v.u)
	case kI64:
		s.WriteInt64(int64(v.u))
	case kVarUint:
		return s.WriteVarUint(v.u), true
	case kVarBytes:
		return s.WriteVarBytes(v.b), true
	case kString:
		return s.WriteString(string(v.b)), true
	case kAddress:
		var a common.Address
		copy(a[:], v.b)
		if v.b[0]&1 == 0 {
			s.WriteAddress(a)
		} else {
			a.Serialization(s)
		}
	case kHash:
		var h common.Uint256
		copy(h[:], v.b)
		s.WriteHash(h)
	case kI128:
		var x common.I128
		copy(x[:], v.b)
		s.WriteI128(x)
	case kU128:
		var x common.U128
		copy(x[:], v.b)
		s.WriteU128(x)
	case kBytes:
		s.WriteBytes(v.b)
	case kBytesViaNext:
		w := s.NextBytes(uint64(len(v.b)))
		copy(w, v.b)
	}
	return 0, false
}

type readResult struct {
	v         value
	eof, irr  bool
	size      uint64
	hasSize   bool
	dataSlice []byte // the slice the source returned (for the inside-the-input check)
}

// readSource performs the real source call for kind k (n = byte count for the raw kinds).
func readSource(s *common.ZeroCopySource, k kind, n uint64) (r readResult) {
	r.v.k = k
	switch k {
	case kU8:
		var x uint8
		x, r.eof = s.NextUint8()
		r.v.u = uint64(x)
	case kByte:
		var x byte
		x, r.eof = s.NextByte()
		r.v.u = uint64(x)
	case kBool:
		var x bool
		x, r.irr, r.eof = s.NextBool()
		if x {
			r.v.u = 1
		}
	case kU16:
		var x uint16
		x, r.eof = s.NextUint16()
		r.v.u = uint64(x)
	case kI16:
		var x int16
		x, r.eof = s.NextInt16()
		r.v.u = uint64(uint16(x))
	case kU32:
		var x uint32
		x, r.eof = s.NextUint32()
		r.v.u = uint64(x)
	case kI32:
		var x int32
		x, r.eof = s.NextInt32()
		r.v.u = uint64(uint32(x))
	case kU64:
		r.v.u, r.eof = s.NextUint64()
	case kI64:
		var x int64
		x, r.eof = s.NextInt64()
		r.v.u = uint64(x)
	case kVarUint:
		r.v.u, r.size, r.irr, r.eof = s.NextVarUint()
		r.hasSize = true
	case kVarBytes:
		r.v.b, r.size, r.irr, r.eof = s.NextVarBytes()
		r.dataSlice = r.v.b
		r.hasSize = true
	case kString:
		var x string
		x, r.size, r.irr, r.eof = s.NextString()
		r.v.b = []byte(x)
		r.hasSize = true
	case kAddress:
		var a common.Address
		if n&1 == 0 {
			a, r.eof = s.NextAddress()
		} else {
			r.eof = a.Deserialization(s) != nil
		}
		r.v.b = a[:]
	case kHash:
		var h common.Uint256
		h, r.eof = s.NextHash()
		r.v.b = h[:]
	case kI128, kU128:
		var x common.I128
		x, r.eof = s.NextI128()
		r.v.b = x[:]
	case kBytes, kBytesViaNext:
		r.v.b, r.eof = s.NextBytes(n)
		r.dataSlice = r.v.b
	}
	if r.v.b == nil && k >= kVarBytes && k != kVarUint {
		r.v.b = []byte{}
	}
	return
}

// io.Writer / io.Reader codec -------------------------------------------------

func serSupports(k kind) bool {
	switch k {
	case kU8, kByte, kBool, kU16, kU32, kU64, kVarUint, kVarBytes, kString, kHash, kBytes:
		return true
	}
	return false
}

func writeSer(w io.Writer, v value) error {
	switch v.k {
	case kU8:
		return ser.WriteUint8(w, uint8(v.u))
	case kByte:
		return ser.WriteByte(w, byte(v.u))
	case kBool:
		return ser.WriteBool(w, v.u != 0)
	case kU16:
		return ser.WriteUint16(w, uint16(v.u))
	case kU32:
		return ser.WriteUint32(w, uint32(v.u))
	case kU64:
		return ser.WriteUint64(w, v.u)
	case kVarUint:
		return ser.WriteVarUint(w, v.u)
	case kVarBytes:
		return ser.WriteVarBytes(w, v.b)
	case kString:
		return ser.WriteString(w, string(v.b))
	case kHash:
		var h common.Uint256
		copy(h[:], v.b)
		return h.Serialize(w)
	case kBytes:
		_, err := w.Write(v.b)
		return err
	}
	return fmt.Errorf("unsupported")
}

func readSer(r io.Reader, k kind, n uint64, maxint uint64) (v value, err error) {
	v.k = k
	switch k {
	case kU8:
		var x uint8
		x, err = ser.ReadUint8(r)
		v.u = uint64(x)
	case kByte:
		var x byte
		x, err = ser.ReadByte(r)
		v.u = uint64(x)
	case kBool:
		var x bool
		x, err = ser.ReadBool(r)
		if x {
			v.u = 1
		}
	case kU16:
		var x uint16
		x, err = ser.ReadUint16(r)
		v.u = uint64(x)
	case kU32:
		var x uint32
		x, err = ser.ReadUint32(r)
		v.u = uint64(x)
	case kU64:
		v.u, err = ser.ReadUint64(r)
	case kVarUint:
		v.u, err = ser.ReadVarUint(r, maxint)
	case kVarBytes:
		v.b, err = ser.ReadVarBytes(r)
	case kString:
		var x string
		x, err = ser.ReadString(r)
		v.b = []byte(x)
	case kHash:
		var h common.Uint256
		err = h.Deserialize(r)
		v.b = h[:]
	case kBytes:
		v.b, err = ser.ReadBytes(r, n)
	}
	if v.b == nil && k >= kVarBytes && k != kVarUint {
		v.b = []byte{}
	}
	return
}

// ---------------------------------------------------------------- accounting

type acc struct {
	r      *vf.Run
	counts map[string]int64
	evals  int
	fps    []string
	stride int
	seen   int
}

func (a *acc) count(k string) { a.counts[k]++ }
func (a *acc) eval(fp func() string) {
	a.seen++
	if a.seen%a.stride == 0 {
		a.fps = append(a.fps, fp())
	} else {
		a.evals++
	}
}

var flushMu sync.Mutex

func (a *acc) flush() {
	flushMu.Lock()
	defer flushMu.Unlock()
	for _, fp := range a.fps {
		a.r.Eval(fp)
	}
	a.fps = nil
	a.r.Evals(a.evals)
	a.evals = 0
	for k, v := range a.counts {
		a.r.Add(k, v)
	}
	a.counts = map[string]int64{}
}

func chunks(r *vf.Run, rng *vf.RNG, stream uint64, total, per int, fn func(a *acc, rng *vf.RNG, i int)) {
	n := (total + per - 1) / per
	stride := 4 // fingerprints are registered for a sample of the cases (see acc.eval)
	if vf.Thorough() {
		stride = 32
	}
	vf.Parallel(n, runtime.NumCPU(), func(c int) {
		a := &acc{r: r, counts: map[string]int64{}, stride: stride}
		defer a.flush()
		for i := c * per; i < (c+1)*per && i < total; i++ {
			fn(a, rng.Sub(stream<<48|uint64(i)), i)
		}
	})
}

// ---------------------------------------------------------------- generators

func genU64(rng *vf.RNG, bits uint) uint64 {
	var v uint64
	switch rng.Intn(6) {
	case 0:
		v = rng.U64()
	case 1:
		v = rng.U64() >> uint(rng.Intn(64))
	case 2:
		v = (uint64(1) << uint(rng.Intn(64))) + uint64(rng.Range(-2, 2))
	case 3:
		v = ^uint64(0) - uint64(rng.Intn(4))
	case 4: // VarUint thresholds
		v = []uint64{0xFC, 0xFD, 0xFE, 0xFF, 0x100, 0xFFFF, 0x10000, 0xFFFFFFFF, 0x100000000}[rng.Intn(9)] + uint64(rng.Range(-2, 2))
	default:
		v = uint64(rng.Intn(300))
	}
	if bits < 64 {
		v &= (uint64(1) << bits) - 1
	}
	return v
}

func genLen(rng *vf.RNG, big bool) int {
	switch x := rng.Intn(100); {
	case x < 55:
		return rng.Range(0, 40)
	case x < 85:
		return rng.Range(245, 262) // straddles the 0xFD threshold
	case x < 97:
		return rng.Range(0, 2000)
	default:
		if big {
			return rng.Range(0xFFFF-2, 0x10000+2) // straddles the 0xFFFF threshold
		}
		return rng.Range(2000, 5000)
	}
}

func genValue(rng *vf.RNG, k kind, big bool) value {
	v := value{k: k}
	switch k {
	case kU8, kByte:
		v.u = genU64(rng, 8)
	case kBool:
		v.u = uint64(rng.Intn(2))
	case kU16, kI16:
		v.u = genU64(rng, 16)
	case kU32, kI32:
		v.u = genU64(rng, 32)
	case kU64, kI64, kVarUint:
		v.u = genU64(rng, 64)
	case kVarBytes, kString, kBytes, kBytesViaNext:
		v.b = rng.Bytes(genLen(rng, big))
	default:
		v.b = rng.Bytes(fixedWidth[k])
		if rng.Chance(10) {
			fill := []byte{0, 0xff, 0xfd, 0xfe}[rng.Intn(4)]
			for i := range v.b {
				v.b[i] = fill
			}
		}
	}
	return v
}

// ---------------------------------------------------------------- 1: round trip

func hx(b []byte) string { return vf.HexTrunc(b, 96) }

func roundTripOne(a *acc, v value, src string) {
	r := a.r
	kn := kindName[v.k]
	a.eval(func() string { return "rt/" + v.String() })
	a.count("rt_" + kn)
	want := refEncode(v)
	var enc []byte
	var size uint64
	var hasSize bool
	var sinkSize uint64
	if p := vf.Catch(func() {
		s := common.NewZeroCopySink(nil)
		size, hasSize = writeSink(s, v)
		enc = s.Bytes()
		sinkSize = s.Size()
	}); p != nil {
		r.Violation("roundtrip:panic:write:"+kn, fmt.Sprint(p), map[string]interface{}{"value": v.String()})
		return
	}
	if !bytes.Equal(enc, want) {
		r.Violation("encode:"+kn, "sink bytes differ from the reference encoding", map[string]interface{}{"value": v.String(), "real": hx(enc), "reference": hx(want), "src": src})
		return
	}
	if sinkSize != uint64(len(want)) || (hasSize && size != uint64(len(want))) {
		r.Violation("encode:size:"+kn, "sink Size()/returned size differs from the number of bytes written", map[string]interface{}{"value": v.String(), "size": size, "sink_size": sinkSize, "len": len(want)})
	}
	var rr readResult
	var pos, left uint64
	var trailingEOF bool
	if p := vf.Catch(func() {
		s := common.NewZeroCopySource(enc)
		rr = readSource(s, v.k, uint64(len(v.b)))
		pos, left = s.Pos(), s.Len()
		_, trailingEOF = s.NextByte()
	}); p != nil {
		r.Violation("roundtrip:panic:read:"+kn, fmt.Sprint(p), map[string]interface{}{"value": v.String(), "encoded": hx(enc)})
		return
	}
	switch {
	case rr.eof:
		r.Violation("roundtrip:eof:"+kn, "reading back a written value reported eof", map[string]interface{}{"value": v.String(), "encoded": hx(enc)})
	case rr.irr:
		r.Violation("roundtrip:irregular:"+kn, "reading back a written value reported irregular", map[string]interface{}{"value": v.String(), "encoded": hx(enc)})
	case !rr.v.equal(v):
		r.Violation("roundtrip:value:"+kn, "value read back differs from the value written", map[string]interface{}{"value": v.String(), "encoded": hx(enc), "read": rr.v.String()})
	case pos != uint64(len(enc)) || left != 0 || !trailingEOF || (rr.hasSize && rr.size != uint64(len(enc))):
		r.Violation("roundtrip:consumed:"+kn, "the read did not consume exactly the written length", map[string]interface{}{"value": v.String(), "encoded": hx(enc), "pos": pos, "len": left, "size": rr.size})
	}
	if !serSupports(v.k) {
		return
	}
	a.count("rt_ser_" + kn)
	var buf bytes.Buffer
	var werr error
	if p := vf.Catch(func() { werr = writeSer(&buf, v) }); p != nil || werr != nil {
		r.Violation("ser:write-failed:"+kn, fmt.Sprint(p, werr), map[string]interface{}{"value": v.String()})
		return
	}
	if !bytes.Equal(buf.Bytes(), want) {
		r.Violation("ser:encode:"+kn, "io.Writer codec bytes differ from the reference (and so from the sink)", map[string]interface{}{"value": v.String(), "real": hx(buf.Bytes()), "reference": hx(want)})
		return
	}
	// reader codec decodes the sink's output; source decodes the writer codec's output
	rd := bytes.NewReader(enc)
	var sv value
	var rerr error
	if p := vf.Catch(func() { sv, rerr = readSer(rd, v.k, uint64(len(v.b)), 0) }); p != nil {
		r.Violation("ser:panic:read:"+kn, fmt.Sprint(p), map[string]interface{}{"value": v.String(), "encoded": hx(enc)})
		return
	}
	if rerr != nil || !sv.equal(v) || rd.Len() != 0 {
		r.Violation("ser:cross-decode:"+kn, "io.Reader codec does not read back what the sink wrote", map[string]interface{}{"value": v.String(), "encoded": hx(enc), "read": sv.String(), "err": fmt.Sprint(rerr), "unread": rd.Len()})
	}
	s2 := common.NewZeroCopySource(buf.Bytes())
	if r2 := readSource(s2, v.k, uint64(len(v.b))); r2.eof || r2.irr || !r2.v.equal(v) || s2.Len() != 0 {
		r.Violation("ser:cross-decode-source:"+kn, "source does not read back what the io.Writer codec wrote", map[string]interface{}{"value": v.String(), "encoded": hx(buf.Bytes()), "read": r2.v.String()})
	}
	if v.k == kVarUint { // the range-limited read
		if got, err := ser.ReadVarUint(bytes.NewReader(enc), v.u|1); err != nil || got != v.u {
			r.Violation("ser:ReadVarUint:max>=v", "ReadVarUint(r, max) failed although v <= max", map[string]interface{}{"v": v.u, "max": v.u | 1, "err": fmt.Sprint(err)})
		}
		if v.u > 1 {
			if _, err := ser.ReadVarUint(bytes.NewReader(enc), v.u-1); err == nil {
				r.Violation("ser:ReadVarUint:max<v", "ReadVarUint(r, max) accepted v > max", map[string]interface{}{"v": v.u, "max": v.u - 1})
			}
			a.count("ser_varuint_range_limited")
		}
	}
}

// seqRoundTrip writes a list of typed values into ONE sink (various initial buffers, so
// that growth, reslicing and Reset are exercised) and reads them all back.
func seqRoundTrip(a *acc, rng *vf.RNG, idx int) {
	r := a.r
	n := rng.Range(1, 40)
	vals := make([]value, n)
	for i := range vals {
		vals[i] = genValue(rng, kind(rng.Intn(int(nKinds))), rng.Chance(2))
	}
	var prefix []byte
	mode := rng.Intn(5)
	desc := func() map[string]interface{} {
		l := make([]string, len(vals))
		for i, v := range vals {
			l[i] = v.String()
		}
		return map[string]interface{}{"sink_mode": mode, "prefix": hx(prefix), "values": l}
	}
	var enc []byte
	var sizes []uint64
	var sinkSize uint64
	if p := vf.Catch(func() {
		var s *common.ZeroCopySink
		switch mode {
		case 0:
			s = common.NewZeroCopySink(nil)
			a.count("sink_nil")
		case 1:
			s = common.NewZeroCopySink(make([]byte, 0, rng.Intn(24)))
			a.count("sink_small_cap")
		case 2:
			s = common.NewZeroCopySink([]byte{})
			a.count("sink_zero_cap")
		case 3: // existing content must be preserved
			prefix = rng.Bytes(rng.Range(1, 30))
			back := make([]byte, len(prefix), len(prefix)+rng.Intn(20))
			copy(back, prefix)
			s = common.NewZeroCopySink(back)
			a.count("sink_with_prefix")
		default: // reuse after Reset
			s = common.NewZeroCopySink(nil)
			s.WriteBytes(rng.Bytes(rng.Range(1, 700)))
			s.WriteVarUint(rng.U64())
			s.Reset()
			a.count("sink_after_reset")
		}
		for _, v := range vals {
			sz, has := writeSink(s, v)
			if !has {
				sz = uint64(len(refEncode(v)))
			}
			sizes = append(sizes, sz)
		}
		enc = s.Bytes()
		sinkSize = s.Size()
	}); p != nil {
		r.Violation("seq:panic:write", fmt.Sprint(p), desc())
		return
	}
	want := append([]byte(nil), prefix...)
	for i, v := range vals {
		e := refEncode(v)
		want = append(want, e...)
		if sizes[i] != uint64(len(e)) {
			r.Violation("seq:size:"+kindName[v.k], "size returned by the write differs from the bytes appended", desc())
			return
		}
	}
	a.eval(func() string { return fmt.Sprintf("seq/%d/%s", idx, vf.HexTrunc(want, 16)) })
	a.evals += n - 1 // every value of the list is one evaluated write+read
	if !bytes.Equal(enc, want) || sinkSize != uint64(len(want)) {
		w := desc()
		w["real"], w["reference"] = hx(enc), hx(want)
		r.Violation("seq:encode", "sink content differs from the concatenated reference encodings", w)
		return
	}
	if p := vf.Catch(func() {
		s := common.NewZeroCopySource(enc)
		s.Skip(uint64(len(prefix)))
		for i, v := range vals {
			before := s.Pos()
			rr := readSource(s, v.k, uint64(len(v.b)))
			a.count("seq_" + kindName[v.k])
			if rr.eof || rr.irr || !rr.v.equal(v) || s.Pos()-before != uint64(len(refEncode(v))) {
				w := desc()
				w["index"], w["read"], w["eof"], w["irregular"] = i, rr.v.String(), rr.eof, rr.irr
				r.Violation("seq:read:"+kindName[v.k], "a value of a written sequence did not read back identically", w)
				return
			}
		}
		if s.Len() != 0 || s.Pos() != s.Size() {
			r.Violation("seq:leftover", "bytes left after reading back every written value", desc())
		}
	}); p != nil {
		r.Violation("seq:panic:read", fmt.Sprint(p), desc())
	}
}

// ---------------------------------------------------------------- 2: VarUint canonicity

func canonicity(a *acc, rng *vf.RNG, v uint64, src string) {
	r := a.r
	min := refVarUint(v)
	// the minimal form is never irregular
	{
		a.evals++
		s := common.NewZeroCopySource(min)
		d, sz, irr, eof := s.NextVarUint()
		got, err := common.NewZeroCopySource(min).ReadVarUint()
		if irr || eof || d != v || sz != uint64(len(min)) || err != nil || got != v {
			r.Violation("canon:minimal-form-flagged", "the minimal VarUint form was reported irregular/eof or decoded wrongly",
				map[string]interface{}{"v": v, "bytes": hx(min), "irregular": irr, "eof": eof, "data": d, "size": sz, "err": fmt.Sprint(err)})
		}
		a.count("canon_minimal")
	}
	for _, form := range []byte{0xFD, 0xFE, 0xFF} {
		w := map[byte]uint{0xFD: 16, 0xFE: 32, 0xFF: 64}[form]
		if w < 64 && v>>w != 0 {
			continue // does not fit this form
		}
		enc := longForm(form, v)
		if len(enc) <= len(min) {
			continue // this is the minimal form
		}
		fn := fmt.Sprintf("%02x", form)
		a.eval(func() string { return fmt.Sprintf("canon/%s/%d", fn, v) })
		a.count("canon_long_form_" + fn)
		wit := map[string]interface{}{"v": v, "bytes": hx(enc), "minimal": hx(min), "src": src}
		if p := vf.Catch(func() {
			_, _, irr, eof := common.NewZeroCopySource(enc).NextVarUint()
			if !irr || eof {
				r.Violation("canon:NextVarUint:"+fn, "non-minimal VarUint not reported irregular", wit)
			}
			if _, err := common.NewZeroCopySource(enc).ReadVarUint(); err != common.ErrIrregularData {
				r.Violation("canon:ReadVarUint:"+fn, "non-minimal VarUint: error is not ErrIrregularData: "+fmt.Sprint(err), wit)
			}
			// as a length prefix, body present (when small) or absent
			full := v <= 4096
			in := append([]byte(nil), enc...)
			if full {
				in = append(in, rng.Bytes(int(v))...)
				a.count("canon_prefix_body_present")
			} else {
				in = append(in, rng.Bytes(rng.Intn(8))...)
				a.count("canon_prefix_body_truncated")
			}
			wit["input"] = hx(in)
			_, _, irr, eof = common.NewZeroCopySource(in).NextVarBytes()
			if full && (!irr || eof) || !full && !(irr || eof) {
				r.Violation("canon:NextVarBytes:"+fn, "non-minimal length prefix not reported irregular", wit)
			}
			_, _, irr, eof = common.NewZeroCopySource(in).NextString()
			if full && (!irr || eof) || !full && !(irr || eof) {
				r.Violation("canon:NextString:"+fn, "non-minimal length prefix not reported irregular", wit)
			}
			_, err := common.NewZeroCopySource(in).ReadVarBytes()
			if full && err != common.ErrIrregularData || err == nil {
				r.Violation("canon:ReadVarBytes:"+fn, "non-minimal length prefix: error is not ErrIrregularData: "+fmt.Sprint(err), wit)
			}
			_, err = common.NewZeroCopySource(in).ReadString()
			if full && err != common.ErrIrregularData || err == nil {
				r.Violation("canon:ReadString:"+fn, "non-minimal length prefix: error is not ErrIrregularData: "+fmt.Sprint(err), wit)
			}
		}); p != nil {
			r.Violation("canon:panic:"+fn, fmt.Sprint(p), wit)
		}
	}
}

// ---------------------------------------------------------------- 3: hostile sequences on the source

const (
	canaryPre  = 16
	canaryPost = 64
)

// hostileInput builds a byte string out of well-formed, irregular and truncated fragments.
func hostileInput(rng *vf.RNG) []byte {
	var b []byte
	if rng.Chance(3) {
		return b
	}
	for f := rng.Range(1, 8); f > 0; f-- {
		switch rng.Intn(10) {
		case 0, 1:
			b = append(b, rng.Bytes(rng.Range(1, 24))...)
		case 2:
			b = append(b, refEncode(genValue(rng, kind(rng.Intn(int(nKinds))), false))...)
		case 3: // minimal varuint
			b = append(b, refVarUint(genU64(rng, 64))...)
		case 4: // possibly non-minimal varuint
			b = append(b, longForm([]byte{0xFD, 0xFE, 0xFF}[rng.Intn(3)], genU64(rng, uint(8*rng.Range(1, 8))))...)
		case 5: // varbytes, minimal or not, with its body
			n := rng.Range(0, 30)
			if rng.Bool() {
				b = append(b, refVarUint(uint64(n))...)
			} else {
				b = append(b, longForm([]byte{0xFD, 0xFE, 0xFF}[rng.Intn(3)], uint64(n))...)
			}
			b = append(b, rng.Bytes(n)...)
		case 6: // a length prefix promising far more than there is
			b = append(b, refVarUint(genU64(rng, 64)|0x100)...)
			b = append(b, rng.Bytes(rng.Intn(6))...)
		case 7: // bare prefix bytes
			b = append(b, []byte{0xFD, 0xFE, 0xFF}[rng.Intn(3)])
			b = append(b, rng.Bytes(rng.Intn(9))...)
		case 8: // bools
			b = append(b, byte(rng.Intn(4)))
		default:
			b = append(b, bytes.Repeat([]byte{[]byte{0, 0xff}[rng.Intn(2)]}, rng.Range(1, 12))...)
		}
	}
	if rng.Chance(25) && len(b) > 0 {
		b = b[:rng.Intn(len(b))]
	}
	return b
}

type opRec struct {
	Op string `json:"op"`
	N  uint64 `json:"n,omitempty"`
}

var srcOps = []string{"NextBytes", "Skip", "NextByte", "NextUint8", "NextBool", "BackUp", "NextUint16", "NextUint32", "ReadUint32", "ReadUint64",
	"NextUint64", "NextInt32", "NextInt64", "NextInt16", "NextVarBytes", "ReadString", "ReadVarBytes", "ReadVarUint", "NextAddress", "NextI128",
	"NextHash", "NextString", "NextVarUint", "Deserialization"}

func hostileSource(a *acc, rng *vf.RNG, idx int) {
	r := a.r
	data := hostileInput(rng)
	n := len(data)
	slack := rng.Bool()
	var backing, input []byte
	if slack { // spare capacity behind the input: s[off:end] past len would NOT panic
		backing = make([]byte, canaryPre+n+canaryPost)
		for i := range backing {
			backing[i] = 0xA5
		}
		copy(backing[canaryPre:], data)
		input = backing[canaryPre : canaryPre+n]
		a.count("hostile_input_with_spare_capacity")
	} else {
		input = make([]byte, n)
		copy(input, data)
		a.count("hostile_input_exact_capacity")
	}
	src := common.NewZeroCopySource(input)
	var ops []opRec
	pos := uint64(0) // model cursor
	size := uint64(n)
	failed := false
	fail := func(op, clause, detail string) {
		failed = true
		r.Violation("hostile:"+op+":"+clause, detail, map[string]interface{}{"input": hex.EncodeToString(data), "spare_capacity": slack, "ops": ops, "model_pos_before_last_op": pos})
	}
	base := uintptr(0)
	if n > 0 {
		base = uintptr(unsafe.Pointer(&input[0]))
	}
	inside := func(op string, s []byte) bool { // s must be a sub-slice of input
		if len(s) == 0 {
			return true
		}
		p := uintptr(unsafe.Pointer(&s[0]))
		if n == 0 || p < base || p-base > uintptr(n) || p-base+uintptr(len(s)) > uintptr(n) {
			fail(op, "slice-outside-input", fmt.Sprintf("returned slice (len %d) does not lie inside the %d input bytes", len(s), n))
			return false
		}
		return true
	}
	a.eval(func() string { return fmt.Sprintf("hostile/%d/%s", idx, vf.HexTrunc(data, 16)) })
	nops := rng.Range(1, 30)
	for step := 0; step < nops && !failed; step++ {
		op := srcOps[rng.Intn(len(srcOps))]
		rem := size - pos
		if pos > 0 && (rem == 0 && rng.Chance(70) || rng.Chance(10)) {
			op = "BackUp" // keep the cursor inside the data so that the success branches stay exercised
		}
		var arg uint64
		switch op {
		case "NextBytes", "Skip":
			switch rng.Intn(8) {
			case 0:
				arg = rem
			case 1:
				arg = rem + 1
			case 2:
				arg = ^uint64(0) - uint64(rng.Intn(3)) // off+n overflows whenever off > 2
			case 3:
				arg = ^uint64(0) - pos + uint64(rng.Intn(3)) // right at the wrap-around point
			case 4:
				arg = uint64(1)<<63 + uint64(rng.Intn(3))
			default:
				arg = uint64(rng.Intn(20))
			}
		case "BackUp":
			arg = uint64(rng.Intn(int(pos) + 1)) // never more than what was consumed
		}
		ops = append(ops, opRec{op, arg})
		a.count("op_" + op)
		p := vf.Catch(func() {
			// ---- model expectation helpers
			fixed := func(w uint64) ([]byte, bool) {
				if rem >= w {
					return data[pos : pos+w], true
				}
				return nil, false
			}
			// after an op: on success the cursor is exactly the model's; on eof only Pos<=Size is demanded
			settle := func(ok bool, adv uint64) {
				if failed {
					return
				}
				if ok {
					pos += adv
					if src.Pos() != pos {
						fail(op, "cursor", fmt.Sprintf("Pos()=%d after a successful read, model %d", src.Pos(), pos))
					}
				} else {
					a.count("eof_" + op)
					if src.Pos() > size {
						fail(op, "pos-beyond-size", fmt.Sprintf("Pos()=%d > Size()=%d", src.Pos(), size))
					}
					pos = src.Pos() // where the cursor rests after an overrun is not specified
				}
			}
			intOp := func(w uint64, got uint64, eof bool) {
				want, ok := fixed(w)
				if eof != !ok {
					fail(op, "eof", fmt.Sprintf("eof=%v but %d bytes remained and %d were needed", eof, rem, w))
				} else if ok && got != le(want) {
					fail(op, "value", fmt.Sprintf("got %d want %d", got, le(want)))
				}
				settle(ok, w)
			}
			errOp := func(w uint64, got uint64, err error) {
				want, ok := fixed(w)
				if (err != nil) != !ok {
					fail(op, "error", fmt.Sprintf("err=%v but %d bytes remained and %d were needed", err, rem, w))
				} else if ok && got != le(want) {
					fail(op, "value", fmt.Sprintf("got %d want %d", got, le(want)))
				}
				settle(ok, w)
			}
			arrOp := func(w uint64, got []byte, eof bool) {
				want, ok := fixed(w)
				if eof != !ok {
					fail(op, "eof", fmt.Sprintf("eof=%v but %d bytes remained and %d were needed", eof, rem, w))
				} else if ok && !bytes.Equal(got, want) {
					fail(op, "value", fmt.Sprintf("got %x want %x", got, want))
				}
				settle(ok, w)
			}
			// var-bytes family: header + body
			vbOp := func(got []byte, sz uint64, hasSz bool, irr, eof bool, err error, errAPI bool, slice []byte) {
				cnt, hdr, minimal, complete := parseVar(data, pos)
				fits := complete && cnt <= rem-hdr
				switch {
				case !complete:
					a.count("vb_header_truncated")
				case !fits:
					a.count("vb_body_truncated")
				case !minimal:
					a.count("vb_irregular_complete")
				default:
					a.count("vb_regular_complete")
				}
				if errAPI {
					switch {
					case fits && minimal && err != nil:
						fail(op, "error-on-regular", "error on a complete, minimally-prefixed byte string: "+err.Error())
					case fits && !minimal && err != common.ErrIrregularData:
						fail(op, "irregular-not-reported", fmt.Sprintf("non-minimal length prefix: err=%v, want ErrIrregularData", err))
					case !fits && err == nil:
						fail(op, "no-error-on-overrun", "no error although the byte string overruns the input")
					}
					if err != nil {
						settle(false, 0)
						return
					}
				} else {
					switch {
					case eof != !fits:
						fail(op, "eof", fmt.Sprintf("eof=%v, model: header complete=%v count=%d remaining after header=%d", eof, complete, cnt, rem-hdr))
					case fits && irr != !minimal:
						fail(op, "irregular", fmt.Sprintf("irregular=%v but minimal=%v (count %d in a %d-byte header)", irr, minimal, cnt, hdr))
					case fits && hasSz && sz != hdr+cnt:
						fail(op, "size", fmt.Sprintf("size=%d want %d", sz, hdr+cnt))
					}
					if !fits {
						inside(op, slice)
						settle(false, 0)
						return
					}
				}
				if failed {
					return
				}
				if !bytes.Equal(got, data[pos+hdr:pos+hdr+cnt]) {
					fail(op, "value", fmt.Sprintf("got %x want %x", got, data[pos+hdr:pos+hdr+cnt]))
					return
				}
				if slice != nil && inside(op, slice) && cnt > 0 && uintptr(unsafe.Pointer(&slice[0]))-base != uintptr(pos+hdr) {
					fail(op, "slice-offset", "returned slice does not start at the body offset")
				}
				settle(true, hdr+cnt)
			}
			switch op {
			case "NextBytes", "Skip":
				fits := arg <= rem
				if pos > 0 && arg > ^uint64(0)-pos {
					a.count("offset_plus_n_overflows")
				}
				var got []byte
				var eof bool
				if op == "NextBytes" {
					got, eof = src.NextBytes(arg)
					if !inside(op, got) {
						return
					}
				} else {
					eof = src.Skip(arg)
				}
				if eof != !fits {
					fail(op, "eof", fmt.Sprintf("eof=%v for n=%d with %d bytes remaining", eof, arg, rem))
				} else if fits && op == "NextBytes" {
					if !bytes.Equal(got, data[pos:pos+arg]) || (arg > 0 && uintptr(unsafe.Pointer(&got[0]))-base != uintptr(pos)) {
						fail(op, "value", fmt.Sprintf("got %x want %x", got, data[pos:pos+arg]))
					}
				}
				settle(fits, arg)
			case "NextByte":
				g, eof := src.NextByte()
				intOp(1, uint64(g), eof)
			case "NextUint8":
				g, eof := src.NextUint8()
				intOp(1, uint64(g), eof)
			case "NextBool":
				g, irr, eof := src.NextBool()
				want, ok := fixed(1)
				switch {
				case eof != !ok:
					fail(op, "eof", fmt.Sprintf("eof=%v with %d bytes remaining", eof, rem))
				case ok && want[0] <= 1 && (irr || g != (want[0] == 1)):
					fail(op, "value", fmt.Sprintf("byte %d read as %v irregular=%v", want[0], g, irr))
				case ok && want[0] > 1 && !irr:
					fail(op, "irregular", fmt.Sprintf("byte %d is neither 0 nor 1 but was not reported irregular", want[0]))
				}
				if ok && want[0] > 1 {
					a.count("bool_irregular")
				}
				settle(ok, 1)
			case "BackUp":
				src.BackUp(arg)
				settle(true, -arg)
			case "NextUint16":
				g, eof := src.NextUint16()
				intOp(2, uint64(g), eof)
			case "NextInt16":
				g, eof := src.NextInt16()
				intOp(2, uint64(uint16(g)), eof)
			case "NextUint32":
				g, eof := src.NextUint32()
				intOp(4, uint64(g), eof)
			case "NextInt32":
				g, eof := src.NextInt32()
				intOp(4, uint64(uint32(g)), eof)
			case "NextUint64":
				g, eof := src.NextUint64()
				intOp(8, g, eof)
			case "NextInt64":
				g, eof := src.NextInt64()
				intOp(8, uint64(g), eof)
			case "ReadUint32":
				g, err := src.ReadUint32()
				errOp(4, uint64(g), err)
			case "ReadUint64":
				g, err := src.ReadUint64()
				errOp(8, g, err)
			case "NextAddress":
				g, eof := src.NextAddress()
				arrOp(20, g[:], eof)
			case "Deserialization":
				var g common.Address
				err := g.Deserialization(src)
				arrOp(20, g[:], err != nil)
			case "NextI128":
				g, eof := src.NextI128()
				arrOp(16, g[:], eof)
			case "NextHash":
				g, eof := src.NextHash()
				arrOp(32, g[:], eof)
			case "NextVarUint":
				g, sz, irr, eof := src.NextVarUint()
				v, hdr, minimal, complete := parseVar(data, pos)
				switch {
				case eof != !complete:
					fail(op, "eof", fmt.Sprintf("eof=%v but model complete=%v (%d bytes remaining)", eof, complete, rem))
				case complete && (g != v || sz != hdr):
					fail(op, "value", fmt.Sprintf("got %d size %d, want %d size %d", g, sz, v, hdr))
				case complete && irr != !minimal:
					fail(op, "irregular", fmt.Sprintf("irregular=%v but minimal=%v for value %d in a %d-byte form", irr, minimal, v, hdr))
				}
				if complete && !minimal {
					a.count("varuint_irregular")
				}
				settle(complete, hdr)
			case "ReadVarUint":
				g, err := src.ReadVarUint()
				v, hdr, minimal, complete := parseVar(data, pos)
				switch {
				case complete && minimal && (err != nil || g != v):
					fail(op, "value", fmt.Sprintf("got %d err %v, want %d", g, err, v))
				case complete && !minimal && err != common.ErrIrregularData:
					fail(op, "irregular-not-reported", fmt.Sprintf("non-minimal form: err=%v, want ErrIrregularData", err))
				case !complete && err == nil:
					fail(op, "no-error-on-overrun", "no error although the VarUint overruns the input")
				}
				settle(err == nil && !failed, hdr)
			case "NextVarBytes":
				g, sz, irr, eof := src.NextVarBytes()
				vbOp(g, sz, true, irr, eof, nil, false, g)
			case "NextString":
				g, sz, irr, eof := src.NextString()
				vbOp([]byte(g), sz, true, irr, eof, nil, false, nil)
			case "ReadVarBytes":
				g, err := src.ReadVarBytes()
				vbOp(g, 0, false, false, false, err, true, g)
			case "ReadString":
				g, err := src.ReadString()
				vbOp([]byte(g), 0, false, false, false, err, true, nil)
			}
			if !failed {
				if src.Size() != size || src.Len() != size-src.Pos() {
					fail(op, "len-size", fmt.Sprintf("Size()=%d Len()=%d Pos()=%d for a %d-byte input", src.Size(), src.Len(), src.Pos(), size))
				}
			}
		})
		if p != nil {
			fail(op, "panic", fmt.Sprint(p))
		}
	}
	if failed {
		return
	}
	if !bytes.Equal(input, data) {
		fail("any", "input-modified", "the source modified its input")
	}
	if slack {
		for i := 0; i < canaryPre; i++ {
			if backing[i] != 0xA5 {
				fail("any", "canary", "bytes in front of the input were modified")
				break
			}
		}
		for i := canaryPre + n; i < len(backing); i++ {
			if backing[i] != 0xA5 {
				fail("any", "canary", "bytes behind the input were modified")
				break
			}
		}
	}
	if idx < 3 {
		r.Sample(map[string]interface{}{"part": "hostile-source", "input": hx(data), "ops": ops})
	}
}

// ---------------------------------------------------------------- 4: io.Reader codec on hostile input

var serOps = []string{"ReadVarUint", "ReadVarUintMax", "ReadVarBytes", "ReadString", "ReadBytes", "ReadUint8", "ReadUint16", "ReadUint32", "ReadUint64", "ReadBool", "ReadByte", "Uint256.Deserialize"}

func hostileReader(a *acc, rng *vf.RNG, idx int) {
	r := a.r
	data := hostileInput(rng)
	rd := bytes.NewReader(data)
	size := uint64(len(data))
	var ops []opRec
	failed := false
	pos := uint64(0)
	fail := func(op, clause, detail string) {
		failed = true
		r.Violation("ser-hostile:"+op+":"+clause, detail, map[string]interface{}{"input": hex.EncodeToString(data), "ops": ops, "model_pos_before_last_op": pos})
	}
	a.eval(func() string { return fmt.Sprintf("serhostile/%d/%s", idx, vf.HexTrunc(data, 16)) })
	for step, nops := 0, rng.Range(1, 20); step < nops && !failed; step++ {
		op := serOps[rng.Intn(len(serOps))]
		if pos > 0 && (size == pos && rng.Chance(70) || rng.Chance(10)) {
			// rewind the bytes.Reader (harness action, not an operation of the code under test)
			pos = uint64(rng.Intn(int(pos)))
			rd.Seek(int64(pos), io.SeekStart)
			ops = append(ops, opRec{"(seek)", pos})
		}
		rem := size - pos
		var arg uint64
		switch op {
		case "ReadBytes":
			switch rng.Intn(6) {
			case 0:
				arg = rem
			case 1:
				arg = rem + 1
			case 2:
				arg = genU64(rng, 64)
			default:
				arg = uint64(rng.Intn(20))
			}
		case "ReadVarUintMax":
			arg = genU64(rng, 64) | 1
		}
		ops = append(ops, opRec{op, arg})
		a.count("serop_" + op)
		p := vf.Catch(func() {
			settle := func(ok bool, adv uint64) {
				if failed {
					return
				}
				now := size - uint64(rd.Len())
				if ok {
					pos += adv
					if now != pos {
						fail(op, "cursor", fmt.Sprintf("reader consumed up to %d after a successful read, model %d", now, pos))
					}
				} else {
					a.count("sererr_" + op)
					pos = now
				}
			}
			fixed := func(w uint64, got uint64, err error) {
				ok := rem >= w
				if (err != nil) != !ok {
					fail(op, "error", fmt.Sprintf("err=%v but %d bytes remained and %d were needed", err, rem, w))
				} else if ok && got != le(data[pos:pos+w]) {
					fail(op, "value", fmt.Sprintf("got %d want %d", got, le(data[pos:pos+w])))
				}
				settle(ok, w)
			}
			switch op {
			case "ReadUint8":
				g, err := ser.ReadUint8(rd)
				fixed(1, uint64(g), err)
			case "ReadByte":
				g, err := ser.ReadByte(rd)
				fixed(1, uint64(g), err)
			case "ReadBool":
				g, err := ser.ReadBool(rd)
				ok := rem >= 1
				if (err != nil) != !ok {
					fail(op, "error", fmt.Sprintf("err=%v with %d bytes remaining", err, rem))
				} else if ok && g != (data[pos] != 0) {
					fail(op, "value", fmt.Sprintf("byte %d read as %v", data[pos], g))
				}
				settle(ok, 1)
			case "ReadUint16":
				g, err := ser.ReadUint16(rd)
				fixed(2, uint64(g), err)
			case "ReadUint32":
				g, err := ser.ReadUint32(rd)
				fixed(4, uint64(g), err)
			case "ReadUint64":
				g, err := ser.ReadUint64(rd)
				fixed(8, g, err)
			case "Uint256.Deserialize":
				var h common.Uint256
				err := h.Deserialize(rd)
				ok := rem >= 32
				if (err != nil) != !ok {
					fail(op, "error", fmt.Sprintf("err=%v with %d bytes remaining", err, rem))
				} else if ok && !bytes.Equal(h[:], data[pos:pos+32]) {
					fail(op, "value", "hash differs from the input bytes")
				}
				settle(ok, 32)
			case "ReadVarUint", "ReadVarUintMax":
				g, err := ser.ReadVarUint(rd, arg)
				v, hdr, minimal, complete := parseVar(data, pos)
				ok := complete && (arg == 0 || v <= arg)
				if (err != nil) != !ok {
					fail(op, "error", fmt.Sprintf("err=%v, model: complete=%v value=%d max=%d", err, complete, v, arg))
				} else if ok && g != v {
					fail(op, "value", fmt.Sprintf("got %d want %d", g, v))
				}
				if ok && !minimal {
					a.count("info_reader_codec_accepts_nonminimal_varuint")
				}
				settle(ok, hdr)
			case "ReadVarBytes", "ReadString":
				var g []byte
				var err error
				if op == "ReadVarBytes" {
					g, err = ser.ReadVarBytes(rd)
				} else {
					var s string
					s, err = ser.ReadString(rd)
					g = []byte(s)
				}
				cnt, hdr, _, complete := parseVar(data, pos)
				ok := complete && cnt <= rem-hdr
				if (err != nil) != !ok {
					fail(op, "error", fmt.Sprintf("err=%v, model: header complete=%v count=%d remaining after header=%d", err, complete, cnt, rem-hdr))
				} else if ok && !bytes.Equal(g, data[pos+hdr:pos+hdr+cnt]) {
					fail(op, "value", fmt.Sprintf("got %x want %x", g, data[pos+hdr:pos+hdr+cnt]))
				}
				settle(ok, hdr+cnt)
			case "ReadBytes":
				g, err := ser.ReadBytes(rd, arg)
				ok := arg <= rem
				if (err != nil) != !ok {
					fail(op, "error", fmt.Sprintf("err=%v for n=%d with %d bytes remaining", err, arg, rem))
				} else if ok && !bytes.Equal(g, data[pos:pos+arg]) {
					fail(op, "value", fmt.Sprintf("got %x want %x", g, data[pos:pos+arg]))
				}
				settle(ok, arg)
			}
		})
		if p != nil {
			fail(op, "panic", fmt.Sprint(p))
		}
	}
}

// allocPhase: hostile length prefixes must not make the decoders allocate more than a
// constant (the io.Reader codec's documented 2 MiB fast path) plus a multiple of the input
// length.  Runs while no other goroutine of the monitor is active.
func allocPhase(r *vf.Run) (anyTripped bool) {
	const fastPath = 2 * 1024 * 1024
	lengths := []uint64{fastPath - 1, fastPath, fastPath + 1, 3 << 20, 16 << 20, 64 << 20, 256 << 20, 1<<31 - 1, 1 << 31, 1<<32 - 1, 1 << 32,
		1 << 40, 1 << 62, 1<<63 - 1, 1 << 63, 1<<63 + 1, ^uint64(0) - 1, ^uint64(0)}
	bodies := []int{0, 7, 1000, 70000}
	type fn struct {
		name string
		call func(in []byte, L uint64) (failed bool)
	}
	fns := []fn{
		{"serialization.ReadVarBytes", func(in []byte, L uint64) bool { _, err := ser.ReadVarBytes(bytes.NewReader(in)); return err != nil }},
		{"serialization.ReadString", func(in []byte, L uint64) bool { _, err := ser.ReadString(bytes.NewReader(in)); return err != nil }},
		{"serialization.ReadBytes", func(in []byte, L uint64) bool {
			_, err := ser.ReadBytes(bytes.NewReader(in[len(refVarUint(L)):]), L)
			return err != nil
		}},
		{"source.NextVarBytes", func(in []byte, L uint64) bool { _, _, _, eof := common.NewZeroCopySource(in).NextVarBytes(); return eof }},
		{"source.NextString", func(in []byte, L uint64) bool { _, _, _, eof := common.NewZeroCopySource(in).NextString(); return eof }},
		{"source.ReadVarBytes", func(in []byte, L uint64) bool { _, err := common.NewZeroCopySource(in).ReadVarBytes(); return err != nil }},
		{"source.ReadString", func(in []byte, L uint64) bool { _, err := common.NewZeroCopySource(in).ReadString(); return err != nil }},
		{"source.NextBytes", func(in []byte, L uint64) bool { _, eof := common.NewZeroCopySource(in).NextBytes(L); return eof }},
	}
	var ms runtime.MemStats
	for _, f := range fns {
		tripped := false
		for _, L := range lengths {
			if tripped {
				// a smaller prefix already made this decoder over-allocate: larger ones are not
				// attempted (an unbounded make would take the process down instead of reporting)
				r.Count("alloc_escalation_stopped")
				break
			}
			for _, body := range bodies {
				in := append(refVarUint(L), bytes.Repeat([]byte{0x41}, body)...)
				bound := uint64(8*len(in)) + fastPath + 512*1024
				runtime.ReadMemStats(&ms)
				before := ms.TotalAlloc
				var failed bool
				p := vf.Catch(func() { failed = f.call(in, L) })
				runtime.ReadMemStats(&ms)
				delta := ms.TotalAlloc - before
				r.Eval(fmt.Sprintf("alloc/%s/%d/%d", f.name, L, body))
				r.Count("alloc_measured")
				wit := map[string]interface{}{"decoder": f.name, "declared_length": L, "input_length": len(in), "allocated_bytes": delta, "bound": bound}
				switch {
				case p != nil:
					r.Violation("alloc:panic:"+f.name, fmt.Sprint(p), wit)
					tripped, anyTripped = true, true
				case !failed:
					r.Violation("alloc:no-error:"+f.name, "a length prefix larger than the input was accepted", wit)
				case delta > bound:
					r.Violation("alloc:unbounded:"+f.name, fmt.Sprintf("decoder allocated %d bytes for a %d-byte input declaring %d bytes", delta, len(in), L), wit)
					tripped, anyTripped = true, true
				}
				if L >= 1<<63 {
					r.Count("alloc_length_over_int63")
				}
			}
		}
	}
	// a genuine large byte string goes through the slow path and must still round-trip
	for _, n := range []int{fastPath - 1, fastPath, fastPath + 1, 3<<20 + 5} {
		payload := vf.NewRNG(uint64(n)).Bytes(n)
		var buf bytes.Buffer
		ser.WriteVarBytes(&buf, payload)
		sink := common.NewZeroCopySink(nil)
		sink.WriteVarBytes(payload)
		r.Eval(fmt.Sprintf("large/%d", n))
		r.Count("large_roundtrip")
		if !bytes.Equal(buf.Bytes(), sink.Bytes()) {
			r.Violation("large:encode", "sink and io.Writer codec disagree on a large byte string", map[string]interface{}{"length": n})
			continue
		}
		got, err := ser.ReadVarBytes(bytes.NewReader(sink.Bytes()))
		if err != nil || !bytes.Equal(got, payload) {
			r.Violation("large:ser-read", "io.Reader codec failed to read back a large byte string: "+fmt.Sprint(err), map[string]interface{}{"length": n})
		}
		g2, _, irr, eof := common.NewZeroCopySource(buf.Bytes()).NextVarBytes()
		if irr || eof || !bytes.Equal(g2, payload) {
			r.Violation("large:source-read", "source failed to read back a large byte string", map[string]interface{}{"length": n})
		}
		// one byte short: must fail, not return a short string
		if _, err := ser.ReadVarBytes(bytes.NewReader(sink.Bytes()[:sink.Size()-1])); err == nil {
			r.Violation("large:ser-short", "io.Reader codec accepted a large byte string missing its last byte", map[string]interface{}{"length": n})
		}
	}
	return
}

// ---------------------------------------------------------------- main

func main() {
	r := vf.NewRun("C18", "exploration",
		"1: every uint8/bool/uint16/int16, edge and seeded random values of the wider integers, VarUints 0..70000 and around every form threshold, byte strings/strings whose lengths straddle 0xFD and 0xFFFF, addresses, hashes, 128-bit values, singly and as lists of 1..40 mixed values written into one sink (nil / tiny-capacity / pre-filled / Reset sinks); 2: every value 0..0x10100 and edge/random values in every longer VarUint form, bare and as length prefix; 3+4: byte strings assembled from well-formed, irregular, truncated and over-promising fragments, each read with a seeded sequence of 1..30 operations (all Next*/Read*/Skip/BackUp(<=consumed) of the source with n in {small, remaining, remaining+1, 2^63, 2^64-off, 2^64-1}; all Read* of the io.Reader codec); hostile length prefixes 2MiB-1..2^64-1 with allocation measured.  Distinct by value / (input, op sequence)")
	rng := vf.NewRNG(vf.Seed())
	r.Assume("BackUp is called only with n <= Pos() (the source documents it as undoing a previous read)")
	r.Assume("where the source cursor rests after an eof result is not specified; only Pos()<=Size() is demanded there")

	// ---- 4a first: allocation is measured while the process is single-threaded
	allocTripped := allocPhase(r)

	// ---- 1: exhaustive small types
	chunks(r, rng, 1, 1<<16, 2048, func(a *acc, _ *vf.RNG, i int) {
		roundTripOne(a, value{k: kU16, u: uint64(i)}, "exhaustive")
		roundTripOne(a, value{k: kI16, u: uint64(i)}, "exhaustive")
		roundTripOne(a, value{k: kVarUint, u: uint64(i)}, "exhaustive")
		if i < 256 {
			roundTripOne(a, value{k: kU8, u: uint64(i)}, "exhaustive")
			roundTripOne(a, value{k: kByte, u: uint64(i)}, "exhaustive")
		}
		if i < 2 {
			roundTripOne(a, value{k: kBool, u: uint64(i)}, "exhaustive")
		}
	})
	{ // edges
		a := &acc{r: r, counts: map[string]int64{}, stride: 1}
		sub := rng.Sub(2 << 48)
		for e := uint(0); e < 64; e++ {
			for d := int64(-2); d <= 2; d++ {
				u := (uint64(1) << e) + uint64(d)
				for _, k := range []kind{kU32, kI32, kU64, kI64, kVarUint} {
					v := value{k: k, u: u}
					if k == kU32 || k == kI32 {
						v.u &= 0xFFFFFFFF
					}
					roundTripOne(a, v, "edge")
				}
			}
		}
		for _, n := range []int{0, 1, 0xFC, 0xFD, 0xFE, 0xFF, 0x100, 0xFFFE, 0xFFFF, 0x10000, 0x10001, 100000} {
			b := sub.Bytes(n)
			for _, k := range []kind{kVarBytes, kString, kBytes, kBytesViaNext} {
				roundTripOne(a, value{k: k, b: b}, "edge-length")
				a.count("rt_edge_length")
			}
		}
		for _, fill := range []byte{0, 0xff, 0xfd, 0x80} {
			for _, k := range []kind{kAddress, kHash, kI128, kU128} {
				roundTripOne(a, value{k: k, b: bytes.Repeat([]byte{fill}, fixedWidth[k])}, "edge-fill")
			}
		}
		a.flush()
	}
	// ---- 1: random single values and mixed sequences
	chunks(r, rng, 3, vf.N(300000, 1200000), 5000, func(a *acc, rng *vf.RNG, i int) {
		v := genValue(rng, kind(i%int(nKinds)), rng.Chance(1))
		roundTripOne(a, v, "random")
		if i < 4 {
			r.Sample(map[string]interface{}{"part": "roundtrip", "value": v.String(), "encoding": hx(refEncode(v))})
		}
	})
	chunks(r, rng, 4, vf.N(40000, 250000), 1000, seqRoundTrip)

	// ---- 2: canonicity
	chunks(r, rng, 5, 0x10100, 2048, func(a *acc, rng *vf.RNG, i int) { canonicity(a, rng, uint64(i), "exhaustive") })
	{
		a := &acc{r: r, counts: map[string]int64{}, stride: 1}
		sub := rng.Sub(6 << 48)
		for e := uint(0); e < 64; e++ {
			for d := int64(-2); d <= 2; d++ {
				canonicity(a, sub, (uint64(1)<<e)+uint64(d), "edge")
			}
		}
		canonicity(a, sub, math.MaxUint64, "edge")
		a.flush()
	}
	chunks(r, rng, 7, vf.N(100000, 600000), 5000, func(a *acc, rng *vf.RNG, i int) { canonicity(a, rng, genU64(rng, 64), "random") })

	// ---- 3: hostile op sequences on the source
	chunks(r, rng, 8, vf.N(100000, 1200000), 2000, hostileSource)
	// ---- 4b: hostile op sequences on the io.Reader codec
	if allocTripped {
		// a decoder already over-allocates on a declared length: feeding it 2^40..2^64 lengths from
		// many goroutines could take the process down (fatal OOM is not recoverable) before the
		// evidence is written.  The violation is already recorded; this phase is skipped.
		r.Inconclusive("hostile io.Reader phase skipped after an allocation-bound violation")
	} else {
		chunks(r, rng, 9, vf.N(60000, 500000), 2000, hostileReader)
	}

	// ---- coverage that must have been reached
	for k := kind(0); k < nKinds; k++ {
		r.Require("rt_"+kindName[k], 2)
		r.Require("seq_"+kindName[k], 10)
		if serSupports(k) {
			r.Require("rt_ser_"+kindName[k], 2)
		}
	}
	for _, op := range srcOps {
		r.Require("op_"+op, 100)
		if op != "BackUp" {
			r.Require("eof_"+op, 10)
		}
	}
	for _, op := range serOps {
		r.Require("serop_"+op, 100)
		r.Require("sererr_"+op, 10)
	}
	for _, k := range []string{"rt_edge_length", "sink_nil", "sink_small_cap", "sink_zero_cap", "sink_with_prefix", "sink_after_reset",
		"canon_minimal", "canon_long_form_fd", "canon_long_form_fe", "canon_long_form_ff", "canon_prefix_body_present", "canon_prefix_body_truncated",
		"hostile_input_with_spare_capacity", "hostile_input_exact_capacity", "offset_plus_n_overflows", "bool_irregular", "varuint_irregular",
		"vb_header_truncated", "vb_body_truncated", "vb_irregular_complete", "vb_regular_complete",
		"alloc_measured", "alloc_length_over_int63", "large_roundtrip", "ser_varuint_range_limited"} {
		r.Require(k, 1)
	}
	r.Extra("note_reader_codec", "common/serialization.ReadVarUint has no irregular indication and accepts non-minimal forms (counter info_reader_codec_accepts_nonminimal_varuint); DESIGN §5/C18 clause 2 places the canonicity requirement on the ZeroCopySource APIs only, so this is observed, not judged")
	r.Finish()
}
