// History family of C19: the hash reported by LIVE transaction objects.
//
// One history is a seeded random sequence of steps on one MutableTransaction (the primary
// object) and on the objects derived from it: struct copies that share the payload pointer,
// immutable Transactions obtained through IntoImmutable, Transactions decoded from their bytes,
// MutableTransactions obtained back through IntoMutable, and one Transaction object that is
// re-used for several Deserialization calls.  Steps: ask for the hash (Hash(), IntoImmutable()
// + Hash()/ToArray()), sign with the reported hash, add / remove / reorder / garble signature
// sets, edit a scalar header field, edit the payload IN PLACE through the same pointer
// (InvokeCode.Code assigned / byte-flipped / appended / truncated / re-deserialized in place;
// DeployCode string fields, raw code bytes through GetRawCode(), whole content through
// Deserialization on the same object), replace the payload object (new content, same content in
// a new object, an earlier pointer whose content was edited meanwhile), make the object
// temporarily unserializable (version != 0) and restore it.
//
// The monitor keeps its own model of the unsigned content of every live object (header scalars
// per object, payload content per payload POINTER, so that an in-place edit is seen by every
// object sharing the pointer).  Whenever a hash is reported it must equal
//   - sha256(sha256(unsigned serialization)) computed by the monitor's own encoder from the model,
//   - the hash of a FRESH MutableTransaction with a FRESH payload object built from the model,
//
// and when only signature steps happened since the previous report of the same object it must be
// that previous report.  Whether a step is followed by a report is itself random, so that stale
// state can survive several edits before it is asked for.
package main

import (
	"bytes"
	"fmt"
	"reflect"
	"sort"
	"strings"

	ethcrypto "github.com/ethereum/go-ethereum/crypto"
	"github.com/ontio/ontology/common"
	"github.com/ontio/ontology/common/constants"
	"github.com/ontio/ontology/core/payload"
	"github.com/ontio/ontology/core/types"
	"verifharness/lib/txgen"
	"verifharness/lib/vf"
)

// ---------------------------------------------------------------- the monitor's content model

type plModel struct {
	deploy  bool
	code    []byte
	vmFlags byte
	strs    [5]string
}

func (p *plModel) kind() string {
	if p.deploy {
		return "deploy"
	}
	return "invoke"
}

func (p *plModel) copy() *plModel {
	c := *p
	c.code = clone(p.code)
	return &c
}

// wire is the monitor's own encoding of the payload.
func (p *plModel) wire() []byte {
	var b bytes.Buffer
	b.Write(varuint(uint64(len(p.code))))
	b.Write(p.code)
	if p.deploy {
		b.WriteByte(p.vmFlags)
		for _, s := range p.strs {
			b.Write(varuint(uint64(len(s))))
			b.WriteString(s)
		}
	}
	return b.Bytes()
}

// fresh builds a new payload object that shares nothing with any live object.
func (p *plModel) fresh() (types.Payload, error) {
	if p.deploy {
		return payload.NewDeployCode(clone(p.code), payload.VmType(p.vmFlags), p.strs[0], p.strs[1], p.strs[2], p.strs[3], p.strs[4])
	}
	return &payload.InvokeCode{Code: clone(p.code)}, nil
}

func (p *plModel) equal(q *plModel) bool {
	return p.deploy == q.deploy && bytes.Equal(p.code, q.code) && p.vmFlags == q.vmFlags && p.strs == q.strs
}

// readPayload copies the content of a real payload object.
func readPayload(pl types.Payload) (*plModel, error) {
	switch v := pl.(type) {
	case *payload.InvokeCode:
		return &plModel{code: clone(v.Code)}, nil
	case *payload.DeployCode:
		fl := reflect.ValueOf(v).Elem().FieldByName("vmFlags")
		if !fl.IsValid() || fl.Kind() != reflect.Uint8 {
			vmFlagsReadable = false
			return nil, fmt.Errorf("DeployCode.vmFlags not readable")
		}
		return &plModel{deploy: true, code: clone(v.GetRawCode()), vmFlags: byte(fl.Uint()), strs: [5]string{v.Name, v.Version, v.Author, v.Email, v.Description}}, nil
	}
	return nil, fmt.Errorf("unexpected payload type %T", pl)
}

type hdrModel struct {
	version            byte
	txType             types.TransactionType
	nonce              uint32
	gasPrice, gasLimit uint64
	payer              common.Address
}

func hdrOfMutable(m *types.MutableTransaction) hdrModel {
	return hdrModel{m.Version, m.TxType, m.Nonce, m.GasPrice, m.GasLimit, m.Payer}
}

// unsignedWire is the monitor's own unsigned serialization (attribute count included).
func unsignedWire(h hdrModel, p *plModel) []byte {
	f := ontFields{version: h.version, txType: byte(h.txType), nonce: h.nonce, gasPrice: h.gasPrice, gasLimit: h.gasLimit, payer: h.payer,
		deploy: p.deploy, code: p.code, vmFlags: p.vmFlags, strs: p.strs}
	enc, lay := f.encode()
	return enc[:lay.unsignedLen]
}

// ---------------------------------------------------------------- live objects

type liveTx struct {
	id    int
	m     *types.MutableTransaction
	h     hdrModel
	pl    types.Payload   // the payload pointer the monitor put there
	since map[string]bool // classes of steps applied since the last report of this object
	have  bool            // a hash was reported before
	lastH common.Uint256  // that report
	lastC common.Uint256  // the expected hash (= identity of the content) at that report
	cur   common.Uint256  // identity of the current content (kept by noteContents)
}

type snap struct {
	tx      *types.Transaction
	raw     []byte
	hash    common.Uint256
	h       hdrModel
	pl      *plModel
	nsigs   int
	step    int
	retired bool // IntoMutable transferred the ownership of its internals
}

type eipSample struct {
	raw  []byte
	hash common.Uint256
}

type hist struct {
	idx     int
	rng     *vf.RNG
	t       tally
	log     []string
	lives   []*liveTx
	pls     map[types.Payload]*plModel
	ptrs    []types.Payload // every payload pointer that was ever installed
	snaps   []*snap
	seen    map[common.Uint256]int     // expected hash of a content -> first step at which it was current
	left    map[common.Uint256]bool    // contents some object had and then left
	prev    map[types.Payload]*plModel // content of a payload object before its last in-place edit
	scratch *types.Transaction
	eips    []eipSample
	nextID  int
	bad     bool
}

func (h *hist) logf(format string, a ...interface{}) {
	h.log = append(h.log, fmt.Sprintf("%02d ", len(h.log))+fmt.Sprintf(format, a...))
}

func (h *hist) violation(key, what string, extra map[string]interface{}) {
	w := map[string]interface{}{"history": h.idx, "steps": append([]string(nil), h.log...)}
	for k, v := range extra {
		w[k] = v
	}
	r.Violation("history:"+key, what, w)
	h.bad = true
}

func sinceKey(s map[string]bool) string {
	if len(s) == 0 {
		return "none"
	}
	var k []string
	for c := range s {
		k = append(k, c)
	}
	sort.Strings(k)
	return strings.Join(k, "+")
}

func (h *hist) mark(l *liveTx, class string) { l.since[class] = true }

// markPayload marks every live object that holds the payload pointer pl.
func (h *hist) markPayload(pl types.Payload, class string) {
	n := 0
	for _, l := range h.lives {
		if l.pl == pl {
			l.since[class] = true
			n++
		}
	}
	if n > 1 {
		h.t.inc("hist_inplace_edit_of_shared_payload")
	}
}

func (h *hist) install(pl types.Payload, p *plModel) {
	if _, ok := h.pls[pl]; !ok {
		h.ptrs = append(h.ptrs, pl)
	}
	h.pls[pl] = p
}

func (h *hist) addLive(m *types.MutableTransaction, hd hdrModel, pl types.Payload) *liveTx {
	l := &liveTx{id: h.nextID, m: m, h: hd, pl: pl, since: map[string]bool{}}
	h.nextID++
	if len(h.lives) < 3 {
		h.lives = append(h.lives, l)
	} else {
		h.lives[1+h.rng.Intn(2)] = l
	}
	return l
}

// valid: the model says the object serializes to an acceptable transaction.
func (l *liveTx) valid() bool { return l.h.version == 0 }

// expected records and returns the unsigned serialization and its hash for the current model.
func (h *hist) expected(l *liveTx) ([]byte, common.Uint256) {
	enc := unsignedWire(l.h, h.pls[l.pl])
	want := dsha(enc)
	if _, ok := h.seen[want]; !ok {
		h.seen[want] = len(h.log)
	}
	return enc, want
}

func (h *hist) noteContents() {
	for _, l := range h.lives {
		_, c := h.expected(l)
		if c != l.cur && l.cur != (common.Uint256{}) {
			h.left[l.cur] = true
		}
		l.cur = c
	}
}

// inplace returns the model of payload object pl for an in-place edit and remembers the content before it.
func (h *hist) inplace(pl types.Payload) *plModel {
	p := h.pls[pl]
	h.prev[pl] = p.copy()
	return p
}

// untouched: reporting a hash must not have modified the object.
func (h *hist) untouched(l *liveTx, api string) bool {
	if hdrOfMutable(l.m) != l.h || l.m.Payload != l.pl {
		h.violation("object-modified-by-report:header:"+api, "header fields or payload pointer of the object differ from what was assigned", map[string]interface{}{"object": l.id})
		return false
	}
	got, err := readPayload(l.pl)
	if err != nil {
		return true
	}
	if !got.equal(h.pls[l.pl]) {
		h.violation("object-modified-by-report:payload:"+api+":"+got.kind(), "payload content differs from what was assigned", map[string]interface{}{"object": l.id, "payload": vf.HexTrunc(got.wire(), 2048), "assigned": vf.HexTrunc(h.pls[l.pl].wire(), 2048)})
		return false
	}
	return true
}

// report judges one hash reported for live object l by api.
func (h *hist) report(l *liveTx, api string, got common.Uint256) bool {
	p := h.pls[l.pl]
	enc, want := h.expected(l)
	sk := sinceKey(l.since)
	h.t.inc("hist_report_" + api)
	if !l.valid() {
		h.t.inc("hist_report_in_unserializable_state")
		if got != common.UINT256_EMPTY && got != want {
			h.violation("hash-of-other-content-while-unserializable:"+api+":after-"+sk+":"+p.kind(), "an object that does not serialize to a valid transaction reports the hash of some other content",
				map[string]interface{}{"object": l.id, "reported": got.ToHexString(), "hash_of_current_fields": want.ToHexString(), "reported_is_content_of_step": h.stepOf(got)})
			return false
		}
		return true
	}
	h.t.inc("hist_report_after_" + sk)
	h.t.inc("hist_report_" + p.kind())
	// the fresh object
	fp, err := p.fresh()
	if err != nil {
		h.violation("fresh-payload-rejected:"+p.kind(), "the current content cannot be put into a new payload object: "+err.Error(), map[string]interface{}{"unsigned": vf.HexTrunc(enc, 4096)})
		return false
	}
	fm := &types.MutableTransaction{Version: l.h.version, TxType: l.h.txType, Nonce: l.h.nonce, GasPrice: l.h.gasPrice, GasLimit: l.h.gasLimit, Payer: l.h.payer, Payload: fp}
	var fi *types.Transaction
	if pn := vf.Catch(func() { fi, err = fm.IntoImmutable() }); pn != nil || err != nil {
		h.violation("fresh-object-rejected:"+p.kind(), fmt.Sprintf("a new object with the current content does not convert: panic=%v err=%v", pn, err), map[string]interface{}{"unsigned": vf.HexTrunc(enc, 4096)})
		return false
	}
	if fi.Hash() != want || fm.Hash() != want {
		h.violation("fresh-object-hash-not-double-sha256:"+p.kind(), "a new object with the current content does not hash to sha256(sha256(unsigned serialization))",
			map[string]interface{}{"unsigned": vf.HexTrunc(enc, 4096), "immutable_hash": fi.Hash().ToHexString(), "mutable_hash": fm.Hash().ToHexString(), "want": want.ToHexString()})
		return false
	}
	h.t.inc("hist_fresh_object_compared")
	if got != want {
		class := "other"
		if got == common.UINT256_EMPTY {
			class = "empty"
		} else if _, ok := h.seen[got]; ok {
			class = "stale"
		}
		h.violation("hash-"+class+":"+api+":after-"+sk+":"+p.kind(), "the reported hash is not the hash of the current unsigned content",
			map[string]interface{}{"object": l.id, "api": api, "reported": got.ToHexString(), "want": want.ToHexString(), "unsigned": vf.HexTrunc(enc, 4096),
				"steps_since_previous_report": sk, "reported_is_content_of_step": h.stepOf(got)})
		return false
	}
	if l.have && l.lastC == want {
		h.t.inc("hist_same_content_reports_compared")
		if len(l.since) == 1 && l.since["sig"] {
			h.t.inc("hist_signature_only_reports_compared")
		}
		if got != l.lastH {
			h.violation("hash-changed-without-content-change:"+api+":after-"+sk, "two reports for the same unsigned content differ", map[string]interface{}{"object": l.id, "reported": got.ToHexString(), "previous": l.lastH.ToHexString()})
			return false
		}
	} else if h.left[want] {
		h.t.inc("hist_report_for_content_returned_to")
		if l.since["inplace"] {
			h.t.inc("hist_report_for_content_returned_to_in_place")
		}
	}
	l.have, l.lastH, l.lastC = true, got, want
	l.since = map[string]bool{}
	return true
}

func (h *hist) stepOf(x common.Uint256) int {
	if s, ok := h.seen[x]; ok {
		return s
	}
	return -1
}

// askHash: l.m.Hash()
func (h *hist) askHash(l *liveTx) (common.Uint256, bool) {
	var got common.Uint256
	if pn := vf.Catch(func() { got = l.m.Hash() }); pn != nil {
		if !l.valid() {
			h.t.inc("hist_panic_in_unserializable_state")
			return got, false
		}
		h.violation("panic:Hash", fmt.Sprint(pn), map[string]interface{}{"object": l.id})
		return got, false
	}
	if !h.untouched(l, "Hash") {
		return got, false
	}
	return got, h.report(l, "Hash", got)
}

// askImmutable: l.m.IntoImmutable(), the result judged and kept as a snapshot.
func (h *hist) askImmutable(l *liveTx) bool {
	var imm *types.Transaction
	var err error
	if pn := vf.Catch(func() { imm, err = l.m.IntoImmutable() }); pn != nil {
		if !l.valid() {
			h.t.inc("hist_panic_in_unserializable_state")
			return true
		}
		h.violation("panic:IntoImmutable", fmt.Sprint(pn), map[string]interface{}{"object": l.id})
		return false
	}
	if !h.untouched(l, "IntoImmutable") {
		return false
	}
	p := h.pls[l.pl]
	enc, want := h.expected(l)
	if err != nil {
		if l.valid() {
			h.violation("into-immutable-rejected:"+p.kind(), "an object with valid content does not convert: "+err.Error(), map[string]interface{}{"object": l.id, "unsigned": vf.HexTrunc(enc, 4096)})
			return false
		}
		h.t.inc("hist_unserializable_state_rejected")
		return true
	}
	var raw []byte
	var ih common.Uint256
	if pn := vf.Catch(func() { raw = clone(imm.ToArray()); ih = imm.Hash() }); pn != nil {
		h.violation("panic:immutable-ToArray", fmt.Sprint(pn), map[string]interface{}{"object": l.id})
		return false
	}
	if !h.report(l, "IntoImmutable", ih) {
		return false
	}
	if !l.valid() {
		return true
	}
	if len(raw) < len(enc) || !bytes.Equal(raw[:len(enc)], enc) {
		h.violation("immutable-bytes-not-current-content:"+p.kind(), "IntoImmutable().ToArray() does not start with the unsigned serialization of the current content",
			map[string]interface{}{"object": l.id, "bytes": vf.HexTrunc(raw, 4096), "unsigned": vf.HexTrunc(enc, 4096)})
		return false
	}
	for _, s := range h.snaps {
		if s.tx == imm {
			h.violation("into-immutable-returns-earlier-object", "IntoImmutable returned a Transaction object it returned before", map[string]interface{}{"object": l.id, "earlier_step": s.step})
			return false
		}
	}
	a := judge(raw, "history", h.t)
	if a == nil || a.consumed != len(raw) {
		h.violation("immutable-bytes-rejected:"+p.kind(), "the serialization of IntoImmutable() is not accepted (completely) by the decoder", map[string]interface{}{"object": l.id, "bytes": vf.HexTrunc(raw, 4096)})
		return false
	}
	if a.tx.Hash() != want || len(a.tx.Sigs) != len(l.m.Sigs) {
		h.violation("immutable-bytes-decode-differently:"+p.kind(), "the serialization of IntoImmutable() decodes to another hash or signature count",
			map[string]interface{}{"object": l.id, "bytes": vf.HexTrunc(raw, 4096), "decoded_hash": a.tx.Hash().ToHexString(), "want": want.ToHexString(), "decoded_sigs": len(a.tx.Sigs), "sigs": len(l.m.Sigs)})
		return false
	}
	h.t.inc("hist_immutable_serialization_checked")
	h.snaps = append(h.snaps, &snap{tx: imm, raw: raw, hash: want, h: l.h, pl: p.copy(), nsigs: len(l.m.Sigs), step: len(h.log) - 1})
	if len(h.snaps) > 6 {
		h.snaps = h.snaps[1:]
	}
	return true
}

// checkSnaps: an immutable transaction keeps its bytes, hash and content whatever happens later to the object it came from.
func (h *hist) checkSnaps() {
	for _, s := range h.snaps {
		var raw []byte
		var hh common.Uint256
		if pn := vf.Catch(func() { raw = s.tx.ToArray(); hh = s.tx.Hash() }); pn != nil {
			h.violation("panic:snapshot", fmt.Sprint(pn), map[string]interface{}{"snapshot_of_step": s.step})
			return
		}
		if s.retired {
			continue // its payload and raw bytes now belong to the MutableTransaction made from it
		}
		h.t.inc("hist_snapshot_rechecked")
		if hh != s.hash || !bytes.Equal(raw, s.raw) {
			h.violation("immutable-changed-later:"+s.pl.kind(), "bytes or hash of an immutable transaction changed after later steps on other objects",
				map[string]interface{}{"snapshot_of_step": s.step, "bytes_then": vf.HexTrunc(s.raw, 4096), "bytes_now": vf.HexTrunc(raw, 4096), "hash_then": s.hash.ToHexString(), "hash_now": hh.ToHexString()})
			return
		}
		got, err := readPayload(s.tx.Payload)
		if err == nil && (!got.equal(s.pl) || hdrModel{s.tx.Version, s.tx.TxType, s.tx.Nonce, s.tx.GasPrice, s.tx.GasLimit, s.tx.Payer} != s.h) {
			h.violation("immutable-content-changed-later:"+s.pl.kind(), "the fields of an immutable transaction no longer are the content its hash covers",
				map[string]interface{}{"snapshot_of_step": s.step, "bytes": vf.HexTrunc(s.raw, 4096), "payload_now": vf.HexTrunc(got.wire(), 2048)})
			return
		}
	}
}

// ---------------------------------------------------------------- generators of values

func hRandStr(rng *vf.RNG, max int) string {
	if rng.Chance(20) {
		return ""
	}
	b := rng.Bytes(1 + rng.Intn(max))
	if rng.Chance(75) {
		for i := range b {
			b[i] = 'a' + b[i]%26
		}
	}
	return string(b)
}

func hRandCode(rng *vf.RNG, min int) []byte {
	n := min + rng.Intn(48)
	if rng.Chance(5) {
		n = 0xfd + rng.Intn(40) // three byte length prefix
	}
	return rng.Bytes(n)
}

func hRandDeploy(rng *vf.RNG) *plModel {
	p := &plModel{deploy: true, code: hRandCode(rng, 1), vmFlags: []byte{0, 1, 3}[rng.Intn(3)]}
	for k := range p.strs {
		p.strs[k] = hRandStr(rng, 12)
	}
	if rng.Chance(5) {
		p.strs[4] = string(rng.Bytes(0xfd + rng.Intn(30)))
	}
	return p
}

// strField is the k-th string field of a deploy payload.
func strField(dc *payload.DeployCode, k int) *string {
	return []*string{&dc.Name, &dc.Version, &dc.Author, &dc.Email, &dc.Description}[k]
}

func invokeType(rng *vf.RNG) types.TransactionType {
	if rng.Bool() {
		return types.InvokeWasm
	}
	return types.InvokeNeo
}

// ---------------------------------------------------------------- steps

type stepFn struct {
	name   string
	weight int
	run    func(h *hist, l *liveTx) bool // false: not applicable in the current state
}

var histSteps []stepFn

func init() {
	histSteps = []stepFn{
		// ---- reports
		{"hash", 16, func(h *hist, l *liveTx) bool {
			h.logf("obj%d.Hash()", l.id)
			h.askHash(l)
			return true
		}},
		{"into-immutable", 8, func(h *hist, l *liveTx) bool {
			h.logf("obj%d.IntoImmutable(); ToArray(); Hash()", l.id)
			h.askImmutable(l)
			return true
		}},
		{"hash-both-apis", 4, func(h *hist, l *liveTx) bool {
			h.logf("obj%d.Hash(); obj%d.IntoImmutable().Hash()", l.id, l.id)
			if _, ok := h.askHash(l); ok || !l.valid() {
				if !h.bad {
					h.askImmutable(l)
				}
			}
			return true
		}},
		// ---- signatures
		{"sign", 8, func(h *hist, l *liveTx) bool {
			if !l.valid() || len(l.m.Sigs) >= constants.TX_MAX_SIG_SIZE {
				return false
			}
			s := txgen.PickSigner(h.rng, 4)
			h.logf("obj%d: sign obj%d.Hash() with a %d-of-%d signer, append the signature set", l.id, l.id, s.M, len(s.Keys))
			hh, ok := h.askHash(l)
			if !ok {
				return true
			}
			sg, err := s.Sig(hh, h.rng)
			if err != nil {
				r.Inconclusive("history: signing failed: " + err.Error())
				return true
			}
			l.m.Sigs = append(l.m.Sigs, sg)
			h.mark(l, "sig")
			return true
		}},
		{"sign-known-hash", 3, func(h *hist, l *liveTx) bool {
			if !l.valid() || len(l.m.Sigs) >= constants.TX_MAX_SIG_SIZE {
				return false
			}
			s := txgen.PickSigner(h.rng, 4)
			_, want := h.expected(l)
			sg, err := s.Sig(want, h.rng)
			if err != nil {
				r.Inconclusive("history: signing failed: " + err.Error())
				return true
			}
			h.logf("obj%d: append a signature set (%d-of-%d) made without asking the object for its hash", l.id, s.M, len(s.Keys))
			l.m.Sigs = append(l.m.Sigs, sg)
			h.mark(l, "sig")
			return true
		}},
		{"sig-remove-last", 2, func(h *hist, l *liveTx) bool {
			if len(l.m.Sigs) == 0 {
				return false
			}
			h.logf("obj%d.Sigs = Sigs[:len-1]", l.id)
			l.m.Sigs = l.m.Sigs[:len(l.m.Sigs)-1]
			h.mark(l, "sig")
			return true
		}},
		{"sig-clear", 1, func(h *hist, l *liveTx) bool {
			if len(l.m.Sigs) == 0 {
				return false
			}
			h.logf("obj%d.Sigs = nil", l.id)
			l.m.Sigs = nil
			h.mark(l, "sig")
			return true
		}},
		{"sig-reorder", 2, func(h *hist, l *liveTx) bool {
			if len(l.m.Sigs) < 2 {
				return false
			}
			i, j := 0, 1+h.rng.Intn(len(l.m.Sigs)-1)
			h.logf("obj%d: swap Sigs[%d] and Sigs[%d]", l.id, i, j)
			l.m.Sigs[i], l.m.Sigs[j] = l.m.Sigs[j], l.m.Sigs[i]
			h.mark(l, "sig")
			return true
		}},
		{"sig-duplicate", 1, func(h *hist, l *liveTx) bool {
			if len(l.m.Sigs) == 0 || len(l.m.Sigs) >= constants.TX_MAX_SIG_SIZE {
				return false
			}
			h.logf("obj%d: append a copy of Sigs[0]", l.id)
			l.m.Sigs = append(l.m.Sigs, l.m.Sigs[0])
			h.mark(l, "sig")
			return true
		}},
		{"sig-garbage", 2, func(h *hist, l *liveTx) bool {
			if len(l.m.Sigs) == 0 {
				return false
			}
			k := h.rng.Intn(len(l.m.Sigs))
			s := l.m.Sigs[k]
			data := [][]byte{h.rng.Bytes(1 + h.rng.Intn(90))}
			for len(data) < int(s.M) {
				data = append(data, h.rng.Bytes(65))
			}
			s.SigData = data
			h.logf("obj%d.Sigs[%d].SigData = %d random strings", l.id, k, len(data))
			l.m.Sigs[k] = s
			h.mark(l, "sig")
			return true
		}},
		// ---- scalar header fields
		{"nonce", 5, func(h *hist, l *liveTx) bool {
			v := l.h.nonce
			switch h.rng.Intn(4) {
			case 0:
				v++
			case 1:
				v = uint32(h.rng.U64())
			case 2:
				v ^= 1 << uint(h.rng.Intn(32))
			default:
				v = []uint32{0, 0xffffffff, 1}[h.rng.Intn(3)]
			}
			if v == l.h.nonce {
				return false
			}
			h.logf("obj%d.Nonce = %d", l.id, v)
			l.m.Nonce, l.h.nonce = v, v
			h.mark(l, "scalar")
			return true
		}},
		{"gasprice", 4, func(h *hist, l *liveTx) bool {
			v := l.h.gasPrice ^ 1<<uint(h.rng.Intn(64))
			if h.rng.Chance(30) {
				v = []uint64{0, 2500, h.rng.U64()}[h.rng.Intn(3)]
			}
			if v == l.h.gasPrice {
				return false
			}
			h.logf("obj%d.GasPrice = %d", l.id, v)
			l.m.GasPrice, l.h.gasPrice = v, v
			h.mark(l, "scalar")
			return true
		}},
		{"gaslimit", 4, func(h *hist, l *liveTx) bool {
			v := l.h.gasLimit ^ 1<<uint(h.rng.Intn(64))
			if h.rng.Chance(30) {
				v = []uint64{0, 20000, h.rng.U64()}[h.rng.Intn(3)]
			}
			if v == l.h.gasLimit {
				return false
			}
			h.logf("obj%d.GasLimit = %d", l.id, v)
			l.m.GasLimit, l.h.gasLimit = v, v
			h.mark(l, "scalar")
			return true
		}},
		{"gas-swap", 2, func(h *hist, l *liveTx) bool {
			if l.h.gasPrice == l.h.gasLimit {
				return false
			}
			h.logf("obj%d: swap GasPrice and GasLimit", l.id)
			l.m.GasPrice, l.m.GasLimit = l.m.GasLimit, l.m.GasPrice
			l.h.gasPrice, l.h.gasLimit = l.h.gasLimit, l.h.gasPrice
			h.mark(l, "scalar")
			return true
		}},
		{"payer", 4, func(h *hist, l *liveTx) bool {
			v := l.h.payer
			switch h.rng.Intn(3) {
			case 0:
				v[h.rng.Intn(20)] ^= byte(1 << uint(h.rng.Intn(8)))
			case 1:
				copy(v[:], h.rng.Bytes(20))
			default:
				v = txgen.PickLight(h.rng).Address()
			}
			if v == l.h.payer {
				return false
			}
			h.logf("obj%d.Payer = %x", l.id, v[:])
			l.m.Payer, l.h.payer = v, v
			h.mark(l, "scalar")
			return true
		}},
		{"txtype", 3, func(h *hist, l *liveTx) bool {
			if h.pls[l.pl].deploy {
				return false
			}
			v := types.InvokeNeo
			if l.h.txType == types.InvokeNeo {
				v = types.InvokeWasm
			}
			h.logf("obj%d.TxType = %#x", l.id, byte(v))
			l.m.TxType, l.h.txType = v, v
			h.mark(l, "scalar")
			return true
		}},
		{"version-unserializable", 2, func(h *hist, l *liveTx) bool {
			if !l.valid() {
				return false
			}
			v := byte(1 + h.rng.Intn(255))
			h.logf("obj%d.Version = %d", l.id, v)
			l.m.Version, l.h.version = v, v
			h.mark(l, "scalar")
			return true
		}},
		// ---- payload edited in place: InvokeCode
		{"invoke-code-assign", 6, func(h *hist, l *liveTx) bool {
			ic, ok := l.pl.(*payload.InvokeCode)
			if !ok {
				return false
			}
			p := h.pls[l.pl]
			c := hRandCode(h.rng, 0)
			if h.rng.Chance(40) && len(p.code) > 0 { // same length, other bytes
				c = h.rng.Bytes(len(p.code))
			}
			if bytes.Equal(c, p.code) {
				return false
			}
			h.logf("obj%d.Payload.(*InvokeCode).Code = %x", l.id, c)
			h.inplace(l.pl)
			ic.Code, p.code = clone(c), clone(c)
			h.markPayload(l.pl, "inplace")
			return true
		}},
		{"invoke-code-byte", 5, func(h *hist, l *liveTx) bool {
			ic, ok := l.pl.(*payload.InvokeCode)
			p := h.pls[l.pl]
			if !ok || len(p.code) == 0 {
				return false
			}
			i, x := h.rng.Intn(len(p.code)), byte(1<<uint(h.rng.Intn(8)))
			h.logf("obj%d.Payload.(*InvokeCode).Code[%d] ^= %#x", l.id, i, x)
			h.inplace(l.pl)
			ic.Code[i] ^= x
			p.code[i] ^= x
			h.markPayload(l.pl, "inplace")
			return true
		}},
		{"invoke-code-append", 3, func(h *hist, l *liveTx) bool {
			ic, ok := l.pl.(*payload.InvokeCode)
			if !ok {
				return false
			}
			p := h.pls[l.pl]
			x := byte(h.rng.Intn(256))
			h.logf("obj%d.Payload.(*InvokeCode).Code = append(Code, %#x)", l.id, x)
			h.inplace(l.pl)
			ic.Code = append(ic.Code, x)
			p.code = append(p.code, x)
			h.markPayload(l.pl, "inplace")
			return true
		}},
		{"invoke-code-truncate", 3, func(h *hist, l *liveTx) bool {
			ic, ok := l.pl.(*payload.InvokeCode)
			p := h.pls[l.pl]
			if !ok || len(p.code) == 0 {
				return false
			}
			n := h.rng.Intn(len(p.code))
			if h.rng.Chance(60) {
				n = len(p.code) - 1
			}
			h.logf("obj%d.Payload.(*InvokeCode).Code = Code[:%d]", l.id, n)
			h.inplace(l.pl)
			ic.Code = ic.Code[:n]
			p.code = p.code[:n]
			h.markPayload(l.pl, "inplace")
			return true
		}},
		{"invoke-redeserialize", 3, func(h *hist, l *liveTx) bool {
			ic, ok := l.pl.(*payload.InvokeCode)
			if !ok {
				return false
			}
			p := h.pls[l.pl]
			np := &plModel{code: hRandCode(h.rng, 0)}
			if np.equal(p) {
				return false
			}
			w := np.wire()
			h.logf("obj%d.Payload.(*InvokeCode).Deserialization(%x)", l.id, w)
			var err error
			if pn := vf.Catch(func() { err = ic.Deserialization(common.NewZeroCopySource(clone(w))) }); pn != nil || err != nil {
				h.violation("payload-redeserialize-failed:invoke", fmt.Sprintf("canonical payload bytes not accepted: panic=%v err=%v", pn, err), map[string]interface{}{"payload": vf.Hex(w)})
				return true
			}
			h.inplace(l.pl)
			*p = *np
			h.markPayload(l.pl, "inplace")
			return true
		}},
		// ---- payload edited in place: DeployCode
		{"deploy-string", 10, func(h *hist, l *liveTx) bool {
			dc, ok := l.pl.(*payload.DeployCode)
			if !ok {
				return false
			}
			p := h.pls[l.pl]
			k := h.rng.Intn(5)
			old := p.strs[k]
			v := old
			switch h.rng.Intn(4) {
			case 0:
				v += string(rune('a' + h.rng.Intn(26)))
			case 1:
				if len(old) > 0 { // same length, one other character
					b := []byte(old)
					b[h.rng.Intn(len(b))] ^= byte(1 + h.rng.Intn(15))
					v = string(b)
				}
			case 2:
				v = hRandStr(h.rng, 12)
			default:
				if len(old) > 0 {
					v = old[:len(old)-1]
				}
			}
			if k == 4 && h.rng.Chance(4) {
				v = string(h.rng.Bytes(0xfd + h.rng.Intn(30)))
			}
			if v == old || len(v) > 252 && k < 4 {
				return false
			}
			field := []string{"Name", "Version", "Author", "Email", "Description"}[k]
			h.logf("obj%d.Payload.(*DeployCode).%s = %q", l.id, field, v)
			h.inplace(l.pl)
			*strField(dc, k) = v
			p.strs[k] = v
			h.t.inc("hist_deploy_string_" + strNames[k])
			h.markPayload(l.pl, "inplace")
			return true
		}},
		{"deploy-string-swap", 2, func(h *hist, l *liveTx) bool {
			dc, ok := l.pl.(*payload.DeployCode)
			if !ok {
				return false
			}
			p := h.pls[l.pl]
			i := h.rng.Intn(4) // two of the four short fields
			j := (i + 1 + h.rng.Intn(3)) % 4
			if p.strs[i] == p.strs[j] {
				return false
			}
			fields := []string{"Name", "Version", "Author", "Email"}
			h.logf("obj%d.Payload.(*DeployCode): swap %s and %s", l.id, fields[i], fields[j])
			h.inplace(l.pl)
			a, b := strField(dc, i), strField(dc, j)
			*a, *b = *b, *a
			p.strs[i], p.strs[j] = p.strs[j], p.strs[i]
			h.markPayload(l.pl, "inplace")
			return true
		}},
		{"deploy-code-byte", 5, func(h *hist, l *liveTx) bool {
			dc, ok := l.pl.(*payload.DeployCode)
			p := h.pls[l.pl]
			if !ok || len(p.code) == 0 {
				return false
			}
			i, x := h.rng.Intn(len(p.code)), byte(1<<uint(h.rng.Intn(8)))
			h.logf("obj%d.Payload.(*DeployCode).GetRawCode()[%d] ^= %#x", l.id, i, x)
			h.inplace(l.pl)
			dc.GetRawCode()[i] ^= x
			p.code[i] ^= x
			h.markPayload(l.pl, "inplace")
			return true
		}},
		{"deploy-redeserialize", 4, func(h *hist, l *liveTx) bool {
			dc, ok := l.pl.(*payload.DeployCode)
			if !ok {
				return false
			}
			p := h.pls[l.pl]
			np := hRandDeploy(h.rng)
			switch h.rng.Intn(3) {
			case 0: // only the code
				np.vmFlags, np.strs = p.vmFlags, p.strs
			case 1: // only the vm flags
				np.code, np.strs = clone(p.code), p.strs
			}
			if np.equal(p) {
				return false
			}
			w := np.wire()
			h.logf("obj%d.Payload.(*DeployCode).Deserialization(%x)", l.id, w)
			var err error
			if pn := vf.Catch(func() { err = dc.Deserialization(common.NewZeroCopySource(clone(w))) }); pn != nil || err != nil {
				h.violation("payload-redeserialize-failed:deploy", fmt.Sprintf("canonical payload bytes not accepted: panic=%v err=%v", pn, err), map[string]interface{}{"payload": vf.Hex(w)})
				return true
			}
			if np.vmFlags != p.vmFlags {
				h.t.inc(fmt.Sprintf("hist_deploy_vmflags_%d_to_%d", p.vmFlags, np.vmFlags))
			}
			h.inplace(l.pl)
			*p = *np
			h.markPayload(l.pl, "inplace")
			return true
		}},
		{"payload-undo-inplace", 5, func(h *hist, l *liveTx) bool {
			prev, ok := h.prev[l.pl]
			p := h.pls[l.pl]
			if !ok || prev.equal(p) {
				return false
			}
			switch v := l.pl.(type) {
			case *payload.InvokeCode:
				h.logf("obj%d.Payload.(*InvokeCode).Code = %x (as before the last in-place edit)", l.id, prev.code)
				v.Code = clone(prev.code)
			case *payload.DeployCode:
				w := prev.wire()
				h.logf("obj%d.Payload.(*DeployCode).Deserialization(%x) (as before the last in-place edit)", l.id, w)
				var err error
				if pn := vf.Catch(func() { err = v.Deserialization(common.NewZeroCopySource(clone(w))) }); pn != nil || err != nil {
					h.violation("payload-redeserialize-failed:deploy", fmt.Sprintf("canonical payload bytes not accepted: panic=%v err=%v", pn, err), map[string]interface{}{"payload": vf.Hex(w)})
					return true
				}
			}
			now := p.copy()
			*p = *prev.copy()
			h.prev[l.pl] = now
			h.markPayload(l.pl, "inplace")
			return true
		}},
		// ---- payload object replaced
		{"payload-new-invoke", 3, func(h *hist, l *liveTx) bool {
			p := &plModel{code: hRandCode(h.rng, 0)}
			pl, _ := p.fresh()
			ty := l.h.txType
			if ty == types.Deploy {
				ty = invokeType(h.rng)
			}
			h.logf("obj%d.Payload = &InvokeCode{Code: %x}; TxType = %#x", l.id, p.code, byte(ty))
			h.install(pl, p)
			l.m.Payload, l.pl = pl, pl
			l.m.TxType, l.h.txType = ty, ty
			h.mark(l, "replace")
			return true
		}},
		{"payload-new-deploy", 3, func(h *hist, l *liveTx) bool {
			p := hRandDeploy(h.rng)
			pl, err := p.fresh()
			if err != nil {
				return false
			}
			h.logf("obj%d.Payload = NewDeployCode(%x, %d, %q); TxType = 0xd0", l.id, p.code, p.vmFlags, p.strs)
			h.install(pl, p)
			l.m.Payload, l.pl = pl, pl
			l.m.TxType, l.h.txType = types.Deploy, types.Deploy
			h.mark(l, "replace")
			return true
		}},
		{"payload-same-content-new-object", 3, func(h *hist, l *liveTx) bool {
			p := h.pls[l.pl].copy()
			pl, err := p.fresh()
			if err != nil {
				return false
			}
			h.logf("obj%d.Payload = a new %s payload object with the same content", l.id, p.kind())
			h.install(pl, p)
			l.m.Payload, l.pl = pl, pl
			h.mark(l, "repoint")
			return true
		}},
		{"payload-earlier-pointer", 3, func(h *hist, l *liveTx) bool {
			if len(h.ptrs) < 2 {
				return false
			}
			pl := h.ptrs[h.rng.Intn(len(h.ptrs))]
			if pl == l.pl {
				return false
			}
			p := h.pls[pl]
			ty := l.h.txType
			if p.deploy {
				ty = types.Deploy
			} else if ty == types.Deploy {
				ty = invokeType(h.rng)
			}
			h.logf("obj%d.Payload = an earlier %s payload object (now %x); TxType = %#x", l.id, p.kind(), p.wire(), byte(ty))
			l.m.Payload, l.pl = pl, pl
			l.m.TxType, l.h.txType = ty, ty
			h.mark(l, "replace")
			return true
		}},
		// ---- more objects
		{"struct-copy", 3, func(h *hist, l *liveTx) bool {
			c := *l.m
			c.Sigs = append([]types.Sig(nil), l.m.Sigs...)
			n := h.addLive(&c, l.h, l.pl)
			for k := range l.since {
				n.since[k] = true
			}
			n.have, n.lastH, n.lastC = l.have, l.lastH, l.lastC
			h.logf("obj%d := copy of the struct obj%d (same payload pointer)", n.id, l.id)
			return true
		}},
		{"from-immutable", 3, func(h *hist, l *liveTx) bool {
			var s *snap
			for _, c := range h.snaps {
				if !c.retired && (s == nil || h.rng.Bool()) {
					s = c
				}
			}
			if s == nil {
				return false
			}
			tx := s.tx
			via := "IntoMutable() of the immutable of step"
			if h.rng.Bool() {
				via = "IntoMutable() of TransactionFromRawBytes(bytes) of the immutable of step"
				var err error
				if pn := vf.Catch(func() { tx, err = types.TransactionFromRawBytes(clone(s.raw)) }); pn != nil || err != nil {
					h.violation("immutable-bytes-rejected:"+s.pl.kind(), fmt.Sprintf("bytes of an immutable transaction are not accepted: panic=%v err=%v", pn, err), map[string]interface{}{"bytes": vf.HexTrunc(s.raw, 4096)})
					return true
				}
				if tx.Hash() != s.hash {
					h.violation("decoded-hash-differs:"+s.pl.kind(), "the decoded bytes of an immutable transaction hash differently", map[string]interface{}{"bytes": vf.HexTrunc(s.raw, 4096)})
					return true
				}
			} else {
				s.retired = true
			}
			var m *types.MutableTransaction
			var err error
			if pn := vf.Catch(func() { m, err = tx.IntoMutable() }); pn != nil {
				h.violation("panic:IntoMutable", fmt.Sprint(pn), map[string]interface{}{"bytes": vf.HexTrunc(s.raw, 4096)})
				return true
			}
			if err != nil {
				h.t.inc("hist_into_mutable_refused") // signature sets that are no parameter programs: outside the statement
				return false
			}
			if len(m.Sigs) != s.nsigs {
				h.violation("into-mutable-signature-count", "IntoMutable changes the number of signature sets", map[string]interface{}{"bytes": vf.HexTrunc(s.raw, 4096)})
				return true
			}
			h.install(m.Payload, s.pl.copy())
			n := h.addLive(m, s.h, m.Payload)
			h.logf("obj%d := %s %d", n.id, via, s.step)
			// the decoded object itself reported s.hash for exactly this content
			n.have, n.lastH, n.lastC = true, s.hash, s.hash
			return true
		}},
		{"reused-transaction-decode", 4, func(h *hist, l *liveTx) bool {
			var raw []byte
			var want common.Uint256
			what := ""
			switch c := h.rng.Intn(10); {
			case c < 5 && len(h.snaps) > 0:
				s := h.snaps[h.rng.Intn(len(h.snaps))]
				raw, want, what = s.raw, s.hash, "ontology"
			case c < 8 && len(h.eips) > 0:
				e := h.eips[h.rng.Intn(len(h.eips))]
				raw, want, what = e.raw, e.hash, "eip155"
			case len(h.snaps) > 0:
				s := h.snaps[h.rng.Intn(len(h.snaps))]
				raw, what = s.raw[:h.rng.Intn(len(s.raw))], "truncated"
			default:
				return false
			}
			h.logf("tx.Deserialization(%x) on the one re-used Transaction object", raw)
			var err error
			if pn := vf.Catch(func() { err = h.scratch.Deserialization(common.NewZeroCopySource(clone(raw))) }); pn != nil {
				h.violation("panic:Deserialization-on-used-object:"+what, fmt.Sprint(pn), map[string]interface{}{"bytes": vf.HexTrunc(raw, 4096)})
				return true
			}
			h.t.inc("hist_reused_transaction_decode_" + what)
			if what == "truncated" {
				if err == nil {
					h.violation("truncation-accepted:used-object", "a proper prefix of a valid transaction is accepted", map[string]interface{}{"bytes": vf.HexTrunc(raw, 4096)})
				}
				return true
			}
			if err != nil {
				h.violation("valid-rejected:used-object:"+what, "valid transaction bytes are rejected by a Transaction object that decoded something before: "+err.Error(), map[string]interface{}{"bytes": vf.HexTrunc(raw, 4096)})
				return true
			}
			var out []byte
			var got common.Uint256
			if pn := vf.Catch(func() { out = h.scratch.ToArray(); got = h.scratch.Hash() }); pn != nil {
				h.violation("panic:ToArray-on-used-object:"+what, fmt.Sprint(pn), map[string]interface{}{"bytes": vf.HexTrunc(raw, 4096)})
				return true
			}
			if got != want || !bytes.Equal(out, raw) {
				h.violation("used-object-reports-earlier-transaction:"+what, "a Transaction object that decoded something before reports other bytes or another hash than what it decoded last",
					map[string]interface{}{"bytes": vf.HexTrunc(raw, 4096), "reported": got.ToHexString(), "want": want.ToHexString(), "reencoded": vf.HexTrunc(out, 4096), "reported_is_content_of_step": h.stepOf(got)})
			}
			return true
		}},
	}
}

// ---------------------------------------------------------------- one history

func historyCase(i int, rng *vf.RNG, eips []eipSample) {
	h := &hist{idx: i, rng: rng, t: tally{}, pls: map[types.Payload]*plModel{}, seen: map[common.Uint256]int{}, left: map[common.Uint256]bool{}, prev: map[types.Payload]*plModel{}, scratch: new(types.Transaction), eips: eips}
	defer h.t.flush()

	// the primary object
	var m *types.MutableTransaction
	start := ""
	switch i % 8 {
	case 0:
		start, m = "transfer", txgen.NewTransfer(rng, txgen.PickLight(rng).Address())
	case 1:
		start, m = "invoke-neo", txgen.NewInvoke(rng, false)
	case 2:
		start, m = "invoke-wasm", txgen.NewInvoke(rng, true)
	case 3:
		start, m = "deploy-neo0", txgen.NewDeploy(rng, 0)
	case 4:
		start, m = "deploy-neo1", txgen.NewDeploy(rng, 1)
	case 5:
		start, m = "deploy-wasm", txgen.NewDeploy(rng, 3)
	default: // a signed transaction decoded from its bytes and made mutable again
		tx, _, err := txgen.Shaped(rng, chainID, rng.Intn(6))
		if err == nil {
			tx, err = types.TransactionFromRawBytes(clone(tx.ToArray()))
		}
		if err == nil {
			m, err = tx.IntoMutable()
		}
		if err != nil {
			r.Inconclusive("history: generator failed: " + err.Error())
			return
		}
		start = "decoded"
	}
	if start != "decoded" {
		m.Payer = txgen.PickLight(rng).Address()
	}
	pm, err := readPayload(m.Payload)
	if err != nil {
		h.t.inc("fields_unreadable")
		return
	}
	h.install(m.Payload, pm)
	l0 := h.addLive(m, hdrOfMutable(m), m.Payload)
	h.logf("obj0 := MutableTransaction{Version:%d TxType:%#x Nonce:%d GasPrice:%d GasLimit:%d Payer:%x Payload(%s):%x Sigs:%d} (%s)",
		m.Version, byte(m.TxType), m.Nonce, m.GasPrice, m.GasLimit, m.Payer[:], pm.kind(), pm.wire(), len(m.Sigs), start)
	h.t.inc("hist_start_" + start)
	h.noteContents()

	total := 0
	for _, s := range histSteps {
		total += s.weight
	}
	nsteps := 12 + rng.Intn(36)
	for n := 0; n < nsteps && !h.bad; n++ {
		l := l0
		if len(h.lives) > 1 && rng.Chance(35) {
			l = h.lives[rng.Intn(len(h.lives))]
		}
		if !l.valid() && rng.Chance(45) { // do not stay unserializable for long
			h.logf("obj%d.Version = 0", l.id)
			l.m.Version, l.h.version = 0, 0
			h.mark(l, "scalar")
			h.t.inc("hist_step_version-restore")
		} else {
			var st *stepFn
			for try := 0; try < 20 && st == nil; try++ {
				w := rng.Intn(total)
				for k := range histSteps {
					if w -= histSteps[k].weight; w < 0 {
						before := len(h.log)
						if histSteps[k].run(h, l) {
							st = &histSteps[k]
						} else {
							h.log = h.log[:before]
						}
						break
					}
				}
			}
			if st == nil {
				continue
			}
			h.t.inc("hist_step_" + st.name)
		}
		if h.bad {
			break
		}
		h.noteContents()
		// is the step followed by a report?  (not always: stale state may have to survive several steps)
		if rng.Chance(45) {
			q := l
			if len(h.lives) > 1 && rng.Chance(30) {
				q = h.lives[rng.Intn(len(h.lives))] // possibly an object that merely shares the payload
				if q != l && q.pl == l.pl {
					h.t.inc("hist_report_by_object_sharing_the_payload")
				}
			}
			if rng.Chance(75) {
				h.logf("obj%d.Hash()", q.id)
				h.askHash(q)
			} else {
				h.logf("obj%d.IntoImmutable(); ToArray(); Hash()", q.id)
				h.askImmutable(q)
			}
		}
		if !h.bad && rng.Chance(15) {
			h.checkSnaps()
		}
	}
	// closing: every live object reports through both APIs, every immutable is unchanged
	for _, l := range h.lives {
		if h.bad {
			break
		}
		if !l.valid() {
			h.logf("obj%d.Version = 0", l.id)
			l.m.Version, l.h.version = 0, 0
			h.mark(l, "scalar")
		}
		h.logf("obj%d.Hash(); obj%d.IntoImmutable(); ToArray(); Hash()", l.id, l.id)
		if _, ok := h.askHash(l); ok {
			h.askImmutable(l)
		}
	}
	if !h.bad {
		h.checkSnaps()
	}
	r.Eval(fp("history", []byte(strings.Join(h.log, "\n"))))
	h.t.inc("hist_histories")
	if i < 2 {
		r.Sample(map[string]interface{}{"history": i, "steps": h.log})
	}
}

func runHistories(rng *vf.RNG, workers int) {
	var eips []eipSample
	for i := 0; i < 8; i++ {
		tx, _, err := txgen.Shaped(rng.Sub(1<<32+uint64(i)), chainID, 6+i%2)
		if err != nil {
			r.Inconclusive("history: generator failed: " + err.Error())
			continue
		}
		raw := clone(tx.ToArray())
		rl := eipRLP(raw)
		if rl == nil {
			r.Inconclusive("history: cannot locate the RLP of a generated EIP-155 transaction")
			continue
		}
		var kh common.Uint256
		copy(kh[:], ethcrypto.Keccak256(rl))
		eips = append(eips, eipSample{raw, kh})
	}
	n := vf.N(5000, 50000)
	vf.Parallel(n, workers, func(i int) { historyCase(i, rng.Sub(uint64(i)), eips) })
}

// requireHistories: a run in which a class of step or of report did not occur is inconclusive.
func requireHistories() {
	n := int64(vf.N(5000, 50000))
	r.Require("hist_histories", n)
	for _, s := range []string{"transfer", "invoke-neo", "invoke-wasm", "deploy-neo0", "deploy-neo1", "deploy-wasm", "decoded"} {
		r.Require("hist_start_"+s, n/10)
	}
	for _, s := range histSteps {
		r.Require("hist_step_"+s.name, 50)
	}
	r.Require("hist_step_version-restore", 50)
	for _, s := range strNames {
		r.Require("hist_deploy_string_"+s, 50)
	}
	for _, s := range []string{"Hash", "IntoImmutable", "invoke", "deploy",
		"after_none", "after_sig", "after_scalar", "after_inplace", "after_replace", "after_repoint", "after_inplace+sig", "after_inplace+scalar", "after_inplace+replace"} {
		r.Require("hist_report_"+s, 100)
	}
	r.Require("hist_fresh_object_compared", 10*n)
	r.Require("hist_same_content_reports_compared", n)
	r.Require("hist_signature_only_reports_compared", n/4)
	r.Require("hist_report_for_content_returned_to", 50)
	r.Require("hist_report_for_content_returned_to_in_place", 50)
	r.Require("hist_report_in_unserializable_state", 50)
	r.Require("hist_unserializable_state_rejected", 20)
	r.Require("hist_immutable_serialization_checked", 2*n)
	r.Require("hist_snapshot_rechecked", 2*n)
	r.Require("hist_inplace_edit_of_shared_payload", 100)
	r.Require("hist_report_by_object_sharing_the_payload", 100)
	r.Require("hist_deploy_vmflags_0_to_1", 5)
	r.Require("hist_deploy_vmflags_1_to_0", 5)
	for _, s := range []string{"ontology", "eip155", "truncated"} {
		r.Require("hist_reused_transaction_decode_"+s, 50)
	}
}
