// C19 — Transaction encoding is canonical and its hash binds the signed content.
//
// Every input (valid transaction, mutant, random string) is pushed through both decoders of
// the real code, TransactionFromRawBytes(b) and Transaction.Deserialization(source(b)), and
// judged by one oracle (judge):
//   - no panic; len(b) > MAX_TX_SIZE is rejected by TransactionFromRawBytes and a consumed
//     length > MAX_TX_SIZE is rejected by Deserialization; both paths agree on accept/reject;
//   - accepted => ToArray() == b[:consumed] on both paths and the same hash on both;
//   - accepted => the *decoded fields*, re-encoded by this monitor's own canonical encoder
//     (Ontology wire format / RLP), give exactly b[:consumed]: a second, irregular encoding
//     of the same fields can therefore not be accepted;
//   - Ontology format: Hash() == sha256(sha256(unsigned prefix)), SigHashForChain(0) == Hash(),
//     and the unsigned fields re-encoded through MutableTransaction.IntoImmutable (no
//     signatures) give the unsigned prefix and the same hash;
//   - EIP-155: Hash() == keccak256(rlp) == eiptx.Hash(), payer == sender recovered by this
//     monitor (own signing-hash + Ecrecover), SigHashForChain(chain) == that signing hash,
//     Nonce/GasPrice(GWei)/GasLimit mirror the RLP fields exactly.
//
// On top of that, for generated transactions: replacing/adding/removing signature sets
// through MutableTransaction keeps the hash, changing any unsigned field changes it, a byte
// flip inside the unsigned prefix that is still accepted changes the hash and one behind it
// does not, truncations are never accepted, appended bytes are not consumed.
//
// history.go adds histories of steps on live transaction objects (the hash a MutableTransaction
// or Transaction reports after sequences of edits, signing steps and conversions).
package main

import (
	"bytes"
	"crypto/sha256"
	"encoding/binary"
	"fmt"
	"hash/fnv"
	"math"
	"math/big"
	"reflect"
	"runtime"
	"sync"

	ethtypes "github.com/ethereum/go-ethereum/core/types"
	ethcrypto "github.com/ethereum/go-ethereum/crypto"
	"github.com/ethereum/go-ethereum/rlp"
	"github.com/ontio/ontology/common"
	"github.com/ontio/ontology/common/config"
	"github.com/ontio/ontology/common/constants"
	"github.com/ontio/ontology/core/payload"
	"github.com/ontio/ontology/core/types"
	"verifharness/lib/txgen"
	"verifharness/lib/vf"
)

const chainID = 5851

var r *vf.Run

// ---------------------------------------------------------------- tallies (cheap counters)

type tally map[string]int64

func (t tally) inc(k string) { t[k]++ }
func (t tally) flush() {
	for k, v := range t {
		r.Add(k, v)
	}
}

func fp(fam string, b []byte) string {
	h := fnv.New64a()
	h.Write(b)
	return fmt.Sprintf("%s/%016x", fam, h.Sum64())
}

func witness(in []byte, extra map[string]interface{}) map[string]interface{} {
	w := map[string]interface{}{"input_len": len(in)}
	if len(in) <= 8192 {
		w["input"] = vf.Hex(in)
	} else {
		w["input_head"] = vf.Hex(in[:256])
		w["input_tail"] = vf.Hex(in[len(in)-64:])
	}
	for k, v := range extra {
		w[k] = v
	}
	return w
}

func clone(b []byte) []byte { return append([]byte(nil), b...) }

// ---------------------------------------------------------------- own Ontology wire encoder

func varuint(v uint64) []byte {
	switch {
	case v < 0xfd:
		return []byte{byte(v)}
	case v <= 0xffff:
		return []byte{0xfd, byte(v), byte(v >> 8)}
	case v <= 0xffffffff:
		b := make([]byte, 5)
		b[0] = 0xfe
		binary.LittleEndian.PutUint32(b[1:], uint32(v))
		return b
	default:
		b := make([]byte, 9)
		b[0] = 0xff
		binary.LittleEndian.PutUint64(b[1:], v)
		return b
	}
}

type lenField struct {
	name string
	off  int // offset of the varuint in the encoding
	size int // its byte length
	val  uint64
}

type ontFields struct {
	version, txType    byte
	nonce              uint32
	gasPrice, gasLimit uint64
	payer              common.Address
	deploy             bool
	code               []byte
	vmFlags            byte
	strs               [5]string // name, version, author, email, description
	sigs               [][2][]byte
}

type layout struct {
	unsignedLen int
	attrOff     int
	lens        []lenField
}

var strNames = [5]string{"name", "version", "author", "email", "description"}

func (f *ontFields) encode() ([]byte, layout) {
	var b bytes.Buffer
	var l layout
	vb := func(name string, d []byte) {
		p := varuint(uint64(len(d)))
		l.lens = append(l.lens, lenField{name, b.Len(), len(p), uint64(len(d))})
		b.Write(p)
		b.Write(d)
	}
	b.WriteByte(f.version)
	b.WriteByte(f.txType)
	var u4 [4]byte
	var u8 [8]byte
	binary.LittleEndian.PutUint32(u4[:], f.nonce)
	b.Write(u4[:])
	binary.LittleEndian.PutUint64(u8[:], f.gasPrice)
	b.Write(u8[:])
	binary.LittleEndian.PutUint64(u8[:], f.gasLimit)
	b.Write(u8[:])
	b.Write(f.payer[:])
	vb("code", f.code)
	if f.deploy {
		b.WriteByte(f.vmFlags)
		for i, s := range f.strs {
			vb(strNames[i], []byte(s))
		}
	}
	l.attrOff = b.Len()
	l.lens = append(l.lens, lenField{"attributes", b.Len(), 1, 0})
	b.WriteByte(0)
	l.unsignedLen = b.Len()
	p := varuint(uint64(len(f.sigs)))
	l.lens = append(l.lens, lenField{"sigcount", b.Len(), len(p), uint64(len(f.sigs))})
	b.Write(p)
	for _, s := range f.sigs {
		vb("sig-invoke", s[0])
		vb("sig-verify", s[1])
	}
	return b.Bytes(), l
}

var vmFlagsReadable = true

func fieldsOf(tx *types.Transaction) (*ontFields, error) {
	f := &ontFields{version: tx.Version, txType: byte(tx.TxType), nonce: tx.Nonce, gasPrice: tx.GasPrice, gasLimit: tx.GasLimit, payer: tx.Payer}
	switch pl := tx.Payload.(type) {
	case *payload.InvokeCode:
		f.code = pl.Code
	case *payload.DeployCode:
		f.deploy = true
		f.code = pl.GetRawCode()
		v := reflect.ValueOf(pl).Elem().FieldByName("vmFlags")
		if !v.IsValid() || v.Kind() != reflect.Uint8 {
			vmFlagsReadable = false
			return nil, fmt.Errorf("DeployCode.vmFlags not readable")
		}
		f.vmFlags = byte(v.Uint())
		f.strs = [5]string{pl.Name, pl.Version, pl.Author, pl.Email, pl.Description}
	default:
		return nil, fmt.Errorf("unexpected payload type %T", tx.Payload)
	}
	for _, s := range tx.Sigs {
		f.sigs = append(f.sigs, [2][]byte{s.Invoke, s.Verify})
	}
	return f, nil
}

func dsha(b []byte) common.Uint256 {
	a := sha256.Sum256(b)
	return sha256.Sum256(a[:])
}

// ---------------------------------------------------------------- own RLP

func rlpHdr(n int, short byte) []byte { // short = 0x80 (string) or 0xc0 (list)
	if n < 56 {
		return []byte{short + byte(n)}
	}
	var lb []byte
	for v := n; v > 0; v >>= 8 {
		lb = append([]byte{byte(v)}, lb...)
	}
	return append([]byte{short + 55 + byte(len(lb))}, lb...)
}

func rlpStr(d []byte) []byte {
	if len(d) == 1 && d[0] < 0x80 {
		return []byte{d[0]}
	}
	return append(rlpHdr(len(d), 0x80), d...)
}

func rlpInt(v *big.Int) []byte { return rlpStr(v.Bytes()) }

func rlpList(items ...[]byte) []byte {
	body := bytes.Join(items, nil)
	return append(rlpHdr(len(body), 0xc0), body...)
}

// rlpSplit splits one canonical RLP list into the raw encodings and contents of its items.
func rlpSplit(b []byte) (raw, content [][]byte, ok bool) {
	hdr := func(b []byte) (off, n int, list, ok bool) {
		if len(b) == 0 {
			return 0, 0, false, false
		}
		c := b[0]
		switch {
		case c < 0x80:
			return 0, 1, false, true
		case c < 0xb8:
			return 1, int(c - 0x80), false, true
		case c < 0xc0:
			ll := int(c - 0xb7)
			if len(b) < 1+ll {
				return 0, 0, false, false
			}
			n := 0
			for _, x := range b[1 : 1+ll] {
				n = n<<8 | int(x)
			}
			return 1 + ll, n, false, true
		case c < 0xf8:
			return 1, int(c - 0xc0), true, true
		default:
			ll := int(c - 0xf7)
			if len(b) < 1+ll {
				return 0, 0, true, false
			}
			n := 0
			for _, x := range b[1 : 1+ll] {
				n = n<<8 | int(x)
			}
			return 1 + ll, n, true, true
		}
	}
	off, n, list, ok := hdr(b)
	if !ok || !list || off+n != len(b) {
		return nil, nil, false
	}
	body := b[off:]
	for len(body) > 0 {
		o, m, _, ok := hdr(body)
		if !ok || o+m > len(body) {
			return nil, nil, false
		}
		raw = append(raw, body[:o+m])
		content = append(content, body[o:o+m])
		body = body[o+m:]
	}
	return raw, content, true
}

// eipRLP returns the RLP part of version|type|varbytes(rlp) (minimal prefix), nil when it does not fit.
func eipRLP(b []byte) []byte {
	for _, ps := range []int{1, 3, 5, 9} {
		if 2+ps <= len(b) && bytes.Equal(varuint(uint64(len(b)-2-ps)), b[2:2+ps]) {
			return b[2+ps:]
		}
	}
	return nil
}

func wrapEIP(rlpBytes []byte) []byte {
	out := []byte{0, byte(types.EIP155)}
	out = append(out, varuint(uint64(len(rlpBytes)))...)
	return append(out, rlpBytes...)
}

func ethFields(etx *ethtypes.Transaction) (items [][]byte, v, rr, s *big.Int) {
	v, rr, s = etx.RawSignatureValues()
	var to []byte
	if t := etx.To(); t != nil {
		to = t[:]
	}
	items = [][]byte{rlpInt(new(big.Int).SetUint64(etx.Nonce())), rlpInt(etx.GasPrice()), rlpInt(new(big.Int).SetUint64(etx.Gas())), rlpStr(to), rlpInt(etx.Value()), rlpStr(etx.Data())}
	return
}

// ownSender recomputes signing hash and sender from the decoded fields without go-ethereum's signer.
func ownSender(etx *ethtypes.Transaction) (sigHash []byte, chain *big.Int, sender common.Address, err error) {
	items, v, rr, s := ethFields(etx)
	var recid *big.Int
	if v.Cmp(big.NewInt(27)) == 0 || v.Cmp(big.NewInt(28)) == 0 {
		chain = new(big.Int)
		recid = new(big.Int).Sub(v, big.NewInt(27))
		sigHash = ethcrypto.Keccak256(rlpList(items...))
	} else {
		chain = new(big.Int).Sub(v, big.NewInt(35))
		if chain.Sign() < 0 {
			return nil, nil, sender, fmt.Errorf("v=%v is neither 27/28 nor EIP-155", v)
		}
		recid = new(big.Int).And(chain, big.NewInt(1))
		chain.Rsh(chain, 1)
		sigHash = ethcrypto.Keccak256(rlpList(append(items, rlpInt(chain), rlpInt(new(big.Int)), rlpInt(new(big.Int)))...))
	}
	if rr.BitLen() > 256 || s.BitLen() > 256 {
		return sigHash, chain, sender, fmt.Errorf("r/s longer than 256 bits")
	}
	sig := make([]byte, 65)
	rr.FillBytes(sig[:32])
	s.FillBytes(sig[32:64])
	sig[64] = byte(recid.Uint64())
	pub, e := ethcrypto.Ecrecover(sigHash, sig)
	if e != nil {
		return sigHash, chain, sender, e
	}
	copy(sender[:], ethcrypto.Keccak256(pub[1:])[12:])
	return sigHash, chain, sender, nil
}

// ---------------------------------------------------------------- the oracle

func format(tx *types.Transaction) string {
	switch tx.TxType {
	case types.InvokeNeo:
		return "invoke-neo"
	case types.InvokeWasm:
		return "invoke-wasm"
	case types.Deploy:
		return "deploy"
	case types.EIP155:
		return "eip155"
	}
	return fmt.Sprintf("type-%02x", byte(tx.TxType))
}

type accepted struct {
	tx       *types.Transaction
	consumed int
	unsigned int // Ontology format: length of the unsigned prefix
	lay      layout
	fields   *ontFields
}

// judge runs one input through both decoders and applies the whole oracle.  fam names the
// workload family (it becomes part of the violation key).  Returns nil when rejected.
func judge(in []byte, fam string, t tally) *accepted {
	viol := func(clause, what string, extra map[string]interface{}) {
		r.Violation(clause+":"+fam, what, witness(in, extra))
	}
	src := common.NewZeroCopySource(clone(in))
	tx := new(types.Transaction)
	var err, err1 error
	var tx1 *types.Transaction
	if p := vf.Catch(func() { err = tx.Deserialization(src) }); p != nil {
		viol("panic:Deserialization", fmt.Sprint(p), nil)
		return nil
	}
	if p := vf.Catch(func() { tx1, err1 = types.TransactionFromRawBytes(clone(in)) }); p != nil {
		viol("panic:TransactionFromRawBytes", fmt.Sprint(p), nil)
		return nil
	}
	if len(in) > types.MAX_TX_SIZE {
		t.inc("input_above_max_size")
		if err1 == nil {
			viol("size:FromRawBytes-accepts-above-max", fmt.Sprintf("input of %d bytes accepted", len(in)), nil)
		}
	} else if (err == nil) != (err1 == nil) {
		viol("paths-disagree", fmt.Sprintf("Deserialization err=%v, TransactionFromRawBytes err=%v", err, err1), nil)
	}
	if err != nil {
		t.inc("rejected")
		return nil
	}
	t.inc("accepted")
	pos := int(src.Pos())
	if pos > len(in) {
		viol("consumed-beyond-input", fmt.Sprintf("pos=%d len=%d", pos, len(in)), nil)
		return nil
	}
	consumed := in[:pos]
	form := format(tx)
	if pos > types.MAX_TX_SIZE {
		viol("size:Deserialization-accepts-above-max:"+form, fmt.Sprintf("transaction of %d bytes accepted", pos), nil)
	}
	var out []byte
	if p := vf.Catch(func() { out = tx.ToArray() }); p != nil {
		viol("panic:ToArray:"+form, fmt.Sprint(p), nil)
		return nil
	}
	if !bytes.Equal(out, consumed) {
		viol("roundtrip:"+form, "ToArray() differs from the consumed bytes", map[string]interface{}{"consumed": pos, "reencoded": vf.HexTrunc(out, 4096)})
	}
	if tx1 != nil {
		var out1 []byte
		if p := vf.Catch(func() { out1 = tx1.ToArray() }); p != nil {
			viol("panic:ToArray:"+form, fmt.Sprint(p), nil)
			return nil
		}
		if !bytes.Equal(out1, consumed) {
			viol("roundtrip-fromraw:"+form, "TransactionFromRawBytes(b).ToArray() differs from the consumed bytes", map[string]interface{}{"consumed": pos, "reencoded": vf.HexTrunc(out1, 4096)})
		}
		if tx1.Hash() != tx.Hash() {
			viol("hash:decode-twice-differs:"+form, "same bytes, two decodes, two hashes", nil)
		}
	}
	a := &accepted{tx: tx, consumed: pos}
	if tx.TxType == types.EIP155 {
		judgeEIP(tx, consumed, fam, viol, t)
	} else {
		judgeOnt(a, consumed, form, viol, t)
	}
	return a
}

func judgeOnt(a *accepted, consumed []byte, form string, viol func(string, string, map[string]interface{}), t tally) {
	tx := a.tx
	f, err := fieldsOf(tx)
	if err != nil {
		t.inc("fields_unreadable")
		return
	}
	enc, lay := f.encode()
	a.fields, a.lay, a.unsigned = f, lay, lay.unsignedLen
	t.inc("ont_field_reencode_checked")
	if !bytes.Equal(enc, consumed) {
		d := 0
		for d < len(enc) && d < len(consumed) && enc[d] == consumed[d] {
			d++
		}
		where := "signatures"
		if d < lay.unsignedLen {
			where = "unsigned"
		}
		viol("canonical:"+form+":"+where, "accepted bytes are not the canonical encoding of the decoded fields", map[string]interface{}{"canonical": vf.HexTrunc(enc, 4096), "first_difference_at": d})
		return
	}
	want := dsha(enc[:lay.unsignedLen])
	if tx.Hash() != want {
		viol("hash:not-double-sha256-of-unsigned-prefix:"+form, "Hash() is not sha256(sha256(unsigned prefix))", map[string]interface{}{"hash": tx.Hash().ToHexString(), "want": want.ToHexString(), "unsigned_len": lay.unsignedLen})
	}
	var sh common.Uint256
	if p := vf.Catch(func() { sh = tx.SigHashForChain(0) }); p != nil || sh != tx.Hash() {
		viol("hash:sighash0-differs:"+form, "SigHashForChain(0) != Hash()", nil)
	}
	// the unsigned fields through the real encoder (MutableTransaction) without any signature
	m := &types.MutableTransaction{Version: tx.Version, TxType: tx.TxType, Nonce: tx.Nonce, GasPrice: tx.GasPrice, GasLimit: tx.GasLimit, Payer: tx.Payer, Payload: tx.Payload}
	var imm *types.Transaction
	var e error
	if p := vf.Catch(func() { imm, e = m.IntoImmutable() }); p != nil {
		viol("panic:IntoImmutable:"+form, fmt.Sprint(p), nil)
		return
	}
	if e != nil {
		viol("mutable-reencode-rejected:"+form, "decoded unsigned fields do not re-encode through MutableTransaction: "+e.Error(), nil)
		return
	}
	t.inc("ont_mutable_unsigned_reencode_checked")
	if got := imm.ToArray(); !bytes.Equal(got, append(clone(enc[:lay.unsignedLen]), 0)) {
		viol("mutable-reencode-differs:"+form, "MutableTransaction encodes the decoded unsigned fields differently", map[string]interface{}{"mutable": vf.HexTrunc(got, 4096)})
	}
	if imm.Hash() != tx.Hash() {
		viol("hash:changes-without-signatures:"+form, "hash of the signature-less re-encoding differs", nil)
	}
}

func judgeEIP(tx *types.Transaction, consumed []byte, fam string, viol func(string, string, map[string]interface{}), t tally) {
	etx, err := tx.GetEIP155Tx()
	if err != nil || etx == nil {
		viol("eip:no-payload", "EIP155 transaction without go-ethereum payload", nil)
		return
	}
	t.inc("eip_accepted_checked")
	items, v, rr, s := ethFields(etx)
	own := wrapEIP(rlpList(append(items, rlpInt(v), rlpInt(rr), rlpInt(s))...))
	if !bytes.Equal(own, consumed) {
		d := 0
		for d < len(own) && d < len(consumed) && own[d] == consumed[d] {
			d++
		}
		viol("canonical:eip155", "accepted bytes are not the canonical encoding (version, type, minimal varbytes, canonical RLP) of the decoded fields", map[string]interface{}{"canonical": vf.HexTrunc(own, 4096), "first_difference_at": d})
		return
	}
	rl := eipRLP(consumed)
	if rl == nil {
		viol("canonical:eip155", "cannot locate the RLP inside the accepted bytes", nil)
		return
	}
	var kh common.Uint256
	copy(kh[:], ethcrypto.Keccak256(rl))
	if tx.Hash() != kh || common.Uint256(etx.Hash()) != kh {
		viol("hash:eip155-not-keccak-of-rlp", "Hash() is not keccak256 of the RLP bytes", map[string]interface{}{"hash": tx.Hash().ToHexString(), "want": kh.ToHexString()})
	}
	if tx.Version != 0 || uint64(tx.Nonce) != etx.Nonce() || etx.Nonce() > math.MaxUint32 || tx.GasLimit != etx.Gas() ||
		new(big.Int).Mul(new(big.Int).SetUint64(tx.GasPrice), big.NewInt(constants.GWei)).Cmp(etx.GasPrice()) != 0 {
		viol("eip:fields-do-not-mirror-rlp", "Nonce/GasPrice(GWei)/GasLimit differ from the RLP fields", map[string]interface{}{"nonce": tx.Nonce, "rlp_nonce": etx.Nonce(), "gasprice_gwei": tx.GasPrice, "rlp_gasprice_wei": etx.GasPrice().String(), "gaslimit": tx.GasLimit, "rlp_gas": etx.Gas()})
	}
	sigHash, chain, sender, e := ownSender(etx)
	if e != nil {
		viol("eip:accepted-with-unrecoverable-signature", "accepted, but the sender cannot be recovered: "+e.Error(), nil)
		return
	}
	t.inc("eip_sender_recovered")
	if sender != tx.Payer {
		viol("eip:payer-is-not-sender", "Payer differs from the recovered sender", map[string]interface{}{"payer": tx.Payer.ToHexString(), "sender": sender.ToHexString()})
	}
	if chain.IsUint64() && chain.Uint64() <= math.MaxUint32 && chain.Sign() > 0 {
		var sh common.Uint256
		if p := vf.Catch(func() { sh = tx.SigHashForChain(uint32(chain.Uint64())) }); p != nil || !bytes.Equal(sh[:], sigHash) {
			viol("eip:sighash-differs", "SigHashForChain(chain id) is not the EIP-155 signing hash", nil)
		}
		t.inc("eip_sighash_checked")
	}
	if v.Cmp(big.NewInt(28)) <= 0 {
		t.inc("eip_accepted_unprotected")
	} else if chain.Cmp(big.NewInt(chainID)) != 0 {
		t.inc("eip_accepted_foreign_chain")
	}
}

// ---------------------------------------------------------------- collision table

var (
	hashMu  sync.Mutex
	hashTab = map[common.Uint256]string{}
)

// noteHash records hash -> hashed content; two different contents under one hash is a violation.
func noteHash(h common.Uint256, content []byte, in []byte) {
	c := vf.Hex(content)
	hashMu.Lock()
	prev, ok := hashTab[h]
	if !ok {
		hashTab[h] = c
	}
	hashMu.Unlock()
	if ok && prev != c {
		r.Violation("hash:collision", "two different hashed contents have the same transaction hash", witness(in, map[string]interface{}{"other_content": prev, "hash": h.ToHexString()}))
	}
}

// ---------------------------------------------------------------- per base transaction

func positions(rng *vf.RNG, n int) []int {
	const cap = 2048
	if n <= cap {
		p := make([]int, n)
		for i := range p {
			p[i] = i
		}
		return p
	}
	seen := map[int]bool{}
	var p []int
	for i := 0; i < 96; i++ {
		seen[i] = true
		p = append(p, i)
	}
	for len(p) < cap {
		i := rng.Intn(n)
		if !seen[i] {
			seen[i] = true
			p = append(p, i)
		}
	}
	return p
}

var specialBytes = []byte{0x00, 0x01, 0xfd, 0xfe, 0xff, 0x80}

func baseCase(i int, rng *vf.RNG) {
	t := tally{}
	defer t.flush()
	shape := i % txgen.NumShapes
	tx, desc, err := txgen.Shaped(rng, chainID, shape)
	if err != nil {
		r.Inconclusive(fmt.Sprintf("generator failed for case %d: %v", i, err))
		return
	}
	b := tx.ToArray()
	if i < 4 {
		r.Sample(map[string]interface{}{"case": i, "shape": desc.Shape, "bytes": vf.HexTrunc(b, 400), "hash": tx.Hash().ToHexString(), "sigsets": len(tx.Sigs)})
	}
	r.Eval(fp("base", b))
	t.inc("base_" + desc.Shape)
	fam := "base"
	base := judge(b, fam, t)
	if base == nil {
		r.Violation("valid-rejected:"+desc.Shape, "a generated valid transaction is rejected by the decoder", witness(b, nil))
		return
	}
	if base.consumed != len(b) {
		r.Violation("valid-partially-consumed:"+desc.Shape, "decoder did not consume the whole transaction", witness(b, map[string]interface{}{"consumed": base.consumed}))
		return
	}
	baseHash := base.tx.Hash()
	isEIP := tx.TxType == types.EIP155

	mutate := func(fam string, m []byte, pos int) {
		r.Eval(fp(fam, m))
		t.inc("mut_" + fam)
		a := judge(m, fam, t)
		if a == nil {
			t.inc("mut_" + fam + "_rejected")
			return
		}
		t.inc("mut_" + fam + "_accepted")
		if pos < 0 {
			return
		}
		h := a.tx.Hash()
		switch {
		case isEIP:
			if h == baseHash {
				r.Violation("hash:eip155-different-bytes-same-hash:"+fam, "a different accepted encoding has the hash of the original", witness(m, map[string]interface{}{"original": vf.Hex(b), "position": pos}))
			}
		case pos < base.unsigned:
			t.inc("flip_in_unsigned_accepted")
			if h == baseHash {
				r.Violation("hash:unsigned-byte-not-covered:"+fam, "a change inside the unsigned prefix does not change the hash", witness(m, map[string]interface{}{"original": vf.Hex(b), "position": pos, "unsigned_len": base.unsigned}))
			}
		default:
			t.inc("flip_in_signatures_accepted")
			if h != baseHash {
				r.Violation("hash:signature-byte-covered:"+fam, "a change behind the unsigned prefix changes the hash", witness(m, map[string]interface{}{"original": vf.Hex(b), "position": pos, "unsigned_len": base.unsigned}))
			}
		}
	}

	// -- single byte flips / set-byte
	for _, p := range positions(rng, len(b)) {
		m := clone(b)
		m[p] ^= byte(1 << uint(rng.Intn(8)))
		mutate("flip", m, p)
		if vf.Thorough() || p < 64 {
			for _, v := range specialBytes {
				if v != b[p] && v != m[p] {
					m2 := clone(b)
					m2[p] = v
					mutate("setbyte", m2, p)
				}
			}
		}
	}
	// -- truncations: never accepted (the same leading bytes decoded to a longer transaction)
	for _, k := range positions(rng, len(b)) {
		m := clone(b[:k])
		r.Eval(fp("truncate", m))
		t.inc("mut_truncate")
		if a := judge(m, "truncate", t); a != nil {
			r.Violation("truncation-accepted:"+desc.Shape, "a proper prefix of a valid transaction is accepted", witness(m, map[string]interface{}{"original": vf.Hex(b)}))
		}
	}
	// -- appended bytes are not consumed
	for k := 0; k < 3; k++ {
		junk := rng.Bytes(1 + rng.Intn(64))
		if k == 2 {
			junk = clone(b)
		}
		m := append(clone(b), junk...)
		r.Eval(fp("append", m))
		t.inc("mut_append")
		a := judge(m, "append", t)
		if a == nil {
			t.inc("mut_append_rejected") // allowed by the statement (not required to accept)
			continue
		}
		if a.consumed != len(b) || a.tx.Hash() != baseHash {
			r.Violation("append:consumed-differs:"+desc.Shape, "with trailing bytes the decoder consumes a different transaction", witness(m, map[string]interface{}{"original_len": len(b), "consumed": a.consumed}))
		}
		t.inc("mut_append_prefix_consumed")
	}

	if isEIP {
		eipMutations(b, base, desc, rng, t, mutate)
		noteHash(baseHash, b, b)
		return
	}
	noteHash(baseHash, b[:base.unsigned], b)

	// -- non-minimal length prefixes at every length field
	for _, lf := range base.lay.lens {
		for _, form := range []int{3, 5, 9} {
			if form <= lf.size {
				continue
			}
			alt := make([]byte, form)
			switch form {
			case 3:
				alt[0] = 0xfd
				binary.LittleEndian.PutUint16(alt[1:], uint16(lf.val))
			case 5:
				alt[0] = 0xfe
				binary.LittleEndian.PutUint32(alt[1:], uint32(lf.val))
			default:
				alt[0] = 0xff
				binary.LittleEndian.PutUint64(alt[1:], lf.val)
			}
			m := append(append(clone(b[:lf.off]), alt...), b[lf.off+lf.size:]...)
			mutate("nonminimal-"+lf.name, m, -1)
		}
	}
	// -- attribute count != 0
	for _, v := range []byte{1, 2, byte(1 + rng.Intn(0xfc)), 0xfc} {
		m := clone(b)
		m[base.lay.attrOff] = v
		mutate("attributes-nonzero", m, -1)
		// with that many plausible one-byte attributes present
		m2 := append(append(clone(b[:base.lay.attrOff+1]), rng.Bytes(int(v))...), b[base.lay.attrOff+1:]...)
		m2[base.lay.attrOff] = v
		mutate("attributes-nonzero", m2, -1)
	}

	ontMutableChecks(tx, b, base, desc, rng, t)
}

func eipMutations(b []byte, base *accepted, desc txgen.Desc, rng *vf.RNG, t tally, mutate func(string, []byte, int)) {
	rl := eipRLP(b)
	if rl == nil {
		r.Inconclusive("cannot locate the varbytes prefix of a generated EIP-155 transaction")
		return
	}
	ps := len(b) - 2 - len(rl)
	etx, _ := base.tx.GetEIP155Tx()
	if ref, err := rlp.EncodeToBytes(etx); err != nil || !bytes.Equal(ref, rl) {
		r.Inconclusive("monitor's RLP view differs from go-ethereum's encoding of a generated transaction")
		return
	}
	// non-minimal varbytes prefix
	for _, form := range []int{3, 5, 9} {
		if form <= ps {
			continue
		}
		alt := make([]byte, form)
		switch form {
		case 3:
			alt[0] = 0xfd
			binary.LittleEndian.PutUint16(alt[1:], uint16(len(rl)))
		case 5:
			alt[0] = 0xfe
			binary.LittleEndian.PutUint32(alt[1:], uint32(len(rl)))
		default:
			alt[0] = 0xff
			binary.LittleEndian.PutUint64(alt[1:], uint64(len(rl)))
		}
		mutate("nonminimal-eip-varbytes", append(append([]byte{0, byte(types.EIP155)}, alt...), rl...), -1)
	}
	raw, content, ok := rlpSplit(rl)
	if !ok || len(raw) != 9 {
		r.Inconclusive("cannot split the RLP of a generated EIP-155 transaction")
		return
	}
	rebuild := func(items [][]byte) []byte { return wrapEIP(rlpList(items...)) }
	with := func(k int, enc []byte) [][]byte {
		it := append([][]byte(nil), raw...)
		it[k] = enc
		return it
	}
	names := []string{"nonce", "gasprice", "gaslimit", "to", "value", "data", "v", "r", "s"}
	for _, k := range []int{0, 1, 2, 4, 6, 7, 8} {
		c := content[k]
		// integer with a leading zero byte (for the value zero: 0x00 instead of 0x80)
		lz := append([]byte{0}, c...)
		var enc []byte
		if len(lz) == 1 {
			enc = []byte{0x00}
		} else {
			enc = append(rlpHdr(len(lz), 0x80), lz...)
		}
		mutate("rlp-leading-zero-"+names[k], rebuild(with(k, enc)), -1)
	}
	for k, c := range content {
		if len(c) == 1 && c[0] < 0x80 && len(raw[k]) == 1 {
			mutate("rlp-single-byte-as-string", rebuild(with(k, []byte{0x81, c[0]})), -1)
		}
		if len(raw[k]) > 1 && len(c) < 56 {
			mutate("rlp-long-length-form", rebuild(with(k, append([]byte{0xb8, byte(len(c))}, c...))), -1)
		}
		if len(c) >= 56 && len(c) < 256 {
			mutate("rlp-long-length-form", rebuild(with(k, append([]byte{0xb9, 0, byte(len(c))}, c...))), -1)
		}
	}
	body := bytes.Join(raw, nil)
	if len(body) < 56 {
		mutate("rlp-list-long-length-form", wrapEIP(append([]byte{0xf8, byte(len(body))}, body...)), -1)
	} else if len(body) < 256 {
		mutate("rlp-list-long-length-form", wrapEIP(append([]byte{0xf9, 0, byte(len(body))}, body...)), -1)
	} else {
		mutate("rlp-list-long-length-form", wrapEIP(append([]byte{0xfa, 0, byte(len(body) >> 8), byte(len(body))}, body...)), -1)
	}
	mutate("rlp-trailing-bytes-inside-varbytes", wrapEIP(append(clone(rl), rng.Bytes(1+rng.Intn(4))...)), -1)
	mutate("rlp-trailing-bytes-inside-varbytes", wrapEIP(append(clone(rl), 0x80)), -1)
	mutate("rlp-extra-list-item", rebuild(append(append([][]byte(nil), raw...), []byte{0x80})), -1)
	mutate("rlp-extra-list-item", rebuild(append(append([][]byte(nil), raw...), rlpStr(rng.Bytes(1+rng.Intn(8))))), -1)
	mutate("rlp-missing-list-item", rebuild(raw[:8]), -1)
	mutate("rlp-recipient-length", rebuild(with(3, rlpStr(rng.Bytes(19)))), -1)
	mutate("rlp-recipient-length", rebuild(with(3, rlpStr(rng.Bytes(21)))), -1)
	mutate("rlp-nested-list-item", rebuild(with(5, rlpList(raw[5]))), -1)

	// -- semantic variants, properly signed
	key := desc.Payer.Keys[0]
	signed := func(fam string, o txgen.EIPOpts, chain uint64) {
		o.DataLen = -1
		e, err := txgen.NewEIP155(rng, chain, key, o)
		if err != nil {
			r.Inconclusive("generator: " + err.Error())
			return
		}
		items, v, rr, s := ethFields(e)
		mutate(fam, rebuild(append(items, rlpInt(v), rlpInt(rr), rlpInt(s))), -1)
	}
	odd := new(big.Int).Add(new(big.Int).Mul(big.NewInt(int64(rng.Intn(5000))), big.NewInt(constants.GWei)), big.NewInt(int64(1+rng.Intn(constants.GWei-1))))
	signed("eip-gasprice-not-gwei-multiple", txgen.EIPOpts{GasPrice: odd}, chainID)
	huge := new(big.Int).Lsh(big.NewInt(constants.GWei), uint(64+rng.Intn(60)))
	signed("eip-gasprice-above-uint64", txgen.EIPOpts{GasPrice: huge}, chainID)
	for _, n := range []uint64{1 << 32, 1<<32 + uint64(rng.Intn(1000)), rng.U64() | 1<<40, math.MaxUint64} {
		nn := n
		signed("eip-nonce-above-uint32", txgen.EIPOpts{Nonce: &nn}, chainID)
	}
	mx := uint64(math.MaxUint32)
	signed("eip-nonce-max-uint32", txgen.EIPOpts{Nonce: &mx}, chainID)
	signed("eip-foreign-chain-id", txgen.EIPOpts{}, chainID+1+uint64(rng.Intn(100)))
	signed("eip-unprotected-v27", txgen.EIPOpts{Homestead: true}, chainID)
	// high-S twin of the original signature (s' = N - s, recovery bit flipped)
	{
		_, v, rr, s := ethFields(etx)
		n := ethcrypto.S256().Params().N
		s2 := new(big.Int).Sub(n, s)
		v2 := new(big.Int).Set(v)
		if new(big.Int).Sub(v, big.NewInt(35)).Bit(0) == 0 {
			v2.Add(v2, big.NewInt(1))
		} else {
			v2.Sub(v2, big.NewInt(1))
		}
		it := append([][]byte(nil), raw[:6]...)
		mutate("eip-high-s-twin", rebuild(append(it, rlpInt(v2), rlpInt(rr), rlpInt(s2))), 0)
	}
}

// ontMutableChecks: signature sets do not influence the hash, every unsigned field does.
func ontMutableChecks(tx *types.Transaction, b []byte, base *accepted, desc txgen.Desc, rng *vf.RNG, t tally) {
	baseHash := tx.Hash()
	mt, err := tx.IntoMutable()
	if err != nil {
		r.Violation("into-mutable-rejected:"+desc.Shape, "a generated transaction does not convert to MutableTransaction: "+err.Error(), witness(b, nil))
		return
	}
	re, err := mt.IntoImmutable()
	if err != nil || !bytes.Equal(re.ToArray(), b) {
		r.Violation("mutable-roundtrip-differs:"+desc.Shape, "IntoMutable().IntoImmutable() of a generated transaction gives other bytes", witness(b, map[string]interface{}{"err": fmt.Sprint(err)}))
		return
	}
	t.inc("ont_full_mutable_roundtrip_checked")
	cp := func() *types.MutableTransaction {
		c := *mt
		c.Sigs = append([]types.Sig(nil), mt.Sigs...)
		return &c
	}
	sigVariant := func(name string, m *types.MutableTransaction) {
		var imm *types.Transaction
		var e error
		if p := vf.Catch(func() { imm, e = m.IntoImmutable() }); p != nil || e != nil {
			t.inc("sigvariant_unbuildable_" + name)
			return
		}
		vb := imm.ToArray()
		r.Eval(fp("sig-"+name, vb))
		t.inc("sigvariant_" + name)
		if a := judge(vb, "sig-"+name, t); a == nil {
			r.Violation("sigvariant-rejected:"+name, "re-signed transaction rejected by decoder", witness(vb, nil))
			return
		}
		if imm.Hash() != baseHash {
			r.Violation("hash:depends-on-signatures:"+name, "hash changed when only signature sets changed", witness(vb, map[string]interface{}{"original": vf.Hex(b), "hash": imm.Hash().ToHexString(), "original_hash": baseHash.ToHexString()}))
		}
		if bytes.Equal(vb, b) {
			t.inc("sigvariant_same_bytes")
		}
	}
	// remove all
	m := cp()
	m.Sigs = nil
	sigVariant("remove-all", m)
	if len(mt.Sigs) >= 2 {
		m = cp()
		m.Sigs = m.Sigs[:len(m.Sigs)-1]
		sigVariant("remove-last", m)
		m = cp()
		m.Sigs[0], m.Sigs[1] = m.Sigs[1], m.Sigs[0]
		sigVariant("reorder", m)
	}
	// add a genuine signature set of another signer
	other := txgen.PickSigner(rng, 4)
	if sg, e := other.Sig(baseHash, rng); e == nil && len(mt.Sigs) < constants.TX_MAX_SIG_SIZE {
		m = cp()
		m.Sigs = append(m.Sigs, sg)
		sigVariant("add", m)
		m = cp()
		m.Sigs = []types.Sig{sg}
		sigVariant("replace-signer", m)
	}
	if len(mt.Sigs) > 0 {
		// re-sign (ECDSA is randomised) and garbage signature data
		if sg, e := desc.Payer.Sig(baseHash, rng); e == nil {
			m = cp()
			m.Sigs[0] = sg
			sigVariant("resign", m)
		}
		m = cp()
		s0 := m.Sigs[0]
		s0.SigData = [][]byte{rng.Bytes(1 + rng.Intn(100))}
		for len(s0.SigData) < int(s0.M) {
			s0.SigData = append(s0.SigData, rng.Bytes(65))
		}
		m.Sigs[0] = s0
		sigVariant("garbage-sigdata", m)
	}

	fieldVariant := func(name string, m *types.MutableTransaction) {
		var imm *types.Transaction
		var e error
		if p := vf.Catch(func() { imm, e = m.IntoImmutable() }); p != nil || e != nil {
			t.inc("fieldvariant_unbuildable_" + name)
			return
		}
		vb := imm.ToArray()
		r.Eval(fp("field-"+name, vb))
		t.inc("fieldvariant_" + name)
		a := judge(vb, "field-"+name, t)
		if a == nil {
			r.Violation("fieldvariant-rejected:"+name, "variant transaction rejected by decoder", witness(vb, nil))
			return
		}
		if imm.Hash() == baseHash {
			r.Violation("hash:ignores-unsigned-field:"+name, "hash unchanged although an unsigned field changed", witness(vb, map[string]interface{}{"original": vf.Hex(b), "field": name}))
		}
		noteHash(imm.Hash(), vb[:a.unsigned], vb)
	}
	m = cp()
	m.Nonce += 1 + uint32(rng.Intn(7))
	fieldVariant("nonce", m)
	m = cp()
	m.GasPrice ^= 1 << uint(rng.Intn(64))
	fieldVariant("gasprice", m)
	m = cp()
	m.GasLimit ^= 1 << uint(rng.Intn(64))
	fieldVariant("gaslimit", m)
	m = cp()
	m.Payer[rng.Intn(20)] ^= byte(1 << uint(rng.Intn(8)))
	fieldVariant("payer", m)
	// gasprice <-> gaslimit swap keeps the multiset of bytes but not the content
	if mt.GasPrice != mt.GasLimit {
		m = cp()
		m.GasPrice, m.GasLimit = m.GasLimit, m.GasPrice
		fieldVariant("gasprice-gaslimit-swapped", m)
	}
	switch pl := mt.Payload.(type) {
	case *payload.InvokeCode:
		m = cp()
		if m.TxType == types.InvokeNeo {
			m.TxType = types.InvokeWasm
		} else {
			m.TxType = types.InvokeNeo
		}
		fieldVariant("txtype", m)
		m = cp()
		m.Payload = &payload.InvokeCode{Code: append(clone(pl.Code), byte(rng.Intn(256)))}
		fieldVariant("code-appended", m)
		if len(pl.Code) > 0 {
			c := clone(pl.Code)
			c[rng.Intn(len(c))] ^= byte(1 << uint(rng.Intn(8)))
			m = cp()
			m.Payload = &payload.InvokeCode{Code: c}
			fieldVariant("code-bit", m)
			m = cp()
			m.Payload = &payload.InvokeCode{Code: clone(pl.Code[:len(pl.Code)-1])}
			fieldVariant("code-truncated", m)
		}
	case *payload.DeployCode:
		f := base.fields
		build := func(name string, code []byte, flags byte, s [5]string) {
			dc, e := payload.NewDeployCode(code, payload.VmType(flags), s[0], s[1], s[2], s[3], s[4])
			if e != nil {
				t.inc("fieldvariant_unbuildable_" + name)
				return
			}
			m := cp()
			m.Payload = dc
			fieldVariant(name, m)
		}
		c := clone(f.code)
		c[rng.Intn(len(c))] ^= byte(1 << uint(rng.Intn(8)))
		build("deploy-code-bit", c, f.vmFlags, f.strs)
		for _, fl := range []byte{0, 1, 3} {
			if fl != f.vmFlags {
				build(fmt.Sprintf("deploy-vmflags-%d-to-%d", f.vmFlags, fl), f.code, fl, f.strs)
			}
		}
		for k := range f.strs {
			s := f.strs
			s[k] += string(rune('a' + rng.Intn(26)))
			build("deploy-"+strNames[k], f.code, f.vmFlags, s)
		}
		// moving a character between neighbouring strings keeps the concatenation
		for k := 0; k+1 < len(f.strs); k++ {
			if len(f.strs[k]) > 0 {
				s := f.strs
				s[k+1] = s[k][len(s[k])-1:] + s[k+1]
				s[k] = s[k][:len(s[k])-1]
				build("deploy-string-boundary", f.code, f.vmFlags, s)
				break
			}
		}
	}
}

// ---------------------------------------------------------------- 16 / 17 signature sets

func sigCountCase(rng *vf.RNG) {
	t := tally{}
	defer t.flush()
	mt := txgen.NewTransfer(rng, txgen.PickLight(rng).Address())
	payer := txgen.Single(txgen.PickLight(rng))
	tx, err := txgen.Finish(mt, payer, nil, rng)
	if err != nil {
		r.Inconclusive("generator: " + err.Error())
		return
	}
	a := judge(tx.ToArray(), "base", t)
	if a == nil {
		return
	}
	one := a.fields.sigs[0]
	for _, n := range []int{15, 16, 17, 18, 40, 0xfc, 0xfd, 300} {
		f := *a.fields
		f.sigs = nil
		for i := 0; i < n; i++ {
			f.sigs = append(f.sigs, one)
		}
		enc, _ := f.encode()
		r.Eval(fp("sigcount", enc))
		fam := "sigcount<=16"
		if n > constants.TX_MAX_SIG_SIZE {
			fam = "sigcount>16"
		}
		t.inc("mut_" + fam)
		got := judge(enc, fam, t)
		switch {
		case got != nil && n <= constants.TX_MAX_SIG_SIZE:
			t.inc("sigcount_within_limit_accepted")
			if got.tx.Hash() != tx.Hash() {
				r.Violation("hash:depends-on-signatures:sigcount", "hash changed when signature sets were repeated", witness(enc, nil))
			}
		case got != nil:
			t.inc("sigcount_above_limit_accepted") // not part of C19's statement: counted, judged by the general oracle only
		case n > constants.TX_MAX_SIG_SIZE:
			t.inc("sigcount_above_limit_rejected")
		}
	}
}

// ---------------------------------------------------------------- random / structured strings

func randomCase(rng *vf.RNG, pool [][]byte, t tally) {
	var in []byte
	fam := ""
	switch rng.Intn(6) {
	case 0:
		fam = "random"
		in = rng.Bytes(rng.Intn(200))
	case 1:
		fam = "random-typed"
		ty := []byte{0xd0, 0xd1, 0xd2, 0xd3, byte(rng.Intn(256))}[rng.Intn(5)]
		in = append([]byte{0, ty}, rng.Bytes(rng.Intn(200))...)
	case 2:
		fam = "random-after-header"
		f := ontFields{txType: []byte{0xd0, 0xd1, 0xd2}[rng.Intn(3)], nonce: uint32(rng.U64()), gasPrice: rng.U64(), gasLimit: rng.U64()}
		enc, _ := f.encode()
		in = append(clone(enc[:42]), rng.Bytes(rng.Intn(120))...)
		// small length bytes make deeper parses likely
		for i := 42; i < len(in); i++ {
			if rng.Chance(40) {
				in[i] = byte(rng.Intn(6))
			}
		}
	case 3:
		fam = "random-rlp"
		var items [][]byte
		for i := rng.Intn(12); i > 0; i-- {
			items = append(items, rlpStr(rng.Bytes(rng.Intn(34))))
		}
		in = wrapEIP(rlpList(items...))
	default:
		fam = "splice"
		a, b := pool[rng.Intn(len(pool))], pool[rng.Intn(len(pool))]
		in = append(clone(a[:rng.Intn(len(a)+1)]), b[rng.Intn(len(b)+1):]...)
	}
	r.Eval(fp(fam, in))
	t.inc("str_" + fam)
	if a := judge(in, fam, t); a != nil {
		t.inc("str_" + fam + "_accepted")
	}
}

// ---------------------------------------------------------------- size limit

func sizeCases(rng *vf.RNG) {
	t := tally{}
	defer t.flush()
	payer := txgen.Single(txgen.PickKind(rng, txgen.ECDSAP256))
	build := func(kind string, n int) []byte {
		filler := bytes.Repeat([]byte{0x61}, n)
		var mt *types.MutableTransaction
		switch kind {
		case "invoke":
			mt = &types.MutableTransaction{TxType: types.InvokeNeo, Payload: &payload.InvokeCode{Code: filler}, GasLimit: 20000}
		case "deploy":
			dc, err := payload.NewDeployCode(filler, payload.NEOVM_TYPE, "n", "v", "a", "e", "d")
			if err != nil {
				return nil
			}
			mt = &types.MutableTransaction{TxType: types.Deploy, Payload: dc, GasLimit: 20000}
		}
		mt.Payer = payer.Address()
		// serialize by hand: IntoImmutable would refuse > MAX itself
		f := &ontFields{txType: byte(mt.TxType), gasLimit: mt.GasLimit, payer: mt.Payer, code: filler}
		if kind == "deploy" {
			f.deploy, f.vmFlags, f.strs = true, 1, [5]string{"n", "v", "a", "e", "d"}
		}
		unsignedEnc, lay := f.encode()
		sg, err := payer.Sig(dsha(unsignedEnc[:lay.unsignedLen]), rng)
		if err != nil {
			return nil
		}
		raw, err := sg.GetRawSig()
		if err != nil {
			return nil
		}
		f.sigs = [][2][]byte{{raw.Invoke, raw.Verify}}
		enc, _ := f.encode()
		return enc
	}
	for _, kind := range []string{"invoke", "deploy"} {
		probe := build(kind, 70000)
		if probe == nil {
			r.Inconclusive("size cases: cannot build " + kind)
			continue
		}
		overhead := len(probe) - 70000
		for _, total := range []int{types.MAX_TX_SIZE - 1, types.MAX_TX_SIZE, types.MAX_TX_SIZE + 1, types.MAX_TX_SIZE + 2, types.MAX_TX_SIZE + 4096, 2 * types.MAX_TX_SIZE} {
			if kind == "deploy" && total-overhead > 1024*1024 {
				continue // the deploy payload has its own 1 MiB code limit
			}
			in := build(kind, total-overhead)
			if len(in) != total {
				r.Inconclusive(fmt.Sprintf("size cases: built %d bytes instead of %d", len(in), total))
				continue
			}
			r.Eval(fmt.Sprintf("size/%s/%d", kind, total))
			a := judge(in, "size-"+kind, t) // judge flags acceptance above the limit on either path
			switch {
			case total <= types.MAX_TX_SIZE && a != nil:
				t.inc("size_at_or_below_limit_accepted")
			case total <= types.MAX_TX_SIZE:
				t.inc("size_at_or_below_limit_rejected")
			case a == nil:
				t.inc("size_above_limit_rejected")
			}
		}
	}
	// a small valid transaction followed by junk so that the input exceeds the limit
	small := build("invoke", 100)
	in := append(clone(small), make([]byte, types.MAX_TX_SIZE+1-len(small))...)
	r.Eval("size/junk-tail")
	if a := judge(in, "size-junk-tail", t); a != nil && a.consumed == len(small) {
		t.inc("size_junk_tail_source_path_consumes_small_tx")
	}
	// EIP-155 with ~1 MiB of call data
	key := txgen.PickKind(rng, txgen.EthSecp256k1)
	for _, n := range []int{types.MAX_TX_SIZE - 200, types.MAX_TX_SIZE - 110, types.MAX_TX_SIZE - 100, types.MAX_TX_SIZE, types.MAX_TX_SIZE + 5000} {
		e, err := txgen.NewEIP155(rng, chainID, key, txgen.EIPOpts{DataLen: n})
		if err != nil {
			r.Inconclusive("generator: " + err.Error())
			continue
		}
		items, v, rr, s := ethFields(e)
		in := wrapEIP(rlpList(append(items, rlpInt(v), rlpInt(rr), rlpInt(s))...))
		r.Eval(fmt.Sprintf("size/eip/%d", len(in)))
		a := judge(in, "size-eip155", t)
		switch {
		case len(in) <= types.MAX_TX_SIZE && a != nil:
			t.inc("size_at_or_below_limit_accepted_eip")
		case len(in) > types.MAX_TX_SIZE && a == nil:
			t.inc("size_above_limit_rejected_eip")
		}
	}
}

// ---------------------------------------------------------------- main

func main() {
	r = vf.NewRun("C19", "exploration",
		"valid transactions of 8 shapes (native transfer, NeoVM invoke, Wasm-type invoke, deploy with vm flags 0/1/3, EIP-155 call/create) signed by single or m-of-n signers over all key types with 0-3 extra signature sets; per transaction: every single-byte flip (<=2048 positions), set-byte, every truncation, appended bytes, non-minimal varuint at every length field, attribute count != 0, non-canonical RLP forms, semantic EIP variants, signature-set and unsigned-field variants through MutableTransaction; plus random/structured/spliced strings and size-limit cases; distinct by family+bytes; plus histories of 12-48 seeded random steps on live objects (one MutableTransaction, its struct copies sharing the payload pointer, its IntoImmutable results, their decodings and IntoMutable results, one re-used Transaction): hash reports through Hash()/IntoImmutable(), signing and signature-set edits, scalar field edits, payload edits in place through the same pointer, payload object replacement, temporarily unserializable states; every report compared with the monitor's own double sha256 of its own serialization of the modelled content and with a fresh object; distinct by step log")
	types.CheckChainID = true
	config.DefConfig.P2PNode.EVMChainId = chainID
	rng := vf.NewRNG(vf.Seed())
	workers := runtime.NumCPU()
	for k := txgen.Kind(0); k < txgen.NumKinds; k++ {
		txgen.Pool(k)
	}

	nbase := vf.N(500, 10000)
	vf.Parallel(nbase, workers, func(i int) { baseCase(i, rng.Sub(uint64(i))) })

	nsig := vf.N(20, 200)
	vf.Parallel(nsig, workers, func(i int) { sigCountCase(rng.Sub(1<<40 + uint64(i))) })

	// histories of steps on live transaction objects (history.go)
	runHistories(rng.Sub(6<<40), workers)

	// random / structured strings
	var pool [][]byte
	prng := rng.Sub(2 << 40)
	for i := 0; i < 64; i++ {
		tx, _, err := txgen.Shaped(prng.Sub(uint64(i)), chainID, i%txgen.NumShapes)
		if err != nil {
			r.Inconclusive("generator: " + err.Error())
			continue
		}
		pool = append(pool, tx.ToArray())
	}
	if len(pool) > 0 {
		nstr := vf.N(200000, 5000000)
		const chunk = 2000
		sbase := rng.Sub(3 << 40)
		vf.Parallel(nstr/chunk, workers, func(c int) {
			t := tally{}
			for j := 0; j < chunk; j++ {
				randomCase(sbase.Sub(uint64(c*chunk+j)), pool, t)
			}
			t.flush()
		})
	}

	sizeCases(rng.Sub(4 << 40))

	// second pass with the chain-id check off (the default of the library when used as an SDK):
	// unprotected and foreign-chain EIP-155 transactions are then accepted and must satisfy the same oracle
	types.CheckChainID = false
	{
		t := tally{}
		for i := 0; i < vf.N(60, 600); i++ {
			sub := rng.Sub(5<<40 + uint64(i))
			key := txgen.PickKind(sub, txgen.EthSecp256k1)
			o := txgen.EIPOpts{DataLen: -1, Homestead: i%2 == 0, Create: i%5 == 0}
			e, err := txgen.NewEIP155(sub, chainID+uint64(i%7), key, o)
			if err != nil {
				r.Inconclusive("generator: " + err.Error())
				continue
			}
			items, v, rr, s := ethFields(e)
			in := wrapEIP(rlpList(append(items, rlpInt(v), rlpInt(rr), rlpInt(s))...))
			r.Eval(fp("nochainid", in))
			a := judge(in, "chainid-check-off", t)
			if a == nil {
				t.inc("chainid_off_rejected")
				continue
			}
			t.inc("chainid_off_accepted")
			if ka := key.Address(); a.tx.Payer != ka {
				r.Violation("eip:payer-is-not-signer:chainid-check-off", "payer differs from the address of the signing key", witness(in, map[string]interface{}{"payer": a.tx.Payer.ToHexString(), "signer": ka.ToHexString()}))
			}
			for _, p := range positions(sub, len(in)) {
				m := clone(in)
				m[p] ^= byte(1 << uint(sub.Intn(8)))
				r.Eval(fp("nochainid-flip", m))
				if b := judge(m, "chainid-check-off-flip", t); b != nil && b.tx.Hash() == a.tx.Hash() {
					r.Violation("hash:eip155-different-bytes-same-hash:chainid-check-off", "a different accepted encoding has the hash of the original", witness(m, map[string]interface{}{"original": vf.Hex(in)}))
				}
			}
		}
		t.flush()
	}
	types.CheckChainID = true

	if !vmFlagsReadable {
		r.Inconclusive("payload.DeployCode.vmFlags is not readable by reflection: deploy transactions were not field-checked")
	}
	for _, s := range []string{"transfer", "invoke-neo", "invoke-wasm", "deploy-neo0", "deploy-neo1", "deploy-wasm", "eip155-call", "eip155-create"} {
		r.Require("base_"+s, int64(nbase/txgen.NumShapes)-1)
	}
	r.Require("ont_field_reencode_checked", int64(nbase))
	r.Require("ont_mutable_unsigned_reencode_checked", int64(nbase))
	r.Require("ont_full_mutable_roundtrip_checked", int64(nbase/2))
	r.Require("eip_accepted_checked", int64(nbase/4))
	r.Require("eip_sender_recovered", int64(nbase/4))
	r.Require("eip_sighash_checked", int64(nbase/4))
	r.Require("flip_in_unsigned_accepted", 1000)
	r.Require("flip_in_signatures_accepted", 1000)
	for _, f := range []string{"flip", "setbyte", "truncate", "append", "nonminimal-code", "nonminimal-attributes", "nonminimal-sigcount", "nonminimal-sig-invoke", "nonminimal-sig-verify",
		"nonminimal-name", "nonminimal-version", "nonminimal-author", "nonminimal-email", "nonminimal-description", "attributes-nonzero",
		"nonminimal-eip-varbytes", "rlp-leading-zero-nonce", "rlp-leading-zero-gasprice", "rlp-leading-zero-gaslimit", "rlp-leading-zero-value", "rlp-leading-zero-v", "rlp-leading-zero-r", "rlp-leading-zero-s",
		"rlp-single-byte-as-string", "rlp-long-length-form", "rlp-list-long-length-form", "rlp-trailing-bytes-inside-varbytes", "rlp-extra-list-item", "rlp-missing-list-item", "rlp-recipient-length", "rlp-nested-list-item",
		"eip-gasprice-not-gwei-multiple", "eip-gasprice-above-uint64", "eip-nonce-above-uint32", "eip-nonce-max-uint32", "eip-foreign-chain-id", "eip-unprotected-v27", "eip-high-s-twin"} {
		r.Require("mut_"+f, 20)
	}
	r.Require("mut_append_prefix_consumed", int64(nbase))
	r.Require("mut_eip-nonce-max-uint32_accepted", 10) // control: the largest admissible nonce is accepted
	for _, f := range []string{"remove-all", "remove-last", "reorder", "add", "replace-signer", "resign", "garbage-sigdata"} {
		r.Require("sigvariant_"+f, 20)
	}
	for _, f := range []string{"nonce", "gasprice", "gaslimit", "payer", "gasprice-gaslimit-swapped", "txtype", "code-appended", "code-bit", "code-truncated", "deploy-code-bit",
		"deploy-name", "deploy-version", "deploy-author", "deploy-email", "deploy-description", "deploy-string-boundary", "deploy-vmflags-0-to-1", "deploy-vmflags-1-to-0", "deploy-vmflags-1-to-3", "deploy-vmflags-3-to-1"} {
		r.Require("fieldvariant_"+f, 10)
	}
	r.Require("sigcount_within_limit_accepted", 10)
	r.Require("mut_sigcount>16", 10)
	for _, f := range []string{"random", "random-typed", "random-after-header", "random-rlp", "splice"} {
		r.Require("str_"+f, 1000)
	}
	r.Require("str_splice_accepted", 10)
	r.Require("input_above_max_size", 4)
	r.Require("size_at_or_below_limit_accepted", 2)
	r.Require("size_above_limit_rejected", 4)
	r.Require("size_junk_tail_source_path_consumes_small_tx", 1)
	r.Require("size_at_or_below_limit_accepted_eip", 1)
	r.Require("size_above_limit_rejected_eip", 1)
	r.Require("chainid_off_accepted", 30)
	r.Require("eip_accepted_unprotected", 10)
	r.Require("eip_accepted_foreign_chain", 10)
	requireHistories()
	r.Assume("histories: an object whose version is not 0 is not a transaction; it may report the empty hash or the hash of its current fields, but never the hash of another content; a Transaction whose IntoMutable was called has handed its internals over and is not observed afterwards; signature-set counts stay within TX_MAX_SIG_SIZE")
	r.Assume("EIP-155 transactions: 'signatures do not change the hash' is asserted for the Ontology format only (the Ethereum transaction hash covers v,r,s by definition); for EIP-155 the monitor asserts canonical re-encoding, hash = keccak(rlp), payer = recovered sender, mirrored fields")
	r.Assume("hashUnsigned of an EIP-155 transaction has no accessor: observed through SigHashForChain(chain id)")
	r.Assume("whether the size check happens before any allocation is not observable without a hook; only accept/reject above the limit is checked")
	r.Assume("a signature-set count above TX_MAX_SIG_SIZE is outside the statement: counted, judged by the general oracle only")
	r.Finish()
}
