// C20 — Block encoding round-trips and binds the transaction list.
//
// One oracle (judge) is applied to every input, valid block or mutant, through both
// decoders, BlockFromRawBytes(b) and Block.Deserialization(source(b)):
//   - no panic, both paths agree;
//   - accepted => Block.ToArray() == b[:consumed] and the decoded fields re-encoded by this
//     monitor's own encoder give the same bytes (when they do not, the monitor looks for a
//     bookkeeper key whose bytes are not the canonical serialization of the decoded key);
//   - accepted => header.TransactionsRoot == ComputeMerkleRoot(hashes of the decoded list) and
//     no transaction hash occurs twice (so reordered/duplicated/dropped/replaced lists must
//     have been rejected);
//   - accepted => Hash() == sha256(sha256(own encoding of the nine unsigned header fields)).
//
// Generated blocks: 0..40 mixed transactions (txgen), 0..7 bookkeepers of every key type,
// list mutations (reorder, duplicate incl. the odd-count "duplicate tail" shapes that keep a
// Bitcoin-style root, drop, replace, add, count +-1; each also with the root rebuilt as a
// control), same-hash signature variants, alternative encodings of bookkeeper keys, single
// byte flips / truncations / appended bytes over the whole encoding with the hash relation
// (a flip in the unsigned header changes the hash, anywhere else it does not), header field
// changes at struct level, and ComputeMerkleRoot workspace behaviour observed by recomputing.
package main

import (
	"bytes"
	"crypto/sha256"
	"encoding/binary"
	"fmt"
	"hash/fnv"
	"runtime"
	"sync"

	"github.com/ontio/ontology-crypto/ec"
	"github.com/ontio/ontology-crypto/keypair"
	"github.com/ontio/ontology/common"
	"github.com/ontio/ontology/common/config"
	"github.com/ontio/ontology/core/types"
	"verifharness/lib/txgen"
	"verifharness/lib/vf"
)

const chainID = 5851

var r *vf.Run

type tally map[string]int64

func (t tally) inc(k string) { t[k]++ }
func (t tally) flush() {
	for k, v := range t {
		r.Add(k, v)
	}
}

func fp(fam string, b []byte) string {
	h := fnv.New64a()
	h.Write(b)
	return fmt.Sprintf("%s/%016x", fam, h.Sum64())
}

func clone(b []byte) []byte { return append([]byte(nil), b...) }

func witness(in []byte, extra map[string]interface{}) map[string]interface{} {
	w := map[string]interface{}{"input_len": len(in), "input": vf.Hex(in)}
	for k, v := range extra {
		w[k] = v
	}
	return w
}

func dsha(b []byte) common.Uint256 {
	a := sha256.Sum256(b)
	return sha256.Sum256(a[:])
}

// ---------------------------------------------------------------- own encoder / reader

func varuint(v uint64) []byte {
	switch {
	case v < 0xfd:
		return []byte{byte(v)}
	case v <= 0xffff:
		return []byte{0xfd, byte(v), byte(v >> 8)}
	case v <= 0xffffffff:
		b := make([]byte, 5)
		b[0] = 0xfe
		binary.LittleEndian.PutUint32(b[1:], uint32(v))
		return b
	default:
		b := make([]byte, 9)
		b[0] = 0xff
		binary.LittleEndian.PutUint64(b[1:], v)
		return b
	}
}

type hdr struct {
	version           uint32
	prev, txroot, blk common.Uint256
	ts, height        uint32
	cdata             uint64
	cpayload          []byte
	next              common.Address
	bks               [][]byte // raw key bytes as they go on the wire
	sigs              [][]byte
}

type span struct {
	name     string
	from, to int
}

type hlayout struct {
	unsigned int
	total    int
	fields   []span // regions of the header encoding
}

func (h *hdr) encode() ([]byte, hlayout) {
	var b bytes.Buffer
	var l hlayout
	mark := func(name string, from int) { l.fields = append(l.fields, span{name, from, b.Len()}) }
	u32 := func(v uint32) {
		var x [4]byte
		binary.LittleEndian.PutUint32(x[:], v)
		b.Write(x[:])
	}
	p := 0
	u32(h.version)
	mark("Version", p)
	p = b.Len()
	b.Write(h.prev[:])
	mark("PrevBlockHash", p)
	p = b.Len()
	b.Write(h.txroot[:])
	mark("TransactionsRoot", p)
	p = b.Len()
	b.Write(h.blk[:])
	mark("BlockRoot", p)
	p = b.Len()
	u32(h.ts)
	mark("Timestamp", p)
	p = b.Len()
	u32(h.height)
	mark("Height", p)
	p = b.Len()
	var x [8]byte
	binary.LittleEndian.PutUint64(x[:], h.cdata)
	b.Write(x[:])
	mark("ConsensusData", p)
	p = b.Len()
	b.Write(varuint(uint64(len(h.cpayload))))
	b.Write(h.cpayload)
	mark("ConsensusPayload", p)
	p = b.Len()
	b.Write(h.next[:])
	mark("NextBookkeeper", p)
	l.unsigned = b.Len()
	p = b.Len()
	b.Write(varuint(uint64(len(h.bks))))
	for _, k := range h.bks {
		b.Write(varuint(uint64(len(k))))
		b.Write(k)
	}
	mark("Bookkeepers", p)
	p = b.Len()
	b.Write(varuint(uint64(len(h.sigs))))
	for _, s := range h.sigs {
		b.Write(varuint(uint64(len(s))))
		b.Write(s)
	}
	mark("SigData", p)
	l.total = b.Len()
	return b.Bytes(), l
}

func encodeBlock(h *hdr, txs [][]byte) ([]byte, hlayout) {
	hb, l := h.encode()
	var c [4]byte
	binary.LittleEndian.PutUint32(c[:], uint32(len(txs)))
	out := append(clone(hb), c[:]...)
	for _, t := range txs {
		out = append(out, t...)
	}
	return out, l
}

// hdrOf converts a decoded header back into the monitor's representation (canonical key bytes).
func hdrOf(h *types.Header) (*hdr, error) {
	o := &hdr{version: h.Version, prev: h.PrevBlockHash, txroot: h.TransactionsRoot, blk: h.BlockRoot, ts: h.Timestamp, height: h.Height,
		cdata: h.ConsensusData, cpayload: h.ConsensusPayload, next: h.NextBookkeeper, sigs: h.SigData}
	for _, k := range h.Bookkeepers {
		var kb []byte
		if p := vf.Catch(func() { kb = keypair.SerializePublicKey(k) }); p != nil {
			return nil, fmt.Errorf("SerializePublicKey panics: %v", p)
		}
		o.bks = append(o.bks, kb)
	}
	return o, nil
}

// readVar reads a minimal varuint; ok=false on EOF or non-minimal form.
func readVar(b []byte, off int) (v uint64, n int, ok bool) {
	if off >= len(b) {
		return 0, 0, false
	}
	switch b[off] {
	case 0xfd:
		if off+3 > len(b) {
			return 0, 0, false
		}
		v, n = uint64(binary.LittleEndian.Uint16(b[off+1:])), 3
	case 0xfe:
		if off+5 > len(b) {
			return 0, 0, false
		}
		v, n = uint64(binary.LittleEndian.Uint32(b[off+1:])), 5
	case 0xff:
		if off+9 > len(b) {
			return 0, 0, false
		}
		v, n = binary.LittleEndian.Uint64(b[off+1:]), 9
	default:
		v, n = uint64(b[off]), 1
	}
	return v, n, len(varuint(v)) == n
}

// rawBookkeepers extracts the wire bytes of the bookkeeper keys of an encoded header.
func rawBookkeepers(b []byte) (keys [][]byte, ok bool) {
	off := 4 + 32*3 + 4 + 4 + 8
	l, n, ok := readVar(b, off)
	if !ok || uint64(off+n)+l+20 > uint64(len(b)) {
		return nil, false
	}
	off += n + int(l) + 20
	cnt, n, ok := readVar(b, off)
	if !ok || cnt > 1000 {
		return nil, false
	}
	off += n
	for i := 0; i < int(cnt); i++ {
		l, n, ok := readVar(b, off)
		if !ok || uint64(off+n)+l > uint64(len(b)) {
			return nil, false
		}
		keys = append(keys, b[off+n:off+n+int(l)])
		off += n + int(l)
	}
	return keys, true
}

func altForm(raw []byte) string {
	switch {
	case len(raw) >= 65 && raw[0] == 0x04:
		if len(raw) > 65 {
			return "p256-uncompressed+trailing"
		}
		return "p256-uncompressed"
	case len(raw) > 33 && (raw[0] == 0x02 || raw[0] == 0x03):
		return "p256-trailing-bytes"
	case len(raw) >= 3 && raw[0] == 0x12 && raw[1] == keypair.P256:
		return "p256-long-form"
	case len(raw) >= 3 && (raw[0] == 0x12 || raw[0] == 0x13) && raw[2] == 0x04:
		return "ec-uncompressed"
	case len(raw) >= 3 && (raw[0] == 0x12 || raw[0] == 0x13):
		return "ec-trailing-bytes"
	}
	return "other"
}

// nonCanonicalKey reports the first bookkeeper key of the encoded header whose wire bytes are
// accepted by the key decoder but are not what the key serializer produces.
func nonCanonicalKey(in []byte) (form string, raw, canonical []byte) {
	keys, ok := rawBookkeepers(in)
	if !ok {
		return "", nil, nil
	}
	for _, k := range keys {
		var cano []byte
		if p := vf.Catch(func() {
			pk, err := keypair.DeserializePublicKey(k)
			if err == nil {
				cano = keypair.SerializePublicKey(pk)
			}
		}); p == nil && cano != nil && !bytes.Equal(cano, k) {
			return altForm(k), k, cano
		}
	}
	return "", nil, nil
}

// refMerkle: Bitcoin-style tree with the last node of an odd level paired with itself.
func refMerkle(h []common.Uint256) common.Uint256 {
	if len(h) == 0 {
		return common.Uint256{}
	}
	lvl := append([]common.Uint256(nil), h...)
	for len(lvl) > 1 {
		var nx []common.Uint256
		for i := 0; i < len(lvl); i += 2 {
			j := i + 1
			if j == len(lvl) {
				j = i
			}
			nx = append(nx, dsha(append(clone(lvl[i][:]), lvl[j][:]...)))
		}
		lvl = nx
	}
	return lvl[0]
}

var refMerkleDiffers bool

func realRoot(h []common.Uint256) common.Uint256 {
	return common.ComputeMerkleRoot(append([]common.Uint256(nil), h...))
}

// ---------------------------------------------------------------- oracle

type accepted struct {
	blk      *types.Block
	consumed int
	hash     common.Uint256
}

// judge applies the oracle.  mustReject: the family is one the statement says must be rejected.
func judge(in []byte, fam string, mustReject bool, t tally) *accepted {
	return judgePaths(in, fam, mustReject, true, t)
}

// judgePaths: both=false skips the BlockFromRawBytes path (used for the bulk byte-level mutants).
func judgePaths(in []byte, fam string, mustReject, both bool, t tally) *accepted {
	viol := func(clause, what string, extra map[string]interface{}) {
		r.Violation(clause+":"+fam, what, witness(in, extra))
	}
	src := common.NewZeroCopySource(clone(in))
	blk := &types.Block{}
	var err, err1 error
	var blk1 *types.Block
	if p := vf.Catch(func() { err = blk.Deserialization(src) }); p != nil {
		viol("panic:Deserialization", fmt.Sprint(p), nil)
		return nil
	}
	if both {
		if p := vf.Catch(func() { blk1, err1 = types.BlockFromRawBytes(clone(in)) }); p != nil {
			viol("panic:BlockFromRawBytes", fmt.Sprint(p), nil)
			return nil
		}
	}
	if both && (err == nil) != (err1 == nil) {
		viol("paths-disagree", fmt.Sprintf("Deserialization err=%v, BlockFromRawBytes err=%v", err, err1), nil)
	}
	if err != nil {
		t.inc("rejected")
		return nil
	}
	t.inc("accepted")
	pos := int(src.Pos())
	consumed := in[:pos]
	if mustReject {
		viol("accepted", "a block that must be rejected is accepted", nil)
	}
	var out, out1 []byte
	if p := vf.Catch(func() {
		out = blk.ToArray()
		if blk1 != nil {
			out1 = blk1.ToArray()
		}
	}); p != nil {
		viol("panic:ToArray", fmt.Sprint(p), nil)
		return nil
	}
	a := &accepted{blk: blk, consumed: pos, hash: blk.Hash()}
	if !bytes.Equal(out, consumed) || (blk1 != nil && !bytes.Equal(out1, consumed)) {
		if form, raw, cano := nonCanonicalKey(in); form != "" {
			t.inc("reencode_mismatch_bookkeeper_key")
			r.Violation("reencode:bookkeeper-key-noncanonical:"+form, "accepted block does not re-encode to its bytes: a bookkeeper key in a non-canonical encoding is accepted and re-serialized canonically",
				witness(in, map[string]interface{}{"family": fam, "key_on_wire": vf.Hex(raw), "key_reencoded": vf.Hex(cano), "reencoded_len": len(out)}))
		} else {
			d := 0
			for d < len(out) && d < len(consumed) && out[d] == consumed[d] {
				d++
			}
			viol("reencode:differs", "ToArray() differs from the consumed bytes", map[string]interface{}{"first_difference_at": d, "reencoded": vf.Hex(out)})
		}
		return a
	}
	t.inc("roundtrip_checked")
	// the decoded fields through the monitor's own encoder
	h, e := hdrOf(blk.Header)
	if e != nil {
		viol("panic:SerializePublicKey", e.Error(), nil)
		return a
	}
	var raws [][]byte
	hashes := make([]common.Uint256, 0, len(blk.Transactions))
	seen := map[common.Uint256]bool{}
	dup := false
	for _, tx := range blk.Transactions {
		raws = append(raws, tx.ToArray())
		hashes = append(hashes, tx.Hash())
		if seen[tx.Hash()] {
			dup = true
		}
		seen[tx.Hash()] = true
	}
	own, lay := encodeBlock(h, raws)
	if !bytes.Equal(own, consumed) {
		viol("canonical:differs", "accepted bytes are not the canonical encoding of the decoded fields", map[string]interface{}{"canonical": vf.Hex(own)})
		return a
	}
	if want := dsha(own[:lay.unsigned]); a.hash != want || blk.Header.Hash() != want || (blk1 != nil && blk1.Hash() != want) {
		viol("hash:not-over-unsigned-header", "Hash() is not sha256(sha256(unsigned header fields))", map[string]interface{}{"hash": a.hash.ToHexString(), "want": want.ToHexString()})
	}
	if dup {
		viol("binding:duplicate-transaction-accepted", "accepted block contains the same transaction hash twice", nil)
	}
	root := realRoot(hashes)
	if root != blk.Header.TransactionsRoot {
		viol("binding:root-mismatch-accepted", "accepted block's transaction list does not hash to the header's TransactionsRoot", map[string]interface{}{"root_of_list": root.ToHexString(), "header_root": blk.Header.TransactionsRoot.ToHexString()})
	}
	if refMerkle(hashes) != root {
		refMerkleDiffers = true
	}
	t.inc("binding_checked")
	return a
}

// ---------------------------------------------------------------- workload pieces

type poolTx struct {
	raw  []byte
	hash common.Uint256
	ont  bool
	tx   *types.Transaction
}

func buildPool(rng *vf.RNG, n int) []*poolTx {
	out := make([]*poolTx, n)
	vf.Parallel(n, runtime.NumCPU(), func(i int) {
		// EIP-155 transactions cost a signature recovery per decode: 1 in 8 instead of 1 in 4
		sub := rng.Sub(uint64(i))
		shape := sub.Intn(txgen.NumShapes)
		if shape >= 6 && sub.Bool() {
			shape = sub.Intn(6)
		}
		tx, _, err := txgen.Shaped(sub, chainID, shape)
		if err != nil {
			return
		}
		out[i] = &poolTx{raw: tx.ToArray(), hash: tx.Hash(), ont: tx.TxType != types.EIP155, tx: tx}
	})
	seen := map[common.Uint256]bool{}
	var res []*poolTx
	for _, p := range out {
		if p != nil && !seen[p.hash] {
			seen[p.hash] = true
			res = append(res, p)
		}
	}
	return res
}

// sigVariant: the same transaction (same hash) with different signature bytes.
func sigVariant(p *poolTx, rng *vf.RNG) []byte {
	if !p.ont || len(p.tx.Sigs) == 0 {
		return nil
	}
	tx2, err := types.TransactionFromRawBytes(clone(p.raw))
	if err != nil {
		return nil
	}
	mt, err := tx2.IntoMutable()
	if err != nil {
		return nil
	}
	if rng.Bool() && len(mt.Sigs) > 0 {
		mt.Sigs = mt.Sigs[:len(mt.Sigs)-1]
	} else {
		s0 := mt.Sigs[0]
		s0.SigData = append([][]byte(nil), s0.SigData...)
		s0.SigData[0] = rng.Bytes(1 + rng.Intn(80))
		mt.Sigs[0] = s0
	}
	im, err := mt.IntoImmutable()
	if err != nil || im.Hash() != p.hash {
		return nil
	}
	out := im.ToArray()
	if bytes.Equal(out, p.raw) {
		return nil
	}
	return out
}

func altKeyBytes(rng *vf.RNG, k *txgen.Key, form string) []byte {
	p, ok := k.Pub.(*ec.PublicKey)
	if !ok {
		return nil
	}
	cano := k.PubBytes()
	switch form {
	case "p256-uncompressed":
		return ec.EncodePublicKey(p.PublicKey, false)
	case "p256-long-form":
		return append([]byte{byte(keypair.PK_ECDSA), keypair.P256}, ec.EncodePublicKey(p.PublicKey, true)...)
	case "p256-trailing-bytes":
		return append(clone(cano), rng.Bytes(1+rng.Intn(4))...)
	case "ec-uncompressed":
		return append(clone(cano[:2]), ec.EncodePublicKey(p.PublicKey, false)...)
	case "ec-trailing-bytes":
		return append(clone(cano), rng.Bytes(1+rng.Intn(4))...)
	}
	return nil
}

func positions(rng *vf.RNG, n, always, cap int) []int {
	if n <= cap {
		p := make([]int, n)
		for i := range p {
			p[i] = i
		}
		return p
	}
	if always > cap {
		always = cap
	}
	seen := map[int]bool{}
	var p []int
	for i := 0; i < always && i < n; i++ {
		seen[i] = true
		p = append(p, i)
	}
	for len(p) < cap {
		i := rng.Intn(n)
		if !seen[i] {
			seen[i] = true
			p = append(p, i)
		}
	}
	return p
}

var (
	hashMu  sync.Mutex
	hashTab = map[common.Uint256]string{}
)

func noteHash(h common.Uint256, unsigned []byte, in []byte) {
	c := vf.Hex(unsigned)
	hashMu.Lock()
	prev, ok := hashTab[h]
	if !ok {
		hashTab[h] = c
	}
	hashMu.Unlock()
	if ok && prev != c {
		r.Violation("hash:collision", "two different unsigned headers have the same block hash", witness(in, map[string]interface{}{"other_unsigned_header": prev}))
	}
}

// ---------------------------------------------------------------- one generated block

func blockCase(i int, rng *vf.RNG, pool []*poolTx) {
	t := tally{}
	defer t.flush()
	ntx := i % 41
	nbk := (i / 3) % 8
	heavy := i%37 == 5 // a P-224 bookkeeper (its decompression costs ~8 ms per decode): few mutants only
	// -- pick distinct transactions
	perm := rng.Perm(len(pool))
	txs := make([]*poolTx, ntx)
	for k := range txs {
		txs[k] = pool[perm[k]]
	}
	spare := pool[perm[ntx]]
	// -- header through the real types
	var keys []*txgen.Key
	for k := 0; k < nbk; k++ {
		kind := txgen.Kind(1 + rng.Intn(int(txgen.NumKinds)-1))
		if heavy && k == 0 {
			kind = txgen.ECDSAP224
		}
		keys = append(keys, txgen.PickKind(rng, kind))
		t.inc("bookkeeper_" + kind.String())
	}
	rh := &types.Header{Version: uint32(rng.Intn(3)), Timestamp: uint32(rng.U64()), Height: uint32(rng.U64() >> uint(rng.Intn(32))), ConsensusData: rng.U64(), Bookkeepers: txgen.Pubs(keys)}
	copy(rh.PrevBlockHash[:], rng.Bytes(32))
	copy(rh.BlockRoot[:], rng.Bytes(32))
	copy(rh.NextBookkeeper[:], rng.Bytes(20))
	switch rng.Intn(4) {
	case 0:
		rh.ConsensusPayload = nil
	case 1:
		rh.ConsensusPayload = rng.Bytes(0xfd + rng.Intn(300)) // three-byte length prefix
	default:
		rh.ConsensusPayload = rng.Bytes(1 + rng.Intn(200))
	}
	rb := &types.Block{Header: rh}
	for _, p := range txs {
		tx, err := types.TransactionFromRawBytes(clone(p.raw))
		if err != nil {
			r.Inconclusive("pool transaction does not decode: " + err.Error())
			return
		}
		rb.Transactions = append(rb.Transactions, tx)
	}
	rb.RebuildMerkleRoot()
	root1 := rh.TransactionsRoot
	rb.RebuildMerkleRoot()
	if rh.TransactionsRoot != root1 {
		r.Violation("merkle:rebuild-not-repeatable", "RebuildMerkleRoot gives another root the second time", map[string]interface{}{"ntx": ntx, "first": root1.ToHexString(), "second": rh.TransactionsRoot.ToHexString()})
	}
	for k, tx := range rb.Transactions {
		if tx.Hash() != txs[k].hash {
			r.Violation("merkle:transaction-hash-disturbed", "computing the root changed a transaction hash", map[string]interface{}{"index": k})
		}
	}
	hh := rh.Hash()
	nsig := nbk
	if rng.Chance(15) {
		nsig = rng.Intn(nbk + 2)
	}
	for k := 0; k < nsig; k++ {
		if k < len(keys) && !heavy {
			if s, err := keys[k].Sign(hh[:]); err == nil {
				rh.SigData = append(rh.SigData, s)
				continue
			}
		}
		rh.SigData = append(rh.SigData, rng.Bytes(1+rng.Intn(70)))
	}
	var realBytes []byte
	if p := vf.Catch(func() { realBytes = rb.ToArray() }); p != nil {
		r.Violation("panic:ToArray:generated", fmt.Sprint(p), map[string]interface{}{"ntx": ntx, "nbk": nbk})
		return
	}
	h, err := hdrOf(rh)
	if err != nil {
		r.Inconclusive(err.Error())
		return
	}
	raws := make([][]byte, ntx)
	hashes := make([]common.Uint256, ntx)
	for k, p := range txs {
		raws[k], hashes[k] = p.raw, p.hash
	}
	b, lay := encodeBlock(h, raws)
	if !bytes.Equal(b, realBytes) {
		r.Inconclusive("the monitor's block encoder disagrees with Block.ToArray on a generated block")
		return
	}
	r.Eval(fp("base", b))
	t.inc(fmt.Sprintf("base_ntx=%02d", ntx))
	t.inc(fmt.Sprintf("base_nbk=%d", nbk))
	if i < 3 {
		r.Sample(map[string]interface{}{"case": i, "ntx": ntx, "bookkeepers": nbk, "len": len(b), "header": vf.Hex(b[:lay.total]), "hash": hh.ToHexString()})
	}
	base := judge(b, "base", false, t)
	if base == nil {
		r.Violation("valid-rejected", "a generated valid block is rejected", witness(b, nil))
		return
	}
	if base.consumed != len(b) {
		r.Violation("valid-partially-consumed", "decoder did not consume the whole block", witness(b, map[string]interface{}{"consumed": base.consumed}))
		return
	}
	if base.hash != hh {
		r.Violation("hash:decode-changes-hash", "decoded block hash differs from the hash of the header it was built from", witness(b, nil))
	}
	for k, tx := range base.blk.Transactions {
		if tx.Hash() != hashes[k] {
			r.Violation("decode:transaction-hash-differs", "decoded transaction has another hash than the one encoded", witness(b, map[string]interface{}{"index": k}))
		}
	}
	noteHash(hh, b[:lay.unsigned], b)

	// ------------------------------------------------ transaction-list mutations
	withList := func(fam string, list [][]byte, lh []common.Uint256, mustReject bool) *accepted {
		m, _ := encodeBlock(h, list)
		r.Eval(fp(fam, m))
		t.inc("list_" + fam)
		a := judge(m, fam, mustReject, t)
		if a == nil {
			t.inc("list_" + fam + "_rejected")
		} else {
			t.inc("list_" + fam + "_accepted")
		}
		// control: the same list with the root rebuilt is accepted, unless it has a duplicate
		h2 := *h
		h2.txroot = realRoot(lh)
		hasDup := false
		seen := map[common.Uint256]bool{}
		for _, x := range lh {
			if seen[x] {
				hasDup = true
			}
			seen[x] = true
		}
		m2, _ := encodeBlock(&h2, list)
		r.Eval(fp(fam+"+root", m2))
		c := judge(m2, fam+"+root-rebuilt", hasDup, t)
		switch {
		case hasDup && c == nil:
			t.inc("duplicate_with_matching_root_rejected")
		case !hasDup && c != nil:
			t.inc("control_root_rebuilt_accepted")
		case !hasDup:
			t.inc("control_root_rebuilt_rejected")
		}
		return a
	}
	if ntx >= 2 {
		// reorder
		for _, kind := range []string{"swap", "reverse", "rotate"} {
			p := make([]int, ntx)
			for k := range p {
				p[k] = k
			}
			switch kind {
			case "swap":
				x := rng.Intn(ntx)
				y := (x + 1 + rng.Intn(ntx-1)) % ntx
				p[x], p[y] = p[y], p[x]
			case "reverse":
				for k := range p {
					p[k] = ntx - 1 - k
				}
			default:
				s := 1 + rng.Intn(ntx-1)
				for k := range p {
					p[k] = (k + s) % ntx
				}
			}
			l2 := make([][]byte, ntx)
			h2 := make([]common.Uint256, ntx)
			for k, j := range p {
				l2[k], h2[k] = raws[j], hashes[j]
			}
			if realRoot(h2) == h.txroot {
				t.inc("reorder_root_unchanged")
				continue
			}
			withList("reorder-"+kind, l2, h2, true)
		}
	}
	if ntx >= 1 {
		// duplicate one transaction at a random place
		x, at := rng.Intn(ntx), rng.Intn(ntx+1)
		l2 := append(append(append([][]byte(nil), raws[:at]...), raws[x]), raws[at:]...)
		h2 := append(append(append([]common.Uint256(nil), hashes[:at]...), hashes[x]), hashes[at:]...)
		withList("duplicate", l2, h2, true)
		// duplicate tail: repeating the last 2^k transactions keeps a Bitcoin-style root when the level is odd
		for k := uint(0); (1 << k) <= ntx; k++ {
			w := 1 << k
			if ntx%w == 0 && (ntx/w)%2 == 1 && ntx/w >= 3 {
				l2 := append(append([][]byte(nil), raws...), raws[ntx-w:]...)
				h2 := append(append([]common.Uint256(nil), hashes...), hashes[ntx-w:]...)
				if realRoot(h2) == h.txroot {
					t.inc("duplicate_tail_root_unchanged")
				} else {
					t.inc("duplicate_tail_root_changed")
				}
				withList("duplicate-tail", l2, h2, true)
			}
		}
		// the same transaction twice with different signature bytes
		var cand []int
		for k, p := range txs {
			if p.ont && len(p.tx.Sigs) > 0 {
				cand = append(cand, k)
			}
		}
		if len(cand) > 0 {
			x := cand[rng.Intn(len(cand))]
			if v := sigVariant(txs[x], rng); v != nil {
				l2 := append(append([][]byte(nil), raws...), v)
				h2 := append(append([]common.Uint256(nil), hashes...), hashes[x])
				withList("duplicate-other-signatures", l2, h2, true)
				// replacing a transaction by its signature variant keeps list and root: not rejected by the statement
				l3 := append([][]byte(nil), raws...)
				l3[x] = v
				m, _ := encodeBlock(h, l3)
				r.Eval(fp("sig-variant", m))
				t.inc("list_sig-variant")
				if a := judge(m, "sig-variant", false, t); a != nil {
					t.inc("list_sig-variant_accepted")
					if a.hash != hh {
						r.Violation("hash:depends-on-transaction-signatures", "block hash changed with a transaction's signature bytes", witness(m, nil))
					}
				}
			}
		}
		// drop
		x = rng.Intn(ntx)
		withList("drop", append(append([][]byte(nil), raws[:x]...), raws[x+1:]...), append(append([]common.Uint256(nil), hashes[:x]...), hashes[x+1:]...), true)
		// replace
		x = rng.Intn(ntx)
		l2 = append([][]byte(nil), raws...)
		h2 = append([]common.Uint256(nil), hashes...)
		l2[x], h2[x] = spare.raw, spare.hash
		withList("replace", l2, h2, true)
	}
	// add
	withList("add", append(append([][]byte(nil), raws...), spare.raw), append(append([]common.Uint256(nil), hashes...), spare.hash), true)
	// count field off by one (list bytes untouched)
	for _, d := range []int{-1, 1} {
		if ntx+d < 0 {
			continue
		}
		m := clone(b)
		binary.LittleEndian.PutUint32(m[lay.total:], uint32(ntx+d))
		fam := "count-minus-1"
		if d > 0 {
			fam = "count-plus-1"
		}
		r.Eval(fp(fam, m))
		t.inc("list_" + fam)
		// count-1 drops the last (distinct) transaction, count+1 runs into the end of the input
		if a := judge(m, fam, true, t); a == nil {
			t.inc("list_" + fam + "_rejected")
		}
	}

	// ------------------------------------------------ header fields at struct level
	fieldVariant := func(name string, mod func(x *types.Header), wantChange bool) {
		x := &types.Header{Version: rh.Version, PrevBlockHash: rh.PrevBlockHash, TransactionsRoot: rh.TransactionsRoot, BlockRoot: rh.BlockRoot, Timestamp: rh.Timestamp, Height: rh.Height,
			ConsensusData: rh.ConsensusData, ConsensusPayload: clone(rh.ConsensusPayload), NextBookkeeper: rh.NextBookkeeper, Bookkeepers: txgen.Pubs(keys), SigData: append([][]byte(nil), rh.SigData...)}
		mod(x)
		var hx common.Uint256
		var enc []byte
		if p := vf.Catch(func() { hx = x.Hash(); enc = x.ToArray() }); p != nil {
			r.Violation("panic:Header.Hash:"+name, fmt.Sprint(p), nil)
			return
		}
		r.Eval(fp("hdr-"+name, enc))
		t.inc("hdrfield_" + name)
		if wantChange && hx == hh {
			r.Violation("hash:ignores-header-field:"+name, "block hash unchanged although "+name+" changed", map[string]interface{}{"header": vf.Hex(enc), "original_header": vf.Hex(b[:lay.total])})
		}
		if !wantChange && hx != hh {
			r.Violation("hash:covers-signer-data:"+name, "block hash changed although only "+name+" changed", map[string]interface{}{"header": vf.Hex(enc), "original_header": vf.Hex(b[:lay.total])})
		}
		// the variant header decodes back to itself
		var back *types.Header
		var e error
		if p := vf.Catch(func() { back, e = types.HeaderFromRawBytes(clone(enc)) }); p != nil {
			r.Violation("panic:HeaderFromRawBytes:"+name, fmt.Sprint(p), map[string]interface{}{"header": vf.Hex(enc)})
			return
		}
		if e != nil {
			r.Violation("header-roundtrip:rejected:"+name, "an encoded header is rejected: "+e.Error(), map[string]interface{}{"header": vf.Hex(enc)})
			return
		}
		if back.Hash() != hx || !bytes.Equal(back.ToArray(), enc) {
			r.Violation("header-roundtrip:differs:"+name, "header does not round-trip", map[string]interface{}{"header": vf.Hex(enc)})
		}
	}
	bit := func() byte { return byte(1 << uint(rng.Intn(8))) }
	fieldVariant("Version", func(x *types.Header) { x.Version ^= 1 << uint(rng.Intn(32)) }, true)
	fieldVariant("PrevBlockHash", func(x *types.Header) { x.PrevBlockHash[rng.Intn(32)] ^= bit() }, true)
	fieldVariant("TransactionsRoot", func(x *types.Header) { x.TransactionsRoot[rng.Intn(32)] ^= bit() }, true)
	fieldVariant("BlockRoot", func(x *types.Header) { x.BlockRoot[rng.Intn(32)] ^= bit() }, true)
	fieldVariant("Timestamp", func(x *types.Header) { x.Timestamp ^= 1 << uint(rng.Intn(32)) }, true)
	fieldVariant("Height", func(x *types.Header) { x.Height ^= 1 << uint(rng.Intn(32)) }, true)
	fieldVariant("ConsensusData", func(x *types.Header) { x.ConsensusData ^= 1 << uint(rng.Intn(64)) }, true)
	fieldVariant("ConsensusPayload-append", func(x *types.Header) { x.ConsensusPayload = append(x.ConsensusPayload, byte(rng.Intn(256))) }, true)
	if len(rh.ConsensusPayload) > 0 {
		fieldVariant("ConsensusPayload-bit", func(x *types.Header) { x.ConsensusPayload[rng.Intn(len(x.ConsensusPayload))] ^= bit() }, true)
		fieldVariant("ConsensusPayload-truncate", func(x *types.Header) { x.ConsensusPayload = x.ConsensusPayload[:len(x.ConsensusPayload)-1] }, true)
	}
	fieldVariant("NextBookkeeper", func(x *types.Header) { x.NextBookkeeper[rng.Intn(20)] ^= bit() }, true)
	// two fields exchanged: same bytes, other positions
	if rh.PrevBlockHash != rh.BlockRoot {
		fieldVariant("PrevBlockHash-BlockRoot-swapped", func(x *types.Header) { x.PrevBlockHash, x.BlockRoot = x.BlockRoot, x.PrevBlockHash }, true)
	}
	if rh.Timestamp != rh.Height {
		fieldVariant("Timestamp-Height-swapped", func(x *types.Header) { x.Timestamp, x.Height = x.Height, x.Timestamp }, true)
	}
	if !heavy {
		fieldVariant("Bookkeepers-add", func(x *types.Header) {
			x.Bookkeepers = append(x.Bookkeepers, txgen.PickKind(rng, txgen.Kind(1+rng.Intn(int(txgen.NumKinds)-1))).Pub)
		}, false)
		if nbk > 0 {
			fieldVariant("Bookkeepers-remove", func(x *types.Header) { x.Bookkeepers = x.Bookkeepers[:len(x.Bookkeepers)-1] }, false)
			fieldVariant("Bookkeepers-replace", func(x *types.Header) {
				x.Bookkeepers[rng.Intn(len(x.Bookkeepers))] = txgen.PickKind(rng, txgen.Kind(1+rng.Intn(int(txgen.NumKinds)-1))).Pub
			}, false)
			fieldVariant("Bookkeepers-clear", func(x *types.Header) { x.Bookkeepers = nil }, false)
		}
		fieldVariant("SigData-add", func(x *types.Header) { x.SigData = append(x.SigData, rng.Bytes(1+rng.Intn(70))) }, false)
		if len(rh.SigData) > 0 {
			fieldVariant("SigData-bit", func(x *types.Header) {
				k := rng.Intn(len(x.SigData))
				s := clone(x.SigData[k])
				s[rng.Intn(len(s))] ^= bit()
				x.SigData[k] = s
			}, false)
			fieldVariant("SigData-clear", func(x *types.Header) { x.SigData = nil }, false)
		}
	}

	// ------------------------------------------------ alternative encodings of bookkeeper keys
	if !heavy {
		for k, key := range keys {
			var forms []string
			switch key.Kind {
			case txgen.ECDSAP256:
				forms = []string{"p256-uncompressed", "p256-long-form", "p256-trailing-bytes"}
			case txgen.ECDSAP384, txgen.ECDSAP521, txgen.SM2:
				forms = []string{"ec-uncompressed", "ec-trailing-bytes"}
			}
			for _, form := range forms {
				alt := altKeyBytes(rng, key, form)
				if alt == nil {
					continue
				}
				h2 := *h
				h2.bks = append([][]byte(nil), h.bks...)
				h2.bks[k] = alt
				m, _ := encodeBlock(&h2, raws)
				r.Eval(fp("altkey-"+form, m))
				t.inc("altkey_" + form)
				if a := judge(m, "alt-bookkeeper-encoding", false, t); a != nil {
					t.inc("altkey_" + form + "_accepted")
					if a.hash != hh {
						r.Violation("hash:covers-signer-data:alt-key-encoding", "block hash changed with the encoding of a bookkeeper key", witness(m, nil))
					}
				} else {
					t.inc("altkey_" + form + "_rejected")
				}
			}
		}
	}

	// ------------------------------------------------ byte level: flips, truncations, appended bytes
	capFlip, capTrunc := vf.N(768, 1024), vf.N(256, 384)
	if heavy {
		capFlip, capTrunc = 64, 32
	}
	region := func(p int) string {
		for _, f := range lay.fields {
			if p >= f.from && p < f.to {
				return f.name
			}
		}
		if p < lay.total+4 {
			return "TxCount"
		}
		return "Transactions"
	}
	for _, p := range positions(rng, len(b), lay.total+4, capFlip) {
		m := clone(b)
		m[p] ^= bit()
		reg := region(p)
		r.Eval(fp("flip", m))
		t.inc("flip_" + reg)
		a := judgePaths(m, "flip-"+reg, false, p%16 == 0, t)
		if a == nil {
			t.inc("flip_" + reg + "_rejected")
			continue
		}
		t.inc("flip_" + reg + "_accepted")
		if a.consumed != len(m) {
			t.inc("flip_accepted_with_unconsumed_tail") // allowed: the oracle is about the consumed bytes
		}
		if p < lay.unsigned {
			if a.hash == hh {
				r.Violation("hash:ignores-header-byte:"+reg, "a changed byte of the unsigned header does not change the block hash", witness(m, map[string]interface{}{"position": p, "original_header": vf.Hex(b[:lay.total])}))
			}
		} else if a.hash != hh {
			r.Violation("hash:covers-byte-outside-unsigned-header:"+reg, "a changed byte outside the unsigned header changes the block hash", witness(m, map[string]interface{}{"position": p, "original_header": vf.Hex(b[:lay.total])}))
		}
	}
	for _, k := range positions(rng, len(b), 0, capTrunc) {
		m := clone(b[:k])
		r.Eval(fp("truncate", m))
		t.inc("truncate")
		if a := judgePaths(m, "truncate", false, k%16 == 0, t); a != nil {
			r.Violation("truncation-accepted", "a proper prefix of a valid block is accepted", witness(m, map[string]interface{}{"original_len": len(b)}))
		}
	}
	{
		m := append(clone(b), rng.Bytes(1+rng.Intn(40))...)
		r.Eval(fp("append", m))
		t.inc("append")
		if a := judge(m, "append", false, t); a != nil {
			if a.consumed != len(b) || a.hash != hh {
				r.Violation("append:consumed-differs", "with trailing bytes another block is decoded", witness(m, map[string]interface{}{"original_len": len(b), "consumed": a.consumed}))
			}
			t.inc("append_prefix_consumed")
		}
	}
	// non-minimal length prefixes in the header
	for _, nm := range []string{"ConsensusPayload", "Bookkeepers", "SigData"} {
		for _, f := range lay.fields {
			if f.name != nm {
				continue
			}
			v, n, ok := readVar(b, f.from)
			if !ok || n != 1 {
				continue
			}
			m := append(append(clone(b[:f.from]), 0xfd, byte(v), 0), b[f.from+1:]...)
			r.Eval(fp("nonminimal", m))
			t.inc("nonminimal_" + nm)
			if a := judge(m, "nonminimal-"+nm, false, t); a == nil {
				t.inc("nonminimal_" + nm + "_rejected")
			}
			// the length prefix of an ELEMENT of the list (a signer key / a signature), in every wider form
			if nm != "ConsensusPayload" && v >= 1 {
				el := int(rng.Intn(int(v)))
				off := f.from + n
				okEl := true
				for k := 0; k < el && okEl; k++ {
					ev, en, ok := readVar(b, off)
					okEl = ok
					off += en + int(ev)
				}
				if ev, en, ok := readVar(b, off); okEl && ok && en == 1 {
					for _, wide := range [][]byte{{0xfd, byte(ev), 0}, {0xfe, byte(ev), 0, 0, 0}, {0xff, byte(ev), 0, 0, 0, 0, 0, 0, 0}} {
						m := append(append(clone(b[:off]), wide...), b[off+1:]...)
						r.Eval(fp("nonminimal-element", m))
						t.inc("nonminimal_element_" + nm)
						if a := judge(m, "nonminimal-element-"+nm, false, t); a == nil {
							t.inc("nonminimal_element_" + nm + "_rejected")
						}
					}
				}
			}
		}
	}
}

// minimalAltKeyCases: the smallest block (all-zero header, no transactions, no signatures) with
// one bookkeeper key in each alternative encoding; runs first so that a replay file of an
// alternative-encoding finding holds a minimal witness.
func minimalAltKeyCases() {
	t := tally{}
	defer t.flush()
	for _, c := range []struct {
		kind txgen.Kind
		form string
	}{{txgen.ECDSAP256, "p256-uncompressed"}, {txgen.ECDSAP256, "p256-long-form"}, {txgen.ECDSAP256, "p256-trailing-bytes"}, {txgen.ECDSAP384, "ec-uncompressed"}, {txgen.SM2, "ec-uncompressed"}, {txgen.ECDSAP521, "ec-trailing-bytes"}} {
		key := txgen.Pool(c.kind)[0]
		h := &hdr{bks: [][]byte{key.PubBytes()}}
		cano, _ := encodeBlock(h, nil)
		r.Eval(fp("minimal-canonical", cano))
		if a := judge(cano, "minimal-canonical-key", false, t); a == nil {
			r.Violation("valid-rejected", "minimal block with one canonical bookkeeper key is rejected", witness(cano, nil))
			continue
		}
		h.bks = [][]byte{altKeyBytes(vf.NewRNG(7), key, c.form)}
		m, _ := encodeBlock(h, nil)
		r.Eval(fp("minimal-altkey", m))
		t.inc("altkey_minimal")
		if a := judge(m, "alt-bookkeeper-encoding", false, t); a != nil {
			t.inc("altkey_minimal_accepted")
		}
	}
}

// ---------------------------------------------------------------- ComputeMerkleRoot on its own

func merkleCases(rng *vf.RNG) {
	t := tally{}
	defer t.flush()
	for n := 0; n <= vf.N(70, 300); n++ {
		hs := make([]common.Uint256, n)
		for k := range hs {
			copy(hs[k][:], rng.Bytes(32))
		}
		keep := append([]common.Uint256(nil), hs...)
		var r1, r2 common.Uint256
		if p := vf.Catch(func() { r1 = realRoot(hs); r2 = realRoot(hs) }); p != nil {
			r.Violation("panic:ComputeMerkleRoot", fmt.Sprint(p), map[string]interface{}{"n": n})
			continue
		}
		r.Eval(fmt.Sprintf("merkle/%d/%x", n, r1[:4]))
		t.inc("merkle_recomputed")
		for k := range hs {
			if hs[k] != keep[k] {
				r.Violation("merkle:copy-disturbed", "ComputeMerkleRoot on a copy changed the original", map[string]interface{}{"n": n})
				break
			}
		}
		if r1 != r2 {
			r.Violation("merkle:not-repeatable", "two computations over the same hashes differ", map[string]interface{}{"n": n, "first": r1.ToHexString(), "second": r2.ToHexString()})
		}
		if refMerkle(hs) != r1 {
			refMerkleDiffers = true
		}
		if n >= 2 {
			sw := append([]common.Uint256(nil), hs...)
			x := rng.Intn(n)
			y := (x + 1 + rng.Intn(n-1)) % n
			sw[x], sw[y] = sw[y], sw[x]
			if realRoot(sw) == r1 {
				r.Violation("merkle:order-insensitive", "swapping two leaves keeps the root", map[string]interface{}{"n": n, "x": x, "y": y})
			}
			if realRoot(hs[:n-1]) == r1 {
				t.inc("merkle_drop_last_same_root") // only for the duplicate-tail shape, impossible for random leaves
				r.Violation("merkle:drop-insensitive", "dropping the last leaf keeps the root", map[string]interface{}{"n": n})
			}
		}
	}
}

func main() {
	r = vf.NewRun("C20", "exploration",
		"blocks with i%41 transactions drawn from a pool of generated mixed transactions (txgen) and (i/3)%8 bookkeepers over all key types, random header fields; per block: list mutations (reorder x3, duplicate, duplicate-tail, same tx with other signatures, drop, replace, add, count+-1) each also with the root rebuilt, header-field variants, alternative bookkeeper key encodings, single-byte flips (whole header + sampled body), truncations, appended bytes, non-minimal prefixes; distinct by family+bytes")
	types.CheckChainID = true
	config.DefConfig.P2PNode.EVMChainId = chainID
	rng := vf.NewRNG(vf.Seed())
	for k := txgen.Kind(0); k < txgen.NumKinds; k++ {
		txgen.Pool(k)
	}
	pool := buildPool(rng.Sub(1<<40), vf.N(400, 2000))
	if len(pool) < 100 {
		r.Inconclusive(fmt.Sprintf("transaction pool too small: %d", len(pool)))
		r.Finish()
	}
	r.Extra("tx_pool", len(pool))
	minimalAltKeyCases()
	nblocks := vf.N(300, 4000)
	vf.Parallel(nblocks, runtime.NumCPU(), func(i int) { blockCase(i, rng.Sub(uint64(i)), pool) })
	merkleCases(rng.Sub(2 << 40))

	if refMerkleDiffers {
		r.Inconclusive("ComputeMerkleRoot differs from the monitor's Bitcoin-style reference tree: the duplicate-tail shapes may not be the root-preserving ones")
	}
	for n := 0; n <= 40; n++ {
		r.Require(fmt.Sprintf("base_ntx=%02d", n), int64(nblocks/41)-1)
	}
	for n := 0; n <= 7; n++ {
		r.Require(fmt.Sprintf("base_nbk=%d", n), int64(nblocks/8)-2)
	}
	for k := txgen.Kind(0); k < txgen.NumKinds; k++ {
		r.Require("bookkeeper_"+k.String(), 5)
	}
	r.Require("roundtrip_checked", int64(nblocks))
	r.Require("binding_checked", int64(nblocks))
	for _, f := range []string{"reorder-swap", "reorder-reverse", "reorder-rotate", "duplicate", "duplicate-tail", "duplicate-other-signatures", "drop", "replace", "add", "count-minus-1", "count-plus-1"} {
		r.Require("list_"+f, 50)
	}
	r.Require("list_sig-variant_accepted", 50)
	r.Require("duplicate_tail_root_unchanged", 50)
	r.Require("duplicate_with_matching_root_rejected", 100)
	r.Require("control_root_rebuilt_accepted", 500)
	for _, f := range []string{"Version", "PrevBlockHash", "TransactionsRoot", "BlockRoot", "Timestamp", "Height", "ConsensusData", "ConsensusPayload-append", "ConsensusPayload-bit", "ConsensusPayload-truncate", "NextBookkeeper",
		"PrevBlockHash-BlockRoot-swapped", "Timestamp-Height-swapped", "Bookkeepers-add", "Bookkeepers-remove", "Bookkeepers-replace", "Bookkeepers-clear", "SigData-add", "SigData-bit", "SigData-clear"} {
		r.Require("hdrfield_"+f, 100)
	}
	for _, f := range []string{"Version", "PrevBlockHash", "BlockRoot", "Timestamp", "Height", "ConsensusData", "ConsensusPayload", "NextBookkeeper", "Bookkeepers", "SigData", "Transactions"} {
		r.Require("flip_"+f+"_accepted", 100)
	}
	r.Require("flip_TransactionsRoot_rejected", 1000)
	r.Require("flip_TxCount_rejected", 100)
	r.Require("flip_Transactions_rejected", 1000)
	for _, f := range []string{"p256-uncompressed", "p256-long-form", "p256-trailing-bytes", "ec-uncompressed", "ec-trailing-bytes"} {
		r.Require("altkey_"+f, 20)
	}
	r.Require("truncate", 1000)
	r.Require("append_prefix_consumed", int64(nblocks)/2)
	for _, f := range []string{"ConsensusPayload", "Bookkeepers", "SigData"} {
		r.Require("nonminimal_"+f, 100)
	}
	r.Require("merkle_recomputed", 50)
	r.Assume("ComputeMerkleRoot documents that it uses its argument as workspace: purity is observed at the API the block code uses (fresh copies, RebuildMerkleRoot twice, transaction hashes afterwards), not on a re-used caller slice")
	r.Assume("replacing a transaction by a same-hash signature variant keeps list and root, so the statement does not require rejection; the monitor requires exact re-encoding and an unchanged block hash")
	r.Assume("header Hash() caches its result: field variants are evaluated on fresh Header values")
	r.Finish()
}
